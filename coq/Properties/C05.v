(* C05 - Metropolis-Hastings acceptance rule, including zero and undefined ratios. *)
From Coq Require Import QArith Bool.
From LV Require Import Base.Xnum Goose.MH Goose.MHProofs Goose.MHKernel Goose.MHKernelProofs.
Open Scope Q_scope.

Theorem C05_accept_iff : forall exp_o cur prop corr u qu qp,
  u = XFin qu -> prob (mh_decide exp_o Lt cur prop corr u) = XFin qp ->
  (accept (mh_decide exp_o Lt cur prop corr u) = true <-> qu < qp).
Proof. exact accept_iff_lt. Qed.
Print Assumptions C05_accept_iff.

Theorem C05_prob_range : forall exp_o, exp_ok exp_o -> forall c cur prop corr u,
  exists q, prob (mh_decide exp_o c cur prop corr u) = XFin q /\ 0 <= q /\ q <= 1.
Proof. exact prob_range. Qed.
Print Assumptions C05_prob_range.

Theorem C05_zero_never : forall exp_o cur prop corr u,
  unit_interval u ->
  prob (mh_decide exp_o Lt cur prop corr u) = XFin 0 ->
  accept (mh_decide exp_o Lt cur prop corr u) = false.
Proof. exact zero_never. Qed.
Print Assumptions C05_zero_never.

Theorem C05_zero_density_never : forall exp_o, exp_ok exp_o -> forall cur corr u qc qk,
  unit_interval u -> cur = XFin qc -> corr = XFin qk ->
  accept (mh_decide exp_o Lt cur XNegInf corr u) = false.
Proof. exact zero_density_never. Qed.
Print Assumptions C05_zero_density_never.

Theorem C05_one_always : forall exp_o c cur prop corr u,
  unit_interval u ->
  prob (mh_decide exp_o c cur prop corr u) = XFin 1 ->
  accept (mh_decide exp_o c cur prop corr u) = true.
Proof. exact one_always. Qed.
Print Assumptions C05_one_always.

Theorem C05_nan_is_rejection : forall exp_o, exp_ok exp_o -> forall cur prop corr u,
  unit_interval u ->
  xisnan (xadd (xsub prop cur) corr) = true ->
  let o := mh_decide exp_o Lt cur prop corr u in
  code o = 90%nat /\ prob o = XFin 0 /\ accept o = false.
Proof. exact nan_is_rejection. Qed.
Print Assumptions C05_nan_is_rejection.

Theorem C05_error_code : forall exp_o c cur prop corr u,
  code (mh_decide exp_o c cur prop corr u) =
  if xisnan (xadd (xsub prop cur) corr) then 90%nat else 0%nat.
Proof. exact code_is_0_or_90. Qed.
Print Assumptions C05_error_code.

Theorem C05_state_select : forall exp_o (S : Type) c cur prop corr u (proposed input : S),
  let o := mh_decide exp_o c cur prop corr u in
  (accept o = false -> mh_select o proposed input = input)
  /\ (accept o = true -> mh_select o proposed input = proposed).
Proof. intros exp_o S. exact (@state_select exp_o S). Qed.
Print Assumptions C05_state_select.

(* the code as found (uniform <= acceptance_prob): refuted, defect F3 *)
Theorem C05_le_refuted :
  exists cur prop corr u, unit_interval u /\
    prob (mh_decide exp_stub Le cur prop corr u) = XFin 0 /\
    accept (mh_decide exp_stub Le cur prop corr u) = true.
Proof. exact le_refuted. Qed.
Print Assumptions C05_le_refuted.

(* ---- kernel level: RWKernel / MHKernel / IWLSKernel hand prop - cur + corr, unsanitised, to the accept rule ---- *)
Theorem C05_kernel_decide_is_mh_decide : forall exp_o c k g,
  kernel_decide exp_o Forward c k g = mh_decide exp_o c (g_cur g) (g_prop g) (kernel_corr k g) (g_u g).
Proof. exact kernel_decide_is_mh_decide. Qed.
Print Assumptions C05_kernel_decide_is_mh_decide.

Theorem C05_kernel_error_code : forall exp_o c k g,
  code (kernel_decide exp_o Forward c k g) = if xisnan (kernel_ratio k g) then 90%nat else 0%nat.
Proof. exact kernel_error_code. Qed.
Print Assumptions C05_kernel_error_code.

Theorem C05_kernel_nan_is_rejection : forall exp_o, exp_ok exp_o ->
  forall (S K : Type) k g (ks : K) (proposed input : S),
  unit_interval (g_u g) ->
  ingr_nan k g = true ->
  let r := kernel_transition exp_o Forward Lt k g ks proposed input in
  code (ko_info r) = 90%nat /\ prob (ko_info r) = XFin 0 /\ accept (ko_info r) = false
  /\ ko_mstate r = input /\ ko_kstate r = ks.
Proof. intros exp_o H S K. exact (@kernel_nan_is_rejection exp_o H S K). Qed.
Print Assumptions C05_kernel_nan_is_rejection.

Theorem C05_kernel_undefined_is_rejection : forall exp_o, exp_ok exp_o ->
  forall (S K : Type) k g (ks : K) (proposed input : S),
  unit_interval (g_u g) ->
  xisnan (kernel_ratio k g) = true ->
  let r := kernel_transition exp_o Forward Lt k g ks proposed input in
  code (ko_info r) = 90%nat /\ prob (ko_info r) = XFin 0 /\ accept (ko_info r) = false
  /\ ko_mstate r = input /\ ko_kstate r = ks.
Proof. intros exp_o H S K. exact (@kernel_undefined_is_rejection exp_o H S K). Qed.
Print Assumptions C05_kernel_undefined_is_rejection.

Theorem C05_iwls_inf_minus_inf : forall g,
  (g_fwd g = XPosInf /\ g_bwd g = XPosInf) \/ (g_fwd g = XNegInf /\ g_bwd g = XNegInf) ->
  xisnan (kernel_ratio KIWLS g) = true.
Proof. exact iwls_inf_minus_inf. Qed.
Print Assumptions C05_iwls_inf_minus_inf.

Theorem C05_kernel_accept_iff : forall exp_o s k g qu qp,
  g_u g = XFin qu -> prob (kernel_decide exp_o s Lt k g) = XFin qp ->
  (accept (kernel_decide exp_o s Lt k g) = true <-> qu < qp).
Proof. exact kernel_accept_iff. Qed.
Print Assumptions C05_kernel_accept_iff.

Theorem C05_kernel_prob_range : forall exp_o, exp_ok exp_o -> forall s c k g,
  exists q, prob (kernel_decide exp_o s c k g) = XFin q /\ 0 <= q /\ q <= 1.
Proof. exact kernel_prob_range. Qed.
Print Assumptions C05_kernel_prob_range.

Theorem C05_kernel_state_select : forall exp_o (S K : Type) s c k g (ks : K) (proposed input : S),
  let r := kernel_transition exp_o s c k g ks proposed input in
  ko_kstate r = ks
  /\ (accept (ko_info r) = false -> ko_mstate r = input)
  /\ (accept (ko_info r) = true -> ko_mstate r = proposed).
Proof. intros exp_o S K. exact (@kernel_state_select exp_o S K). Qed.
Print Assumptions C05_kernel_state_select.

(* a kernel that sanitises its correction (jnp.nan_to_num) before the accept rule: refuted *)
Theorem C05_kernel_sanitised_refuted :
  exists g, unit_interval (g_u g) /\ ingr_nan KIWLS g = true /\
    code (kernel_decide exp_stub Sanitise Lt KIWLS g) = 0%nat /\
    accept (kernel_decide exp_stub Sanitise Lt KIWLS g) = true.
Proof. exact sanitised_refuted. Qed.
Print Assumptions C05_kernel_sanitised_refuted.

Example C05_kernel_nan_witness :
  unit_interval (g_u g_witness) /\ ingr_nan KIWLS g_witness = true /\
  kernel_transition exp_stub Forward Lt KIWLS g_witness tt 1%nat 0%nat
  = mkKO (mkMH 90 (XFin 0) false) tt 0%nat.
Proof. exact kernel_nan_witness. Qed.
