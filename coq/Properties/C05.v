(* C05 - Metropolis-Hastings acceptance rule, including zero and undefined ratios. *)
From Coq Require Import QArith Bool.
From LV Require Import Base.Xnum Goose.MH Goose.MHProofs.
Open Scope Q_scope.

Theorem C05_accept_iff : forall exp_o cur prop corr u qu qp,
  u = XFin qu -> prob (mh_decide exp_o Lt cur prop corr u) = XFin qp ->
  (accept (mh_decide exp_o Lt cur prop corr u) = true <-> qu < qp).
Proof. exact accept_iff_lt. Qed.
Print Assumptions C05_accept_iff.

Theorem C05_prob_range : forall exp_o, exp_ok exp_o -> forall c cur prop corr u,
  exists q, prob (mh_decide exp_o c cur prop corr u) = XFin q /\ 0 <= q /\ q <= 1.
Proof. exact prob_range. Qed.
Print Assumptions C05_prob_range.

Theorem C05_zero_never : forall exp_o cur prop corr u,
  unit_interval u ->
  prob (mh_decide exp_o Lt cur prop corr u) = XFin 0 ->
  accept (mh_decide exp_o Lt cur prop corr u) = false.
Proof. exact zero_never. Qed.
Print Assumptions C05_zero_never.

Theorem C05_zero_density_never : forall exp_o, exp_ok exp_o -> forall cur corr u qc qk,
  unit_interval u -> cur = XFin qc -> corr = XFin qk ->
  accept (mh_decide exp_o Lt cur XNegInf corr u) = false.
Proof. exact zero_density_never. Qed.
Print Assumptions C05_zero_density_never.

Theorem C05_one_always : forall exp_o c cur prop corr u,
  unit_interval u ->
  prob (mh_decide exp_o c cur prop corr u) = XFin 1 ->
  accept (mh_decide exp_o c cur prop corr u) = true.
Proof. exact one_always. Qed.
Print Assumptions C05_one_always.

Theorem C05_nan_is_rejection : forall exp_o, exp_ok exp_o -> forall cur prop corr u,
  unit_interval u ->
  xisnan (xadd (xsub prop cur) corr) = true ->
  let o := mh_decide exp_o Lt cur prop corr u in
  code o = 90%nat /\ prob o = XFin 0 /\ accept o = false.
Proof. exact nan_is_rejection. Qed.
Print Assumptions C05_nan_is_rejection.

Theorem C05_error_code : forall exp_o c cur prop corr u,
  code (mh_decide exp_o c cur prop corr u) =
  if xisnan (xadd (xsub prop cur) corr) then 90%nat else 0%nat.
Proof. exact code_is_0_or_90. Qed.
Print Assumptions C05_error_code.

Theorem C05_state_select : forall exp_o (S : Type) c cur prop corr u (proposed input : S),
  let o := mh_decide exp_o c cur prop corr u in
  (accept o = false -> mh_select o proposed input = input)
  /\ (accept o = true -> mh_select o proposed input = proposed).
Proof. intros exp_o S. exact (@state_select exp_o S). Qed.
Print Assumptions C05_state_select.

(* the code as found (uniform <= acceptance_prob): refuted, defect F3 *)
Theorem C05_le_refuted :
  exists cur prop corr u, unit_interval u /\
    prob (mh_decide exp_stub Le cur prop corr u) = XFin 0 /\
    accept (mh_decide exp_stub Le cur prop corr u) = true.
Proof. exact le_refuted. Qed.
Print Assumptions C05_le_refuted.
