(* C11 - step-size adaptation follows dual averaging, frozen outside adaptation. *)
From Coq Require Import Reals List Bool Arith.
Import ListNotations.
From LV Require Import Goose.DA Goose.DAProofs.
Open Scope R_scope.

(* the state after the steps l of an epoch is the closed form of the recurrence *)
Theorem C11_matches_nesterov : forall c ks0 l, l <> [] ->
  let ks := da_steps c (da_init ks0) 0 l in
  let m := ln (10 * step ks0) in
  esum ks = sum_err c l
  /\ step ks = exp (lstep_spec c m l)
  /\ ln (step ks) = lstep_spec c m l
  /\ lavg ks = lavg_spec c m l
  /\ mu ks = m.
Proof. exact matches_nesterov. Qed.
Print Assumptions C11_matches_nesterov.

(* the recurrence as published (Hoffman & Gelman 2014 Alg. 5/6, Stan): running mean Hbar with
   weights 1/(m+t0), x = mu - sqrt m / gamma * Hbar, xbar = (1 - m^-kappa) xbar + m^-kappa x *)
Theorem C11_matches_hoffman_gelman : forall c ks0 l,
  0 <= c_t0 c -> c_gamma c <> 0 -> l <> [] ->
  let ks := da_steps c (da_init ks0) 0 l in
  let hg := hg_steps c (ln (10 * step ks0)) (mkHG 0 0 0) 1 l in
  step ks = exp (logeps hg)
  /\ lavg ks = xbar hg
  /\ esum ks = (INR (length l) + c_t0 c) * hbar hg.
Proof. exact matches_hoffman_gelman. Qed.
Print Assumptions C11_matches_hoffman_gelman.

(* liesel stores ln(step) in the average at da_init, Stan stores 0: same states after one step *)
Theorem C11_first_avg_independent : forall c s m x0 x0' l, l <> [] ->
  da_steps c (mkDA s 0 x0 m) 0 l = da_steps c (mkDA s 0 x0' m) 0 l.
Proof. exact first_avg_independent. Qed.
Print Assumptions C11_first_avg_independent.

(* every adaptation epoch is the dual-averaging epoch restarted from the CURRENT step size only *)
Theorem C11_restart_per_epoch : forall (X : Type) k c (ks : kstate X) pre ety accs hist e0 l0 m0,
  is_adaptation ety = true -> tunes k = true ->
  let cur := run_schedule k c ks pre in
  run_schedule k c ks (pre ++ [(ety, accs, hist)])
  = tune k ety hist (mkKS (da_epoch c (mkDA (step (da cur)) e0 l0 m0) accs) (rest cur)).
Proof. exact restart_per_epoch. Qed.
Print Assumptions C11_restart_per_epoch.

(* in adaptation epochs a tuning kernel does exactly one da_step per transition, with time_in_epoch *)
Theorem C11_adaptive_transition : forall (X : Type) k c ety (ks : kstate X) a tie,
  is_adaptation ety = true -> tunes k = true ->
  transition k c ety ks a tie = mkKS (da_step c (da ks) a tie) (rest ks).
Proof. exact adaptive_transition_is_da_step. Qed.
Print Assumptions C11_adaptive_transition.

(* at the end of the epoch the averaged step size becomes the kernel's step size *)
Theorem C11_finalize : forall c ks0 l, l <> [] ->
  step (da_epoch c ks0 l) = exp (lavg_spec c (ln (10 * step ks0)) l)
  /\ lavg (da_epoch c ks0 l) = lavg (da_steps c (da_init ks0) 0 l)
  /\ esum (da_epoch c ks0 l) = esum (da_steps c (da_init ks0) 0 l)
  /\ mu (da_epoch c ks0 l) = mu (da_steps c (da_init ks0) 0 l).
Proof. exact finalize_epoch. Qed.
Print Assumptions C11_finalize.

(* the kernel's step size after an adaptation epoch: exp of the averaged log step size (RW/MH/IWLS),
   times the mass-matrix adjustment of _tune_slow (HMC/NUTS after a slow epoch with a history) *)
Theorem C11_finalize_kernel : forall (X : Type) k c ety hist adj newx (ks : kstate X) accs,
  tunes k = true -> accs <> [] ->
  (is_adaptation ety = true -> has_mm k = false ->
     step (da (run_epoch k c ety hist ks accs)) = exp (lavg_spec c (ln (10 * step (da ks))) accs))
  /\ (has_mm k = true ->
     step (da (run_epoch k c Slow (Some (adj, newx)) ks accs))
     = adj * exp (lavg_spec c (ln (10 * step (da ks))) accs)
     /\ rest (run_epoch k c Slow (Some (adj, newx)) ks accs) = newx).
Proof. exact run_epoch_step_all. Qed.
Print Assumptions C11_finalize_kernel.

(* an epoch without any adaptive step leaves a positive step size where it was *)
Theorem C11_empty_epoch : forall ks, 0 < step ks -> step (da_finalize (da_init ks)) = step ks.
Proof. exact finalize_init_id. Qed.
Print Assumptions C11_empty_epoch.

(* a higher acceptance probability never yields a smaller next step size *)
Theorem C11_monotone : forall c ks a a' tie,
  0 < c_gamma c -> 0 < c_t0 c + INR (tie + 1) -> a <= a' ->
  step (da_step c ks a tie) <= step (da_step c ks a' tie)
  /\ lavg (da_step c ks a tie) <= lavg (da_step c ks a' tie).
Proof. exact monotone. Qed.
Print Assumptions C11_monotone.

(* whole epoch: pointwise higher acceptance probabilities -> final step size not smaller *)
Theorem C11_monotone_epoch : forall c ks0 l l',
  0 < c_gamma c -> 0 <= c_t0 c -> 0 <= c_kappa c -> l <> [] -> pointwise_le l l' ->
  step (da_epoch c ks0 l) <= step (da_epoch c ks0 l').
Proof. exact monotone_epoch. Qed.
Print Assumptions C11_monotone_epoch.

(* the hypotheses of C11_monotone are needed: witnesses with gamma < 0, and with t0 + t < 0 *)
Theorem C11_monotone_hyps_needed :
  (exists c ks a a' tie, c_gamma c < 0 /\ 0 < c_t0 c + INR (tie + 1) /\ a < a'
    /\ step (da_step c ks a' tie) < step (da_step c ks a tie))
  /\ (exists c ks a a' tie, 0 < c_gamma c /\ c_t0 c + INR (tie + 1) < 0 /\ a < a'
    /\ step (da_step c ks a' tie) < step (da_step c ks a tie)).
Proof. exact monotone_hyps_needed. Qed.
Print Assumptions C11_monotone_hyps_needed.

(* burn-in / posterior (and the initial-values epoch): a transition returns the kernel state it got *)
Theorem C11_frozen : forall (X : Type) k c ety (ks : kstate X) a tie,
  ety = Burnin \/ ety = Post \/ ety = Initial ->
  transition k c ety ks a tie = ks.
Proof. exact frozen_transition. Qed.
Print Assumptions C11_frozen.

Theorem C11_frozen_between_transitions : forall (X : Type) k c ety (ks : kstate X) accs i j,
  is_adaptation ety = false \/ tunes k = false ->
  transitions k c ety (start_epoch k ks) 0 (firstn i accs)
  = transitions k c ety (start_epoch k ks) 0 (firstn j accs).
Proof. exact frozen_between_transitions. Qed.
Print Assumptions C11_frozen_between_transitions.

(* MHKernel with da_tune_step_size = False: frozen in every epoch type *)
Theorem C11_frozen_mh_untuned : forall (X : Type) c ety (ks : kstate X) tie accs,
  transitions (MH false) c ety ks tie accs = ks.
Proof. exact frozen_mh_untuned_transitions. Qed.
Print Assumptions C11_frozen_mh_untuned.

(* a whole burn-in / posterior epoch incl. start_epoch / end_epoch: step size (over R) and the rest kept *)
Theorem C11_frozen_epoch : forall (X : Type) k c ety hist (ks : kstate X) accs,
  ety = Burnin \/ ety = Post -> 0 < step (da ks) ->
  step (da (run_epoch k c ety hist ks accs)) = step (da ks)
  /\ rest (run_epoch k c ety hist ks accs) = rest ks.
Proof. exact frozen_run_epoch. Qed.
Print Assumptions C11_frozen_epoch.

(* non-vacuity *)
Example C11_monotone_hyp_sat :
  0 < c_gamma c_default /\ 0 < c_t0 c_default + INR (0 + 1) /\ (1/4 : R) <= 3/4
  /\ step (da_step c_default (da_init (mkDA 1 0 0 0)) (1/4) 0)
     < step (da_step c_default (da_init (mkDA 1 0 0 0)) (3/4) 0).
Proof. exact monotone_hyp_sat. Qed.

Example C11_nesterov_two_steps :
  let ks := da_steps c_default (da_init (mkDA 1 0 0 0)) 0 [1/2; 1] in
  esum ks = 4/5 - 1/2 + (4/5 - 1)
  /\ lavg ks = (1 - eta_n c_default 2) * lstep_spec c_default (ln 10) [1/2]
               + eta_n c_default 2 * lstep_spec c_default (ln 10) [1/2; 1].
Proof. exact nesterov_two_steps. Qed.

Example C11_frozen_hyp_sat :
  transition (X:=unit) RW c_default Post (mkKS (mkDA 2 3 4 5) tt) (1/2) 7 = mkKS (mkDA 2 3 4 5) tt
  /\ transition (X:=unit) RW c_default Fast (mkKS (mkDA 2 3 4 5) tt) (1/2) 7 <> mkKS (mkDA 2 3 4 5) tt.
Proof. exact frozen_hyp_sat. Qed.

Example C11_restart_hyp_sat :
  let ks : kstate unit := mkKS (mkDA (1/2) 3 4 5) tt in
  run_schedule NUTS c_default ks [(Post, [1/2], None); (Fast, [1/4; 3/4], None)]
  = mkKS (da_epoch c_default (mkDA (step (da (run_schedule NUTS c_default ks [(Post, [1/2], None)]))) 0 0 0) [1/4; 3/4]) tt.
Proof. exact restart_hyp_sat. Qed.

Example C11_first_avg_hyp_sat :
  da_steps c_default (mkDA 2 0 (ln 2) (ln 20)) 0 [1/2] = da_steps c_default (mkDA 2 0 0 (ln 20)) 0 [1/2]
  /\ da_steps c_default (mkDA 2 0 (ln 2) (ln 20)) 0 [] <> da_steps c_default (mkDA 2 0 0 (ln 20)) 0 [].
Proof. exact first_avg_hyp_sat. Qed.

Example C11_finalize_hyp_sat :
  step (da_epoch c_default (mkDA 1 0 0 0) [1/2]) = exp (lstep_spec c_default (ln 10) [1/2]).
Proof. exact finalize_hyp_sat. Qed.
