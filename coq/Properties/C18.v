(* C18 - custom distributions and bijectors are mathematically consistent.
   Print Assumptions (about 1 s each over the Reals) is issued for the main theorems only; the
   corollaries without it depend on the same four standard-library axioms. *)
From Coq Require Import Reals List.
From Coquelicot Require Import Coquelicot.
From LV Require Import Analytic.Sigmoid Analytic.SigmoidProofs Analytic.Copula Analytic.CopulaProofs
  Analytic.MvnDegen Analytic.MvnDegenProofs Analytic.MvnMatrix Analytic.MvnMatrixProofs.
Import ListNotations.
Open Scope R_scope.

(* ------------------------------------------------------------------ algebraic sigmoid *)
Theorem C18_asig_inverse :
  (forall x, asig_inv (asig x) = x) /\ (forall y, -1 < y < 1 -> asig (asig_inv y) = y).
Proof. exact asig_inverse. Qed.
Print Assumptions C18_asig_inverse.

Theorem C18_asig_range : forall x, -1 < asig x < 1.
Proof. exact asig_range. Qed.

Theorem C18_asig_onto : forall y, -1 < y < 1 -> exists x, asig x = y.
Proof. exact asig_onto. Qed.

Theorem C18_asig_fldj : forall x,
  is_derive asig x (asig_deriv x) /\ 0 < asig_deriv x /\ asig_fldj x = ln (asig_deriv x).
Proof. exact asig_fldj_log_deriv. Qed.
Print Assumptions C18_asig_fldj.

Theorem C18_asig_ildj : forall y, -1 < y < 1 ->
  is_derive asig_inv y (asig_inv_deriv y) /\ 0 < asig_inv_deriv y
  /\ asig_ildj y = ln (asig_inv_deriv y).
Proof. exact asig_ildj_log_deriv. Qed.
Print Assumptions C18_asig_ildj.

Theorem C18_asig_ildj_is_neg_fldj : forall y, -1 < y < 1 ->
  asig_ildj y = - asig_fldj (asig_inv y).
Proof. exact asig_ildj_is_neg_fldj. Qed.

Example C18_asig_example : asig (3 / 4) = 3 / 5 /\ asig_inv (3 / 5) = 3 / 4.
Proof. exact asig_example. Qed.

(* ------------------------------------------------------------------ Gaussian copula *)
Theorem C18_copula_closed_form : forall rho x y, -1 < rho < 1 ->
  copula_logpdf rho x y = copula_closed_form rho x y.
Proof. exact copula_closed_form_ok. Qed.
Print Assumptions C18_copula_closed_form.

Theorem C18_copula_closed_form_uv : forall (qnorm : R -> R) rho u v, -1 < rho < 1 ->
  copula_logpdf_uv qnorm rho u v = copula_closed_form rho (qnorm u) (qnorm v).
Proof. exact copula_closed_form_uv. Qed.

Theorem C18_copula_ctor_total : forall (validate : bool) rho, -1 < rho < 1 ->
  copula_ctor_repaired validate rho = CtorOk /\ 0 < tril22 rho.
Proof. exact copula_ctor_total. Qed.
Print Assumptions C18_copula_ctor_total.

Theorem C18_copula_ctor_batch_total : forall (validate : bool) rhos,
  List.Forall (fun r => -1 < r < 1) rhos -> copula_ctor_batch (-1) 1 validate rhos = CtorOk.
Proof. exact copula_ctor_batch_total. Qed.

(* the guard as found (0 <= dependence <= 1): refuted, defect F5 *)
Theorem C18_copula_ctor_asfound_refuted :
  exists rho, -1 < rho < 1 /\ copula_ctor_asfound true rho = CtorAssertionError
              /\ copula_ctor_asfound false rho = CtorOk.
Proof. exact copula_ctor_asfound_refuted. Qed.
Print Assumptions C18_copula_ctor_asfound_refuted.

Example C18_copula_ctor_example :
  copula_ctor_repaired true (-1 / 2) = CtorOk /\ copula_ctor_repaired false (-1 / 2) = CtorOk.
Proof. exact copula_ctor_total_example. Qed.

Example C18_copula_closed_form_example :
  copula_logpdf (1 / 2) 1 1 = - (1 / 2) * ln (3 / 4) - (1 / 4 * 2 - 1) / (3 / 2).
Proof. exact copula_closed_form_example. Qed.

(* ------------------------------------------------------------------ degenerate multivariate normal *)
Theorem C18_mvn_range_gaussian : forall n lam rk lp tol c,
  0 <= tol -> ascending n lam -> gap tol n lam ->
  rank_consistent tol n lam rk -> lpd_consistent tol n lam lp ->
  logpdf (ctor_prec n lam rk lp tol) c = range_gaussian_logpdf n lam c.
Proof. exact mvn_range_gaussian. Qed.
Print Assumptions C18_mvn_range_gaussian.

Theorem C18_mvn_nullspace_invariant : forall d c v, null_vector (dim d) (evals d) v ->
  logpdf d (fun i => c i + v i) = logpdf d c.
Proof. exact mvn_nullspace_invariant. Qed.
Print Assumptions C18_mvn_nullspace_invariant.

Theorem C18_mvn_constructors_agree : forall n pen var rk lp rk' lp' c,
  0 < var -> ascending n pen -> pen_gap n pen var ->
  rank_consistent tol_default n pen rk -> lpd_consistent tol_default n pen lp ->
  rank_consistent tol_default n (fun i => pen i / var) rk' ->
  lpd_consistent tol_default n (fun i => pen i / var) lp' ->
  let plain := logpdf (ctor_prec n (fun i => pen i / var) None None tol_default) c in
  logpdf (from_penalty n pen var rk lp) c = plain
  /\ logpdf (from_penalty_smooth n pen (/ var) rk lp) c = plain
  /\ logpdf (ctor_prec n (fun i => pen i / var) rk' lp' tol_default) c = plain.
Proof. exact mvn_constructors_agree. Qed.
Print Assumptions C18_mvn_constructors_agree.

(* the from_penalty family takes rank and log-pdet from the PENALTY: agreement and the range-space Gaussian hold for
   every var > 0 with hypotheses on pen alone (only the plain constructor needs the gap on pen / var) *)
Theorem C18_mvn_from_penalty_family_agree : forall n pen var rk lp rk' lp' c, 0 < var -> ascending n pen ->
  rank_consistent tol_default n pen rk -> lpd_consistent tol_default n pen lp ->
  rank_consistent tol_default n pen rk' -> lpd_consistent tol_default n pen lp' ->
  logpdf (from_penalty n pen var rk lp) c = logpdf (from_penalty n pen var None None) c
  /\ logpdf (from_penalty_smooth n pen (/ var) rk' lp') c = logpdf (from_penalty n pen var None None) c.
Proof. exact mvn_from_penalty_family_agree. Qed.
Print Assumptions C18_mvn_from_penalty_family_agree.

Theorem C18_mvn_from_penalty_range_gaussian : forall n pen var rk lp c,
  0 < var -> ascending n pen -> gap tol_default n pen ->
  rank_consistent tol_default n pen rk -> lpd_consistent tol_default n pen lp ->
  logpdf (from_penalty n pen var rk lp) c = range_gaussian_logpdf n (fun i => pen i / var) c.
Proof. exact mvn_from_penalty_range_gaussian. Qed.
Print Assumptions C18_mvn_from_penalty_range_gaussian.

Example C18_mvn_from_penalty_large_var_example : forall c,
  logpdf (from_penalty 3 ex_pen 10000000 None None) c
  = range_gaussian_logpdf 3 (fun i => ex_pen i / 10000000) c
  /\ logpdf (from_penalty_smooth 3 ex_pen (/ 10000000) None None) c
     = logpdf (from_penalty 3 ex_pen 10000000 None None) c.
Proof. exact mvn_from_penalty_large_var_example. Qed.

Theorem C18_mvn_smooth_is_inverse_variance : forall n pen s rk lp c, 0 < s ->
  logpdf (from_penalty_smooth n pen s rk lp) c = logpdf (from_penalty n pen (/ s) rk lp) c.
Proof. exact mvn_from_penalty_smooth_agrees. Qed.

Theorem C18_mvn_sample_support : forall d z, 0 < tolv d ->
  (forall i, evals d i = 0 -> sample_coord d z i = 0)
  /\ (forall i, tolv d <= evals d i ->
        sample_coord d z i = z i / sqrt (evals d i) /\ (sqrt_pcov_diag d i) ^ 2 = 1 / evals d i)
  /\ (forall i, evals d i = 0 \/ tolv d <= evals d i -> (sqrt_pcov_diag d i) ^ 2 = pinv_diag (evals d) i)
  /\ (forall v, null_vector (dim d) (evals d) v -> rsum (dim d) (fun i => v i * sample_coord d z i) = 0).
Proof. exact mvn_sample_support. Qed.
Print Assumptions C18_mvn_sample_support.

(* matrix level: the quadratic form of  H diag(lam) H^T  is the eigen-coordinate one (pure algebra), and for
   orthonormal H a null-space vector  H nv  is annihilated by the precision matrix and leaves the log-density unchanged *)
Theorem C18_mvn_quadform_eigen : forall n H lam x,
  quadform n (prec_of n H lam) x = quad n lam (coords n H x).
Proof. exact quadform_eigen. Qed.

Theorem C18_mvn_logpdf_matrix_eigen : forall d H xc,
  logpdf_matrix d H xc = logpdf d (coords (dim d) H xc).
Proof. exact logpdf_matrix_eigen. Qed.

Theorem C18_mvn_null_vector_annihilated : forall n H lam nv a, orthonormal_cols n H ->
  null_vector n lam nv ->
  mat_vec n (prec_of n H lam) (from_coords n H nv) a = 0.
Proof. exact null_vector_annihilated. Qed.

Theorem C18_mvn_matrix_nullspace_invariant : forall d H xc nv,
  orthonormal_cols (dim d) H -> null_vector (dim d) (evals d) nv ->
  logpdf_matrix d H (fun a => xc a + from_coords (dim d) H nv a) = logpdf_matrix d H xc.
Proof. exact logpdf_matrix_nullspace_invariant. Qed.
Print Assumptions C18_mvn_matrix_nullspace_invariant.

Example C18_mvn_matrix_example :
  orthonormal_cols 2 ex_H /\
  forall x, quadform 2 (prec_of 2 ex_H (fun i => match i with O => 0 | _ => 5 end)) x
            = 5 * (4 / 5 * x 0%nat - 3 / 5 * x 1%nat) ^ 2.
Proof. exact matrix_example. Qed.

(* the spectral-gap hypotheses cannot be dropped (conditioning limit of the absolute tolerance) *)
Theorem C18_mvn_range_gaussian_needs_gap :
  exists n lam c, ascending n lam /\ (forall i, (i < n)%nat -> 0 < lam i) /\
    logpdf (ctor_prec n lam None None tol_default) c <> range_gaussian_logpdf n lam c.
Proof. exact mvn_range_gaussian_needs_gap. Qed.

Theorem C18_mvn_constructors_agree_needs_gap :
  exists n pen var c, 0 < var /\ ascending n pen /\ gap tol_default n pen /\
    logpdf (from_penalty n pen var None None) c
    <> logpdf (ctor_prec n (fun i => pen i / var) None None tol_default) c.
Proof. exact mvn_constructors_agree_needs_gap. Qed.

Example C18_mvn_constructors_agree_example : forall c,
  logpdf (from_penalty 3 ex_pen 2 None None) c
  = logpdf (ctor_prec 3 (fun i => ex_pen i / 2) None None tol_default) c
  /\ logpdf (from_penalty_smooth 3 ex_pen (/ 2) None None) c
  = logpdf (ctor_prec 3 (fun i => ex_pen i / 2) None None tol_default) c.
Proof. exact mvn_constructors_agree_example. Qed.

Example C18_mvn_range_gaussian_example : forall c,
  logpdf (ctor_prec 3 ex_pen None None tol_default) c = range_gaussian_logpdf 3 ex_pen c
  /\ rank_of tol_default 3 ex_pen = 2%nat.
Proof. exact mvn_range_gaussian_example. Qed.

Example C18_mvn_nullspace_example : forall c t,
  logpdf (ctor_prec 3 ex_pen None None tol_default) (fun i => c i + (match i with O => t | _ => 0 end))
  = logpdf (ctor_prec 3 ex_pen None None tol_default) c.
Proof. exact mvn_nullspace_example. Qed.
