(* C16 - epoch schedules accepted iff valid; Stan warmup adds up; chunk length divides. *)
From Coq Require Import List ZArith Bool.
Import ListNotations.
From LV Require Import Goose.Epoch Goose.EpochProofs Goose.Warmup Goose.WarmupProofs.
Open Scope Z_scope.

Theorem C16_accept_iff_valid : forall l : list econf, accepts l = valid l.
Proof. exact accepts_eq_valid. Qed.
Print Assumptions C16_accept_iff_valid.

Theorem C16_manager_accepts_iff_valid : forall l : list econf,
  (exists m, mgr_appends mgr0 l = Some m /\ cfgs m = l) <-> valid l = true.
Proof. exact mgr_accepts_iff_valid. Qed.
Print Assumptions C16_manager_accepts_iff_valid.

Theorem C16_append_next_commute : forall m c m1 s m2,
  mgr_append m c = Some m1 -> mgr_next m = Some (s, m2) ->
  exists m3, mgr_next m1 = Some (s, m3) /\ mgr_append m2 c = Some m3.
Proof. exact append_next_commute. Qed.
Print Assumptions C16_append_next_commute.

Theorem C16_next_consecutive : forall (l : list econf) (k n : nat),
  (k + n <= length l)%nat ->
  mgr_nexts (mkM l k (time_before l k)) n =
  map (fun j => mkS (nth j l (mkE Init 0 0)) j (time_before l j)) (seq k n).
Proof. exact next_consecutive. Qed.
Print Assumptions C16_next_consecutive.

Theorem C16_stan_valid_and_sums : forall w p i t b thp thw,
  admissible w p i t b thp thw ->
  exists slows rest,
    stan_epochs w p i t b thp thw =
      SOk ([mkE Init 1 1; mkE Fast i thw] ++ slows
           ++ [mkE Slow rest thw; mkE Fast t thw; mkE Post p thp])
    /\ doubling b slows
    /\ Forall (fun c => ety_ c = Slow /\ thin c = thw /\ b <= dur c) slows
    /\ b <= rest < 3 * (b * 2 ^ Z.of_nat (length slows))
    /\ i + sum_dur slows + rest + t = w
    /\ forall l, stan_epochs w p i t b thp thw = SOk l ->
         valid l = true /\ sum_dur (warmup_part l) = w.
Proof. exact stan_valid_and_sums. Qed.
Print Assumptions C16_stan_valid_and_sums.

Theorem C16_stan_rejects : forall w p i t b thp thw,
  w < 20 \/ w < i + t + b -> stan_epochs w p i t b thp thw = SValueError.
Proof. exact stan_rejects. Qed.
Print Assumptions C16_stan_rejects.

Theorem C16_chunk_divides : forall l c, In c (tl l) -> (chunk_len l | dur c).
Proof. exact chunk_divides. Qed.
Print Assumptions C16_chunk_divides.

Theorem C16_chunk_greatest : forall l d,
  (forall c, In c (tl l) -> (d | dur c)) -> (d | chunk_len l).
Proof. exact chunk_greatest. Qed.
Print Assumptions C16_chunk_greatest.
