(* C16 - epoch schedules accepted iff valid; Stan warmup adds up; chunk length divides. *)
From Coq Require Import List ZArith Bool.
Import ListNotations.
From LV Require Import Goose.Epoch Goose.EpochProofs Goose.Warmup Goose.WarmupProofs.
From LV Require Import Goose.EpochBuilder Goose.EpochBuilderProofs.
Open Scope Z_scope.

Theorem C16_accept_iff_valid : forall l : list econf, accepts l = valid l.
Proof. exact accepts_eq_valid. Qed.
Print Assumptions C16_accept_iff_valid.

Theorem C16_manager_accepts_iff_valid : forall l : list econf,
  (exists m, mgr_appends mgr0 l = Some m /\ cfgs m = l) <-> valid l = true.
Proof. exact mgr_accepts_iff_valid. Qed.
Print Assumptions C16_manager_accepts_iff_valid.

Theorem C16_append_next_commute : forall m c m1 s m2,
  mgr_append m c = Some m1 -> mgr_next m = Some (s, m2) ->
  exists m3, mgr_next m1 = Some (s, m3) /\ mgr_append m2 c = Some m3.
Proof. exact append_next_commute. Qed.
Print Assumptions C16_append_next_commute.

Theorem C16_next_consecutive : forall (l : list econf) (k n : nat),
  (k + n <= length l)%nat ->
  mgr_nexts (mkM l k (time_before l k)) n =
  map (fun j => mkS (nth j l (mkE Init 0 0)) j (time_before l j)) (seq k n).
Proof. exact next_consecutive. Qed.
Print Assumptions C16_next_consecutive.

Theorem C16_stan_valid_and_sums : forall w p i t b thp thw,
  admissible w p i t b thp thw ->
  exists slows rest,
    stan_epochs w p i t b thp thw =
      SOk ([mkE Init 1 1; mkE Fast i thw] ++ slows
           ++ [mkE Slow rest thw; mkE Fast t thw; mkE Post p thp])
    /\ doubling b slows
    /\ Forall (fun c => ety_ c = Slow /\ thin c = thw /\ b <= dur c) slows
    /\ b <= rest < 3 * (b * 2 ^ Z.of_nat (length slows))
    /\ i + sum_dur slows + rest + t = w
    /\ forall l, stan_epochs w p i t b thp thw = SOk l ->
         valid l = true /\ sum_dur (warmup_part l) = w.
Proof. exact stan_valid_and_sums. Qed.
Print Assumptions C16_stan_valid_and_sums.

Theorem C16_stan_rejects : forall w p i t b thp thw,
  w < 20 \/ w < i + t + b -> stan_epochs w p i t b thp thw = SValueError.
Proof. exact stan_rejects. Qed.
Print Assumptions C16_stan_rejects.

Theorem C16_chunk_divides : forall l c, In c (tl l) -> (chunk_len l | dur c).
Proof. exact chunk_divides. Qed.
Print Assumptions C16_chunk_divides.

Theorem C16_chunk_greatest : forall l d,
  (forall c, In c (tl l) -> (d | dur c)) -> (d | chunk_len l).
Proof. exact chunk_greatest. Qed.
Print Assumptions C16_chunk_greatest.

(* ---- EngineBuilder glue (set_epochs / set_duration / build) and the engine's chunk loop ---- *)
Theorem C16_chunk_positive : forall l c, valid l = true -> In c (tl l) -> 1 <= chunk_len l.
Proof. exact chunk_positive. Qed.
Print Assumptions C16_chunk_positive.

Theorem C16_builder_set_epochs_spec : forall l,
  (valid l = true -> builder_set_epochs l = BOk l (chunk_len l))
  /\ (valid l = false -> builder_set_epochs l = BRuntimeError).
Proof. exact builder_set_epochs_spec. Qed.
Print Assumptions C16_builder_set_epochs_spec.

Theorem C16_builder_chunk_divides : forall l l' ch,
  builder_set_epochs l = BOk l' ch ->
  l' = l /\ valid l = true
  /\ forall c, In c (tl l') -> 1 <= ch /\ (ch | dur c) /\ transitions (dur c) ch = dur c.
Proof. exact builder_chunk_divides. Qed.
Print Assumptions C16_builder_chunk_divides.

Theorem C16_builder_set_duration_ok : forall w p t thp thw,
  admissible w p default_init t default_base thp thw ->
  exists l ch,
    builder_set_duration w p t thp thw = BOk l ch
    /\ stan_epochs w p default_init t default_base thp thw = SOk l
    /\ valid l = true
    /\ sum_dur (warmup_part l) = w
    /\ ch = chunk_len l /\ 1 <= ch
    /\ forall c, In c (tl l) -> (ch | dur c).
Proof. exact builder_set_duration_ok. Qed.
Print Assumptions C16_builder_set_duration_ok.

Theorem C16_builder_set_duration_rejects : forall w p t thp thw,
  w < 20 \/ w < default_init + t + default_base ->
  builder_set_duration w p t thp thw = BValueError.
Proof. exact builder_set_duration_rejects. Qed.
Print Assumptions C16_builder_set_duration_rejects.

Theorem C16_run_epoch_fails_iff : forall c n tb ch,
  1 <= ch -> (run_epoch (to_state c n tb) ch = None <-> ~ (ch | dur c)).
Proof. exact run_epoch_fails_iff. Qed.
Print Assumptions C16_run_epoch_fails_iff.

Theorem C16_builder_epochs_run_to_end : forall l l' ch c n tb,
  builder_set_epochs l = BOk l' ch -> In c (tl l') ->
  exists s', run_epoch (to_state c n tb) ch = Some s'
    /\ f_cfg s' = c /\ f_nth s' = n /\ f_before s' = tb
    /\ f_in s' = dur c /\ f_time s' = tb + dur c /\ time_left s' = 0.
Proof. exact builder_epochs_run_to_end. Qed.
Print Assumptions C16_builder_epochs_run_to_end.

(* ---- one builder used for a whole script of set_epochs / set_duration / build calls ---- *)
Theorem C16_builder_script_built_ok : forall ops st l ch,
  st_ok st -> In (EBuilt l ch) (brun st ops) ->
  valid l = true /\ ch = chunk_len l
  /\ forall c, In c (tl l) ->
       1 <= ch /\ (ch | dur c)
       /\ forall n tb, exists s', run_epoch (to_state c n tb) ch = Some s' /\ time_left s' = 0.
Proof. exact builder_script_built_ok. Qed.
Print Assumptions C16_builder_script_built_ok.

Theorem C16_builder_script_history_independent : forall st l r,
  valid l = true ->
  brun st (BSetEpochs l :: BBuild :: r) = ESet true :: EBuilt l (chunk_len l) :: brun (Some l) r.
Proof. exact builder_script_history_independent. Qed.
Print Assumptions C16_builder_script_history_independent.

Theorem C16_builder_script_set_duration_history_independent : forall st w p t thp thw r,
  admissible w p default_init t default_base thp thw ->
  exists l, stan_epochs w p default_init t default_base thp thw = SOk l
    /\ brun st (BSetDuration w p t thp thw :: BBuild :: r)
       = ESet true :: EBuilt l (chunk_len l) :: brun (Some l) r.
Proof. exact builder_script_set_duration_history_independent. Qed.
Print Assumptions C16_builder_script_set_duration_history_independent.

Theorem C16_builder_script_rejected_keeps : forall st l r,
  valid l = false -> brun st (BSetEpochs l :: r) = ESet false :: brun st r.
Proof. exact builder_script_rejected_keeps. Qed.
Print Assumptions C16_builder_script_rejected_keeps.
