(* C01 - model cache coherence: an update restores exactly the from-scratch values.
   Model: Graph/Graph.v (literal readers [value], [outdated], [denote]; operations [step]) and its additive
   extension Graph/GraphX.v ([xstep]: the same operations plus XRestoreEdited k marks = the public state
   setter fed with the k-th saved state in which the nodes [marks] were additionally marked outdated).
   Every theorem is for every value type V, function symbols F, meaning interp, every well-formed graph g
   (any topological order of a DAG of Value / cached / transient nodes), every initial input values ext0
   and every finite history xs of
     Assign, SetAuto, Update [] (full), Update ts (targeted), Save, Restore, XRestoreEdited.
   The theorems named ..._raising are about Graph/GraphF.v ([fstep], [finit]): the same operations when node
   functions may RAISE (interp gives an error value, isErr) - the sweep stops at the first raising node, the
   exception leaves the assigned value in place, and the history goes on. *)
From Coq Require Import List Bool Arith.
Import ListNotations.
From LV Require Import Graph.Graph Graph.GraphProofs Graph.GraphMemo Graph.GraphExamples
  Graph.GraphX Graph.GraphXProofs Graph.GraphXExamples Graph.CorrC01X
  Graph.GraphF Graph.GraphFProofs Graph.GraphFExamples Graph.CorrC01F Graph.GraphWf.

(* every node that reports itself up to date holds exactly the from-scratch value for the current
   values of the Value nodes *)
Theorem C01_coherent : forall (V F : Type) (interp : F -> list V -> V) (dflt : V) (g : graph F), wf g ->
  forall (ext0 : list V) (xs : list (xop V)),
  let rs := xrun interp dflt g xs (init interp dflt g ext0) in
  forall k, k < length g ->
  outdated g (cur rs) k = false ->
  value interp dflt g (cur rs) k = denote interp dflt g (vals (cur rs)) k.
Proof. exact coherent_xreach. Qed.
Print Assumptions C01_coherent.

(* a full update, and any successful assignment while auto-update is on, leaves no node outdated *)
Theorem C01_full_update_clean : forall (V F : Type) (interp : F -> list V -> V) (dflt : V) (g : graph F), wf g ->
  forall (ext0 : list V) (xs : list (xop V)),
  let rs := xrun interp dflt g xs (init interp dflt g ext0) in
  forall o,
  (o = Update [] \/ exists i v, o = Assign i v /\ auto (cur rs) = true) ->
  err (step interp dflt g rs o) = false ->
  forall k, k < length g -> outdated g (cur (st' (step interp dflt g rs o))) k = false.
Proof. exact full_update_clean_x. Qed.
Print Assumptions C01_full_update_clean.

(* a freshly built model has no outdated node *)
Theorem C01_init_clean : forall (V F : Type) (interp : F -> list V -> V) (dflt : V) (g : graph F), wf g ->
  forall (ext0 : list V) k, k < length g ->
  outdated g (cur (init interp dflt g ext0)) k = false.
Proof. exact init_clean. Qed.
Print Assumptions C01_init_clean.

(* a targeted update brings the named nodes and all their ancestors up to date (they then hold the
   from-scratch values); nodes outside this set keep value, flag and ghost; input values are kept *)
Theorem C01_targeted_update : forall (V F : Type) (interp : F -> list V -> V) (dflt : V) (g : graph F), wf g ->
  forall (ext0 : list V) (xs : list (xop V)),
  let rs := xrun interp dflt g xs (init interp dflt g ext0) in
  forall ts,
  ts <> [] -> forallb (fun t => t <? length g) ts = true ->
  let s := cur rs in
  let s' := cur (st' (step interp dflt g rs (Update ts))) in
  (forall t k, In t ts -> path F g k t ->
      outdated g s' k = false /\ value interp dflt g s' k = denote interp dflt g (vals s') k)
  /\ (forall k, (forall t, In t ts -> ~ path F g k t) -> same_at V dflt s' s k)
  /\ (forall k n, nth_error g k = Some n -> kd n = KValue -> getv dflt (vals s') k = getv dflt (vals s) k)
  /\ err (step interp dflt g rs (Update ts)) = false.
Proof. exact targeted_update_x. Qed.
Print Assumptions C01_targeted_update.

(* [path i k] (k is i or a recursive output of i) is what the executable [reaches] computes *)
Theorem C01_reaches_is_path : forall (F : Type) (g : graph F), wf g ->
  forall i k, reaches g i k = true <-> path F g i k.
Proof. exact reaches_path. Qed.
Print Assumptions C01_reaches_is_path.

(* any operation evaluates a cached node at most once, only if the node was outdated when the sweep
   started and carries the ghost mark [touched] (raised for the recursive outputs by an assignment and
   for the marked nodes by XRestoreEdited - the caller declared them stale -, saved and restored with the
   state, cleared exactly for the evaluated nodes) *)
Theorem C01_evaluate_once_if_needed : forall (V F : Type) (interp : F -> list V -> V) (dflt : V) (g : graph F), wf g ->
  forall (ext0 : list V) (xs : list (xop V)),
  let rs := xrun interp dflt g xs (init interp dflt g ext0) in
  forall x,
  let out := xstep interp dflt g rs x in
  let s0 := xpre_sweep V F interp dflt g rs x in
  NoDup (evald out)
  /\ (forall k, In k (evald out) ->
        cached F g k /\ outdated g s0 k = true /\ getb (touched s0) k = true
        /\ getb (touched (cur (st' out))) k = false /\ outdated g (cur (st' out)) k = false)
  /\ (err out = false -> replaces_ghost V x = false -> forall k, k < length g -> ~ In k (evald out) ->
        getb (touched (cur (st' out))) k = getb (touched s0) k).
Proof. exact evaluate_once_if_needed_x. Qed.
Print Assumptions C01_evaluate_once_if_needed.

(* in every reachable state an outdated cached node carries the ghost mark *)
Theorem C01_outdated_touched : forall (V F : Type) (interp : F -> list V -> V) (dflt : V) (g : graph F), wf g ->
  forall (ext0 : list V) (xs : list (xop V)) k,
  let s := cur (xrun interp dflt g xs (init interp dflt g ext0)) in
  cached F g k -> outdated g s k = true -> getb (touched s) k = true.
Proof. exact outdated_touched_x. Qed.
Print Assumptions C01_outdated_touched.

(* an assignment with auto-update off changes no value but the assigned one, evaluates nothing and
   raises exactly the flags of the recursive outputs of the assigned node - also of those that lie
   behind an already outdated node *)
Theorem C01_assign_frame : forall (V F : Type) (interp : F -> list V -> V) (dflt : V) (g : graph F), wf g ->
  forall (ext0 : list V) (xs : list (xop V)),
  let rs := xrun interp dflt g xs (init interp dflt g ext0) in
  forall i v n,
  nth_error g i = Some n -> kd n = KValue -> auto (cur rs) = false ->
  let out := step interp dflt g rs (Assign i v) in
  let s := cur rs in let s' := cur (st' out) in
  err out = false /\ evald out = []
  /\ getv dflt (vals s') i = v
  /\ (forall k, k <> i -> getv dflt (vals s') k = getv dflt (vals s) k)
  /\ (forall k, k < length g -> getb (dirty s') k = getb (dirty s) k || (negb (k =? i) && reaches g i k))
  /\ (forall k, k < length g -> ~ path F g i k -> outdated g s' k = outdated g s k).
Proof. exact assign_frame_x. Qed.
Print Assumptions C01_assign_frame.

(* restoring the k-th saved state gives back its values, flags and ghost marks, evaluates nothing *)
Theorem C01_restore : forall (V F : Type) (interp : F -> list V -> V) (dflt : V) (g : graph F), wf g ->
  forall (ext0 : list V) (xs : list (xop V)),
  let rs := xrun interp dflt g xs (init interp dflt g ext0) in
  forall k sn,
  nth_error (snaps rs) k = Some sn ->
  let out := step interp dflt g rs (Restore k) in
  err out = false /\ evald out = []
  /\ vals (cur (st' out)) = sn_vals sn /\ dirty (cur (st' out)) = sn_flags sn
  /\ touched (cur (st' out)) = sn_touched sn /\ auto (cur (st' out)) = auto (cur rs)
  /\ RInv V F interp dflt g (st' out).
Proof. exact restore_x. Qed.
Print Assumptions C01_restore.

(* the state setter on an edited snapshot: saved values, a cached node is outdated iff it was outdated
   in the snapshot or has been marked, nothing is evaluated, the invariant (hence all of the above) holds
   afterwards although the outdated set need not be closed under recursive outputs *)
Theorem C01_restore_edited : forall (V F : Type) (interp : F -> list V -> V) (dflt : V) (g : graph F), wf g ->
  forall (ext0 : list V) (xs : list (xop V)) k sn marks,
  let rs := xrun interp dflt g xs (init interp dflt g ext0) in
  nth_error (snaps rs) k = Some sn ->
  forallb (fun j => j <? length g) marks = true ->
  let out := xstep interp dflt g rs (XRestoreEdited k marks) in
  let s' := cur (st' out) in
  err out = false /\ evald out = []
  /\ vals s' = sn_vals sn
  /\ (forall j, cached F g j -> outdated g s' j = getb (sn_flags sn) j || memb j marks)
  /\ (forall j, j < length g -> getb (touched s') j = getb (sn_touched sn) j || memb j marks)
  /\ auto s' = auto (cur rs)
  /\ RInv V F interp dflt g (st' out).
Proof. exact restore_edited_spec. Qed.
Print Assumptions C01_restore_edited.

(* a history of the operations of Graph.v is an extended history *)
Theorem C01_plain_history : forall (V F : Type) (interp : F -> list V -> V) (dflt : V) (g : graph F),
  forall (ops : list (op V)) rs, xrun interp dflt g (map XBase ops) rs = run interp dflt g ops rs.
Proof. exact xrun_base. Qed.
Print Assumptions C01_plain_history.

(* the table-driven instance that the correspondence shards execute is the literal model *)
Theorem C01_memo_is_lit : forall (V F : Type) (interp : F -> list V -> V) (dflt : V) (g : graph F), wf g ->
  forall (ext0 : list V) (xs : list (xop V)),
  let rs := xrun interp dflt g xs (init interp dflt g ext0) in
  mxrun interp dflt g xs (minit interp dflt g ext0) = rs
  /\ forall x, mxstep interp dflt g rs x = xstep interp dflt g rs x.
Proof. exact memo_xreach. Qed.
Print Assumptions C01_memo_is_lit.

(* non-vacuity: the hypotheses hold of a 7-node diamond with a transient node in the middle, in the
   state after [auto off; assign x; targeted update of a sibling] *)
Example C01_example_hypotheses :
  wf exg /\ RInv nat nat exi 0 exg ex_rs1 /\ [4] <> @nil nat
  /\ forallb (fun t => t <? length exg) [4] = true
  /\ auto (cur ex_rs1) = false
  /\ (exists k, outdated exg (cur ex_rs1) k = true).
Proof. exact ex_hyps. Qed.
Print Assumptions C01_example_hypotheses.

Example C01_example_sibling_update :
  flags_all exg (cur ex_rs1) = [false; false; true; true; true; false; true]
  /\ evald (step exi 0 exg (run exi 0 exg [SetAuto false; Assign 0 5] (init exi 0 exg ex_ext0)) (Update [5])) = []
  /\ value exi 0 exg (cur ex_rs1) 5 = denote exi 0 exg (vals (cur ex_rs1)) 5
  /\ value exi 0 exg (cur ex_rs1) 6 <> denote exi 0 exg (vals (cur ex_rs1)) 6.
Proof. exact ex_state1. Qed.
Print Assumptions C01_example_sibling_update.

Example C01_example_targeted_then_full :
  let out := step exi 0 exg ex_rs1 (Update [4]) in
  evald out = [2; 4] /\ err out = false
  /\ flags_all exg (cur (st' out)) = [false; false; false; false; false; false; true]
  /\ evald (step exi 0 exg (st' out) (Update [])) = [6]
  /\ evald (step exi 0 exg (st' (step exi 0 exg (st' out) (Update []))) (Update [])) = [].
Proof. exact ex_state2. Qed.
Print Assumptions C01_example_targeted_then_full.

(* edited snapshot: A alone marked outdated (children clean), then its parent x assigned: the children
   behind the already outdated A are flagged, update(B) evaluates A and B *)
Example C01_example_edited_dirty_parent :
  flags_all exg (cur ex_xrs) = [false; false; true; true; false; false; false]
  /\ coherent nat nat exi 0 exg (cur ex_xrs)
  /\ (let out := xstep exi 0 exg ex_xrs (XBase (Assign 0 5)) in
      flags_all exg (cur (st' out)) = [false; false; true; true; true; false; true]
      /\ evald out = []
      /\ evald (xstep exi 0 exg (st' out) (XBase (Update [4]))) = [2; 4]
      /\ flags_all exg (cur (st' (xstep exi 0 exg (st' out) (XBase (Update [4])))))
         = [false; false; false; false; false; false; true]).
Proof. exact ex_edited. Qed.
Print Assumptions C01_example_edited_dirty_parent.

(* ---- node functions that raise; histories that continue after the exception ---------------------------- *)

(* Model.__init__ computes from scratch whatever values and flags the nodes carried before the build
   (ext0 lists them for all nodes; only the entries of Value nodes enter [denote]): a build that does not
   raise leaves no node outdated and every node shows its from-scratch value *)
Theorem C01_build_from_scratch : forall (V F : Type) (interp : F -> list V -> V) (dflt : V) (isErr : V -> bool)
  (g : graph F), wf g -> forall (ext0 : list V) (rs0 : rstate V),
  finit interp dflt isErr g ext0 = Some rs0 ->
  RInv V F interp dflt g rs0
  /\ (forall k, k < length g -> outdated g (cur rs0) k = false)
  /\ (forall k, k < length g -> value interp dflt g (cur rs0) k = denote interp dflt g ext0 k)
  /\ (forall k n, nth_error g k = Some n -> kd n = KValue -> getv dflt (vals (cur rs0)) k = getv dflt ext0 k)
  /\ auto (cur rs0) = true /\ snaps rs0 = [].
Proof. exact finit_spec. Qed.
Print Assumptions C01_build_from_scratch.

(* in every state reachable with raising evaluations - also the state an exception leaves behind - a node
   that reports itself up to date holds the from-scratch value of the CURRENT inputs *)
Theorem C01_coherent_raising : forall (V F : Type) (interp : F -> list V -> V) (dflt : V) (isErr : V -> bool)
  (g : graph F), wf g -> forall (ext0 : list V) (rs0 : rstate V) (xs : list (xop V)),
  finit interp dflt isErr g ext0 = Some rs0 ->
  let s := cur (frun interp dflt isErr g xs rs0) in
  forall k, k < length g -> outdated g s k = false ->
  value interp dflt g s k = denote interp dflt g (vals s) k.
Proof. exact coherent_F. Qed.
Print Assumptions C01_coherent_raising.

(* an assignment, raising or not: the assigned value stays, no other input changes, every node that was not
   evaluated is exactly as the flagging left it (the raising node and everything after it included); without
   an exception and with auto-update on, no node is outdated *)
Theorem C01_assign_raising : forall (V F : Type) (interp : F -> list V -> V) (dflt : V) (isErr : V -> bool)
  (g : graph F), wf g -> forall (ext0 : list V) (rs0 : rstate V) (xs : list (xop V)) i v n,
  finit interp dflt isErr g ext0 = Some rs0 ->
  let rs := frun interp dflt isErr g xs rs0 in
  nth_error g i = Some n -> kd n = KValue ->
  let out := fstep interp dflt isErr g rs (XBase (Assign i v)) in
  let s1 := assign_flag (lit interp dflt) g (cur rs) i v in
  let s' := cur (st' out) in
  getv dflt (vals s') i = v
  /\ (forall k m, k <> i -> nth_error g k = Some m -> kd m = KValue ->
        getv dflt (vals s') k = getv dflt (vals (cur rs)) k)
  /\ (forall k, ~ In k (evald out) -> same_at V dflt s' s1 k)
  /\ (auto (cur rs) = false -> err out = false /\ evald out = [])
  /\ (auto (cur rs) = true -> err out = false -> forall k, k < length g -> outdated g s' k = false)
  /\ RInv V F interp dflt g (st' out).
Proof. exact assign_F_reach. Qed.
Print Assumptions C01_assign_raising.

(* an update (ts = [] full, otherwise targeted), raising or not: inputs and everything that was not evaluated
   stay; what was evaluated lies in the ancestor closure of the targets; without an exception the targets
   and all their ancestors (full: all nodes) are up to date and hold the from-scratch values *)
Theorem C01_update_raising : forall (V F : Type) (interp : F -> list V -> V) (dflt : V) (isErr : V -> bool)
  (g : graph F), wf g -> forall (ext0 : list V) (rs0 : rstate V) (xs : list (xop V)) ts,
  finit interp dflt isErr g ext0 = Some rs0 ->
  let rs := frun interp dflt isErr g xs rs0 in
  forallb (fun t => t <? length g) ts = true ->
  let out := fstep interp dflt isErr g rs (XBase (Update ts)) in
  let s := cur rs in
  let s' := cur (st' out) in
  (forall k, ~ In k (evald out) -> same_at V dflt s' s k)
  /\ (forall k n, nth_error g k = Some n -> kd n = KValue -> getv dflt (vals s') k = getv dflt (vals s) k)
  /\ (ts <> [] -> forall k, In k (evald out) -> exists t, In t ts /\ path F g k t)
  /\ (err out = false -> forall k, k < length g -> (ts = [] \/ exists t, In t ts /\ path F g k t) ->
        outdated g s' k = false /\ value interp dflt g s' k = denote interp dflt g (vals s') k)
  /\ RInv V F interp dflt g (st' out).
Proof. exact update_F_reach. Qed.
Print Assumptions C01_update_raising.

(* any operation, raising or not, evaluates a cached node at most once and only if it was outdated and
   ghost-marked when the sweep started *)
Theorem C01_evaluate_once_raising : forall (V F : Type) (interp : F -> list V -> V) (dflt : V) (isErr : V -> bool)
  (g : graph F), wf g -> forall (ext0 : list V) (rs0 : rstate V) (xs : list (xop V)) x,
  finit interp dflt isErr g ext0 = Some rs0 ->
  let rs := frun interp dflt isErr g xs rs0 in
  let out := fstep interp dflt isErr g rs x in
  let s0 := xpre_sweep V F interp dflt g rs x in
  NoDup (evald out)
  /\ (forall k, In k (evald out) ->
        cached F g k /\ outdated g s0 k = true /\ getb (touched s0) k = true
        /\ getb (touched (cur (st' out))) k = false /\ outdated g (cur (st' out)) k = false).
Proof. exact fstep_trace_reach. Qed.
Print Assumptions C01_evaluate_once_raising.

(* if no evaluation gives an error value the stopping sweep is the sweep of Graph.v *)
Theorem C01_no_raise_is_plain : forall (V F : Type) (interp : F -> list V -> V) (dflt : V) (isErr : V -> bool)
  (g : graph F) tgt s,
  (forall f args, isErr (interp f args) = false) ->
  sweepF_lit interp dflt isErr g tgt s = (sweep_lit interp dflt g tgt s, false).
Proof. exact sweepF_no_error. Qed.
Print Assumptions C01_no_raise_is_plain.

(* the table-driven instance the shards execute is the literal model, raising evaluations included *)
Theorem C01_memo_is_lit_raising : forall (V F : Type) (interp : F -> list V -> V) (dflt : V) (isErr : V -> bool)
  (g : graph F), wf g -> forall (ext0 : list V) (rs0 : rstate V) (xs : list (xop V)),
  finit interp dflt isErr g ext0 = Some rs0 ->
  mfinit interp dflt isErr g ext0 = Some rs0
  /\ mfrun interp dflt isErr g xs rs0 = frun interp dflt isErr g xs rs0
  /\ forall x, mfstep interp dflt isErr g (frun interp dflt isErr g xs rs0) x
               = fstep interp dflt isErr g (frun interp dflt isErr g xs rs0) x.
Proof. exact memo_F. Qed.
Print Assumptions C01_memo_is_lit_raising.

(* raising in mid-sweep and going on: x := 6 makes B raise after A was evaluated; x stays 6, A is clean and
   from scratch, B and D stay outdated; update(C) works, update(D) raises again, x := 5 repairs everything *)
Example C01_example_raising :
  finit exiF 0 exErr exg ex_ext0 = Some ex_frs0 /\
  let o1 := fstep exiF 0 exErr exg ex_frs0 (XBase (Assign 0 6)) in
  err o1 = true /\ evald o1 = [2]
  /\ values_all exiF 0 exg (cur (st' o1)) = [6; 2; 9; 47; 41; 14; 182]
  /\ flags_all exg (cur (st' o1)) = [false; false; false; false; true; false; true]
  /\ coherent nat nat exiF 0 exg (cur (st' o1))
  /\ (let o2 := fstep exiF 0 exErr exg (st' o1) (XBase (Update [5])) in
      err o2 = false /\ evald o2 = []
      /\ (let o3 := fstep exiF 0 exErr exg (st' o2) (XBase (Update [6])) in
          err o3 = true /\ evald o3 = []
          /\ (let o4 := fstep exiF 0 exErr exg (st' o3) (XBase (Assign 0 5)) in
              err o4 = false /\ evald o4 = [2; 4; 6]
              /\ values_all exiF 0 exg (cur (st' o4)) = [5; 2; 8; 44; 53; 14; 218]
              /\ flags_all exg (cur (st' o4)) = [false; false; false; false; false; false; false]))).
Proof. exact ex_raising_full. Qed.
Print Assumptions C01_example_raising.

(* the boolean well-formedness test that lets a generated graph into the correspondence runs (and that the
   Examples use through wfb_wf) accepts a graph exactly when the graph meets the hypothesis wf of the theorems
   above (Graph/GraphWf.v): no covered graph is turned away, no uncovered graph is let in *)
Theorem C01_wf_test_exact : forall F (g : LV.Graph.Graph.graph F),
  LV.Graph.Graph.wfb g = true <-> LV.Graph.Graph.wf g.
Proof. intros F g. exact (wfb_iff g). Qed.
Print Assumptions C01_wf_test_exact.
