(* C01 - model cache coherence: an update restores exactly the from-scratch values.
   Model: Graph/Graph.v (literal readers [value], [outdated], [denote]; operations [step]).
   For every value type V, function symbols F, meaning interp, every well-formed graph g (any
   topological order of a DAG of Value / cached / transient nodes), every initial input values ext0
   and every finite history ops of the public operations
   (Assign, SetAuto, Update [] = full, Update ts = targeted, Save, Restore). *)
From Coq Require Import List Bool Arith.
Import ListNotations.
From LV Require Import Graph.Graph Graph.GraphProofs Graph.GraphMemo Graph.GraphExamples.


(* every node that reports itself up to date holds exactly the from-scratch value for the current
   values of the Value nodes *)
Theorem C01_coherent : forall (V F : Type) (interp : F -> list V -> V) (dflt : V) (g : graph F), wf g ->
  forall (ext0 : list V) (ops : list (op V)),
  let rs := run interp dflt g ops (init interp dflt g ext0) in
  forall k, k < length g ->
  outdated g (cur rs) k = false ->
  value interp dflt g (cur rs) k = denote interp dflt g (vals (cur rs)) k.
Proof. exact coherent_reachable. Qed.

(* a full update, and any successful assignment while auto-update is on, leaves no node outdated *)
Theorem C01_full_update_clean : forall (V F : Type) (interp : F -> list V -> V) (dflt : V) (g : graph F), wf g ->
  forall (ext0 : list V) (ops : list (op V)),
  let rs := run interp dflt g ops (init interp dflt g ext0) in
  forall o,
  (o = Update [] \/ exists i v, o = Assign i v /\ auto (cur rs) = true) ->
  err (step interp dflt g rs o) = false ->
  forall k, k < length g -> outdated g (cur (st' (step interp dflt g rs o))) k = false.
Proof. exact full_update_clean_reach. Qed.

(* a freshly built model has no outdated node *)
Theorem C01_init_clean : forall (V F : Type) (interp : F -> list V -> V) (dflt : V) (g : graph F), wf g ->
  forall (ext0 : list V) k, k < length g ->
  outdated g (cur (init interp dflt g ext0)) k = false.
Proof. exact init_clean. Qed.

(* a targeted update brings the named nodes and all their ancestors up to date (they then hold the
   from-scratch values); nodes outside this set keep value, flag and ghost; input values are kept *)
Theorem C01_targeted_update : forall (V F : Type) (interp : F -> list V -> V) (dflt : V) (g : graph F), wf g ->
  forall (ext0 : list V) (ops : list (op V)),
  let rs := run interp dflt g ops (init interp dflt g ext0) in
  forall ts,
  ts <> [] -> forallb (fun t => t <? length g) ts = true ->
  let s := cur rs in
  let s' := cur (st' (step interp dflt g rs (Update ts))) in
  (forall t k, In t ts -> path F g k t ->
      outdated g s' k = false /\ value interp dflt g s' k = denote interp dflt g (vals s') k)
  /\ (forall k, (forall t, In t ts -> ~ path F g k t) -> same_at V dflt s' s k)
  /\ (forall k n, nth_error g k = Some n -> kd n = KValue -> getv dflt (vals s') k = getv dflt (vals s) k)
  /\ err (step interp dflt g rs (Update ts)) = false.
Proof. exact targeted_update_reach. Qed.

(* [path i k] (k is i or a recursive output of i) is what the executable [reaches] computes *)
Theorem C01_reaches_is_path : forall (F : Type) (g : graph F), wf g ->
  forall i k, reaches g i k = true <-> path F g i k.
Proof. exact reaches_path. Qed.

(* any operation evaluates a cached node at most once, only if the node was outdated when the sweep
   started and an ancestor was assigned since it was last computed (ghost mark [touched]: raised for
   the recursive outputs by an assignment, saved and restored with the state, cleared exactly for
   the evaluated nodes) *)
Theorem C01_evaluate_once_if_needed : forall (V F : Type) (interp : F -> list V -> V) (dflt : V) (g : graph F), wf g ->
  forall (ext0 : list V) (ops : list (op V)),
  let rs := run interp dflt g ops (init interp dflt g ext0) in
  forall o,
  let out := step interp dflt g rs o in
  let s0 := pre_sweep V F interp dflt g rs o in
  NoDup (evald out)
  /\ (forall k, In k (evald out) ->
        cached F g k /\ outdated g s0 k = true /\ getb (touched s0) k = true
        /\ getb (touched (cur (st' out))) k = false /\ outdated g (cur (st' out)) k = false)
  /\ (err out = false -> forall k, k < length g -> ~ In k (evald out) ->
        match o with Restore _ => True | _ => getb (touched (cur (st' out))) k = getb (touched s0) k end).
Proof. exact evaluate_once_if_needed_reach. Qed.

(* in every reachable state an outdated cached node carries the ghost mark *)
Theorem C01_outdated_touched : forall (V F : Type) (interp : F -> list V -> V) (dflt : V) (g : graph F), wf g ->
  forall (ext0 : list V) (ops : list (op V)),
  let rs := run interp dflt g ops (init interp dflt g ext0) in
  forall k,
  cached F g k -> outdated g (cur rs) k = true -> getb (touched (cur rs)) k = true.
Proof. exact outdated_touched. Qed.

(* an assignment with auto-update off changes no value but the assigned one, evaluates nothing and
   raises exactly the flags (and ghost marks) of the recursive outputs of the assigned node *)
Theorem C01_assign_frame : forall (V F : Type) (interp : F -> list V -> V) (dflt : V) (g : graph F), wf g ->
  forall (ext0 : list V) (ops : list (op V)),
  let rs := run interp dflt g ops (init interp dflt g ext0) in
  forall i v n,
  nth_error g i = Some n -> kd n = KValue -> auto (cur rs) = false ->
  let out := step interp dflt g rs (Assign i v) in
  let s := cur rs in let s' := cur (st' out) in
  err out = false /\ evald out = []
  /\ getv dflt (vals s') i = v
  /\ (forall k, k <> i -> getv dflt (vals s') k = getv dflt (vals s) k)
  /\ (forall k, k < length g -> getb (dirty s') k = getb (dirty s) k || (negb (k =? i) && reaches g i k))
  /\ (forall k, k < length g -> ~ path F g i k -> outdated g s' k = outdated g s k).
Proof. exact assign_frame_reach. Qed.

(* restoring the k-th saved state gives back its values, flags and ghost marks, evaluates nothing *)
Theorem C01_restore : forall (V F : Type) (interp : F -> list V -> V) (dflt : V) (g : graph F), wf g ->
  forall (ext0 : list V) (ops : list (op V)),
  let rs := run interp dflt g ops (init interp dflt g ext0) in
  forall k sn,
  nth_error (snaps rs) k = Some sn ->
  let out := step interp dflt g rs (Restore k) in
  err out = false /\ evald out = []
  /\ vals (cur (st' out)) = sn_vals sn /\ dirty (cur (st' out)) = sn_flags sn
  /\ touched (cur (st' out)) = sn_touched sn /\ auto (cur (st' out)) = auto (cur rs)
  /\ RInv V F interp dflt g (st' out).
Proof. exact restore_spec. Qed.

(* the table-driven instance that the correspondence shards execute is the literal model *)
Theorem C01_memo_is_lit : forall (V F : Type) (interp : F -> list V -> V) (dflt : V) (g : graph F), wf g ->
  forall (ext0 : list V) (ops : list (op V)),
  let rs := run interp dflt g ops (init interp dflt g ext0) in
  mrun interp dflt g ops (minit interp dflt g ext0) = rs
  /\ forall o, mstep interp dflt g rs o = step interp dflt g rs o.
Proof. exact memo_reach. Qed.


Print Assumptions C01_coherent.
Print Assumptions C01_full_update_clean.
Print Assumptions C01_init_clean.
Print Assumptions C01_targeted_update.
Print Assumptions C01_reaches_is_path.
Print Assumptions C01_evaluate_once_if_needed.
Print Assumptions C01_outdated_touched.
Print Assumptions C01_assign_frame.
Print Assumptions C01_restore.
Print Assumptions C01_memo_is_lit.

(* non-vacuity: the hypotheses hold of a 7-node diamond with a transient node in the middle, in the
   state after [auto off; assign x; targeted update of a sibling] *)
Example C01_example_hypotheses :
  wf exg /\ RInv nat nat exi 0 exg ex_rs1 /\ [4] <> @nil nat
  /\ forallb (fun t => t <? length exg) [4] = true
  /\ auto (cur ex_rs1) = false
  /\ (exists k, outdated exg (cur ex_rs1) k = true).
Proof. exact ex_hyps. Qed.
Print Assumptions C01_example_hypotheses.

Example C01_example_sibling_update :
  flags_all exg (cur ex_rs1) = [false; false; true; true; true; false; true]
  /\ evald (step exi 0 exg (run exi 0 exg [SetAuto false; Assign 0 5] (init exi 0 exg ex_ext0)) (Update [5])) = []
  /\ value exi 0 exg (cur ex_rs1) 5 = denote exi 0 exg (vals (cur ex_rs1)) 5
  /\ value exi 0 exg (cur ex_rs1) 6 <> denote exi 0 exg (vals (cur ex_rs1)) 6.
Proof. exact ex_state1. Qed.
Print Assumptions C01_example_sibling_update.

Example C01_example_targeted_then_full :
  let out := step exi 0 exg ex_rs1 (Update [4]) in
  evald out = [2; 4] /\ err out = false
  /\ flags_all exg (cur (st' out)) = [false; false; false; false; false; false; true]
  /\ evald (step exi 0 exg (st' out) (Update [])) = [6]
  /\ evald (step exi 0 exg (st' (step exi 0 exg (st' out) (Update []))) (Update [])) = [].
Proof. exact ex_state2. Qed.
Print Assumptions C01_example_targeted_then_full.
