(* C15 - built models are complete, acyclic, uniquely named, frozen, and round-trip. *)
From Coq Require Import List Arith Bool String Permutation.
Import ListNotations.
From LV Require Import Graph.Build Graph.BuildProofs Graph.BuildNames Graph.TopoProofs.
Open Scope list_scope.

(* the worklist of GraphBuilder._all_nodes_and_vars returns exactly the nodes reachable from the added
   nodes / variables through inputs and variable membership, each once; and exactly their variables *)
Theorem C15_closure_complete : forall w rn rv ns vs,
  closure w rn rv = Some (ns, vs) ->
  NoDup ns /\ NoDup vs /\
  (forall n, In n ns <-> reach w (init_list w rn rv) n) /\
  (forall v, In v vs <-> exists n, reach w (init_list w rn rv) n /\ var_of w n = Some v).
Proof. exact closure_complete. Qed.
Print Assumptions C15_closure_complete.

(* the fuel of the worklist is never exhausted *)
Theorem C15_closure_terminates : forall w rn rv, closure w rn rv <> None.
Proof. exact closure_terminates. Qed.
Print Assumptions C15_closure_terminates.

Example C15_closure_example : closure ex_seeded [] [0] = Some ([2; 1; 0], [0]).
Proof. exact closure_example. Qed.

(* _set_missing_names: the name search always terminates with a free name, and afterwards no node and no
   variable of the closure is unnamed *)
Theorem C15_set_missing_names_nonempty : forall proxy_fix w ns vs,
  set_missing_names proxy_fix w ns vs <> None /\
  forall w', set_missing_names proxy_fix w ns vs = Some w' ->
    (forall n, In n ns -> n < List.length (w_nodes w) -> name_of w' n <> ""%string) /\
    (forall v, In v vs -> v < List.length (w_vars w) -> vname_of w' v <> ""%string).
Proof. intros pf w ns vs. split; [apply set_missing_names_total|apply set_missing_names_nonempty]. Qed.
Print Assumptions C15_set_missing_names_nonempty.

(* full strength, through the WHOLE build (auto-transform, naming, the three model nodes, the seed nodes, the
   final closure, Model.__init__), for every world, every code variant, copy=False and copy=True and every
   topological-sort oracle: the node names of an accepted build are pairwise distinct, so are the variable
   names, and every node / variable of the model that exists in the world has a non-empty name *)
Theorem C15_names_unique_nonempty : forall strip check_first proxy_fix topo copy w rn rv w' m,
  build strip check_first proxy_fix topo copy w rn rv = (w', Ok m) ->
  let wv := copied_world copy w' m in
  NoDup (map (name_of wv) (m_nodes m)) /\ NoDup (map (vname_of wv) (m_vars m)) /\
  (forall i, In i (m_nodes m) -> i < List.length (w_nodes wv) -> name_of wv i <> ""%string) /\
  (forall v, In v (m_vars m) -> v < List.length (w_vars wv) -> vname_of wv v <> ""%string).
Proof. exact build_names_unique_nonempty. Qed.
Print Assumptions C15_names_unique_nonempty.

Theorem C15_fresh_name_is_free : forall pre c other c' nm,
  fresh pre c other = Some (c', nm) -> ~ In nm other /\ (pre <> ""%string -> nm <> ""%string).
Proof. exact fresh_spec. Qed.
Print Assumptions C15_fresh_name_is_free.

Example C15_names_example :
  let w := mkW [mkN "n0" [] [] None None false false false [] []; mkN "" [] [] None None false false false [] [];
                mkN "" [0; 1] [] None None false false false [] []] [] [] in
  option_map (fun w' => map (name_of w') [2; 1; 0]) (set_missing_names true w [2; 1; 0] []) = Some ["n1"; "n2"; "n0"]%string.
Proof. exact names_example. Qed.

(* an accepted build: every node / variable once, names pairwise distinct, closed under inputs and
   variable membership, outputs the exact inverse of inputs, every node owned by the model, and a
   topological update order exists (for all code variants and every topological-sort oracle) *)
Theorem C15_build_ok : forall strip check_first proxy_fix topo copy w rn rv w' m,
  build strip check_first proxy_fix topo copy w rn rv = (w', Ok m) ->
  let wv := copied_world copy w' m in     (* the result world; for copy=True the copies, wired *)
  NoDup (m_nodes m) /\ NoDup (m_vars m) /\
  NoDup (map (name_of wv) (m_nodes m)) /\
  NoDup (map (vname_of wv) (m_vars m)) /\
  (forall i a, In i (m_nodes m) -> In a (ins_of wv i) -> In a (m_nodes m)) /\
  (forall i v, In i (m_nodes m) -> var_of wv i = Some v -> In v (m_vars m)) /\
  (forall i j, In i (m_nodes m) -> i < List.length (w_nodes wv) ->
               (In j (outs_of wv i) <-> In j (m_nodes m) /\ In i (ins_of wv j))) /\
  (forall i, In i (m_nodes m) -> i < List.length (w_nodes wv) -> inmodel_of wv i = true) /\
  exists order, is_topo wv (m_nodes m) order = true.
Proof. exact build_ok_spec. Qed.
Print Assumptions C15_build_ok.

Example C15_build_example :
  match build true true true naive_topo false ex_seeded [] [0] with
  | (w', Ok m) => map (name_of w') (m_nodes m) =
                  ["x_var_value"; "s"; "_model_s_seed"; "a"; "_model_log_prob"; "_model_log_prior"; "_model_log_lik"]%string
  | _ => False
  end.
Proof. exact build_example. Qed.

Theorem C15_outputs_inverse : forall w ns i m,
  In i ns -> i < List.length (w_nodes w) ->
  (In m (outs_of (wire w ns) i) <-> In m ns /\ In i (ins_of (wire w ns) m)).
Proof. exact outputs_inverse. Qed.
Print Assumptions C15_outputs_inverse.

(* the order accepted by Model.__init__ respects the inputs; a graph with a cycle has no such order *)
Theorem C15_topological : forall w ns order,
  is_topo w ns order = true ->
  NoDup order /\
  (forall n, In n order -> In n ns) /\
  forall l1 b l2, order = l1 ++ b :: l2 -> forall a, In a (ins_of w b) -> In a l1.
Proof. exact topo_respects_inputs. Qed.
Print Assumptions C15_topological.

Theorem C15_cycle_has_no_order : forall w ns order a,
  path w a a -> In a order -> is_topo w ns order = false.
Proof. exact cycle_has_no_order. Qed.
Print Assumptions C15_cycle_has_no_order.

Example C15_cycle_example :
  let w := mkW [mkN "a" [1] [] None None false false false [] []; mkN "b" [0] [] None None false false false [] []] [] [] in
  path w 0 0 /\ snd (build true true true naive_topo false w [0] []) = Err Cycle.
Proof. exact cycle_example. Qed.

(* duplicate node / variable / group names, a node of another model, or no topological order: rejected *)
Theorem C15_rejects : forall check_first topo copy w ns vs,
  (~ NoDup (map (name_of w) ns) \/ ~ NoDup (map (vname_of w) vs)
   \/ ~ NoDup (map (gname_of w) (groups_of w ns vs))
   \/ (copy = false /\ exists i, In i ns /\ inmodel_of w i = true) \/ topo w ns = None) ->
  exists e, snd (model_init check_first topo copy w ns vs) = Err e.
Proof. exact model_init_rejects. Qed.
Print Assumptions C15_rejects.

(* every structural mutator of an object that belongs to a model is rejected, nothing changes *)
Theorem C15_frozen : forall proxy_fix w t mu,
  target_inmodel w t = true -> mutate proxy_fix w t mu = (w, Err Frozen).
Proof. exact mutate_frozen. Qed.
Print Assumptions C15_frozen.

(* the same for the ARGUMENT of the value_node / dist_node setters: a node of a live model cannot be made
   part of a variable, whatever variable receives it *)
Theorem C15_frozen_argument : forall proxy_fix w t mu,
  arg_inmodel w mu = true -> mutate proxy_fix w t mu = (w, Err Frozen).
Proof. exact mutate_frozen_arg. Qed.
Print Assumptions C15_frozen_argument.

Example C15_frozen_example :
  match build true true true naive_topo false ex_seeded [] [0] with
  | (w', Ok m) => mutate true w' (TNode 1) (MSetName "t") = (w', Err Frozen) /\ mutate true w' (TVar 0) (MSetName "t") = (w', Err Frozen)
  | _ => False
  end.
Proof. exact frozen_example. Qed.

(* a build rejected by Model.__init__ (repaired code) changes nothing; the code as found cleared the
   outputs of a node of the live model (defect F9) *)
Theorem C15_rejected_init_unchanged : forall topo copy w ns vs w' e,
  model_init true topo copy w ns vs = (w', Err e) -> w' = w.
Proof. exact model_init_rejected_unchanged. Qed.
Print Assumptions C15_rejected_init_unchanged.

Example C15_rejected_build_keeps_outputs_example : second_build true = ([2], [2], true).
Proof. exact rejected_build_keeps_outputs_example. Qed.

Theorem C15_rejected_build_clears_outputs_refuted :
  exists w rn rv i,
    match build true false true naive_topo false w rn rv with
    | (w1, Ok m) =>
      match build true false true naive_topo false w1 [i] [] with
      | (w2, Err InModel) => In i (m_nodes m) /\ outs_of w1 i <> outs_of w2 i
      | _ => False
      end
    | _ => False
    end.
Proof. exact rejected_build_clears_outputs_refuted. Qed.
Print Assumptions C15_rejected_build_clears_outputs_refuted.

(* pop: exactly the nodes of the model are unfrozen, structure and names are kept *)
Theorem C15_pop_spec : forall w m j,
  getn (pop w m) j = (if memn j (m_nodes m) then option_map (set_inmodel false) (getn w j) else getn w j)
  /\ ins_of (pop w m) j = ins_of w j /\ name_of (pop w m) j = name_of w j /\ var_of (pop w m) j = var_of w j.
Proof. intros w m j. split; [apply pop_spec|apply pop_keeps_structure]. Qed.
Print Assumptions C15_pop_spec.

Theorem C15_pop_unfreezes : forall proxy_fix w m i mu, In i (m_nodes m) -> arg_inmodel (pop w m) mu = false ->
  mutate proxy_fix (pop w m) (TNode i) mu = (do_mutation proxy_fix (pop w m) (TNode i) mu, Ok tt).
Proof. exact pop_unfreezes. Qed.
Print Assumptions C15_pop_unfreezes.

(* pop + rebuild of a model with a seeded node: accepted with the same node names by the repaired
   code (instance; the general round-trip law is established by the correspondence only), rejected
   with the reserved-name error by the code as found (defect F8) *)
Theorem C15_pop_rebuild_seeded_partial :
  match rebuild true ex_seeded [] [0] with
  | (w2, Ok m1, Ok m2) =>
    match build true true true naive_topo false w2 (popped_nodes w2 m1) (m_vars m1) with
    | (w3, Ok m3) =>
      List.length (m_nodes m3) = List.length (m_nodes m1) /\
      forall s, In s (map (name_of w3) (m_nodes m3)) <-> In s (map (name_of w2) (m_nodes m1))
    | _ => False
    end
  | _ => False
  end.
Proof. exact pop_rebuild_seeded_example. Qed.
Print Assumptions C15_pop_rebuild_seeded_partial.

Theorem C15_pop_rebuild_seeded_refuted :
  exists w rn rv, match rebuild false w rn rv with
                  | (_, Ok _, Err Reserved) => True
                  | _ => False end.
Proof. exact pop_rebuild_seeded_refuted. Qed.
Print Assumptions C15_pop_rebuild_seeded_refuted.

(* Var.name and the VarValue proxy: the repaired setter (66a7abc) names the proxy whenever it still carries
   the default name; the code as found left "_var_value" on the proxies of unnamed variables with
   user-named value nodes, so two of them were rejected for duplicate node names (defect F10) *)
Theorem C15_var_name_renames_proxy : forall w v pv nm,
  getv w v = Some pv -> nm <> ""%string ->
  v_value pv <> v_varvalue pv -> v_dist pv <> Some (v_varvalue pv) ->
  v_varvalue pv < List.length (w_nodes w) ->
  (name_of w (v_varvalue pv) = ""%string \/ name_of w (v_varvalue pv) = (v_name pv ++ "_var_value")%string) ->
  name_of (set_var_name true w v nm) (v_varvalue pv) = (nm ++ "_var_value")%string.
Proof. exact set_var_name_renames_proxy. Qed.
Print Assumptions C15_var_name_renames_proxy.

Example C15_unnamed_vars_named_values_example :
  match build true true true naive_topo false ex_proxies [] [0; 1] with
  | (w', Ok m) => map (vname_of w') (m_vars m) = ["v0"; "v1"]%string /\
                  In "v0_var_value"%string (map (name_of w') (m_nodes m)) /\
                  In "v1_var_value"%string (map (name_of w') (m_nodes m))
  | _ => False
  end.
Proof. exact unnamed_vars_named_values_example. Qed.

Theorem C15_unnamed_vars_named_values_refuted :
  exists w rv,
    NoDup (filter (fun s => negb (String.eqb s "_var_value")) (map n_name (w_nodes w))) /\
    snd (build true true false naive_topo false w [] rv) = Err DupNode /\
    is_ok (snd (build true true true naive_topo false w [] rv)) = true.
Proof. exact unnamed_vars_named_values_refuted. Qed.
Print Assumptions C15_unnamed_vars_named_values_refuted.

(* copy=True: Model.__init__ leaves the originals exactly as they are (accepted or rejected) - also when
   they belong to a live model; the live model keeps its outputs *)
Theorem C15_copy_keeps_originals : forall check_first topo w ns vs w' r,
  model_init check_first topo true w ns vs = (w', r) -> w' = w.
Proof. exact model_init_copy_keeps_originals. Qed.
Print Assumptions C15_copy_keeps_originals.

Example C15_copy_build_from_live_model_example :
  match build true true true naive_topo false ex_chain [2] [] with
  | (w1, Ok m1) =>
    match build true true true naive_topo true w1 [2] [] with
    | (w2, Ok m2) => map (getn w2) (m_nodes m1) = map (getn w1) (m_nodes m1) /\
                     map (outs_of w2) [0; 1; 2] = [[1]; [2]; []] /\
                     map (name_of w2) (m_nodes m2) = ["_model_log_prob"; "_model_log_prior"; "_model_log_lik"; "c"; "b"; "a"]%string
    | _ => False
    end
  | _ => False
  end.
Proof. exact copy_build_from_live_model_example. Qed.

(* reserved names.  build_model rejects node names with the prefix "_model"; pop / copy drop names with the
   prefix "_model": a name accepted by build is kept by pop (the two predicates of the code agree), so a
   popped model loses only nodes that build_model itself created.  A narrower build-time check (seeded
   change C15-4) would accept a user node that pop silently drops. *)
Theorem C15_build_accepts_pop_keeps : forall w m i,
  In i (m_nodes m) -> build_reserved (name_of w i) = false -> In i (popped_nodes w m).
Proof. exact pop_keeps_accepted_nodes. Qed.
Print Assumptions C15_build_accepts_pop_keeps.

Theorem C15_narrow_reserved_check_refuted :
  exists s, prefix "_model_" s = false /\ pop_dropped s = true /\
            popped_nodes (mkW [mkN s [] [] None None false false true [] []] [] []) (mkM [0] []) = [].
Proof. exact narrow_reserved_check_refuted. Qed.
Print Assumptions C15_narrow_reserved_check_refuted.

(* seed inputs: the name given to a seed node matches the stripping pattern for EVERY node name, so the stale
   seed input of a popped / copied node is removed by the next build also after the node was renamed *)
Theorem C15_seed_name_matches_pattern : forall nm, is_model_seed_name (seed_name_for nm) = true.
Proof. exact seed_name_matches_pattern. Qed.
Print Assumptions C15_seed_name_matches_pattern.

Theorem C15_strip_removes_stale_seed : forall w i n s nm,
  getn w i = Some n -> kw_find "seed" (n_kw n) = Some s -> n_inmodel n = false ->
  name_of w s = seed_name_for nm ->
  strip_one w i = setn w i (set_kw (kw_remove "seed" (n_kw n))).
Proof. exact strip_one_removes_stale_seed. Qed.
Print Assumptions C15_strip_removes_stale_seed.

Example C15_rename_between_pop_and_rebuild_example :
  match build true true true naive_topo false ex_seeded [] [0] with
  | (w1, Ok m1) =>
    let w2 := fst (mutate true (pop w1 m1) (TNode 1) (MSetName "t")) in
    match build true true true naive_topo false w2 (popped_nodes w2 m1) (m_vars m1) with
    | (w3, Ok m3) => In "_model_t_seed"%string (map (name_of w3) (m_nodes m3)) /\
                     ~ In "_model_s_seed"%string (map (name_of w3) (m_nodes m3)) /\
                     is_model_seed_name "_model_s_seed" = true /\
                     String.eqb "_model_s_seed" (seed_name_for "t") = false
    | _ => False
    end
  | _ => False
  end.
Proof. exact rename_between_pop_and_rebuild_example. Qed.

(* auto_transform.  build_model applies Var.transform(None) to exactly the flagged variables of the closure;
   the flag is cleared on the ORIGINAL variable and never appears on a new one, so a second build over the
   same variables (pop -> build, copy -> build, copy=True twice) transforms nothing.  Leaving the flag on the
   original (seeded change C15-9) makes the next transform fail on the now weak variable. *)
Theorem C15_auto_transform_clears_flags : forall w vs w',
  auto_transform_all w vs = (w', Ok tt) -> forall v, In v vs -> is_auto w' v = false.
Proof. exact auto_transform_clears_flags. Qed.
Print Assumptions C15_auto_transform_clears_flags.

Theorem C15_auto_transform_no_new_flags : forall w vs w',
  auto_transform_all w vs = (w', Ok tt) -> forall u, is_auto w' u = true -> is_auto w u = true.
Proof. exact auto_transform_no_new_flags. Qed.
Print Assumptions C15_auto_transform_no_new_flags.

Theorem C15_auto_transform_noop : forall vs w,
  (forall v, In v vs -> is_auto w v = false) -> auto_transform_all w vs = (w, Ok tt).
Proof. exact auto_transform_noop. Qed.
Print Assumptions C15_auto_transform_noop.

Example C15_auto_transform_round_trip_example :
  match build true true true naive_topo false ex_auto [] [0] with
  | (w1, Ok m1) =>
    map (vname_of w1) (m_vars m1) = ["scale"; "scale_transformed"]%string /\
    is_auto w1 0 = false /\ is_auto w1 1 = false /\
    match build true true true naive_topo false (pop w1 m1) (popped_nodes w1 m1) (m_vars m1) with
    | (w2, Ok m2) => List.length (m_nodes m2) = List.length (m_nodes m1) /\
                     map (vname_of w2) (m_vars m2) = ["scale_transformed"; "scale"]%string /\
                     List.length (w_vars w2) = List.length (w_vars w1)
    | _ => False
    end
  | _ => False
  end.
Proof. exact auto_transform_round_trip_example. Qed.

Theorem C15_auto_flag_left_on_original_refuted :
  exists w v w1, transform_default w v = (w1, Ok tt) /\
    snd (transform_default (setv w1 v (set_auto true)) v) = Err BadTransform.
Proof. exact auto_flag_left_on_original_refuted. Qed.
Print Assumptions C15_auto_flag_left_on_original_refuted.

(* pop + rebuild, general part of the round-trip law.  For EVERY accepted build (copy=False; any variant, any
   oracle) whose model objects exist in the world and whose variables carry no pending auto_transform flag
   (both hold after build on well-formed worlds; satisfiable: C15_rebuild_hyps_example): in the popped world,
   the closure of the second build - before and after the stale seed inputs are removed - stays inside the
   first model, names are untouched, the auto-transform step and _set_missing_names are the identity.  So
   every node and variable enters the second Model.__init__ under exactly the name the first build gave it.
   (partial: not proved in general - that this closure is ALL of the first model except its three model nodes
   and its fresh seed nodes, that the re-created model / seed nodes get the same names and inputs, and that
   Model.__init__ accepts again under a sound and complete order oracle; these are certified per case by the
   correspondence and on the instances below) *)
Theorem C15_pop_rebuild_names_stable_partial : forall strip check_first proxy_fix topo w rn rv w' m,
  build strip check_first proxy_fix topo false w rn rv = (w', Ok m) ->
  (forall i, In i (m_nodes m) -> i < List.length (w_nodes w')) ->
  (forall v, In v (m_vars m) -> v < List.length (w_vars w')) ->
  (forall v, In v (m_vars m) -> is_auto w' v = false) ->
  let w2 := pop w' m in
  let rn2 := popped_nodes w' m in
  exists ns0 vs0 ns1 vs1,
    closure w2 rn2 (m_vars m) = Some (ns0, vs0) /\
    let w3 := strip_seeds w2 ns0 in
    closure w3 rn2 (m_vars m) = Some (ns1, vs1) /\
    incl ns1 (m_nodes m) /\ incl vs1 (m_vars m) /\
    (forall i, name_of w3 i = name_of w' i) /\ (forall v, vname_of w3 v = vname_of w' v) /\
    auto_transform_all w3 vs1 = (w3, Ok tt) /\
    set_missing_names proxy_fix w3 ns1 vs1 = Some w3.
Proof. exact pop_rebuild_names_stable. Qed.
Print Assumptions C15_pop_rebuild_names_stable_partial.

Theorem C15_set_missing_names_fixpoint : forall proxy_fix w ns vs,
  (forall n, In n ns -> name_of w n <> ""%string) -> (forall v, In v vs -> vname_of w v <> ""%string) ->
  set_missing_names proxy_fix w ns vs = Some w.
Proof. exact set_missing_names_fix. Qed.
Print Assumptions C15_set_missing_names_fixpoint.

Example C15_rebuild_hyps_example :
  (match build true true true naive_topo false ex_seeded [] [0] with (w', Ok m) => rebuild_hyps w' m | _ => false end) = true /\
  (match build true true true naive_topo false ex_auto [] [0] with (w', Ok m) => rebuild_hyps w' m | _ => false end) = true.
Proof. exact rebuild_hyps_example. Qed.

(* the executable topological-sort oracle used by the Examples and the correspondence runs decides
   orderability: None exactly when no order of the (duplicate-free) node list is accepted by the
   checker of Model.__init__, and every answer is accepted (Graph/TopoProofs.v: soundness by a scan
   invariant over Kahn layers, completeness by the first pending node of a reference order) *)
Theorem C15_topo_oracle_decides : forall w ns, NoDup ns ->
  (naive_topo w ns = None <-> forall ord, is_topo w ns ord = false) /\
  (forall order, naive_topo w ns = Some order -> is_topo w ns order = true).
Proof. exact naive_topo_decides. Qed.
Print Assumptions C15_topo_oracle_decides.

(* hence Model.__init__ with this oracle never takes the BadOrder branch: "acyclic" is decided, not assumed *)
Theorem C15_model_init_never_badorder : forall cf copy w ns vs, NoDup ns ->
  snd (model_init cf naive_topo copy w ns vs) <> Err BadOrder.
Proof. exact model_init_naive_never_badorder. Qed.
Print Assumptions C15_model_init_never_badorder.

(* a cycle among the nodes makes the oracle answer None (rejection Cycle), whatever else the graph holds *)
Theorem C15_cycle_rejected_by_oracle : forall w ns a,
  NoDup ns -> path w a a -> In a ns -> naive_topo w ns = None.
Proof. exact cycle_rejected_by_naive_topo. Qed.
Print Assumptions C15_cycle_rejected_by_oracle.

(* every answer of the oracle is a duplicate-free rearrangement of the node list in which each node
   comes after all of its inputs *)
Theorem C15_topo_oracle_order : forall w ns order,
  NoDup ns -> naive_topo w ns = Some order ->
  Permutation order ns /\
  (forall l1 b l2, order = l1 ++ b :: l2 -> forall a, In a (ins_of w b) -> In a l1).
Proof.
  intros w ns order Hnd H. split; [exact (naive_topo_permutation w ns order Hnd H)|].
  exact (proj2 (proj2 (naive_topo_order_respects_inputs w ns order Hnd H))).
Qed.
Print Assumptions C15_topo_oracle_order.
