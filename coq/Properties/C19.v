(* C19 - error and sample bookkeeping in results and summaries is exact. *)
From Coq Require Import String.
From Coq Require Import List Arith Bool ZArith QArith.
Import ListNotations.
Close Scope Q_scope.
Open Scope nat_scope.
From LV Require Import Goose.ErrorLog Goose.ErrorLogProofs.

(* get_error_log: masking the columns without any non-zero code loses no non-zero code of any chain *)
Theorem C19_mask_lossless : forall n (A : list (list nat)) c,
  Forall (fun r => length r = n) A -> c <> 0 ->
  map (count c) (kel_codes (error_log_of A)) = map (count c) A.
Proof. exact mask_lossless. Qed.
Print Assumptions C19_mask_lossless.

(* the logged transition indices are exactly the transitions where some chain returned a non-zero code *)
Theorem C19_log_transitions_exact : forall n A t, Forall (fun r => length r = n) A ->
  In t (kel_transition (error_log_of A)) <->
  exists row x, In row A /\ nth_error row t = Some x /\ x <> 0.
Proof. exact transitions_exact. Qed.
Print Assumptions C19_log_transitions_exact.

(* every logged code is the code the chain returned at the logged transition *)
Theorem C19_log_entries_exact : forall n A k row, Forall (fun r => length r = n) A -> nth_error A k = Some row ->
  exists mrow, nth_error (kel_codes (error_log_of A)) k = Some mrow /\
               Forall2 (fun t x => nth_error row t = Some x) (kel_transition (error_log_of A)) mrow.
Proof. exact log_entries_exact. Qed.
Print Assumptions C19_log_entries_exact.

Theorem C19_log_shape : forall n A, Forall (fun r => length r = n) A ->
  Forall (fun mrow => length mrow = length (kel_transition (error_log_of A))) (kel_codes (error_log_of A)).
Proof. exact log_shape. Qed.
Print Assumptions C19_log_shape.

(* Summary.error_summary: per listed code, message = error book entry, total = warmup + posterior
   transitions of the chain with that code, posterior = posterior transitions with that code, and
   the subtraction total - posterior is the number of warmup transitions with that code *)
Theorem C19_counts_exact : forall s book E n es, Forall (fun r => length r = n) E ->
  existsb is_post s = true ->
  kernel_summary_of s (mkK book E) = Some es ->
  forall e, In e es ->
    en_msg e = lookup book (en_code e)
    /\ en_total e = map (fun row => count_phase s false (en_code e) 0 row + count_phase s true (en_code e) 0 row) E
    /\ en_post e = Some (map (count_phase s true (en_code e) 0) E)
    /\ (forall ps, en_post e = Some ps ->
          zip_sub (en_total e) ps = map (fun row => Z.of_nat (count_phase s false (en_code e) 0 row)) E).
Proof. exact counts_exact. Qed.
Print Assumptions C19_counts_exact.

(* a code is listed iff it is non-zero and some transition of the run returned it; listed once, ascending *)
Theorem C19_codes_complete : forall s book E n es, Forall (fun r => length r = n) E ->
  kernel_summary_of s (mkK book E) = Some es ->
  (forall c, In c (map en_code es) <-> c <> 0 /\ occurs c (map (firstn (total_dur s)) E))
  /\ strictly_sorted (map en_code es).
Proof. exact codes_complete. Qed.
Print Assumptions C19_codes_complete.

(* Summary.error_df(per_chain=True): exactly the rows (kernel, occurring code, phase, chain) with the
   kernel's message and the number of transitions of that chain and phase that returned the code *)
Theorem C19_error_df_exact : forall r su, rectangular r -> summarize r = Some su ->
  exists rows, su_df_chain su = Some rows /\
  forall x, In x rows <->
    exists ki kin c ph ch row,
      nth_error (r_kernels r) ki = Some kin /\ nth_error (k_E kin) ch = Some row /\
      occurs_in_run (r_sched r) c kin /\
      x = spec_row (r_sched r) (su_info su) ki kin c ph ch row.
Proof. exact df_chain_exact. Qed.
Print Assumptions C19_error_df_exact.

(* the frame is literally the specification's comprehension (order and multiplicity included) *)
Theorem C19_error_df_is_spec : forall r su, rectangular r -> summarize r = Some su ->
  su_df_chain su = Some (spec_df (r_sched r) (su_info su) (r_kernels r)).
Proof. exact df_chain_is_spec. Qed.
Print Assumptions C19_error_df_is_spec.

(* Summary.error_df(per_chain=False): one row per (kernel, occurring code, phase); count = sum over chains *)
Theorem C19_aggregate : forall r su, rectangular r -> summarize r = Some su ->
  exists rows, su_df_agg su = Some rows /\
  forall a, In a rows <->
    exists ki kin c ph, nth_error (r_kernels r) ki = Some kin /\ occurs_in_run (r_sched r) c kin /\
      a = mkARow ki c (lookup (k_book kin) c) ph
                 (sumZ (map (spec_count (r_sched r) ph c) (k_E kin)))
                 (mean_rel (map (fun row => rel (spec_count (r_sched r) ph c row) (phase_size (su_info su) ph)) (k_E kin))).
Proof. exact df_agg_exact. Qed.
Print Assumptions C19_aggregate.

Theorem C19_aggregate_relative : forall size l, size <> 0 -> l <> [] ->
  exists q, mean_rel (map (fun x => rel x size) l) = Some q
            /\ (q == Qmake (sumZ l) (Pos.of_nat (length l * size)))%Q.
Proof. exact mean_rel_exact. Qed.
Print Assumptions C19_aggregate_relative.

(* the kernel's documented message *)
Theorem C19_messages_documented : forall r su, rectangular r -> summarize r = Some su ->
  forall ki kin c, nth_error (r_kernels r) ki = Some kin -> occurs_in_run (r_sched r) c kin ->
  exists m, lookup (k_book kin) c = Some m.
Proof. exact messages_documented. Qed.
Print Assumptions C19_messages_documented.

Theorem C19_summary_defined : forall r, rectangular r ->
  (summarize r <> None <->
   existsb is_post (r_sched r) = true /\
   forall kin c, In kin (r_kernels r) -> occurs_in_run (r_sched r) c kin -> lookup (k_book kin) c <> None).
Proof. exact summarize_defined. Qed.
Print Assumptions C19_summary_defined.

(* sample_info against what is stored *)
Theorem C19_sample_counts : forall r su n, summarize r = Some su ->
  Forall (fun row => length row = n) (r_pos r) ->
  exists post, posterior_samples (r_sched r) (r_pos r) = Some post
    /\ si_chains (su_info su) = length post /\ length post = length (r_pos r)
    /\ (r_pos r <> [] -> Forall (fun chain => length chain = si_size (su_info su)) post)
    /\ (r_pos r <> [] -> n = total_dur (r_sched r) -> si_size (su_info su) = stored_sum is_post (r_sched r))
    /\ si_warmup (su_info su) = transitions_in (r_sched r) false 0 (total_dur (r_sched r)).
Proof. exact sample_counts. Qed.
Print Assumptions C19_sample_counts.

(* limits of the bookkeeping, faithful to the code *)
Theorem C19_warmup_size_is_not_stored_refuted :
  ~ (forall s (row : list nat), length row = total_dur s ->
       total_dur (filter is_warm s) = length (pos_stored is_warm s row)).
Proof. exact warmup_size_is_not_stored_refuted. Qed.
Print Assumptions C19_warmup_size_is_not_stored_refuted.

Theorem C19_relative_exceeds_one_refuted :
  ~ (forall r su rows x q, summarize r = Some su -> su_df_chain su = Some rows -> In x rows ->
       rw_rel x = Some q -> (q <= 1)%Q).
Proof. exact relative_exceeds_one_refuted. Qed.
Print Assumptions C19_relative_exceeds_one_refuted.

(* hypotheses are satisfiable on a non-trivial run *)
Example C19_ex_rectangular : rectangular ex_run.
Proof. exact ex_run_rectangular. Qed.

Example C19_ex_summarized : exists su, summarize ex_run = Some su
  /\ su_info su = mkSI 2 4 5
  /\ map (map en_code) (su_errors su) = [[1; 2]; [3]]
  /\ option_map (@length _) (su_df_chain su) = Some 12
  /\ option_map (@length _) (su_df_agg su) = Some 6.
Proof. exact ex_run_summarized. Qed.

Example C19_ex_mask : Forall (fun r => length r = 4) [[0; 2; 0; 1]; [3; 0; 0; 1]]
  /\ error_log_of [[0; 2; 0; 1]; [3; 0; 0; 1]] = mkKel [0; 1; 3] [[0; 2; 1]; [3; 0; 1]].
Proof. exact ex_mask. Qed.

Example C19_ex_counts : Forall (fun r => length r = 11) (k_E (nth 0 (r_kernels ex_run) (mkK [] [])))
  /\ existsb is_post ex_sched = true
  /\ kernel_summary_of ex_sched (nth 0 (r_kernels ex_run) (mkK [] [])) =
     Some [ mkEntry 1 (Some "one"%string) [3; 0] (Some [2; 0]); mkEntry 2 (Some "two"%string) [2; 2] (Some [1; 2]) ].
Proof. exact ex_counts. Qed.
