(* C07 - the engine drives every kernel through the documented lifecycle.
   Model: Goose/Engine.v (written from engine.py / kernel_sequence.py / kernel.py), documented
   lifecycle: Goose/EngineSpec.v (a function of the schedule alone), proofs: Goose/EngineProofs.v. *)
From Coq Require Import List ZArith Bool Arith.
Import ListNotations.
From LV Require Import Goose.Epoch Goose.Engine Goose.EngineSpec Goose.EngineProofs.
Open Scope Z_scope.

(* For every valid schedule, every positive JIT chunk dividing the durations of the sampled epochs,
   every kernel list and every interleaving of append_epoch / sample_next_epoch / sample_all_epochs
   that never samples without a pending epoch and ends with all epochs sampled: the run succeeds and
   the sequence of kernel calls IS the documented lifecycle of the schedule. *)
Theorem C07_trace_is_lifecycle : forall chunk needs init ops sched,
  valid sched = true -> sched = init ++ appended ops -> chunk_ok chunk sched ->
  ops_ok (length init) ops = true ->
  exists g, run (mkP chunk needs SetsFlag) init ops = Ok g
    /\ calls g = spec_calls (length needs) (any_needs needs) sched
    /\ cfgs (g_mgr g) = sched /\ has_more (g_mgr g) = false.
Proof. exact trace_is_lifecycle. Qed.
Print Assumptions C07_trace_is_lifecycle.

(* the documented lifecycle read per kernel - the clauses of the property text: init_state; no call
   in the initial-values epoch; per later epoch [end_warmup iff first posterior epoch]; one
   start_epoch at within-epoch time 0; exactly dur transitions at within-epoch times 0..dur-1 with
   global time continuing across epochs, adaptive iff adaptation epoch; one end_epoch; one tune iff
   adaptation epoch (slow iff SLOW_ADAPTATION, with that epoch's recorded history iff a kernel asks) *)
Theorem C07_per_kernel_lifecycle : forall nk anyh k sched, (k < nk)%nat ->
  calls_of_kernel k (spec_calls nk anyh sched) = spec_kernel_calls anyh k sched.
Proof. exact per_kernel_lifecycle. Qed.
Print Assumptions C07_per_kernel_lifecycle.

(* exactly one end_warmup per kernel iff there is a posterior epoch, immediately before the
   start_epoch calls of the first posterior epoch, with the tuning infos of all adaptation epochs *)
Theorem C07_end_warmup_once : forall chunk needs init ops sched,
  valid sched = true -> sched = init ++ appended ops -> chunk_ok chunk sched ->
  ops_ok (length init) ops = true ->
  exists g, run (mkP chunk needs SetsFlag) init ops = Ok g
    /\ count_endwarmup (calls g) = (length needs * if has_post sched then 1 else 0)%nat
    /\ forall before c after, sched = before ++ c :: after ->
         is_post (ety_ c) = true -> has_post before = false ->
         exists l1 l2,
           calls g = l1 ++ for_kernels (length needs) (fun k => CEndWarmup k (n_adapt before))
                        ++ for_kernels (length needs) (fun k => CStart k (view before c 0)) ++ l2
           /\ count_endwarmup l1 = 0%nat /\ count_endwarmup l2 = 0%nat.
Proof. exact end_warmup_once. Qed.
Print Assumptions C07_end_warmup_once.

(* the calls do not depend on the JIT chunk *)
Theorem C07_chunk_independent : forall chunk1 chunk2 needs init ops sched,
  valid sched = true -> sched = init ++ appended ops ->
  chunk_ok chunk1 sched -> chunk_ok chunk2 sched -> ops_ok (length init) ops = true ->
  exists g1 g2, run (mkP chunk1 needs SetsFlag) init ops = Ok g1
             /\ run (mkP chunk2 needs SetsFlag) init ops = Ok g2
             /\ calls g1 = calls g2.
Proof. exact chunk_independent. Qed.
Print Assumptions C07_chunk_independent.

(* appending and sampling epochs one at a time, in any admissible interleaving, ends in the same
   engine state - the same calls with the same PRNG keys, the same epoch manager - as constructing
   the engine with the whole schedule and calling sample_all_epochs once *)
Theorem C07_incremental_equals_batch : forall P init ops sched,
  valid sched = true -> sched = init ++ appended ops -> chunk_ok (p_chunk P) sched ->
  ops_ok (length init) ops = true ->
  exists g, run P init ops = Ok g /\ run P sched [SampleAll] = Ok g.
Proof. exact incremental_equals_batch. Qed.
Print Assumptions C07_incremental_equals_batch.

(* fault followed by continued use: an append_epoch that EpochManager rejects (the caller catches the
   RuntimeError) leaves the engine state - manager, clock, keys, trace - exactly as it was, so the
   rest of any operation sequence runs as if the rejected append had never been attempted *)
Theorem C07_rejected_append_is_noop : forall P g c,
  append_ok (lastc (cfgs (g_mgr g))) c = false ->
  step P g (TryAppend c) = Ok g /\ forall ops, steps P g (TryAppend c :: ops) = steps P g ops.
Proof. exact rejected_append_is_noop. Qed.
Print Assumptions C07_rejected_append_is_noop.

(* operation sequences with guarded appends = the sequence with the rejected appends deleted *)
Theorem C07_run_normalize : forall P init ops,
  run P init ops = run P init (normalize (lastc init) ops).
Proof. exact run_normalize. Qed.
Print Assumptions C07_run_normalize.

(* the lifecycle theorem over operation sequences containing any number of rejected (and accepted)
   guarded appends: the kernels are driven through the schedule of the ACCEPTED configs only, and the
   final engine state (calls, keys, manager) is that of the batch run on that schedule *)
Theorem C07_trace_is_lifecycle_guarded : forall chunk needs init ops sched,
  valid sched = true -> sched = init ++ appended (normalize (lastc init) ops) ->
  chunk_ok chunk sched -> ops_ok (length init) (normalize (lastc init) ops) = true ->
  exists g, run (mkP chunk needs SetsFlag) init ops = Ok g
    /\ calls g = spec_calls (length needs) (any_needs needs) sched
    /\ cfgs (g_mgr g) = sched /\ has_more (g_mgr g) = false.
Proof. exact trace_is_lifecycle_guarded. Qed.
Print Assumptions C07_trace_is_lifecycle_guarded.

Theorem C07_guarded_equals_batch : forall P init ops sched,
  valid sched = true -> sched = init ++ appended (normalize (lastc init) ops) ->
  chunk_ok (p_chunk P) sched -> ops_ok (length init) (normalize (lastc init) ops) = true ->
  exists g, run P init ops = Ok g /\ run P sched [SampleAll] = Ok g.
Proof. exact guarded_equals_batch. Qed.
Print Assumptions C07_guarded_equals_batch.

(* the fuel that totalises sample_all_epochs is never exhausted *)
Theorem C07_no_fuel_error : forall P g, sample_all P g <> Err EOutOfFuel.
Proof. exact sample_all_no_fuel_error. Qed.
Print Assumptions C07_no_fuel_error.

(* the engine as found (the guard flag _warmup_has_ended never set; before commit 8aeac66): on the
   valid schedule [Init; Fast 4; Post 4; Post 4] every kernel gets TWO end_warmup calls - defect F1 *)
Theorem C07_end_warmup_refuted :
  valid f1_schedule = true /\ chunk_ok 4 f1_schedule /\
  forall needs, exists g,
    run (mkP 4 needs NeverSets) f1_schedule [SampleAll] = Ok g
    /\ count_endwarmup (calls g) = (2 * length needs)%nat
    /\ (needs <> [] -> count_endwarmup (calls g) <> (length needs * 1)%nat).
Proof. exact end_warmup_refuted. Qed.
Print Assumptions C07_end_warmup_refuted.

(* the hypotheses of the theorems above hold of a non-trivial object: six epochs of all five types,
   thinning, two kernels one of which needs the history, chunk 2 and chunk 1, an interleaving that
   uses all three operations *)
Example C07_hypotheses_satisfiable :
  valid ex_schedule = true
  /\ ex_schedule = [mkE Init 1 1; mkE Fast 4 2] ++ appended ex_ops
  /\ chunk_ok 2 ex_schedule /\ chunk_ok 1 ex_schedule
  /\ ops_ok 2 ex_ops = true
  /\ (exists g, run (mkP 2 [false; true] SetsFlag) [mkE Init 1 1; mkE Fast 4 2] ex_ops = Ok g
                /\ length (calls g) = 76%nat /\ count_endwarmup (calls g) = 2%nat).
Proof. exact lifecycle_hypotheses_satisfiable. Qed.
Print Assumptions C07_hypotheses_satisfiable.

(* ... and with rejected appends of every kind (thinning > duration, second initial-values epoch,
   duration 0, thinning not dividing a posterior duration, warm-up after posterior) in between *)
Example C07_guarded_hypotheses_satisfiable :
  valid ex_guarded_schedule = true
  /\ ex_guarded_schedule = [mkE Init 1 1] ++ appended (normalize (lastc [mkE Init 1 1]) ex_guarded_ops)
  /\ chunk_ok 2 ex_guarded_schedule
  /\ ops_ok 1 (normalize (lastc [mkE Init 1 1]) ex_guarded_ops) = true
  /\ rejected (lastc [mkE Init 1 1]) ex_guarded_ops
     = [mkE Fast 2 3; mkE Init 1 1; mkE Fast 0 1; mkE Post 4 3; mkE Burnin 2 1]
  /\ (exists g, run (mkP 2 [true] SetsFlag) [mkE Init 1 1] ex_guarded_ops = Ok g
                /\ length (calls g) = 17%nat /\ count_endwarmup (calls g) = 1%nat).
Proof. exact guarded_hypotheses_satisfiable. Qed.
Print Assumptions C07_guarded_hypotheses_satisfiable.
