(* C08 - recorded chains hold exactly the per-iteration states, thinned as configured.
   Statements only; proofs are in Goose/ThinProofs.v (model: Goose/Thin.v), examples in
   Goose/ThinExamples.v. *)
From Coq Require Import String List ZArith Bool Arith.
Import ListNotations.
From LV Require Import Goose.Epoch Goose.Thin Goose.ThinProofs Goose.ThinTraj Goose.CorrC08 Goose.ThinExamples.
Open Scope Z_scope.

(* ListEpochChain.append over ANY split of an epoch's states into chunks (empty chunks included)
   stores exactly the states whose 1-based index within the epoch is a multiple of the thinning *)
Theorem C08_thin_chunking : forall (A : Type) (cfg : econf) (chunks : list (list A)),
  1 <= thin cfg ->
  chain_list (fold_left ec_append chunks (ec_new cfg true)) = thin_spec (thin cfg) (concat chunks).
Proof. exact @thin_chunking. Qed.
Print Assumptions C08_thin_chunking.

(* a chain built without thinning (transition infos, kernel states) stores every element *)
Theorem C08_unthinned_chunking : forall (A : Type) (cfg : econf) (chunks : list (list A)),
  chain_list (fold_left ec_append chunks (ec_new cfg false)) = concat chunks.
Proof. exact @unthinned_chunking. Qed.
Print Assumptions C08_unthinned_chunking.

(* which states those are: floor(n / th) of them, the m-th (0-based) is the state after
   within-epoch iteration (m+1)*th *)
Theorem C08_thin_spec_length : forall (A : Type) (th : Z) (l : list A),
  1 <= th -> length (thin_spec th l) = Z.to_nat (Z.of_nat (length l) / th).
Proof. exact @thin_spec_length. Qed.
Print Assumptions C08_thin_spec_length.

Theorem C08_thin_spec_nth : forall (A : Type) (th : Z) (l : list A) (m : nat),
  1 <= th -> (m < length (thin_spec th l))%nat ->
  nth_error (thin_spec th l) m = nth_error l (Z.to_nat ((Z.of_nat m + 1) * th) - 1).
Proof. exact @thin_spec_nth. Qed.
Print Assumptions C08_thin_spec_nth.

(* get() of an epoch chain after a whole epoch, Option(None) exactly when nothing survived *)
Theorem C08_epoch_chain_get : forall (A : Type) (cfg : econf) (on : bool) (chunks : list (list A)),
  chunks <> [] ->
  ec_get (fold_left ec_append chunks (ec_new cfg on)) = get_spec on (thin cfg) (concat chunks).
Proof. exact @ec_get_appends. Qed.
Print Assumptions C08_epoch_chain_get.

(* the engine: for every valid schedule and every chunk length dividing all durations the run
   succeeds and get_samples() = initial position :: per epoch the thinned per-iteration positions of
   the chunk-free specification run; each position is the tracked part of that iteration's model state *)
Theorem C08_chain_contents :
  forall (St P I KS Q : Type) (kernels : list (@kernel St I KS)) (extract : list string -> St -> P)
    (gens : list (key -> einfo -> St -> Q)) (pre_hook : key -> nat -> econf -> KS -> St -> key * KS)
    (post_hook : key -> nat -> econf -> option (list P) -> KS -> St -> key * KS)
    (init_ks : key -> St -> KS) (store_ks : bool) (tk : list string) (c : nat)
    (c0 : econf) (rest : list econf) (seed : key) (ms : St),
  valid (c0 :: rest) = true -> (0 < c)%nat ->
  Forall (fun e : econf => dur e mod Z.of_nat c = 0) rest ->
  let recs := spec_epochs kernels extract gens pre_hook post_hook tk c 1 1 rest
                (spec_init gens init_ks c0 seed ms) in
  exists g : eng,
    run_engine kernels extract gens pre_hook post_hook init_ks store_ks tk c (c0 :: rest) seed ms = Some g /\
    get_samples g = Some (extract tk ms :: concat (map stored_pos recs)) /\
    map er_cfg recs = rest /\
    Forall (fun r : erec =>
              length (er_outs r) = Z.to_nat (dur (er_cfg r)) /\
              Forall (fun o : outcome => o_pos o = extract tk (o_ms o)) (er_outs r)) recs.
Proof. exact @chain_contents. Qed.
Print Assumptions C08_chain_contents.

(* one iteration = ALL kernels applied in order to the carry (kernel i gets split(key_trans, n)[i]);
   the stored position is extracted from the state after the last kernel; one info per kernel *)
Theorem C08_iteration_after_all_kernels :
  forall (St P I KS Q : Type) (kernels : list (@kernel St I KS)) (extract : list string -> St -> P)
    (gens : list (key -> einfo -> St -> Q)) (tk : list string) (k : key) (ei : einfo) (ks : KS) (ms : St),
  let o := iter_step kernels extract gens tk k ei ks ms in
  (o_ks o, o_ms o) = after_kernels kernels (ksplit k 2 0) ei ks ms /\
  o_pos o = extract tk (o_ms o) /\ length (o_infos o) = length kernels.
Proof. exact @iter_step_all_kernels. Qed.
Print Assumptions C08_iteration_after_all_kernels.

(* the outcomes of an epoch's record form a trajectory: outcome t is iter_step applied to the carry
   of outcome t-1, with time_in_epoch = t-1, starting from the state after the start-of-epoch hook *)
Theorem C08_records_are_trajectories :
  forall (St P I KS Q : Type) (kernels : list (@kernel St I KS)) (extract : list string -> St -> P)
    (gens : list (key -> einfo -> St -> Q)) (pre_hook : key -> nat -> econf -> KS -> St -> key * KS)
    (post_hook : key -> nat -> econf -> option (list P) -> KS -> St -> key * KS)
    (tk : list string) (c : nat) (k : key) (ks : KS) (ms : St) (es : estate),
  let r := snd (spec_epoch kernels extract gens pre_hook post_hook tk c (k, ks, ms) es) in
  let k1 := fst (pre_hook k (nth_ep es) (cfg es) ks ms) in
  let ks1 := snd (pre_hook k (nth_ep es) (cfg es) ks ms) in
  traj_ok kernels extract gens tk (map (it_key c k1) (seq 0 (Z.to_nat (dur (cfg es)))))
    (mkEI (nth_ep es) (cfg es) (t0 es) 0) ks1 ms (er_outs r).
Proof. exact @spec_epoch_traj. Qed.
Print Assumptions C08_records_are_trajectories.

(* the m-th stored position / generated quantity of an epoch's record is the one produced by
   within-epoch iteration (m+1) * thinning; floor(dur / thinning) are stored *)
Theorem C08_stored_pos_nth : forall (St P I KS Q : Type) (r : @erec St P I KS Q) (m : nat),
  1 <= thin (er_cfg r) -> (m < length (stored_pos r))%nat ->
  nth_error (stored_pos r) m =
  option_map o_pos (nth_error (er_outs r) (Z.to_nat ((Z.of_nat m + 1) * thin (er_cfg r)) - 1)).
Proof. exact @stored_pos_nth. Qed.
Print Assumptions C08_stored_pos_nth.

Theorem C08_stored_pos_length : forall (St P I KS Q : Type) (r : @erec St P I KS Q),
  1 <= thin (er_cfg r) ->
  length (stored_pos r) = Z.to_nat (Z.of_nat (length (er_outs r)) / thin (er_cfg r)).
Proof. exact @stored_pos_length. Qed.
Print Assumptions C08_stored_pos_length.

Theorem C08_stored_q_nth : forall (St P I KS Q : Type) (r : @erec St P I KS Q) (m : nat),
  1 <= thin (er_cfg r) -> (m < length (stored_q r))%nat ->
  nth_error (stored_q r) m =
  option_map o_quants (nth_error (er_outs r) (Z.to_nat ((Z.of_nat m + 1) * thin (er_cfg r)) - 1)).
Proof. exact @stored_q_nth. Qed.
Print Assumptions C08_stored_q_nth.

(* the model state an epoch hands to the next one is the state after its last iteration: the kernel
   hooks between the sampling loops never change it, so the per-epoch trajectories chain up *)
Theorem C08_epoch_carry :
  forall (St P I KS Q : Type) (kernels : list (@kernel St I KS)) (extract : list string -> St -> P)
    (gens : list (key -> einfo -> St -> Q)) (pre_hook : key -> nat -> econf -> KS -> St -> key * KS)
    (post_hook : key -> nat -> econf -> option (list P) -> KS -> St -> key * KS)
    (tk : list string) (c : nat) (k : key) (ks : KS) (ms : St) (es : estate),
  snd (fst (spec_epoch kernels extract gens pre_hook post_hook tk c (k, ks, ms) es))
  = last (map o_ms (er_outs (snd (spec_epoch kernels extract gens pre_hook post_hook tk c (k, ks, ms) es)))) ms.
Proof. exact @spec_epoch_carry. Qed.
Print Assumptions C08_epoch_carry.

(* transition infos for every transition of every epoch (one per kernel), kernel states (if
   requested) for the initial state and every transition; neither is thinned *)
Theorem C08_infos_every_transition :
  forall (St P I KS Q : Type) (kernels : list (@kernel St I KS)) (extract : list string -> St -> P)
    (gens : list (key -> einfo -> St -> Q)) (pre_hook : key -> nat -> econf -> KS -> St -> key * KS)
    (post_hook : key -> nat -> econf -> option (list P) -> KS -> St -> key * KS)
    (init_ks : key -> St -> KS) (store_ks : bool) (tk : list string) (c : nat)
    (c0 : econf) (rest : list econf) (seed : key) (ms : St),
  valid (c0 :: rest) = true -> (0 < c)%nat ->
  Forall (fun e : econf => dur e mod Z.of_nat c = 0) rest ->
  let recs := spec_epochs kernels extract gens pre_hook post_hook tk c 1 1 rest
                (spec_init gens init_ks c0 seed ms) in
  exists g : eng,
    run_engine kernels extract gens pre_hook post_hook init_ks store_ks tk c (c0 :: rest) seed ms = Some g /\
    get_infos g = match recs with [] => None | _ :: _ => Some (concat (map all_infos recs)) end /\
    Forall (fun r : erec =>
              length (all_infos r) = Z.to_nat (dur (er_cfg r)) /\
              Forall (fun i : list I => length i = length kernels) (all_infos r)) recs /\
    get_kstates store_ks g =
      (if store_ks then Some (Some (init_ks (ksplit seed 2 1) ms :: concat (map all_ks recs))) else None) /\
    Forall (fun r : erec => length (all_ks r) = Z.to_nat (dur (er_cfg r))) recs.
Proof. exact @infos_every_transition. Qed.
Print Assumptions C08_infos_every_transition.

(* posterior accessors return exactly the posterior-epoch part (None when there is none) *)
Theorem C08_posterior_accessor :
  forall (St P I KS Q : Type) (kernels : list (@kernel St I KS)) (extract : list string -> St -> P)
    (gens : list (key -> einfo -> St -> Q)) (pre_hook : key -> nat -> econf -> KS -> St -> key * KS)
    (post_hook : key -> nat -> econf -> option (list P) -> KS -> St -> key * KS)
    (init_ks : key -> St -> KS) (store_ks : bool) (tk : list string) (c : nat)
    (c0 : econf) (rest : list econf) (seed : key) (ms : St),
  valid (c0 :: rest) = true -> (0 < c)%nat ->
  Forall (fun e : econf => dur e mod Z.of_nat c = 0) rest ->
  let recs := spec_epochs kernels extract gens pre_hook post_hook tk c 1 1 rest
                (spec_init gens init_ks c0 seed ms) in
  exists g : eng,
    run_engine kernels extract gens pre_hook post_hook init_ks store_ks tk c (c0 :: rest) seed ms = Some g /\
    get_posterior_samples g =
      match filter post_rec recs with [] => None | e :: l0 => Some (concat (map stored_pos (e :: l0))) end /\
    get_posterior_infos g =
      match filter post_rec recs with [] => None | e :: l0 => Some (concat (map all_infos (e :: l0))) end /\
    get_posterior_quants gens g =
      (if has_gens gens
       then Some match filter post_rec recs with
                 | [] => None | e :: l0 => Some (concat (map stored_q (e :: l0))) end
       else None) /\
    map er_cfg (filter post_rec recs) = filter post_cfg rest.
Proof. exact @posterior_accessor. Qed.
Print Assumptions C08_posterior_accessor.

(* generated quantities: one entry for the initial state, then thinned like the positions *)
Theorem C08_quantities_contents :
  forall (St P I KS Q : Type) (kernels : list (@kernel St I KS)) (extract : list string -> St -> P)
    (gens : list (key -> einfo -> St -> Q)) (pre_hook : key -> nat -> econf -> KS -> St -> key * KS)
    (post_hook : key -> nat -> econf -> option (list P) -> KS -> St -> key * KS)
    (init_ks : key -> St -> KS) (store_ks : bool) (tk : list string) (c : nat)
    (c0 : econf) (rest : list econf) (seed : key) (ms : St),
  valid (c0 :: rest) = true -> (0 < c)%nat ->
  Forall (fun e : econf => dur e mod Z.of_nat c = 0) rest ->
  let recs := spec_epochs kernels extract gens pre_hook post_hook tk c 1 1 rest
                (spec_init gens init_ks c0 seed ms) in
  exists g : eng,
    run_engine kernels extract gens pre_hook post_hook init_ks store_ks tk c (c0 :: rest) seed ms = Some g /\
    get_quants gens g =
      (if has_gens gens
       then Some (Some (snd (gen_init gens (ksplit seed 2 0) (mkEI 0 c0 0 1) ms)
                        :: concat (map stored_q recs)))
       else None).
Proof. exact @quantities_contents. Qed.
Print Assumptions C08_quantities_contents.

(* kernels, generators and hooks that ignore their PRNG key: everything the accessors return is the
   same for any two admissible chunk lengths *)
Theorem C08_chunk_independent :
  forall (St P I KS Q : Type) (kernels : list (@kernel St I KS)) (extract : list string -> St -> P)
    (gens : list (key -> einfo -> St -> Q)) (pre_hook : key -> nat -> econf -> KS -> St -> key * KS)
    (post_hook : key -> nat -> econf -> option (list P) -> KS -> St -> key * KS)
    (init_ks : key -> St -> KS) (store_ks : bool) (tk : list string),
  (forall ker : kernel, In ker kernels ->
     forall (k1 k2 : key) (ei : einfo) (ks : KS) (ms : St), k_trans ker k1 ei ks ms = k_trans ker k2 ei ks ms) ->
  (forall g : key -> einfo -> St -> Q, In g gens ->
     forall (k1 k2 : key) (ei : einfo) (ms : St), g k1 ei ms = g k2 ei ms) ->
  (forall (k1 k2 : key) (i : nat) (e : econf) (ks : KS) (ms : St),
     snd (pre_hook k1 i e ks ms) = snd (pre_hook k2 i e ks ms)) ->
  (forall (k1 k2 : key) (i : nat) (e : econf) (h : option (list P)) (ks : KS) (ms : St),
     snd (post_hook k1 i e h ks ms) = snd (post_hook k2 i e h ks ms)) ->
  forall (c1 c2 : nat) (c0 : econf) (rest : list econf) (seed : key) (ms : St),
  valid (c0 :: rest) = true -> (0 < c1)%nat -> (0 < c2)%nat ->
  Forall (fun e : econf => dur e mod Z.of_nat c1 = 0) rest ->
  Forall (fun e : econf => dur e mod Z.of_nat c2 = 0) rest ->
  exists g1 g2 : eng,
    run_engine kernels extract gens pre_hook post_hook init_ks store_ks tk c1 (c0 :: rest) seed ms = Some g1 /\
    run_engine kernels extract gens pre_hook post_hook init_ks store_ks tk c2 (c0 :: rest) seed ms = Some g2 /\
    results gens store_ks g1 = results gens store_ks g2.
Proof. exact @chunk_independent. Qed.
Print Assumptions C08_chunk_independent.

(* the builder's chunk (gcd of the durations) is admissible for every valid schedule *)
Theorem C08_builder_chunk_ok : forall (c0 : econf) (rest : list econf),
  valid (c0 :: rest) = true -> rest <> [] ->
  let c := Z.to_nat (chunk_len (c0 :: rest)) in
  (0 < c)%nat /\ Forall (fun e : econf => dur e mod Z.of_nat c = 0) rest.
Proof. exact builder_chunk_ok. Qed.
Print Assumptions C08_builder_chunk_ok.

(* tracked keys = kernels' keys ++ included, minus excluded - provided that selection is not empty *)
Theorem C08_tracked_keys : forall (kk incl excl : list string) (k : string),
  builder_keys kk incl excl <> [] ->
  (In k (tracked_keys kk incl excl) <-> (In k kk \/ In k incl) /\ ~ In k excl).
Proof. exact tracked_keys_spec. Qed.
Print Assumptions C08_tracked_keys.

(* ... and when it IS empty the engine as written falls back to all kernel keys, so an excluded key
   is tracked: the clause "excluded position keys are respected" is false of the code as written
   (known finding C08-all-excluded-fallback) *)
Theorem C08_tracked_keys_empty_selection : forall kk incl excl : list string,
  builder_keys kk incl excl = [] -> tracked_keys kk incl excl = kk.
Proof. exact tracked_keys_empty_selection. Qed.
Print Assumptions C08_tracked_keys_empty_selection.

Theorem C08_tracked_keys_all_excluded_refuted :
  exists (kk incl excl : list string) (k : string), In k excl /\ In k (tracked_keys kk incl excl).
Proof. exact tracked_keys_all_excluded_refuted. Qed.
Print Assumptions C08_tracked_keys_all_excluded_refuted.

(* ---- the hypotheses are satisfiable on concrete non-trivial objects ---- *)
Example C08_ex_thin_chunking :
  1 <= thin (mkE Fast 6 2) /\
  chain_list (fold_left ec_append [[11; 12]; []; [13; 14; 15]; [16]] (ec_new (mkE Fast 6 2) true)) = [12; 14; 16]
  /\ thin_spec 2 (concat [[11; 12]; []; [13; 14; 15]; [16]]) = [12; 14; 16].
Proof. exact ex_thin_chunking. Qed.

Example C08_ex_thin_spec_nth :
  1 <= 3 /\ (1 < length (thin_spec 3 [10; 20; 30; 40; 50; 60; 70]))%nat /\
  nth_error (thin_spec 3 [10; 20; 30; 40; 50; 60; 70]) 1 = Some 60.
Proof. exact ex_thin_spec_nth. Qed.

Example C08_ex_engine_hypotheses :
  valid ex_sched = true /\ (0 < 1)%nat /\ Forall (fun e => dur e mod Z.of_nat 1 = 0) (tl ex_sched)
  /\ (0 < 3)%nat /\ Forall (fun e => dur e mod Z.of_nat 3 = 0) (tl [mkE Init 1 1; mkE Fast 6 2; mkE Post 9 3]).
Proof. exact ex_hypotheses. Qed.

Example C08_ex_key_ignoring :
  (forall ker, In ker ex_kernels ->
     forall k1 k2 ei ks ms, k_trans ker k1 ei ks ms = k_trans ker k2 ei ks ms)
  /\ (forall g, In g ex_gens -> forall (k1 k2 : key) ei ms, g k1 ei ms = g k2 ei ms)
  /\ (forall (k1 k2 : key) i e ks ms, snd (c_pre k1 i e ks ms) = snd (c_pre k2 i e ks ms))
  /\ (forall (k1 k2 : key) i e h ks ms, snd (c_post k1 i e h ks ms) = snd (c_post k2 i e h ks ms)).
Proof. exact ex_key_ignoring. Qed.

Example C08_ex_tracked_keys :
  builder_keys ["p1"; "p2"]%string ["c"; "x"]%string ["p2"]%string <> []
  /\ tracked_keys ["p1"; "p2"]%string ["c"; "x"]%string ["p2"]%string = ["p1"; "c"; "x"]%string.
Proof. exact ex_tracked_keys. Qed.

Example C08_ex_builder_chunk :
  valid [mkE Init 1 1; mkE Fast 6 2; mkE Post 9 3] = true /\ [mkE Fast 6 2; mkE Post 9 3] <> []
  /\ Z.to_nat (chunk_len [mkE Init 1 1; mkE Fast 6 2; mkE Post 9 3]) = 3%nat.
Proof. exact ex_builder_chunk. Qed.
