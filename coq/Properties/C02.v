(* C02 - the model log-probability is the joint log-density and decomposes as documented.
   Flat model of the three totals: Graph/LogProb.v (distribution nodes with the flags of their
   variables and their log-densities at the current values; _reduced_sum; selection of inputs by
   _add_model_log_*_node; user-supplied nodes).  Graph level: Graph/Graph.v (C01's machine) with
   [sval] node values.  All statements are for every list of distribution nodes / every well-formed
   graph, every flag combination, every value. *)
From Coq Require Import List QArith Bool Arith.
Import ListNotations.
From LV Require Import Graph.Graph Graph.LogProb Graph.LogProbProofs Graph.LogProbGraphProofs.

(* log-probability = sum over ALL distribution nodes of the node's log-density at the current values *)
Theorem C02_log_prob_is_joint : forall b : built,
  user_prob b = None ->
  (reduce (model_log_prob b) == qsum (map node_logdens (nodes b)))%Q.
Proof. exact log_prob_is_joint. Qed.
Print Assumptions C02_log_prob_is_joint.

(* ... every node of the list enters, once per position, nothing else does *)
Theorem C02_log_prob_each_once : forall b : built,
  user_prob b = None ->
  model_log_prob b = Scalar (reduced_sum (map stored (nodes b))).
Proof. exact log_prob_each_once. Qed.
Print Assumptions C02_log_prob_each_once.

(* log-likelihood / log-prior = the same sum restricted to observed / parameter variables *)
Theorem C02_lik_selection : forall b : built,
  user_lik b = None ->
  (reduce (model_log_lik b) == qsum (map node_logdens (filter is_observed (nodes b))))%Q.
Proof. exact lik_selection. Qed.
Print Assumptions C02_lik_selection.

Theorem C02_prior_selection : forall b : built,
  user_prior b = None ->
  (reduce (model_log_prior b) == qsum (map node_logdens (filter is_parameter (nodes b))))%Q.
Proof. exact prior_selection. Qed.
Print Assumptions C02_prior_selection.

(* the code walks over variables for log_lik / log_prior: same totals as the node-centred view *)
Theorem C02_var_view : forall (vs : list vrec) (fs : list dfree),
  var_view_lik vs = computed_total sel_lik (nodes_of vs fs)
  /\ var_view_prior vs = computed_total sel_prior (nodes_of vs fs).
Proof. intros vs fs. split; [exact (var_view_lik_ok vs fs)|exact (var_view_prior_ok vs fs)]. Qed.
Print Assumptions C02_var_view.

(* decomposition, with the exact defect term when the hypothesis fails *)
Theorem C02_decomposition : forall b : built,
  no_user_nodes b -> Forall one_role (nodes b) ->
  (reduce (model_log_prob b) == reduce (model_log_lik b) + reduce (model_log_prior b))%Q.
Proof. exact decomposition. Qed.
Print Assumptions C02_decomposition.

Theorem C02_decomposition_values : forall b : built,
  no_user_nodes b -> Forall one_role (nodes b) ->
  exists p l r, model_log_prob b = Scalar p /\ model_log_lik b = Scalar l
                /\ model_log_prior b = Scalar r /\ (p == l + r)%Q.
Proof. exact decomposition_values. Qed.
Print Assumptions C02_decomposition_values.

Theorem C02_decomposition_defect : forall b : built,
  no_user_nodes b ->
  (reduce (model_log_prob b) ==
     reduce (model_log_lik b) + reduce (model_log_prior b)
     + qsum (map node_logdens (filter no_role (nodes b)))
     - qsum (map node_logdens (filter both_roles (nodes b))))%Q.
Proof. exact decomposition_defect. Qed.
Print Assumptions C02_decomposition_defect.

Example C02_decomposition_example :
  let b := plain [d_obs; d_par; d_nod] in
  no_user_nodes b /\ Forall one_role (nodes b) /\
  (reduce (model_log_prob b) == -23 # 4)%Q /\ (reduce (model_log_lik b) == -9 # 4)%Q
  /\ (reduce (model_log_prior b) == -7 # 2)%Q.
Proof. exact decomposition_example. Qed.
Print Assumptions C02_decomposition_example.

(* the hypotheses are needed: a distribution node without variable, with both flags, with no flag, and
   a user-supplied log-likelihood node each break log_prob = log_lik + log_prior *)
Theorem C02_decomposition_needs_hyp :
  (no_user_nodes (plain [d_obs; d_par; d_free]) /\
   ~ (reduce (model_log_prob (plain [d_obs; d_par; d_free])) ==
      reduce (model_log_lik (plain [d_obs; d_par; d_free]))
      + reduce (model_log_prior (plain [d_obs; d_par; d_free])))%Q)
  /\ (no_user_nodes (plain [d_obs; d_par; d_both]) /\
   ~ (reduce (model_log_prob (plain [d_obs; d_par; d_both])) ==
      reduce (model_log_lik (plain [d_obs; d_par; d_both]))
      + reduce (model_log_prior (plain [d_obs; d_par; d_both])))%Q)
  /\ (no_user_nodes (plain [d_obs; d_par; d_none]) /\
   ~ (reduce (model_log_prob (plain [d_obs; d_par; d_none])) ==
      reduce (model_log_lik (plain [d_obs; d_par; d_none]))
      + reduce (model_log_prior (plain [d_obs; d_par; d_none])))%Q).
Proof.
  exact (conj decomposition_needs_var (conj decomposition_needs_not_both decomposition_needs_a_role)).
Qed.
Print Assumptions C02_decomposition_needs_hyp.

Theorem C02_decomposition_needs_no_user_node :
  let b := mkB [d_obs; d_par] (Some (Scalar 1)) None None in
  Forall one_role (nodes b) /\
  ~ (reduce (model_log_prob b) == reduce (model_log_lik b) + reduce (model_log_prior b))%Q.
Proof. exact decomposition_needs_no_user_node. Qed.
Print Assumptions C02_decomposition_needs_no_user_node.

(* per-observation or summed storage changes none of the three totals *)
Theorem C02_per_obs_irrelevant : forall (ns ns' : list dnode) (ul ur up : option sval),
  Forall2 same_but_per_obs ns ns' ->
  model_log_prob (mkB ns ul ur up) = model_log_prob (mkB ns' ul ur up)
  /\ model_log_lik (mkB ns ul ur up) = model_log_lik (mkB ns' ul ur up)
  /\ model_log_prior (mkB ns ul ur up) = model_log_prior (mkB ns' ul ur up).
Proof. exact per_obs_irrelevant. Qed.
Print Assumptions C02_per_obs_irrelevant.

Example C02_per_obs_example :
  stored d_obs <> stored (flip_per_obs d_obs)
  /\ model_log_prob (plain [d_obs; d_par]) = model_log_prob (plain [flip_per_obs d_obs; flip_per_obs d_par]).
Proof. exact per_obs_example. Qed.
Print Assumptions C02_per_obs_example.

(* a user-supplied node is forwarded unchanged and replaces only its own total *)
Theorem C02_user_node_forwarded : forall (ns : list dnode) (ul ur up : option sval) (v : sval),
  (ul = Some v -> model_log_lik (mkB ns ul ur up) = v)
  /\ (ur = Some v -> model_log_prior (mkB ns ul ur up) = v)
  /\ (up = Some v -> model_log_prob (mkB ns ul ur up) = v).
Proof. exact user_node_forwarded. Qed.
Print Assumptions C02_user_node_forwarded.

Theorem C02_user_node_local : forall (ns : list dnode) (ul ur up ul' ur' up' : option sval),
  (up = None -> up' = None -> model_log_prob (mkB ns ul ur up) = model_log_prob (mkB ns ul' ur' up'))
  /\ (ul = None -> ul' = None -> model_log_lik (mkB ns ul ur up) = model_log_lik (mkB ns ul' ur' up'))
  /\ (ur = None -> ur' = None -> model_log_prior (mkB ns ul ur up) = model_log_prior (mkB ns ul' ur' up')).
Proof. exact user_node_local. Qed.
Print Assumptions C02_user_node_local.

(* ---- graph level (uses C01's coherence theorem) ---------------------------------------------------- *)
(* in every state reachable by the public operations, a total node that reports itself up to date
   holds - in the model state - the reduced sum of the from-scratch values of its inputs *)
Theorem C02_graph_total_is_sum : forall (F : Type) (interp : F -> list sval -> sval) (dflt : sval)
    (g : graph F), wf g ->
  forall (ext0 : list sval) (ops : list (op sval)) (k : nat) (n : node F),
  let s := cur (run interp dflt g ops (init interp dflt g ext0)) in
  nth_error g k = Some n -> kd n = KCached -> means_reduced_sum F interp (fs n) ->
  outdated g s k = false ->
  value interp dflt g s k = Scalar (reduced_sum (map (denote interp dflt g (vals s)) (ins n)))
  /\ getv dflt (vals s) k = value interp dflt g s k.
Proof. exact total_node_is_sum. Qed.
Print Assumptions C02_graph_total_is_sum.

(* the from-scratch value of a distribution node is its function (the log-density of the wrapped
   distribution, per observation or summed) at the from-scratch values of its inputs *)
Theorem C02_graph_dist_from_scratch : forall (F : Type) (interp : F -> list sval -> sval) (dflt : sval)
    (g : graph F), wf g ->
  forall (ext : list sval) (d : nat) (nd : node F),
  nth_error g d = Some nd -> kd nd <> KValue ->
  denote interp dflt g ext d = interp (fs nd) (map (denote interp dflt g ext) (ins nd)).
Proof. exact dist_node_from_scratch. Qed.
Print Assumptions C02_graph_dist_from_scratch.

Theorem C02_graph_total_is_flat_total : forall (F : Type) (interp : F -> list sval -> sval) (dflt : sval)
    (g : graph F), wf g ->
  forall (ext0 : list sval) (ops : list (op sval)) (k : nat) (n : node F)
         (sel : dnode -> bool) (ns : list dnode),
  let s := cur (run interp dflt g ops (init interp dflt g ext0)) in
  nth_error g k = Some n -> kd n = KCached -> means_reduced_sum F interp (fs n) ->
  outdated g s k = false ->
  map (denote interp dflt g (vals s)) (ins n) = map stored (filter sel ns) ->
  value interp dflt g s k = computed_total sel ns.
Proof. exact total_node_is_computed_total. Qed.
Print Assumptions C02_graph_total_is_flat_total.

Theorem C02_graph_user_node_forwarded : forall (F : Type) (interp : F -> list sval -> sval) (dflt : sval)
    (g : graph F), wf g ->
  forall (ext0 : list sval) (ops : list (op sval)) (k u : nat) (n : node F),
  let s := cur (run interp dflt g ops (init interp dflt g ext0)) in
  nth_error g k = Some n -> kd n = KCached -> means_identity F interp (fs n) -> ins n = [u] ->
  outdated g s k = false ->
  value interp dflt g s k = denote interp dflt g (vals s) u
  /\ getv dflt (vals s) k = value interp dflt g s k.
Proof. exact forward_node_is_user_node. Qed.
Print Assumptions C02_graph_user_node_forwarded.

Example C02_graph_example :
  let s := cur (reachable xsym xinterp (Scalar 0%Q) xg xext0 xops) in
  wf xg /\ means_reduced_sum xsym xinterp XSum
  /\ outdated xg s 6%nat = false
  /\ (reduce (value xinterp (Scalar 0%Q) xg s 6%nat) == -5)%Q
  /\ outdated xg s 4%nat = true.
Proof. exact (conj xg_wf (conj xsum_means graph_example)). Qed.
Print Assumptions C02_graph_example.

(* the graph builder's step: the three total nodes appended to ANY well-formed tagged user graph.
   The result is well-formed, and whenever a total reports itself up to date it holds (in the model
   state) the reduced sum of the from-scratch values of exactly the selected instances of Dist - for
   _model_log_prob: all of them -, each exactly once *)
Theorem C02_builder_wf : forall (F : Type) (fsum : F) (tg : list (tnode F)),
  wf (map (tn F) tg) -> wf (with_totals F fsum tg).
Proof. exact with_totals_wf. Qed.
Print Assumptions C02_builder_wf.

Theorem C02_built_totals : forall (F : Type) (fsum : F) (interp : F -> list sval -> sval) (dflt : sval)
    (tg : list (tnode F)) (ext0 : list sval) (ops : list (op sval)),
  wf (map (tn F) tg) -> means_reduced_sum F interp fsum ->
  let g := with_totals F fsum tg in
  let s := cur (run interp dflt g ops (init interp dflt g ext0)) in
  forall (p : dtag -> bool) (k : nat),
  (p = tag_lik /\ k = pos_lik F tg) \/ (p = tag_prior /\ k = pos_prior F tg) \/ (p = tag_prob /\ k = pos_prob F tg) ->
  outdated g s k = false ->
  value interp dflt g s k
    = Scalar (reduced_sum (map (denote interp dflt g (vals s)) (positions (on_tag F p) tg)))
  /\ getv dflt (vals s) k = value interp dflt g s k
  /\ NoDup (positions (on_tag F p) tg)
  /\ (forall i, In i (positions (on_tag F p) tg) <->
                exists t x, nth_error tg i = Some t /\ ttag F t = Some x /\ p x = true).
Proof. exact built_totals. Qed.
Print Assumptions C02_built_totals.

Example C02_builder_example :
  with_totals xsym XSum xtg = xg
  /\ wf (map (tn xsym) xtg)
  /\ positions (on_tag xsym tag_prob) xtg = [2%nat; 3%nat]
  /\ pos_prob xsym xtg = 6%nat.
Proof. exact builder_example. Qed.
Print Assumptions C02_builder_example.
