(* Proofs about the EpochManager model (C16). *)
From Coq Require Import List ZArith Bool Lia.
Import ListNotations.
From LV Require Import Goose.Epoch.
Open Scope Z_scope.

Definition notinit (c : econf) := negb (is_init (ety_ c)).
Definition nonwarm (c : econf) := negb (is_warmup (ety_ c)).

Fixpoint adj (p : econf) (r : list econf) : bool :=
  match r with
  | [] => true
  | c :: r' => negb (is_warmup (ety_ c) && is_post (ety_ p)) && adj c r'
  end.

Lemma thin_checks_cfg_ok c :
  (1 <=? dur c) && (1 <=? thin c)
  && (if thin c =? 1 then true
      else (thin c <=? dur c) && (if is_post (ety_ c) then dur c mod thin c =? 0 else true))
  = cfg_ok c.
Proof.
  unfold cfg_ok.
  destruct (1 <=? dur c) eqn:Hd; cbn [andb]; [|reflexivity].
  destruct (1 <=? thin c) eqn:Ht; cbn [andb]; [|reflexivity].
  destruct (thin c =? 1) eqn:H1; [|reflexivity].
  apply Z.eqb_eq in H1. rewrite H1. rewrite Z.mod_1_r. rewrite Hd. cbn.
  destruct (is_post (ety_ c)); reflexivity.
Qed.

Lemma append_ok_some p c :
  append_ok (Some p) c = notinit c && negb (is_warmup (ety_ c) && is_post (ety_ p)) && cfg_ok c.
Proof.
  unfold append_ok, notinit. rewrite <- thin_checks_cfg_ok.
  destruct (is_init (ety_ c)); cbn [andb negb]; [reflexivity|].
  rewrite !andb_assoc. reflexivity.
Qed.

Lemma append_ok_none c :
  append_ok None c = is_init (ety_ c) && (dur c =? 1) && cfg_ok c.
Proof.
  unfold append_ok. rewrite <- thin_checks_cfg_ok.
  destruct (ety_ c); cbn [is_init is_warmup andb negb]; try reflexivity.
  rewrite !andb_assoc, andb_true_r. reflexivity.
Qed.

Lemma accepts_from_some p r :
  accepts_from (Some p) r = forallb notinit r && forallb cfg_ok r && adj p r.
Proof.
  revert p; induction r as [|c r IH]; intros p; [reflexivity|].
  cbn [accepts_from forallb adj]. rewrite IH, append_ok_some.
  destruct (notinit c); cbn [andb]; [|reflexivity].
  destruct (negb (is_warmup (ety_ c) && is_post (ety_ p))); cbn [andb].
  2:{ rewrite !andb_false_r. reflexivity. }
  destruct (cfg_ok c); cbn [andb]; [|rewrite andb_false_r; reflexivity].
  reflexivity.
Qed.

Lemma adj_nwap p r :
  forallb notinit r = true ->
  adj p r = no_warmup_after_post (p :: r).
Proof.
  revert p; induction r as [|c r IH]; intros p Hn.
  - cbn. destruct (is_post (ety_ p)); reflexivity.
  - cbn [forallb] in Hn. apply andb_true_iff in Hn. destruct Hn as [Hc Hr].
    cbn [adj]. rewrite (IH c Hr).
    change (no_warmup_after_post (p :: c :: r))
      with ((if is_post (ety_ p) then forallb (fun d => negb (is_warmup (ety_ d))) (c :: r) else true)
            && no_warmup_after_post (c :: r)).
    destruct (is_post (ety_ p)) eqn:Hp; cbn [andb negb].
    2:{ rewrite andb_false_r. reflexivity. }
    rewrite andb_true_r. cbn [forallb].
    destruct (is_warmup (ety_ c)) eqn:Hw; cbn [negb andb]; [reflexivity|].
    (* c is neither Init nor warmup, hence Post; so the tail has no warmup epoch either *)
    change (no_warmup_after_post (c :: r))
      with ((if is_post (ety_ c) then forallb (fun d => negb (is_warmup (ety_ d))) r else true)
            && no_warmup_after_post r).
    unfold notinit in Hc.
    destruct (ety_ c); cbn in Hc, Hw |- *; try discriminate.
    destruct (forallb (fun d => negb (is_warmup (ety_ d))) r); reflexivity.
Qed.

Theorem accepts_eq_valid l : accepts l = valid l.
Proof.
  destruct l as [|c0 r]; [reflexivity|].
  unfold accepts. cbn [accepts_from valid].
  rewrite append_ok_none, accepts_from_some.
  cbn [forallb].
  destruct (is_init (ety_ c0)); cbn [andb]; [|reflexivity].
  destruct (dur c0 =? 1); cbn [andb]; [|reflexivity].
  destruct (forallb notinit r) eqn:Hn.
  - rewrite (adj_nwap c0 r Hn).
    change (forallb (fun c => negb (is_init (ety_ c))) r) with (forallb notinit r). rewrite Hn.
    cbn [andb]. destruct (cfg_ok c0); cbn [andb]; [|reflexivity].
    reflexivity.
  - change (forallb (fun c => negb (is_init (ety_ c))) r) with (forallb notinit r). rewrite Hn.
    cbn [andb]. rewrite andb_false_r. reflexivity.
Qed.

(* --- the manager state machine: appending one at a time = constructing at once --- *)
Fixpoint mgr_appends (m : mgr) (l : list econf) : option mgr :=
  match l with
  | [] => Some m
  | c :: r => match mgr_append m c with Some m' => mgr_appends m' r | None => None end
  end.

Lemma lastc_app l c : lastc (l ++ [c]) = Some c.
Proof. unfold lastc. rewrite rev_app_distr. reflexivity. Qed.

Lemma mgr_appends_spec m l :
  mgr_appends m l =
  if accepts_from (lastc (cfgs m)) l then Some (mkM (cfgs m ++ l) (ptr m) (start m)) else None.
Proof.
  revert m; induction l as [|c r IH]; intros m.
  - cbn. rewrite app_nil_r. destruct m; reflexivity.
  - cbn [mgr_appends accepts_from]. unfold mgr_append.
    destruct (append_ok (lastc (cfgs m)) c); cbn [andb]; [|reflexivity].
    rewrite IH. cbn [cfgs ptr start]. rewrite lastc_app, <- app_assoc. reflexivity.
Qed.

Theorem mgr_accepts_iff_valid l :
  (exists m, mgr_appends mgr0 l = Some m /\ cfgs m = l) <-> valid l = true.
Proof.
  rewrite <- accepts_eq_valid. rewrite mgr_appends_spec. cbn.
  change (accepts_from None l) with (accepts l).
  destruct (accepts l); split; intros H; try discriminate.
  - reflexivity.
  - eexists; split; reflexivity.
  - destruct H as [m [H _]]; discriminate.
Qed.

(* appends never disturb the read pointer / start time, and next never disturbs the configs:
   the two operations commute, so any interleaving hands out the same states *)
Lemma append_next_commute m c m1 s m2 :
  mgr_append m c = Some m1 -> mgr_next m = Some (s, m2) ->
  exists m3, mgr_next m1 = Some (s, m3) /\ mgr_append m2 c = Some m3.
Proof.
  unfold mgr_append, mgr_next. intros Ha Hn.
  destruct (append_ok (lastc (cfgs m)) c) eqn:Hok; [|discriminate].
  injection Ha as <-. cbn [cfgs ptr start].
  destruct (nth_error (cfgs m) (ptr m)) as [c'|] eqn:E; [|discriminate].
  injection Hn as <- <-. cbn [cfgs ptr start].
  rewrite nth_error_app1 by (apply nth_error_Some; congruence).
  rewrite E, Hok. eexists; split; reflexivity.
Qed.

(* n-th state handed out has index n and start time = sum of earlier durations *)
Fixpoint mgr_nexts (m : mgr) (n : nat) : list estate :=
  match n with
  | O => []
  | S n' => match mgr_next m with
            | Some (s, m') => s :: mgr_nexts m' n'
            | None => []
            end
  end.

Lemma fold_add_shift l a : fold_left Z.add l a = a + fold_left Z.add l 0.
Proof.
  revert a; induction l as [|x l IH]; intros a; cbn [fold_left]; [lia|].
  rewrite (IH (a + x)), (IH (0 + x)). lia.
Qed.

Lemma time_before_S l n c :
  nth_error l n = Some c -> time_before l (S n) = time_before l n + dur c.
Proof.
  unfold time_before. revert l; induction n as [|n IH]; intros l H.
  - destruct l as [|x l]; [discriminate|]. injection H as ->. cbn. lia.
  - destruct l as [|x l]; [discriminate|]. cbn [nth_error] in H.
    specialize (IH l H). cbn [firstn map fold_left] in *.
    rewrite (fold_add_shift _ (0 + dur x)), IH.
    rewrite (fold_add_shift (map dur (firstn n l)) (0 + dur x)). lia.
Qed.

Theorem next_consecutive l (k n : nat) :
  (k + n <= length l)%nat ->
  mgr_nexts (mkM l k (time_before l k)) n =
  map (fun j => mkS (nth j l (mkE Init 0 0)) j (time_before l j)) (seq k n).
Proof.
  revert k; induction n as [|n IH]; intros k Hk; [reflexivity|].
  cbn [mgr_nexts seq map]. unfold mgr_next. cbn [cfgs ptr start].
  destruct (nth_error l k) as [c|] eqn:E.
  2:{ apply nth_error_None in E. lia. }
  rewrite <- (time_before_S l k c E). rewrite IH by lia.
  f_equal. f_equal. symmetry. apply nth_error_nth. exact E.
Qed.

(* --- JIT chunk length divides every non-initial duration --- *)
Lemma fold_gcd_divides_acc l a : (fold_left Z.gcd l a | a).
Proof.
  revert a; induction l as [|x l IH]; intros a; cbn [fold_left]; [apply Z.divide_refl|].
  eapply Z.divide_trans; [apply IH|]. apply Z.gcd_divide_l.
Qed.
Lemma fold_gcd_divides l a x : In x l -> (fold_left Z.gcd l a | x).
Proof.
  revert a; induction l as [|y l IH]; intros a Hin; [contradiction|].
  cbn [fold_left]. destruct Hin as [->|Hin].
  - eapply Z.divide_trans; [apply fold_gcd_divides_acc|]. apply Z.gcd_divide_r.
  - apply IH; exact Hin.
Qed.

Theorem chunk_divides l c : In c (tl l) -> (chunk_len l | dur c).
Proof. intros H. unfold chunk_len. apply fold_gcd_divides. apply in_map. exact H. Qed.

(* and it is the largest such number *)
Lemma fold_gcd_greatest l a d : (d | a) -> (forall x, In x l -> (d | x)) -> (d | fold_left Z.gcd l a).
Proof.
  revert a; induction l as [|y l IH]; intros a Ha Hl; cbn [fold_left]; [exact Ha|].
  apply IH.
  - apply Z.gcd_greatest; [exact Ha|]. apply Hl. now left.
  - intros x Hx. apply Hl. now right.
Qed.
Theorem chunk_greatest l d : (forall c, In c (tl l) -> (d | dur c)) -> (d | chunk_len l).
Proof.
  intros H. unfold chunk_len. apply fold_gcd_greatest; [apply Z.divide_0_r|].
  intros x Hx. apply in_map_iff in Hx. destruct Hx as [c [<- Hc]]. apply H; exact Hc.
Qed.

(* non-vacuity *)
Example valid_example :
  valid [mkE Init 1 1; mkE Fast 4 2; mkE Slow 6 3; mkE Burnin 2 1; mkE Post 8 4; mkE Post 3 1] = true.
Proof. reflexivity. Qed.
Example invalid_example_warmup_after_post :
  accepts [mkE Init 1 1; mkE Post 2 1; mkE Post 2 1; mkE Burnin 2 1] = false.
Proof. reflexivity. Qed.
