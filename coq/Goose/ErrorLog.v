(* C19 - model of the error / sample bookkeeping of liesel.goose
     engine.py     SamplingResults.get_error_log (both modes), get_samples, get_posterior_samples
     chain.py      EpochChainManager (transition infos: no thinning; positions: thinning per epoch)
     summary_m.py  _make_error_summary, Summary.__init__ (sample_info), Summary._error_df
   Definitions only (no proofs): the correspondence shards evaluate exactly these constants.

   Conventions.  Time index t = 0 is the FIRST transition (the initial-values epoch has none).
   A schedule lists the epochs after INITIAL_VALUES.  Arrays are lists of rows, one row per chain. *)
From Coq Require Import String.
From Coq Require Import List Arith Bool ZArith QArith.
Import ListNotations.
Close Scope Q_scope.
Open Scope nat_scope.

(* ---------------------------------------------------------------------------------------- *)
(* schedule and the per-epoch store                                                           *)
Record epoch := mkEp { ep_post : bool; ep_dur : nat; ep_thin : nat }.
Definition sched := list epoch.

Definition total_dur (s : sched) : nat := fold_right (fun e n => ep_dur e + n) 0 s.

(* Engine._sample_for_duration appends the infos of an epoch's transitions to that epoch's chain:
   the store is one block per epoch, tagged with the epoch (here: only its posterior flag) *)
Fixpoint split_row {X} (s : sched) (row : list X) : list (epoch * list X) :=
  match s with
  | [] => []
  | e :: s' => (e, firstn (ep_dur e) row) :: split_row s' (skipn (ep_dur e) row)
  end.

(* EpochChainManager.combine_all / combine_filtered (concatenate along time) *)
Definition combine_if {X} (f : epoch -> bool) (bs : list (epoch * list X)) : list X :=
  concat (map snd (filter (fun b => f (fst b)) bs)).
Definition is_any (e : epoch) : bool := true.
Definition is_post (e : epoch) : bool := ep_post e.
Definition is_warm (e : epoch) : bool := negb (ep_post e).

(* transition infos are stored unthinned (EpochChainManager() without apply_thinning) *)
Definition ti_rows (f : epoch -> bool) (s : sched) (E : list (list nat)) : list (list nat) :=
  map (fun row => combine_if f (split_row s row)) E.

(* ListChain.get returns no value when no chunk was appended; every epoch has duration >= 1,
   hence: no value iff no epoch passes the filter *)
Definition ti_store (f : epoch -> bool) (s : sched) (E : list (list nat)) : option (list (list nat)) :=
  if existsb f s then Some (ti_rows f s E) else None.

(* ---------------------------------------------------------------------------------------- *)
(* get_error_log for one kernel on a (chain x time) array                                     *)
Definition nz (c : nat) : bool := negb (c =? 0).

Fixpoint zip_or (a b : list bool) : list bool :=
  match a, b with
  | x :: a', y :: b' => (x || y) :: zip_or a' b'
  | _, _ => []
  end.

(* np.any(error_code != 0, axis=0) *)
Fixpoint mask_of (A : list (list nat)) : list bool :=
  match A with
  | [] => []
  | r :: rs => match rs with
               | [] => map nz r
               | _ :: _ => zip_or (map nz r) (mask_of rs)
               end
  end.

(* boolean-mask indexing  a[mask] *)
Fixpoint select {X} (m : list bool) (l : list X) : list X :=
  match m, l with
  | b :: m', x :: l' => if b then x :: select m' l' else select m' l'
  | _, _ => []
  end.

(* np.where(mask)[0] *)
Fixpoint where_from (i : nat) (m : list bool) : list nat :=
  match m with
  | [] => []
  | b :: m' => if b then i :: where_from (S i) m' else where_from (S i) m'
  end.

Record kel := mkKel { kel_transition : list nat; kel_codes : list (list nat) }.

Definition error_log_of (A : list (list nat)) : kel :=
  let m := mask_of A in mkKel (where_from 0 m) (map (select m) A).

(* get_error_log(posterior_only) restricted to one kernel *)
Definition error_log (post_only : bool) (s : sched) (E : list (list nat)) : option kel :=
  option_map error_log_of (ti_store (if post_only then is_post else is_any) s E).

(* ---------------------------------------------------------------------------------------- *)
(* _make_error_summary for one kernel                                                         *)
Fixpoint insert_u (c : nat) (l : list nat) : list nat :=
  match l with
  | [] => [c]
  | x :: r => if c <? x then c :: l else if c =? x then l else x :: insert_u c r
  end.
(* np.unique: sorted distinct values *)
Definition unique (l : list nat) : list nat := fold_right insert_u [] l.

(* np.sum(row == ec) *)
Definition count (c : nat) (l : list nat) : nat := length (filter (Nat.eqb c) l).

Fixpoint lookup (book : list (nat * string)) (c : nat) : option string :=
  match book with
  | [] => None
  | (k, m) :: r => if k =? c then Some m else lookup r c
  end.

Record entry := mkEntry {
  en_code : nat; en_msg : option string;
  en_total : list nat;              (* count_per_chain *)
  en_post : option (list nat) }.    (* count_per_chain_posterior (None when there is no posterior log) *)

Definition kernel_summary (book : list (nat * string)) (all : kel) (post : option kel) : list entry :=
  map (fun c => mkEntry c (lookup book c)
                        (map (count c) (kel_codes all))
                        (option_map (fun k => map (count c) (kel_codes k)) post))
      (filter nz (unique (concat (kel_codes all)))).

(* ---------------------------------------------------------------------------------------- *)
(* positions: stored with thinning (EpochChainManager(apply_thinning=True));                  *)
(* ListEpochChain.append keeps index i of the epoch (0-based) iff (1 + i) % thinning == 0     *)
Fixpoint kept_from {X} (i th : nat) (l : list X) : list X :=
  match l with
  | [] => []
  | x :: r => if (S i) mod th =? 0 then x :: kept_from (S i) th r else kept_from (S i) th r
  end.
Definition thin_block {X} (b : epoch * list X) : epoch * list X :=
  (fst b, if 1 <? ep_thin (fst b) then kept_from 0 (ep_thin (fst b)) (snd b) else snd b).

Definition pos_stored {X} (f : epoch -> bool) (s : sched) (row : list X) : list X :=
  combine_if f (map thin_block (split_row s row)).

(* get_posterior_samples (None = "No posterior samples") and get_samples (initial value first) *)
Definition posterior_samples {X} (s : sched) (P : list (list X)) : option (list (list X)) :=
  if existsb is_post s then Some (map (pos_stored is_post s) P) else None.
Definition all_samples {X} (s : sched) (init : list X) (P : list (list X)) : list (list X) :=
  map (fun ir => fst ir :: pos_stored is_any s (snd ir)) (combine init P).

Record sample_info := mkSI { si_chains : nat; si_size : nat; si_warmup : nat }.

Definition row_len {X} (A : list (list X)) : nat := match A with [] => 0 | r :: _ => length r end.

(* Summary.__init__: shape of the posterior chain, sum of the durations of the warmup epochs *)
Definition sample_info_of {X} (s : sched) (post : list (list X)) : sample_info :=
  mkSI (length post) (row_len post) (total_dur (filter is_warm s)).

(* ---------------------------------------------------------------------------------------- *)
(* Summary._error_df                                                                          *)
Inductive phase := Warmup | Posterior.
Record drow := mkRow {
  rw_kernel : nat;            (* position of the kernel identifier in sorted order *)
  rw_code : nat; rw_msg : option string; rw_phase : phase; rw_chain : nat;
  rw_count : Z; rw_rel : option Q }.
Record arow := mkARow {
  ar_kernel : nat; ar_code : nat; ar_msg : option string; ar_phase : phase;
  ar_count : Z; ar_rel : option Q }.

(* count / sample_size ; 0/0 and x/0 give nan / inf: no number *)
Definition rel (cnt : Z) (size : nat) : option Q :=
  if size =? 0 then None else Some (Qmake cnt (Pos.of_nat size)).

Definition phase_flag (ph : phase) : bool := match ph with Warmup => false | Posterior => true end.
Definition phase_size (si : sample_info) (ph : phase) : nat :=
  match ph with Warmup => si_warmup si | Posterior => si_size si end.

Fixpoint rows_from (k c : nat) (m : option string) (ph : phase) (size : nat) (i : nat) (cnts : list Z)
  : list drow :=
  match cnts with
  | [] => []
  | x :: r => mkRow k c m ph i x (rel x size) :: rows_from k c m ph size (S i) r
  end.

Fixpoint zip_sub (a b : list nat) : list Z :=
  match a, b with
  | x :: a', y :: b' => (Z.of_nat x - Z.of_nat y)%Z :: zip_sub a' b'
  | _, _ => []
  end.

(* one entry -> the group of the warmup rows and the group of the posterior rows;
   warmup := total - posterior (int subtraction, not truncated);
   None models the TypeError raised when there is no posterior log *)
Definition entry_groups (k : nat) (si : sample_info) (e : entry) : option (list (list drow)) :=
  match en_post e with
  | None => None
  | Some ps =>
      Some [ rows_from k (en_code e) (en_msg e) Warmup (phase_size si Warmup) 0 (zip_sub (en_total e) ps);
             rows_from k (en_code e) (en_msg e) Posterior (phase_size si Posterior) 0 (map Z.of_nat ps) ]
  end.

Fixpoint opt_all {X} (l : list (option X)) : option (list X) :=
  match l with
  | [] => Some []
  | None :: _ => None
  | Some x :: r => match opt_all r with Some r' => Some (x :: r') | None => None end
  end.

Fixpoint index_from {X} (i : nat) (l : list X) : list (nat * X) :=
  match l with [] => [] | x :: r => (i, x) :: index_from (S i) r end.

(* groups of rows with equal (kernel, code, msg, phase), in sort_index order *)
Definition df_groups (si : sample_info) (summ : list (list entry)) : option (list (list drow)) :=
  option_map (@concat _)
    (opt_all (flat_map (fun ke => map (entry_groups (fst ke) si) (snd ke)) (index_from 0 summ))).

Definition sumZ (l : list Z) : Z := fold_right Z.add 0%Z l.
Fixpoint sumQ_opt (l : list (option Q)) : option Q :=
  match l with
  | [] => Some 0%Q
  | None :: _ => None
  | Some q :: r => match sumQ_opt r with Some t => Some (q + t)%Q | None => None end
  end.

(* mean of a column of relative frequencies (nan if any entry is nan) *)
Definition mean_rel (l : list (option Q)) : option Q :=
  option_map (fun t => (t / inject_Z (Z.of_nat (length l)))%Q) (sumQ_opt l).

(* groupby(level=[0,1,2,3]).aggregate({"count": "sum", "relative": "mean"}) on one group;
   an empty group (no chain) yields no row *)
Definition aggregate (g : list drow) : list arow :=
  match g with
  | [] => []
  | r :: _ =>
      [mkARow (rw_kernel r) (rw_code r) (rw_msg r) (rw_phase r)
              (sumZ (map rw_count g)) (mean_rel (map rw_rel g))]
  end.

Definition error_df_chain (si : sample_info) (summ : list (list entry)) : option (list drow) :=
  option_map (@concat _) (df_groups si summ).
Definition error_df_agg (si : sample_info) (summ : list (list entry)) : option (list arow) :=
  option_map (flat_map aggregate) (df_groups si summ).

(* ---------------------------------------------------------------------------------------- *)
(* a whole run                                                                                *)
Record kernel_in := mkK { k_book : list (nat * string); k_E : list (list nat) }.
Record run := mkRun {
  r_sched : sched;
  r_kernels : list kernel_in;      (* in sorted order of their identifiers *)
  r_init : list Z;                 (* initial position per chain *)
  r_pos : list (list Z) }.         (* chain x time: position after each transition *)

Record summary := mkSumm {
  su_info : sample_info;
  su_errors : list (list entry);
  su_df_chain : option (list drow);
  su_df_agg : option (list arow) }.

Definition kernel_summary_of (s : sched) (k : kernel_in) : option (list entry) :=
  match error_log false s (k_E k) with
  | None => None                                   (* .unwrap() of "no transition infos" *)
  | Some all => Some (kernel_summary (k_book k) all (error_log true s (k_E k)))
  end.

(* krn_cls.error_book[ec] raises KeyError when an occurring non-zero code has no documented message *)
Definition has_msg (e : entry) : bool := match en_msg e with Some _ => true | None => false end.

(* Summary(results): None = the constructor raises
   (no posterior samples / no transition infos / a code outside the kernel's error book) *)
Definition summarize (r : run) : option summary :=
  match posterior_samples (r_sched r) (r_pos r) with
  | None => None
  | Some post =>
      match opt_all (map (kernel_summary_of (r_sched r)) (r_kernels r)) with
      | None => None
      | Some summ =>
          if forallb (forallb has_msg) summ then
            let si := sample_info_of (r_sched r) post in
            Some (mkSumm si summ (error_df_chain si summ) (error_df_agg si summ))
          else None
      end
  end.

(* ---------------------------------------------------------------------------------------- *)
(* specification side: phase of a global transition index, counting by index                  *)
Fixpoint phase_at (s : sched) (t : nat) : option bool :=
  match s with
  | [] => None
  | e :: s' => if t <? ep_dur e then Some (ep_post e) else phase_at s' (t - ep_dur e)
  end.
Definition in_phase (s : sched) (t : nat) (post : bool) : bool :=
  match phase_at s t with Some b => Bool.eqb b post | None => false end.

(* #{ t0 + i | row[i] = c and transition t0 + i lies in an epoch of the given phase } *)
Fixpoint count_phase (s : sched) (post : bool) (c : nat) (t : nat) (row : list nat) : nat :=
  match row with
  | [] => 0
  | x :: r => (if (c =? x) && in_phase s t post then 1 else 0) + count_phase s post c (S t) r
  end.

(* number of stored samples of an epoch *)
Definition stored_len (e : epoch) : nat := if 1 <? ep_thin e then ep_dur e / ep_thin e else ep_dur e.
