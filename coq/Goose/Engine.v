(* Model of liesel/goose/engine.py (class Engine), kernel_sequence.py (KernelSequence) and the
   dispatch of kernel.py (TransitionMixin / TuningMixin), written from the code function by
   function.  The output of the machine is the per-chain trace of kernel calls, each with the PRNG
   key it receives, a key being a path in the splitting tree (DESIGN 4.3):
        key (path ++ [(n,i)]) = jax.random.split (key path) n [i].
   vmap over chains = the same machine per chain (only the root key differs), jit = identity,
   lax.scan = left fold, lax.cond = if (DESIGN 4.4).
   Hand-written; tied to the code by the C07 correspondence check (harness/lv/c07.py).
   No proofs in this file. *)
From Coq Require Import List ZArith Bool Lia.
Import ListNotations.
From LV Require Import Goose.Epoch.
Open Scope Z_scope.

(* ---------------------------------------------------------------------------------------- *)
(* PRNG keys                                                                                  *)
Definition key := list (nat * nat).
Definition split (k : key) (n i : nat) : key := k ++ [(n, i)].

(* ---------------------------------------------------------------------------------------- *)
(* EpochState as seen by a kernel (epoch.py: EpochState / EpochConfig.to_state / advance_time) *)
Record eview := mkV { v_nth : nat; v_cfg : econf; v_t0 : Z; v_time : Z; v_tin : Z }.
Definition to_state (s : estate) : eview := mkV (nth_ep s) (cfg s) (t0 s) (t0 s) 0.
Definition advance_time (e : eview) (d : Z) : eview :=
  mkV (v_nth e) (v_cfg e) (v_t0 e) (v_time e + d) (v_tin e + d).
Definition time_left (e : eview) : Z := dur (v_cfg e) - v_tin e.

(* ---------------------------------------------------------------------------------------- *)
(* kernel calls.  [adaptive] / [slow] is the branch taken by the mixins of kernel.py;
   [hist] = None when the engine passes history=None, otherwise the recorded positions of the
   current epoch (a list of iteration stamps); [ntune] = number of tuning infos handed to
   end_warmup (0 = the engine passes None). *)
Inductive call :=
| CInit (k : nat)
| CStart (k : nat) (e : eview)
| CTrans (k : nat) (adaptive : bool) (e : eview)
| CEnd (k : nat) (e : eview)
| CTune (k : nat) (slow : bool) (e : eview) (hist : option (list Z))
| CEndWarmup (k : nat) (ntune : nat).
Notation kcall := (call * key)%type (only parsing).

(* kernel.py  TransitionMixin.transition: lax.cond(is_adaptation(epoch.config.type), adaptive, standard) *)
Definition k_transition (k : nat) (e : eview) : call := CTrans k (is_adapt (ety_ (v_cfg e))) e.
(* kernel.py  TuningMixin.tune: lax.cond(epoch.config.type == SLOW_ADAPTATION, slow, fast) *)
Definition is_slow (t : ety) := match t with Slow => true | _ => false end.
Definition k_tune (k : nat) (e : eview) (h : option (list Z)) : call := CTune k (is_slow (ety_ (v_cfg e))) e h.

(* kernel_sequence.py: every method does keys = split(prng_key, len(kernels)) and calls kernel i
   with keys[i], for i in kernel order *)
Definition kseq (nker : nat) (f : nat -> call) (k : key) : list kcall :=
  map (fun i => (f i, split k nker i)) (seq 0 nker).

(* what the position chain records for one iteration: the model state left by the iteration that
   started at within-epoch time v_tin of epoch v_nth (the harness kernel writes exactly this
   stamp into its position) *)
Definition iter_stamp (e : eview) : Z := Z.of_nat (v_nth e) * 1000 + v_tin e + 1.

(* ---------------------------------------------------------------------------------------- *)
(* engine parameters and state *)
Inductive warmflag := SetsFlag | NeverSets.   (* does _end_warmup set _warmup_has_ended? *)
Record params := mkP {
  p_chunk : Z;               (* _jitted_sample_duration *)
  p_needs : list bool;       (* needs_history of each kernel, in kernel order *)
  p_flag : warmflag }.
Definition nker (P : params) : nat := length (p_needs P).
(* _history_required_for_tuning = any(ker.needs_history ...) *)
Definition hist_required (P : params) : bool := existsb (fun b => b) (p_needs P).

(* the mutable fields of Engine other than the epoch manager *)
Record core := mkC {
  c_key : key;               (* _prng_key *)
  c_warm : bool;             (* _warmup_has_ended *)
  c_ntune : nat;             (* number of entries of _tuning_info_chain *)
  c_trace : list kcall }.    (* everything the kernels were called with, in order *)
Record engine := mkEng { g_mgr : mgr; g_core : core }.

Inductive err :=
| ENoEpochs            (* EpochManager.next: "No epochs in manager" *)
| EAppendRejected      (* EpochManager.append raised *)
| ENotEnoughTime       (* _sample_for_duration: "Not enough time left in epoch" *)
| EZeroChunk           (* duration % 0 *)
| ENotMultiple         (* "Duration ... is not a multiple of the jitted sampling duration" *)
| ENoHistory           (* "The history must contain samples." *)
| EOutOfFuel.          (* never returned: see EngineProofs.sample_all_no_fuel_error *)
Inductive result (A : Type) := Ok (a : A) | Err (e : err).
Arguments Ok {A} a.
Arguments Err {A} e.
Definition bind {A B} (r : result A) (f : A -> result B) : result B :=
  match r with Ok a => f a | Err e => Err e end.

Definition emit (c : core) (l : list kcall) : core :=
  mkC (c_key c) (c_warm c) (c_ntune c) (c_trace c ++ l).

(* _split_prng_key(n): keys = split(self._prng_key, n+1); self._prng_key = keys[0]; return keys[1:] *)
Definition split_prng_key (n : nat) (c : core) : core * list key :=
  (mkC (split (c_key c) (S n) 0) (c_warm c) (c_ntune c) (c_trace c),
   map (fun i => split (c_key c) (S n) i) (seq 1 n)).
(* _split_prng_key_one = _split_prng_key(1)[0] *)
Definition split_prng_key_one (c : core) : core * key :=
  (mkC (split (c_key c) 2 0) (c_warm c) (c_ntune c) (c_trace c), split (c_key c) 2 1).

(* Engine.__init__ (the part visible to kernels): keys = _split_prng_key_one();
   kernel_sequence.init_states(keys, ...) *)
Definition core_init (P : params) : core :=
  let '(c, k) := split_prng_key_one (mkC [] false 0%nat []) in
  emit c (kseq (nker P) CInit k).

(* _end_warmup *)
Definition end_warmup (P : params) (c : core) : core :=
  let '(c1, k) := split_prng_key_one c in
  let c2 := emit c1 (kseq (nker P) (fun i => CEndWarmup i (c_ntune c1)) k) in
  match p_flag P with
  | SetsFlag => mkC (c_key c2) true (c_ntune c2) (c_trace c2)
  | NeverSets => c2
  end.

(* _start_epoch after self._epoch = self._epoch_manager.next(): end_warmup for the first
   non-warmup epoch; the four chains advance to a fresh ListEpochChain (modelled where the
   position chain is used: sample_for_duration starts from counter 1 and an empty chain) *)
Definition start_epoch (P : params) (e : eview) (c : core) : core :=
  if negb (c_warm c) && is_post (ety_ (v_cfg e)) then end_warmup P c else c.

(* _kernel_start_epoch *)
Definition kernel_start_epoch (P : params) (e : eview) (c : core) : core :=
  let '(c1, k) := split_prng_key_one c in
  emit c1 (kseq (nker P) (fun i => CStart i e) k).

(* scan_f of _sample_many: key_trans, key_quants = split(key); kernel_sequence.transition(key_trans,
   ...); epoch.advance_time(1); the stored position is the model state after all kernels *)
Definition scan_f (P : params) (e : eview) (k : key) : eview * list kcall * Z :=
  (advance_time e 1, kseq (nker P) (fun i => k_transition i e) (split k 2 0), iter_stamp e).

(* jax.lax.scan(scan_f, carry, keys) *)
Fixpoint sample_many (P : params) (e : eview) (keys : list key) : eview * list kcall * list Z :=
  match keys with
  | [] => (e, [], [])
  | k :: r =>
      let '(e1, cs, y) := scan_f P e k in
      let '(e2, cs2, ys) := sample_many P e1 r in
      (e2, cs ++ cs2, y :: ys)
  end.

(* chain.py  ListEpochChain.append with apply_thinning=True (the position chain):
   keep index i of the chunk iff (counter + i) mod th = 0; counter += size.
   The chain is the concatenation of the kept chunks. *)
Definition zrange (a : Z) (n : nat) : list Z := map (fun i => a + Z.of_nat i) (seq 0 n).
Definition thin_append (th : Z) (counter : Z) (chain : list Z) (chunk : list Z) : Z * list Z :=
  if 1 <? th then
    (counter + Z.of_nat (length chunk),
     chain ++ map snd (filter (fun p => (counter + fst p) mod th =? 0)
                              (combine (zrange 0 (length chunk)) chunk)))
  else (counter, chain ++ chunk).

(* loop state of _sample_for_duration: current epoch, engine fields, position chain of the epoch *)
Record lstate := mkL { l_e : eview; l_c : core; l_counter : Z; l_chain : list Z }.

(* one iteration of  for dur_i in range(duration // chunk) *)
Definition chunk_step (P : params) (s : lstate) : lstate :=
  let '(c1, keys) := split_prng_key (Z.to_nat (p_chunk P)) (l_c s) in
  let '(e1, cs, ys) := sample_many P (l_e s) keys in
  let '(cnt, ch) := thin_append (thin (v_cfg (l_e s))) (l_counter s) (l_chain s) ys in
  mkL e1 (emit c1 cs) cnt ch.
Fixpoint chunk_loop (P : params) (n : nat) (s : lstate) : lstate :=
  match n with O => s | S n' => chunk_loop P n' (chunk_step P s) end.

(* _sample_for_duration(duration) *)
Definition sample_for_duration (P : params) (duration : Z) (e : eview) (c : core) : result lstate :=
  if time_left e <? duration then Err ENotEnoughTime
  else if p_chunk P =? 0 then Err EZeroChunk
  else if negb (duration mod p_chunk P =? 0) then Err ENotMultiple
  else Ok (chunk_loop P (Z.to_nat (duration / p_chunk P)) (mkL e c 1 [])).

(* _tune_kernels(epoch) *)
Definition tune_kernels (P : params) (e : eview) (chain : list Z) (c : core) : result core :=
  if is_adapt (ety_ (v_cfg e)) then
    let '(c1, k) := split_prng_key_one c in
    bind (if hist_required P
          then match chain with [] => Err ENoHistory | _ => Ok (Some chain) end
          else Ok None)
      (fun h =>
         let c2 := emit c1 (kseq (nker P) (fun i => k_tune i e h) k) in
         Ok (mkC (c_key c2) (c_warm c2) (S (c_ntune c2)) (c_trace c2)))
  else Ok c.

(* _end_epoch *)
Definition end_epoch (P : params) (e : eview) (chain : list Z) (c : core) : result core :=
  let '(c1, k) := split_prng_key_one c in
  tune_kernels P e chain (emit c1 (kseq (nker P) (fun i => CEnd i e) k)).

(* sample_next_epoch, after the epoch manager handed out state s.
   INITIAL_VALUES: _handle_inital_values_epoch calls no kernel and (without quantity generators)
   splits no key. *)
Definition epoch_run (P : params) (s : estate) (c : core) : result core :=
  let e := to_state s in
  let c1 := start_epoch P e c in
  if is_init (ety_ (cfg s)) then Ok c1
  else
    let c2 := kernel_start_epoch P e c1 in
    bind (sample_for_duration P (dur (cfg s)) e c2)
      (fun l => end_epoch P (l_e l) (l_chain l) (l_c l)).

(* sample_next_epoch.  (self._epoch is None at every operation boundary of an error-free run, so
   the "Epoch is active" check of _start_epoch never fires; the run stops at the first error.) *)
Definition sample_next (P : params) (g : engine) : result engine :=
  match mgr_next (g_mgr g) with
  | None => Err ENoEpochs
  | Some (s, m') => bind (epoch_run P s (g_core g)) (fun c => Ok (mkEng m' c))
  end.

(* sample_all_epochs: while has_more(): sample_next_epoch() *)
Fixpoint sample_all_fuel (P : params) (fuel : nat) (g : engine) : result engine :=
  if has_more (g_mgr g) then
    match fuel with
    | O => Err EOutOfFuel
    | S f => bind (sample_next P g) (sample_all_fuel P f)
    end
  else Ok g.
Definition sample_all (P : params) (g : engine) : result engine :=
  sample_all_fuel P (length (cfgs (g_mgr g)) - ptr (g_mgr g)) g.

(* append_epoch *)
Definition append_epoch (c : econf) (g : engine) : result engine :=
  match mgr_append (g_mgr g) c with
  | Some m => Ok (mkEng m (g_core g))
  | None => Err EAppendRejected
  end.

(* append_epoch inside  try: ... except RuntimeError: pass  - "fault followed by continued use":
   EpochManager.append raises BEFORE self._configs.append(config), so a rejected config leaves the
   manager (and the engine) exactly as it was; an accepted one is appended as usual *)
Definition try_append_epoch (c : econf) (g : engine) : result engine :=
  match mgr_append (g_mgr g) c with
  | Some m => Ok (mkEng m (g_core g))
  | None => Ok g
  end.

Inductive op := AppendEpoch (c : econf) | SampleNext | SampleAll | TryAppend (c : econf).
Definition step (P : params) (g : engine) (o : op) : result engine :=
  match o with
  | AppendEpoch c => append_epoch c g
  | SampleNext => sample_next P g
  | SampleAll => sample_all P g
  | TryAppend c => try_append_epoch c g
  end.
Fixpoint steps (P : params) (g : engine) (ops : list op) : result engine :=
  match ops with
  | [] => Ok g
  | o :: r => bind (step P g o) (fun g' => steps P g' r)
  end.

(* Engine(epoch_configs=init, ...): EpochManager(init) appends one by one *)
Fixpoint appends (m : mgr) (l : list econf) : result mgr :=
  match l with
  | [] => Ok m
  | c :: r => match mgr_append m c with Some m' => appends m' r | None => Err EAppendRejected end
  end.
Definition engine_init (P : params) (init : list econf) : result engine :=
  bind (appends mgr0 init) (fun m => Ok (mkEng m (core_init P))).

Definition run (P : params) (init : list econf) (ops : list op) : result engine :=
  bind (engine_init P init) (fun g => steps P g ops).

Definition trace (g : engine) : list kcall := c_trace (g_core g).
Definition calls (g : engine) : list call := map fst (trace g).
