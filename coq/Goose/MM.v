(* Model of liesel/goose/mm.py (tune_inv_mm_diag, tune_inv_mm_full, _history_to_matrix) and of the
   mass-matrix part of NUTSKernel / HMCKernel (_tune_slow, _tune_fast, TuningMixin.tune), over Q.

   Position keys are (name, flat size) pairs in the order in which the user listed them.
   A history maps a key name to its recorded values: T rows, each row the C-order ravel of the
   value at one recorded iteration (what  jax.vmap(jnp.ravel)  returns for an array of shape
   (T, *shape)).  blackjax never sees the dict: it works on  ravel_pytree(position) , which
   concatenates the ravelled leaves in pytree order = sorted(dict keys), i.e. by code point.

   [KeyOrder] is the code variant: the repaired code (commit 31d2cdd) stacks the history columns
   in pytree order ([Sorted]); the code as found stacked them in the order in which the keys were
   listed ([AsListed], defect F4).

   [None] stands for "no finite matrix of the expected shape": a KeyError (own key missing in the
   history), a shape mismatch, no key at all (column_stack of nothing), or fewer than two recorded
   rows (jnp.var / jnp.cov with ddof = 1 return NaN or a mis-shaped array then). *)
From Coq Require Import String List QArith Bool Arith.
Import ListNotations.
Open Scope Q_scope.

Definition pkey := (string * nat)%type.
Definition hrows := list (list Q).
Definition history := list (string * hrows).

(* ---------- pytree order of dict keys: Python's sorted() on str (code points; ASCII here) ------ *)
Definition key_leb (a b : pkey) : bool := String.leb (fst a) (fst b).

Fixpoint insert_key (k : pkey) (l : list pkey) : list pkey :=
  match l with
  | [] => [k]
  | y :: r => if key_leb k y then k :: l else y :: insert_key k r
  end.

(* the order in which ravel_pytree / tree_leaves visit the entries of a dict *)
Definition flat_order (keys : list pkey) : list pkey := fold_right insert_key [] keys.

(* the flat coordinates (name, index within the ravelled value) of a position whose leaves are
   visited in the given order *)
Definition coords_of (order : list pkey) : list (string * nat) :=
  flat_map (fun k => map (pair (fst k)) (seq 0 (snd k))) order.

(* flat coordinate i of the kernel's position as blackjax sees it *)
Definition flat_coords (keys : list pkey) : list (string * nat) := coords_of (flat_order keys).

(* ---------- the history ------------------------------------------------------------------------ *)
Fixpoint lookup (k : string) (h : history) : option hrows :=
  match h with
  | [] => None
  | (k', r) :: h' => if String.eqb k k' then Some r else lookup k h'
  end.

Fixpoint mapM {A B} (f : A -> option B) (l : list A) : option (list B) :=
  match l with
  | [] => Some []
  | x :: r => match f x, mapM f r with
              | Some y, Some ys => Some (y :: ys)
              | _, _ => None
              end
  end.

(* the recorded series of flat index j of a block of rows *)
Definition series (rows : hrows) (j : nat) : option (list Q) :=
  mapM (fun r => nth_error r j) rows.

(* the recorded series of the flat coordinate (name, j): the specification side of "the sample
   variance of flat coordinate i" *)
Definition coord_series (h : history) (name : string) (j : nat) : option (list Q) :=
  match lookup name h with
  | None => None
  | Some rows => series rows j
  end.

Definition block_ok (n : nat) (rows : hrows) : bool :=
  forallb (fun r => Nat.eqb (length r) n) rows.

(* _vravel(history[k]) as a list of columns *)
Definition key_columns (h : history) (k : pkey) : option (list (list Q)) :=
  match lookup (fst k) h with
  | None => None                                   (* KeyError *)
  | Some rows => if block_ok (snd k) rows then mapM (series rows) (seq 0 (snd k)) else None
  end.

(* jnp.column_stack([... for the keys in [order]]), as a list of columns *)
Definition hist_columns (order : list pkey) (h : history) : option (list (list Q)) :=
  option_map (@concat (list Q)) (mapM (key_columns h) order).

(* column_stack needs at least one array and equally many rows in each *)
Definition stack (cols : list (list Q)) : option (list (list Q)) :=
  match cols with
  | [] => None
  | c :: r => if forallb (fun d => Nat.eqb (length d) (length c)) r then Some cols else None
  end.

(* ---------- sample (co)variance with ddof = 1 ---------------------------------------------------- *)
(* Qred keeps the numbers small under vm_compute; it does not change the value (Qred_correct) *)
Definition qsum (l : list Q) : Q := fold_right (fun x a => Qred (x + a)) 0 l.
Definition qlen (l : list Q) : Q := inject_Z (Z.of_nat (length l)).
Definition mean (c : list Q) : Q := Qred (qsum c / qlen c).

Fixpoint dev_prod (mc md : Q) (c d : list Q) : list Q :=
  match c, d with
  | x :: c', y :: d' => (x - mc) * (y - md) :: dev_prod mc md c' d'
  | _, _ => []
  end.

Definition cov_q (c d : list Q) : option Q :=
  if (2 <=? length c)%nat && (length c =? length d)%nat
  then Some (Qred (qsum (dev_prod (mean c) (mean d) c d) / (qlen c - 1)))
  else None.

Definition var_q (c : list Q) : option Q := cov_q c c.

Definition reg : Q := 1 # 1000.

(* tune_inv_mm_diag on the stacked columns *)
Definition tune_diag (cols : list (list Q)) : option (list Q) :=
  mapM (fun c => option_map (fun v => v + reg) (var_q c)) cols.

Definition indexed {A} (l : list A) : list (nat * A) := combine (seq 0 (length l)) l.

Definition full_entry (ic jd : nat * list Q) : option Q :=
  option_map (fun v => if Nat.eqb (fst ic) (fst jd) then v + reg else v) (cov_q (snd ic) (snd jd)).

(* tune_inv_mm_full on the stacked columns: list of rows *)
Definition tune_full (cols : list (list Q)) : option (list (list Q)) :=
  mapM (fun ic => mapM (full_entry ic) (indexed cols)) (indexed cols).

(* ---------- the kernel ------------------------------------------------------------------------- *)
Inductive mm := Diag (v : list Q) | Dense (m : list (list Q)).
Record kstate := mkK { step : Q; imm : mm }.

Inductive KeyOrder := AsListed | Sorted.

Definition order_keys (o : KeyOrder) (keys : list pkey) : list pkey :=
  match o with AsListed => keys | Sorted => flat_order keys end.

(* jnp.trace sums the diagonal entries that exist *)
Fixpoint diag_from (i : nat) (m : list (list Q)) : list Q :=
  match m with
  | [] => []
  | r :: m' => nth i r 0 :: diag_from (S i) m'
  end.

(* trace_fn: jnp.sum for the inverse mass vector, jnp.trace for the dense matrix (the kernel state
   holds a vector iff mm_diag, see [kind_ok]) *)
Definition trace (m : mm) : Q :=
  match m with
  | Diag v => qsum v
  | Dense m => qsum (diag_from 0 m)
  end.

(* history = {k: history[k] for k in position_keys};  new_inv_mm = tune_inv_mm_{diag,full}(history) *)
Definition tune_mm (o : KeyOrder) (diag : bool) (keys : list pkey) (h : history) : option mm :=
  match hist_columns (order_keys o keys) h with
  | None => None
  | Some cols0 =>
      match stack cols0 with
      | None => None
      | Some cols => if diag then option_map Diag (tune_diag cols)
                     else option_map Dense (tune_full cols)
      end
  end.

Definition kind_ok (diag : bool) (m : mm) : bool :=
  match diag, m with
  | true, Diag _ => true
  | false, Dense _ => true
  | _, _ => false
  end.

Section Kernel.
Variable sqrt_o : Q -> Q.            (* jnp.sqrt, an oracle (DESIGN 4.2) *)

(* _tune_slow *)
Definition tune_slow (o : KeyOrder) (diag : bool) (keys : list pkey) (st : kstate)
           (h : option history) : option kstate :=
  match h with
  | None => Some st
  | Some h =>
      match tune_mm o diag keys h with
      | None => None
      | Some new => Some (mkK (sqrt_o (trace (imm st) / trace new) * step st) new)
      end
  end.

(* TuningMixin.tune: lax.cond(is_slow, _tune_slow, _tune_fast); _tune_fast changes nothing *)
Definition tune (o : KeyOrder) (diag : bool) (keys : list pkey) (slow : bool) (st : kstate)
           (h : option history) : option kstate :=
  if slow then tune_slow o diag keys st h else Some st.

(* the engine calls tune once at the end of every adaptation epoch, with that epoch's chain *)
Fixpoint run_epochs (o : KeyOrder) (diag : bool) (keys : list pkey) (st : kstate)
         (eps : list (bool * option history)) : option kstate :=
  match eps with
  | [] => Some st
  | (slow, h) :: r =>
      match tune o diag keys slow st h with
      | None => None
      | Some st' => run_epochs o diag keys st' r
      end
  end.
End Kernel.

(* ---------- kernel sequence and engine: which history reaches which kernel ---------------------
   KernelSequence.tune hands the SAME history object to every kernel in turn; Engine._tune_kernels
   fetches it once per adaptation epoch: the chain recorded for the CURRENT epoch (the last chain of
   the EpochChainManager, whatever the configs of earlier epochs were) if any kernel of the sequence
   has needs_history, else None.  Kernels without history-based tuning (RW, Gibbs, IWLS, MH:
   needs_history = False) are [KOther]; their state carries no mass matrix and is passed through. *)
Inductive kern := KMM (diag : bool) (keys : list pkey) | KOther.

Definition needs_history (k : kern) : bool :=
  match k with KMM _ _ => true | KOther => false end.

Inductive etype := EFast | ESlow | EBurnin | EPosterior.
Definition is_adaptation (t : etype) : bool := match t with EFast | ESlow => true | _ => false end.
Definition is_slow (t : etype) : bool := match t with ESlow => true | _ => false end.

(* EpochConfig (type, duration, thinning): a dataclass compared by value; two epochs of a schedule
   may have equal configs *)
Record econf := mkE { e_type : etype; e_duration : nat; e_thinning : nat }.

(* EpochChainManager: one recorded chain per epoch, in the order of the epochs *)
Definition chainstore := list (econf * history).

Fixpoint last_opt {A} (l : list A) : option A :=
  match l with
  | [] => None
  | [x] => Some x
  | _ :: r => last_opt r
  end.

(* get_current_chain: self._chains[-1] *)
Definition current_chain (store : chainstore) : option history := option_map snd (last_opt store).

(* the part of a recorded chain that belongs to the given keys *)
Definition restrict (keys : list pkey) (h : history) : history :=
  filter (fun e => existsb (fun k => String.eqb (fst e) (fst k)) keys) h.

Section Sequence.
Variable sqrt_o : Q -> Q.

Definition kernel_tune (o : KeyOrder) (slow : bool) (h : option history) (p : kern * kstate)
  : option (kern * kstate) :=
  match fst p with
  | KMM diag keys => option_map (pair (fst p)) (tune sqrt_o o diag keys slow (snd p) h)
  | KOther => Some p
  end.

(* KernelSequence.tune *)
Definition seq_tune (o : KeyOrder) (slow : bool) (h : option history) (ks : list (kern * kstate))
  : option (list (kern * kstate)) := mapM (kernel_tune o slow h) ks.

(* Engine._tune_kernels at the end of epoch [e] *)
Definition tune_kernels (o : KeyOrder) (ks : list (kern * kstate)) (store : chainstore) (e : econf)
  : option (list (kern * kstate)) :=
  if is_adaptation (e_type e) then
    if existsb (fun p => needs_history (fst p)) ks then
      match current_chain store with
      | Some h => seq_tune o (is_slow (e_type e)) (Some h) ks
      | None => None                      (* .expect("The history must contain samples.") *)
      end
    else seq_tune o (is_slow (e_type e)) None ks
  else Some ks.

(* one epoch: a new chain is opened for the epoch, the epoch's positions [h] are recorded in it,
   then the kernels are tuned *)
Definition engine_epoch (o : KeyOrder) (ks : list (kern * kstate)) (store : chainstore)
           (e : econf) (h : history) : option (list (kern * kstate) * chainstore) :=
  option_map (fun ks' => (ks', store ++ [(e, h)])) (tune_kernels o ks (store ++ [(e, h)]) e).

Fixpoint engine_run (o : KeyOrder) (ks : list (kern * kstate)) (store : chainstore)
         (eps : list (econf * history)) : option (list (kern * kstate) * chainstore) :=
  match eps with
  | [] => Some (ks, store)
  | (e, h) :: r =>
      match engine_epoch o ks store e h with
      | None => None
      | Some (ks', store') => engine_run o ks' store' r
      end
  end.
End Sequence.

(* what one kernel sees of a schedule: one tune call per adaptation epoch, with that epoch's chain *)
Definition adapt_view (eps : list (econf * history)) : list (bool * option history) :=
  map (fun eh => (is_slow (e_type (fst eh)), Some (snd eh)))
      (filter (fun eh => is_adaptation (e_type (fst eh))) eps).
