(* Support library for the C08 source tie (tools/py2gallina_c08.py).

   On every run of the C08 check the translator turns the Python source of liesel/goose/chain.py
   (ListChain.__init__ / append / _concatenate / get, ListEpochChain.__init__ / epoch / append,
   EpochChainManager.__init__ / advance_epoch / append / get_current_chain / combine_all /
   combine_filtered) into Gallina definitions (gen_...); the generated file (work directory, never this
   directory) proves them extensionally equal to the hand-written model of Goose/Thin.v and re-states
   the chain theorems of C08 for them.  This file holds exactly what the generated file needs: the
   result / exception type, the numpy / pytree / Option primitives of the translator's library-call
   table with the semantics they are assumed to have, the facts about these primitives the equality
   proofs use, the observational equivalence that justifies modelling the chunk-merging `get()` as a
   pure function, the transfer theorems and the tactics of the generated proofs. *)
From Coq Require Import List ZArith Bool Arith Lia.
Import ListNotations.
From LV Require Import Goose.Epoch Goose.Thin Goose.ThinProofs.
Open Scope Z_scope.

(* ---- results of translated code: a value or a raised exception class ---- *)
Inductive gexn := E_RuntimeError | E_IndexError | E_ZeroDivisionError | E_TypeError.
Inductive gres (X : Type) : Type := GOk (a : X) | GRaise (e : gexn).
Arguments GOk {X} a.
Arguments GRaise {X} e.
Definition gbind {X Y} (m : gres X) (f : X -> gres Y) : gres Y :=
  match m with GOk a => f a | GRaise e => GRaise e end.

(* ---- the library-call table: what each mapped Python / numpy / liesel call is taken to mean ---- *)
(* len(xs);  jax.tree_util.tree_leaves(chunk)[0].shape[1]  (a chunk is viewed as the list of its slices
   along the time axis, axis 1 of every leaf) *)
Definition glen {X} (l : list X) : Z := Z.of_nat (length l).
(* np.arange(n): 0 .. n-1, empty for n <= 0 *)
Definition garange (n : Z) : list Z := map Z.of_nat (seq 0 (Z.to_nat n)).
(* numpy integer remainder: sign of the divisor (= Z.modulo), 0 for a zero divisor (numpy warns, no error) *)
Definition npmod (a b : Z) : Z := if b =? 0 then 0 else a mod b.
(* Python int % and // : ZeroDivisionError *)
Definition gmod (a b : Z) : gres Z := if b =? 0 then GRaise E_ZeroDivisionError else GOk (a mod b).
Definition gdiv (a b : Z) : gres Z := if b =? 0 then GRaise E_ZeroDivisionError else GOk (a / b).
(* v[mask] with a boolean mask: IndexError unless the lengths agree *)
Definition gmask {X} (v : list X) (m : list bool) : gres (list X) :=
  if (length v =? length m)%nat then GOk (map fst (filter snd (combine v m))) else GRaise E_IndexError.
(* slice_leaves(chunk, np.s_[:, idx, ...]) with an integer index array: the slices at these positions of
   the time axis; negative positions count from the end; IndexError outside -n .. n-1 *)
Fixpoint gtake {X} (l : list X) (idx : list Z) : gres (list X) :=
  match idx with
  | [] => GOk []
  | i :: r =>
      let j := if i <? 0 then i + glen l else i in
      if (0 <=? j) && (j <? glen l)
      then match nth_error l (Z.to_nat j) with
           | Some x => gbind (gtake l r) (fun t => GOk (x :: t))
           | None => GRaise E_IndexError
           end
      else GRaise E_IndexError
  end.
(* xs[-1], xs[0]: IndexError on the empty list;  xs[-1] = x (as the effect of mutating the last element) *)
Definition glast {X} (l : list X) : gres X :=
  match rev l with [] => GRaise E_IndexError | x :: _ => GOk x end.
Definition gfirst {X} (l : list X) : gres X :=
  match l with [] => GRaise E_IndexError | x :: _ => GOk x end.
Definition gset_last {X} (l : list X) (x : X) : list X := removelast l ++ [x].
(* concatenate_leaves(chunks, 1): concatenation along the time axis; tree_map without a tree is a TypeError;
   the result is never None for pytrees with at least one leaf *)
Definition gconcat {X} (l : list (list X)) : gres (option (list X)) :=
  match l with [] => GRaise E_TypeError | _ => GOk (Some (concat l)) end.
(* liesel.option.Option: Option(None) = None, Option(x) = Some x, is_some / is_none, unwrap raises RuntimeError *)
Definition gis_some {X} (o : option X) : bool := match o with Some _ => true | None => false end.
Definition gunwrap {X} (o : option X) : gres X :=
  match o with Some x => GOk x | None => GRaise E_RuntimeError end.
(* for x in xs: body   where the body may mutate the object x (method calls) and the loop state s *)
Fixpoint gfor {X S} (body : X -> S -> gres (X * S)) (xs : list X) (s : S) : gres (list X * S) :=
  match xs with
  | [] => GOk ([], s)
  | x :: r => gbind (body x s) (fun xs1 =>
              gbind (gfor body r (snd xs1)) (fun rs2 => GOk (fst xs1 :: fst rs2, snd rs2)))
  end.

(* ---- facts about the primitives ---- *)
Lemma glast_nil {X} : glast (@nil X) = GRaise E_IndexError.
Proof. reflexivity. Qed.
Lemma glast_app {X} (l : list X) x : glast (l ++ [x]) = GOk x.
Proof. unfold glast. rewrite rev_app_distr. reflexivity. Qed.
Lemma glast_rev_cons {X} (l : list X) x : glast (rev (x :: l)) = GOk x.
Proof. cbn [rev]. apply glast_app. Qed.
Lemma gset_last_app {X} (l : list X) x y : gset_last (l ++ [x]) y = l ++ [y].
Proof. unfold gset_last. rewrite removelast_last. reflexivity. Qed.
Lemma gset_last_rev_cons {X} (l : list X) x y : gset_last (rev (x :: l)) y = rev (y :: l).
Proof. cbn [rev]. apply gset_last_app. Qed.

Lemma gmask_map {X} (f : X -> bool) (v : list X) : gmask v (map f v) = GOk (filter f v).
Proof.
  unfold gmask. rewrite map_length, Nat.eqb_refl. f_equal.
  induction v as [|x v IH]; [reflexivity|]. cbn [map combine filter snd fst].
  destruct (f x); cbn [map fst]; rewrite IH; reflexivity.
Qed.

(* positions 0 .. n-1 whose running counter value c + i is a multiple of th *)
Definition keep_idx (th c : Z) (n : nat) : list Z :=
  filter (fun i => (c + i) mod th =? 0) (map Z.of_nat (seq 0 n)).

Lemma filter_ext_all {X} (f g : X -> bool) (l : list X) : (forall x, f x = g x) -> filter f l = filter g l.
Proof. intros H. induction l as [|x l IH]; [reflexivity|]. cbn. rewrite H, IH. reflexivity. Qed.

(* idx = np.arange(size)[<mask>]  where the mask is, pointwise, "(counter + i) % th == 0" *)
Lemma tie_mask_idx (f : Z -> bool) (th c n : Z) :
  (1 <? th) = true ->
  (forall i, f i = (npmod (c + i) th =? 0)) ->
  gmask (garange n) (map f (garange n)) = GOk (keep_idx th c (Z.to_nat n)).
Proof.
  intros Hth Hf. rewrite gmask_map. unfold keep_idx, garange. f_equal.
  apply filter_ext_all. intros i. rewrite Hf. unfold npmod.
  apply Z.ltb_lt in Hth. destruct (Z.eqb_spec th 0); [lia | reflexivity].
Qed.

Section Sel.
Context {X : Type}.
Fixpoint sel (g : Z -> bool) (k : nat) (l : list X) : list X :=
  match l with
  | [] => []
  | x :: t => if g (Z.of_nat k) then x :: sel g (S k) t else sel g (S k) t
  end.

Lemma gtake_sel (g : Z -> bool) : forall (l pre : list X),
  gtake (pre ++ l) (filter g (map Z.of_nat (seq (length pre) (length l)))) = GOk (sel g (length pre) l).
Proof.
  induction l as [|x t IH]; intros pre; [reflexivity|].
  cbn [length seq map filter sel].
  assert (E : pre ++ x :: t = (pre ++ [x]) ++ t) by (rewrite <- app_assoc; reflexivity).
  assert (L : length (pre ++ [x]) = S (length pre)) by (rewrite app_length; cbn; lia).
  specialize (IH (pre ++ [x])). rewrite <- E, L in IH.
  destruct (g (Z.of_nat (length pre))); [|exact IH].
  cbn [gtake]. unfold glen. rewrite app_length. cbn [length].
  destruct (Z.ltb_spec (Z.of_nat (length pre)) 0); [lia|].
  destruct (Z.leb_spec 0 (Z.of_nat (length pre))); [|lia].
  destruct (Z.ltb_spec (Z.of_nat (length pre)) (Z.of_nat (length pre + S (length t)))); [|lia].
  cbn [andb]. rewrite Nat2Z.id, nth_error_app2 by lia. rewrite Nat.sub_diag. cbn [nth_error].
  rewrite IH. reflexivity.
Qed.

Lemma sel_length (g : Z -> bool) : forall (l : list X) k,
  length (filter g (map Z.of_nat (seq k (length l)))) = length (sel g k l).
Proof.
  induction l as [|x t IH]; intros k; [reflexivity|].
  cbn [length seq map filter sel]. destruct (g (Z.of_nat k)); cbn [length]; rewrite IH; reflexivity.
Qed.

Lemma sel_keep_from th c : forall (l : list X) k,
  sel (fun i => (c + i) mod th =? 0) k l = keep_from th (c + Z.of_nat k) l.
Proof.
  induction l as [|x t IH]; intros k; [reflexivity|].
  cbn [sel keep_from]. rewrite IH.
  replace (c + Z.of_nat (S k)) with (c + Z.of_nat k + 1) by lia. reflexivity.
Qed.

(* chunk = slice_leaves(chunk, np.s_[:, idx, ...]) with that idx = the model's keep_from *)
Lemma tie_take_keep th c (l : list X) :
  gtake l (keep_idx th c (Z.to_nat (glen l))) = GOk (keep_from th c l).
Proof.
  unfold keep_idx, glen. rewrite Nat2Z.id.
  generalize (gtake_sel (fun i => (c + i) mod th =? 0) l []). cbn [app length]. intros ->.
  rewrite sel_keep_from. f_equal. f_equal. lia.
Qed.

Lemma tie_len_keep th c (l : list X) :
  glen (keep_idx th c (Z.to_nat (glen l))) = glen (keep_from th c l).
Proof.
  unfold keep_idx, glen. rewrite Nat2Z.id. rewrite (sel_length _ l 0%nat), sel_keep_from.
  do 3 f_equal. lia.
Qed.
End Sel.

(* ---- get() merges the stored chunks into one; the model's ec_get is pure.  The two agree up to this
        equivalence, which every operation of the model respects ---- *)
Section Equiv.
Context {X : Type}.
Definition squash (l : list (list X)) : list (list X) := match l with [] => [] | _ => [concat l] end.
Definition ec_squash (ch : echain X) : echain X :=
  mkEC (ec_cfg ch) (ec_thin ch) (ec_counter ch) (squash (ec_chunks ch)).
Definition chunks_equiv (l l' : list (list X)) : Prop := concat l = concat l' /\ (l = [] <-> l' = []).
Definition ec_equiv (a b : echain X) : Prop :=
  ec_cfg a = ec_cfg b /\ ec_thin a = ec_thin b /\ ec_counter a = ec_counter b /\
  chunks_equiv (ec_chunks a) (ec_chunks b).

Lemma squash_equiv l : chunks_equiv (squash l) l.
Proof.
  destruct l as [|c l]; [split; [reflexivity | tauto]|].
  split; [cbn [squash concat]; rewrite app_nil_r; reflexivity | split; discriminate].
Qed.
Lemma ec_squash_equiv ch : ec_equiv (ec_squash ch) ch.
Proof. unfold ec_equiv. cbn [ec_squash ec_cfg ec_thin ec_counter ec_chunks]. auto using squash_equiv. Qed.
Lemma ec_equiv_refl ch : ec_equiv ch ch.
Proof. unfold ec_equiv, chunks_equiv. tauto. Qed.
Lemma chunks_equiv_snoc l l' (x : list X) : chunks_equiv l l' -> chunks_equiv (l ++ [x]) (l' ++ [x]).
Proof.
  intros [H1 H2]. split; [rewrite !concat_app, H1; reflexivity|].
  split; intros H; destruct (app_eq_nil _ _ H) as [_ H']; discriminate H'.
Qed.
Lemma ec_get_equiv a b : ec_equiv a b -> ec_get a = ec_get b.
Proof.
  intros (_ & _ & _ & H1 & H2). unfold ec_get.
  destruct (ec_chunks a) as [|x l], (ec_chunks b) as [|y l'].
  - reflexivity.
  - destruct H2 as [H2 _]. discriminate (H2 eq_refl).
  - destruct H2 as [_ H2]. discriminate (H2 eq_refl).
  - rewrite H1. reflexivity.
Qed.
Lemma chain_list_equiv a b : ec_equiv a b -> chain_list a = chain_list b.
Proof. intros (_ & _ & _ & H1 & _). exact H1. Qed.
Lemma ec_append_equiv a b (x : list X) : ec_equiv a b -> ec_equiv (ec_append a x) (ec_append b x).
Proof.
  intros (H1 & H2 & H3 & H4). unfold ec_append. rewrite H1, H2, H3.
  destruct (ec_thin b && (1 <? thin (ec_cfg b))).
  - destruct (keep_from (thin (ec_cfg b)) (ec_counter b) x);
      (split; [|split; [|split]]); cbn [ec_cfg ec_thin ec_counter ec_chunks]; try reflexivity;
      first [ exact H4 | apply chunks_equiv_snoc; exact H4 ].
  - (split; [|split; [|split]]); cbn [ec_cfg ec_thin ec_counter ec_chunks]; try reflexivity;
      apply chunks_equiv_snoc; exact H4.
Qed.
End Equiv.

(* ---- the manager as the translated code holds it: (chains in Python order, apply_thinning) ---- *)
Definition mgr_obj {X} (m : cmgr X) : list (echain X) * bool := (cm_chains m, cm_thin m).
(* the manager after get() was called on the epoch chains selected by p *)
Definition cm_squash_sel {X} (p : econf -> bool) (m : cmgr X) : cmgr X :=
  mkCM (cm_thin m) (map (fun c => if p (ec_cfg c) then ec_squash c else c) (cm_rchains m)).

(* the result of the loop of combine_all / combine_filtered as the translated code computes it *)
Lemma tie_combine_loop {X} (p : econf -> bool)
      (body : echain X -> list (list X) -> gres (echain X * list (list X))) :
  (forall c acc, body c acc =
     GOk (if p (ec_cfg c) then ec_squash c else c,
          if p (ec_cfg c) then acc ++ opt_list (ec_get c) else acc)) ->
  forall l acc,
  gfor body l acc =
  GOk (map (fun c => if p (ec_cfg c) then ec_squash c else c) l,
       acc ++ flat_map (fun c => opt_list (ec_get c)) (filter (fun c => p (ec_cfg c)) l)).
Proof.
  intros Hb. induction l as [|c l IH]; intros acc.
  - cbn. rewrite app_nil_r. reflexivity.
  - cbn [gfor map filter]. rewrite Hb. cbn [gbind fst snd]. rewrite IH. cbn [gbind fst snd].
    destruct (p (ec_cfg c)); [cbn [flat_map]; rewrite <- app_assoc|]; reflexivity.
Qed.

(* ListChain.get on the collected chunks = the model's combine_chunks *)
Lemma tie_combine_result {X} (cs : list (list X)) :
  match cs with [] => None | _ => Some (concat cs) end
  = match cs with [] => None | cs' => Some (concat cs') end.
Proof. destruct cs; reflexivity. Qed.

Lemma map_rev_sel {X} (f : echain X -> echain X) (l : list (echain X)) : map f (rev l) = rev (map f l).
Proof. apply map_rev. Qed.
Lemma filter_rev_sel {X} (f : X -> bool) (l : list X) : filter f (rev l) = rev (filter f l).
Proof.
  induction l as [|x l IH]; [reflexivity|]. cbn [rev filter]. rewrite filter_app, IH. cbn [filter].
  destruct (f x); [reflexivity | rewrite app_nil_r; reflexivity].
Qed.

Lemma filter_all_true {X} (l : list X) : filter (fun _ => true) l = l.
Proof. induction l as [|x l IH]; [reflexivity|]. cbn [filter]. rewrite IH. reflexivity. Qed.

(* ---- transfer of the chain theorems of C08 to any functions extensionally equal to the model ---- *)
Section Transfer.
Context {X : Type}.
Variable g_init : econf -> bool -> gres (echain X).
Variable g_append : echain X -> list X -> gres (echain X * unit).
Variable g_get : list (list X) -> gres (list (list X) * option (list X)).
Hypothesis H_init : forall cfg on, g_init cfg on = GOk (ec_new cfg on).
Hypothesis H_append : forall ch c, g_append ch c = GOk (ec_append ch c, tt).
Hypothesis H_get : forall l, g_get l = GOk (squash l, match l with [] => None | _ => Some (concat l) end).

(* chain = ListEpochChain(cfg, on); for chunk in chunks: chain.append(chunk) *)
Fixpoint run_appends (ch : echain X) (chunks : list (list X)) : gres (echain X) :=
  match chunks with
  | [] => GOk ch
  | c :: r => gbind (g_append ch c) (fun cr => run_appends (fst cr) r)
  end.
Definition new_and_append (cfg : econf) (on : bool) (chunks : list (list X)) : gres (echain X) :=
  gbind (g_init cfg on) (fun ch => run_appends ch chunks).

Lemma run_appends_model chunks : forall ch, run_appends ch chunks = GOk (fold_left ec_append chunks ch).
Proof.
  induction chunks as [|c r IH]; intros ch; [reflexivity|].
  cbn [run_appends fold_left]. rewrite H_append. cbn [gbind fst]. apply IH.
Qed.
Lemma new_and_append_model cfg on chunks :
  new_and_append cfg on chunks = GOk (fold_left ec_append chunks (ec_new cfg on)).
Proof. unfold new_and_append. rewrite H_init. cbn [gbind]. apply run_appends_model. Qed.

Theorem tie_thin_chunking cfg chunks : 1 <= thin cfg ->
  exists ch, new_and_append cfg true chunks = GOk ch
             /\ chain_list ch = thin_spec (thin cfg) (concat chunks).
Proof.
  intros H. eexists. split; [apply new_and_append_model|]. apply thin_chunking. exact H.
Qed.

Theorem tie_unthinned_chunking cfg chunks :
  exists ch, new_and_append cfg false chunks = GOk ch /\ chain_list ch = concat chunks.
Proof. eexists. split; [apply new_and_append_model|]. apply unthinned_chunking. Qed.

(* get() after a whole epoch returns the specified value and leaves an equivalent chain behind *)
Theorem tie_epoch_chain_get cfg on chunks : chunks <> [] ->
  exists ch l',
    new_and_append cfg on chunks = GOk ch
    /\ g_get (ec_chunks ch) = GOk (l', get_spec on (thin cfg) (concat chunks))
    /\ chunks_equiv l' (ec_chunks ch).
Proof.
  intros H. eexists. eexists. split; [apply new_and_append_model|]. rewrite H_get.
  split; [|apply squash_equiv]. f_equal. f_equal.
  rewrite <- (ec_get_appends cfg on chunks H). unfold ec_get, ec_appends.
  match goal with |- context [ec_chunks ?c] => destruct (ec_chunks c) end; reflexivity.
Qed.

(* a get() call between appends is invisible: it returns the model's value, and the chain it leaves
   behind answers every later sequence of appends with the same get() value and the same contents *)
Theorem tie_get_invisible ch l' v chunks :
  g_get (ec_chunks ch) = GOk (l', v) ->
  v = ec_get ch /\
  exists a' b',
    run_appends (mkEC (ec_cfg ch) (ec_thin ch) (ec_counter ch) l') chunks = GOk a'
    /\ run_appends ch chunks = GOk b'
    /\ ec_get a' = ec_get b' /\ chain_list a' = chain_list b'.
Proof.
  rewrite H_get. intros E. injection E as <- <-. split; [unfold ec_get; destruct (ec_chunks ch); reflexivity|].
  eexists. eexists. rewrite !run_appends_model. split; [reflexivity|]. split; [reflexivity|].
  assert (E : forall a b, ec_equiv a b -> ec_equiv (fold_left ec_append chunks a) (fold_left ec_append chunks b)).
  { induction chunks as [|c r IH]; intros a b Hab; [exact Hab|].
    cbn [fold_left]. apply IH. apply ec_append_equiv. exact Hab. }
  specialize (E _ _ (ec_squash_equiv ch)).
  split; [apply ec_get_equiv | apply chain_list_equiv]; exact E.
Qed.
End Transfer.

(* ---- tactics of the generated equality proofs ---- *)
Ltac c08_split :=
  match goal with
  | |- context [Z.gtb ?a ?b] => rewrite (Z.gtb_ltb a b)
  | |- context [Z.geb ?a ?b] => rewrite (Z.geb_leb a b)
  | |- context [Z.eqb ?a ?b] => destruct (Z.eqb_spec a b)
  | |- context [Z.ltb ?a ?b] => destruct (Z.ltb_spec a b)
  | |- context [Z.leb ?a ?b] => destruct (Z.leb_spec a b)
  end.
Ltac c08_simpl :=
  unfold glen;
  cbn [gbind fst snd andb orb negb ec_cfg ec_thin ec_counter ec_chunks cm_thin cm_rchains
       gis_some gunwrap gconcat opt_list glen length app].
Ltac c08_leaf := first [ reflexivity | exfalso; unfold glen in *; cbn [length] in *; lia | congruence ].
Ltac c08_crush := c08_simpl; repeat (first [ c08_leaf | c08_split; c08_simpl ]).
(* the pointwise reading of a fused numpy mask expression *)
Ltac c08_pointwise := intros; cbv beta; first [ reflexivity | repeat (f_equal; try lia) ].
