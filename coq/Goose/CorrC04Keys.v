(* Executable glue for the C04 key-independence shards (vm_compute): the concrete PRNG keys (two uint32
   words) that the real KernelSequence.transition handed to recording harness kernels. *)
From Coq Require Import List Bool NArith Lia.
Import ListNotations.
From LV Require Import Goose.MarkovRand.

Definition wkey := (N * N)%type.
Definition wkey_eqb (a b : wkey) : bool := N.eqb (fst a) (fst b) && N.eqb (snd a) (snd b).

Fixpoint nodupb (l : list wkey) : bool :=
  match l with
  | [] => true
  | a :: r => negb (existsb (wkey_eqb a) r) && nodupb r
  end.

(* one transition: the key handed to KernelSequence.transition and the keys its kernels received *)
Definition seq_keys_ok (carry : wkey) (ks : list wkey) : bool :=
  nodupb ks && negb (existsb (wkey_eqb carry) ks).

(* several consecutive transitions (fresh key each): every transition is fine and no key is reused
   across transitions, neither as a kernel key nor as a transition key *)
Definition run_keys_ok (trs : list (wkey * list wkey)) : bool :=
  forallb (fun t => seq_keys_ok (fst t) (snd t)) trs
  && nodupb (flat_map (fun t => snd t) trs ++ map (fun t => fst t) trs).

Definition failing_transitions (trs : list (wkey * list wkey)) : list nat :=
  map fst (filter (fun p => negb (seq_keys_ok (fst (snd p)) (snd (snd p)))) (combine (seq 0 (length trs)) trs)).

Lemma wkey_eqb_eq a b : wkey_eqb a b = true <-> a = b.
Proof.
  destruct a as [a1 a2], b as [b1 b2]. unfold wkey_eqb. cbn [fst snd].
  rewrite andb_true_iff, !N.eqb_eq. split; [intros [-> ->]; reflexivity | intros H; inversion H; auto].
Qed.

Lemma existsb_wkey_false a l : existsb (wkey_eqb a) l = false -> ~ In a l.
Proof.
  intros H Hin. assert (E : existsb (wkey_eqb a) l = true).
  { apply existsb_exists. exists a. split; [exact Hin | apply wkey_eqb_eq; reflexivity]. }
  congruence.
Qed.

Lemma nodupb_sound l : nodupb l = true -> NoDup l.
Proof.
  induction l as [|a r IH]; intros H; [constructor|].
  cbn [nodupb] in H. apply andb_true_iff in H. destruct H as [H1 H2].
  apply negb_true_iff in H1. constructor; [apply existsb_wkey_false; exact H1 | apply IH; exact H2].
Qed.

Lemma seq_keys_ok_sound carry ks : seq_keys_ok carry ks = true -> keys_independent carry ks.
Proof.
  unfold seq_keys_ok. intros H. apply andb_true_iff in H. destruct H as [H1 H2].
  apply negb_true_iff in H2. split; [apply nodupb_sound; exact H1 | apply existsb_wkey_false; exact H2].
Qed.

(* ---- special-value classes of log-densities (glue of HMC/NUTS): log_prob_fn must return the model's
   block log-density at EVERY point: NaN stays NaN, -inf stays -inf, +inf stays +inf, finite values agree ---- *)
From Coq Require Import QArith Qabs.
From LV Require Import Base.Xnum.

Definition xsame (tol : Q) (a b : xnum) : bool :=
  match a, b with
  | XNaN, XNaN | XNegInf, XNegInf | XPosInf, XPosInf => true
  | XFin p, XFin q => Qle_bool (Qabs (p - q)) tol
  | _, _ => false
  end.

(* kernel.py ModelMixin.log_prob_fn: position |-> log_prob (update_state position model_state), nothing else *)
Definition log_prob_fn_model {P : Type} (block_density : P -> xnum) (pos : P) : xnum := block_density pos.

Definition probes_ok (l : list (xnum * xnum)) : bool :=
  forallb (fun p => xsame (1 # 100000000) (log_prob_fn_model (fun _ => snd p) tt) (fst p)) l.
