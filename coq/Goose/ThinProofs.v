(* Proofs about the chain / engine-storage model of Thin.v (property C08). *)
From Coq Require Import String List ZArith Bool Arith Lia.
Import ListNotations.
From LV Require Import Goose.Epoch Goose.EpochProofs Goose.Thin.
Open Scope Z_scope.

(* ------------------------------------------------------------------------------------------- *)
(*  arithmetic                                                                                  *)
(* ------------------------------------------------------------------------------------------- *)
Lemma div_succ th n : 1 <= th -> 0 <= n ->
  (n + 1) / th = n / th + (if (n + 1) mod th =? 0 then 1 else 0).
Proof.
  intros Hth Hn.
  pose proof (Z.div_mod n th ltac:(lia)) as E.
  pose proof (Z.mod_pos_bound n th ltac:(lia)) as B.
  destruct (Z.eq_dec (n mod th + 1) th) as [Heq|Hne].
  - assert (E2 : n + 1 = (n / th + 1) * th + 0) by nia.
    rewrite <- (Z.mod_unique (n + 1) th (n / th + 1) 0) by lia.
    cbn [Z.eqb]. symmetry. apply Z.div_unique with 0; lia.
  - assert (Hm : (n + 1) mod th = n mod th + 1).
    { symmetry. apply Z.mod_unique with (n / th); lia. }
    rewrite Hm. destruct (n mod th + 1 =? 0) eqn:Ez; [lia|].
    rewrite Z.add_0_r. symmetry. apply Z.div_unique with (n mod th + 1); lia.
Qed.

(* ------------------------------------------------------------------------------------------- *)
(*  chains                                                                                      *)
(* ------------------------------------------------------------------------------------------- *)
Section ChainProofs.
Context {A : Type}.

Lemma keep_from_app th c (l1 l2 : list A) :
  keep_from th c (l1 ++ l2) = keep_from th c l1 ++ keep_from th (c + Z.of_nat (length l1)) l2.
Proof.
  revert c; induction l1 as [|x l1 IH]; intros c; cbn [keep_from app length].
  - now rewrite Z.add_0_r.
  - rewrite IH. replace (c + 1 + Z.of_nat (length l1)) with (c + Z.of_nat (S (length l1))) by lia.
    destruct (c mod th =? 0); reflexivity.
Qed.

Lemma keep_from_spec th c (l : list A) :
  keep_from th c l = map snd (filter (fun p => fst p mod th =? 0) (combine (zseq c (length l)) l)).
Proof.
  revert c; induction l as [|x l IH]; intros c; cbn [keep_from length zseq combine filter fst]; [reflexivity|].
  rewrite IH. destruct (c mod th =? 0); reflexivity.
Qed.

Lemma thin_spec_keep th (l : list A) : thin_spec th l = keep_from th 1 l.
Proof. unfold thin_spec. now rewrite keep_from_spec. Qed.

Lemma keep_from_one c (l : list A) : keep_from 1 c l = l.
Proof.
  revert c; induction l as [|x l IH]; intros c; cbn [keep_from]; [reflexivity|].
  rewrite Z.mod_1_r. cbn [Z.eqb]. now rewrite IH.
Qed.

Lemma thin_spec_one (l : list A) : thin_spec 1 l = l.
Proof. rewrite thin_spec_keep. apply keep_from_one. Qed.

Lemma thin_spec_snoc th (l : list A) x :
  thin_spec th (l ++ [x]) =
  thin_spec th l ++ (if (Z.of_nat (length l) + 1) mod th =? 0 then [x] else []).
Proof.
  rewrite !thin_spec_keep, keep_from_app. cbn [keep_from].
  rewrite (Z.add_comm 1). reflexivity.
Qed.

(* how many are stored: floor(length / th) *)
Lemma thin_spec_length th (l : list A) : 1 <= th ->
  length (thin_spec th l) = Z.to_nat (Z.of_nat (length l) / th).
Proof.
  intros Hth. induction l as [|x l IH] using rev_ind.
  - unfold thin_spec. cbn [length zseq combine filter map]. change (Z.of_nat 0) with 0.
    rewrite Zdiv_0_l. reflexivity.
  - rewrite thin_spec_snoc, !app_length, IH. cbn [length].
    rewrite Nat2Z.inj_add. change (Z.of_nat 1) with 1.
    rewrite (div_succ th (Z.of_nat (length l))) by lia.
    assert (0 <= Z.of_nat (length l) / th) by (apply Z.div_pos; lia).
    destruct ((Z.of_nat (length l) + 1) mod th =? 0); cbn [length]; lia.
Qed.

(* which ones: the m-th stored element (0-based) is the element after iteration (m+1)*th *)
Lemma thin_spec_nth th (l : list A) (m : nat) : 1 <= th ->
  (m < length (thin_spec th l))%nat ->
  nth_error (thin_spec th l) m = nth_error l (Z.to_nat ((Z.of_nat m + 1) * th) - 1).
Proof.
  intros Hth. induction l as [|x l IH] using rev_ind.
  - cbn. lia.
  - intros Hm. rewrite thin_spec_snoc in *.
    pose proof (thin_spec_length th l Hth) as HL.
    assert (Hq : 0 <= Z.of_nat (length l) / th) by (apply Z.div_pos; lia).
    destruct (lt_dec m (length (thin_spec th l))) as [Hlt|Hge].
    + rewrite nth_error_app1 by assumption. rewrite IH by assumption.
      rewrite nth_error_app1; [reflexivity|].
      (* (m+1)*th <= (len/th)*th <= len *)
      assert ((Z.of_nat m + 1) <= Z.of_nat (length l) / th) by lia.
      pose proof (Z.mul_div_le (Z.of_nat (length l)) th ltac:(lia)).
      assert ((Z.of_nat m + 1) * th <= Z.of_nat (length l)) by nia.
      lia.
    + rewrite app_length in Hm.
      destruct ((Z.of_nat (length l) + 1) mod th =? 0) eqn:Emod; cbn [length] in Hm; [|lia].
      assert (Em : m = length (thin_spec th l)) by lia.
      rewrite nth_error_app2 by lia. rewrite Em, Nat.sub_diag. cbn [nth_error].
      (* (len+1) = th * ((len+1)/th) and (len+1)/th = len/th + 1 = m + 1 *)
      pose proof (div_succ th (Z.of_nat (length l)) Hth ltac:(lia)) as Hd. rewrite Emod in Hd.
      apply Z.eqb_eq in Emod.
      pose proof (Z.div_mod (Z.of_nat (length l) + 1) th ltac:(lia)) as E.
      assert (Eidx : (Z.of_nat (length (thin_spec th l)) + 1) * th = Z.of_nat (length l) + 1) by (rewrite HL; nia).
      rewrite Eidx. replace (Z.to_nat (Z.of_nat (length l) + 1) - 1)%nat with (length l) by lia.
      rewrite nth_error_app2 by lia. now rewrite Nat.sub_diag.
Qed.

Lemma thin_spec_nonempty th (l : list A) : 1 <= th -> th <= Z.of_nat (length l) -> thin_spec th l <> [].
Proof.
  intros H1 H2 E. apply (f_equal (@length A)) in E. rewrite thin_spec_length in E by assumption.
  cbn in E. assert (1 <= Z.of_nat (length l) / th) by (apply Z.div_le_lower_bound; lia). lia.
Qed.

(* ---- ListEpochChain.append over a sequence of chunks ---- *)
Definition ec_appends (ch : echain A) (chunks : list (list A)) : echain A := fold_left ec_append chunks ch.

Lemma ec_appends_cfg ch chunks :
  ec_cfg (ec_appends ch chunks) = ec_cfg ch /\ ec_thin (ec_appends ch chunks) = ec_thin ch.
Proof.
  revert ch; induction chunks as [|x r IH]; intros ch; cbn [ec_appends fold_left]; [split; reflexivity|].
  destruct (IH (ec_append ch x)) as [E1 E2]. unfold ec_appends in *. rewrite E1, E2.
  unfold ec_append. destruct (ec_thin ch && (1 <? thin (ec_cfg ch))); split; reflexivity.
Qed.

(* thinning branch, one append *)
Lemma ec_append_thin ch (x : list A) :
  ec_thin ch && (1 <? thin (ec_cfg ch)) = true ->
  ec_cfg (ec_append ch x) = ec_cfg ch /\ ec_thin (ec_append ch x) = ec_thin ch
  /\ chain_list (ec_append ch x) = chain_list ch ++ keep_from (thin (ec_cfg ch)) (ec_counter ch) x
  /\ ec_counter (ec_append ch x) = ec_counter ch + Z.of_nat (length x)
  /\ (Forall (fun c => c <> []) (ec_chunks ch) -> Forall (fun c => c <> []) (ec_chunks (ec_append ch x))).
Proof.
  intros Hb. unfold ec_append. rewrite Hb. cbn [ec_cfg ec_thin ec_counter ec_chunks chain_list].
  repeat split.
  - unfold chain_list. cbn [ec_chunks].
    destruct (keep_from (thin (ec_cfg ch)) (ec_counter ch) x) eqn:Ek.
    + now rewrite app_nil_r.
    + rewrite concat_app. cbn [concat]. now rewrite app_nil_r.
  - intros HF. destruct (keep_from (thin (ec_cfg ch)) (ec_counter ch) x) eqn:Ek; [assumption|].
    apply Forall_app; split; [assumption|]. constructor; [discriminate|constructor].
Qed.

(* thinning branch: invariant  counter = counter0 + states seen *)
Lemma ec_appends_thin ch chunks :
  ec_thin ch && (1 <? thin (ec_cfg ch)) = true ->
  chain_list (ec_appends ch chunks)
    = chain_list ch ++ keep_from (thin (ec_cfg ch)) (ec_counter ch) (concat chunks)
  /\ ec_counter (ec_appends ch chunks) = ec_counter ch + Z.of_nat (length (concat chunks))
  /\ (Forall (fun c => c <> []) (ec_chunks ch) -> Forall (fun c => c <> []) (ec_chunks (ec_appends ch chunks))).
Proof.
  revert ch; induction chunks as [|x r IH]; intros ch Hb; cbn [ec_appends fold_left concat].
  - cbn [keep_from length]. rewrite app_nil_r, Z.add_0_r. auto.
  - destruct (ec_append_thin ch x Hb) as (C1 & C2 & C3 & C4 & C5).
    assert (Hb' : ec_thin (ec_append ch x) && (1 <? thin (ec_cfg (ec_append ch x))) = true)
      by (rewrite C1, C2; exact Hb).
    destruct (IH _ Hb') as (E1 & E2 & E3). unfold ec_appends in *.
    rewrite E1, E2, C1, C3, C4. rewrite keep_from_app, app_length, Nat2Z.inj_add.
    split; [now rewrite app_assoc|]. split; [lia|]. intros HF. apply E3, C5, HF.
Qed.

(* no thinning (apply_thinning off or thinning 1): every chunk is stored as is *)
Lemma ec_appends_plain ch chunks :
  ec_thin ch && (1 <? thin (ec_cfg ch)) = false ->
  ec_chunks (ec_appends ch chunks) = ec_chunks ch ++ chunks.
Proof.
  revert ch; induction chunks as [|x r IH]; intros ch Hb; cbn [ec_appends fold_left].
  - now rewrite app_nil_r.
  - assert (Hb' : ec_thin (ec_append ch x) && (1 <? thin (ec_cfg (ec_append ch x))) = false).
    { unfold ec_append. rewrite Hb. exact Hb. }
    unfold ec_appends in *. rewrite (IH _ Hb'). unfold ec_append. rewrite Hb. cbn [ec_chunks].
    now rewrite <- app_assoc.
Qed.

(* C08_thin_chunking: every thinning >= 1, EVERY split into chunks (empty chunks included) *)
Theorem thin_chunking cfg (chunks : list (list A)) : 1 <= thin cfg ->
  chain_list (ec_appends (ec_new cfg true) chunks) = thin_spec (thin cfg) (concat chunks).
Proof.
  intros Hth. destruct (1 <? thin cfg) eqn:E1.
  - destruct (ec_appends_thin (ec_new cfg true) chunks) as (E & _); [cbn; now rewrite E1|].
    rewrite E. cbn. now rewrite thin_spec_keep.
  - assert (thin cfg = 1) by (apply Z.ltb_ge in E1; lia).
    unfold chain_list. rewrite ec_appends_plain by (cbn; now rewrite E1). cbn [ec_new ec_chunks app].
    rewrite H. now rewrite thin_spec_one.
Qed.

Theorem unthinned_chunking cfg (chunks : list (list A)) :
  chain_list (ec_appends (ec_new cfg false) chunks) = concat chunks.
Proof. unfold chain_list. now rewrite ec_appends_plain by reflexivity. Qed.

Lemma concat_nil_nonempty (l : list (list A)) : Forall (fun c => c <> []) l -> concat l = [] -> l = [].
Proof.
  destruct l as [|x r]; [reflexivity|]. intros HF E. inversion HF; subst. cbn in E.
  destruct x; [congruence|discriminate].
Qed.

(* what get() of the epoch chain returns after the appends *)
Lemma ec_get_appends cfg on (chunks : list (list A)) : chunks <> [] ->
  ec_get (ec_appends (ec_new cfg on) chunks) = get_spec on (thin cfg) (concat chunks).
Proof.
  intros Hne. unfold get_spec. destruct (on && (1 <? thin cfg)) eqn:Eb.
  - destruct (ec_appends_thin (ec_new cfg on) chunks) as (E1 & _ & E3); [exact Eb|].
    specialize (E3 ltac:(constructor)). cbn [ec_new ec_cfg ec_counter chain_list ec_chunks concat app] in E1.
    rewrite thin_spec_keep, <- E1. unfold ec_get, chain_list.
    destruct (ec_chunks (ec_appends (ec_new cfg on) chunks)) as [|c0 r] eqn:Ec; [reflexivity|].
    destruct (concat (c0 :: r)) eqn:Ecc; [|reflexivity].
    apply concat_nil_nonempty in Ecc; [discriminate|assumption].
  - unfold ec_get. rewrite ec_appends_plain by exact Eb. cbn [ec_new ec_chunks app].
    destruct chunks; [congruence|reflexivity].
Qed.

Lemma ec_get_chain_list (ch : echain A) l : ec_get ch = Some l -> l = chain_list ch.
Proof. unfold ec_get, chain_list. destruct (ec_chunks ch); congruence. Qed.

(* ---- the manager ---- *)
Definition sem1 (ch : echain A) : econf * option (list A) := (ec_cfg ch, ec_get ch).
Definition cm_sem (m : cmgr A) : list (econf * option (list A)) := map sem1 (cm_chains m).
Definition combine_sem (l : list (econf * option (list A))) : option (list A) :=
  match flat_map (fun p => opt_list (snd p)) l with [] => None | cs => Some (concat cs) end.

Lemma combine_chunks_sem (l : list (echain A)) : combine_chunks l = combine_sem (map sem1 l).
Proof.
  unfold combine_chunks, combine_sem. rewrite flat_map_concat_map, flat_map_concat_map, map_map. reflexivity.
Qed.

Lemma combine_all_sem m : cm_combine_all m = combine_sem (cm_sem m).
Proof. apply combine_chunks_sem. Qed.

Lemma combine_filtered_sem p m :
  cm_combine_filtered p m = combine_sem (filter (fun q => p (fst q)) (cm_sem m)).
Proof.
  unfold cm_combine_filtered, cm_sem. rewrite combine_chunks_sem. f_equal.
  induction (cm_chains m) as [|c r IH]; cbn [filter map]; [reflexivity|].
  cbn [sem1 fst]. destruct (p (ec_cfg c)); cbn [map]; now rewrite IH.
Qed.

Lemma cm_sem_advance m cfg : cm_sem (cm_advance m cfg) = cm_sem m ++ [(cfg, None)].
Proof. unfold cm_sem, cm_chains, cm_advance. cbn [cm_rchains rev]. rewrite map_app. reflexivity. Qed.

(* update of the current chain *)
Definition cm_upd (m : cmgr A) (f : echain A -> echain A) : cmgr A :=
  mkCM (cm_thin m) (match cm_rchains m with c :: r => f c :: r | [] => [] end).

Lemma cm_append_upd m chunk : cm_rchains m <> [] ->
  cm_append m chunk = Some (cm_upd m (fun c => ec_append c chunk)).
Proof. unfold cm_append, cm_upd. destruct (cm_rchains m); [congruence|reflexivity]. Qed.

Lemma cm_upd_nonempty m f : cm_rchains m <> [] -> cm_rchains (cm_upd m f) <> [].
Proof. unfold cm_upd. destruct (cm_rchains m); [congruence|discriminate]. Qed.

Lemma cm_upd_upd m x r : 
  cm_upd (cm_upd m (fun c => ec_append c x)) (fun c => ec_appends c r) = cm_upd m (fun c => ec_appends c (x :: r)).
Proof. unfold cm_upd. cbn [cm_thin cm_rchains]. destruct (cm_rchains m); reflexivity. Qed.

Lemma cm_upd_nil m : cm_upd m (fun c => ec_appends c []) = m.
Proof. unfold cm_upd. destruct m as [t l]. cbn. destruct l; reflexivity. Qed.

Lemma cm_sem_advance_upd m cfg chunks : chunks <> [] ->
  cm_sem (cm_upd (cm_advance m cfg) (fun c => ec_appends c chunks))
  = cm_sem m ++ [(cfg, get_spec (cm_thin m) (thin cfg) (concat chunks))].
Proof.
  intros Hne. unfold cm_sem, cm_chains, cm_upd, cm_advance. cbn [cm_rchains cm_thin rev]. rewrite map_app.
  cbn [map]. unfold sem1 at 2. rewrite ec_get_appends by assumption.
  destruct (ec_appends_cfg (ec_new cfg (cm_thin m)) chunks) as [E _]. rewrite E. reflexivity.
Qed.

Lemma cm_thin_upd m f : cm_thin (cm_upd m f) = cm_thin m.
Proof. reflexivity. Qed.

Lemma cur_get_upd m cfg chunks : chunks <> [] ->
  cur_get (cm_upd (cm_advance m cfg) (fun c => ec_appends c chunks))
  = get_spec (cm_thin m) (thin cfg) (concat chunks).
Proof. intros Hne. unfold cur_get, cm_upd, cm_advance. cbn [cm_rchains]. now apply ec_get_appends. Qed.

(* combine over semantic lists *)
Definition olist (o : option (list A)) : list A := match o with Some x => x | None => [] end.

Lemma combine_sem_app l1 l2 :
  combine_sem (l1 ++ l2) =
  match combine_sem l1, combine_sem l2 with
  | Some a, Some b => Some (a ++ b)
  | Some a, None => Some a
  | None, o => o
  end.
Proof.
  unfold combine_sem. rewrite flat_map_app.
  destruct (flat_map (fun p => opt_list (snd p)) l1) as [|a r] eqn:E1;
  destruct (flat_map (fun p => opt_list (snd p)) l2) as [|b s] eqn:E2; cbn [app]; try reflexivity.
  - now rewrite app_nil_r.
  - change (a :: r ++ b :: s) with ((a :: r) ++ b :: s). now rewrite concat_app.
Qed.

Lemma combine_sem_some l : (exists p x, In p l /\ snd p = Some x) ->
  combine_sem l = Some (concat (map (fun p => olist (snd p)) l)).
Proof.
  intros (p & x & Hin & Hp). unfold combine_sem.
  assert (E : concat (flat_map (fun p => opt_list (snd p)) l) = concat (map (fun p => olist (snd p)) l)).
  { clear. induction l as [|q r IH]; [reflexivity|]. cbn [flat_map map concat]. rewrite concat_app, IH.
    destruct (snd q); cbn; [now rewrite app_nil_r|reflexivity]. }
  rewrite <- E.
  destruct (flat_map (fun p => opt_list (snd p)) l) eqn:Ef; [|reflexivity].
  exfalso. assert (Hx : In x (flat_map (fun p => opt_list (snd p)) l)).
  { apply in_flat_map. exists p. split; [assumption|]. rewrite Hp. now left. }
  rewrite Ef in Hx. destruct Hx.
Qed.

Lemma combine_sem_none l : (forall p, In p l -> snd p = None) -> combine_sem l = None.
Proof.
  intros H. unfold combine_sem.
  replace (flat_map (fun p => opt_list (snd p)) l) with (@nil (list A)); [reflexivity|].
  induction l as [|q r IH]; [reflexivity|]. cbn [flat_map]. rewrite (H q) by now left. cbn.
  apply IH. intros p Hp. apply H. now right.
Qed.
End ChainProofs.

(* ------------------------------------------------------------------------------------------- *)
(*  keys of the chunked loop = closed form                                                      *)
(* ------------------------------------------------------------------------------------------- *)
Definition flat_keys (c : nat) (k : key) (n : nat) : list key :=
  concat (map (fun q => chunk_keys c (chunk_key c k q)) (seq 0 n)).

Lemma chunk_key_0 c k : chunk_key c k 0 = k.
Proof. unfold chunk_key. cbn. apply app_nil_r. Qed.

Lemma chunk_key_S c k q : chunk_key c k (S q) = chunk_key c (ksplit k (S c) 0) q.
Proof. unfold chunk_key, ksplit. cbn [repeat]. now rewrite <- app_assoc. Qed.

Lemma flat_keys_S_left c k n :
  flat_keys c k (S n) = chunk_keys c k ++ flat_keys c (ksplit k (S c) 0) n.
Proof.
  unfold flat_keys. cbn [seq map concat]. rewrite chunk_key_0. f_equal.
  rewrite <- seq_shift, map_map. f_equal. apply map_ext. intros q. now rewrite chunk_key_S.
Qed.

Lemma seq_offset a n : seq a n = map (Nat.add a) (seq 0 n).
Proof.
  revert a; induction n as [|n IH]; intros a; [reflexivity|].
  cbn [seq map]. rewrite Nat.add_0_r. f_equal. rewrite (IH (S a)), <- seq_shift, map_map.
  apply map_ext. intros x. lia.
Qed.

Lemma flat_keys_it c k n : (0 < c)%nat ->
  flat_keys c k n = map (it_key c k) (seq 0 (n * c)).
Proof.
  intros Hc. induction n as [|n IH]; [reflexivity|].
  unfold flat_keys in *. rewrite seq_S, map_app, concat_app, IH. cbn [map concat plus]. rewrite app_nil_r.
  replace (S n * c)%nat with (n * c + c)%nat by lia. rewrite seq_app, map_app. f_equal.
  cbn [plus]. rewrite (seq_offset (n * c) c), map_map. unfold chunk_keys. apply map_ext_in.
  intros j Hj. apply in_seq in Hj. unfold it_key.
  rewrite Nat.div_add_l by lia. rewrite (Nat.div_small j c) by lia. rewrite Nat.add_0_r.
  rewrite (Nat.add_comm (n * c) j), Nat.mod_add by lia. now rewrite Nat.mod_small by lia.
Qed.

(* ------------------------------------------------------------------------------------------- *)
(*  the engine                                                                                  *)
(* ------------------------------------------------------------------------------------------- *)
Section EngineProofs.
Context {St P I KS Q : Type}.
Variable kernels : list (@kernel St I KS).
Variable extract : list string -> St -> P.
Variable gens : list (key -> einfo -> St -> Q).
Variable pre_hook : key -> nat -> econf -> KS -> St -> key * KS.
Variable post_hook : key -> nat -> econf -> option (list P) -> KS -> St -> key * KS.
Variable init_ks : key -> St -> KS.
Variable store_ks : bool.
Variable tk : list string.

Local Notation outcome := (@Thin.outcome St P I KS Q).
Local Notation eng := (@Thin.eng St P I KS Q).
Local Notation erec := (@Thin.erec St P I KS Q).
Local Notation iter_step := (Thin.iter_step kernels extract gens tk).
Local Notation scan := (Thin.scan kernels extract gens tk).
Local Notation sample_chunk := (Thin.sample_chunk kernels extract gens store_ks tk).
Local Notation sample_loop := (Thin.sample_loop kernels extract gens store_ks tk).
Local Notation sample_for_duration := (Thin.sample_for_duration kernels extract gens store_ks tk).
Local Notation init_epoch := (Thin.init_epoch extract gens store_ks tk).
Local Notation run_epoch := (Thin.run_epoch kernels extract gens pre_hook post_hook store_ks tk).
Local Notation run_epochs := (Thin.run_epochs kernels extract gens pre_hook post_hook store_ks tk).
Local Notation run_engine := (Thin.run_engine kernels extract gens pre_hook post_hook init_ks store_ks tk).
Local Notation spec_epoch := (Thin.spec_epoch kernels extract gens pre_hook post_hook tk).
Local Notation spec_epochs := (Thin.spec_epochs kernels extract gens pre_hook post_hook tk).
Local Notation spec_init := (Thin.spec_init gens init_ks).
Local Notation has_gens := (Thin.has_gens gens).

(* ---- one iteration: the stored state is the state after ALL kernels ---- *)
Lemma seq_trans_fold ktr n i (kers : list (@kernel St I KS)) ei ks ms :
  let '(_, ks', ms') := seq_trans ktr n i kers ei ks ms in
  (ks', ms') = fold_left (apply_kernel ktr n ei) (combine (seq i (length kers)) kers) (ks, ms).
Proof.
  revert i ks ms; induction kers as [|ker r IH]; intros i ks ms; cbn [seq_trans length seq combine fold_left].
  - reflexivity.
  - unfold apply_kernel at 2. cbn [fst snd].
    destruct (k_trans ker (ksplit ktr n i) ei ks ms) as [[inf ks1] ms1].
    specialize (IH (S i) ks1 ms1).
    destruct (seq_trans ktr n (S i) r ei ks1 ms1) as [[infs ks2] ms2]. exact IH.
Qed.

Lemma seq_trans_infos_length ktr n i (kers : list (@kernel St I KS)) ei ks ms :
  length (fst (fst (seq_trans ktr n i kers ei ks ms))) = length kers.
Proof.
  revert i ks ms; induction kers as [|ker r IH]; intros i ks ms; cbn [seq_trans length]; [reflexivity|].
  destruct (k_trans ker (ksplit ktr n i) ei ks ms) as [[inf ks1] ms1].
  specialize (IH (S i) ks1 ms1).
  destruct (seq_trans ktr n (S i) r ei ks1 ms1) as [[infs ks2] ms2]. cbn [fst length] in *. now rewrite IH.
Qed.

Theorem iter_step_all_kernels k ei ks ms :
  let o := iter_step k ei ks ms in
  (o_ks o, o_ms o) = after_kernels kernels (ksplit k 2 0) ei ks ms
  /\ o_pos o = extract tk (o_ms o)
  /\ length (o_infos o) = length kernels.
Proof.
  unfold Thin.iter_step, after_kernels.
  pose proof (seq_trans_fold (ksplit k 2 0) (length kernels) 0 kernels ei ks ms) as H.
  pose proof (seq_trans_infos_length (ksplit k 2 0) (length kernels) 0 kernels ei ks ms) as HL.
  destruct (seq_trans (ksplit k 2 0) (length kernels) 0 kernels ei ks ms) as [[infs ks'] ms'].
  cbn [o_ks o_ms o_pos o_infos fst] in *. auto.
Qed.

(* ---- scan ---- *)
Lemma scan_app k1 k2 ei ks ms :
  scan (k1 ++ k2) ei ks ms =
  let '(ei1, ks1, ms1, o1) := scan k1 ei ks ms in
  let '(ei2, ks2, ms2, o2) := scan k2 ei1 ks1 ms1 in
  (ei2, ks2, ms2, o1 ++ o2).
Proof.
  revert ei ks ms; induction k1 as [|k r IH]; intros ei ks ms; cbn [Thin.scan app].
  - destruct (scan k2 ei ks ms) as [[[? ?] ?] ?]. reflexivity.
  - rewrite IH.
    destruct (scan r (advance ei) (o_ks (iter_step k ei ks ms)) (o_ms (iter_step k ei ks ms))) as [[[ei1 ks1] ms1] o1].
    destruct (scan k2 ei1 ks1 ms1) as [[[? ?] ?] ?]. reflexivity.
Qed.

Lemma scan_length keys ei ks ms : length (snd (scan keys ei ks ms)) = length keys.
Proof.
  revert ei ks ms; induction keys as [|k r IH]; intros ei ks ms; cbn [Thin.scan]; [reflexivity|].
  specialize (IH (advance ei) (o_ks (iter_step k ei ks ms)) (o_ms (iter_step k ei ks ms))).
  destruct (scan r (advance ei) (o_ks (iter_step k ei ks ms)) (o_ms (iter_step k ei ks ms))) as [[[ei1 ks1] ms1] o1].
  cbn [snd length] in *. now rewrite IH.
Qed.

(* every outcome of a scan is an [iter_step] of the carry left by its predecessor *)
Lemma scan_outcomes keys ei ks ms :
  Forall (fun o => o_pos o = extract tk (o_ms o) /\ length (o_infos o) = length kernels) (snd (scan keys ei ks ms)).
Proof.
  revert ei ks ms; induction keys as [|k r IH]; intros ei ks ms; cbn [Thin.scan]; [constructor|].
  specialize (IH (advance ei) (o_ks (iter_step k ei ks ms)) (o_ms (iter_step k ei ks ms))).
  destruct (scan r (advance ei) (o_ks (iter_step k ei ks ms)) (o_ms (iter_step k ei ks ms))) as [[[ei1 ks1] ms1] o1].
  cbn [snd] in *. constructor; [|exact IH]. apply (iter_step_all_kernels k ei ks ms).
Qed.

(* ---- the chunked loop without storage ---- *)
Fixpoint loop_outs (n c : nat) (k : key) (ei : einfo) (ks : KS) (ms : St)
  : (key * einfo * KS * St) * list (list outcome) :=
  match n with
  | O => ((k, ei, ks, ms), [])
  | S n' =>
      let '(ei', ks', ms', outs) := scan (chunk_keys c k) ei ks ms in
      let '(fin, rest) := loop_outs n' c (ksplit k (S c) 0) ei' ks' ms' in
      (fin, outs :: rest)
  end.

Lemma loop_outs_length n c k ei ks ms : length (snd (loop_outs n c k ei ks ms)) = n.
Proof.
  revert k ei ks ms; induction n as [|n IH]; intros k ei ks ms; cbn [loop_outs]; [reflexivity|].
  destruct (scan (chunk_keys c k) ei ks ms) as [[[ei' ks'] ms'] outs].
  specialize (IH (ksplit k (S c) 0) ei' ks' ms').
  destruct (loop_outs n c (ksplit k (S c) 0) ei' ks' ms') as [fin rest]. cbn [snd length] in *. now rewrite IH.
Qed.

Lemma loop_outs_flat n c k ei ks ms :
  let '(ei', ks', ms', outs) := scan (flat_keys c k n) ei ks ms in
  fst (loop_outs n c k ei ks ms) = (chunk_key c k n, ei', ks', ms')
  /\ concat (snd (loop_outs n c k ei ks ms)) = outs.
Proof.
  revert k ei ks ms; induction n as [|n IH]; intros k ei ks ms.
  - cbn. rewrite chunk_key_0. auto.
  - rewrite flat_keys_S_left, scan_app. cbn [loop_outs].
    destruct (scan (chunk_keys c k) ei ks ms) as [[[ei1 ks1] ms1] o1].
    specialize (IH (ksplit k (S c) 0) ei1 ks1 ms1).
    destruct (scan (flat_keys c (ksplit k (S c) 0) n) ei1 ks1 ms1) as [[[ei2 ks2] ms2] o2].
    destruct (loop_outs n c (ksplit k (S c) 0) ei1 ks1 ms1) as [fin rest].
    cbn [fst snd concat] in *. destruct IH as [E1 E2]. rewrite chunk_key_S, E1, E2. auto.
Qed.

(* ---- the chunked loop with storage ---- *)
Definition cur_ok (g : eng) : Prop :=
  cm_rchains (g_pos g) <> [] /\ cm_rchains (g_info g) <> [] /\
  cm_rchains (g_kst g) <> [] /\ cm_rchains (g_q g) <> [].

Definition appended (g : eng) (fin : key * einfo * KS * St) (chunks : list (list outcome)) : eng :=
  let '(k, _, ks, ms) := fin in
  mkEng k ks ms
    (cm_upd (g_pos g) (fun ch => ec_appends ch (map (map o_pos) chunks)))
    (cm_upd (g_info g) (fun ch => ec_appends ch (map (map o_infos) chunks)))
    (if store_ks then cm_upd (g_kst g) (fun ch => ec_appends ch (map (map o_ks) chunks)) else g_kst g)
    (if has_gens then cm_upd (g_q g) (fun ch => ec_appends ch (map (map o_quants) chunks)) else g_q g).

Lemma sample_loop_spec n c ei g : cur_ok g ->
  sample_loop n c ei g =
  Some (snd (fst (fst (fst (loop_outs n c (g_key g) ei (g_ks g) (g_ms g))))),
        appended g (fst (loop_outs n c (g_key g) ei (g_ks g) (g_ms g)))
                   (snd (loop_outs n c (g_key g) ei (g_ks g) (g_ms g)))).
Proof.
  revert ei g; induction n as [|n IH]; intros ei g (H1 & H2 & H3 & H4).
  - cbn [Thin.sample_loop loop_outs fst snd appended map]. rewrite !cm_upd_nil.
    destruct g; cbn. destruct store_ks, has_gens; reflexivity.
  - cbn [Thin.sample_loop loop_outs]. unfold Thin.sample_chunk.
    destruct (scan (chunk_keys c (g_key g)) ei (g_ks g) (g_ms g)) as [[[ei' ks'] ms'] outs].
    rewrite (cm_append_upd (g_pos g)) by assumption.
    rewrite (cm_append_upd (g_info g)) by assumption.
    assert (Ek : opt_append store_ks (g_kst g) (map o_ks outs)
                 = Some (if store_ks then cm_upd (g_kst g) (fun ch => ec_append ch (map o_ks outs)) else g_kst g)).
    { unfold opt_append. destruct store_ks; [now apply cm_append_upd|reflexivity]. }
    assert (Eq : opt_append has_gens (g_q g) (map o_quants outs)
                 = Some (if has_gens then cm_upd (g_q g) (fun ch => ec_append ch (map o_quants outs)) else g_q g)).
    { unfold opt_append. destruct has_gens; [now apply cm_append_upd|reflexivity]. }
    rewrite Ek, Eq. clear Ek Eq.
    match goal with |- Thin.sample_loop _ _ _ _ _ n c ei' ?G = _ => set (g1 := G) end.
    assert (Hok : cur_ok g1).
    { unfold cur_ok, g1. cbn [g_pos g_info g_kst g_q]. repeat split.
      - now apply cm_upd_nonempty. - now apply cm_upd_nonempty.
      - destruct store_ks; [now apply cm_upd_nonempty|assumption].
      - destruct has_gens; [now apply cm_upd_nonempty|assumption]. }
    rewrite (IH ei' g1 Hok). subst g1. cbn [g_key g_ks g_ms g_pos g_info g_kst g_q].
    destruct (loop_outs n c (ksplit (g_key g) (S c) 0) ei' ks' ms') as [[[[kf eif] ksf] msf] rest].
    cbn [fst snd appended map g_pos g_info g_kst g_q].
    rewrite !cm_upd_upd.
    destruct store_ks, has_gens; rewrite ?cm_upd_upd; reflexivity.
Qed.

(* ---- one epoch ---- *)
Definition wf (g : eng) : Prop :=
  cm_thin (g_pos g) = true /\ cm_thin (g_info g) = false /\
  cm_thin (g_kst g) = false /\ cm_thin (g_q g) = true.

(* what each chain manager must hold for an epoch, as a function of the chunk-free record *)
Definition pos_sem (r : erec) : econf * option (list P) :=
  (er_cfg r, get_spec true (thin (er_cfg r)) (map o_pos (er_outs r))).
Definition info_sem (r : erec) : econf * option (list (list I)) :=
  (er_cfg r, Some (map o_infos (er_outs r))).
Definition kst_sem (r : erec) : econf * option (list KS) :=
  (er_cfg r, if store_ks then Some (map o_ks (er_outs r)) else None).
Definition q_sem (r : erec) : econf * option (list (list Q)) :=
  (er_cfg r, if has_gens then get_spec true (thin (er_cfg r)) (map o_quants (er_outs r)) else None).

Lemma map_map_nonnil {X Y} (f : X -> Y) (l : list (list X)) : l <> [] -> map (map f) l <> [].
Proof. destruct l; [congruence|discriminate]. Qed.

Lemma run_epoch_spec c g es :
  wf g -> is_init (ety_ (cfg es)) = false -> 1 <= dur (cfg es) -> (0 < c)%nat ->
  dur (cfg es) mod Z.of_nat c = 0 ->
  exists g', run_epoch c g es = Some g' /\ wf g' /\
    (g_key g', g_ks g', g_ms g') = fst (spec_epoch c (g_key g, g_ks g, g_ms g) es) /\
    let rec := snd (spec_epoch c (g_key g, g_ks g, g_ms g) es) in
    cm_sem (g_pos g') = cm_sem (g_pos g) ++ [pos_sem rec] /\
    cm_sem (g_info g') = cm_sem (g_info g) ++ [info_sem rec] /\
    cm_sem (g_kst g') = cm_sem (g_kst g) ++ [kst_sem rec] /\
    cm_sem (g_q g') = cm_sem (g_q g) ++ [q_sem rec] /\
    er_cfg rec = cfg es /\ er_idx rec = nth_ep es /\
    length (er_outs rec) = Z.to_nat (dur (cfg es)).
Proof.
  intros (W1 & W2 & W3 & W4) Hni Hd Hc Hm.
  unfold Thin.run_epoch, Thin.spec_epoch. rewrite Hni.
  cbn [advance_all g_key g_ks g_ms g_pos g_info g_kst g_q].
  destruct (pre_hook (g_key g) (nth_ep es) (cfg es) (g_ks g) (g_ms g)) as [k1 ks1].
  unfold Thin.sample_for_duration. cbn [ei_cfg].
  destruct (c =? 0)%nat eqn:Ec0; [apply Nat.eqb_eq in Ec0; lia|].
  rewrite Hm. cbn [Z.eqb].
  set (nch := Z.to_nat (dur (cfg es) / Z.of_nat c)).
  set (ei0 := mkEI (nth_ep es) (cfg es) (t0 es) 0).
  rewrite sample_loop_spec by (unfold cur_ok; cbn; repeat split; discriminate).
  cbn [g_key g_ks g_ms g_pos g_info g_kst g_q].
  assert (Hn : (nch * c)%nat = Z.to_nat (dur (cfg es))).
  { unfold nch. pose proof (Z_div_exact_full_2 (dur (cfg es)) (Z.of_nat c) ltac:(lia) Hm) as E.
    assert (0 <= dur (cfg es) / Z.of_nat c) by (apply Z.div_pos; lia).
    apply Nat2Z.inj. rewrite Nat2Z.inj_mul, !Z2Nat.id by lia. lia. }
  assert (Hnch : (1 <= nch)%nat).
  { destruct nch; [|lia]. cbn in Hn. lia. }
  pose proof (loop_outs_flat nch c k1 ei0 ks1 (g_ms g)) as HF.
  rewrite flat_keys_it in HF by assumption. rewrite Hn in HF.
  pose proof (scan_length (map (it_key c k1) (seq 0 (Z.to_nat (dur (cfg es))))) ei0 ks1 (g_ms g)) as HSL.
  destruct (scan (map (it_key c k1) (seq 0 (Z.to_nat (dur (cfg es))))) ei0 ks1 (g_ms g))
    as [[[eiF ksF] msF] outs].
  pose proof (loop_outs_length nch c k1 ei0 ks1 (g_ms g)) as HL.
  destruct (loop_outs nch c k1 ei0 ks1 (g_ms g)) as [[[[kf eif] ksf] msf] chunks].
  cbn [fst snd] in *. destruct HF as [HF1 HF2]. inversion HF1; subst kf eif ksf msf. clear HF1.
  assert (Hne : chunks <> []) by (destruct chunks; [cbn in HL; lia|discriminate]).
  unfold appended. cbn [g_key g_ks g_ms g_pos g_info g_kst g_q].
  rewrite cur_get_upd by (now apply map_map_nonnil).
  rewrite <- concat_map, HF2, W1.
  replace (Z.to_nat (dur (cfg es)) / c)%nat with nch by (rewrite <- Hn; now rewrite Nat.div_mul by lia).
  destruct (post_hook (chunk_key c k1 nch) (nth_ep es) (cfg es)
              (get_spec true (thin (cfg es)) (map o_pos outs)) ksF msF) as [k4 ks4].
  eexists. split; [reflexivity|].
  cbn [g_key g_ks g_ms g_pos g_info g_kst g_q fst snd er_cfg er_idx er_outs].
  split.
  { unfold wf. cbn [g_pos g_info g_kst g_q]. destruct store_ks, has_gens; cbn; auto. }
  split; [reflexivity|].
  unfold pos_sem, info_sem, kst_sem, q_sem. cbn [er_cfg er_outs].
  rewrite !cm_sem_advance_upd by (now apply map_map_nonnil).
  rewrite <- !concat_map, HF2, W1, W2.
  repeat split.
  - destruct store_ks.
    + rewrite cm_sem_advance_upd by (now apply map_map_nonnil). now rewrite <- concat_map, HF2, W3.
    + now rewrite cm_sem_advance.
  - destruct has_gens.
    + rewrite cm_sem_advance_upd by (now apply map_map_nonnil). now rewrite <- concat_map, HF2, W4.
    + now rewrite cm_sem_advance.
  - cbn [snd] in HSL. now rewrite HSL, map_length, seq_length.
Qed.

(* ---- the initial-values epoch ---- *)
Lemma cm_advance_append1 {B} (m : cmgr B) cfg (x : B) : thin cfg = 1 ->
  exists m', cm_append (cm_advance m cfg) [x] = Some m' /\ cm_thin m' = cm_thin m /\
             cm_sem m' = cm_sem m ++ [(cfg, Some [x])].
Proof.
  intros Hth. rewrite cm_append_upd by (cbn; discriminate). eexists. split; [reflexivity|]. split; [reflexivity|].
  change (fun c : echain B => ec_append c [x]) with (fun c : echain B => ec_appends c [[x]]).
  rewrite cm_sem_advance_upd by discriminate. unfold get_spec. rewrite Hth.
  change (1 <? 1) with false. rewrite andb_false_r. cbn [concat app]. reflexivity.
Qed.

Lemma init_epoch_spec c g c0 idx t :
  wf g -> is_init (ety_ c0) = true -> thin c0 = 1 ->
  exists g', run_epoch c g (mkS c0 idx t) = Some g' /\ wf g' /\
    g_key g' = (if has_gens then fst (gen_init gens (g_key g) (mkEI idx c0 t 1) (g_ms g)) else g_key g) /\
    g_ks g' = g_ks g /\ g_ms g' = g_ms g /\
    cm_sem (g_pos g') = cm_sem (g_pos g) ++ [(c0, Some [extract tk (g_ms g)])] /\
    cm_sem (g_info g') = cm_sem (g_info g) ++ [(c0, None)] /\
    cm_sem (g_kst g') = cm_sem (g_kst g) ++ [(c0, if store_ks then Some [g_ks g] else None)] /\
    cm_sem (g_q g') = cm_sem (g_q g) ++
      [(c0, if has_gens then Some [snd (gen_init gens (g_key g) (mkEI idx c0 t 1) (g_ms g))] else None)].
Proof.
  intros (W1 & W2 & W3 & W4) Hi Hth.
  unfold Thin.run_epoch. cbn [cfg nth_ep t0]. rewrite Hi. unfold Thin.init_epoch.
  cbn [advance_all g_key g_ks g_ms g_pos g_info g_kst g_q cfg nth_ep t0].
  destruct (cm_advance_append1 (g_pos g) c0 (extract tk (g_ms g)) Hth) as (p' & Ep & Tp & Sp).
  rewrite Ep.
  assert (Ek : exists k', opt_append store_ks (cm_advance (g_kst g) c0) [g_ks g] = Some k' /\ cm_thin k' = false /\
             cm_sem k' = cm_sem (g_kst g) ++ [(c0, if store_ks then Some [g_ks g] else None)]).
  { unfold opt_append. destruct store_ks.
    - destruct (cm_advance_append1 (g_kst g) c0 (g_ks g) Hth) as (k' & E1 & E2 & E3).
      exists k'. rewrite E2. auto.
    - eexists. split; [reflexivity|]. split; [exact W3|]. apply cm_sem_advance. }
  destruct Ek as (k' & Ek & Tk & Sk). rewrite Ek.
  destruct has_gens eqn:Eg.
  - destruct (gen_init gens (g_key g) (mkEI idx c0 t 1) (g_ms g)) as [key' qs].
    destruct (cm_advance_append1 (g_q g) c0 qs Hth) as (q' & Eq & Tq & Sq). rewrite Eq.
    eexists. split; [reflexivity|]. cbn [g_key g_ks g_ms g_pos g_info g_kst g_q fst snd].
    split; [unfold wf; cbn [g_pos g_info g_kst g_q]; rewrite Tp, Tk, Tq; auto|].
    repeat split; try assumption. apply cm_sem_advance.
  - eexists. split; [reflexivity|]. cbn [g_key g_ks g_ms g_pos g_info g_kst g_q fst snd].
    split; [unfold wf; cbn [g_pos g_info g_kst g_q]; rewrite Tp, Tk; auto|].
    repeat split; try assumption; apply cm_sem_advance.
Qed.

(* ---- all epochs ---- *)
Definition epoch_ok (c : nat) (e : econf) : Prop :=
  is_init (ety_ e) = false /\ 1 <= dur e /\ dur e mod Z.of_nat c = 0.

Lemma run_epochs_spec c : (0 < c)%nat -> forall l idx t g, wf g -> Forall (epoch_ok c) l ->
  exists g', run_epochs c idx t l g = Some g' /\ wf g' /\
    let recs := spec_epochs c idx t l (g_key g, g_ks g, g_ms g) in
    cm_sem (g_pos g') = cm_sem (g_pos g) ++ map pos_sem recs /\
    cm_sem (g_info g') = cm_sem (g_info g) ++ map info_sem recs /\
    cm_sem (g_kst g') = cm_sem (g_kst g) ++ map kst_sem recs /\
    cm_sem (g_q g') = cm_sem (g_q g) ++ map q_sem recs /\
    map er_cfg recs = l /\
    Forall (fun r => length (er_outs r) = Z.to_nat (dur (er_cfg r))) recs.
Proof.
  intros Hc. induction l as [|e r IH]; intros idx t g Hwf HF.
  - exists g. cbn. rewrite !app_nil_r. auto 10.
  - inversion HF as [|? ? (Hni & Hd & Hm) HF']; subst.
    destruct (run_epoch_spec c g (mkS e idx t) Hwf Hni Hd Hc Hm)
      as (g1 & E1 & Wf1 & Est & Sp & Si & Sk & Sq & Ec & _ & El).
    cbn [Thin.run_epochs Thin.spec_epochs]. rewrite E1.
    destruct (spec_epoch c (g_key g, g_ks g, g_ms g) (mkS e idx t)) as [st' rec].
    cbn [fst snd cfg] in *. subst st'.
    destruct (IH (S idx) (t + dur e) g1 Wf1 HF') as (g' & E' & Wf' & Sp' & Si' & Sk' & Sq' & Ec' & El').
    exists g'. split; [exact E'|]. split; [exact Wf'|]. cbn zeta in *. cbn [map].
    rewrite Sp', Si', Sk', Sq', Sp, Si, Sk, Sq, <- !app_assoc. cbn [app].
    repeat split; try reflexivity.
    + now rewrite Ec, Ec'.
    + constructor; [now rewrite Ec|exact El'].
Qed.

Lemma valid_cons_facts c0 rest : valid (c0 :: rest) = true ->
  is_init (ety_ c0) = true /\ dur c0 = 1 /\ thin c0 = 1 /\
  Forall (fun e => is_init (ety_ e) = false /\ 1 <= dur e /\ 1 <= thin e /\ thin e <= dur e
                   /\ (is_post (ety_ e) = true -> dur e mod thin e = 0)) rest.
Proof.
  unfold valid. intros H.
  apply andb_true_iff in H as [H Hnw]. apply andb_true_iff in H as [H Hok].
  apply andb_true_iff in H as [H Hni]. apply andb_true_iff in H as [Hi Hd].
  apply Z.eqb_eq in Hd. cbn [forallb] in Hok. apply andb_true_iff in Hok as [Hok0 Hok].
  split; [exact Hi|]. split; [exact Hd|].
  assert (forall e, cfg_ok e = true -> 1 <= dur e /\ 1 <= thin e /\ thin e <= dur e
                    /\ (is_post (ety_ e) = true -> dur e mod thin e = 0)) as Hcfg.
  { intros e He. unfold cfg_ok in He. apply andb_true_iff in He as [He H4].
    apply andb_true_iff in He as [He H3]. apply andb_true_iff in He as [H1 H2].
    apply Z.leb_le in H1, H2, H3. repeat split; try assumption.
    intros Hp. rewrite Hp in H4. now apply Z.eqb_eq in H4. }
  split; [destruct (Hcfg c0 Hok0) as (_ & ? & ? & _); lia|].
  apply Forall_forall. intros e He.
  rewrite forallb_forall in Hni, Hok. specialize (Hni e He). specialize (Hok e He).
  apply negb_true_iff in Hni. split; [exact Hni|]. now apply Hcfg.
Qed.

Theorem run_engine_spec c c0 rest seed ms :
  valid (c0 :: rest) = true -> (0 < c)%nat -> Forall (fun e => dur e mod Z.of_nat c = 0) rest ->
  exists g, run_engine c (c0 :: rest) seed ms = Some g /\
    let recs := spec_epochs c 1 1 rest (spec_init c0 seed ms) in
    cm_sem (g_pos g) = (c0, Some [extract tk ms]) :: map pos_sem recs /\
    cm_sem (g_info g) = (c0, None) :: map info_sem recs /\
    cm_sem (g_kst g) = (c0, if store_ks then Some [init_ks (ksplit seed 2 1) ms] else None) :: map kst_sem recs /\
    cm_sem (g_q g) = (c0, if has_gens
                          then Some [snd (gen_init gens (ksplit seed 2 0) (mkEI 0 c0 0 1) ms)]
                          else None) :: map q_sem recs /\
    map er_cfg recs = rest /\
    Forall (fun r => length (er_outs r) = Z.to_nat (dur (er_cfg r))) recs.
Proof.
  intros Hv Hc Hdiv. unfold Thin.run_engine. rewrite accepts_eq_valid, Hv.
  destruct (valid_cons_facts c0 rest Hv) as (Hi & Hd & Hth & Hrest).
  cbn [Thin.run_epochs].
  assert (Hwf0 : wf (eng0 init_ks seed ms)) by (unfold wf; cbn; auto).
  destruct (init_epoch_spec c (eng0 init_ks seed ms) c0 0 0 Hwf0 Hi Hth)
    as (g1 & E1 & Wf1 & Ek & Eks & Ems & Sp & Si & Sk & Sq).
  rewrite E1.
  assert (HF : Forall (epoch_ok c) rest).
  { apply Forall_forall. intros e He. rewrite Forall_forall in Hrest, Hdiv.
    destruct (Hrest e He) as (? & ? & _). unfold epoch_ok. auto. }
  destruct (run_epochs_spec c Hc rest 1%nat (0 + dur c0) g1 Wf1 HF)
    as (g' & E' & _ & Sp' & Si' & Sk' & Sq' & Ec' & El').
  exists g'. split; [exact E'|].
  cbn zeta in *. rewrite Hd in *. change (0 + 1) with 1 in *.
  assert (Est : (g_key g1, g_ks g1, g_ms g1) = spec_init c0 seed ms).
  { unfold Thin.spec_init. rewrite Ek, Eks, Ems. cbn [eng0 g_key g_ks g_ms]. reflexivity. }
  rewrite Est in *.
  rewrite Sp', Si', Sk', Sq', Sp, Si, Sk, Sq. cbn [eng0 g_pos g_info g_kst g_q g_key g_ks g_ms cm_new].
  unfold cm_sem, cm_chains. cbn [cm_rchains rev map app]. auto 10.
Qed.

(* ------------------------------------------------------------------------------------------- *)
(*  the accessors                                                                               *)
(* ------------------------------------------------------------------------------------------- *)
Definition stored_pos (r : erec) : list P := thin_spec (thin (er_cfg r)) (map o_pos (er_outs r)).
Definition stored_q (r : erec) : list (list Q) := thin_spec (thin (er_cfg r)) (map o_quants (er_outs r)).
Definition all_infos (r : erec) : list (list I) := map o_infos (er_outs r).
Definition all_ks (r : erec) : list KS := map o_ks (er_outs r).
Definition post_rec (r : erec) : bool := post_cfg (er_cfg r).

Lemma olist_get_spec {B} th (l : list B) : 1 <= th -> olist (get_spec true th l) = thin_spec th l.
Proof.
  intros Hth. unfold get_spec. cbn [andb]. destruct (1 <? th) eqn:E.
  - destruct (thin_spec th l); reflexivity.
  - apply Z.ltb_ge in E. assert (th = 1) by lia. subst. now rewrite thin_spec_one.
Qed.

Lemma get_spec_some {B} th (l : list B) : 1 <= th -> th <= Z.of_nat (length l) ->
  exists x, get_spec true th l = Some x.
Proof.
  intros H1 H2. unfold get_spec. cbn [andb]. destruct (1 <? th); [|eauto].
  pose proof (thin_spec_nonempty th l H1 H2). destruct (thin_spec th l); [congruence|eauto].
Qed.

Lemma filter_map_comm {X Y} (p : Y -> bool) (f : X -> Y) (l : list X) :
  filter p (map f l) = map f (filter (fun x => p (f x)) l).
Proof. induction l as [|x r IH]; [reflexivity|]. cbn. destruct (p (f x)); cbn; now rewrite IH. Qed.

(* epochs with thinning facts *)
Definition rec_ok (r : erec) : Prop :=
  1 <= thin (er_cfg r) /\ thin (er_cfg r) <= dur (er_cfg r) /\ 1 <= dur (er_cfg r) /\
  length (er_outs r) = Z.to_nat (dur (er_cfg r)).

Lemma combine_thinned {B} (f : erec -> list B) (recs : list erec) :
  Forall rec_ok recs -> (forall r, length (f r) = length (er_outs r)) ->
  combine_sem (map (fun r => (er_cfg r, get_spec true (thin (er_cfg r)) (f r))) recs)
  = match recs with [] => None | _ => Some (concat (map (fun r => thin_spec (thin (er_cfg r)) (f r)) recs)) end.
Proof.
  intros HF Hlen. destruct recs as [|r0 rs]; [reflexivity|].
  rewrite combine_sem_some.
  - f_equal. rewrite map_map. f_equal. apply map_ext_in. intros r Hr. cbn [snd].
    rewrite Forall_forall in HF. destruct (HF r Hr) as (H1 & _). now apply olist_get_spec.
  - inversion HF as [|? ? (H1 & H2 & H3 & H4) _]; subst.
    destruct (get_spec_some (thin (er_cfg r0)) (f r0) H1) as [x Hx]; [rewrite Hlen, H4; lia|].
    eexists _, x. split; [left; reflexivity|exact Hx].
Qed.

Lemma combine_plain {B} (f : erec -> list B) (recs : list erec) :
  combine_sem (map (fun r => (er_cfg r, Some (f r))) recs)
  = match recs with [] => None | _ => Some (concat (map f recs)) end.
Proof.
  destruct recs as [|r0 rs]; [reflexivity|]. rewrite combine_sem_some.
  - f_equal. now rewrite map_map.
  - eexists _, (f r0). split; [left; reflexivity|reflexivity].
Qed.

Lemma combine_sem_cons {B} c0 (x : list B) l :
  combine_sem ((c0, Some x) :: l) = Some (x ++ match combine_sem l with Some y => y | None => [] end).
Proof.
  change ((c0, Some x) :: l) with ([(c0, Some x)] ++ l). rewrite combine_sem_app.
  change (combine_sem [(c0, Some x)]) with (Some (x ++ [])). rewrite app_nil_r.
  destruct (combine_sem l); [reflexivity|now rewrite app_nil_r].
Qed.

Lemma combine_sem_cons_none {B} c0 (l : list (econf * option (list B))) :
  combine_sem ((c0, None) :: l) = combine_sem l.
Proof. reflexivity. Qed.

(* the records of a valid schedule *)
Lemma recs_ok_of_valid rest (recs : list erec) :
  Forall (fun e => is_init (ety_ e) = false /\ 1 <= dur e /\ 1 <= thin e /\ thin e <= dur e
                   /\ (is_post (ety_ e) = true -> dur e mod thin e = 0)) rest ->
  map er_cfg recs = rest ->
  Forall (fun r => length (er_outs r) = Z.to_nat (dur (er_cfg r))) recs ->
  Forall rec_ok recs.
Proof.
  intros Hrest Ec El. rewrite <- Ec in Hrest. rewrite Forall_map in Hrest.
  rewrite Forall_forall in *. intros r Hr. destruct (Hrest r Hr) as (_ & ? & ? & ? & _).
  unfold rec_ok. auto using El.
Qed.

Lemma spec_epochs_outcomes c l : forall idx t st,
  Forall (fun r => Forall (fun o => o_pos o = extract tk (o_ms o) /\ length (o_infos o) = length kernels) (er_outs r))
         (spec_epochs c idx t l st).
Proof.
  induction l as [|e r IH]; intros idx t st; cbn [Thin.spec_epochs]; [constructor|].
  destruct (spec_epoch c st (mkS e idx t)) as [st' rec] eqn:E. constructor; [|apply IH].
  unfold Thin.spec_epoch in E. destruct st as [[k ks] ms].
  destruct (pre_hook k (nth_ep (mkS e idx t)) (cfg (mkS e idx t)) ks ms) as [k1 ks1].
  pose proof (scan_outcomes (map (it_key c k1) (seq 0 (Z.to_nat (dur (cfg (mkS e idx t))))))
                (mkEI (nth_ep (mkS e idx t)) (cfg (mkS e idx t)) (t0 (mkS e idx t)) 0) ks1 ms) as HS.
  destruct (scan (map (it_key c k1) (seq 0 (Z.to_nat (dur (cfg (mkS e idx t))))))
                (mkEI (nth_ep (mkS e idx t)) (cfg (mkS e idx t)) (t0 (mkS e idx t)) 0) ks1 ms)
    as [[[eiF ksF] msF] outs].
  destruct (post_hook _ _ _ _ ksF msF) as [k2 ks2]. inversion E; subst. exact HS.
Qed.

Section Accessors.
Variables (c : nat) (c0 : econf) (rest : list econf) (seed : key) (ms : St).
Hypothesis Hvalid : valid (c0 :: rest) = true.
Hypothesis Hc : (0 < c)%nat.
Hypothesis Hdiv : Forall (fun e => dur e mod Z.of_nat c = 0) rest.

Let recs := spec_epochs c 1 1 rest (spec_init c0 seed ms).
Let qinit := snd (gen_init gens (ksplit seed 2 0) (mkEI 0 c0 0 1) ms).

Lemma c0_not_post : post_cfg c0 = false.
Proof.
  destruct (valid_cons_facts c0 rest Hvalid) as (Hi & _). unfold post_cfg.
  destruct (ety_ c0); cbn in *; congruence.
Qed.

Theorem accessors_spec :
  exists g, run_engine c (c0 :: rest) seed ms = Some g /\
    map er_cfg recs = rest /\ Forall rec_ok recs /\
    get_samples g = Some (extract tk ms :: concat (map stored_pos recs)) /\
    get_posterior_samples g =
      match filter post_rec recs with [] => None | l => Some (concat (map stored_pos l)) end /\
    get_infos g = match recs with [] => None | _ => Some (concat (map all_infos recs)) end /\
    get_posterior_infos g =
      match filter post_rec recs with [] => None | l => Some (concat (map all_infos l)) end /\
    get_kstates store_ks g =
      (if store_ks then Some (Some (init_ks (ksplit seed 2 1) ms :: concat (map all_ks recs))) else None) /\
    get_quants gens g =
      (if has_gens then Some (Some (qinit :: concat (map stored_q recs))) else None) /\
    get_posterior_quants gens g =
      (if has_gens
       then Some (match filter post_rec recs with [] => None | l => Some (concat (map stored_q l)) end)
       else None).
Proof.
  destruct (run_engine_spec c c0 rest seed ms Hvalid Hc Hdiv) as (g & Eg & Sp & Si & Sk & Sq & Ec & El).
  fold recs in Sp, Si, Sk, Sq, Ec, El. fold qinit in Sq.
  destruct (valid_cons_facts c0 rest Hvalid) as (Hi & Hd & Hth & Hrest).
  pose proof (recs_ok_of_valid rest recs Hrest Ec El) as Hok.
  pose proof c0_not_post as Hnp.
  assert (Hokf : Forall rec_ok (filter post_rec recs)).
  { rewrite Forall_forall in *. intros r Hr. apply filter_In in Hr. now apply Hok. }
  exists g. split; [exact Eg|]. split; [exact Ec|]. split; [exact Hok|].
  unfold get_samples, get_posterior_samples, get_infos, get_posterior_infos, get_kstates, get_quants,
         get_posterior_quants.
  rewrite !combine_all_sem, !combine_filtered_sem, Sp, Si, Sk, Sq. cbn [filter fst]. rewrite Hnp.
  rewrite !filter_map_comm. unfold pos_sem, info_sem, kst_sem, q_sem. cbn [fst].
  change (fun x : erec => post_cfg (er_cfg x)) with post_rec.
  repeat split.
  - rewrite combine_sem_cons, (combine_thinned (fun r => map o_pos (er_outs r)) recs Hok) by (intros; apply map_length).
    unfold stored_pos. destruct recs; reflexivity.
  - rewrite (combine_thinned (fun r => map o_pos (er_outs r)) _ Hokf) by (intros; apply map_length).
    unfold stored_pos. destruct (filter post_rec recs); reflexivity.
  - rewrite combine_sem_cons_none. apply (combine_plain all_infos).
  - rewrite (combine_plain all_infos). destruct (filter post_rec recs); reflexivity.
  - destruct store_ks; [|reflexivity]. rewrite combine_sem_cons, (combine_plain all_ks).
    destruct recs; reflexivity.
  - destruct has_gens; [|reflexivity]. rewrite combine_sem_cons.
    rewrite (combine_thinned (fun r => map o_quants (er_outs r)) recs Hok) by (intros; apply map_length).
    unfold stored_q. destruct recs; reflexivity.
  - destruct has_gens; [|reflexivity].
    rewrite (combine_thinned (fun r => map o_quants (er_outs r)) _ Hokf) by (intros; apply map_length).
    unfold stored_q. destruct (filter post_rec recs); reflexivity.
Qed.
End Accessors.

(* ------------------------------------------------------------------------------------------- *)
(*  the trajectory: every outcome is one full iteration applied to its predecessor's carry      *)
(* ------------------------------------------------------------------------------------------- *)
Fixpoint traj_ok (keys : list key) (ei : einfo) (ks : KS) (ms : St) (outs : list outcome) : Prop :=
  match keys, outs with
  | [], [] => True
  | k :: kr, o :: orest =>
      o = iter_step k ei ks ms /\ traj_ok kr (advance ei) (o_ks o) (o_ms o) orest
  | _, _ => False
  end.

Lemma scan_traj keys ei ks ms : traj_ok keys ei ks ms (snd (scan keys ei ks ms)).
Proof.
  revert ei ks ms; induction keys as [|k r IH]; intros ei ks ms; cbn [Thin.scan]; [exact Logic.I|].
  specialize (IH (advance ei) (o_ks (iter_step k ei ks ms)) (o_ms (iter_step k ei ks ms))).
  destruct (scan r (advance ei) (o_ks (iter_step k ei ks ms)) (o_ms (iter_step k ei ks ms))) as [[[ei1 ks1] ms1] o1].
  cbn [snd traj_ok] in *. auto.
Qed.

(* the records of the specification are such trajectories, started after the pre-hook *)
Lemma spec_epoch_traj c k ks ms es :
  let r := snd (spec_epoch c (k, ks, ms) es) in
  let k1 := fst (pre_hook k (nth_ep es) (cfg es) ks ms) in
  let ks1 := snd (pre_hook k (nth_ep es) (cfg es) ks ms) in
  traj_ok (map (it_key c k1) (seq 0 (Z.to_nat (dur (cfg es)))))
          (mkEI (nth_ep es) (cfg es) (t0 es) 0) ks1 ms (er_outs r).
Proof.
  unfold Thin.spec_epoch. destruct (pre_hook k (nth_ep es) (cfg es) ks ms) as [k1 ks1]. cbn [fst snd].
  pose proof (scan_traj (map (it_key c k1) (seq 0 (Z.to_nat (dur (cfg es)))))
                (mkEI (nth_ep es) (cfg es) (t0 es) 0) ks1 ms) as HT.
  destruct (scan (map (it_key c k1) (seq 0 (Z.to_nat (dur (cfg es)))))
                (mkEI (nth_ep es) (cfg es) (t0 es) 0) ks1 ms) as [[[eiF ksF] msF] outs].
  destruct (post_hook _ _ _ _ ksF msF) as [k2 ks2]. exact HT.
Qed.

(* ------------------------------------------------------------------------------------------- *)
(*  chunk independence for key-ignoring kernels                                                 *)
(* ------------------------------------------------------------------------------------------- *)
Section KeyIgnoring.
Hypothesis Hk : forall ker, In ker kernels ->
  forall k1 k2 ei ks ms, k_trans ker k1 ei ks ms = k_trans ker k2 ei ks ms.
Hypothesis Hg : forall g, In g gens -> forall k1 k2 ei ms, g k1 ei ms = g k2 ei ms.
Hypothesis Hpre : forall k1 k2 i e ks ms, snd (pre_hook k1 i e ks ms) = snd (pre_hook k2 i e ks ms).
Hypothesis Hpost : forall k1 k2 i e h ks ms,
  snd (post_hook k1 i e h ks ms) = snd (post_hook k2 i e h ks ms).

Lemma seq_trans_indep k1 k2 n i (kers : list (@kernel St I KS)) ei ks ms :
  (forall ker, In ker kers -> In ker kernels) ->
  seq_trans k1 n i kers ei ks ms = seq_trans k2 n i kers ei ks ms.
Proof.
  revert i ks ms; induction kers as [|ker r IH]; intros i ks ms Hin; cbn [seq_trans]; [reflexivity|].
  rewrite (Hk ker (Hin ker (or_introl eq_refl)) (ksplit k1 n i) (ksplit k2 n i)).
  destruct (k_trans ker (ksplit k2 n i) ei ks ms) as [[inf ks1] ms1].
  rewrite IH by (intros; apply Hin; now right). reflexivity.
Qed.

Lemma gen_all_indep k1 k2 n i (gs : list (key -> einfo -> St -> Q)) ei ms :
  (forall g, In g gs -> In g gens) -> gen_all k1 n i gs ei ms = gen_all k2 n i gs ei ms.
Proof.
  revert i; induction gs as [|g r IH]; intros i Hin; cbn [gen_all]; [reflexivity|].
  rewrite (Hg g (Hin g (or_introl eq_refl)) (ksplit k1 n i) (ksplit k2 n i)).
  rewrite IH by (intros; apply Hin; now right). reflexivity.
Qed.

Lemma iter_step_indep k1 k2 ei ks ms : iter_step k1 ei ks ms = iter_step k2 ei ks ms.
Proof.
  unfold Thin.iter_step. rewrite (seq_trans_indep (ksplit k1 2 0) (ksplit k2 2 0)) by auto.
  destruct (seq_trans (ksplit k2 2 0) (length kernels) 0 kernels ei ks ms) as [[infs ks'] ms'].
  now rewrite (gen_all_indep (ksplit k1 2 1) (ksplit k2 2 1)) by auto.
Qed.

Lemma scan_indep keys1 : forall keys2 ei ks ms, length keys1 = length keys2 ->
  scan keys1 ei ks ms = scan keys2 ei ks ms.
Proof.
  induction keys1 as [|k1 r1 IH]; intros [|k2 r2] ei ks ms Hl; cbn in Hl; try discriminate; [reflexivity|].
  cbn [Thin.scan]. rewrite (iter_step_indep k1 k2). now rewrite (IH r2) by lia.
Qed.

Lemma spec_epoch_indep c1 c2 k1 k2 ks ms es :
  snd (spec_epoch c1 (k1, ks, ms) es) = snd (spec_epoch c2 (k2, ks, ms) es)
  /\ snd (fst (spec_epoch c1 (k1, ks, ms) es)) = snd (fst (spec_epoch c2 (k2, ks, ms) es))
  /\ snd (fst (fst (spec_epoch c1 (k1, ks, ms) es))) = snd (fst (fst (spec_epoch c2 (k2, ks, ms) es))).
Proof.
  unfold Thin.spec_epoch.
  pose proof (Hpre k1 k2 (nth_ep es) (cfg es) ks ms) as Hp.
  destruct (pre_hook k1 (nth_ep es) (cfg es) ks ms) as [ka ksa].
  destruct (pre_hook k2 (nth_ep es) (cfg es) ks ms) as [kb ksb]. cbn [snd] in Hp. subst ksb.
  rewrite (scan_indep (map (it_key c1 ka) (seq 0 (Z.to_nat (dur (cfg es)))))
                      (map (it_key c2 kb) (seq 0 (Z.to_nat (dur (cfg es))))))
    by (now rewrite !map_length).
  destruct (scan (map (it_key c2 kb) (seq 0 (Z.to_nat (dur (cfg es)))))
                 (mkEI (nth_ep es) (cfg es) (t0 es) 0) ksa ms) as [[[eiF ksF] msF] outs].
  set (H := get_spec true (thin (cfg es)) (map o_pos outs)).
  set (K1 := chunk_key c1 ka (Z.to_nat (dur (cfg es)) / c1)).
  set (K2 := chunk_key c2 kb (Z.to_nat (dur (cfg es)) / c2)).
  pose proof (Hpost K1 K2 (nth_ep es) (cfg es) H ksF msF) as Hq.
  destruct (post_hook K1 (nth_ep es) (cfg es) H ksF msF) as [kx ksx].
  destruct (post_hook K2 (nth_ep es) (cfg es) H ksF msF) as [ky ksy].
  cbn [fst snd] in *. subst. auto.
Qed.

Lemma spec_epochs_indep c1 c2 l : forall idx t k1 k2 ks ms,
  spec_epochs c1 idx t l (k1, ks, ms) = spec_epochs c2 idx t l (k2, ks, ms).
Proof.
  induction l as [|e r IH]; intros idx t k1 k2 ks ms; cbn [Thin.spec_epochs]; [reflexivity|].
  destruct (spec_epoch_indep c1 c2 k1 k2 ks ms (mkS e idx t)) as (E1 & E2 & E3).
  destruct (spec_epoch c1 (k1, ks, ms) (mkS e idx t)) as [[[ka ksa] msa] ra].
  destruct (spec_epoch c2 (k2, ks, ms) (mkS e idx t)) as [[[kb ksb] msb] rb].
  cbn [fst snd] in *. subst. f_equal. apply IH.
Qed.

Definition results (g : eng) :=
  (get_samples g, get_posterior_samples g, get_infos g, get_posterior_infos g,
   get_kstates store_ks g, get_quants gens g, get_posterior_quants gens g).

Theorem chunk_independent c1 c2 c0 rest seed ms :
  valid (c0 :: rest) = true -> (0 < c1)%nat -> (0 < c2)%nat ->
  Forall (fun e => dur e mod Z.of_nat c1 = 0) rest ->
  Forall (fun e => dur e mod Z.of_nat c2 = 0) rest ->
  exists g1 g2, run_engine c1 (c0 :: rest) seed ms = Some g1 /\
                run_engine c2 (c0 :: rest) seed ms = Some g2 /\
                results g1 = results g2.
Proof.
  intros Hv H1 H2 D1 D2.
  destruct (accessors_spec c1 c0 rest seed ms Hv H1 D1) as (g1 & E1 & _ & _ & A1 & A2 & A3 & A4 & A5 & A6 & A7).
  destruct (accessors_spec c2 c0 rest seed ms Hv H2 D2) as (g2 & E2 & _ & _ & B1 & B2 & B3 & B4 & B5 & B6 & B7).
  exists g1, g2. split; [exact E1|]. split; [exact E2|]. unfold results.
  rewrite A1, A2, A3, A4, A5, A6, A7, B1, B2, B3, B4, B5, B6, B7.
  destruct (spec_init c0 seed ms) as [[k ks] ms'].
  now rewrite (spec_epochs_indep c1 c2 rest 1 1 k k ks ms').
Qed.
End KeyIgnoring.

End EngineProofs.

(* ------------------------------------------------------------------------------------------- *)
(*  tracked keys (builder + Engine.__init__)                                                    *)
(* ------------------------------------------------------------------------------------------- *)
Lemma mem_str_In k l : mem_str k l = true <-> In k l.
Proof.
  unfold mem_str. rewrite existsb_exists. split.
  - intros (x & Hx & E). apply String.eqb_eq in E. now subst.
  - intros H. exists k. split; [assumption|apply String.eqb_refl].
Qed.

Lemma builder_keys_In kk incl excl k :
  In k (builder_keys kk incl excl) <-> (In k kk \/ In k incl) /\ ~ In k excl.
Proof.
  unfold builder_keys. rewrite filter_In, in_app_iff, negb_true_iff.
  split; intros [H1 H2]; split; try assumption.
  - intros Hin. apply mem_str_In in Hin. congruence.
  - destruct (mem_str k excl) eqn:E; [|reflexivity]. apply mem_str_In in E. contradiction.
Qed.

Theorem tracked_keys_spec kk incl excl k : builder_keys kk incl excl <> [] ->
  (In k (tracked_keys kk incl excl) <-> (In k kk \/ In k incl) /\ ~ In k excl).
Proof.
  intros Hne. unfold tracked_keys, engine_keys.
  destruct (builder_keys kk incl excl) eqn:E; [congruence|]. rewrite <- E. apply builder_keys_In.
Qed.

(* the corner where the selection is empty: the engine silently tracks every kernel key *)
Theorem tracked_keys_empty_selection kk incl excl :
  builder_keys kk incl excl = [] -> tracked_keys kk incl excl = kk.
Proof. intros E. unfold tracked_keys. now rewrite E. Qed.

Theorem tracked_keys_all_excluded_refuted :
  exists kk incl excl k, In k excl /\ In k (tracked_keys kk incl excl).
Proof.
  exists ["p1"%string; "p2"%string], [], ["p1"%string; "p2"%string], "p1"%string.
  split; [now left|]. vm_compute. now left.
Qed.

(* ------------------------------------------------------------------------------------------- *)
(*  the builder's chunk length is admissible                                                    *)
(* ------------------------------------------------------------------------------------------- *)
Lemma fold_gcd_nonneg l a : 0 <= a -> 0 <= fold_left Z.gcd l a.
Proof. revert a; induction l as [|x r IH]; intros a Ha; cbn; [assumption|]. apply IH, Z.gcd_nonneg. Qed.

Theorem builder_chunk_ok c0 rest : valid (c0 :: rest) = true -> rest <> [] ->
  let c := Z.to_nat (chunk_len (c0 :: rest)) in
  (0 < c)%nat /\ Forall (fun e => dur e mod Z.of_nat c = 0) rest.
Proof.
  intros Hv Hne. destruct (valid_cons_facts c0 rest Hv) as (_ & _ & _ & Hrest).
  assert (Hnn : 0 <= chunk_len (c0 :: rest)) by (unfold chunk_len; apply fold_gcd_nonneg; lia).
  assert (Hdiv : forall e, In e rest -> (chunk_len (c0 :: rest) | dur e)).
  { intros e He. apply chunk_divides. exact He. }
  assert (Hpos : 0 < chunk_len (c0 :: rest)).
  { destruct rest as [|e r]; [congruence|]. inversion Hrest as [|? ? (_ & Hd & _) _]; subst.
    destruct (Hdiv e (or_introl eq_refl)) as [q Hq].
    destruct (Z.eq_dec (chunk_len (c0 :: e :: r)) 0) as [E0|]; [rewrite E0 in Hq; lia|lia]. }
  cbn zeta. split; [lia|]. apply Forall_forall. intros e He. rewrite Z2Nat.id by lia.
  apply Z.mod_divide; [lia|]. now apply Hdiv.
Qed.

(* ------------------------------------------------------------------------------------------- *)
(*  the property theorems, one statement each                                                   *)
(* ------------------------------------------------------------------------------------------- *)
Section EngineTheorems.
Context {St P I KS Q : Type}.
Variable kernels : list (@kernel St I KS).
Variable extract : list string -> St -> P.
Variable gens : list (key -> einfo -> St -> Q).
Variable pre_hook : key -> nat -> econf -> KS -> St -> key * KS.
Variable post_hook : key -> nat -> econf -> option (list P) -> KS -> St -> key * KS.
Variable init_ks : key -> St -> KS.
Variable store_ks : bool.
Variable tk : list string.
Variables (c : nat) (c0 : econf) (rest : list econf) (seed : key) (ms : St).
Hypothesis Hvalid : valid (c0 :: rest) = true.
Hypothesis Hc : (0 < c)%nat.
Hypothesis Hdiv : Forall (fun e => dur e mod Z.of_nat c = 0) rest.

Let recs : list (@erec St P I KS Q) :=
  spec_epochs kernels extract gens pre_hook post_hook tk c 1 1 rest (spec_init gens init_ks c0 seed ms).
Let run := run_engine kernels extract gens pre_hook post_hook init_ks store_ks tk c (c0 :: rest) seed ms.

Theorem chain_contents :
  exists g, run = Some g /\
    get_samples g = Some (extract tk ms :: concat (map stored_pos recs)) /\
    map er_cfg recs = rest /\
    Forall (fun r => length (er_outs r) = Z.to_nat (dur (er_cfg r)) /\
                     Forall (fun o => o_pos o = extract tk (o_ms o)) (er_outs r)) recs.
Proof.
  destruct (accessors_spec kernels extract gens pre_hook post_hook init_ks store_ks tk c c0 rest seed ms
              Hvalid Hc Hdiv) as (g & Eg & Ec & Hok & A1 & _).
  exists g. split; [exact Eg|]. split; [exact A1|]. split; [exact Ec|].
  pose proof (spec_epochs_outcomes kernels extract gens pre_hook post_hook tk c rest 1 1
                (spec_init gens init_ks c0 seed ms)) as HO.
  fold recs in Hok, HO |- *. rewrite Forall_forall in *. intros r Hr. split.
  - now destruct (Hok r Hr) as (_ & _ & _ & ?).
  - specialize (HO r Hr). rewrite Forall_forall in *. intros o Ho. now destruct (HO o Ho).
Qed.

Theorem infos_every_transition :
  exists g, run = Some g /\
    get_infos g = match recs with [] => None | _ => Some (concat (map all_infos recs)) end /\
    Forall (fun r => length (all_infos r) = Z.to_nat (dur (er_cfg r)) /\
                     Forall (fun i => length i = length kernels) (all_infos r)) recs /\
    get_kstates store_ks g =
      (if store_ks then Some (Some (init_ks (ksplit seed 2 1) ms :: concat (map all_ks recs))) else None) /\
    Forall (fun r => length (all_ks r) = Z.to_nat (dur (er_cfg r))) recs.
Proof.
  destruct (accessors_spec kernels extract gens pre_hook post_hook init_ks store_ks tk c c0 rest seed ms
              Hvalid Hc Hdiv) as (g & Eg & Ec & Hok & _ & _ & A3 & _ & A5 & _).
  exists g. split; [exact Eg|]. split; [exact A3|].
  pose proof (spec_epochs_outcomes kernels extract gens pre_hook post_hook tk c rest 1 1
                (spec_init gens init_ks c0 seed ms)) as HO.
  fold recs in Hok, HO |- *. split; [|split; [exact A5|]].
  - rewrite Forall_forall in *. intros r Hr. unfold all_infos. rewrite map_length. split.
    + now destruct (Hok r Hr) as (_ & _ & _ & ?).
    + specialize (HO r Hr). rewrite Forall_forall in *. intros i Hi. apply in_map_iff in Hi as (o & <- & Ho).
      now destruct (HO o Ho).
  - rewrite Forall_forall in *. intros r Hr. unfold all_ks. rewrite map_length.
    now destruct (Hok r Hr) as (_ & _ & _ & ?).
Qed.

Theorem posterior_accessor :
  exists g, run = Some g /\
    get_posterior_samples g =
      match filter post_rec recs with [] => None | l => Some (concat (map stored_pos l)) end /\
    get_posterior_infos g =
      match filter post_rec recs with [] => None | l => Some (concat (map all_infos l)) end /\
    get_posterior_quants gens g =
      (if has_gens gens
       then Some (match filter post_rec recs with [] => None | l => Some (concat (map stored_q l)) end)
       else None) /\
    map er_cfg (filter post_rec recs) = filter post_cfg rest.
Proof.
  destruct (accessors_spec kernels extract gens pre_hook post_hook init_ks store_ks tk c c0 rest seed ms
              Hvalid Hc Hdiv) as (g & Eg & Ec & Hok & _ & A2 & _ & A4 & _ & _ & A7).
  exists g. split; [exact Eg|]. split; [exact A2|]. split; [exact A4|]. split; [exact A7|].
  fold recs in Ec. rewrite <- Ec. unfold post_rec. now rewrite filter_map_comm.
Qed.

Theorem quantities_contents :
  exists g, run = Some g /\
    get_quants gens g =
      (if has_gens gens
       then Some (Some (snd (gen_init gens (ksplit seed 2 0) (mkEI 0 c0 0 1) ms) :: concat (map stored_q recs)))
       else None).
Proof.
  destruct (accessors_spec kernels extract gens pre_hook post_hook init_ks store_ks tk c c0 rest seed ms
              Hvalid Hc Hdiv) as (g & Eg & _ & _ & _ & _ & _ & _ & _ & A6 & _).
  exists g. split; [exact Eg|exact A6].
Qed.
End EngineTheorems.
