(* Proofs about the builder glue / EpochState / chunk loop model (C16). *)
From Coq Require Import List ZArith Bool Lia.
Import ListNotations.
From LV Require Import Goose.Epoch Goose.EpochProofs Goose.Warmup Goose.WarmupProofs Goose.EpochBuilder.
Open Scope Z_scope.

(* --- durations of a valid schedule are positive, hence the chunk length is positive --- *)
Lemma valid_dur_pos l c : valid l = true -> In c l -> 1 <= dur c.
Proof.
  intros Hv Hin. destruct l as [|c0 r]; [contradiction|].
  unfold valid in Hv. apply andb_true_iff in Hv. destruct Hv as [Hv _].
  apply andb_true_iff in Hv. destruct Hv as [_ Hall].
  rewrite forallb_forall in Hall. specialize (Hall c Hin).
  unfold cfg_ok in Hall. rewrite !andb_true_iff in Hall.
  destruct Hall as [[[Hd _] _] _]. apply Z.leb_le in Hd. exact Hd.
Qed.

Lemma fold_gcd_nonneg l a : 0 <= a -> 0 <= fold_left Z.gcd l a.
Proof.
  revert a; induction l as [|x l IH]; intros a Ha; cbn [fold_left]; [exact Ha|].
  apply IH. apply Z.gcd_nonneg.
Qed.

Theorem chunk_positive l c : valid l = true -> In c (tl l) -> 1 <= chunk_len l.
Proof.
  intros Hv Hin.
  assert (Hd : 1 <= dur c).
  { apply (valid_dur_pos l c Hv). destruct l; [contradiction|]. right. exact Hin. }
  pose proof (chunk_divides l c Hin) as [k Hk].
  assert (Hn : 0 <= chunk_len l) by (unfold chunk_len; apply fold_gcd_nonneg; lia).
  destruct (Z.eq_dec (chunk_len l) 0) as [E|E]; [rewrite E in Hk; lia|lia].
Qed.

(* --- set_epochs / build --- *)
Theorem builder_set_epochs_spec l :
  (valid l = true -> builder_set_epochs l = BOk l (chunk_len l))
  /\ (valid l = false -> builder_set_epochs l = BRuntimeError).
Proof.
  unfold builder_set_epochs. rewrite accepts_eq_valid.
  split; intros ->; reflexivity.
Qed.

Theorem builder_chunk_divides l l' ch :
  builder_set_epochs l = BOk l' ch ->
  l' = l /\ valid l = true
  /\ forall c, In c (tl l') -> 1 <= ch /\ (ch | dur c) /\ transitions (dur c) ch = dur c.
Proof.
  unfold builder_set_epochs. rewrite accepts_eq_valid.
  destruct (valid l) eqn:Hv; [|discriminate].
  intros H. injection H as <- <-. split; [reflexivity|]. split; [reflexivity|].
  intros c Hin.
  pose proof (chunk_positive l c Hv Hin) as Hp.
  pose proof (chunk_divides l c Hin) as Hd.
  split; [exact Hp|]. split; [exact Hd|].
  unfold transitions. destruct Hd as [k Hk]. rewrite Hk.
  rewrite Z.div_mul by lia. reflexivity.
Qed.

(* --- set_duration: for every admissible argument combination the builder ends up with a valid
   schedule whose warmup sums to the request and a positive chunk dividing every duration --- *)
Theorem builder_set_duration_ok w p t thp thw :
  admissible w p default_init t default_base thp thw ->
  exists l ch,
    builder_set_duration w p t thp thw = BOk l ch
    /\ stan_epochs w p default_init t default_base thp thw = SOk l
    /\ valid l = true
    /\ sum_dur (warmup_part l) = w
    /\ ch = chunk_len l /\ 1 <= ch
    /\ forall c, In c (tl l) -> (ch | dur c).
Proof.
  intros Ha.
  destruct (stan_valid_and_sums _ _ _ _ _ _ _ Ha) as [slows [rest [Heq [_ [_ [_ [_ Hall]]]]]]].
  destruct (Hall _ Heq) as [Hv Hs].
  unfold builder_set_duration. rewrite Heq.
  pose proof (builder_set_epochs_spec
    ([mkE Init 1 1; mkE Fast default_init thw] ++ slows
       ++ [mkE Slow rest thw; mkE Fast t thw; mkE Post p thp])) as [Hok _].
  rewrite (Hok Hv). eexists; eexists. split; [reflexivity|]. split; [reflexivity|].
  split; [exact Hv|]. split; [exact Hs|]. split; [reflexivity|]. split.
  - apply (chunk_positive _ (mkE Fast default_init thw) Hv). cbn [app tl]. left. reflexivity.
  - intros c Hin. apply chunk_divides. exact Hin.
Qed.

Theorem builder_set_duration_rejects w p t thp thw :
  w < 20 \/ w < default_init + t + default_base ->
  builder_set_duration w p t thp thw = BValueError.
Proof.
  intros H. unfold builder_set_duration. rewrite (stan_rejects _ _ _ _ _ _ _ H). reflexivity.
Qed.

(* --- EpochState and the chunk loop --- *)
Lemma advance_n_fields n : forall s by_,
  f_cfg (advance_n n s by_) = f_cfg s /\ f_nth (advance_n n s by_) = f_nth s
  /\ f_before (advance_n n s by_) = f_before s
  /\ f_time (advance_n n s by_) = f_time s + Z.of_nat n * by_
  /\ f_in (advance_n n s by_) = f_in s + Z.of_nat n * by_.
Proof.
  induction n as [|n IH]; intros s by_.
  - cbn [advance_n]. change (Z.of_nat 0) with 0. repeat split; lia.
  - cbn [advance_n]. destruct (IH (advance_time s by_) by_) as [H1 [H2 [H3 [H4 H5]]]].
    rewrite H1, H2, H3, H4, H5. unfold advance_time. cbn [f_cfg f_nth f_before f_time f_in].
    rewrite Nat2Z.inj_succ. repeat split; lia.
Qed.

(* a fresh state run with a positive chunk that divides the duration reaches exactly the end of
   the epoch: time_in_epoch = duration, time = time_before + duration, nothing left *)
Theorem run_epoch_divides c n tb ch :
  1 <= ch -> 0 <= dur c -> (ch | dur c) ->
  exists s', run_epoch (to_state c n tb) ch = Some s'
    /\ f_cfg s' = c /\ f_nth s' = n /\ f_before s' = tb
    /\ f_in s' = dur c /\ f_time s' = tb + dur c /\ time_left s' = 0.
Proof.
  intros Hch Hd [k Hk]. unfold run_epoch, to_state, time_left. cbn [f_cfg f_in].
  replace (dur c - 0 <? dur c) with false by (symmetry; apply Z.ltb_ge; lia).
  replace (ch =? 0) with false by (symmetry; apply Z.eqb_neq; lia).
  rewrite Hk, Z.mod_mul by lia. cbn [Z.eqb]. rewrite Z.div_mul by lia.
  eexists. split; [reflexivity|].
  destruct (advance_n_fields (Z.to_nat k) (mkF c n tb tb 0) ch) as [H1 [H2 [H3 [H4 H5]]]].
  cbn [f_cfg f_nth f_before f_time f_in] in *.
  assert (0 <= k) by nia. rewrite Z2Nat.id in H4, H5 by lia.
  rewrite H1, H2, H3, H4, H5. repeat split; lia.
Qed.

(* ... and when the chunk does not divide the duration the engine refuses to sample the epoch:
   the "divides" clause is exactly what sampling needs *)
Theorem run_epoch_fails_iff c n tb ch :
  1 <= ch -> (run_epoch (to_state c n tb) ch = None <-> ~ (ch | dur c)).
Proof.
  intros Hch. unfold run_epoch, to_state, time_left. cbn [f_cfg f_in].
  replace (dur c - 0 <? dur c) with false by (symmetry; apply Z.ltb_ge; lia).
  replace (ch =? 0) with false by (symmetry; apply Z.eqb_neq; lia).
  destruct (dur c mod ch =? 0) eqn:E.
  - apply Z.eqb_eq in E. split; [discriminate|]. intros Hn. exfalso. apply Hn.
    apply Z.mod_divide; [lia|exact E].
  - apply Z.eqb_neq in E. split; [|reflexivity]. intros _ Hd. apply E.
    apply Z.mod_divide; [lia|exact Hd].
Qed.

(* every non-initial epoch of a schedule the builder accepted is sampled to its end with the
   builder's chunk length *)
Theorem builder_epochs_run_to_end l l' ch c n tb :
  builder_set_epochs l = BOk l' ch -> In c (tl l') ->
  exists s', run_epoch (to_state c n tb) ch = Some s'
    /\ f_cfg s' = c /\ f_nth s' = n /\ f_before s' = tb
    /\ f_in s' = dur c /\ f_time s' = tb + dur c /\ time_left s' = 0.
Proof.
  intros Hb Hin. destruct (builder_chunk_divides l l' ch Hb) as [-> [Hv Hall]].
  destruct (Hall c Hin) as [Hp [Hd _]].
  apply run_epoch_divides; [exact Hp| |exact Hd].
  assert (1 <= dur c); [|lia].
  apply (valid_dur_pos l c Hv). destruct l; [contradiction|]. right. exact Hin.
Qed.

(* the halved chunk of a "cap the chunk at 1000" variant does not divide: 2250 -> 1125 -> 562 *)
Example halving_breaks_divisibility :
  chunk_len [mkE Init 1 1; mkE Burnin 2250 1; mkE Post 4500 1] = 2250
  /\ run_epoch (to_state (mkE Burnin 2250 1) 1 1) 562 = None.
Proof. split; vm_compute; reflexivity. Qed.

(* non-vacuity *)
Example builder_example :
  builder_set_epochs [mkE Init 1 1; mkE Burnin 2250 1; mkE Post 4500 9]
  = BOk [mkE Init 1 1; mkE Burnin 2250 1; mkE Post 4500 9] 2250.
Proof. vm_compute. reflexivity. Qed.
Example builder_set_duration_example :
  builder_set_duration 1000 1000 50 1 1 =
  BOk [mkE Init 1 1; mkE Fast 75 1; mkE Slow 25 1; mkE Slow 50 1; mkE Slow 100 1; mkE Slow 200 1;
       mkE Slow 500 1; mkE Fast 50 1; mkE Post 1000 1] 25.
Proof. vm_compute. reflexivity. Qed.
Example admissible_default_example : admissible 1000 1000 default_init 50 default_base 1 1.
Proof. unfold admissible, default_init, default_base. repeat split; try lia. exists 1000. lia. Qed.
Example run_epoch_example :
  run_epoch (to_state (mkE Post 4500 9) 2 2251) 2250 = Some (mkF (mkE Post 4500 9) 2 6751 2251 4500).
Proof. vm_compute. reflexivity. Qed.

(* --- builder scripts: every engine built gets the chunk of ITS schedule --- *)
Definition st_ok (st : bstate) : Prop :=
  match st with Some l => valid l = true | None => True end.

Lemma builder_set_epochs_ok_valid l l' ch : builder_set_epochs l = BOk l' ch -> valid l' = true.
Proof. intros H. destruct (builder_chunk_divides l l' ch H) as [-> [Hv _]]. exact Hv. Qed.

Lemma set_result_ok st r :
  st_ok st -> (forall l ch, r = BOk l ch -> valid l = true) -> st_ok (fst (set_result st r)).
Proof.
  intros Hst Hr. destruct r as [l ch| | |]; cbn [set_result fst]; try exact Hst.
  cbn [st_ok]. apply (Hr l ch). reflexivity.
Qed.

Lemma bstep_ok st o : st_ok st -> st_ok (fst (bstep st o)).
Proof.
  intros Hst. destruct o as [l|w p t thp thw|]; cbn [bstep].
  - apply set_result_ok; [exact Hst|]. intros l' ch H. exact (builder_set_epochs_ok_valid l l' ch H).
  - apply set_result_ok; [exact Hst|]. intros l' ch H. unfold builder_set_duration in H.
    destruct (stan_epochs w p default_init t default_base thp thw) as [l0| |]; try discriminate.
    exact (builder_set_epochs_ok_valid l0 l' ch H).
  - destruct st; exact Hst.
Qed.

Lemma set_result_event st r : exists b, snd (set_result st r) = ESet b.
Proof. destruct r; eexists; reflexivity. Qed.

(* for every script on one builder (whatever was set and built before): an engine that is built
   receives a valid schedule, the chunk is the gcd chunk of THAT schedule, it is >= 1 and divides
   every non-initial duration, and the engine's chunk loop runs every such epoch to its end *)
Theorem builder_script_built_ok ops : forall st l ch,
  st_ok st -> In (EBuilt l ch) (brun st ops) ->
  valid l = true /\ ch = chunk_len l
  /\ forall c, In c (tl l) ->
       1 <= ch /\ (ch | dur c)
       /\ forall n tb, exists s', run_epoch (to_state c n tb) ch = Some s' /\ time_left s' = 0.
Proof.
  induction ops as [|o r IH]; intros st l ch Hst Hin; [contradiction|].
  cbn [brun] in Hin. destruct (bstep st o) as [st' e] eqn:E.
  assert (Hst' : st_ok st') by (pose proof (bstep_ok st o Hst) as H; rewrite E in H; exact H).
  destruct Hin as [He|Hin]; [|exact (IH st' l ch Hst' Hin)].
  subst e. destruct o as [l0|w p t thp thw|]; cbn [bstep] in E.
  - destruct (set_result_event st (builder_set_epochs l0)) as [b Hb].
    rewrite (surjective_pairing (set_result st (builder_set_epochs l0))) in E.
    injection E as _ E2. rewrite Hb in E2. discriminate.
  - destruct (set_result_event st (builder_set_duration w p t thp thw)) as [b Hb].
    rewrite (surjective_pairing (set_result st (builder_set_duration w p t thp thw))) in E.
    injection E as _ E2. rewrite Hb in E2. discriminate.
  - destruct st as [l0|]; [|discriminate]. inversion E; subst. rename l into l0.
    cbn [st_ok] in Hst. split; [exact Hst|]. split; [reflexivity|].
    intros c Hc.
    pose proof (chunk_positive l0 c Hst Hc) as Hp.
    pose proof (chunk_divides l0 c Hc) as Hd.
    split; [exact Hp|]. split; [exact Hd|]. intros n tb.
    assert (H0 : 0 <= dur c).
    { assert (1 <= dur c); [|lia]. apply (valid_dur_pos l0 c Hst). destruct l0; [contradiction|]. right. exact Hc. }
    destruct (run_epoch_divides c n tb (chunk_len l0) Hp H0 Hd) as [s' [Hs [_ [_ [_ [_ [_ Hl]]]]]]].
    exists s'. split; [exact Hs|exact Hl].
Qed.

(* the chunk is a function of the current schedule: setting a valid schedule and building reports
   that schedule and its own gcd chunk, independently of the builder's history [st] *)
Theorem builder_script_history_independent st l r :
  valid l = true ->
  brun st (BSetEpochs l :: BBuild :: r) = ESet true :: EBuilt l (chunk_len l) :: brun (Some l) r.
Proof.
  intros Hv. cbn [brun bstep].
  destruct (builder_set_epochs_spec l) as [Hok _]. rewrite (Hok Hv). reflexivity.
Qed.

Theorem builder_script_set_duration_history_independent st w p t thp thw r :
  admissible w p default_init t default_base thp thw ->
  exists l, stan_epochs w p default_init t default_base thp thw = SOk l
    /\ brun st (BSetDuration w p t thp thw :: BBuild :: r)
       = ESet true :: EBuilt l (chunk_len l) :: brun (Some l) r.
Proof.
  intros Ha. destruct (builder_set_duration_ok w p t thp thw Ha) as [l [ch [Hb [Hs [_ [_ [Hch _]]]]]]].
  exists l. split; [exact Hs|]. cbn [brun bstep]. rewrite Hb. reflexivity.
Qed.

(* a rejected setter keeps the previous schedule *)
Theorem builder_script_rejected_keeps st l r :
  valid l = false -> brun st (BSetEpochs l :: r) = ESet false :: brun st r.
Proof.
  intros Hv. cbn [brun bstep]. destruct (builder_set_epochs_spec l) as [_ Hno]. rewrite (Hno Hv). reflexivity.
Qed.

(* the stale-chunk scenario: 50/25/100 (chunk 25), then 30/20/40 on the same builder: chunk 10, not 25 *)
Example builder_reuse_example :
  brun None [BSetEpochs [mkE Init 1 1; mkE Fast 50 1; mkE Burnin 25 1; mkE Post 100 1]; BBuild;
             BSetEpochs [mkE Init 1 1; mkE Fast 30 1; mkE Burnin 20 1; mkE Post 40 1]; BBuild;
             BSetEpochs [mkE Post 3 1]; BBuild; BSetDuration 200 64 16 1 1; BBuild]
  = [ESet true; EBuilt [mkE Init 1 1; mkE Fast 50 1; mkE Burnin 25 1; mkE Post 100 1] 25;
     ESet true; EBuilt [mkE Init 1 1; mkE Fast 30 1; mkE Burnin 20 1; mkE Post 40 1] 10;
     ESet false; EBuilt [mkE Init 1 1; mkE Fast 30 1; mkE Burnin 20 1; mkE Post 40 1] 10;
     ESet true; EBuilt [mkE Init 1 1; mkE Fast 75 1; mkE Slow 25 1; mkE Slow 84 1; mkE Fast 16 1; mkE Post 64 1] 1]
  /\ run_epoch (to_state (mkE Fast 30 1) 1 1) 25 = None.
Proof. split; vm_compute; reflexivity. Qed.
