(* Executable glue for the C16 correspondence shards (no proofs here). *)
From Coq Require Import List ZArith Bool Arith.
Import ListNotations.
From LV Require Import Goose.Epoch Goose.EpochProofs Goose.Warmup.
Open Scope Z_scope.

Definition econf_eqb (a b : econf) : bool :=
  (ety_code (ety_ a) =? ety_code (ety_ b)) && (dur a =? dur b) && (thin a =? thin b).

Fixpoint list_eqb {A} (eqb : A -> A -> bool) (l1 l2 : list A) : bool :=
  match l1, l2 with
  | [], [] => true
  | x :: r1, y :: r2 => eqb x y && list_eqb eqb r1 r2
  | _, _ => false
  end.

(* all index sequences of length n over an alphabet of size k, lexicographic *)
Fixpoint seqs (k n : nat) : list (list nat) :=
  match n with
  | O => [[]]
  | S n' => flat_map (fun a => map (cons a) (seqs k n')) (seq 0 k)
  end.
Definition seqs_upto (k n : nat) : list (list nat) := flat_map (seqs k) (seq 0 (S n)).

Definition decode (alphabet : list econf) (s : list nat) : list econf :=
  map (fun i => nth i alphabet (mkE Init 0 0)) s.

Definition nexts_of (l : list econf) : list (nat * Z) :=
  map (fun s => (nth_ep s, t0 s)) (mgr_nexts (mkM l 0 0) (length l)).

(* accepted sequences with the states next() hands out, in enumeration order *)
Definition model_accepted (alphabet : list econf) (maxlen : nat) : list (list nat * list (nat * Z)) :=
  flat_map (fun s => let l := decode alphabet s in
                     if accepts l then [(s, nexts_of l)] else [])
           (seqs_upto (length alphabet) maxlen).

(* --- part B: op interleavings on one manager --- *)
Inductive mop := OpAppend (c : econf) | OpNext | OpHasMore.
Inductive mout := OutAppend (ok : bool) | OutNext (s : option (nat * Z * econf)) | OutHasMore (b : bool).

Definition mstep (m : mgr) (o : mop) : mgr * mout :=
  match o with
  | OpAppend c => match mgr_append m c with
                  | Some m' => (m', OutAppend true)
                  | None => (m, OutAppend false)
                  end
  | OpNext => match mgr_next m with
              | Some (s, m') => (m', OutNext (Some (nth_ep s, t0 s, cfg s)))
              | None => (m, OutNext None)
              end
  | OpHasMore => (m, OutHasMore (has_more m))
  end.
Fixpoint mrun (m : mgr) (ops : list mop) : list mout :=
  match ops with
  | [] => []
  | o :: r => let '(m', out) := mstep m o in out :: mrun m' r
  end.
Definition mout_eqb (a b : mout) : bool :=
  match a, b with
  | OutAppend x, OutAppend y => Bool.eqb x y
  | OutHasMore x, OutHasMore y => Bool.eqb x y
  | OutNext None, OutNext None => true
  | OutNext (Some (n1, t1, c1)), OutNext (Some (n2, t2, c2)) =>
      Nat.eqb n1 n2 && (t1 =? t2) && econf_eqb c1 c2
  | _, _ => false
  end.
Definition agrees_b (c : list mop * list mout) : bool :=
  list_eqb mout_eqb (mrun mgr0 (fst c)) (snd c).

(* --- part C: stan_epochs --- *)
Definition agrees_c (c : (Z * Z * Z * Z * Z * Z * Z) * option (list econf) * option bool * option Z) : bool :=
  let '(args, res, acc, ch) := c in
  let '(w, p, i, t, b, thp, thw) := args in
  match stan_epochs w p i t b thp thw, res with
  | SValueError, None => true
  | SOk l, Some l' =>
      list_eqb econf_eqb l l'
      && match acc with Some a => Bool.eqb (accepts l) a | None => true end
      && match ch with Some z => chunk_len l =? z | None => true end
  | _, _ => false
  end.
