(* Executable glue for the C16 correspondence shards (no proofs here). *)
From Coq Require Import List ZArith Bool Arith.
Import ListNotations.
From LV Require Import Goose.Epoch Goose.EpochProofs Goose.Warmup Goose.EpochBuilder.
(* support library of the source tie (generated file gen_c16.v of every run); required here so that the
   targeted build of the check compiles it *)
From LV Require Goose.GenC16Tie.
Open Scope Z_scope.

Definition econf_eqb (a b : econf) : bool :=
  (ety_code (ety_ a) =? ety_code (ety_ b)) && (dur a =? dur b) && (thin a =? thin b).

Fixpoint list_eqb {A} (eqb : A -> A -> bool) (l1 l2 : list A) : bool :=
  match l1, l2 with
  | [], [] => true
  | x :: r1, y :: r2 => eqb x y && list_eqb eqb r1 r2
  | _, _ => false
  end.

(* all index sequences of length n over an alphabet of size k, lexicographic *)
Fixpoint seqs (k n : nat) : list (list nat) :=
  match n with
  | O => [[]]
  | S n' => flat_map (fun a => map (cons a) (seqs k n')) (seq 0 k)
  end.
Definition seqs_upto (k n : nat) : list (list nat) := flat_map (seqs k) (seq 0 (S n)).

Definition decode (alphabet : list econf) (s : list nat) : list econf :=
  map (fun i => nth i alphabet (mkE Init 0 0)) s.

Definition nexts_of (l : list econf) : list (nat * Z) :=
  map (fun s => (nth_ep s, t0 s)) (mgr_nexts (mkM l 0 0) (length l)).

(* all observable fields of the states: (nth_epoch, time_before_epoch, time, time_in_epoch) *)
Definition nexts_full_of (l : list econf) : list (nat * Z * Z * Z) :=
  map (fun s => let f := full_of s in (f_nth f, f_before f, f_time f, f_in f))
      (mgr_nexts (mkM l 0 0) (length l)).

(* accepted sequences with the states next() hands out, in enumeration order *)
Definition model_accepted (alphabet : list econf) (maxlen : nat) : list (list nat * list (nat * Z * Z * Z)) :=
  flat_map (fun s => let l := decode alphabet s in
                     if accepts l then [(s, nexts_full_of l)] else [])
           (seqs_upto (length alphabet) maxlen).

(* --- part B: op interleavings on one manager --- *)
Inductive mop := OpAppend (c : econf) | OpNext | OpHasMore.
Inductive mout := OutAppend (ok : bool) | OutNext (s : option (nat * Z * econf)) | OutHasMore (b : bool).

Definition mstep (m : mgr) (o : mop) : mgr * mout :=
  match o with
  | OpAppend c => match mgr_append m c with
                  | Some m' => (m', OutAppend true)
                  | None => (m, OutAppend false)
                  end
  | OpNext => match mgr_next m with
              | Some (s, m') => (m', OutNext (Some (nth_ep s, t0 s, cfg s)))
              | None => (m, OutNext None)
              end
  | OpHasMore => (m, OutHasMore (has_more m))
  end.
Fixpoint mrun (m : mgr) (ops : list mop) : list mout :=
  match ops with
  | [] => []
  | o :: r => let '(m', out) := mstep m o in out :: mrun m' r
  end.
Definition mout_eqb (a b : mout) : bool :=
  match a, b with
  | OutAppend x, OutAppend y => Bool.eqb x y
  | OutHasMore x, OutHasMore y => Bool.eqb x y
  | OutNext None, OutNext None => true
  | OutNext (Some (n1, t1, c1)), OutNext (Some (n2, t2, c2)) =>
      Nat.eqb n1 n2 && (t1 =? t2) && econf_eqb c1 c2
  | _, _ => false
  end.
Definition agrees_b (c : list mop * list mout) : bool :=
  list_eqb mout_eqb (mrun mgr0 (fst c)) (snd c).

(* --- part C: stan_epochs --- *)
Definition agrees_c (c : (Z * Z * Z * Z * Z * Z * Z) * option (list econf) * option bool * option Z) : bool :=
  let '(args, res, acc, ch) := c in
  let '(w, p, i, t, b, thp, thw) := args in
  match stan_epochs w p i t b thp thw, res with
  | SValueError, None => true
  | SOk l, Some l' =>
      list_eqb econf_eqb l l'
      && match acc with Some a => Bool.eqb (accepts l) a | None => true end
      && match ch with Some z => chunk_len l =? z | None => true end
  | _, _ => false
  end.

(* stan_epochs called twice with identical arguments; between the calls the caller edits the first
   result in place (list and EpochConfig objects).  Both results must be the model's value: the
   function is a pure function of its arguments. *)
Definition agrees_c2 (c : (Z * Z * Z * Z * Z * Z * Z) * option (list econf) * option (list econf)
                          * option bool * option Z) : bool :=
  let '(args, res, res2, acc, ch) := c in
  agrees_c (args, res, acc, ch) && agrees_c (args, res2, None, None).

(* --- part D: EngineBuilder.set_epochs / set_duration + build --- *)
(* the class of a rejection is not compared (ValueError of stan_epochs / RuntimeError of the manager) *)
Inductive bobs := ObsOk (l : list econf) (ch : Z) | ObsRejected.
Definition bres_agrees (m : bres) (o : bobs) : bool :=
  match m, o with
  | BOk l ch, ObsOk l' ch' => list_eqb econf_eqb l l' && (ch =? ch')
  | BValueError, ObsRejected => true
  | BRuntimeError, ObsRejected => true
  | _, _ => false
  end.
Definition agrees_bld_epochs (c : list econf * bobs) : bool :=
  bres_agrees (builder_set_epochs (fst c)) (snd c).
Definition agrees_bld_duration (c : (Z * Z * Z * Z * Z) * bobs) : bool :=
  let '((w, p, t, thp, thw), o) := c in bres_agrees (builder_set_duration w p t thp thw) o.

(* --- part E: EpochState: to_state, a sequence of advance_time calls, time_left --- *)
Definition efull_obs (s : efull) : nat * Z * Z * Z * Z :=
  (f_nth s, f_time s, f_before s, f_in s, time_left s).
Definition obs5_eqb (a b : nat * Z * Z * Z * Z) : bool :=
  let '(n1, t1, b1, i1, l1) := a in let '(n2, t2, b2, i2, l2) := b in
  Nat.eqb n1 n2 && (t1 =? t2) && (b1 =? b2) && (i1 =? i2) && (l1 =? l2).
Definition agrees_state (c : econf * nat * Z * list Z * (nat * Z * Z * Z * Z)) : bool :=
  let '(cf, n, tb, bys, o) := c in
  obs5_eqb (efull_obs (fold_left advance_time bys (to_state cf n tb))) o.

(* --- part F: a real engine built by the builder samples all epochs ---
   observed: Some (number of posterior draws per chain in the results) or None when building or
   sampling raised.  Model: every non-initial epoch is run with the builder's chunk (the clock ends
   at the sum of all durations); the posterior epochs store duration / thinning draws each. *)
Fixpoint run_all (l : list econf) (n : nat) (tb : Z) (ch : Z) : option Z :=
  match l with
  | [] => Some tb
  | c :: r => match run_epoch (to_state c n tb) ch with
              | Some s => run_all r (S n) (f_time s) ch
              | None => None
              end
  end.
Definition engine_model (l : list econf) : option Z :=
  match builder_set_epochs l with
  | BOk (c0 :: r) ch =>
      match run_all r 1 (dur c0) ch with
      | Some tend =>
          if tend =? fold_left Z.add (map dur l) 0
          then Some (fold_left Z.add (map (fun c => if is_post (ety_ c) then dur c / thin c else 0) l) 0)
          else None
      | None => None
      end
  | _ => None
  end.
Definition oz_eqb (a b : option Z) : bool :=
  match a, b with Some x, Some y => x =? y | None, None => true | _, _ => false end.
Definition agrees_engine (c : list econf * option Z) : bool := oz_eqb (engine_model (fst c)) (snd c).

(* --- part G: one EngineBuilder driven by a script of set_epochs / set_duration / build calls ---
   observed events: setter accepted / rejected; for every build the schedule and the
   jitted_sample_duration the Engine constructor received (or an exception) *)
Definition bevent_eqb (a b : bevent) : bool :=
  match a, b with
  | ESet x, ESet y => Bool.eqb x y
  | EBuilt l ch, EBuilt l' ch' => list_eqb econf_eqb l l' && (ch =? ch')
  | EBuildError, EBuildError => true
  | _, _ => false
  end.
Definition agrees_script (c : list bop * list bevent) : bool :=
  list_eqb bevent_eqb (brun None (fst c)) (snd c).
