(* C08, additional facts that tie a stored sample to the iteration that produced it:
   - the m-th stored position / quantity of an epoch is the one produced by within-epoch iteration
     (m+1) * thinning, and floor(dur / thinning) of them are stored;
   - the model state an epoch hands to the next one is the state after its last iteration (the
     kernel hooks between the sampling loops never change the model state), so the per-epoch
     trajectories of ThinProofs.spec_epoch_traj chain up to ONE trajectory over the whole run. *)
From Coq Require Import String List ZArith Bool Arith Lia.
Import ListNotations.
From LV Require Import Goose.Epoch Goose.Thin Goose.ThinProofs.
Open Scope Z_scope.

Lemma last_cons_default {A} (l : list A) : forall a d, last (a :: l) d = last l a.
Proof.
  induction l as [|b l IH]; intros a d; [reflexivity|].
  change (last (a :: b :: l) d) with (last (b :: l) d). now rewrite (IH b d), (IH b a).
Qed.

Lemma nth_error_map' {A B} (f : A -> B) (l : list A) : forall n,
  nth_error (map f l) n = option_map f (nth_error l n).
Proof. induction l as [|x l IH]; intros [|n]; cbn; auto. Qed.

Section StoredIndex.
Context {St P I KS Q : Type}.

Theorem stored_pos_length (r : @erec St P I KS Q) : 1 <= thin (er_cfg r) ->
  length (stored_pos r) = Z.to_nat (Z.of_nat (length (er_outs r)) / thin (er_cfg r)).
Proof. intros H. unfold stored_pos. rewrite thin_spec_length by assumption. now rewrite map_length. Qed.

Theorem stored_pos_nth (r : @erec St P I KS Q) (m : nat) :
  1 <= thin (er_cfg r) -> (m < length (stored_pos r))%nat ->
  nth_error (stored_pos r) m =
  option_map o_pos (nth_error (er_outs r) (Z.to_nat ((Z.of_nat m + 1) * thin (er_cfg r)) - 1)).
Proof.
  intros Hth Hm. unfold stored_pos in *. rewrite thin_spec_nth by assumption. apply nth_error_map'.
Qed.

Theorem stored_q_nth (r : @erec St P I KS Q) (m : nat) :
  1 <= thin (er_cfg r) -> (m < length (stored_q r))%nat ->
  nth_error (stored_q r) m =
  option_map o_quants (nth_error (er_outs r) (Z.to_nat ((Z.of_nat m + 1) * thin (er_cfg r)) - 1)).
Proof.
  intros Hth Hm. unfold stored_q in *. rewrite thin_spec_nth by assumption. apply nth_error_map'.
Qed.
End StoredIndex.

Section Carry.
Context {St P I KS Q : Type}.
Variable kernels : list (@kernel St I KS).
Variable extract : list string -> St -> P.
Variable gens : list (key -> einfo -> St -> Q).
Variable pre_hook : key -> nat -> econf -> KS -> St -> key * KS.
Variable post_hook : key -> nat -> econf -> option (list P) -> KS -> St -> key * KS.
Variable tk : list string.

Lemma scan_final keys : forall ei ks ms,
  let '(_, ksF, msF, outs) := scan kernels extract gens tk keys ei ks ms in
  msF = last (map o_ms outs) ms /\ ksF = last (map o_ks outs) ks.
Proof.
  induction keys as [|k r IH]; intros ei ks ms; cbn [Thin.scan]; [split; reflexivity|].
  specialize (IH (advance ei) (o_ks (iter_step kernels extract gens tk k ei ks ms))
                 (o_ms (iter_step kernels extract gens tk k ei ks ms))).
  destruct (scan kernels extract gens tk r (advance ei) (o_ks (iter_step kernels extract gens tk k ei ks ms))
              (o_ms (iter_step kernels extract gens tk k ei ks ms))) as [[[ei1 ks1] ms1] o1].
  destruct IH as [-> ->]. cbn [map]. now rewrite !last_cons_default.
Qed.

(* the model state after an epoch = the state after its last iteration; the hooks only touch kernel states *)
Theorem spec_epoch_carry c k ks ms es :
  snd (fst (spec_epoch kernels extract gens pre_hook post_hook tk c (k, ks, ms) es))
  = last (map o_ms (er_outs (snd (spec_epoch kernels extract gens pre_hook post_hook tk c (k, ks, ms) es)))) ms.
Proof.
  unfold Thin.spec_epoch. destruct (pre_hook k (nth_ep es) (cfg es) ks ms) as [k1 ks1].
  pose proof (scan_final (map (it_key c k1) (seq 0 (Z.to_nat (dur (cfg es)))))
                (mkEI (nth_ep es) (cfg es) (t0 es) 0) ks1 ms) as HF.
  destruct (scan kernels extract gens tk (map (it_key c k1) (seq 0 (Z.to_nat (dur (cfg es)))))
              (mkEI (nth_ep es) (cfg es) (t0 es) 0) ks1 ms) as [[[eiF ksF] msF] outs].
  destruct (post_hook _ _ _ _ ksF msF) as [k2 ks2]. cbn [fst snd er_outs]. now destruct HF.
Qed.

(* the records of consecutive epochs: the next epoch's record is spec_epoch started from the state the
   previous one left (unfolding of spec_epochs, stated for reference next to spec_epoch_carry) *)
Theorem spec_epochs_cons c idx t e r st :
  spec_epochs kernels extract gens pre_hook post_hook tk c idx t (e :: r) st =
  snd (spec_epoch kernels extract gens pre_hook post_hook tk c st (mkS e idx t))
  :: spec_epochs kernels extract gens pre_hook post_hook tk c (S idx) (t + dur e) r
       (fst (spec_epoch kernels extract gens pre_hook post_hook tk c st (mkS e idx t))).
Proof.
  cbn [Thin.spec_epochs]. now destruct (spec_epoch kernels extract gens pre_hook post_hook tk c st (mkS e idx t)).
Qed.
End Carry.
