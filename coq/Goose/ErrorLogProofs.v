(* C19 - proofs about the error / sample bookkeeping model (Goose/ErrorLog.v). *)
From Coq Require Import String.
From Coq Require Import List Arith Bool ZArith QArith Lia.
Import ListNotations.
Close Scope Q_scope.
Open Scope nat_scope.
From LV Require Import Goose.ErrorLog.

(* ---------------------------------------------------------------------------------------- *)
(* counting                                                                                   *)
Lemma count_nil : forall c, count c [] = 0.
Proof. reflexivity. Qed.

Lemma count_cons : forall c x l, count c (x :: l) = (if c =? x then 1 else 0) + count c l.
Proof. intros c x l. unfold count. cbn [filter]. destruct (c =? x); reflexivity. Qed.

Lemma count_app : forall c a b, count c (a ++ b) = count c a + count c b.
Proof. intros c a b. unfold count. rewrite filter_app, app_length. reflexivity. Qed.

Lemma count_pos_In : forall c l, 0 < count c l <-> In c l.
Proof.
  intros c l. induction l as [|x l IH].
  - cbn. split; [lia | tauto].
  - rewrite count_cons. destruct (c =? x) eqn:Hcx.
    + apply Nat.eqb_eq in Hcx. subst x. split; intros _; [left; reflexivity | lia].
    + apply Nat.eqb_neq in Hcx. cbn [In plus]. rewrite IH. split; [tauto|].
      intros [H|H]; [congruence | exact H].
Qed.

Lemma count_zero_notin : forall c l, count c l = 0 <-> ~ In c l.
Proof. intros c l. rewrite <- count_pos_In. lia. Qed.

Lemma nz_true : forall c, nz c = true <-> c <> 0.
Proof. intros c. unfold nz. rewrite negb_true_iff, Nat.eqb_neq. tauto. Qed.

Lemma nz_false : forall c, nz c = false <-> c = 0.
Proof. intros c. unfold nz. rewrite negb_false_iff, Nat.eqb_eq. tauto. Qed.

(* ---------------------------------------------------------------------------------------- *)
(* the mask loses no non-zero code                                                            *)
Definition covers (m : list bool) (row : list nat) : Prop :=
  Forall2 (fun b x => nz x = true -> b = true) m row.

Lemma covers_self : forall r, covers (map nz r) r.
Proof. induction r as [|x r IH]; cbn; constructor; auto. Qed.

Lemma covers_length : forall m row, covers m row -> length m = length row.
Proof. intros m row H. induction H; cbn; congruence. Qed.

Lemma zip_or_length : forall a b, length a = length b -> length (zip_or a b) = length a.
Proof.
  induction a as [|x a IH]; intros [|y b] H; cbn in *; try congruence.
  f_equal. apply IH. congruence.
Qed.

Lemma zip_or_covers_l : forall a b row, covers a row -> length b = length row -> covers (zip_or a b) row.
Proof.
  intros a b row H. revert b. induction H as [|x r a row Hx H IH]; intros b Hb.
  - destruct b; constructor.
  - destruct b as [|y b]; cbn in Hb; [discriminate|]. cbn [zip_or]. constructor.
    + intros Hn. rewrite (Hx Hn). reflexivity.
    + apply IH. congruence.
Qed.

Lemma zip_or_covers_r : forall a b row, covers b row -> length a = length row -> covers (zip_or a b) row.
Proof.
  intros a b row H. revert a. induction H as [|y r b row Hy H IH]; intros a Ha.
  - destruct a; [constructor | discriminate].
  - destruct a as [|x a]; cbn in Ha; [discriminate|]. cbn [zip_or]. constructor.
    + intros Hn. rewrite (Hy Hn). apply orb_true_r.
    + apply IH. congruence.
Qed.

Lemma mask_of_cons2 : forall r r2 rs, mask_of (r :: r2 :: rs) = zip_or (map nz r) (mask_of (r2 :: rs)).
Proof. reflexivity. Qed.

Lemma mask_covers : forall n A, Forall (fun r => length r = n) A ->
  (A <> [] -> length (mask_of A) = n) /\ forall row, In row A -> covers (mask_of A) row.
Proof.
  intros n A. induction A as [|r rs IH]; intros HF.
  - split; [congruence | intros row []].
  - inversion HF as [|r' rs' Hr Hrs]; subst. destruct rs as [|r2 rs].
    + cbn [mask_of]. split.
      * intros _. now rewrite map_length.
      * intros row [<-|[]]. apply covers_self.
    + rewrite mask_of_cons2. destruct (IH Hrs) as [Hlen Hcov].
      assert (HL : length (mask_of (r2 :: rs)) = length r) by (rewrite Hlen; congruence).
      split.
      * intros _. rewrite zip_or_length; rewrite map_length; [reflexivity | congruence].
      * intros row [<-|Hin].
        -- apply zip_or_covers_l; [apply covers_self | exact HL].
        -- apply zip_or_covers_r; [apply Hcov; exact Hin|].
           rewrite map_length. rewrite Forall_forall in Hrs. rewrite (Hrs row Hin). reflexivity.
Qed.

Lemma select_covers_count : forall m row c, covers m row -> c <> 0 ->
  count c (select m row) = count c row.
Proof.
  intros m row c H Hc. induction H as [|b x m row Hbx H IH]; [reflexivity|].
  cbn [select]. destruct b.
  - rewrite !count_cons, IH. reflexivity.
  - rewrite count_cons, IH. destruct (nz x) eqn:Hx.
    + specialize (Hbx eq_refl). discriminate.
    + apply nz_false in Hx. subst x. destruct (c =? 0) eqn:Hc0; [apply Nat.eqb_eq in Hc0; contradiction | reflexivity].
Qed.

(* C19_mask_lossless *)
Theorem mask_lossless : forall n (A : list (list nat)) c,
  Forall (fun r => length r = n) A -> c <> 0 ->
  map (count c) (kel_codes (error_log_of A)) = map (count c) A.
Proof.
  intros n A c HF Hc. unfold error_log_of. cbn [kel_codes]. rewrite map_map.
  apply map_ext_in. intros row Hin. apply select_covers_count; [|exact Hc].
  apply (proj2 (mask_covers n A HF)). exact Hin.
Qed.

(* the same, read per chain *)
Corollary mask_lossless_chain : forall n A c k row,
  Forall (fun r => length r = n) A -> c <> 0 -> nth_error A k = Some row ->
  exists mrow, nth_error (kel_codes (error_log_of A)) k = Some mrow /\ count c mrow = count c row.
Proof.
  intros n A c k row HF Hc Hk. unfold error_log_of. cbn [kel_codes].
  exists (select (mask_of A) row). split.
  - rewrite nth_error_map, Hk. reflexivity.
  - apply select_covers_count; [|exact Hc].
    apply (proj2 (mask_covers n A HF)). eapply nth_error_In; eauto.
Qed.

(* the logged transition indices are exactly the columns holding a non-zero code *)
Lemma where_from_spec : forall m i t,
  In t (where_from i m) <-> exists j, t = i + j /\ nth_error m j = Some true.
Proof.
  induction m as [|b m IH]; intros i t; cbn [where_from].
  - split; [intros [] | intros [j [_ H]]; destruct j; discriminate].
  - assert (Hrest : In t (where_from (S i) m) <-> exists j, t = i + S j /\ nth_error m j = Some true).
    { rewrite IH. split; intros [j [H1 H2]]; exists j; split; auto; lia. }
    destruct b; cbn [In]; rewrite ?Hrest; split.
    + intros [<-|[j [H1 H2]]]; [exists 0; split; [lia | reflexivity] | exists (S j); split; assumption].
    + intros [[|j] [H1 H2]]; [left; lia | right; exists j; split; assumption].
    + intros [j [H1 H2]]. exists (S j). split; assumption.
    + intros [[|j] [H1 H2]]; [discriminate | exists j; split; assumption].
Qed.

Lemma zip_or_nth : forall a b j, length a = length b ->
  nth_error (zip_or a b) j = Some true <-> nth_error a j = Some true \/ nth_error b j = Some true.
Proof.
  induction a as [|x a IH]; intros [|y b] j H; cbn in H; try discriminate.
  - destruct j; cbn; split; [discriminate | intros [?|?]; discriminate | discriminate | intros [?|?]; discriminate].
  - destruct j as [|j]; cbn [zip_or nth_error].
    + destruct x, y; cbn; split; intros; auto; try (destruct H0; discriminate); try discriminate.
    + apply IH. congruence.
Qed.

Lemma mask_of_nth : forall n A j, Forall (fun r => length r = n) A ->
  nth_error (mask_of A) j = Some true <->
  exists row x, In row A /\ nth_error row j = Some x /\ x <> 0.
Proof.
  intros n A j. induction A as [|r rs IH]; intros HF.
  - cbn. split; [destruct j; discriminate | intros [row [x [[] _]]]].
  - inversion HF as [|r' rs' Hr Hrs]; subst.
    assert (Hself : nth_error (map nz r) j = Some true <-> exists x, nth_error r j = Some x /\ x <> 0).
    { rewrite nth_error_map. destruct (nth_error r j) as [x|]; cbn; split.
      - intros H. exists x. split; [reflexivity|]. apply nz_true. congruence.
      - intros [x' [H1 H2]]. injection H1 as <-. f_equal. apply nz_true. exact H2.
      - discriminate.
      - intros [x' [H1 _]]. discriminate. }
    destruct rs as [|r2 rs].
    + cbn [mask_of]. rewrite Hself. split.
      * intros [x [H1 H2]]. exists r, x. cbn. auto.
      * intros [row [x [[<-|[]] [H1 H2]]]]. exists x. auto.
    + rewrite mask_of_cons2. rewrite zip_or_nth.
      * rewrite Hself, (IH Hrs). split.
        -- intros [[x [H1 H2]] | [row [x [Hin [H1 H2]]]]].
           ++ exists r, x. split; [left; reflexivity | auto].
           ++ exists row, x. split; [right; exact Hin | auto].
        -- intros [row [x [[<-|Hin] [H1 H2]]]].
           ++ left. exists x. auto.
           ++ right. exists row, x. auto.
      * rewrite map_length. destruct (mask_covers _ _ Hrs) as [Hlen _]. rewrite Hlen; congruence.
Qed.

Theorem transitions_exact : forall n A t, Forall (fun r => length r = n) A ->
  In t (kel_transition (error_log_of A)) <->
  exists row x, In row A /\ nth_error row t = Some x /\ x <> 0.
Proof.
  intros n A t HF. unfold error_log_of. cbn [kel_transition]. rewrite where_from_spec.
  rewrite <- (mask_of_nth n A t HF). split.
  - intros [j [-> H]]. exact H.
  - intros H. exists t. auto.
Qed.

Lemma select_length : forall {X} m (l : list X) i, length m = length l ->
  length (select m l) = length (where_from i m).
Proof.
  intros X. induction m as [|b m IH]; intros [|x l] i H; cbn in H; try discriminate; [reflexivity|].
  cbn [select where_from]. destruct b; cbn [length]; [f_equal|]; apply IH; congruence.
Qed.

(* one logged code column per logged transition *)
Theorem log_shape : forall n A, Forall (fun r => length r = n) A ->
  Forall (fun mrow => length mrow = length (kel_transition (error_log_of A))) (kel_codes (error_log_of A)).
Proof.
  intros n A HF. unfold error_log_of. cbn [kel_codes kel_transition].
  rewrite Forall_forall. intros mrow Hin. apply in_map_iff in Hin. destruct Hin as [row [<- Hin]].
  apply select_length. apply covers_length. apply (proj2 (mask_covers n A HF)). exact Hin.
Qed.

(* the code logged for a chain at the j-th logged transition is the code that chain returned there *)
Lemma select_where : forall m (row : list nat) i, length m = length row ->
  Forall2 (fun t x => i <= t /\ nth_error row (t - i) = Some x) (where_from i m) (select m row).
Proof.
  induction m as [|b m IH]; intros [|x row] i H; cbn in H; try discriminate; [constructor|].
  assert (Hrest : Forall2 (fun t y => i <= t /\ nth_error (x :: row) (t - i) = Some y)
                          (where_from (S i) m) (select m row)).
  { assert (Hlen : length m = length row) by congruence.
    specialize (IH row (S i) Hlen). induction IH as [|t y ts ys [Hle Hnth] _ IH']; constructor; [|exact IH'].
    split; [lia|]. replace (t - i) with (S (t - S i)) by lia. exact Hnth. }
  cbn [where_from select]. destruct b; [|exact Hrest].
  constructor; [|exact Hrest]. split; [lia|]. rewrite Nat.sub_diag. reflexivity.
Qed.

Theorem log_entries_exact : forall n A k row, Forall (fun r => length r = n) A -> nth_error A k = Some row ->
  exists mrow, nth_error (kel_codes (error_log_of A)) k = Some mrow /\
               Forall2 (fun t x => nth_error row t = Some x) (kel_transition (error_log_of A)) mrow.
Proof.
  intros n A k row HF Hk. unfold error_log_of. cbn [kel_codes kel_transition].
  exists (select (mask_of A) row). split; [rewrite nth_error_map, Hk; reflexivity|].
  assert (Hlen : length (mask_of A) = length row).
  { apply covers_length. apply (proj2 (mask_covers n A HF)). eapply nth_error_In; exact Hk. }
  pose proof (select_where (mask_of A) row 0 Hlen) as H.
  induction H as [|t x ts xs [_ Hnth] _ IH]; constructor; [|exact IH].
  rewrite Nat.sub_0_r in Hnth. exact Hnth.
Qed.

(* ---------------------------------------------------------------------------------------- *)
(* the per-epoch store: combine_all / combine_filtered against counting by global index       *)
Lemma combine_if_cons : forall {X} f (e : epoch) (l : list X) bs,
  combine_if f ((e, l) :: bs) = if f e then l ++ combine_if f bs else combine_if f bs.
Proof. intros X f e l bs. unfold combine_if. cbn [filter fst]. destruct (f e); reflexivity. Qed.

Lemma phase_at_shift : forall e s t, ep_dur e <= t -> phase_at (e :: s) t = phase_at s (t - ep_dur e).
Proof.
  intros e s t H. cbn [phase_at]. destruct (t <? ep_dur e) eqn:Hlt; [apply Nat.ltb_lt in Hlt; lia | reflexivity].
Qed.

Lemma count_phase_shift : forall e s ph c row t, ep_dur e <= t ->
  count_phase (e :: s) ph c t row = count_phase s ph c (t - ep_dur e) row.
Proof.
  intros e s ph c row. induction row as [|x r IH]; intros t H; [reflexivity|].
  cbn [count_phase]. unfold in_phase. rewrite (phase_at_shift e s t H).
  rewrite (IH (S t)) by lia. replace (S t - ep_dur e) with (S (t - ep_dur e)) by lia. reflexivity.
Qed.

Lemma count_phase_block : forall e s ph c row t, t <= ep_dur e ->
  count_phase (e :: s) ph c t row =
  (if Bool.eqb (ep_post e) ph then count c (firstn (ep_dur e - t) row) else 0)
  + count_phase s ph c 0 (skipn (ep_dur e - t) row).
Proof.
  intros e s ph c row. induction row as [|x r IH]; intros t H.
  - rewrite firstn_nil, skipn_nil. cbn. destruct (Bool.eqb (ep_post e) ph); reflexivity.
  - destruct (Nat.eq_dec t (ep_dur e)) as [Heq|Hne].
    + subst t. rewrite Nat.sub_diag. cbn [firstn skipn]. rewrite count_nil.
      rewrite count_phase_shift by lia. rewrite Nat.sub_diag.
      destruct (Bool.eqb (ep_post e) ph); reflexivity.
    + assert (Hlt : t < ep_dur e) by lia.
      replace (ep_dur e - t) with (S (ep_dur e - S t)) by lia.
      cbn [firstn skipn count_phase]. rewrite (IH (S t)) by lia.
      unfold in_phase. cbn [phase_at]. apply Nat.ltb_lt in Hlt. rewrite Hlt.
      destruct (Bool.eqb (ep_post e) ph); [rewrite count_cons; destruct (c =? x); cbn; lia | rewrite andb_false_r; lia].
Qed.

(* the count over the epochs passing a phase filter = the count by global transition index *)
Lemma count_filtered : forall f ph c, (forall e, f e = Bool.eqb (ep_post e) ph) ->
  forall s row, count c (combine_if f (split_row s row)) = count_phase s ph c 0 row.
Proof.
  intros f ph c Hf s. induction s as [|e s IH]; intros row.
  - cbn. induction row as [|x r IHr]; [reflexivity|]. cbn [count_phase]. unfold in_phase in *. cbn [phase_at] in *.
    rewrite andb_false_r. cbn.
    clear IHr. generalize 1. induction r as [|y r IHr]; intros t; [reflexivity|].
    cbn [count_phase]. unfold in_phase. cbn [phase_at]. rewrite andb_false_r. cbn. apply IHr.
  - cbn [split_row]. rewrite combine_if_cons, count_phase_block by lia. rewrite Nat.sub_0_r, Hf.
    destruct (Bool.eqb (ep_post e) ph); [rewrite count_app|]; rewrite IH; reflexivity.
Qed.

Lemma is_post_flag : forall e, is_post e = Bool.eqb (ep_post e) true.
Proof. intros e. unfold is_post. destruct (ep_post e); reflexivity. Qed.
Lemma is_warm_flag : forall e, is_warm e = Bool.eqb (ep_post e) false.
Proof. intros e. unfold is_warm. destruct (ep_post e); reflexivity. Qed.

Lemma count_all_split : forall {c} (bs : list (epoch * list nat)),
  count c (combine_if is_any bs) = count c (combine_if is_warm bs) + count c (combine_if is_post bs).
Proof.
  intros c bs. induction bs as [|[e l] bs IH]; [reflexivity|].
  rewrite !combine_if_cons. unfold is_any at 1, is_warm at 1, is_post at 1.
  destruct (ep_post e); cbn [negb]; rewrite ?count_app, IH; lia.
Qed.

Lemma firstn_plus : forall {X} a b (l : list X), firstn (a + b) l = firstn a l ++ firstn b (skipn a l).
Proof.
  intros X a. induction a as [|a IH]; intros b l; [reflexivity|].
  destruct l as [|x l]; [cbn; now rewrite firstn_nil | cbn; f_equal; apply IH].
Qed.

Lemma combine_all_firstn : forall {X} s (row : list X),
  combine_if is_any (split_row s row) = firstn (total_dur s) row.
Proof.
  intros X s. induction s as [|e s IH]; intros row; [reflexivity|].
  cbn [split_row total_dur fold_right]. rewrite combine_if_cons. unfold is_any at 1.
  rewrite IH. symmetry. apply firstn_plus.
Qed.

(* length of a combined row depends only on the schedule and the row length *)
Fixpoint blen (f : epoch -> bool) (s : sched) (n : nat) : nat :=
  match s with
  | [] => 0
  | e :: s' => (if f e then Nat.min (ep_dur e) n else 0) + blen f s' (n - ep_dur e)
  end.

Lemma combine_if_length : forall {X} f s (row : list X),
  length (combine_if f (split_row s row)) = blen f s (length row).
Proof.
  intros X f s. induction s as [|e s IH]; intros row; [reflexivity|].
  cbn [split_row blen]. rewrite combine_if_cons.
  destruct (f e); [rewrite app_length, firstn_length|]; rewrite IH, skipn_length; reflexivity.
Qed.

Lemma ti_rows_rect : forall f s E n, Forall (fun r => length r = n) E ->
  Forall (fun r => length r = blen f s n) (ti_rows f s E).
Proof.
  intros f s E n HF. unfold ti_rows. rewrite Forall_forall in *. intros r Hin.
  apply in_map_iff in Hin. destruct Hin as [row [<- Hin]]. rewrite combine_if_length, (HF row Hin). reflexivity.
Qed.

(* ---------------------------------------------------------------------------------------- *)
(* np.unique                                                                                  *)
Lemma insert_u_In : forall c l x, In x (insert_u c l) <-> x = c \/ In x l.
Proof.
  intros c l x. induction l as [|y l IH]; cbn [insert_u].
  - cbn. intuition.
  - destruct (c <? y); [cbn; intuition|]. destruct (c =? y) eqn:Hcy.
    + apply Nat.eqb_eq in Hcy. subst y. cbn. intuition.
    + cbn [In]. rewrite IH. intuition.
Qed.

Lemma unique_In : forall l x, In x (unique l) <-> In x l.
Proof.
  intros l x. induction l as [|y l IH]; [reflexivity|].
  unfold unique in *. cbn [fold_right]. rewrite insert_u_In, IH. cbn. intuition.
Qed.

Inductive strictly_sorted : list nat -> Prop :=
| ss_nil : strictly_sorted []
| ss_cons : forall x l, (forall y, In y l -> x < y) -> strictly_sorted l -> strictly_sorted (x :: l).

Lemma insert_u_sorted : forall c l, strictly_sorted l -> strictly_sorted (insert_u c l).
Proof.
  intros c l H. induction H as [|x l Hx H IH]; cbn [insert_u].
  - constructor; [intros y [] | constructor].
  - destruct (c <? x) eqn:Hlt.
    + apply Nat.ltb_lt in Hlt. constructor; [|constructor; assumption].
      intros y [<-|Hy]; [exact Hlt | specialize (Hx y Hy); lia].
    + apply Nat.ltb_ge in Hlt. destruct (c =? x) eqn:Hcx; [constructor; assumption|].
      apply Nat.eqb_neq in Hcx. constructor; [|exact IH].
      intros y Hy. apply insert_u_In in Hy. destruct Hy as [->|Hy]; [lia | auto].
Qed.

Lemma unique_sorted : forall l, strictly_sorted (unique l).
Proof.
  induction l as [|y l IH]; [constructor|]. unfold unique in *. cbn [fold_right]. apply insert_u_sorted. exact IH.
Qed.

Lemma sorted_filter : forall f l, strictly_sorted l -> strictly_sorted (filter f l).
Proof.
  intros f l H. induction H as [|x l Hx H IH]; cbn [filter]; [constructor|].
  destruct (f x); [|exact IH]. constructor; [|exact IH].
  intros y Hy. apply filter_In in Hy. apply Hx. tauto.
Qed.

Lemma sorted_NoDup : forall l, strictly_sorted l -> NoDup l.
Proof.
  intros l H. induction H as [|x l Hx H IH]; constructor; [|exact IH].
  intros Hin. specialize (Hx x Hin). lia.
Qed.

(* ---------------------------------------------------------------------------------------- *)
(* _make_error_summary                                                                        *)
Definition occurs (c : nat) (A : list (list nat)) : Prop := exists row, In row A /\ In c row.

Lemma in_select_in : forall {X} m (l : list X) x, In x (select m l) -> In x l.
Proof.
  intros X. induction m as [|b m IH]; intros [|y l] x H; cbn [select] in H; try contradiction.
  destruct b; cbn in *; [destruct H as [H|H]; [left; exact H | right; eapply IH; exact H] | right; eapply IH; exact H].
Qed.

Lemma occurs_masked : forall n A c, Forall (fun r => length r = n) A -> c <> 0 ->
  (In c (concat (kel_codes (error_log_of A))) <-> occurs c A).
Proof.
  intros n A c HF Hc. unfold error_log_of, occurs. cbn [kel_codes]. rewrite in_concat. split.
  - intros [mrow [Hin Hc']]. apply in_map_iff in Hin. destruct Hin as [row [<- Hin]].
    exists row. split; [exact Hin | eapply in_select_in; exact Hc'].
  - intros [row [Hin Hc']]. exists (select (mask_of A) row). split; [apply in_map; exact Hin|].
    apply count_pos_In. rewrite select_covers_count; [apply count_pos_In; exact Hc' | | exact Hc].
    apply (proj2 (mask_covers n A HF)). exact Hin.
Qed.

Definition stored (f : epoch -> bool) (s : sched) (E : list (list nat)) := ti_rows f s E.

Lemma kernel_summary_of_some : forall s book E, s <> [] ->
  kernel_summary_of s (mkK book E) =
  Some (kernel_summary book (error_log_of (ti_rows is_any s E))
          (if existsb is_post s then Some (error_log_of (ti_rows is_post s E)) else None)).
Proof.
  intros s book E Hs. unfold kernel_summary_of, error_log, ti_store. cbn [k_E k_book].
  destruct s as [|e s]; [congruence|]. cbn [existsb is_any orb option_map].
  destruct (is_post e || existsb is_post s); reflexivity.
Qed.

(* C19_codes_complete: a code is listed iff it is non-zero and was returned by some transition of
   the run (any chain); the list is strictly increasing, hence without duplicates *)
Theorem codes_complete : forall s book E n es, Forall (fun r => length r = n) E ->
  kernel_summary_of s (mkK book E) = Some es ->
  (forall c, In c (map en_code es) <-> c <> 0 /\ occurs c (map (firstn (total_dur s)) E))
  /\ strictly_sorted (map en_code es).
Proof.
  intros s book E n es HF Hes.
  assert (Hs : s <> []).
  { intros ->. unfold kernel_summary_of, error_log, ti_store in Hes. cbn in Hes. discriminate. }
  rewrite (kernel_summary_of_some s book E Hs) in Hes. injection Hes as <-.
  unfold kernel_summary. rewrite map_map. cbn [en_code]. rewrite map_id.
  assert (Hrows : ti_rows is_any s E = map (firstn (total_dur s)) E).
  { unfold ti_rows. apply map_ext. intros row. apply combine_all_firstn. }
  split.
  - intros c. rewrite filter_In, unique_In, nz_true. split.
    + intros [Hin Hc]. split; [exact Hc|]. rewrite <- Hrows.
      apply (occurs_masked (blen is_any s n)); [apply ti_rows_rect; exact HF | exact Hc | exact Hin].
    + intros [Hc Hocc]. split; [|exact Hc]. rewrite <- Hrows in Hocc.
      apply (occurs_masked (blen is_any s n)); [apply ti_rows_rect; exact HF | exact Hc | exact Hocc].
  - apply sorted_filter, unique_sorted.
Qed.

Lemma zip_sub_map : forall {X} (f g : X -> nat) l,
  zip_sub (map f l) (map g l) = map (fun x => (Z.of_nat (f x) - Z.of_nat (g x))%Z) l.
Proof. intros X f g l. induction l as [|x l IH]; [reflexivity|]. cbn. now rewrite IH. Qed.

(* C19_counts_exact at the level of Summary.error_summary: for every listed code the reported
   per-chain totals / posterior counts are the numbers of (posterior) transitions of that chain
   that returned the code, and total - posterior is the number of warmup transitions *)
Theorem counts_exact : forall s book E n es, Forall (fun r => length r = n) E ->
  existsb is_post s = true ->
  kernel_summary_of s (mkK book E) = Some es ->
  forall e, In e es ->
    en_msg e = lookup book (en_code e)
    /\ en_total e = map (fun row => count_phase s false (en_code e) 0 row + count_phase s true (en_code e) 0 row) E
    /\ en_post e = Some (map (count_phase s true (en_code e) 0) E)
    /\ (forall ps, en_post e = Some ps ->
          zip_sub (en_total e) ps = map (fun row => Z.of_nat (count_phase s false (en_code e) 0 row)) E).
Proof.
  intros s book E n es HF Hpost Hes e Hin.
  assert (Hs : s <> []) by (intros ->; discriminate).
  rewrite (kernel_summary_of_some s book E Hs), Hpost in Hes. injection Hes as <-.
  unfold kernel_summary in Hin. apply in_map_iff in Hin. destruct Hin as [c [<- Hc]].
  apply filter_In in Hc. destruct Hc as [_ Hc]. apply nz_true in Hc. cbn [en_code en_msg en_total en_post option_map].
  assert (Htot : map (count c) (kel_codes (error_log_of (ti_rows is_any s E)))
                 = map (fun row => count_phase s false c 0 row + count_phase s true c 0 row) E).
  { rewrite (mask_lossless (blen is_any s n)); [|apply ti_rows_rect; exact HF | exact Hc].
    unfold ti_rows. rewrite map_map. apply map_ext. intros row.
    rewrite count_all_split.
    rewrite (count_filtered is_warm false c is_warm_flag), (count_filtered is_post true c is_post_flag). reflexivity. }
  assert (Hpst : map (count c) (kel_codes (error_log_of (ti_rows is_post s E)))
                 = map (count_phase s true c 0) E).
  { rewrite (mask_lossless (blen is_post s n)); [|apply ti_rows_rect; exact HF | exact Hc].
    unfold ti_rows. rewrite map_map. apply map_ext. intros row.
    apply (count_filtered is_post true c is_post_flag). }
  split; [reflexivity|]. split; [exact Htot|]. split; [rewrite Hpst; reflexivity|].
  intros ps Hps. rewrite Hpst in Hps. injection Hps as Hps. subst ps. rewrite Htot, zip_sub_map.
  apply map_ext. intros row. lia.
Qed.

(* when the scripted array has exactly one entry per transition, the total is the plain count *)
Lemma count_phase_total : forall s c row, length row <= total_dur s ->
  count_phase s false c 0 row + count_phase s true c 0 row = count c row.
Proof.
  intros s c row Hlen.
  rewrite <- (count_filtered is_warm false c is_warm_flag), <- (count_filtered is_post true c is_post_flag).
  rewrite <- count_all_split, combine_all_firstn, firstn_all2; [reflexivity | exact Hlen].
Qed.

(* ---------------------------------------------------------------------------------------- *)
(* Summary(results) and the error data frames                                                 *)
Lemma opt_all_map_some : forall {X Y} (f : X -> option Y) (g : X -> Y) l,
  (forall x, In x l -> f x = Some (g x)) -> opt_all (map f l) = Some (map g l).
Proof.
  intros X Y f g l. induction l as [|x l IH]; intros H; [reflexivity|].
  cbn [map opt_all]. rewrite (H x (or_introl eq_refl)), IH; [reflexivity|].
  intros y Hy. apply H. right. exact Hy.
Qed.

Definition kernel_entries (s : sched) (k : kernel_in) : list entry :=
  kernel_summary (k_book k) (error_log_of (ti_rows is_any s (k_E k)))
                 (Some (error_log_of (ti_rows is_post s (k_E k)))).

Lemma summarize_inv : forall r su, summarize r = Some su ->
  existsb is_post (r_sched r) = true
  /\ su_info su = sample_info_of (r_sched r) (map (pos_stored is_post (r_sched r)) (r_pos r))
  /\ su_errors su = map (kernel_entries (r_sched r)) (r_kernels r)
  /\ su_df_chain su = error_df_chain (su_info su) (su_errors su)
  /\ su_df_agg su = error_df_agg (su_info su) (su_errors su)
  /\ forallb (forallb has_msg) (su_errors su) = true.
Proof.
  intros r su H. unfold summarize, posterior_samples in H.
  destruct (existsb is_post (r_sched r)) eqn:Hp; [|discriminate].
  assert (Hs : r_sched r <> []) by (intros Heq; rewrite Heq in Hp; discriminate).
  rewrite (opt_all_map_some _ (kernel_entries (r_sched r))) in H.
  - destruct (forallb (forallb has_msg) (map (kernel_entries (r_sched r)) (r_kernels r))) eqn:Hm; [|discriminate].
    injection H as <-. cbn. auto 7.
  - intros [book E] _. rewrite (kernel_summary_of_some _ book E Hs), Hp. reflexivity.
Qed.

Lemma index_from_In : forall {X} (l : list X) i0 i x,
  In (i, x) (index_from i0 l) <-> exists j, i = i0 + j /\ nth_error l j = Some x.
Proof.
  intros X l. induction l as [|y l IH]; intros i0 i x; cbn [index_from].
  - split; [intros [] | intros [[|j] [_ H]]; discriminate].
  - cbn [In]. rewrite IH. split.
    + intros [H|[j [H1 H2]]].
      * injection H as <- <-. exists 0. split; [lia | reflexivity].
      * exists (S j). split; [lia | exact H2].
    + intros [[|j] [H1 H2]].
      * left. cbn in H2. injection H2 as <-. f_equal. lia.
      * right. exists j. split; [lia | exact H2].
Qed.

Lemma rows_from_In : forall k c m ph size cnts i r,
  In r (rows_from k c m ph size i cnts) <->
  exists j x, nth_error cnts j = Some x /\ r = mkRow k c m ph (i + j) x (rel x size).
Proof.
  intros k c m ph size cnts. induction cnts as [|y cnts IH]; intros i r; cbn [rows_from].
  - split; [intros [] | intros [[|j] [x [H _]]]; discriminate].
  - cbn [In]. rewrite IH. split.
    + intros [<-|[j [x [H1 H2]]]].
      * exists 0, y. split; [reflexivity | now rewrite Nat.add_0_r].
      * exists (S j), x. split; [exact H1 | subst r; f_equal; lia].
    + intros [[|j] [x [H1 H2]]].
      * left. cbn in H1. injection H1 as <-. subst r. now rewrite Nat.add_0_r.
      * right. exists j, x. split; [exact H1 | subst r; f_equal; lia].
Qed.

(* the groups the data frame is made of, when every entry has posterior counts *)
Definition entry_groups' (k : nat) (si : sample_info) (e : entry) : list (list drow) :=
  match en_post e with
  | None => []
  | Some ps =>
      [ rows_from k (en_code e) (en_msg e) Warmup (phase_size si Warmup) 0 (zip_sub (en_total e) ps);
        rows_from k (en_code e) (en_msg e) Posterior (phase_size si Posterior) 0 (map Z.of_nat ps) ]
  end.

Lemma df_groups_some : forall si summ,
  (forall es e, In es summ -> In e es -> en_post e <> None) ->
  df_groups si summ =
  Some (concat (flat_map (fun ke => map (entry_groups' (fst ke) si) (snd ke)) (index_from 0 summ))).
Proof.
  intros si summ H. unfold df_groups.
  assert (G : forall i0, opt_all (flat_map (fun ke => map (entry_groups (fst ke) si) (snd ke)) (index_from i0 summ))
              = Some (flat_map (fun ke => map (entry_groups' (fst ke) si) (snd ke)) (index_from i0 summ))).
  { induction summ as [|es summ IH]; intros i0; [reflexivity|].
    cbn [index_from flat_map fst snd].
    assert (L : forall l1 l2 l1' l2', opt_all l1 = Some l1' -> opt_all l2 = Some l2' ->
                @opt_all (list (list drow)) (l1 ++ l2) = Some (l1' ++ l2')).
    { induction l1 as [|[x|] l1 IHl]; intros l2 l1' l2' H1 H2; cbn in *.
      - injection H1 as <-. exact H2.
      - destruct (opt_all l1) eqn:Hl; [|discriminate]. injection H1 as <-.
        rewrite (IHl l2 l l2' eq_refl H2). reflexivity.
      - discriminate. }
    apply L.
    - apply opt_all_map_some. intros e He. unfold entry_groups, entry_groups'.
      specialize (H es e (or_introl eq_refl) He). destruct (en_post e); [reflexivity | congruence].
    - apply IH. intros es' e' H1 H2. apply (H es' e'); [right; exact H1 | exact H2]. }
  rewrite G. reflexivity.
Qed.

Lemma kernel_entries_post : forall s k e, In e (kernel_entries s k) -> en_post e <> None.
Proof.
  intros s k e H. unfold kernel_entries, kernel_summary in H. apply in_map_iff in H.
  destruct H as [c [<- _]]. cbn. discriminate.
Qed.

Lemma kernel_entries_of : forall s k, s <> [] -> existsb is_post s = true ->
  kernel_summary_of s k = Some (kernel_entries s k).
Proof.
  intros s [book E] Hs Hp. rewrite (kernel_summary_of_some s book E Hs), Hp. reflexivity.
Qed.

Definition rectangular (r : run) : Prop :=
  exists n, forall k, In k (r_kernels r) -> Forall (fun row => length row = n) (k_E k).

(* the row the specification prescribes for (kernel ki, code c, phase ph, chain ch) *)
Definition spec_count (s : sched) (ph : phase) (c : nat) (row : list nat) : Z :=
  Z.of_nat (count_phase s (phase_flag ph) c 0 row).
Definition spec_row (s : sched) (si : sample_info) (ki : nat) (kin : kernel_in) (c : nat) (ph : phase)
  (ch : nat) (row : list nat) : drow :=
  mkRow ki c (lookup (k_book kin) c) ph ch (spec_count s ph c row) (rel (spec_count s ph c row) (phase_size si ph)).

Definition occurs_in_run (s : sched) (c : nat) (kin : kernel_in) : Prop :=
  c <> 0 /\ occurs c (map (firstn (total_dur s)) (k_E kin)).

(* C19_counts_exact at the level of Summary.error_df(per_chain=True): the frame consists exactly of
   one row per (kernel, occurring code, phase, chain), carrying the kernel's message and the number
   of transitions of that chain and phase that returned the code *)
Theorem df_chain_exact : forall r su, rectangular r -> summarize r = Some su ->
  exists rows, su_df_chain su = Some rows /\
  forall x, In x rows <->
    exists ki kin c ph ch row,
      nth_error (r_kernels r) ki = Some kin /\ nth_error (k_E kin) ch = Some row /\
      occurs_in_run (r_sched r) c kin /\
      x = spec_row (r_sched r) (su_info su) ki kin c ph ch row.
Proof.
  intros r su [n Hrect] Hsu. destruct (summarize_inv r su Hsu) as [Hp [Hinfo [Herr [Hdf _]]]].
  set (s := r_sched r) in *. set (si := su_info su) in *.
  assert (Hs : s <> []) by (intros Heq; rewrite Heq in Hp; discriminate).
  rewrite Hdf, Herr. unfold error_df_chain. rewrite df_groups_some.
  2:{ intros es e Hes He. apply in_map_iff in Hes. destruct Hes as [k [<- _]].
      eapply kernel_entries_post; exact He. }
  cbn [option_map]. eexists. split; [reflexivity|]. intros x.
  rewrite in_concat. split.
  - intros [g [Hg Hx]]. apply in_concat in Hg. destruct Hg as [gs [Hgs Hg]].
    apply in_flat_map in Hgs. destruct Hgs as [[ki es] [Hke Hgs]]. cbn [fst snd] in Hgs.
    apply index_from_In in Hke. destruct Hke as [j [-> Hj]]. cbn [plus] in *.
    rewrite nth_error_map in Hj. destruct (nth_error (r_kernels r) j) as [kin|] eqn:Hkin; [|discriminate].
    cbn in Hj. injection Hj as <-.
    apply in_map_iff in Hgs. destruct Hgs as [e [<- He]].
    assert (Hk : In kin (r_kernels r)) by (eapply nth_error_In; exact Hkin).
    destruct kin as [book E]. pose proof (Hrect _ Hk) as HF. cbn [k_E] in HF.
    pose proof (kernel_entries_of s (mkK book E) Hs Hp) as Hes.
    destruct (counts_exact s book E n _ HF Hp Hes e He) as [Hmsg [Htot [Hpst Hsub]]].
    destruct (codes_complete s book E n _ HF Hes) as [Hcodes _].
    assert (Hocc : occurs_in_run s (en_code e) (mkK book E)).
    { apply Hcodes. apply in_map. exact He. }
    unfold entry_groups' in Hg. rewrite Hpst in Hg. rewrite (Hsub _ Hpst) in Hg.
    rewrite map_map in Hg.
    destruct Hg as [<-|[<-|[]]]; apply rows_from_In in Hx; destruct Hx as [ch [v [Hv ->]]];
      rewrite nth_error_map in Hv; destruct (nth_error E ch) as [row|] eqn:Hrow; try discriminate;
      cbn in Hv; injection Hv as <-.
    + exists j, (mkK book E), (en_code e), Warmup, ch, row. split; [exact Hkin|]. split; [exact Hrow|]. split; [exact Hocc|].
      unfold spec_row, spec_count. cbn [phase_flag k_book]. rewrite Hmsg. reflexivity.
    + exists j, (mkK book E), (en_code e), Posterior, ch, row. split; [exact Hkin|]. split; [exact Hrow|]. split; [exact Hocc|].
      unfold spec_row, spec_count. cbn [phase_flag k_book]. rewrite Hmsg. reflexivity.
  - intros [ki [kin [c [ph [ch [row [Hkin [Hrow [Hocc ->]]]]]]]]].
    assert (Hk : In kin (r_kernels r)) by (eapply nth_error_In; exact Hkin).
    destruct kin as [book E]. pose proof (Hrect _ Hk) as HF. cbn [k_E] in HF, Hrow.
    pose proof (kernel_entries_of s (mkK book E) Hs Hp) as Hes.
    destruct (codes_complete s book E n _ HF Hes) as [Hcodes _].
    apply Hcodes in Hocc. apply in_map_iff in Hocc. destruct Hocc as [e [<- He]].
    destruct (counts_exact s book E n _ HF Hp Hes e He) as [Hmsg [Htot [Hpst Hsub]]].
    exists (rows_from ki (en_code e) (en_msg e) ph (phase_size si ph) 0
              (map (fun row => spec_count s ph (en_code e) row) E)).
    split.
    + apply in_concat. exists (entry_groups' ki si e). split.
      * apply in_flat_map. exists (ki, kernel_entries s (mkK book E)). split.
        -- apply index_from_In. exists ki. split; [reflexivity|]. rewrite nth_error_map, Hkin. reflexivity.
        -- cbn [fst snd]. apply in_map. exact He.
      * unfold entry_groups'. rewrite Hpst, (Hsub _ Hpst), map_map.
        destruct ph; [left | right; left]; reflexivity.
    + apply rows_from_In. exists ch, (spec_count s ph (en_code e) row). split.
      * rewrite nth_error_map, Hrow. reflexivity.
      * unfold spec_row. cbn [k_book]. rewrite Hmsg. reflexivity.
Qed.

(* ---------------------------------------------------------------------------------------- *)
(* aggregation over chains                                                                    *)
Lemma rows_from_counts : forall k c m ph size cnts i, map rw_count (rows_from k c m ph size i cnts) = cnts.
Proof. intros k c m ph size cnts. induction cnts as [|x l IH]; intros i; cbn; [reflexivity | now rewrite IH]. Qed.

Lemma rows_from_rels : forall k c m ph size cnts i,
  map rw_rel (rows_from k c m ph size i cnts) = map (fun x => rel x size) cnts.
Proof. intros k c m ph size cnts. induction cnts as [|x l IH]; intros i; cbn; [reflexivity | now rewrite IH]. Qed.

Lemma aggregate_rows_from : forall k c m ph size cnts i,
  aggregate (rows_from k c m ph size i cnts) =
  match cnts with
  | [] => []
  | _ :: _ => [mkARow k c m ph (sumZ cnts) (mean_rel (map (fun x => rel x size) cnts))]
  end.
Proof.
  intros k c m ph size [|x l] i; [reflexivity|].
  unfold aggregate. rewrite rows_from_counts, rows_from_rels. reflexivity.
Qed.

Definition spec_group (s : sched) (si : sample_info) (ki : nat) (kin : kernel_in) (c : nat) (ph : phase) : list drow :=
  rows_from ki c (lookup (k_book kin) c) ph (phase_size si ph) 0 (map (spec_count s ph c) (k_E kin)).

Lemma groups_exact : forall r su, rectangular r -> summarize r = Some su ->
  exists gs, df_groups (su_info su) (su_errors su) = Some gs /\
  forall g, In g gs <->
    exists ki kin c ph, nth_error (r_kernels r) ki = Some kin /\ occurs_in_run (r_sched r) c kin /\
                        g = spec_group (r_sched r) (su_info su) ki kin c ph.
Proof.
  intros r su [n Hrect] Hsu. destruct (summarize_inv r su Hsu) as [Hp [Hinfo [Herr _]]].
  set (s := r_sched r) in *. set (si := su_info su) in *.
  assert (Hs : s <> []) by (intros Heq; rewrite Heq in Hp; discriminate).
  rewrite Herr, df_groups_some.
  2:{ intros es e Hes He. apply in_map_iff in Hes. destruct Hes as [k [<- _]].
      eapply kernel_entries_post; exact He. }
  eexists. split; [reflexivity|]. intros g. rewrite in_concat. split.
  - intros [gs [Hgs Hg]].
    apply in_flat_map in Hgs. destruct Hgs as [[ki es] [Hke Hgs]]. cbn [fst snd] in Hgs.
    apply index_from_In in Hke. destruct Hke as [j [-> Hj]]. cbn [plus] in *.
    rewrite nth_error_map in Hj. destruct (nth_error (r_kernels r) j) as [kin|] eqn:Hkin; [|discriminate].
    cbn in Hj. injection Hj as <-.
    apply in_map_iff in Hgs. destruct Hgs as [e [<- He]].
    assert (Hk : In kin (r_kernels r)) by (eapply nth_error_In; exact Hkin).
    destruct kin as [book E]. pose proof (Hrect _ Hk) as HF. cbn [k_E] in HF.
    pose proof (kernel_entries_of s (mkK book E) Hs Hp) as Hes.
    destruct (counts_exact s book E n _ HF Hp Hes e He) as [Hmsg [Htot [Hpst Hsub]]].
    destruct (codes_complete s book E n _ HF Hes) as [Hcodes _].
    assert (Hocc : occurs_in_run s (en_code e) (mkK book E)).
    { apply Hcodes. apply in_map. exact He. }
    unfold entry_groups' in Hg. rewrite Hpst in Hg. rewrite (Hsub _ Hpst) in Hg.
    rewrite map_map in Hg.
    destruct Hg as [<-|[<-|[]]].
    + exists j, (mkK book E), (en_code e), Warmup. split; [exact Hkin|]. split; [exact Hocc|].
      unfold spec_group. cbn [k_book k_E]. rewrite Hmsg. reflexivity.
    + exists j, (mkK book E), (en_code e), Posterior. split; [exact Hkin|]. split; [exact Hocc|].
      unfold spec_group. cbn [k_book k_E]. rewrite Hmsg. reflexivity.
  - intros [ki [kin [c [ph [Hkin [Hocc ->]]]]]].
    assert (Hk : In kin (r_kernels r)) by (eapply nth_error_In; exact Hkin).
    destruct kin as [book E]. pose proof (Hrect _ Hk) as HF. cbn [k_E] in HF.
    pose proof (kernel_entries_of s (mkK book E) Hs Hp) as Hes.
    destruct (codes_complete s book E n _ HF Hes) as [Hcodes _].
    apply Hcodes in Hocc. apply in_map_iff in Hocc. destruct Hocc as [e [<- He]].
    destruct (counts_exact s book E n _ HF Hp Hes e He) as [Hmsg [Htot [Hpst Hsub]]].
    exists (entry_groups' ki si e). split.
    + apply in_flat_map. exists (ki, kernel_entries s (mkK book E)). split.
      * apply index_from_In. exists ki. split; [reflexivity|]. rewrite nth_error_map, Hkin. reflexivity.
      * cbn [fst snd]. apply in_map. exact He.
    + unfold entry_groups', spec_group. rewrite Hpst, (Hsub _ Hpst), map_map. cbn [k_book k_E]. rewrite Hmsg.
      destruct ph; [left | right; left]; reflexivity.
Qed.

(* C19_aggregate: error_df(per_chain=False) has exactly one row per (kernel, occurring code, phase);
   its count is the sum over the chains of the per-chain counts, its relative frequency their mean *)
Theorem df_agg_exact : forall r su, rectangular r -> summarize r = Some su ->
  exists rows, su_df_agg su = Some rows /\
  forall a, In a rows <->
    exists ki kin c ph, nth_error (r_kernels r) ki = Some kin /\ occurs_in_run (r_sched r) c kin /\
      a = mkARow ki c (lookup (k_book kin) c) ph
                 (sumZ (map (spec_count (r_sched r) ph c) (k_E kin)))
                 (mean_rel (map (fun row => rel (spec_count (r_sched r) ph c row) (phase_size (su_info su) ph)) (k_E kin))).
Proof.
  intros r su Hrect Hsu. destruct (groups_exact r su Hrect Hsu) as [gs [Hgs Hin]].
  destruct (summarize_inv r su Hsu) as [_ [_ [_ [_ [Hagg _]]]]].
  rewrite Hagg. unfold error_df_agg. rewrite Hgs. cbn [option_map]. eexists. split; [reflexivity|].
  intros a. rewrite in_flat_map. split.
  - intros [g [Hg Ha]]. apply Hin in Hg. destruct Hg as [ki [kin [c [ph [Hkin [Hocc ->]]]]]].
    exists ki, kin, c, ph. split; [exact Hkin|]. split; [exact Hocc|].
    unfold spec_group in Ha. rewrite aggregate_rows_from in Ha.
    destruct (map (spec_count (r_sched r) ph c) (k_E kin)) as [|x l] eqn:Hm; [destruct Ha|].
    destruct Ha as [<-|[]]. rewrite <- Hm, map_map. reflexivity.
  - intros [ki [kin [c [ph [Hkin [Hocc ->]]]]]].
    exists (spec_group (r_sched r) (su_info su) ki kin c ph). split.
    + apply Hin. exists ki, kin, c, ph. auto.
    + unfold spec_group. rewrite aggregate_rows_from.
      destruct Hocc as [_ [row [Hrow _]]]. apply in_map_iff in Hrow. destruct Hrow as [row' [_ Hrow']].
      destruct (k_E kin) as [|x l] eqn:HE; [destruct Hrow'|].
      cbn [map]. left. rewrite map_map. reflexivity.
Qed.

(* the kernel's documented message: Summary(results) exists only if every occurring non-zero code
   has an entry in the kernel's error book, and that entry is the message shown in every row *)
Theorem messages_documented : forall r su, rectangular r -> summarize r = Some su ->
  forall ki kin c, nth_error (r_kernels r) ki = Some kin -> occurs_in_run (r_sched r) c kin ->
  exists m, lookup (k_book kin) c = Some m.
Proof.
  intros r su [n Hrect] Hsu ki kin c Hkin Hocc.
  destruct (summarize_inv r su Hsu) as [Hp [_ [Herr [_ [_ Hmsg]]]]].
  set (s := r_sched r) in *.
  assert (Hs : s <> []) by (intros Heq; rewrite Heq in Hp; discriminate).
  assert (Hk : In kin (r_kernels r)) by (eapply nth_error_In; exact Hkin).
  destruct kin as [book E]. pose proof (Hrect _ Hk) as HF. cbn [k_E] in HF.
  pose proof (kernel_entries_of s (mkK book E) Hs Hp) as Hes.
  destruct (codes_complete s book E n _ HF Hes) as [Hcodes _].
  apply Hcodes in Hocc. apply in_map_iff in Hocc. destruct Hocc as [e [<- He]].
  destruct (counts_exact s book E n _ HF Hp Hes e He) as [Hm _].
  rewrite Herr in Hmsg. rewrite forallb_forall in Hmsg.
  specialize (Hmsg (kernel_entries s (mkK book E)) (in_map _ _ _ Hk)).
  rewrite forallb_forall in Hmsg. specialize (Hmsg e He).
  unfold has_msg in Hmsg. cbn [k_book]. rewrite <- Hm.
  destruct (en_msg e) as [m|]; [exists m; reflexivity | discriminate].
Qed.

(* Summary(results) is defined exactly when there is a posterior epoch and every occurring non-zero
   code is documented in its kernel's error book *)
Theorem summarize_defined : forall r, rectangular r ->
  (summarize r <> None <->
   existsb is_post (r_sched r) = true /\
   forall kin c, In kin (r_kernels r) -> occurs_in_run (r_sched r) c kin -> lookup (k_book kin) c <> None).
Proof.
  intros r Hrect. split.
  - intros Hne. destruct (summarize r) as [su|] eqn:Hsu; [|congruence].
    split; [exact (proj1 (summarize_inv r su Hsu))|].
    intros kin c Hk Hocc. apply In_nth_error in Hk. destruct Hk as [ki Hki].
    destruct (messages_documented r su Hrect Hsu ki kin c Hki Hocc) as [m Hm]. congruence.
  - intros [Hp Hdoc]. destruct Hrect as [n Hrect].
    set (s := r_sched r) in *.
    assert (Hs : s <> []) by (intros Heq; rewrite Heq in Hp; discriminate).
    unfold summarize, posterior_samples. fold s. rewrite Hp.
    rewrite (opt_all_map_some _ (kernel_entries s)).
    2:{ intros k _. apply kernel_entries_of; assumption. }
    assert (Hall : forallb (forallb has_msg) (map (kernel_entries s) (r_kernels r)) = true).
    { apply forallb_forall. intros es Hes. apply in_map_iff in Hes. destruct Hes as [kin [<- Hk]].
      apply forallb_forall. intros e He.
      destruct kin as [book E]. pose proof (Hrect _ Hk) as HF. cbn [k_E] in HF.
      pose proof (kernel_entries_of s (mkK book E) Hs Hp) as Hes.
      destruct (codes_complete s book E n _ HF Hes) as [Hcodes _].
      destruct (counts_exact s book E n _ HF Hp Hes e He) as [Hm _].
      assert (Hocc : occurs_in_run s (en_code e) (mkK book E)) by (apply Hcodes; apply in_map; exact He).
      specialize (Hdoc _ _ Hk Hocc). cbn [k_book] in Hdoc.
      unfold has_msg. rewrite Hm. destruct (lookup book (en_code e)); [reflexivity | congruence]. }
    rewrite Hall. discriminate.
Qed.

(* ---------------------------------------------------------------------------------------- *)
(* the per-chain frame is literally the specification's comprehension                         *)
Lemma sorted_ext : forall l1 l2, strictly_sorted l1 -> strictly_sorted l2 ->
  (forall x, In x l1 <-> In x l2) -> l1 = l2.
Proof.
  intros l1 l2 H1. revert l2. induction H1 as [|x l1 Hx H1 IH]; intros l2 H2 Hiff.
  - destruct l2 as [|y l2]; [reflexivity|]. exfalso. apply (proj2 (Hiff y)). left. reflexivity.
  - destruct H2 as [|y l2 Hy H2].
    + exfalso. apply (proj1 (Hiff x)). left. reflexivity.
    + assert (Hxy : x = y).
      { destruct (proj1 (Hiff x) (or_introl eq_refl)) as [Heq|Hin]; [congruence|].
        destruct (proj2 (Hiff y) (or_introl eq_refl)) as [Heq|Hin']; [congruence|].
        specialize (Hx y Hin'). specialize (Hy x Hin). lia. }
      subst y. f_equal. apply IH; [exact H2|]. intros z. split; intros Hz.
      * destruct (proj1 (Hiff z) (or_intror Hz)) as [Heq|Hin]; [|exact Hin].
        subst z. specialize (Hx x Hz). lia.
      * destruct (proj2 (Hiff z) (or_intror Hz)) as [Heq|Hin]; [|exact Hin].
        subst z. specialize (Hy x Hz). lia.
Qed.

(* the non-zero codes some transition of the run returned, ascending *)
Definition spec_codes (s : sched) (kin : kernel_in) : list nat :=
  filter nz (unique (concat (map (firstn (total_dur s)) (k_E kin)))).

Definition spec_df (s : sched) (si : sample_info) (ks : list kernel_in) : list drow :=
  concat (concat (flat_map
    (fun ke => map (fun c => [spec_group s si (fst ke) (snd ke) c Warmup;
                              spec_group s si (fst ke) (snd ke) c Posterior])
                   (spec_codes s (snd ke)))
    (index_from 0 ks))).

Lemma spec_codes_In : forall s kin c, In c (spec_codes s kin) <-> occurs_in_run s c kin.
Proof.
  intros s kin c. unfold spec_codes, occurs_in_run, occurs.
  rewrite filter_In, unique_In, nz_true, in_concat. tauto.
Qed.

Lemma index_from_map : forall {X Y} (f : X -> Y) l i,
  index_from i (map f l) = map (fun p => (fst p, f (snd p))) (index_from i l).
Proof. intros X Y f l. induction l as [|x l IH]; intros i; cbn; [reflexivity | now rewrite IH]. Qed.

Lemma flat_map_map : forall {X Y Z} (h : X -> Y) (g : Y -> list Z) l,
  flat_map g (map h l) = flat_map (fun x => g (h x)) l.
Proof. intros X Y Z h g l. induction l as [|x l IH]; cbn; [reflexivity | now rewrite IH]. Qed.

Lemma kernel_entries_spec : forall s si ki kin n, s <> [] -> existsb is_post s = true ->
  Forall (fun row => length row = n) (k_E kin) ->
  map (entry_groups' ki si) (kernel_entries s kin) =
  map (fun c => [spec_group s si ki kin c Warmup; spec_group s si ki kin c Posterior]) (spec_codes s kin).
Proof.
  intros s si ki [book E] n Hs Hp HF. cbn [k_E] in HF.
  pose proof (kernel_entries_of s (mkK book E) Hs Hp) as Hes.
  destruct (codes_complete s book E n _ HF Hes) as [Hcodes Hsorted].
  assert (Hc : map en_code (kernel_entries s (mkK book E)) = spec_codes s (mkK book E)).
  { apply sorted_ext; [exact Hsorted | apply sorted_filter, unique_sorted|].
    intros c. rewrite spec_codes_In. apply Hcodes. }
  rewrite <- Hc, map_map. apply map_ext_in. intros e He.
  destruct (counts_exact s book E n _ HF Hp Hes e He) as [Hmsg [Htot [Hpst Hsub]]].
  unfold entry_groups', spec_group. rewrite Hpst, (Hsub _ Hpst), map_map. cbn [k_book k_E]. rewrite Hmsg.
  reflexivity.
Qed.

Theorem df_chain_is_spec : forall r su, rectangular r -> summarize r = Some su ->
  su_df_chain su = Some (spec_df (r_sched r) (su_info su) (r_kernels r)).
Proof.
  intros r su [n Hrect] Hsu. destruct (summarize_inv r su Hsu) as [Hp [_ [Herr [Hdf _]]]].
  set (s := r_sched r) in *. set (si := su_info su) in *.
  assert (Hs : s <> []) by (intros Heq; rewrite Heq in Hp; discriminate).
  rewrite Hdf, Herr. unfold error_df_chain. rewrite df_groups_some.
  2:{ intros es e Hes He. apply in_map_iff in Hes. destruct Hes as [k [<- _]].
      eapply kernel_entries_post; exact He. }
  cbn [option_map]. unfold spec_df. do 3 f_equal.
  rewrite index_from_map, flat_map_map. cbn [fst snd].
  rewrite !flat_map_concat_map. f_equal. apply map_ext_in. intros [ki kin] Hin. cbn [fst snd].
  apply index_from_In in Hin. destruct Hin as [j [_ Hj]].
  apply (kernel_entries_spec s si ki kin n Hs Hp). apply Hrect. eapply nth_error_In; exact Hj.
Qed.

(* the mean of the per-chain relative frequencies is (sum of counts) / (chains * size) *)
Lemma sumQ_rel : forall size l, size <> 0 ->
  exists t, sumQ_opt (map (fun x => rel x size) l) = Some t /\ (t == Qmake (sumZ l) (Pos.of_nat size))%Q.
Proof.
  intros size l Hsz. induction l as [|x l [t [Ht Heq]]].
  - exists 0%Q. split; [reflexivity|]. cbn. unfold Qeq. cbn. reflexivity.
  - cbn [map sumQ_opt]. unfold rel at 1. destruct (size =? 0) eqn:Hz; [apply Nat.eqb_eq in Hz; contradiction|].
    rewrite Ht. eexists. split; [reflexivity|]. rewrite Heq. cbn [sumZ fold_right].
    unfold Qeq, Qplus. cbn [Qnum Qden]. unfold sumZ. rewrite Pos2Z.inj_mul. ring.
Qed.

Lemma Z_of_nat_pos : forall n, n <> 0 -> Z.of_nat n = Zpos (Pos.of_nat n).
Proof.
  intros n H. rewrite <- (Znat.positive_nat_Z (Pos.of_nat n)), Nat2Pos.id by exact H. reflexivity.
Qed.

Theorem mean_rel_exact : forall size l, size <> 0 -> l <> [] ->
  exists q, mean_rel (map (fun x => rel x size) l) = Some q
            /\ (q == Qmake (sumZ l) (Pos.of_nat (length l * size)))%Q.
Proof.
  intros size l Hsz Hl. destruct (sumQ_rel size l Hsz) as [t [Ht Heq]].
  unfold mean_rel. rewrite Ht, map_length. cbn [option_map]. eexists. split; [reflexivity|].
  rewrite Heq. assert (Hn : length l <> 0) by (destruct l; [congruence | discriminate]).
  rewrite Nat2Pos.inj_mul by assumption.
  rewrite (Z_of_nat_pos (length l) Hn).
  unfold Qeq, Qdiv, Qmult, Qinv, inject_Z. cbn [Qnum Qden Z.mul]. rewrite !Pos2Z.inj_mul. ring.
Qed.

(* ---------------------------------------------------------------------------------------- *)
(* sample counts                                                                              *)
Lemma div_succ : forall th i, 0 < th ->
  (S i) / th = i / th + (if (S i) mod th =? 0 then 1 else 0).
Proof.
  intros th i Hth.
  pose proof (Nat.div_mod i th ltac:(lia)) as Hdm.
  pose proof (Nat.mod_upper_bound i th ltac:(lia)) as Hub.
  set (q := i / th) in *. set (m := i mod th) in *.
  destruct (Nat.eq_dec (S m) th) as [Heq|Hne].
  - assert (Hq : S q = S i / th) by (apply (Nat.div_unique (S i) th (S q) 0); lia).
    assert (Hm : 0 = S i mod th) by (apply (Nat.mod_unique (S i) th (S q) 0); lia).
    rewrite <- Hq, <- Hm. cbn. lia.
  - assert (Hq : q = S i / th) by (apply (Nat.div_unique (S i) th q (S m)); lia).
    assert (Hm : S m = S i mod th) by (apply (Nat.mod_unique (S i) th q (S m)); lia).
    rewrite <- Hq, <- Hm. cbn. lia.
Qed.

Lemma kept_from_length : forall {X} th (l : list X) i, 0 < th ->
  length (kept_from i th l) = (i + length l) / th - i / th.
Proof.
  intros X th l. induction l as [|x l IH]; intros i Hth.
  - cbn. rewrite Nat.add_0_r. lia.
  - cbn [kept_from length]. pose proof (div_succ th i Hth) as Hd.
    assert (Hmono : S i / th <= (S i + length l) / th) by (apply Nat.div_le_mono; lia).
    replace (i + S (length l)) with (S i + length l) by lia.
    destruct (S i mod th =? 0); cbn [length]; rewrite IH by exact Hth; lia.
Qed.

(* number of samples stored for a block of m transitions of epoch e *)
Definition block_stored (e : epoch) (m : nat) : nat := if 1 <? ep_thin e then m / ep_thin e else m.

Fixpoint slen (f : epoch -> bool) (s : sched) (n : nat) : nat :=
  match s with
  | [] => 0
  | e :: s' => (if f e then block_stored e (Nat.min (ep_dur e) n) else 0) + slen f s' (n - ep_dur e)
  end.

Lemma pos_stored_length : forall {X} f s (row : list X), length (pos_stored f s row) = slen f s (length row).
Proof.
  intros X f s. induction s as [|e s IH]; intros row; [reflexivity|].
  unfold pos_stored in *. cbn [split_row map slen]. unfold thin_block at 1. cbn [fst snd].
  rewrite combine_if_cons. destruct (f e).
  - rewrite app_length, IH, skipn_length. f_equal. unfold block_stored.
    destruct (1 <? ep_thin e) eqn:Hth.
    + apply Nat.ltb_lt in Hth. rewrite kept_from_length by lia. rewrite firstn_length.
      cbn [plus]. rewrite Nat.div_0_l by lia. lia.
    + apply firstn_length.
  - rewrite IH, skipn_length. reflexivity.
Qed.

Lemma slen_total : forall f s extra,
  slen f s (total_dur s + extra) = fold_right (fun e n => (if f e then stored_len e else 0) + n) 0 s.
Proof.
  intros f s. induction s as [|e s IH]; intros extra; [reflexivity|].
  cbn [slen fold_right]. change (total_dur (e :: s)) with (ep_dur e + total_dur s).
  replace (ep_dur e + total_dur s + extra - ep_dur e) with (total_dur s + extra) by lia.
  rewrite IH. f_equal. destruct (f e); [|reflexivity].
  unfold block_stored, stored_len. rewrite Nat.min_l by lia. reflexivity.
Qed.

Definition stored_sum (f : epoch -> bool) (s : sched) : nat :=
  fold_right (fun e n => (if f e then stored_len e else 0) + n) 0 s.

(* number of transitions lying in an epoch of the given phase *)
Fixpoint transitions_in (s : sched) (post : bool) (t n : nat) : nat :=
  match n with
  | O => 0
  | S n' => (if in_phase s t post then 1 else 0) + transitions_in s post (S t) n'
  end.

Lemma transitions_in_shift : forall e s ph n t, ep_dur e <= t ->
  transitions_in (e :: s) ph t n = transitions_in s ph (t - ep_dur e) n.
Proof.
  intros e s ph n. induction n as [|n IH]; intros t H; [reflexivity|].
  cbn [transitions_in]. unfold in_phase. rewrite (phase_at_shift e s t H), (IH (S t)) by lia.
  replace (S t - ep_dur e) with (S (t - ep_dur e)) by lia. reflexivity.
Qed.

Lemma transitions_in_block : forall e s ph k t, t + k = ep_dur e ->
  forall n, transitions_in (e :: s) ph t (k + n) = (if Bool.eqb (ep_post e) ph then k else 0) + transitions_in s ph 0 n.
Proof.
  intros e s ph k. induction k as [|k IH]; intros t H n.
  - cbn [plus]. rewrite transitions_in_shift by lia. replace (t - ep_dur e) with 0 by lia.
    destruct (Bool.eqb (ep_post e) ph); reflexivity.
  - cbn [plus transitions_in]. rewrite (IH (S t)) by lia. unfold in_phase. cbn [phase_at].
    assert (Hlt : t <? ep_dur e = true) by (apply Nat.ltb_lt; lia). rewrite Hlt.
    destruct (Bool.eqb (ep_post e) ph); lia.
Qed.

Lemma warmup_size_is_transitions : forall s,
  total_dur (filter is_warm s) = transitions_in s false 0 (total_dur s).
Proof.
  induction s as [|e s IH]; [reflexivity|].
  change (total_dur (e :: s)) with (ep_dur e + total_dur s).
  rewrite (transitions_in_block e s false (ep_dur e) 0) by lia.
  rewrite <- IH. cbn [filter]. unfold is_warm at 1. destruct (ep_post e); cbn [negb Bool.eqb]; [reflexivity|].
  change (total_dur (e :: filter is_warm s)) with (ep_dur e + total_dur (filter is_warm s)). reflexivity.
Qed.

Lemma posterior_unthinned_size : forall s, (forall e, In e s -> ep_post e = true -> ep_thin e <= 1) ->
  stored_sum is_post s = transitions_in s true 0 (total_dur s).
Proof.
  induction s as [|e s IH]; intros H; [reflexivity|].
  unfold stored_sum in *. cbn [fold_right]. change (total_dur (e :: s)) with (ep_dur e + total_dur s).
  rewrite (transitions_in_block e s true (ep_dur e) 0) by lia.
  rewrite <- IH by (intros e' He'; apply H; right; exact He').
  unfold is_post at 1. destruct (ep_post e) eqn:Hp; cbn [Bool.eqb]; [|reflexivity].
  unfold stored_len. specialize (H e (or_introl eq_refl) Hp).
  destruct (1 <? ep_thin e) eqn:Hth; [apply Nat.ltb_lt in Hth; lia | reflexivity].
Qed.

(* C19_sample_counts: what sample_info reports against what is stored *)
Theorem sample_counts : forall r su n, summarize r = Some su ->
  Forall (fun row => length row = n) (r_pos r) ->
  exists post, posterior_samples (r_sched r) (r_pos r) = Some post
    /\ si_chains (su_info su) = length post /\ length post = length (r_pos r)
    /\ (r_pos r <> [] -> Forall (fun chain => length chain = si_size (su_info su)) post)
    /\ (r_pos r <> [] -> n = total_dur (r_sched r) -> si_size (su_info su) = stored_sum is_post (r_sched r))
    /\ si_warmup (su_info su) = transitions_in (r_sched r) false 0 (total_dur (r_sched r)).
Proof.
  intros r su n Hsu HF. destruct (summarize_inv r su Hsu) as [Hp [Hinfo _]].
  unfold posterior_samples. rewrite Hp. eexists. split; [reflexivity|].
  rewrite Hinfo. unfold sample_info_of. cbn [si_chains si_size si_warmup]. rewrite map_length.
  split; [reflexivity|]. split; [reflexivity|].
  assert (Hlen : forall row, In row (r_pos r) -> length (pos_stored is_post (r_sched r) row) = slen is_post (r_sched r) n).
  { intros row Hin. rewrite pos_stored_length. rewrite Forall_forall in HF. rewrite (HF row Hin). reflexivity. }
  assert (Hrl : r_pos r <> [] -> row_len (map (pos_stored is_post (r_sched r)) (r_pos r)) = slen is_post (r_sched r) n).
  { destruct (r_pos r) as [|row0 rest]; [congruence|]. intros _. cbn [map row_len]. apply Hlen. left. reflexivity. }
  split; [|split].
  - intros Hne. rewrite (Hrl Hne). rewrite Forall_forall. intros chain Hin.
    apply in_map_iff in Hin. destruct Hin as [row [<- Hin]]. apply Hlen. exact Hin.
  - intros Hne ->. rewrite (Hrl Hne). rewrite <- (Nat.add_0_r (total_dur (r_sched r))). apply slen_total.
  - apply warmup_size_is_transitions.
Qed.

(* ---------------------------------------------------------------------------------------- *)
(* what the bookkeeping does NOT guarantee (faithful to the code, see notes/C19.md)            *)

(* with a thinned warmup epoch, warmup_size_per_chain (sum of durations) is not the number of stored
   warmup samples *)
Theorem warmup_size_is_not_stored_refuted :
  ~ (forall s (row : list nat), length row = total_dur s ->
       total_dur (filter is_warm s) = length (pos_stored is_warm s row)).
Proof.
  intros H. specialize (H [mkEp false 4 2; mkEp true 2 1] [1; 2; 3; 4; 5; 6] eq_refl).
  vm_compute in H. discriminate.
Qed.

(* with a thinned posterior epoch the reported relative frequency is (error transitions) / (stored
   samples) and can exceed 1 *)
Definition thinned_run : run :=
  mkRun [mkEp true 4 2] [mkK [(1, "boom"%string)] [[1; 1; 1; 1]]] [0%Z] [[1; 2; 3; 4]%Z].

Theorem relative_exceeds_one_refuted :
  ~ (forall r su rows x q, summarize r = Some su -> su_df_chain su = Some rows -> In x rows ->
       rw_rel x = Some q -> (q <= 1)%Q).
Proof.
  intros H.
  assert (Hle : (2 <= 1)%Q).
  { refine (H thinned_run _ _ (mkRow 0 1 (Some "boom"%string) Posterior 0 4%Z (Some (4 # 2)%Q)) (4 # 2)%Q eq_refl eq_refl _ eq_refl).
    vm_compute. right. left. reflexivity. }
  vm_compute in Hle. apply Hle. reflexivity.
Qed.

(* ---------------------------------------------------------------------------------------- *)
(* the hypotheses of the theorems are satisfiable on a non-trivial run                        *)
Definition ex_sched : sched := [mkEp false 3 1; mkEp false 2 2; mkEp true 4 2; mkEp true 2 1].
Definition ex_run : run :=
  mkRun ex_sched
        [ mkK [(1, "one"%string); (2, "two"%string)] [[0; 1; 0; 2; 0; 1; 0; 0; 2; 1; 0]; [0; 0; 0; 0; 0; 2; 2; 0; 0; 0; 0]];
          mkK [(3, "three"%string)] [[0; 0; 0; 0; 0; 0; 0; 0; 0; 0; 0]; [3; 0; 0; 0; 0; 0; 0; 0; 0; 0; 3]] ]
        [7; 8]%Z
        [[1; 2; 3; 4; 5; 6; 7; 8; 9; 10; 11]%Z; [1001; 1002; 1003; 1004; 1005; 1006; 1007; 1008; 1009; 1010; 1011]%Z].

Lemma ex_run_rectangular : rectangular ex_run.
Proof.
  exists 11. intros k [<-|[<-|[]]]; cbn [k_E]; repeat constructor.
Qed.

Lemma ex_run_summarized : exists su, summarize ex_run = Some su
  /\ su_info su = mkSI 2 4 5
  /\ map (map en_code) (su_errors su) = [[1; 2]; [3]]
  /\ option_map (@length _) (su_df_chain su) = Some 12
  /\ option_map (@length _) (su_df_agg su) = Some 6.
Proof. eexists. split; [vm_compute; reflexivity|]. vm_compute. auto. Qed.

Lemma ex_mask : Forall (fun r => length r = 4) [[0; 2; 0; 1]; [3; 0; 0; 1]]
  /\ error_log_of [[0; 2; 0; 1]; [3; 0; 0; 1]] = mkKel [0; 1; 3] [[0; 2; 1]; [3; 0; 1]].
Proof. split; [repeat constructor | reflexivity]. Qed.

Lemma ex_counts : Forall (fun r => length r = 11) (k_E (nth 0 (r_kernels ex_run) (mkK [] [])))
  /\ existsb is_post ex_sched = true
  /\ kernel_summary_of ex_sched (nth 0 (r_kernels ex_run) (mkK [] [])) =
     Some [ mkEntry 1 (Some "one"%string) [3; 0] (Some [2; 0]); mkEntry 2 (Some "two"%string) [2; 2] (Some [1; 2]) ].
Proof. split; [repeat constructor | split; reflexivity]. Qed.
