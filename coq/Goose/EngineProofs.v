(* Proofs about the engine model (Engine.v) against the documented lifecycle (EngineSpec.v). *)
From Coq Require Import List ZArith Bool Lia Arith.
Import ListNotations.
From LV Require Import Goose.Epoch Goose.EpochProofs Goose.Engine Goose.EngineSpec.
Open Scope Z_scope.

(* ------------------------------------------------------------------------------------------ *)
(* small list facts *)
Lemma zrange_S a n : zrange a (S n) = a :: zrange (a + 1) n.
Proof.
  unfold zrange. cbn [seq map]. f_equal; [lia|].
  rewrite <- seq_shift, map_map. apply map_ext. intros i. lia.
Qed.

Lemma zrange_app a n m : zrange a (n + m) = zrange a n ++ zrange (a + Z.of_nat n) m.
Proof.
  revert a; induction n as [|n IH]; intros a.
  - cbn [Nat.add]. unfold zrange at 2. cbn. f_equal. lia.
  - cbn [Nat.add]. rewrite !zrange_S, IH. cbn [app]. do 3 f_equal. lia.
Qed.

Lemma zrange_length a n : length (zrange a n) = n.
Proof. unfold zrange. now rewrite map_length, seq_length. Qed.

Lemma in_zrange a n x : In x (zrange a n) <-> a <= x < a + Z.of_nat n.
Proof.
  unfold zrange. rewrite in_map_iff. split.
  - intros [i [<- Hi]]. apply in_seq in Hi. lia.
  - intros H. exists (Z.to_nat (x - a)). split; [lia|]. apply in_seq. lia.
Qed.

Lemma filter_flat_map {A B} (p : B -> bool) (g : A -> list B) l :
  filter p (flat_map g l) = flat_map (fun x => filter p (g x)) l.
Proof. induction l as [|x l IH]; cbn; [reflexivity|]. now rewrite filter_app, IH. Qed.

Lemma flat_map_singleton {A B} (f : A -> B) l : flat_map (fun x => [f x]) l = map f l.
Proof. induction l as [|x l IH]; cbn; [reflexivity|]. now rewrite IH. Qed.

(* ------------------------------------------------------------------------------------------ *)
(* calls of a kernel-sequence method do not depend on the key *)
Lemma kseq_calls nk f k : map fst (kseq nk f k) = for_kernels nk f.
Proof. unfold kseq, for_kernels. rewrite map_map. reflexivity. Qed.

Definition ccalls (c : core) : list call := map fst (c_trace c).

Lemma ccalls_emit c l : ccalls (emit c l) = ccalls c ++ map fst l.
Proof. unfold ccalls, emit. cbn. apply map_app. Qed.

(* ------------------------------------------------------------------------------------------ *)
(* views *)
Lemma advance_view before c t : advance_time (view before c t) 1 = view before c (t + 1).
Proof. unfold advance_time, view. cbn. f_equal. lia. Qed.

Lemma to_state_view before c :
  to_state (mkS c (length before) (sum_dur before)) = view before c 0.
Proof. unfold to_state, view. cbn. f_equal. lia. Qed.

(* ------------------------------------------------------------------------------------------ *)
(* the scan: m steps from within-epoch time t *)
Definition trans_calls (nk : nat) (before : list econf) (c : econf) (t : Z) (m : nat) : list call :=
  flat_map (fun j => for_kernels nk (fun i => CTrans i (is_adapt (ety_ c)) (view before c j))) (zrange t m).
Definition stamps (before : list econf) (t : Z) (m : nat) : list Z :=
  map (fun j => Z.of_nat (length before) * 1000 + j + 1) (zrange t m).

Lemma sample_many_spec P before c keys : forall t,
  exists cs, sample_many P (view before c t) keys
             = (view before c (t + Z.of_nat (length keys)), cs, stamps before t (length keys))
    /\ map fst cs = trans_calls (nker P) before c t (length keys).
Proof.
  induction keys as [|k r IH]; intros t.
  - exists []. cbn [length Z.of_nat sample_many]. rewrite Z.add_0_r. split; reflexivity.
  - destruct (IH (t + 1)) as [cs2 [E2 C2]].
    cbn [sample_many]. unfold scan_f. rewrite advance_view, E2.
    eexists. split.
    + cbn [length]. replace (t + Z.of_nat (S (length r))) with (t + 1 + Z.of_nat (length r)) by lia.
      unfold stamps. rewrite zrange_S. cbn [map]. unfold iter_stamp, view. cbn [v_nth v_tin].
      reflexivity.
    + rewrite map_app. rewrite kseq_calls. rewrite C2. cbn [length]. unfold trans_calls.
      rewrite zrange_S. cbn [flat_map]. reflexivity.
Qed.

(* ------------------------------------------------------------------------------------------ *)
(* thinning of the position chain: chunk by chunk = filter over the whole epoch *)
Definition rec_upto (before : list econf) (c : econf) (t : Z) : list Z :=
  map (fun u => Z.of_nat (length before) * 1000 + u)
      (filter (fun u => u mod thin c =? 0) (zrange 1 (Z.to_nat t))).

Lemma recorded_rec_upto before c : recorded before c = rec_upto before c (dur c).
Proof. reflexivity. Qed.

Lemma thin_chunk th K m : forall cnt o a, cnt + o = a + 1 ->
  map snd (filter (fun p : Z * Z => (cnt + fst p) mod th =? 0)
                  (combine (zrange o m) (map (fun j => K + j + 1) (zrange a m))))
  = map (fun u => K + u) (filter (fun u => u mod th =? 0) (zrange (a + 1) m)).
Proof.
  induction m as [|m IH]; intros cnt o a H; [reflexivity|].
  rewrite !zrange_S. cbn [map combine filter fst].
  replace (cnt + o) with (a + 1) by lia.
  specialize (IH cnt (o + 1) (a + 1) ltac:(lia)).
  destruct ((a + 1) mod th =? 0); cbn [map snd]; rewrite IH; [f_equal; lia|reflexivity].
Qed.

Lemma thin_append_spec before c t m : 0 <= t -> 1 <= thin c ->
  thin_append (thin c) (if 1 <? thin c then 1 + t else 1) (rec_upto before c t) (stamps before t m)
  = (if 1 <? thin c then 1 + (t + Z.of_nat m) else 1, rec_upto before c (t + Z.of_nat m)).
Proof.
  intros Ht Hth. unfold thin_append, rec_upto.
  replace (Z.to_nat (t + Z.of_nat m)) with (Z.to_nat t + m)%nat by lia.
  rewrite zrange_app, filter_app, map_app. rewrite Z2Nat.id by lia.
  destruct (1 <? thin c) eqn:E.
  - unfold stamps. rewrite map_length, zrange_length. f_equal; [lia|]. f_equal.
    rewrite (thin_chunk (thin c) (Z.of_nat (length before) * 1000) m (1 + t) 0 t) by lia.
    replace (t + 1) with (1 + t) by lia. reflexivity.
  - f_equal. f_equal. apply Z.ltb_ge in E. assert (thin c = 1) as -> by lia.
    unfold stamps. replace (1 + t) with (t + 1) by lia.
    assert (forall l, filter (fun u => u mod 1 =? 0) l = l) as ->.
    { induction l as [|x l IH]; cbn [filter]; [reflexivity|]. rewrite Z.mod_1_r. cbn. now rewrite IH. }
    clear. revert t. induction m as [|m IH]; intros t; [reflexivity|].
    rewrite !zrange_S. cbn [map]. rewrite IH. f_equal. lia.
Qed.

(* ------------------------------------------------------------------------------------------ *)
(* the chunked outer loop = one flat sequence of transitions *)
Definition same_flags (c c' : core) : Prop := c_warm c' = c_warm c /\ c_ntune c' = c_ntune c.

Lemma chunk_step_spec P before c t co : 0 <= t -> 1 <= thin c -> 0 < p_chunk P ->
  exists co',
    chunk_step P (mkL (view before c t) co (if 1 <? thin c then 1 + t else 1) (rec_upto before c t))
    = mkL (view before c (t + p_chunk P)) co'
          (if 1 <? thin c then 1 + (t + p_chunk P) else 1) (rec_upto before c (t + p_chunk P))
    /\ ccalls co' = ccalls co ++ trans_calls (nker P) before c t (Z.to_nat (p_chunk P))
    /\ same_flags co co'.
Proof.
  intros Ht Hth Hch. unfold chunk_step. cbn [l_c l_e l_counter l_chain split_prng_key].
  set (keys := map (fun i => split (c_key co) (S (Z.to_nat (p_chunk P))) i) (seq 1 (Z.to_nat (p_chunk P)))).
  assert (Hlen : length keys = Z.to_nat (p_chunk P)) by (unfold keys; now rewrite map_length, seq_length).
  destruct (sample_many_spec P before c keys t) as [cs [E C]].
  rewrite E. cbn [view v_cfg]. rewrite Hlen.
  rewrite (thin_append_spec before c t (Z.to_nat (p_chunk P)) Ht Hth).
  rewrite Z2Nat.id by lia.
  eexists. split; [reflexivity|]. split.
  - rewrite ccalls_emit. unfold ccalls at 1. cbn [c_trace]. rewrite C, Hlen. reflexivity.
  - split; reflexivity.
Qed.

Lemma trans_calls_app nk before c t n m :
  trans_calls nk before c t (n + m) = trans_calls nk before c t n ++ trans_calls nk before c (t + Z.of_nat n) m.
Proof. unfold trans_calls. now rewrite zrange_app, flat_map_app. Qed.

Lemma chunk_loop_spec P before c n : forall t co, 0 <= t -> 1 <= thin c -> 0 < p_chunk P ->
  exists co',
    chunk_loop P n (mkL (view before c t) co (if 1 <? thin c then 1 + t else 1) (rec_upto before c t))
    = mkL (view before c (t + Z.of_nat n * p_chunk P)) co'
          (if 1 <? thin c then 1 + (t + Z.of_nat n * p_chunk P) else 1)
          (rec_upto before c (t + Z.of_nat n * p_chunk P))
    /\ ccalls co' = ccalls co ++ trans_calls (nker P) before c t (n * Z.to_nat (p_chunk P))
    /\ same_flags co co'.
Proof.
  induction n as [|n IH]; intros t co Ht Hth Hch.
  - exists co. cbn [chunk_loop Z.of_nat Nat.mul]. rewrite Z.mul_0_l, Z.add_0_r.
    split; [reflexivity|]. split; [|split; reflexivity].
    unfold trans_calls, zrange. cbn. now rewrite app_nil_r.
  - cbn [chunk_loop].
    destruct (chunk_step_spec P before c t co Ht Hth Hch) as [c1 [E1 [C1 [W1 N1]]]].
    rewrite E1.
    destruct (IH (t + p_chunk P) c1 ltac:(lia) Hth Hch) as [c2 [E2 [C2 [W2 N2]]]].
    rewrite E2. exists c2.
    replace (t + p_chunk P + Z.of_nat n * p_chunk P) with (t + Z.of_nat (S n) * p_chunk P) by lia.
    split; [reflexivity|]. split.
    + rewrite C2, C1, <- app_assoc. f_equal. cbn [Nat.mul]. rewrite trans_calls_app.
      rewrite Z2Nat.id by lia. reflexivity.
    + split; congruence.
Qed.

(* ------------------------------------------------------------------------------------------ *)
(* one epoch of the engine = one epoch of the documented lifecycle *)
Definition inv (fl : warmflag) (before : list econf) (co : core) : Prop :=
  c_warm co = match fl with SetsFlag => has_post before | NeverSets => false end
  /\ c_ntune co = n_adapt before.

Lemma has_post_snoc before c : has_post (before ++ [c]) = has_post before || is_post (ety_ c).
Proof. unfold has_post, etys. rewrite map_app, existsb_app. cbn. now rewrite orb_false_r. Qed.

Lemma n_adapt_snoc before c :
  n_adapt (before ++ [c]) = (n_adapt before + if is_adapt (ety_ c) then 1 else 0)%nat.
Proof.
  unfold n_adapt, etys. rewrite map_app, filter_app, app_length. cbn.
  destruct (is_adapt (ety_ c)); reflexivity.
Qed.

Lemma start_epoch_spec P before c co : inv (p_flag P) before co ->
  ccalls (start_epoch P (view before c 0) co)
  = ccalls co ++ (if warmup_ends_here (p_flag P) before c
                  then for_kernels (nker P) (fun k => CEndWarmup k (n_adapt before)) else [])
  /\ c_ntune (start_epoch P (view before c 0) co) = n_adapt before
  /\ c_warm (start_epoch P (view before c 0) co)
     = match p_flag P with SetsFlag => has_post before || is_post (ety_ c) | NeverSets => false end.
Proof.
  intros [Hw Hn]. unfold start_epoch, warmup_ends_here. cbn [view v_cfg]. rewrite Hw.
  destruct (is_post (ety_ c)) eqn:Ep.
  - destruct (p_flag P) eqn:Ef.
    + destruct (has_post before) eqn:Eh; cbn [negb andb orb].
      * rewrite app_nil_r. auto.
      * unfold end_warmup, split_prng_key_one, emit. rewrite Ef. cbn [c_key c_warm c_ntune c_trace].
        unfold ccalls. cbn [c_trace]. rewrite map_app, kseq_calls, Hn. auto.
    + cbn [negb andb]. unfold end_warmup, split_prng_key_one, emit. rewrite Ef.
      cbn [c_key c_warm c_ntune c_trace]. unfold ccalls. cbn [c_trace].
      rewrite map_app, kseq_calls, Hn. auto.
  - rewrite andb_false_r. cbn [andb]. rewrite app_nil_r, orb_false_r.
    split; [reflexivity|]. split; [exact Hn|]. rewrite Hw. destruct (p_flag P); reflexivity.
Qed.

Lemma rec_upto_nonempty before c : 1 <= thin c <= dur c -> rec_upto before c (dur c) <> [].
Proof.
  intros H E. unfold rec_upto in E. apply map_eq_nil in E.
  assert (Hin : In (thin c) (filter (fun u => u mod thin c =? 0) (zrange 1 (Z.to_nat (dur c))))).
  { apply filter_In. split.
    - apply in_zrange. lia.
    - rewrite Z.mod_same by lia. reflexivity. }
  rewrite E in Hin. exact Hin.
Qed.

Lemma epoch_run_spec P before c co :
  inv (p_flag P) before co -> 0 < p_chunk P ->
  (is_init (ety_ c) = false -> cfg_ok c = true /\ (p_chunk P | dur c)) ->
  exists co',
    epoch_run P (mkS c (length before) (sum_dur before)) co = Ok co'
    /\ ccalls co' = ccalls co ++ spec_epoch (p_flag P) (nker P) (hist_required P) before c
    /\ inv (p_flag P) (before ++ [c]) co'.
Proof.
  intros Hinv Hch Hc. unfold epoch_run. cbn [cfg]. rewrite to_state_view.
  destruct (start_epoch_spec P before c co Hinv) as [S1 [S2 S3]].
  set (c1 := start_epoch P (view before c 0) co) in *.
  unfold spec_epoch. destruct (is_init (ety_ c)) eqn:Ei.
  - exists c1. split; [reflexivity|].
    assert (Ep : is_post (ety_ c) = false) by (destruct (ety_ c); try discriminate; reflexivity).
    assert (Ea : is_adapt (ety_ c) = false) by (destruct (ety_ c); try discriminate; reflexivity).
    split.
    + rewrite S1. unfold warmup_ends_here. rewrite Ep. cbn [andb]. reflexivity.
    + split.
      * rewrite S3, has_post_snoc. reflexivity.
      * rewrite S2, n_adapt_snoc, Ea. lia.
  - destruct (Hc eq_refl) as [Hok Hdiv]. unfold cfg_ok in Hok.
    apply andb_prop in Hok as [Hok _]. apply andb_prop in Hok as [Hok H3].
    apply andb_prop in Hok as [H1 H2].
    apply Z.leb_le in H1, H2, H3.
    (* _kernel_start_epoch *)
    unfold kernel_start_epoch, split_prng_key_one.
    set (c2 := emit _ _).
    assert (C2 : ccalls c2 = ccalls c1 ++ for_kernels (nker P) (fun k => CStart k (view before c 0))).
    { unfold c2. rewrite ccalls_emit, kseq_calls. reflexivity. }
    assert (F2 : same_flags c1 c2) by (split; reflexivity).
    (* _sample_for_duration *)
    unfold sample_for_duration, time_left. cbn [view v_cfg v_tin].
    replace (dur c - 0 <? dur c) with false by (symmetry; apply Z.ltb_ge; lia).
    replace (p_chunk P =? 0) with false by (symmetry; apply Z.eqb_neq; lia).
    assert (Hm : dur c mod p_chunk P = 0) by (apply Z.mod_divide; [lia|exact Hdiv]).
    rewrite Hm. cbn [Z.eqb negb bind].
    set (n := Z.to_nat (dur c / p_chunk P)).
    assert (Hn : Z.of_nat n * p_chunk P = dur c).
    { unfold n. rewrite Z2Nat.id by (apply Z.div_pos; lia).
      rewrite Z.mul_comm. symmetry. apply Z.div_exact; lia. }
    assert (L0 : mkL (view before c 0) c2 1 [] =
                 mkL (view before c 0) c2 (if 1 <? thin c then 1 + 0 else 1) (rec_upto before c 0)).
    { destruct (1 <? thin c); reflexivity. }
    rewrite L0.
    destruct (chunk_loop_spec P before c n 0 c2 ltac:(lia) H2 Hch) as [c3 [E3 [C3 F3]]].
    rewrite E3. cbn [l_e l_chain l_c Z.add]. rewrite Hn.
    assert (Hcnt : (n * Z.to_nat (p_chunk P))%nat = Z.to_nat (dur c)) by lia.
    rewrite Hcnt in C3.
    (* _end_epoch *)
    unfold end_epoch, split_prng_key_one.
    set (c4 := emit _ _).
    assert (C4 : ccalls c4 = ccalls c3 ++ for_kernels (nker P) (fun k => CEnd k (view before c (dur c)))).
    { unfold c4. rewrite ccalls_emit, kseq_calls. reflexivity. }
    assert (F4 : same_flags c3 c4) by (split; reflexivity).
    assert (Hflags : c_warm c4 = c_warm c1 /\ c_ntune c4 = c_ntune c1).
    { destruct F2, F3, F4. split; congruence. }
    destruct Hflags as [Hw4 Hn4].
    assert (Hprefix : ccalls c4 = ccalls co
              ++ (if warmup_ends_here (p_flag P) before c
                  then for_kernels (nker P) (fun k => CEndWarmup k (n_adapt before)) else [])
              ++ for_kernels (nker P) (fun k => CStart k (view before c 0))
              ++ flat_map (fun t => for_kernels (nker P) (fun k => CTrans k (is_adapt (ety_ c)) (view before c t)))
                          (zrange 0 (Z.to_nat (dur c)))
              ++ for_kernels (nker P) (fun k => CEnd k (view before c (dur c)))).
    { rewrite C4, C3, C2, S1. unfold trans_calls. repeat rewrite <- app_assoc. reflexivity. }
    (* _tune_kernels *)
    unfold tune_kernels. cbn [view v_cfg].
    assert (Ep : is_adapt (ety_ c) = true -> is_post (ety_ c) = false)
      by (destruct (ety_ c); intros; try discriminate; reflexivity).
    destruct (is_adapt (ety_ c)) eqn:Ea.
    + unfold split_prng_key_one.
      destruct (hist_required P) eqn:Eh.
      * destruct (rec_upto before c (dur c)) as [|x r] eqn:Er.
        { exfalso. apply (rec_upto_nonempty before c); [lia|exact Er]. }
        cbn [bind]. eexists. split; [reflexivity|]. split.
        -- unfold ccalls at 1. cbn [c_trace c_key c_warm c_ntune emit].
           rewrite map_app, kseq_calls. fold (ccalls c4). rewrite Hprefix.
           repeat rewrite <- app_assoc. rewrite recorded_rec_upto, Er. reflexivity.
        -- split; cbn [c_warm c_ntune c_trace c_key emit].
           ++ rewrite Hw4, S3, has_post_snoc. reflexivity.
           ++ rewrite Hn4, S2, n_adapt_snoc, Ea. lia.
      * cbn [bind]. eexists. split; [reflexivity|]. split.
        -- unfold ccalls at 1. cbn [c_trace c_key c_warm c_ntune emit].
           rewrite map_app, kseq_calls. fold (ccalls c4). rewrite Hprefix.
           repeat rewrite <- app_assoc. reflexivity.
        -- split; cbn [c_warm c_ntune c_trace c_key emit].
           ++ rewrite Hw4, S3, has_post_snoc. reflexivity.
           ++ rewrite Hn4, S2, n_adapt_snoc, Ea. lia.
    + exists c4. split; [reflexivity|]. split.
      * rewrite Hprefix. repeat rewrite <- app_assoc. rewrite app_nil_r. reflexivity.
      * split.
        -- rewrite Hw4, S3, has_post_snoc. reflexivity.
        -- rewrite Hn4, S2, n_adapt_snoc, Ea. lia.
Qed.

(* ------------------------------------------------------------------------------------------ *)
(* all epochs in sequence (what sample_all_epochs does on a manager holding the whole schedule) *)
Fixpoint epochs_run (P : params) (l : list econf) (n : nat) (t : Z) (co : core) : result core :=
  match l with
  | [] => Ok co
  | c :: r => bind (epoch_run P (mkS c n t) co) (epochs_run P r (S n) (t + dur c))
  end.

Fixpoint spec_from (fl : warmflag) (nk : nat) (anyh : bool) (before l : list econf) : list call :=
  match l with
  | [] => []
  | c :: r => spec_epoch fl nk anyh before c ++ spec_from fl nk anyh (before ++ [c]) r
  end.

Lemma sum_dur_snoc before c : sum_dur (before ++ [c]) = sum_dur before + dur c.
Proof.
  unfold sum_dur. rewrite map_app, fold_left_app. reflexivity.
Qed.

Lemma epochs_run_spec P l : forall before co,
  inv (p_flag P) before co -> 0 < p_chunk P ->
  (forall c, In c l -> is_init (ety_ c) = false -> cfg_ok c = true /\ (p_chunk P | dur c)) ->
  exists co',
    epochs_run P l (length before) (sum_dur before) co = Ok co'
    /\ ccalls co' = ccalls co ++ spec_from (p_flag P) (nker P) (hist_required P) before l
    /\ inv (p_flag P) (before ++ l) co'.
Proof.
  induction l as [|c r IH]; intros before co Hinv Hch Hl.
  - exists co. cbn. rewrite !app_nil_r. auto.
  - destruct (epoch_run_spec P before c co Hinv Hch (Hl c (or_introl eq_refl))) as [c1 [E1 [C1 I1]]].
    cbn [epochs_run]. rewrite E1. cbn [bind].
    destruct (IH (before ++ [c]) c1 I1 Hch (fun x Hx => Hl x (or_intror Hx))) as [c2 [E2 [C2 I2]]].
    rewrite app_length, sum_dur_snoc in E2. cbn [length] in E2.
    replace (length before + 1)%nat with (S (length before)) in E2 by lia.
    exists c2. split; [exact E2|]. split.
    + rewrite C2, C1, <- app_assoc. reflexivity.
    + rewrite <- app_assoc in I2. exact I2.
Qed.

(* the declarative, index-based reading of the schedule coincides with the recursive one *)
Lemma spec_epochs_from fl nk anyh l : forall before,
  flat_map (fun n => match nth_error (before ++ l) n with
                     | Some c => spec_epoch fl nk anyh (firstn n (before ++ l)) c
                     | None => []
                     end) (seq (length before) (length l))
  = spec_from fl nk anyh before l.
Proof.
  induction l as [|c r IH]; intros before; [reflexivity|].
  cbn [length seq flat_map spec_from].
  rewrite nth_error_app2 by lia. rewrite Nat.sub_diag. cbn [nth_error].
  rewrite firstn_app, Nat.sub_diag, firstn_all. cbn [firstn]. rewrite app_nil_r.
  f_equal.
  specialize (IH (before ++ [c])). rewrite app_length in IH. cbn [length] in IH.
  replace (length before + 1)%nat with (S (length before)) in IH by lia.
  rewrite <- IH. rewrite <- app_assoc. reflexivity.
Qed.

Lemma spec_epochs_eq fl nk anyh sched : spec_epochs fl nk anyh sched = spec_from fl nk anyh [] sched.
Proof. exact (spec_epochs_from fl nk anyh sched []). Qed.

Definition init_inv fl : inv fl [] (mkC [] false 0%nat []).
Proof. split; [destruct fl; reflexivity|reflexivity]. Qed.

Lemma core_init_spec P :
  ccalls (core_init P) = for_kernels (nker P) CInit /\ inv (p_flag P) [] (core_init P).
Proof.
  unfold core_init, split_prng_key_one, emit. cbn [c_key c_warm c_ntune c_trace].
  split.
  - unfold ccalls. cbn [c_trace app]. apply kseq_calls.
  - split; [destruct (p_flag P); reflexivity|reflexivity].
Qed.

(* hypotheses of the lifecycle theorem in the form the induction needs *)
Lemma valid_epochs_ok chunk sched : valid sched = true -> chunk_ok chunk sched ->
  forall c, In c sched -> is_init (ety_ c) = false -> cfg_ok c = true /\ (chunk | dur c).
Proof.
  intros Hv [_ Hd] c Hin Hi. destruct sched as [|c0 r]; [destruct Hin|].
  cbn [valid] in Hv. repeat (apply andb_prop in Hv as [Hv ?]).
  match goal with H : forallb cfg_ok _ = true |- _ => rename H into Hok end.
  split.
  - rewrite forallb_forall in Hok. apply Hok. exact Hin.
  - destruct Hin as [<-|Hin]; [congruence|]. apply Hd. exact Hin.
Qed.

Theorem batch_is_lifecycle P sched :
  valid sched = true -> chunk_ok (p_chunk P) sched ->
  exists co, epochs_run P sched 0 0 (core_init P) = Ok co
    /\ ccalls co = spec_calls_gen (p_flag P) (nker P) (hist_required P) sched.
Proof.
  intros Hv Hc. destruct (core_init_spec P) as [C0 I0].
  destruct (epochs_run_spec P sched [] (core_init P) I0 (proj1 Hc) (valid_epochs_ok _ _ Hv Hc))
    as [co [E [C _]]].
  exists co. split; [exact E|].
  rewrite C, C0. unfold spec_calls_gen. rewrite spec_epochs_eq. reflexivity.
Qed.

(* ------------------------------------------------------------------------------------------ *)
(* interleavings of append_epoch / sample_next_epoch / sample_all_epochs *)
Lemma lastc_cons x l : lastc (x :: l) = match lastc l with None => Some x | Some y => Some y end.
Proof. unfold lastc. cbn [rev]. destruct (rev l); reflexivity. Qed.

Lemma accepts_from_mid l1 : forall p c l2,
  accepts_from p (l1 ++ c :: l2) = true ->
  append_ok (match lastc l1 with None => p | Some y => Some y end) c = true.
Proof.
  induction l1 as [|x l1 IH]; intros p c l2 H.
  - cbn in H. apply andb_prop in H as [H _]. exact H.
  - cbn [app accepts_from] in H. apply andb_prop in H as [_ H].
    specialize (IH _ _ _ H). rewrite lastc_cons. destruct (lastc l1); exact IH.
Qed.

Lemma accepts_from_prefix l1 : forall p l2, accepts_from p (l1 ++ l2) = true -> accepts_from p l1 = true.
Proof.
  induction l1 as [|x l1 IH]; intros p l2 H; [reflexivity|].
  cbn [app accepts_from] in *. apply andb_prop in H as [H1 H2]. rewrite H1. cbn. eapply IH; eauto.
Qed.

Lemma appends_accepts m l : accepts_from (lastc (cfgs m)) l = true ->
  appends m l = Ok (mkM (cfgs m ++ l) (ptr m) (start m)).
Proof.
  revert m; induction l as [|c r IH]; intros m H.
  - cbn. rewrite app_nil_r. destruct m; reflexivity.
  - cbn [accepts_from] in H. apply andb_prop in H as [H1 H2].
    cbn [appends]. unfold mgr_append. rewrite H1.
    rewrite IH; cbn [cfgs ptr start].
    + rewrite <- app_assoc. reflexivity.
    + rewrite lastc_app. exact H2.
Qed.

Lemma skipn_nth_error {A} (l : list A) n x : nth_error l n = Some x -> skipn n l = x :: skipn (S n) l.
Proof.
  revert l; induction n as [|n IH]; intros l H; destruct l as [|y l]; try discriminate.
  - injection H as ->. reflexivity.
  - cbn [nth_error] in H. cbn [skipn]. rewrite (IH l H). reflexivity.
Qed.

Section Interleave.
  Variable P : params.
  Variable sched : list econf.
  Variable cfin : core.
  Hypothesis Hacc : accepts sched = true.

  Definition tb (n : nat) : Z := time_before sched n.
  Definition st (pre : list econf) (n : nat) (co : core) : engine := mkEng (mkM pre n (tb n)) co.

  (* the rest of the schedule, run from here, reaches cfin *)
  Definition reaches (n : nat) (co : core) : Prop := epochs_run P (skipn n sched) n (tb n) co = Ok cfin.

  Lemma sample_next_inv pre rest n co :
    sched = pre ++ rest -> (n < length pre)%nat -> reaches n co ->
    exists co', sample_next P (st pre n co) = Ok (st pre (S n) co') /\ reaches (S n) co'.
  Proof.
    intros Hs Hn Hr.
    destruct (nth_error pre n) as [c|] eqn:E; [|apply nth_error_None in E; lia].
    assert (Es : nth_error sched n = Some c) by (rewrite Hs, nth_error_app1; assumption).
    unfold reaches in Hr. rewrite (skipn_nth_error _ _ _ Es) in Hr. cbn [epochs_run] in Hr.
    unfold sample_next, st, mgr_next. cbn [g_mgr g_core cfgs ptr start]. rewrite E.
    destruct (epoch_run P (mkS c n (tb n)) co) as [co'|e]; [|discriminate].
    cbn [bind] in *. exists co'. split.
    - unfold tb. rewrite (time_before_S sched n c Es). reflexivity.
    - unfold reaches, tb. rewrite (time_before_S sched n c Es). exact Hr.
  Qed.

  Lemma sample_all_inv pre rest : sched = pre ++ rest -> forall k n co,
    (n + k = length pre)%nat -> reaches n co ->
    exists co', sample_all_fuel P k (st pre n co) = Ok (st pre (length pre) co') /\ reaches (length pre) co'.
  Proof.
    intros Hs. induction k as [|k IH]; intros n co Hk Hr.
    - cbn [sample_all_fuel]. change (has_more (g_mgr (st pre n co))) with (n <? length pre)%nat.
      replace (n <? length pre)%nat with false by (symmetry; apply Nat.ltb_ge; lia).
      exists co. assert (n = length pre) as -> by lia. auto.
    - cbn [sample_all_fuel]. change (has_more (g_mgr (st pre n co))) with (n <? length pre)%nat.
      replace (n <? length pre)%nat with true by (symmetry; apply Nat.ltb_lt; lia).
      destruct (sample_next_inv pre rest n co Hs ltac:(lia) Hr) as [c1 [E1 R1]].
      rewrite E1. cbn [bind]. apply IH; [lia|exact R1].
  Qed.

  Lemma steps_inv ops : forall pre n co,
    (n <= length pre)%nat -> sched = pre ++ appended ops ->
    ops_ok (length pre - n) ops = true -> reaches n co ->
    steps P (st pre n co) ops = Ok (st sched (length sched) cfin).
  Proof.
    induction ops as [|o r IH]; intros pre n co Hn Hs Hok Hr.
    - cbn [appended] in Hs. rewrite app_nil_r in Hs. subst pre.
      cbn [ops_ok] in Hok. apply Nat.eqb_eq in Hok.
      assert (n = length sched) as -> by lia.
      unfold reaches in Hr. rewrite skipn_all in Hr. cbn in Hr. injection Hr as ->. reflexivity.
    - destruct o as [c| | |c]; cbn [steps step appended ops_ok] in *; [| | |discriminate].
      + (* append_epoch *)
        assert (Ha : append_ok (lastc pre) c = true).
        { unfold accepts in Hacc. rewrite Hs in Hacc.
          pose proof (accepts_from_mid pre None c (appended r) Hacc) as H.
          destruct (lastc pre); exact H. }
        unfold append_epoch, mgr_append, st. cbn [g_mgr g_core cfgs ptr start]. rewrite Ha. cbn [bind].
        apply (IH (pre ++ [c]) n co).
        * rewrite app_length. lia.
        * rewrite <- app_assoc. exact Hs.
        * rewrite app_length. cbn [length].
          replace (length pre + 1 - n)%nat with (S (length pre - n)) by lia. exact Hok.
        * exact Hr.
      + (* sample_next_epoch *)
        destruct (length pre - n)%nat as [|p] eqn:Ep; [discriminate|].
        destruct (sample_next_inv pre _ n co Hs ltac:(lia) Hr) as [c1 [E1 R1]].
        rewrite E1. cbn [bind]. apply IH; try assumption; try lia.
        replace (length pre - S n)%nat with p by lia. exact Hok.
      + (* sample_all_epochs *)
        change (sample_all P (st pre n co)) with (sample_all_fuel P (length pre - n) (st pre n co)).
        destruct (sample_all_inv pre _ Hs (length pre - n) n co ltac:(lia) Hr) as [c1 [E1 R1]].
        rewrite E1. cbn [bind]. apply IH; try assumption; try lia.
        rewrite Nat.sub_diag. exact Hok.
  Qed.
End Interleave.

(* every admissible interleaving ends in the state the batch run ends in (keys included) *)
Theorem interleaving_is_batch P init ops sched co :
  valid sched = true -> sched = init ++ appended ops -> ops_ok (length init) ops = true ->
  epochs_run P sched 0 0 (core_init P) = Ok co ->
  run P init ops = Ok (mkEng (mkM sched (length sched) (time_before sched (length sched))) co).
Proof.
  intros Hv Hs Hok Hr. rewrite <- accepts_eq_valid in Hv.
  unfold run, engine_init.
  assert (Hi : accepts_from None init = true).
  { unfold accepts in Hv. rewrite Hs in Hv. eapply accepts_from_prefix; eauto. }
  rewrite (appends_accepts mgr0 init Hi). cbn [bind mgr0 cfgs ptr start app].
  apply (steps_inv P sched co Hv ops init 0%nat (core_init P)); try assumption; try lia.
  rewrite Nat.sub_0_r. exact Hok.
Qed.

(* ------------------------------------------------------------------------------------------ *)
(* the fuel of sample_all_epochs is never exhausted *)
Lemma epoch_run_no_fuel P s co : epoch_run P s co <> Err EOutOfFuel.
Proof.
  unfold epoch_run. destruct (is_init (ety_ (cfg s))); [discriminate|].
  unfold sample_for_duration.
  destruct (time_left (to_state s) <? dur (cfg s)); [discriminate|].
  destruct (p_chunk P =? 0); [discriminate|].
  destruct (negb (dur (cfg s) mod p_chunk P =? 0)); [discriminate|].
  cbn [bind]. unfold end_epoch, split_prng_key_one, tune_kernels.
  destruct (is_adapt _); [|discriminate].
  destruct (hist_required P); [|discriminate].
  destruct (l_chain _); discriminate.
Qed.

Lemma sample_all_fuel_no_fuel P k : forall g,
  (length (cfgs (g_mgr g)) - ptr (g_mgr g) <= k)%nat -> sample_all_fuel P k g <> Err EOutOfFuel.
Proof.
  induction k as [|k IH]; intros g Hk.
  - cbn [sample_all_fuel]. unfold has_more.
    replace (ptr (g_mgr g) <? length (cfgs (g_mgr g)))%nat with false
      by (symmetry; apply Nat.ltb_ge; lia).
    discriminate.
  - cbn [sample_all_fuel]. destruct (has_more (g_mgr g)); [|discriminate].
    unfold sample_next, mgr_next.
    destruct (nth_error (cfgs (g_mgr g)) (ptr (g_mgr g))) as [c|]; [|discriminate].
    pose proof (epoch_run_no_fuel P (mkS c (ptr (g_mgr g)) (start (g_mgr g))) (g_core g)) as Hne.
    destruct (epoch_run P _ (g_core g)) as [co|e]; cbn [bind].
    + apply IH. cbn [g_mgr cfgs ptr]. lia.
    + congruence.
Qed.

Theorem sample_all_no_fuel_error P g : sample_all P g <> Err EOutOfFuel.
Proof. unfold sample_all. apply sample_all_fuel_no_fuel. lia. Qed.

(* ------------------------------------------------------------------------------------------ *)
(* main theorems *)
Definition any_needs (needs : list bool) : bool := existsb (fun b => b) needs.

Theorem trace_is_lifecycle_gen fl chunk needs init ops sched :
  valid sched = true -> sched = init ++ appended ops -> chunk_ok chunk sched ->
  ops_ok (length init) ops = true ->
  exists g, run (mkP chunk needs fl) init ops = Ok g
    /\ calls g = spec_calls_gen fl (length needs) (any_needs needs) sched
    /\ cfgs (g_mgr g) = sched /\ has_more (g_mgr g) = false.
Proof.
  intros Hv Hs Hc Hok. set (P := mkP chunk needs fl).
  destruct (batch_is_lifecycle P sched Hv Hc) as [co [E C]].
  eexists. split; [exact (interleaving_is_batch P init ops sched co Hv Hs Hok E)|].
  split; [exact C|]. split; [reflexivity|].
  unfold has_more. cbn [g_mgr ptr cfgs]. apply Nat.ltb_irrefl.
Qed.

Theorem trace_is_lifecycle chunk needs init ops sched :
  valid sched = true -> sched = init ++ appended ops -> chunk_ok chunk sched ->
  ops_ok (length init) ops = true ->
  exists g, run (mkP chunk needs SetsFlag) init ops = Ok g
    /\ calls g = spec_calls (length needs) (any_needs needs) sched
    /\ cfgs (g_mgr g) = sched /\ has_more (g_mgr g) = false.
Proof. exact (trace_is_lifecycle_gen SetsFlag chunk needs init ops sched). Qed.

(* the trace does not depend on the chunk *)
Theorem chunk_independent chunk1 chunk2 needs init ops sched :
  valid sched = true -> sched = init ++ appended ops ->
  chunk_ok chunk1 sched -> chunk_ok chunk2 sched -> ops_ok (length init) ops = true ->
  exists g1 g2, run (mkP chunk1 needs SetsFlag) init ops = Ok g1
             /\ run (mkP chunk2 needs SetsFlag) init ops = Ok g2
             /\ calls g1 = calls g2.
Proof.
  intros Hv Hs H1 H2 Hok.
  destruct (trace_is_lifecycle chunk1 needs init ops sched Hv Hs H1 Hok) as [g1 [E1 [C1 _]]].
  destruct (trace_is_lifecycle chunk2 needs init ops sched Hv Hs H2 Hok) as [g2 [E2 [C2 _]]].
  exists g1, g2. repeat split; try assumption. congruence.
Qed.

(* the final engine state - calls AND keys - does not depend on the interleaving: any admissible
   operation sequence equals constructing the engine with the whole schedule and calling
   sample_all_epochs once *)
Theorem incremental_equals_batch P init ops sched :
  valid sched = true -> sched = init ++ appended ops -> chunk_ok (p_chunk P) sched ->
  ops_ok (length init) ops = true ->
  exists g, run P init ops = Ok g /\ run P sched [SampleAll] = Ok g.
Proof.
  intros Hv Hs Hc Hok.
  destruct (batch_is_lifecycle P sched Hv Hc) as [co [E _]].
  eexists. split; [exact (interleaving_is_batch P init ops sched co Hv Hs Hok E)|].
  apply (interleaving_is_batch P sched [SampleAll] sched co Hv); try assumption.
  - cbn. now rewrite app_nil_r.
  - reflexivity.
Qed.

(* ------------------------------------------------------------------------------------------ *)
(* the lifecycle read per kernel: the clauses of the property text *)
Lemma filter_for_kernels k f : (forall i, call_ker (f i) = i) -> forall n a,
  filter (fun c => Nat.eqb (call_ker c) k) (map f (seq a n))
  = if (a <=? k)%nat && (k <? a + n)%nat then [f k] else [].
Proof.
  intros Hf. induction n as [|n IH]; intros a.
  - cbn [seq map filter].
    destruct (a <=? k)%nat eqn:E1; [|reflexivity].
    destruct (k <? a + 0)%nat eqn:E2; [|reflexivity].
    apply Nat.leb_le in E1. apply Nat.ltb_lt in E2. lia.
  - cbn [seq map filter]. rewrite Hf, IH.
    destruct (Nat.eqb a k) eqn:E.
    + apply Nat.eqb_eq in E. subst a.
      replace (S k <=? k)%nat with false by (symmetry; apply Nat.leb_gt; lia).
      replace (k <=? k)%nat with true by (symmetry; apply Nat.leb_le; lia).
      replace (k <? k + S n)%nat with true by (symmetry; apply Nat.ltb_lt; lia).
      reflexivity.
    + apply Nat.eqb_neq in E.
      replace (a + S n)%nat with (S a + n)%nat by lia.
      assert ((S a <=? k)%nat = (a <=? k)%nat) as ->; [|reflexivity].
      destruct (a <=? k)%nat eqn:E1.
      * apply Nat.leb_le in E1. apply Nat.leb_le. lia.
      * apply Nat.leb_gt in E1. apply Nat.leb_gt. lia.
Qed.

Lemma cok_for_kernels nk k f : (forall i, call_ker (f i) = i) -> (k < nk)%nat ->
  calls_of_kernel k (for_kernels nk f) = [f k].
Proof.
  intros Hf Hk. unfold calls_of_kernel, for_kernels. rewrite (filter_for_kernels k f Hf).
  replace (k <? 0 + nk)%nat with true by (symmetry; apply Nat.ltb_lt; lia). reflexivity.
Qed.

Lemma cok_app k l1 l2 : calls_of_kernel k (l1 ++ l2) = calls_of_kernel k l1 ++ calls_of_kernel k l2.
Proof. apply filter_app. Qed.

Lemma cok_spec_epoch nk anyh k before c : (k < nk)%nat ->
  calls_of_kernel k (spec_epoch SetsFlag nk anyh before c) = spec_kernel_epoch anyh k before c.
Proof.
  intros Hk. unfold spec_epoch, spec_kernel_epoch, warmup_ends_here.
  destruct (is_init (ety_ c)); [reflexivity|].
  rewrite !cok_app.
  rewrite (cok_for_kernels nk k (fun k => CStart k (view before c 0))) by auto.
  rewrite (cok_for_kernels nk k (fun k => CEnd k (view before c (dur c)))) by auto.
  assert (HA : calls_of_kernel k (if is_post (ety_ c) && negb (has_post before)
                                  then for_kernels nk (fun k0 => CEndWarmup k0 (n_adapt before)) else [])
               = if is_post (ety_ c) && negb (has_post before) then [CEndWarmup k (n_adapt before)] else []).
  { destruct (is_post (ety_ c) && negb (has_post before)); [|reflexivity].
    now rewrite cok_for_kernels. }
  assert (HB : calls_of_kernel k
                 (flat_map (fun t => for_kernels nk (fun k0 => CTrans k0 (is_adapt (ety_ c)) (view before c t)))
                           (zrange 0 (Z.to_nat (dur c))))
               = map (fun t => CTrans k (is_adapt (ety_ c)) (view before c t)) (zrange 0 (Z.to_nat (dur c)))).
  { unfold calls_of_kernel. rewrite filter_flat_map. rewrite <- flat_map_singleton.
    apply flat_map_ext. intros t.
    apply (cok_for_kernels nk k (fun k => CTrans k (is_adapt (ety_ c)) (view before c t))); auto. }
  assert (HC : calls_of_kernel k
                 (if is_adapt (ety_ c)
                  then for_kernels nk (fun k0 => CTune k0 (is_slow (ety_ c)) (view before c (dur c))
                                                      (if anyh then Some (recorded before c) else None))
                  else [])
               = if is_adapt (ety_ c)
                 then [CTune k (is_slow (ety_ c)) (view before c (dur c))
                             (if anyh then Some (recorded before c) else None)]
                 else []).
  { destruct (is_adapt (ety_ c)); [|reflexivity].
    apply (cok_for_kernels nk k (fun k0 => CTune k0 (is_slow (ety_ c)) (view before c (dur c))
                                              (if anyh then Some (recorded before c) else None))); auto. }
  rewrite HA, HB, HC. reflexivity.
Qed.

Theorem per_kernel_lifecycle nk anyh k sched : (k < nk)%nat ->
  calls_of_kernel k (spec_calls nk anyh sched) = spec_kernel_calls anyh k sched.
Proof.
  intros Hk. unfold spec_calls, spec_calls_gen, spec_kernel_calls, spec_epochs.
  rewrite cok_app, (cok_for_kernels nk k CInit) by auto. cbn [app]. f_equal.
  unfold calls_of_kernel. rewrite filter_flat_map. apply flat_map_ext. intros n.
  destruct (nth_error sched n); [|reflexivity]. apply cok_spec_epoch. exact Hk.
Qed.

(* ------------------------------------------------------------------------------------------ *)
(* end_warmup: exactly once per kernel iff there is a posterior epoch, right before the first
   posterior epoch's start_epoch *)
Lemma count_app l1 l2 : count_endwarmup (l1 ++ l2) = (count_endwarmup l1 + count_endwarmup l2)%nat.
Proof. unfold count_endwarmup. now rewrite filter_app, app_length. Qed.

Lemma count_for_kernels_ew nk f : (forall i, is_endwarmup (f i) = true) ->
  count_endwarmup (for_kernels nk f) = nk.
Proof.
  intros H. unfold count_endwarmup, for_kernels.
  assert (forall a n, length (filter is_endwarmup (map f (seq a n))) = n) as ->; [|reflexivity].
  intros a n; revert a; induction n as [|n IH]; intros a; [reflexivity|].
  cbn [seq map filter]. rewrite H. cbn [length]. now rewrite IH.
Qed.

Lemma count_for_kernels_other nk f : (forall i, is_endwarmup (f i) = false) ->
  count_endwarmup (for_kernels nk f) = 0%nat.
Proof.
  intros H. unfold count_endwarmup, for_kernels.
  assert (forall a n, filter is_endwarmup (map f (seq a n)) = []) as ->; [|reflexivity].
  intros a n; revert a; induction n as [|n IH]; intros a; [reflexivity|].
  cbn [seq map filter]. rewrite H. apply IH.
Qed.

Lemma count_flat_other nk (g : Z -> nat -> call) l : (forall t i, is_endwarmup (g t i) = false) ->
  count_endwarmup (flat_map (fun t => for_kernels nk (g t)) l) = 0%nat.
Proof.
  intros H. induction l as [|t l IH]; [reflexivity|].
  cbn [flat_map]. rewrite count_app, IH, count_for_kernels_other; auto.
Qed.

Lemma count_spec_epoch fl nk anyh before c :
  count_endwarmup (spec_epoch fl nk anyh before c) = if warmup_ends_here fl before c then nk else 0%nat.
Proof.
  unfold spec_epoch. destruct (is_init (ety_ c)) eqn:Ei.
  - unfold warmup_ends_here. destruct (ety_ c); try discriminate. reflexivity.
  - rewrite !count_app.
    rewrite (count_for_kernels_other nk (fun k => CStart k (view before c 0))) by auto.
    rewrite (count_for_kernels_other nk (fun k => CEnd k (view before c (dur c)))) by auto.
    rewrite (count_flat_other nk (fun t k => CTrans k (is_adapt (ety_ c)) (view before c t))) by auto.
    assert (count_endwarmup (if is_adapt (ety_ c)
        then for_kernels nk (fun k => CTune k (is_slow (ety_ c)) (view before c (dur c))
                                            (if anyh then Some (recorded before c) else None))
        else []) = 0%nat) as ->.
    { destruct (is_adapt (ety_ c)); [|reflexivity]. apply count_for_kernels_other. auto. }
    destruct (warmup_ends_here fl before c).
    + rewrite count_for_kernels_ew by auto. lia.
    + cbn. lia.
Qed.

Lemma has_post_cons c r : has_post (c :: r) = is_post (ety_ c) || has_post r.
Proof. reflexivity. Qed.

Lemma count_spec_from_sets nk anyh l : forall before,
  count_endwarmup (spec_from SetsFlag nk anyh before l)
  = if negb (has_post before) && has_post l then nk else 0%nat.
Proof.
  induction l as [|c r IH]; intros before.
  - cbn. now rewrite andb_false_r.
  - cbn [spec_from]. rewrite count_app, count_spec_epoch, IH, has_post_snoc.
    unfold warmup_ends_here. rewrite has_post_cons.
    destruct (has_post before), (is_post (ety_ c)), (has_post r); cbn; lia.
Qed.

Theorem end_warmup_count nk anyh sched :
  count_endwarmup (spec_calls nk anyh sched) = (nk * if has_post sched then 1 else 0)%nat.
Proof.
  unfold spec_calls, spec_calls_gen. rewrite count_app, spec_epochs_eq, count_spec_from_sets.
  rewrite (count_for_kernels_other nk CInit) by auto.
  change (has_post []) with false. cbn [negb andb].
  destruct (has_post sched); lia.
Qed.

Lemma count_spec_from_never nk anyh l : forall before,
  count_endwarmup (spec_from NeverSets nk anyh before l)
  = (nk * length (filter is_post (etys l)))%nat.
Proof.
  induction l as [|c r IH]; intros before.
  - cbn. lia.
  - cbn [spec_from]. rewrite count_app, count_spec_epoch, IH.
    unfold warmup_ends_here. cbn [etys map filter]. fold (etys r).
    destruct (is_post (ety_ c)); cbn [andb length]; lia.
Qed.

(* the defective engine calls end_warmup before EVERY posterior epoch *)
Theorem never_sets_count nk anyh sched :
  count_endwarmup (spec_calls_gen NeverSets nk anyh sched)
  = (nk * length (filter is_post (etys sched)))%nat.
Proof.
  unfold spec_calls_gen. rewrite count_app, spec_epochs_eq, count_spec_from_never.
  rewrite (count_for_kernels_other nk CInit) by auto. lia.
Qed.

Lemma spec_from_app fl nk anyh l1 : forall before l2,
  spec_from fl nk anyh before (l1 ++ l2)
  = spec_from fl nk anyh before l1 ++ spec_from fl nk anyh (before ++ l1) l2.
Proof.
  induction l1 as [|c r IH]; intros before l2.
  - cbn. now rewrite app_nil_r.
  - cbn [app spec_from]. rewrite IH, <- !app_assoc. reflexivity.
Qed.

(* position: for the first posterior epoch c (after [before]) the end_warmup calls are
   immediately followed by that epoch's start_epoch calls, and there is no other end_warmup *)
Theorem end_warmup_position nk anyh before c after :
  is_post (ety_ c) = true -> has_post before = false ->
  exists l1 l2,
    spec_calls nk anyh (before ++ c :: after)
    = l1 ++ for_kernels nk (fun k => CEndWarmup k (n_adapt before))
         ++ for_kernels nk (fun k => CStart k (view before c 0)) ++ l2
    /\ count_endwarmup l1 = 0%nat /\ count_endwarmup l2 = 0%nat.
Proof.
  intros Hp Hb. unfold spec_calls, spec_calls_gen.
  rewrite spec_epochs_eq, spec_from_app. cbn [spec_from app].
  assert (Hi : is_init (ety_ c) = false) by (destruct (ety_ c); try discriminate; reflexivity).
  assert (Ha : is_adapt (ety_ c) = false) by (destruct (ety_ c); try discriminate; reflexivity).
  unfold spec_epoch at 1. rewrite Hi. unfold warmup_ends_here. rewrite Hp, Hb, Ha. cbn [andb negb].
  eexists (for_kernels nk CInit ++ spec_from SetsFlag nk anyh [] before).
  eexists. split.
  - repeat rewrite <- app_assoc. reflexivity.
  - split.
    + rewrite count_app, count_spec_from_sets, (count_for_kernels_other nk CInit) by auto.
      rewrite Hb. now rewrite andb_false_r.
    + rewrite !count_app, count_spec_from_sets, has_post_snoc, Hp, orb_true_r. cbn [negb andb].
      rewrite (count_flat_other nk (fun t k => CTrans k false (view before c t))) by auto.
      rewrite (count_for_kernels_other nk (fun k => CEnd k (view before c (dur c)))) by auto.
      reflexivity.
Qed.

Theorem end_warmup_once chunk needs init ops sched :
  valid sched = true -> sched = init ++ appended ops -> chunk_ok chunk sched ->
  ops_ok (length init) ops = true ->
  exists g, run (mkP chunk needs SetsFlag) init ops = Ok g
    /\ count_endwarmup (calls g) = (length needs * if has_post sched then 1 else 0)%nat
    /\ forall before c after, sched = before ++ c :: after ->
         is_post (ety_ c) = true -> has_post before = false ->
         exists l1 l2,
           calls g = l1 ++ for_kernels (length needs) (fun k => CEndWarmup k (n_adapt before))
                        ++ for_kernels (length needs) (fun k => CStart k (view before c 0)) ++ l2
           /\ count_endwarmup l1 = 0%nat /\ count_endwarmup l2 = 0%nat.
Proof.
  intros Hv Hs Hc Hok.
  destruct (trace_is_lifecycle chunk needs init ops sched Hv Hs Hc Hok) as [g [E [C _]]].
  exists g. split; [exact E|]. rewrite C. split.
  - apply end_warmup_count.
  - intros before c after -> Hp Hb. apply end_warmup_position; assumption.
Qed.

(* ------------------------------------------------------------------------------------------ *)
(* the engine whose guard flag is never set (the code before commit 8aeac66): defect F1 *)
Definition f1_schedule : list econf := [mkE Init 1 1; mkE Fast 4 1; mkE Post 4 1; mkE Post 4 1].

Theorem end_warmup_refuted :
  valid f1_schedule = true /\ chunk_ok 4 f1_schedule /\
  forall needs, exists g,
    run (mkP 4 needs NeverSets) f1_schedule [SampleAll] = Ok g
    /\ count_endwarmup (calls g) = (2 * length needs)%nat
    /\ (needs <> [] -> count_endwarmup (calls g) <> (length needs * 1)%nat).
Proof.
  assert (Hc : chunk_ok 4 f1_schedule).
  { split; [lia|]. intros c Hin. cbn in Hin.
    destruct Hin as [<-|[<-|[<-|[]]]]; cbn; exists 1; reflexivity. }
  split; [reflexivity|]. split; [exact Hc|]. intros needs.
  destruct (trace_is_lifecycle_gen NeverSets 4 needs f1_schedule [SampleAll] f1_schedule
              eq_refl eq_refl Hc eq_refl) as [g [E [C _]]].
  exists g. split; [exact E|]. rewrite C, never_sets_count. cbn [f1_schedule etys map filter is_post ety_ length].
  split; [lia|]. intros Hne. destruct needs; [congruence|]. cbn [length]. lia.
Qed.

(* ------------------------------------------------------------------------------------------ *)
(* the hypotheses are satisfiable on non-trivial objects *)
Definition ex_schedule : list econf :=
  [mkE Init 1 1; mkE Fast 4 2; mkE Slow 8 1; mkE Burnin 2 1; mkE Post 4 2; mkE Post 6 3].
Definition ex_ops : list op :=
  [SampleNext; AppendEpoch (mkE Slow 8 1); SampleAll; AppendEpoch (mkE Burnin 2 1);
   AppendEpoch (mkE Post 4 2); SampleNext; AppendEpoch (mkE Post 6 3); SampleAll].

Lemma ex_chunk_ok : chunk_ok 2 ex_schedule.
Proof.
  split; [lia|]. intros c Hin. cbn in Hin.
  destruct Hin as [<-|[<-|[<-|[<-|[<-|[]]]]]]; cbn.
  - exists 2; reflexivity. - exists 4; reflexivity. - exists 1; reflexivity.
  - exists 2; reflexivity. - exists 3; reflexivity.
Qed.

Example lifecycle_hypotheses_satisfiable :
  valid ex_schedule = true
  /\ ex_schedule = [mkE Init 1 1; mkE Fast 4 2] ++ appended ex_ops
  /\ chunk_ok 2 ex_schedule /\ chunk_ok 1 ex_schedule
  /\ ops_ok 2 ex_ops = true
  /\ (exists g, run (mkP 2 [false; true] SetsFlag) [mkE Init 1 1; mkE Fast 4 2] ex_ops = Ok g
                /\ length (calls g) = 76%nat /\ count_endwarmup (calls g) = 2%nat).
Proof.
  split; [reflexivity|]. split; [reflexivity|]. split; [exact ex_chunk_ok|].
  split. { split; [lia|]. intros c _. exists (dur c). lia. }
  split; [reflexivity|].
  eexists. split; [vm_compute; reflexivity|]. split; vm_compute; reflexivity.
Qed.

(* ------------------------------------------------------------------------------------------ *)
(* guarded appends: append_epoch that raises, the caller catches the error and goes on *)
Theorem rejected_append_is_noop P g c :
  append_ok (lastc (cfgs (g_mgr g))) c = false ->
  step P g (TryAppend c) = Ok g /\ forall ops, steps P g (TryAppend c :: ops) = steps P g ops.
Proof.
  intros H.
  assert (E : step P g (TryAppend c) = Ok g).
  { cbn [step]. unfold try_append_epoch, mgr_append. rewrite H. reflexivity. }
  split; [exact E|]. intros ops. cbn [steps]. rewrite E. reflexivity.
Qed.

Theorem accepted_try_append_is_append P g c :
  append_ok (lastc (cfgs (g_mgr g))) c = true ->
  step P g (TryAppend c) = step P g (AppendEpoch c).
Proof.
  intros H. cbn [step]. unfold try_append_epoch, append_epoch, mgr_append. rewrite H. reflexivity.
Qed.

Lemma sample_next_cfgs P g g' : sample_next P g = Ok g' -> cfgs (g_mgr g') = cfgs (g_mgr g).
Proof.
  unfold sample_next, mgr_next.
  destruct (nth_error (cfgs (g_mgr g)) (ptr (g_mgr g))) as [c|]; [|discriminate].
  destruct (epoch_run P _ (g_core g)) as [co|e]; cbn [bind]; [|discriminate].
  intros H. injection H as <-. reflexivity.
Qed.

Lemma sample_all_fuel_cfgs P k : forall g g',
  sample_all_fuel P k g = Ok g' -> cfgs (g_mgr g') = cfgs (g_mgr g).
Proof.
  induction k as [|k IH]; intros g g'; cbn [sample_all_fuel].
  - destruct (has_more (g_mgr g)); [discriminate|]. intros H. injection H as <-. reflexivity.
  - destruct (has_more (g_mgr g)); [|intros H; injection H as <-; reflexivity].
    destruct (sample_next P g) as [g1|e] eqn:E1; cbn [bind]; [|discriminate].
    intros H. rewrite (IH _ _ H). eapply sample_next_cfgs; eauto.
Qed.

Lemma steps_normalize P ops : forall g,
  steps P g ops = steps P g (normalize (lastc (cfgs (g_mgr g))) ops).
Proof.
  induction ops as [|o r IH]; intros g; [reflexivity|].
  destruct o as [c| | |c]; cbn [normalize].
  - cbn [steps step]. unfold append_epoch, mgr_append.
    destruct (append_ok (lastc (cfgs (g_mgr g))) c); cbn [bind]; [|reflexivity].
    rewrite (IH (mkEng _ _)). cbn [g_mgr cfgs]. rewrite lastc_app. reflexivity.
  - cbn [steps step]. destruct (sample_next P g) as [g1|e] eqn:E1; cbn [bind]; [|reflexivity].
    rewrite (IH g1), (sample_next_cfgs _ _ _ E1). reflexivity.
  - cbn [steps step]. unfold sample_all.
    destruct (sample_all_fuel P _ g) as [g1|e] eqn:E1; cbn [bind]; [|reflexivity].
    rewrite (IH g1), (sample_all_fuel_cfgs _ _ _ _ E1). reflexivity.
  - destruct (append_ok (lastc (cfgs (g_mgr g))) c) eqn:Ea.
    + cbn [steps]. rewrite (accepted_try_append_is_append P g c Ea).
      cbn [step]. unfold append_epoch, mgr_append. rewrite Ea. cbn [bind].
      rewrite (IH (mkEng _ _)). cbn [g_mgr cfgs]. rewrite lastc_app. reflexivity.
    + rewrite (proj2 (rejected_append_is_noop P g c Ea)). apply IH.
Qed.

Lemma appends_cfgs l : forall m m', appends m l = Ok m' -> cfgs m' = cfgs m ++ l.
Proof.
  induction l as [|c r IH]; intros m m'; cbn [appends].
  - intros H. injection H as <-. now rewrite app_nil_r.
  - unfold mgr_append. destruct (append_ok (lastc (cfgs m)) c); [|discriminate].
    intros H. rewrite (IH _ _ H). cbn [cfgs]. now rewrite <- app_assoc.
Qed.

(* an operation sequence with guarded appends behaves exactly like the sequence in which the
   rejected appends are deleted and the accepted ones are ordinary appends *)
Theorem run_normalize P init ops : run P init ops = run P init (normalize (lastc init) ops).
Proof.
  unfold run, engine_init. destruct (appends mgr0 init) as [m|e] eqn:E; cbn [bind]; [|reflexivity].
  rewrite (steps_normalize P ops (mkEng m (core_init P))). cbn [g_mgr].
  rewrite (appends_cfgs _ _ _ E). reflexivity.
Qed.

(* the lifecycle theorem over operation sequences that contain rejected (and accepted) guarded
   appends: the schedule is made of the accepted configs only *)
Theorem trace_is_lifecycle_guarded chunk needs init ops sched :
  valid sched = true -> sched = init ++ appended (normalize (lastc init) ops) ->
  chunk_ok chunk sched -> ops_ok (length init) (normalize (lastc init) ops) = true ->
  exists g, run (mkP chunk needs SetsFlag) init ops = Ok g
    /\ calls g = spec_calls (length needs) (any_needs needs) sched
    /\ cfgs (g_mgr g) = sched /\ has_more (g_mgr g) = false.
Proof.
  intros Hv Hs Hc Hok. rewrite run_normalize.
  exact (trace_is_lifecycle chunk needs init _ sched Hv Hs Hc Hok).
Qed.

(* no rejected config is ever part of the schedule the kernels are driven through *)
Theorem guarded_equals_batch P init ops sched :
  valid sched = true -> sched = init ++ appended (normalize (lastc init) ops) ->
  chunk_ok (p_chunk P) sched -> ops_ok (length init) (normalize (lastc init) ops) = true ->
  exists g, run P init ops = Ok g /\ run P sched [SampleAll] = Ok g.
Proof.
  intros Hv Hs Hc Hok. rewrite run_normalize.
  exact (incremental_equals_batch P init _ sched Hv Hs Hc Hok).
Qed.

(* hypotheses satisfiable with every rejection reason: thinning > duration, thinning not dividing a
   posterior duration, warm-up after posterior, second initial-values epoch, duration 0 *)
Definition ex_guarded_ops : list op :=
  [SampleNext; TryAppend (mkE Fast 2 3); AppendEpoch (mkE Fast 2 2); SampleNext;
   TryAppend (mkE Init 1 1); TryAppend (mkE Fast 0 1); TryAppend (mkE Post 4 2);
   TryAppend (mkE Post 4 3); SampleNext; TryAppend (mkE Burnin 2 1); AppendEpoch (mkE Post 2 1); SampleAll].
Definition ex_guarded_schedule : list econf :=
  [mkE Init 1 1; mkE Fast 2 2; mkE Post 4 2; mkE Post 2 1].

Example guarded_hypotheses_satisfiable :
  valid ex_guarded_schedule = true
  /\ ex_guarded_schedule = [mkE Init 1 1] ++ appended (normalize (lastc [mkE Init 1 1]) ex_guarded_ops)
  /\ chunk_ok 2 ex_guarded_schedule
  /\ ops_ok 1 (normalize (lastc [mkE Init 1 1]) ex_guarded_ops) = true
  /\ rejected (lastc [mkE Init 1 1]) ex_guarded_ops
     = [mkE Fast 2 3; mkE Init 1 1; mkE Fast 0 1; mkE Post 4 3; mkE Burnin 2 1]
  /\ (exists g, run (mkP 2 [true] SetsFlag) [mkE Init 1 1] ex_guarded_ops = Ok g
                /\ length (calls g) = 17%nat /\ count_endwarmup (calls g) = 1%nat).
Proof.
  split; [reflexivity|]. split; [reflexivity|]. split.
  { split; [lia|]. intros c Hin. cbn in Hin.
    destruct Hin as [<-|[<-|[<-|[]]]]; cbn; [exists 1|exists 2|exists 1]; reflexivity. }
  split; [reflexivity|]. split; [reflexivity|].
  eexists. split; [vm_compute; reflexivity|]. split; vm_compute; reflexivity.
Qed.
