(* Concrete, non-trivial objects on which the hypotheses of the C08 theorems hold (and what the
   theorems' conclusions evaluate to there).  The engine instance is the stamp-kernel instance of
   CorrC08.v. *)
From Coq Require Import String List ZArith Bool Arith Lia.
Import ListNotations.
From LV Require Import Goose.Epoch Goose.Thin Goose.ThinProofs Goose.CorrC08.
Open Scope Z_scope.

(* six states arriving as chunks of sizes 2,0,3,1 with thinning 2: states 2,4,6 survive *)
Example ex_thin_chunking :
  1 <= thin (mkE Fast 6 2) /\
  chain_list (fold_left ec_append [[11; 12]; []; [13; 14; 15]; [16]] (ec_new (mkE Fast 6 2) true)) = [12; 14; 16]
  /\ thin_spec 2 (concat [[11; 12]; []; [13; 14; 15]; [16]]) = [12; 14; 16].
Proof. split; [cbn; lia|]. split; vm_compute; reflexivity. Qed.

Example ex_thin_spec_nth :
  1 <= 3 /\ (1 < length (thin_spec 3 [10; 20; 30; 40; 50; 60; 70]))%nat /\
  nth_error (thin_spec 3 [10; 20; 30; 40; 50; 60; 70]) 1 = Some 60.
Proof. split; [lia|]. split; vm_compute; [lia|reflexivity]. Qed.

(* an engine configuration: two stamp kernels (p1 vector of 3, p2 matrix 2x2), one extra key x,
   included c and x, excluded p2, two generators, kernel states stored *)
Definition ex_sched := [mkE Init 1 1; mkE Fast 6 2; mkE Burnin 5 3; mkE Slow 7 3; mkE Post 4 1].
Definition ex_x : e2e :=
  mkX ex_sched None [[("p1"%string, 3%nat)]; [("p2"%string, 4%nat)]] [("x"%string, 1%nat)]
      ["c"%string; "x"%string] ["p2"%string] 2 true false [].

Definition ex_kernels := mk_kernels 1 (x_kernels ex_x).
Definition ex_gens := map stamp_gen (seq 1 2).
Definition ex_init_ks : key -> cstate -> list kstate := fun _ _ => repeat (-1, 0, 0) 2.
Definition ex_ms := c_init_state 0 (x_kernels ex_x) (x_extra ex_x).

Example ex_hypotheses :
  valid ex_sched = true /\ (0 < 1)%nat /\ Forall (fun e => dur e mod Z.of_nat 1 = 0) (tl ex_sched)
  /\ (0 < 3)%nat /\ Forall (fun e => dur e mod Z.of_nat 3 = 0) (tl [mkE Init 1 1; mkE Fast 6 2; mkE Post 9 3]).
Proof.
  split; [reflexivity|]. split; [lia|]. split; [repeat constructor|]. split; [lia|repeat constructor].
Qed.

(* what the engine model stores for key "c" on that configuration: the initial 0 and the states
   after iterations 2,4,6 of epoch 1, 3 of epoch 2, 3,6 of epoch 3 and 1..4 of epoch 4, each
   carrying the mark of the LAST kernel (2) *)
Example ex_chain_contents :
  match x_run ex_x 0 with
  | Some g =>
      option_map (map (fun p => match find (fun q => String.eqb "c" (fst q)) p with
                                | Some q => snd q | None => None end)) (get_samples g)
      = Some (map (fun z => Some [z])
                [0; 4010; 4018; 4026; 8014; 12014; 12026; 16006; 16010; 16014; 16018])
  | None => False
  end.
Proof. vm_compute. reflexivity. Qed.

Example ex_tracked_keys :
  builder_keys ["p1"; "p2"]%string ["c"; "x"]%string ["p2"]%string <> []
  /\ tracked_keys ["p1"; "p2"]%string ["c"; "x"]%string ["p2"]%string = ["p1"; "c"; "x"]%string.
Proof. split; [discriminate|reflexivity]. Qed.

(* the stamp kernels, generators and hooks ignore their keys *)
Example ex_key_ignoring :
  (forall ker, In ker ex_kernels ->
     forall k1 k2 ei ks ms, k_trans ker k1 ei ks ms = k_trans ker k2 ei ks ms)
  /\ (forall g, In g ex_gens -> forall (k1 k2 : key) ei ms, g k1 ei ms = g k2 ei ms)
  /\ (forall (k1 k2 : key) i e ks ms, snd (c_pre k1 i e ks ms) = snd (c_pre k2 i e ks ms))
  /\ (forall (k1 k2 : key) i e h ks ms, snd (c_post k1 i e h ks ms) = snd (c_post k2 i e h ks ms)).
Proof.
  split; [|split; [|split]].
  - intros ker [<-|[<-|[]]]; reflexivity.
  - intros g [<-|[<-|[]]]; reflexivity.
  - reflexivity.
  - reflexivity.
Qed.

Example ex_builder_chunk :
  valid [mkE Init 1 1; mkE Fast 6 2; mkE Post 9 3] = true /\ [mkE Fast 6 2; mkE Post 9 3] <> []
  /\ Z.to_nat (chunk_len [mkE Init 1 1; mkE Fast 6 2; mkE Post 9 3]) = 3%nat.
Proof. split; [reflexivity|]. split; [discriminate|reflexivity]. Qed.
