From Coq Require Import QArith Bool Lia.
From LV Require Import Base.Xnum Goose.MH.
Open Scope Q_scope.

(* what is assumed of jnp.exp (trusted base): exp(-inf) = 0; exp never returns NaN on a non-NaN
   argument, never returns -inf, and is non-negative *)
Definition exp_ok (exp_o : xnum -> xnum) : Prop :=
  exp_o XNegInf = XFin 0
  /\ (forall a, a <> XNaN -> exp_o a <> XNaN /\ exp_o a <> XNegInf)
  /\ (forall a q, exp_o a = XFin q -> 0 <= q).

Definition unit_interval (u : xnum) : Prop := exists q, u = XFin q /\ 0 <= q /\ q < 1.

Lemma Qleb_true p q : Qleb p q = true <-> p <= q.
Proof. unfold Qleb. apply Qle_bool_iff. Qed.
Lemma Qltb_true p q : Qltb p q = true <-> p < q.
Proof.
  unfold Qltb. rewrite negb_true_iff. split; intros H.
  - apply Qnot_le_lt. intros Hle. apply Qle_bool_iff in Hle. congruence.
  - destruct (Qle_bool q p) eqn:E; [|reflexivity]. apply Qle_bool_iff in E.
    exfalso. apply (Qlt_not_le _ _ H E).
Qed.

Section P.
Variable exp_o : xnum -> xnum.
Hypothesis Hexp : exp_ok exp_o.

Lemma l_not_nan cur prop corr :
  let l0 := xadd (xsub prop cur) corr in
  (if xisnan l0 then XNegInf else l0) <> XNaN.
Proof. cbv zeta. destruct (xadd (xsub prop cur) corr); cbn; congruence. Qed.

(* acceptance probability is a number in [0,1] *)
Theorem prob_range c cur prop corr u :
  exists q, prob (mh_decide exp_o c cur prop corr u) = XFin q /\ 0 <= q /\ q <= 1.
Proof.
  destruct Hexp as [H0 [Hnn Hpos]].
  unfold mh_decide.
  set (l0 := xadd (xsub prop cur) corr).
  assert (Hl : (if xisnan l0 then XNegInf else l0) <> XNaN) by apply l_not_nan.
  destruct (xisnan l0) eqn:En; cbn [prob].
  - rewrite H0. cbn. exists 0. repeat split; try apply Qle_refl. discriminate.
  - destruct (Hnn l0 Hl) as [Hn1 Hn2].
    destruct (exp_o l0) as [| | |q] eqn:Ee; try congruence.
    + cbn. exists 1. repeat split; try apply Qle_refl. discriminate.
    + cbn. destruct (Qleb q 1) eqn:Eq.
      * exists q. split; [reflexivity|]. split; [eapply Hpos; eauto|]. apply Qleb_true; exact Eq.
      * exists 1. repeat split; try apply Qle_refl. discriminate.
Qed.

(* with the strict comparison: accepted iff the uniform draw lies strictly below the probability *)
Theorem accept_iff_lt cur prop corr u qu qp :
  u = XFin qu -> prob (mh_decide exp_o Lt cur prop corr u) = XFin qp ->
  (accept (mh_decide exp_o Lt cur prop corr u) = true <-> qu < qp).
Proof.
  intros -> Hp. unfold mh_decide in *.
  destruct (xisnan (xadd (xsub prop cur) corr)); cbn [prob accept] in *; rewrite Hp; cbn;
    apply Qltb_true.
Qed.

Theorem zero_never cur prop corr u :
  unit_interval u ->
  prob (mh_decide exp_o Lt cur prop corr u) = XFin 0 ->
  accept (mh_decide exp_o Lt cur prop corr u) = false.
Proof.
  intros [qu [-> [Hu0 Hu1]]] Hp.
  destruct (accept (mh_decide exp_o Lt cur prop corr (XFin qu))) eqn:Ea; [|reflexivity].
  apply (accept_iff_lt cur prop corr (XFin qu) qu 0 eq_refl Hp) in Ea.
  exfalso. apply (Qlt_not_le _ _ Ea Hu0).
Qed.

Theorem one_always c cur prop corr u :
  unit_interval u ->
  prob (mh_decide exp_o c cur prop corr u) = XFin 1 ->
  accept (mh_decide exp_o c cur prop corr u) = true.
Proof.
  intros [qu [-> [Hu0 Hu1]]] Hp. unfold mh_decide in *.
  destruct (xisnan (xadd (xsub prop cur) corr)); cbn [prob accept] in *; rewrite Hp;
    destruct c; cbn; try (apply Qltb_true; exact Hu1); apply Qleb_true; apply Qlt_le_weak; exact Hu1.
Qed.

(* an undefined ratio: error code 90, probability 0, rejection *)
Theorem nan_is_rejection cur prop corr u :
  unit_interval u ->
  xisnan (xadd (xsub prop cur) corr) = true ->
  let o := mh_decide exp_o Lt cur prop corr u in
  code o = 90%nat /\ prob o = XFin 0 /\ accept o = false.
Proof.
  intros Hu Hn. cbv zeta.
  assert (Hp : prob (mh_decide exp_o Lt cur prop corr u) = XFin 0).
  { unfold mh_decide. rewrite Hn. cbn [prob]. destruct Hexp as [-> _]. reflexivity. }
  split; [|split].
  - unfold mh_decide. rewrite Hn. reflexivity.
  - exact Hp.
  - apply zero_never; assumption.
Qed.

Theorem code_is_0_or_90 c cur prop corr u :
  code (mh_decide exp_o c cur prop corr u) =
  if xisnan (xadd (xsub prop cur) corr) then 90%nat else 0%nat.
Proof. unfold mh_decide. destruct (xisnan _); reflexivity. Qed.

(* zero target density at the proposal (log-density -inf, finite current value and correction) *)
Theorem zero_density_never cur corr u qc qk :
  unit_interval u -> cur = XFin qc -> corr = XFin qk ->
  accept (mh_decide exp_o Lt cur XNegInf corr u) = false.
Proof.
  intros Hu -> ->. apply zero_never; [exact Hu|].
  unfold mh_decide. cbn. destruct Hexp as [-> _]. reflexivity.
Qed.

(* state selection and the moved flag *)
Theorem state_select {S} c cur prop corr u (proposed input : S) :
  let o := mh_decide exp_o c cur prop corr u in
  (accept o = false -> mh_select o proposed input = input)
  /\ (accept o = true -> mh_select o proposed input = proposed).
Proof. cbv zeta. unfold mh_select. split; intros ->; reflexivity. Qed.
End P.

(* --- the code as found: with `<=` a draw of exactly 0 accepts a proposal of probability 0 --- *)
Definition exp_stub (a : xnum) : xnum :=
  match a with XNaN => XNaN | XNegInf => XFin 0 | XPosInf => XPosInf | XFin q => if Qleb q 0 then XFin (1#2) else XFin 2 end.
Lemma exp_stub_ok : exp_ok exp_stub.
Proof.
  split; [reflexivity|]. split.
  - intros a Ha. destruct a as [| | |q]; cbn.
    + congruence.
    + split; discriminate.
    + split; discriminate.
    + destruct (Qleb q 0); split; discriminate.
  - intros a q. destruct a as [| | |q0]; cbn; try discriminate.
    + intros H. inversion H. apply Qle_refl.
    + destruct (Qleb q0 0); intros H; inversion H; discriminate.
Qed.

Theorem le_refuted :
  exists cur prop corr u, unit_interval u /\
    prob (mh_decide exp_stub Le cur prop corr u) = XFin 0 /\
    accept (mh_decide exp_stub Le cur prop corr u) = true.
Proof.
  exists (XFin 0), XNegInf, (XFin 0), (XFin 0). split.
  - exists 0. split; [reflexivity|split; [apply Qle_refl|reflexivity]].
  - split; reflexivity.
Qed.
Theorem le_refuted_nan :
  exists cur prop corr u, unit_interval u /\
    code (mh_decide exp_stub Le cur prop corr u) = 90%nat /\
    accept (mh_decide exp_stub Le cur prop corr u) = true.
Proof.
  exists (XFin 0), XNaN, (XFin 0), (XFin 0). split.
  - exists 0. split; [reflexivity|split; [apply Qle_refl|reflexivity]].
  - split; reflexivity.
Qed.

(* non-vacuity: a finite case *)
Example finite_case :
  mh_decide exp_stub Lt (XFin 1) (XFin (1#2)) (XFin 0) (XFin (1#4)) = mkMH 0 (XFin (1#2)) true.
Proof. reflexivity. Qed.
