(* Support library for the C16 source tie (tools/py2gallina.py).

   The translator turns the Python source of EpochManager.append, stan_epochs, EpochType.is_warmup /
   is_adaptation and EpochState.time_left / advance_time into Gallina definitions (gen_...) on every run
   of the check; the generated file (work directory, never this directory) proves them extensionally
   equal to the hand-written model and re-states the main theorems for them.  This file holds exactly
   what that generated file needs: the result / exception monad and the few Python primitives of the
   translated subset, the hand-written model viewed in that result type, the transfer theorems, and the
   case-analysis tactics of the generated equality proofs. *)
From Coq Require Import List ZArith Bool Lia.
Import ListNotations.
From LV Require Import Goose.Epoch Goose.EpochProofs Goose.Warmup Goose.WarmupProofs Goose.EpochBuilder.
Open Scope Z_scope.

(* ---- results of translated code: a value or a raised exception class ---- *)
Inductive gexn := E_RuntimeError | E_ValueError | E_IndexError | E_ZeroDivisionError | E_OutOfFuel.
Inductive gres (A : Type) : Type := GOk (a : A) | GRaise (e : gexn).
Arguments GOk {A} a.
Arguments GRaise {A} e.
Definition gbind {A B} (m : gres A) (f : A -> gres B) : gres B :=
  match m with GOk a => f a | GRaise e => GRaise e end.

(* Python primitives of the translated subset *)
Definition gempty {A} (l : list A) : bool := match l with [] => true | _ :: _ => false end.  (* not xs *)
Definition glast {A} (l : list A) : gres A :=                                                 (* xs[-1] *)
  match rev l with [] => GRaise E_IndexError | x :: _ => GOk x end.
Definition gmod (a b : Z) : gres Z := if b =? 0 then GRaise E_ZeroDivisionError else GOk (a mod b).
Definition gdiv (a b : Z) : gres Z := if b =? 0 then GRaise E_ZeroDivisionError else GOk (a / b).
(* while cond(s): s = body(s)   on fuel; running out of fuel is a result of its own *)
Fixpoint gwhile {S : Type} (fuel : nat) (cond : S -> bool) (body : S -> S) (s : S) : gres S :=
  match fuel with
  | O => GRaise E_OutOfFuel
  | Datatypes.S f => if cond s then gwhile f cond body (body s) else GOk s
  end.
(* more fuel never changes a result that was reached *)
Lemma gwhile_mono {S : Type} (cond : S -> bool) (body : S -> S) :
  forall f (s r : S), gwhile f cond body s = GOk r ->
  forall f', (f <= f')%nat -> gwhile f' cond body s = GOk r.
Proof.
  induction f as [|f IH]; intros s r H f' Hf; [discriminate|].
  destruct f' as [|f']; [lia|]. cbn [gwhile] in *.
  destruct (cond s); [apply (IH _ _ H); lia | exact H].
Qed.
(* the EpochConfig record of the source: fields type (as its integer value), duration, thinning *)
Definition gconf (ty d th : Z) : econf := mkE (ety_of_code ty) d th.
Definition gtype (c : econf) : Z := ety_code (ety_ c).

Lemma glast_nil {A} : glast (@nil A) = GRaise E_IndexError.
Proof. reflexivity. Qed.
Lemma glast_app {A} (l : list A) x : glast (l ++ [x]) = GOk x.
Proof. unfold glast. rewrite rev_app_distr. reflexivity. Qed.
Lemma gempty_app {A} (l : list A) x : gempty (l ++ [x]) = false.
Proof. destruct l; reflexivity. Qed.
Lemma list_rev_case {A} (l : list A) : l = [] \/ exists r x, l = r ++ [x].
Proof.
  destruct l as [|a l] using rev_ind; [left; reflexivity | right; eauto].
Qed.

(* ---- the hand-written model, viewed in the result type of the translated code ---- *)
Definition append_res (cs : list econf) (c : econf) : gres (list econf) :=
  if append_ok (lastc cs) c then GOk (cs ++ [c]) else GRaise E_RuntimeError.

Lemma mgr_append_as_res m c :
  mgr_append m c = match append_res (cfgs m) c with
                   | GOk l => Some (mkM l (ptr m) (start m))
                   | GRaise _ => None
                   end.
Proof. unfold mgr_append, append_res. destruct (append_ok (lastc (cfgs m)) c); reflexivity. Qed.

(* EpochManager.__init__:  for config in configs: self.append(config) *)
Fixpoint run_appends (ap : list econf -> econf -> gres (list econf)) (cs l : list econf)
  : gres (list econf) :=
  match l with
  | [] => GOk cs
  | c :: r => match ap cs c with GOk cs' => run_appends ap cs' r | GRaise e => GRaise e end
  end.

Lemma run_appends_model cs l :
  run_appends append_res cs l =
  if accepts_from (lastc cs) l then GOk (cs ++ l) else GRaise E_RuntimeError.
Proof.
  revert cs; induction l as [|c r IH]; intros cs.
  - cbn. rewrite app_nil_r. reflexivity.
  - cbn [run_appends accepts_from]. unfold append_res at 1.
    destruct (append_ok (lastc cs) c); cbn [andb]; [|reflexivity].
    rewrite IH, lastc_app, <- app_assoc. reflexivity.
Qed.

Lemma run_appends_ext ap ap' :
  (forall cs c, ap cs c = ap' cs c) -> forall l cs, run_appends ap cs l = run_appends ap' cs l.
Proof.
  intros H l; induction l as [|c r IH]; intros cs; [reflexivity|].
  cbn [run_appends]. rewrite H. destruct (ap' cs c); [apply IH | reflexivity].
Qed.

(* transfer of C16_accept_iff_valid to any function extensionally equal to the model's append *)
Theorem tie_accept_iff_valid ap :
  (forall cs c, ap cs c = append_res cs c) ->
  forall l, (run_appends ap [] l = GOk l <-> valid l = true)
            /\ (valid l = false -> run_appends ap [] l = GRaise E_RuntimeError).
Proof.
  intros H l. rewrite (run_appends_ext _ _ H), run_appends_model.
  change (accepts_from (lastc []) l) with (accepts l). rewrite accepts_eq_valid. cbn [app].
  destruct (valid l); split; try split; intros; try reflexivity; try discriminate.
Qed.

Definition stan_res (w p i t b thp thw : Z) : gres (list econf) :=
  match stan_epochs w p i t b thp thw with
  | SOk l => GOk l
  | SValueError => GRaise E_ValueError
  | SOutOfFuel => GRaise E_OutOfFuel
  end.

(* the model's loop result in the shape the translated loop produces it: a state triple
   (this_time, time_left, epochs) where the new epochs are appended to the ones present before *)
Definition slow_res (fuel : nat) (this left thw : Z) (eps : list econf) : gres (list econf * Z) :=
  match slow_loop fuel this left thw with
  | Some (l, rest) => GOk (eps ++ l, rest)
  | None => GRaise E_OutOfFuel
  end.

Lemma slow_res_step f this left thw eps :
  slow_res (S f) this left thw eps =
  if 3 * this <=? left then slow_res f (2 * this) (left - this) thw (eps ++ [mkE Slow this thw])
  else GOk (eps, left).
Proof.
  unfold slow_res. cbn [slow_loop]. destruct (3 * this <=? left).
  - destruct (slow_loop f (2 * this) (left - this) thw) as [[l rest]|]; [|reflexivity].
    rewrite <- app_assoc. reflexivity.
  - rewrite app_nil_r. reflexivity.
Qed.

Lemma stan_res_unfold w p i t b thp thw :
  stan_res w p i t b thp thw =
  if w <? 20 then GRaise E_ValueError
  else if w <? i + t + b then GRaise E_ValueError
  else gbind (slow_res (S (Z.to_nat w)) b (w - i - t) thw [mkE Init 1 1; mkE Fast i thw])
         (fun r => GOk (fst r ++ [mkE Slow (snd r) thw; mkE Fast t thw; mkE Post p thp])).
Proof.
  unfold stan_res, stan_epochs, slow_res.
  destruct (w <? 20); [reflexivity|]. destruct (w <? i + t + b); [reflexivity|].
  destruct (slow_loop (S (Z.to_nat w)) b (w - i - t) thw) as [[l rest]|]; [|reflexivity].
  cbn [gbind fst snd]. rewrite <- !app_assoc. reflexivity.
Qed.

(* transfer of C16_stan_valid_and_sums / C16_stan_rejects *)
Theorem tie_stan_valid_and_sums (g : nat -> Z -> Z -> Z -> Z -> Z -> Z -> Z -> gres (list econf)) :
  (forall w p i t b thp thw, g (S (Z.to_nat w)) w p i t b thp thw = stan_res w p i t b thp thw) ->
  forall w p i t b thp thw,
  admissible w p i t b thp thw ->
  exists slows rest,
    g (S (Z.to_nat w)) w p i t b thp thw =
      GOk ([mkE Init 1 1; mkE Fast i thw] ++ slows
           ++ [mkE Slow rest thw; mkE Fast t thw; mkE Post p thp])
    /\ doubling b slows
    /\ Forall (fun c => ety_ c = Slow /\ thin c = thw /\ b <= dur c) slows
    /\ b <= rest < 3 * (b * 2 ^ Z.of_nat (length slows))
    /\ i + sum_dur slows + rest + t = w
    /\ forall l, g (S (Z.to_nat w)) w p i t b thp thw = GOk l ->
         valid l = true /\ sum_dur (warmup_part l) = w.
Proof.
  intros H w p i t b thp thw Ha.
  destruct (stan_valid_and_sums w p i t b thp thw Ha) as (slows & rest & E & H1 & H2 & H3 & H4 & H5).
  exists slows, rest. rewrite H. unfold stan_res. rewrite E.
  split; [reflexivity|]. split; [exact H1|]. split; [exact H2|]. split; [exact H3|].
  split; [exact H4|]. intros l Hl. injection Hl as <-. exact (H5 _ E).
Qed.

(* the translated function has a fuel argument that the Python function does not have: with the
   translated function monotone in its fuel, every fuel from the model's on gives the one valid result *)
Theorem tie_stan_any_fuel (g : nat -> Z -> Z -> Z -> Z -> Z -> Z -> Z -> gres (list econf)) :
  (forall w p i t b thp thw, g (S (Z.to_nat w)) w p i t b thp thw = stan_res w p i t b thp thw) ->
  (forall f f' w p i t b thp thw r, (f <= f')%nat ->
     g f w p i t b thp thw = GOk r -> g f' w p i t b thp thw = GOk r) ->
  forall w p i t b thp thw,
  admissible w p i t b thp thw ->
  exists l,
    (forall fuel, (S (Z.to_nat w) <= fuel)%nat -> g fuel w p i t b thp thw = GOk l)
    /\ valid l = true /\ sum_dur (warmup_part l) = w.
Proof.
  intros H Hm w p i t b thp thw Ha.
  destruct (tie_stan_valid_and_sums g H w p i t b thp thw Ha) as (slows & rest & E & _ & _ & _ & _ & H5).
  eexists. split; [intros fuel Hf; exact (Hm _ _ _ _ _ _ _ _ _ _ Hf E)|]. exact (H5 _ E).
Qed.

Theorem tie_stan_rejects (g : nat -> Z -> Z -> Z -> Z -> Z -> Z -> Z -> gres (list econf)) :
  (forall w p i t b thp thw, g (S (Z.to_nat w)) w p i t b thp thw = stan_res w p i t b thp thw) ->
  forall w p i t b thp thw,
  w < 20 \/ w < i + t + b -> g (S (Z.to_nat w)) w p i t b thp thw = GRaise E_ValueError.
Proof.
  intros H w p i t b thp thw Hr. rewrite H. unfold stan_res. rewrite (stan_rejects _ _ _ _ _ _ _ Hr).
  reflexivity.
Qed.

(* ---- tactics of the generated equality proofs ---- *)
(* split on one integer comparison of the goal (both sides mention the same atoms, so one split
   decides every occurrence); > and >= are first turned round *)
Ltac tie_split :=
  match goal with
  | |- context [Z.gtb ?a ?b] => rewrite (Z.gtb_ltb a b)
  | |- context [Z.geb ?a ?b] => rewrite (Z.geb_leb a b)
  | |- context [Z.eqb ?a ?b] => destruct (Z.eqb_spec a b)
  | |- context [Z.ltb ?a ?b] => destruct (Z.ltb_spec a b)
  | |- context [Z.leb ?a ?b] => destruct (Z.leb_spec a b)
  end.
Ltac tie_simpl :=
  unfold gmod, gdiv, gconf, gtype;
  cbn [gbind gempty glast gconf gtype ety_code ety_of_code ety_ dur thin
       is_init is_post is_warmup is_adapt andb orb negb fst snd rev app].
Ltac tie_leaf := first [ reflexivity | exfalso; lia | congruence ].
Ltac tie_crush := tie_simpl; repeat (first [ tie_leaf | tie_split; tie_simpl ]).
