(* Support library for the C11 source tie (tools/py2gallina_c11.py).

   On every run of the check the translator turns the Python source of liesel/goose/da.py
   (da_init, da_step, da_finalize) and of TransitionMixin.transition (liesel/goose/kernel.py) into
   Gallina definitions (gen_...); the generated file (work directory, never this directory) proves them
   extensionally equal to the hand-written model of Goose/DA.v and re-states the main C11 theorems for
   them.  This file holds exactly what that generated file needs: the few primitives of the translated
   subset that the model file does not have (comparisons over R as booleans), the shape in which a
   translated function is compared with the model (step_c, g_steps, g_epoch, g_adaptive, ...), the
   transfer theorems, and the tactics of the generated equality proofs. *)
From Coq Require Import Reals List Bool Arith ZArith Lra.
Import ListNotations.
From LV Require Import Goose.DA Goose.DAProofs.
Open Scope R_scope.

(* ---- primitives of the translated subset ------------------------------------------------ *)
(* comparisons of two real numbers as booleans (Python / jnp comparisons of scalars) *)
Definition rltb (x y : R) : bool := if Rlt_dec x y then true else false.
Definition rleb (x y : R) : bool := if Rle_dec x y then true else false.
Definition reqb (x y : R) : bool := if Req_EM_T x y then true else false.
Definition rgtb (x y : R) : bool := rltb y x.
Definition rgeb (x y : R) : bool := rleb y x.
Definition rneb (x y : R) : bool := negb (reqb x y).

(* ---- the shape in which translated functions are compared with the model ---------------- *)
(* da_init / da_finalize: dastate -> dastate.
   da_step(kernel_state, acceptance_prob, time_in_epoch, target_accept, gamma, kappa, t0): the six
   numeric parameters are real numbers in the translation; the kernels call it positionally with
   (.., epoch.time_in_epoch, self.da_target_accept, self.da_gamma, self.da_kappa, self.da_t0) and
   time_in_epoch is a count, i.e. INR of a natural number *)
Definition init_fn := dastate -> dastate.
Definition step_fn := dastate -> R -> R -> R -> R -> R -> R -> dastate.

Definition step_c (g : step_fn) (c : daconst) (ks : dastate) (a : R) (tie : nat) : dastate :=
  g ks a (INR tie) (c_delta c) (c_gamma c) (c_kappa c) (c_t0 c).

Definition init_eq (g : init_fn) : Prop := forall ks, g ks = da_init ks.
Definition step_eq (g : step_fn) : Prop := forall c ks a tie, step_c g c ks a tie = da_step c ks a tie.
Definition fin_eq (g : init_fn) : Prop := forall ks, g ks = da_finalize ks.

(* consecutive calls with time_in_epoch = tie, tie + 1, ... and the whole epoch, as in DA.v *)
Fixpoint g_steps (g : step_fn) (c : daconst) (ks : dastate) (tie : nat) (accs : list R) : dastate :=
  match accs with
  | [] => ks
  | a :: r => g_steps g c (step_c g c ks a tie) (S tie) r
  end.

Definition g_epoch (gi : init_fn) (gs : step_fn) (gf : init_fn) (c : daconst) (ks : dastate) (accs : list R) : dastate :=
  gf (g_steps gs c (gi ks) 0 accs).

Lemma g_steps_is_model (g : step_fn) : step_eq g ->
  forall c accs ks tie, g_steps g c ks tie accs = da_steps c ks tie accs.
Proof.
  intros Hs c accs. induction accs as [|a r IH]; intros ks tie; cbn [g_steps da_steps]; [reflexivity|].
  rewrite Hs. apply IH.
Qed.

Lemma g_epoch_is_model gi gs gf : init_eq gi -> step_eq gs -> fin_eq gf ->
  forall c ks accs, g_epoch gi gs gf c ks accs = da_epoch c ks accs.
Proof.
  intros Hi Hs Hf c ks accs. unfold g_epoch, da_epoch.
  rewrite Hf, (g_steps_is_model gs Hs), Hi. reflexivity.
Qed.

(* ---- transfer theorems: the C11 theorems for any functions equal to the model ------------ *)
Theorem tie_matches_nesterov gi gs : init_eq gi -> step_eq gs ->
  forall c ks0 l, l <> [] ->
  let ks := g_steps gs c (gi ks0) 0 l in
  let m := ln (10 * step ks0) in
  esum ks = sum_err c l
  /\ step ks = exp (lstep_spec c m l)
  /\ ln (step ks) = lstep_spec c m l
  /\ lavg ks = lavg_spec c m l
  /\ mu ks = m.
Proof.
  intros Hi Hs c ks0 l Hne. cbv zeta. rewrite (g_steps_is_model gs Hs), Hi.
  exact (matches_nesterov c ks0 l Hne).
Qed.

Theorem tie_matches_hoffman_gelman gi gs : init_eq gi -> step_eq gs ->
  forall c ks0 l, 0 <= c_t0 c -> c_gamma c <> 0 -> l <> [] ->
  let ks := g_steps gs c (gi ks0) 0 l in
  let hg := hg_steps c (ln (10 * step ks0)) (mkHG 0 0 0) 1 l in
  step ks = exp (logeps hg)
  /\ lavg ks = xbar hg
  /\ esum ks = (INR (length l) + c_t0 c) * hbar hg.
Proof.
  intros Hi Hs c ks0 l H0 Hg Hne. cbv zeta. rewrite (g_steps_is_model gs Hs), Hi.
  exact (matches_hoffman_gelman c ks0 l H0 Hg Hne).
Qed.

Theorem tie_first_avg_independent gs : step_eq gs ->
  forall c s m x0 x0' l, l <> [] ->
  g_steps gs c (mkDA s 0 x0 m) 0 l = g_steps gs c (mkDA s 0 x0' m) 0 l.
Proof.
  intros Hs c s m x0 x0' l Hne. rewrite !(g_steps_is_model gs Hs).
  exact (first_avg_independent c s m x0 x0' l Hne).
Qed.

Theorem tie_finalize gi gs gf : init_eq gi -> step_eq gs -> fin_eq gf ->
  forall c ks0 l, l <> [] ->
  step (g_epoch gi gs gf c ks0 l) = exp (lavg_spec c (ln (10 * step ks0)) l)
  /\ lavg (g_epoch gi gs gf c ks0 l) = lavg (g_steps gs c (gi ks0) 0 l)
  /\ esum (g_epoch gi gs gf c ks0 l) = esum (g_steps gs c (gi ks0) 0 l)
  /\ mu (g_epoch gi gs gf c ks0 l) = mu (g_steps gs c (gi ks0) 0 l).
Proof.
  intros Hi Hs Hf c ks0 l Hne. rewrite (g_epoch_is_model gi gs gf Hi Hs Hf), (g_steps_is_model gs Hs), Hi.
  exact (finalize_epoch c ks0 l Hne).
Qed.

Theorem tie_empty_epoch gi gf : init_eq gi -> fin_eq gf ->
  forall ks, 0 < step ks -> step (gf (gi ks)) = step ks.
Proof. intros Hi Hf ks H. rewrite Hf, Hi. exact (finalize_init_id ks H). Qed.

Theorem tie_monotone gs : step_eq gs ->
  forall c ks a a' tie,
  0 < c_gamma c -> 0 < c_t0 c + INR (tie + 1) -> a <= a' ->
  step (step_c gs c ks a tie) <= step (step_c gs c ks a' tie)
  /\ lavg (step_c gs c ks a tie) <= lavg (step_c gs c ks a' tie).
Proof. intros Hs c ks a a' tie Hg Ht Ha. rewrite !Hs. exact (monotone c ks a a' tie Hg Ht Ha). Qed.

Theorem tie_monotone_epoch gi gs gf : init_eq gi -> step_eq gs -> fin_eq gf ->
  forall c ks0 l l',
  0 < c_gamma c -> 0 <= c_t0 c -> 0 <= c_kappa c -> l <> [] -> pointwise_le l l' ->
  step (g_epoch gi gs gf c ks0 l) <= step (g_epoch gi gs gf c ks0 l').
Proof.
  intros Hi Hs Hf c ks0 l l' Hg Ht Hk Hne Hp. rewrite !(g_epoch_is_model gi gs gf Hi Hs Hf).
  exact (monotone_epoch c ks0 l l' Hg Ht Hk Hne Hp).
Qed.

Theorem tie_monotone_hyps_needed gs : step_eq gs ->
  (exists c ks a a' tie, c_gamma c < 0 /\ 0 < c_t0 c + INR (tie + 1) /\ a < a'
    /\ step (step_c gs c ks a' tie) < step (step_c gs c ks a tie))
  /\ (exists c ks a a' tie, 0 < c_gamma c /\ c_t0 c + INR (tie + 1) < 0 /\ a < a'
    /\ step (step_c gs c ks a' tie) < step (step_c gs c ks a tie)).
Proof.
  intros Hs.
  destruct monotone_hyps_needed as [(c & ks & a & a' & tie & H) (c2 & ks2 & a2 & a2' & tie2 & H2)].
  split.
  - exists c, ks, a, a', tie. rewrite !Hs. exact H.
  - exists c2, ks2, a2, a2', tie2. rewrite !Hs. exact H2.
Qed.

(* ---- TransitionMixin.transition ---------------------------------------------------------- *)
(* the translated method takes the two abstract methods and the epoch type as parameters:
     gen_transition A O (adaptive standard : A -> O) (epoch_type : Z) (operands : A) : O
   (jax.lax.cond(pred, f, g, *operands) = if pred then f operands else g operands).
   It is compared with the model's [transition] by instantiating the two methods with the model's
   _adaptive_transition (calling the da_step under comparison) and _standard_transition. *)
Definition ecode (e : etype) : Z := Z.of_nat (etype_num e).

Definition trans_fn := forall A O : Type, (A -> O) -> (A -> O) -> Z -> A -> O.

Definition g_adaptive {X : Type} (gs : step_fn) (k : kernel) (c : daconst) (args : kstate X * R * nat) : kstate X :=
  let '(ks, a, tie) := args in
  let out := standard_transition k ks in
  if tunes k then mkKS (step_c gs c (da out) a tie) (rest out) else out.

Definition g_standard {X : Type} (k : kernel) (args : kstate X * R * nat) : kstate X :=
  let '(ks, a, tie) := args in standard_transition k ks.

Definition g_transition {X : Type} (gt : trans_fn) (gs : step_fn) (k : kernel) (c : daconst) (ety : etype)
           (ks : kstate X) (a : R) (tie : nat) : kstate X :=
  gt (kstate X * R * nat)%type (kstate X) (g_adaptive gs k c) (g_standard k) (ecode ety) (ks, a, tie).

Definition trans_eq (gt : trans_fn) : Prop :=
  forall (A O : Type) (f g : A -> O) (e : etype) (x : A),
    gt A O f g (ecode e) x = if is_adaptation e then f x else g x.

Lemma g_transition_is_model {X : Type} gt gs : trans_eq gt -> step_eq gs ->
  forall k c ety (ks : kstate X) a tie, g_transition gt gs k c ety ks a tie = transition k c ety ks a tie.
Proof.
  intros Ht Hs k c ety ks a tie. unfold g_transition. rewrite Ht.
  unfold transition, adaptive_transition, g_adaptive, g_standard. rewrite Hs. reflexivity.
Qed.

Theorem tie_frozen {X : Type} gt gs : trans_eq gt ->
  forall k c ety (ks : kstate X) a tie,
  ety = Burnin \/ ety = Post \/ ety = Initial ->
  g_transition gt gs k c ety ks a tie = ks.
Proof.
  intros Ht k c ety ks a tie H. unfold g_transition. rewrite Ht.
  destruct H as [ -> | [ -> | -> ] ]; reflexivity.
Qed.

Theorem tie_adaptive_transition {X : Type} gt gs : trans_eq gt ->
  forall k c ety (ks : kstate X) a tie,
  is_adaptation ety = true -> tunes k = true ->
  g_transition gt gs k c ety ks a tie = mkKS (step_c gs c (da ks) a tie) (rest ks).
Proof.
  intros Ht k c ety ks a tie He Hk. unfold g_transition. rewrite Ht, He.
  unfold g_adaptive, standard_transition. rewrite Hk. reflexivity.
Qed.

Theorem tie_frozen_mh_untuned {X : Type} gt gs : trans_eq gt ->
  forall c ety (ks : kstate X) a tie, g_transition gt gs (MH false) c ety ks a tie = ks.
Proof.
  intros Ht c ety ks a tie. unfold g_transition. rewrite Ht.
  destruct (is_adaptation ety); reflexivity.
Qed.

(* ---- tactics of the generated equality proofs -------------------------------------------- *)
(* both sides are built from + - * / exp ln sqrt Rpower over the same atoms; [tie_arith] closes the
   goal by ring where it can and descends through the non-ring function symbols otherwise *)
Ltac tie_norm := unfold Rpower, Rdiv, Rminus, Rsqr; rewrite ?ln_exp.

Ltac tie_arith :=
  first
    [ reflexivity
    | ring
    | match goal with
      | |- mkDA _ _ _ _ = mkDA _ _ _ _ => f_equal; tie_arith
      | |- exp _ = exp _ => apply f_equal; tie_arith
      | |- ln _ = ln _ => apply f_equal; tie_arith
      | |- sqrt _ = sqrt _ => apply f_equal; tie_arith
      | |- / _ = / _ => apply f_equal; tie_arith
      | |- - _ = - _ => apply f_equal; tie_arith
      | |- _ + _ = _ + _ => apply f_equal2; tie_arith
      | |- _ * _ = _ * _ => apply f_equal2; tie_arith
      end ].

(* two occurrences [f a], [f b] of a non-ring function symbol whose arguments are provably equal are made
   syntactically equal, so that [ring] sees one atom (rewritten code: `1 + t` for `t + 1`, a factor moved
   into a local, ...) *)
Ltac tie_unify f :=
  repeat match goal with
  | |- context [f ?a] =>
      match goal with
      | |- context [f ?b] =>
          tryif constr_eq a b then fail else
          (let H := fresh "Hu" in assert (H : b = a) by tie_arith; rewrite H; clear H)
      end
  end.

Ltac tie_atoms := tie_unify ln; tie_unify sqrt; tie_unify Rinv; tie_unify exp.

(* time_in_epoch + 1 with time_in_epoch = INR tie is the model's INR (tie + 1) *)
Ltac tie_inr := rewrite ?plus_INR; change (INR 1) with 1.

Ltac tie_da := tie_inr; tie_norm; first [ tie_arith | tie_atoms; tie_atoms; tie_arith ].
