(* Executable glue for the C19 correspondence shards (no proofs here). *)
From Coq Require Import String.
From Coq Require Import List Arith Bool ZArith QArith Qabs.
Import ListNotations.
Close Scope Q_scope.
Open Scope nat_scope.
From LV Require Import Base.ListAux Goose.ErrorLog.

Definition opt_eqb {X} (eqb : X -> X -> bool) (a b : option X) : bool :=
  match a, b with
  | None, None => true
  | Some x, Some y => eqb x y
  | _, _ => false
  end.

Definition nl_eqb := list_eqb Nat.eqb.
Definition nll_eqb := list_eqb nl_eqb.
Definition zll_eqb := list_eqb (list_eqb Z.eqb).

Definition kel_eqb (a b : kel) : bool :=
  nl_eqb (kel_transition a) (kel_transition b) && nll_eqb (kel_codes a) (kel_codes b).

Definition entry_eqb (a b : entry) : bool :=
  (en_code a =? en_code b) && opt_eqb String.eqb (en_msg a) (en_msg b)
  && nl_eqb (en_total a) (en_total b) && opt_eqb nl_eqb (en_post a) (en_post b).

Definition phase_eqb (a b : phase) : bool :=
  match a, b with Warmup, Warmup => true | Posterior, Posterior => true | _, _ => false end.

(* the implementation's relative frequencies are float32: compare within 1e-5 (seeded wrong
   denominators move the value by more than 1e-3 at the sizes used) *)
Definition q_close (a b : Q) : bool := Qle_bool (Qabs (a - b)) (1 # 100000).

Definition drow_eqb (a b : drow) : bool :=
  (rw_kernel a =? rw_kernel b) && (rw_code a =? rw_code b) && opt_eqb String.eqb (rw_msg a) (rw_msg b)
  && phase_eqb (rw_phase a) (rw_phase b) && (rw_chain a =? rw_chain b)
  && Z.eqb (rw_count a) (rw_count b) && opt_eqb q_close (rw_rel a) (rw_rel b).

Definition arow_eqb (a b : arow) : bool :=
  (ar_kernel a =? ar_kernel b) && (ar_code a =? ar_code b) && opt_eqb String.eqb (ar_msg a) (ar_msg b)
  && phase_eqb (ar_phase a) (ar_phase b)
  && Z.eqb (ar_count a) (ar_count b) && opt_eqb q_close (ar_rel a) (ar_rel b).

Definition si_eqb (a b : sample_info) : bool :=
  (si_chains a =? si_chains b) && (si_size a =? si_size b) && (si_warmup a =? si_warmup b).

Definition summary_eqb (a b : summary) : bool :=
  si_eqb (su_info a) (su_info b)
  && list_eqb (list_eqb entry_eqb) (su_errors a) (su_errors b)
  && opt_eqb (list_eqb drow_eqb) (su_df_chain a) (su_df_chain b)
  && opt_eqb (list_eqb arow_eqb) (su_df_agg a) (su_df_agg b).

(* what the harness observed on the real code *)
Record obs := mkObs {
  o_log_all : option (list kel);          (* get_error_log(False), kernels sorted by identifier *)
  o_log_post : option (list kel);         (* get_error_log(True); None = Option(None) *)
  o_summary : option summary;             (* None = Summary(results) raised *)
  o_samples_all : list (list Z);          (* get_samples() of the first position key *)
  o_samples_post : option (list (list Z)) }.   (* get_posterior_samples(); None = raised *)

Definition model_log (post_only : bool) (r : run) : option (list kel) :=
  opt_all (map (fun k => error_log post_only (r_sched r) (k_E k)) (r_kernels r)).

(* one bit per compared observable: [log_all; log_post; summary; samples_all; samples_post] *)
Definition agree_bits (c : run * obs) : list bool :=
  let '(r, o) := c in
  [ opt_eqb (list_eqb kel_eqb) (model_log false r) (o_log_all o);
    opt_eqb (list_eqb kel_eqb) (model_log true r) (o_log_post o);
    opt_eqb summary_eqb (summarize r) (o_summary o);
    zll_eqb (all_samples (r_sched r) (r_init r) (r_pos r)) (o_samples_all o);
    opt_eqb zll_eqb (posterior_samples (r_sched r) (r_pos r)) (o_samples_post o) ].

Definition agrees (c : run * obs) : bool := forallb (fun b => b) (agree_bits c).

(* finer diagnostics of a disagreeing summary *)
Definition summary_bits (c : run * obs) : list bool :=
  let '(r, o) := c in
  match summarize r, o_summary o with
  | Some a, Some b =>
      [ si_eqb (su_info a) (su_info b);
        list_eqb (list_eqb entry_eqb) (su_errors a) (su_errors b);
        opt_eqb (list_eqb drow_eqb) (su_df_chain a) (su_df_chain b);
        opt_eqb (list_eqb arow_eqb) (su_df_agg a) (su_df_agg b) ]
  | None, None => [true]
  | _, _ => [false]
  end.
