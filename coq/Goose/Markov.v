(* C04 - Markov kernels on FINITE state spaces, as stochastic matrices over R.

   A finite state space is a duplicate-free list [xs : list X] of states with a boolean
   equality [eqb]; an (unnormalised) target is a weight function [w : X -> R], positive on
   [xs]; a kernel is a function [P : X -> X -> R], [P x y] = probability of moving from x
   to y in one transition.

   The constructions follow the anchored code:
     - [mh_kernel]   : liesel/goose/mh.py mh_step driven by a proposal with density table q
                       and log-correction corr (mh_kernel.py MHKernel, rw.py RWKernel with
                       corr = 0, iwls.py IWLSKernel with corr = bwd - fwd):
                       off-diagonal entry q x y * accept_prob (ln (w y) - ln (w x) + corr x y)
                       with accept_prob l = min(1, exp l)  (the same rule as the C05 model
                       Goose/MH.v: p := clip_max1 (exp l)), the rejected mass stays at x.
     - [gibbs_kernel]: gibbs.py GibbsKernel with a transition function that draws the block
                       from its exact full conditional (model/goose.py
                       finite_discrete_gibbs_kernel: categorical over the joint log-prob at
                       every outcome): the rest r(x) of the state is kept, the new state y is
                       drawn with probability w y / sum of w over the states sharing the rest.
     - [involutive_kernel] : a deterministic involution T accepted with min(1, w(T z)/w z)
                       (the HMC skeleton: leapfrog followed by a momentum flip on the extended
                       space; the momentum refresh is a Gibbs step).
     - [seq_kernel]  : kernel_sequence.py KernelSequence.transition threads the model state
                       through the kernels = matrix product; [iter_kernel] = n transitions.
   No proofs in this file (see MarkovProofs.v). *)
From Coq Require Import Reals List Bool.
Import ListNotations.
Open Scope R_scope.

(* finite sums *)
Definition rsum {A : Type} (l : list A) (f : A -> R) : R :=
  fold_right (fun x acc => f x + acc) 0 l.

Section Defs.
Context {X : Type}.
Variable eqb : X -> X -> bool.      (* decidable equality of states *)
Variable xs : list X.               (* the state space *)

Definition invariant (w : X -> R) (P : X -> X -> R) : Prop :=
  forall y, In y xs -> rsum xs (fun x => w x * P x y) = w y.

Definition detailed_balance (w : X -> R) (P : X -> X -> R) : Prop :=
  forall x y, In x xs -> In y xs -> w x * P x y = w y * P y x.

Definition stochastic (P : X -> X -> R) : Prop :=
  (forall x y, In x xs -> In y xs -> 0 <= P x y) /\
  (forall x, In x xs -> rsum xs (P x) = 1).

Definition positive (w : X -> R) : Prop := forall x, In x xs -> 0 < w x.

(* a proposal table: non-negative, rows sum to one *)
Definition proposal (q : X -> X -> R) : Prop :=
  (forall x y, In x xs -> In y xs -> 0 <= q x y) /\
  (forall x, In x xs -> rsum xs (q x) = 1).

(* the move probabilities [off x y] for y <> x; whatever is not moved stays at x *)
Definition with_diag (off : X -> X -> R) (x y : X) : R :=
  if eqb x y then 1 - rsum xs (fun z => if eqb x z then 0 else off x z) else off x y.

(* mh.py: acceptance_prob = clip(exp(log_acc_prob), max=1) *)
Definition accept_prob (l : R) : R := Rmin 1 (exp l).

(* propose y from x with probability q x y; accept with
   accept_prob (log_prob(y) - log_prob(x) + log_correction) *)
Definition mh_off (w : X -> R) (q corr : X -> X -> R) (x y : X) : R :=
  q x y * accept_prob (ln (w y) - ln (w x) + corr x y).

Definition mh_kernel (w : X -> R) (q corr : X -> X -> R) : X -> X -> R :=
  with_diag (mh_off w q corr).

(* the correction the docstring of mh_step asks for: log (q(x | x') / q(x' | x)) *)
Definition hastings_corr (q : X -> X -> R) (x y : X) : R := ln (q y x) - ln (q x y).

(* deterministic involutive proposal *)
Definition inv_off (w : X -> R) (T : X -> X) (x y : X) : R :=
  if eqb y (T x) then Rmin 1 (w (T x) / w x) else 0.

Definition involutive_kernel (w : X -> R) (T : X -> X) : X -> X -> R :=
  with_diag (inv_off w T).

Definition id_kernel (x y : X) : R := if eqb x y then 1 else 0.

Definition seq_kernel (P1 P2 : X -> X -> R) (x y : X) : R :=
  rsum xs (fun z => P1 x z * P2 z y).

Fixpoint seq_kernels (Ps : list (X -> X -> R)) : X -> X -> R :=
  match Ps with
  | [] => id_kernel
  | P :: r => seq_kernel P (seq_kernels r)
  end.

Fixpoint iter_kernel (n : nat) (P : X -> X -> R) : X -> X -> R :=
  match n with
  | O => id_kernel
  | S k => seq_kernel P (iter_kernel k P)
  end.

(* distribution of the chain after one / n transitions when started from mu *)
Definition push (mu : X -> R) (P : X -> X -> R) (y : X) : R :=
  rsum xs (fun x => mu x * P x y).

Fixpoint push_n (n : nat) (mu : X -> R) (P : X -> X -> R) : X -> R :=
  match n with
  | O => mu
  | S k => push_n k (push mu P) P
  end.

Definition normalised (w : X -> R) (x : X) : R := w x / rsum xs w.

Section Gibbs.
Context {B : Type}.
Variable beqb : B -> B -> bool.
Variable r : X -> B.                (* the part of the state the kernel does not touch *)

(* normalising constant of the full conditional given the rest b *)
Definition cond_norm (w : X -> R) (b : B) : R :=
  rsum xs (fun z => if beqb b (r z) then w z else 0).

Definition gibbs_kernel (w : X -> R) (x y : X) : R :=
  if beqb (r x) (r y) then w y / cond_norm w (r x) else 0.
End Gibbs.
End Defs.

(* product spaces: the state is (block, rest) *)
Section Product.
Context {A B : Type}.
Variable aeqb : A -> A -> bool.
Variable beqb : B -> B -> bool.

Definition pair_eqb (x y : A * B) : bool := aeqb (fst x) (fst y) && beqb (snd x) (snd y).

(* a kernel ingredient defined for the block only (it may look at the rest), lifted to the
   joint space: the rest is never changed *)
Definition lift_block (f : B -> A -> A -> R) (x y : A * B) : R :=
  if beqb (snd x) (snd y) then f (snd x) (fst x) (fst y) else 0.
End Product.
