(* The documented kernel lifecycle, written declaratively from the text of property C07 (and the
   docstrings of the Kernel protocol): a function of the schedule, the number of kernels and
   whether some kernel asks for the history - nothing else (no chunk, no operation sequence, no
   engine state).  No proofs in this file. *)
From Coq Require Import List ZArith Bool.
Import ListNotations.
From LV Require Import Goose.Epoch Goose.Engine.
Open Scope Z_scope.

(* one call per kernel, in kernel order *)
Definition for_kernels (nk : nat) (f : nat -> call) : list call := map f (seq 0 nk).

Definition etys (l : list econf) : list ety := map ety_ l.
Definition has_post (l : list econf) : bool := existsb is_post (etys l).
Definition n_adapt (l : list econf) : nat := length (filter is_adapt (etys l)).
Definition sum_dur (l : list econf) : Z := fold_left Z.add (map dur l) 0.

(* the epoch state a kernel sees at within-epoch time t of the epoch that follows [before]:
   global time continues across epochs *)
Definition view (before : list econf) (c : econf) (t : Z) : eview :=
  mkV (length before) c (sum_dur before) (sum_dur before + t) t.

(* "that epoch's recorded history": the position chain keeps iteration t (1-based) iff thin | t *)
Definition recorded (before : list econf) (c : econf) : list Z :=
  map (fun t => Z.of_nat (length before) * 1000 + t)
      (filter (fun t => t mod thin c =? 0) (zrange 1 (Z.to_nat (dur c)))).

(* is end_warmup due before this epoch?  documented: exactly once, before the first posterior
   epoch.  [NeverSets] describes the defective engine (before every posterior epoch). *)
Definition warmup_ends_here (fl : warmflag) (before : list econf) (c : econf) : bool :=
  is_post (ety_ c) && match fl with SetsFlag => negb (has_post before) | NeverSets => true end.

Definition spec_epoch (fl : warmflag) (nk : nat) (anyh : bool) (before : list econf) (c : econf) : list call :=
  if is_init (ety_ c) then []                       (* no calls in the initial-values epoch *)
  else
    (if warmup_ends_here fl before c
     then for_kernels nk (fun k => CEndWarmup k (n_adapt before)) else [])
    ++ for_kernels nk (fun k => CStart k (view before c 0))
    ++ flat_map (fun t => for_kernels nk (fun k => CTrans k (is_adapt (ety_ c)) (view before c t)))
                (zrange 0 (Z.to_nat (dur c)))
    ++ for_kernels nk (fun k => CEnd k (view before c (dur c)))
    ++ (if is_adapt (ety_ c)
        then for_kernels nk (fun k => CTune k (is_slow (ety_ c)) (view before c (dur c))
                                            (if anyh then Some (recorded before c) else None))
        else []).

Definition spec_epochs (fl : warmflag) (nk : nat) (anyh : bool) (sched : list econf) : list call :=
  flat_map (fun n => match nth_error sched n with
                     | Some c => spec_epoch fl nk anyh (firstn n sched) c
                     | None => []
                     end)
           (seq 0 (length sched)).

Definition spec_calls_gen (fl : warmflag) (nk : nat) (anyh : bool) (sched : list econf) : list call :=
  for_kernels nk CInit ++ spec_epochs fl nk anyh sched.

(* the documented lifecycle *)
Definition spec_calls (nk : nat) (anyh : bool) (sched : list econf) : list call :=
  spec_calls_gen SetsFlag nk anyh sched.

(* ---- the same lifecycle read per kernel (the clauses of the property text) ---- *)
Definition spec_kernel_epoch (anyh : bool) (k : nat) (before : list econf) (c : econf) : list call :=
  if is_init (ety_ c) then []
  else
    (if is_post (ety_ c) && negb (has_post before) then [CEndWarmup k (n_adapt before)] else [])
    ++ [CStart k (view before c 0)]
    ++ map (fun t => CTrans k (is_adapt (ety_ c)) (view before c t)) (zrange 0 (Z.to_nat (dur c)))
    ++ [CEnd k (view before c (dur c))]
    ++ (if is_adapt (ety_ c)
        then [CTune k (is_slow (ety_ c)) (view before c (dur c))
                    (if anyh then Some (recorded before c) else None)]
        else []).
Definition spec_kernel_calls (anyh : bool) (k : nat) (sched : list econf) : list call :=
  CInit k :: flat_map (fun n => match nth_error sched n with
                                | Some c => spec_kernel_epoch anyh k (firstn n sched) c
                                | None => []
                                end)
                      (seq 0 (length sched)).

Definition call_ker (c : call) : nat :=
  match c with
  | CInit k | CStart k _ | CTrans k _ _ | CEnd k _ | CTune k _ _ _ | CEndWarmup k _ => k
  end.
Definition calls_of_kernel (k : nat) (l : list call) : list call :=
  filter (fun c => Nat.eqb (call_ker c) k) l.
Definition is_endwarmup (c : call) : bool := match c with CEndWarmup _ _ => true | _ => false end.
Definition count_endwarmup (l : list call) : nat := length (filter is_endwarmup l).

(* ---- admissible use of the engine ---- *)
(* every duration of a sampled epoch is a multiple of the (positive) JIT chunk *)
Definition chunk_ok (chunk : Z) (sched : list econf) : Prop :=
  0 < chunk /\ forall c, In c (tl sched) -> (chunk | dur c).
(* the epochs appended by an operation sequence *)
Fixpoint appended (ops : list op) : list econf :=
  match ops with
  | [] => []
  | AppendEpoch c :: r => c :: appended r
  | _ :: r => appended r
  end.
(* an interleaving that never samples when no epoch is left and ends with all epochs sampled;
   [pending] = epochs appended and not yet sampled *)
Fixpoint ops_ok (pending : nat) (ops : list op) : bool :=
  match ops with
  | [] => Nat.eqb pending 0
  | AppendEpoch _ :: r => ops_ok (S pending) r
  | SampleNext :: r => match pending with O => false | S p => ops_ok p r end
  | SampleAll :: r => ops_ok 0 r
  | TryAppend _ :: _ => false      (* guarded appends are resolved by [normalize] first *)
  end.

(* guarded appends (TryAppend) resolved against the last config of the manager: a rejected one
   disappears, an accepted one is an ordinary append.  [prev] = last config appended so far. *)
Fixpoint normalize (prev : option econf) (ops : list op) : list op :=
  match ops with
  | [] => []
  | AppendEpoch c :: r => AppendEpoch c :: normalize (Some c) r
  | TryAppend c :: r =>
      if append_ok prev c then AppendEpoch c :: normalize (Some c) r else normalize prev r
  | o :: r => o :: normalize prev r
  end.
(* the guarded appends of an operation sequence that are rejected *)
Fixpoint rejected (prev : option econf) (ops : list op) : list econf :=
  match ops with
  | [] => []
  | AppendEpoch c :: r => rejected (Some c) r
  | TryAppend c :: r => if append_ok prev c then rejected (Some c) r else c :: rejected prev r
  | _ :: r => rejected prev r
  end.
