(* Glue for the generated C11 correspondence shards (R-lemmas discharged by interval). *)
From Coq Require Import Reals List Bool Arith.
From Interval Require Import Tactic.
From LV Require Import Goose.DA.
Import ListNotations.
Open Scope R_scope.

Definition close (x v tol : R) : Prop := Rabs (x - v) <= tol.

(* ---- direct calls of da_init / da_step / da_finalize ------------------------------------- *)
(* state after da_init and the first i da_step calls (time_in_epoch = 0, 1, ...) *)
Definition traj (c : daconst) (s0 : R) (accs : list R) (i : nat) : dastate :=
  da_steps c (da_init (mkDA s0 0 0 0)) 0 (firstn i accs).

(* state after da_finalize at the end *)
Definition final (c : daconst) (s0 : R) (accs : list R) : dastate :=
  da_epoch c (mkDA s0 0 0 0) accs.

(* ---- kernels driven by the engine -------------------------------------------------------- *)
Definition ks_of (s : R) : kstate unit := mkKS (mkDA s 0 0 0) tt.

(* the kernel state stored after the i-th transition of an epoch of type ety that the kernel
   entered with step size s *)
Definition ktraj (k : kernel) (c : daconst) (ety : etype) (s : R) (accs : list R) (i : nat) : dastate :=
  da (transitions k c ety (start_epoch k (ks_of s)) 0 (firstn i accs)).

Definition hist_of (adj : option R) : option (R * unit) :=
  match adj with Some a => Some (a, tt) | None => None end.

(* the step size with which the next epoch is entered, given the last stored state of this one:
   end_epoch, then tune *)
Definition next_start (k : kernel) (ety : etype) (adj : option R) (last : dastate) : R :=
  let ks := end_epoch k (mkKS last tt) in
  step (da (if is_adaptation ety then tune k ety (hist_of adj) ks else ks)).

(* whole schedule from the initial step size; the state the following epoch starts its
   transitions with *)
Definition sched_of (l : list (etype * list R * option R)) : list (epoch_spec unit) :=
  map (fun e => match e with (ety, accs, adj) => (ety, accs, hist_of adj) end) l.

Definition after_schedule (k : kernel) (c : daconst) (s0 : R) (l : list (etype * list R * option R)) : dastate :=
  da (start_epoch k (run_schedule k c (ks_of s0) (sched_of l))).

Ltac da_unfold :=
  cbv beta iota zeta delta
    [close traj final ktraj ks_of hist_of next_start sched_of after_schedule
     da_steps da_step da_init da_finalize da_epoch da_eta
     step esum lavg mu c_delta c_gamma c_kappa c_t0
     da rest transitions transition adaptive_transition standard_transition
     start_epoch end_epoch tune epoch_core run_epoch run_schedule
     is_adaptation is_slow etype_num tunes has_mm
     firstn map fold_left andb Nat.ltb Nat.leb Nat.eqb Nat.add INR].

Ltac da_close := da_unfold; interval with (i_prec 64).
