(* Glue for the generated C11 correspondence shards (R-lemmas discharged by interval,
   exact clauses by reflexivity).  Only definitions, two small bridging lemmas and tactics. *)
From Coq Require Import Reals List Bool Arith ZArith.
From Interval Require Import Tactic.
From LV Require Import Goose.DA.
(* support library of the source tie (tools/py2gallina_c11.py): required here only so that the targeted
   build of the check compiles it; nothing of it is used by the correspondence glue below *)
From LV Require Goose.GenC11Tie.
Import ListNotations.
Open Scope R_scope.

Definition close (x v tol : R) : Prop := Rabs (x - v) <= tol.

(* ---- direct calls of da_init / da_step / da_finalize ------------------------------------- *)
(* state after da_init and the first i da_step calls (time_in_epoch = 0, 1, ...) *)
Definition traj (c : daconst) (s0 : R) (accs : list R) (i : nat) : dastate :=
  da_steps c (da_init (mkDA s0 0 0 0)) 0 (firstn i accs).

(* state after da_finalize at the end *)
Definition final (c : daconst) (s0 : R) (accs : list R) : dastate :=
  da_epoch c (mkDA s0 0 0 0) accs.

(* da_init called on an object that still carries the tuning state [p] of an earlier epoch:
   step size kept exactly, error sum exactly 0, average and bias recomputed *)
Definition init_ok (p o : dastate) (tl tm : R) : Prop :=
  let n := da_init p in
  step n = step o /\ esum n = esum o /\ close (lavg n) (lavg o) tl /\ close (mu n) (mu o) tm.

(* one da_step call on the (observed) state [p] *)
Definition step_ok (c : daconst) (p : dastate) (a : R) (tie : nat) (o : dastate) (ts te tl : R) : Prop :=
  let n := da_step c p a tie in
  close (step n) (step o) ts /\ close (esum n) (esum o) te /\ close (lavg n) (lavg o) tl
  /\ mu n = mu o.

(* one da_step call whose floating-point step size overflowed to +inf: the model's (real) step size
   exceeds the largest finite float [maxf]; the other fields are finite and compared as usual
   (the step field of [o] is a placeholder) *)
Definition over_ok (c : daconst) (p : dastate) (a : R) (tie : nat) (o : dastate) (maxf te tl : R) : Prop :=
  let n := da_step c p a tie in
  maxf < step n /\ close (esum n) (esum o) te /\ close (lavg n) (lavg o) tl /\ mu n = mu o.

(* da_finalize on the (observed) state [p]: only the step size changes *)
Definition fin_ok (p o : dastate) (ts : R) : Prop :=
  let n := da_finalize p in
  close (step n) (step o) ts /\ esum n = esum o /\ lavg n = lavg o /\ mu n = mu o.

(* the whole epoch from scratch: da_init, all steps, da_finalize (the final step size is
   exp of the final average, so the average is pinned through it) *)
Definition scratch_ok (c : daconst) (s0 : R) (accs : list R) (o : dastate) (ts te tm : R) : Prop :=
  let n := final c s0 accs in
  close (step n) (step o) ts /\ close (esum n) (esum o) te /\ close (mu n) (mu o) tm.

(* ---- kernels driven by the engine -------------------------------------------------------- *)
(* the rest of a kernel state = bit patterns of the float32 inverse mass matrix (HMC/NUTS), [] else *)
Definition ks := kstate (list Z).
Definition mk (s e l m : R) (r : list Z) : ks := mkKS (mkDA s e l m) r.

(* what Engine._end_epoch does to the kernel state after the last transition of an epoch *)
Definition close_epoch (k : kernel) (ety : etype) (hist : option (R * list Z)) (last : ks) : ks :=
  match ety with
  | Initial => last
  | _ => let s := end_epoch k last in if is_adaptation ety then tune k ety hist s else s
  end.

(* ... and the state the next epoch's first transition is called with *)
Definition enter (k : kernel) (ety_prev : etype) (hist : option (R * list Z)) (last : ks) : ks :=
  start_epoch k (close_epoch k ety_prev hist last).

(* bridging lemmas: close_epoch / enter are literally the pieces of the model's run_epoch *)
Lemma run_epoch_close k c ety hist (s : ks) accs :
  run_epoch k c ety hist s accs
  = match ety with
    | Initial => s
    | _ => close_epoch k ety hist (transitions k c ety (start_epoch k s) 0 accs)
    end.
Proof. destruct ety; reflexivity. Qed.

Lemma transitions_snoc k c ety (s : ks) tie accs a :
  transitions k c ety s tie (accs ++ [a])
  = transition k c ety (transitions k c ety s tie accs) a (tie + length accs).
Proof.
  revert s tie. induction accs as [|b r IH]; intros s tie; cbn [app transitions length].
  - rewrite Nat.add_0_r. reflexivity.
  - rewrite IH. f_equal. rewrite Nat.add_succ_r. reflexivity.
Qed.

(* a stored transition whose predecessor [p] was stored in the same epoch.  The MODEL decides
   whether this is a dual-averaging update (compared within tolerances) or must leave the state
   exactly as it was (bit-identical). *)
Definition trans_agrees (k : kernel) (c : daconst) (ety : etype) (p : ks) (a : R) (tie : nat) (o : ks)
           (ts te tl : R) : Prop :=
  let n := transition k c ety p a tie in
  if is_adaptation ety && tunes k then
    close (step (da n)) (step (da o)) ts /\ close (esum (da n)) (esum (da o)) te
    /\ close (lavg (da n)) (lavg (da o)) tl /\ mu (da n) = mu (da o) /\ rest n = rest o
  else n = o.

(* the first stored transition of an epoch: [last] is the last state stored in the previous epoch *)
Definition first_agrees (k : kernel) (c : daconst) (ety ety_prev : etype) (hist : option (R * list Z))
           (last : ks) (a : R) (o : ks) (ts te tl tm : R) : Prop :=
  let n := transition k c ety (enter k ety_prev hist last) a 0 in
  close (step (da n)) (step (da o)) ts /\ close (esum (da n)) (esum (da o)) te
  /\ close (lavg (da n)) (lavg (da o)) tl /\ close (mu (da n)) (mu (da o)) tm /\ rest n = rest o.

(* kept from the first version of the glue (whole trajectories through the kernel model) *)
Definition ks_of (s : R) : kstate unit := mkKS (mkDA s 0 0 0) tt.
Definition ktraj (k : kernel) (c : daconst) (ety : etype) (s : R) (accs : list R) (i : nat) : dastate :=
  da (transitions k c ety (start_epoch k (ks_of s)) 0 (firstn i accs)).

Ltac da_unfold :=
  cbv beta iota zeta delta
    [close traj final ktraj ks_of mk ks
     init_ok step_ok over_ok fin_ok scratch_ok trans_agrees first_agrees close_epoch enter
     da_steps da_step da_init da_finalize da_epoch da_eta
     step esum lavg mu c_delta c_gamma c_kappa c_t0
     da rest transitions transition adaptive_transition standard_transition
     start_epoch end_epoch tune epoch_core run_epoch run_schedule
     is_adaptation is_slow etype_num tunes has_mm
     firstn map fold_left andb Nat.ltb Nat.leb Nat.eqb Nat.add].

Ltac da_leaf := first [ reflexivity | interval with (i_prec 64) ].
Ltac da_close := da_unfold; first [ reflexivity | repeat split; da_leaf ].
