(* Executable glue for the C04 correspondence shards (R-lemmas closed by [interval]).

   Finite models: states are 0 .. n-1 : nat, tables are Coq lists indexed by [nth]; the
   indices emitted by the harness are always in range (the defaults of [nth] are never
   reached in a shard; no theorem of the development depends on them).

   Continuous 1-d targets: closed forms of log-density, score (first derivative) and
   information (minus second derivative), the Gaussian random-walk proposal of rw.py and
   the IWLS proposal of iwls.py written as real functions. *)
From Coq Require Import Reals List Bool Lra.
From Interval Require Import Tactic.
From LV Require Import Goose.Markov.
Import ListNotations.
Open Scope R_scope.

(* [interval] does not know Rmin *)
Lemma rmin_as_abs a b : Rmin a b = (a + b - Rabs (a - b)) / 2.
Proof. unfold Rmin, Rabs. destruct (Rle_dec a b), (Rcase_abs (a - b)); lra. Qed.

Definition tabR (l : list R) (i : nat) : R := nth i l 0.
Definition tab2R (ll : list (list R)) (i j : nat) : R := nth j (nth i ll []) 0.
Definition tabN (l : list nat) (i : nat) : nat := nth i l 0%nat.
Definition tab2B (ll : list (list bool)) (i j : nat) : bool := nth j (nth i ll []) false.

(* the Hastings correction on the support of the proposal (never evaluated elsewhere) *)
Definition corr_tab (supp : nat -> nat -> bool) (q : nat -> nat -> R) (x y : nat) : R :=
  if supp x y then hastings_corr q x y else 0.
(* seeded variants used only by the refutation side / diagnostics *)
Definition corr_zero (x y : nat) : R := 0.

(* ---- continuous targets ---- *)
Definition gauss_logpdf (y m sd : R) : R := - ln sd - (y - m) ^ 2 / (2 * sd ^ 2) - ln (2 * PI) / 2.

(* rw.py : proposal = position + step_size * N(0,1) *)
Definition rw_logq (s : R) (x y : R) : R := gauss_logpdf y x s.

(* iwls.py : mu = pos + s^2/2 * solve(chol_info, score); proposal ~ N(mu, (chol_info/s)^-T (chol_info/s)^-1) *)
Definition iwls_mu (s : R) (score info : R -> R) (x : R) : R := x + s ^ 2 / 2 * (score x / info x).
Definition iwls_sd (s : R) (info : R -> R) (x : R) : R := s / sqrt (info x).
Definition iwls_logq (s : R) (score info : R -> R) (x y : R) : R :=
  gauss_logpdf y (iwls_mu s score info x) (iwls_sd s info x).

(* the acceptance probability mh_step computes when handed log_correction = log q(x|y) - log q(y|x) *)
Definition mh_alpha (lp : R -> R) (logq : R -> R -> R) (x y : R) : R :=
  accept_prob (lp y - lp x + (logq y x - logq x y)).

(* detailed-balance residual with externally supplied acceptance probabilities *)
Definition db_residual (lp : R -> R) (logq : R -> R -> R) (x y a_fwd a_bwd : R) : R :=
  exp (lp x) * exp (logq x y) * a_fwd - exp (lp y) * exp (logq y x) * a_bwd.

(* targets *)
Definition lp_gauss (m s x : R) : R := - (x - m) ^ 2 / (2 * s ^ 2).
Definition sc_gauss (m s x : R) : R := - (x - m) / s ^ 2.
Definition in_gauss (m s x : R) : R := 1 / s ^ 2.

Definition lp_quartic (x : R) : R := - x ^ 4 / 4 - x ^ 2 / 2.
Definition sc_quartic (x : R) : R := - x ^ 3 - x.
Definition in_quartic (x : R) : R := 3 * x ^ 2 + 1.

Definition lp_loggamma (a x : R) : R := a * x - exp x.
Definition sc_loggamma (a x : R) : R := a - exp x.
Definition in_loggamma (a x : R) : R := exp x.

(* Liesel model  y_i ~ N(mu, sigma), mu ~ N(0, tau), sigma ~ Exponential(rate),
   sigma = exp(theta) with theta the transformed parameter (log-Jacobian = theta) *)
Definition sumsq (ys : list R) (mu : R) : R := rsum ys (fun y => (y - mu) ^ 2).
Definition lp_lm (ys : list R) (tau rate mu theta : R) : R :=
  rsum ys (fun y => gauss_logpdf y mu (exp theta)) + gauss_logpdf mu 0 tau
  + (ln rate - rate * exp theta) + theta.
Definition sc_lm_mu (ys : list R) (tau rate theta mu : R) : R :=
  rsum ys (fun y => (y - mu) / exp theta ^ 2) - mu / tau ^ 2.
Definition in_lm_mu (ys : list R) (tau rate theta mu : R) : R :=
  rsum ys (fun _ => 1) / exp theta ^ 2 + 1 / tau ^ 2.
Definition sc_lm_theta (ys : list R) (tau rate mu theta : R) : R :=
  - rsum ys (fun _ => 1) + sumsq ys mu / exp theta ^ 2 - rate * exp theta + 1.
Definition in_lm_theta (ys : list R) (tau rate mu theta : R) : R :=
  2 * sumsq ys mu / exp theta ^ 2 + rate * exp theta.

(* dictionary model with two continuous blocks: lp(a, b) = -(a^2)/2 - (b - a)^2/2 *)
Definition lp_pair (a b : R) : R := - a ^ 2 / 2 - (b - a) ^ 2 / 2.
(* block a with b fixed / block b with a fixed: score and information of the conditional *)
Definition sc_pair_a (b a : R) : R := - a + (b - a).
Definition in_pair_a (b a : R) : R := 2.
Definition sc_pair_b (a b : R) : R := - (b - a).
Definition in_pair_b (a b : R) : R := 1.

(* Liesel model with a transformed parameter whose bijector depends on ANOTHER sampled parameter:
   theta ~ Gamma(4, 1), theta = exp t;  x | theta ~ Uniform(0, theta), x = theta * sigmoid u (default event
   space bijector of Uniform(0, theta));  y ~ N(x, sd).  Density of the TRANSFORMED model in (t, u), Jacobians
   included:  Gamma: 3 t - exp t - ln 6, |d theta/dt|: + t, Uniform: - t, |dx/du|: t + ln sigm u + ln (1 - sigm u) *)
Definition sigm (u : R) : R := 1 / (1 + exp (- u)).
Definition lp_hier (yv sd t u : R) : R :=
  4 * t - exp t - ln 6 - ln (1 + exp (- u)) - ln (1 + exp u) + gauss_logpdf yv (exp t * sigm u) sd.
Definition sc_hier_t (yv sd u t : R) : R := 4 - exp t + (yv - exp t * sigm u) * (exp t * sigm u) / sd ^ 2.
Definition in_hier_t (yv sd u t : R) : R := exp t + (exp t * sigm u) * (2 * (exp t * sigm u) - yv) / sd ^ 2.
Definition sc_hier_u (yv sd t u : R) : R :=
  1 - 2 * sigm u + (yv - exp t * sigm u) * exp t * (sigm u * (1 - sigm u)) / sd ^ 2.
Definition in_hier_u (yv sd t u : R) : R :=
  2 * (sigm u * (1 - sigm u))
  + ((exp t * (sigm u * (1 - sigm u))) ^ 2
     - (yv - exp t * sigm u) * exp t * (sigm u * (1 - sigm u)) * (1 - 2 * sigm u)) / sd ^ 2.

(* distreg.py tau2_gibbs_kernel: tau2 ~ InverseGamma(a, b); its log-density up to the constant *)
Definition ig_logkernel (a b t : R) : R := - (a + 1) * ln t - b / t.

(* rw.py / iwls.py: the proposal as a location-scale transform of the standard normal draw z *)
Definition rw_proposal (s x z : R) : R := x + s * z.
Definition iwls_proposal (s : R) (score info : R -> R) (x z : R) : R :=
  iwls_mu s score info x + iwls_sd s info x * z.

Ltac c04_unfold :=
  cbv [seq_kernels seq_kernel id_kernel mh_kernel with_diag mh_off accept_prob hastings_corr
       gibbs_kernel cond_norm involutive_kernel inv_off rsum fold_right Nat.eqb nth
       tabR tab2R tabN tab2B corr_tab corr_zero
       gauss_logpdf rw_logq iwls_mu iwls_sd iwls_logq mh_alpha db_residual
       lp_gauss sc_gauss in_gauss lp_quartic sc_quartic in_quartic
       lp_loggamma sc_loggamma in_loggamma
       sumsq lp_lm sc_lm_mu in_lm_mu sc_lm_theta in_lm_theta lp_pair
       sc_pair_a in_pair_a sc_pair_b in_pair_b rw_proposal iwls_proposal
       sigm lp_hier sc_hier_t in_hier_t sc_hier_u in_hier_u ig_logkernel];
  rewrite ?rmin_as_abs.

Ltac c04_solve := c04_unfold; interval with (i_prec 64).

(* acceptance probabilities far from the kink of min(1, .): decide the branch first, so that a huge
   ratio exp l does not eat the absolute precision of the |a - b| form of Rmin *)
Lemma accept_prob_ge l : 0 <= l -> accept_prob l = 1.
Proof.
  intros H. unfold accept_prob. apply Rmin_left. rewrite <- exp_0.
  destruct H as [H|H]; [left; apply exp_increasing; exact H | rewrite H; right; reflexivity].
Qed.

Lemma accept_prob_le l : l <= 0 -> accept_prob l = exp l.
Proof.
  intros H. unfold accept_prob. apply Rmin_right. rewrite <- exp_0.
  destruct H as [H|H]; [left; apply exp_increasing; exact H | rewrite H; right; reflexivity].
Qed.

Ltac c04_alpha :=
  unfold mh_alpha;
  match goal with
  | |- context [accept_prob ?l] =>
      first [ rewrite (accept_prob_ge l) by (c04_unfold; interval with (i_prec 64))
            | rewrite (accept_prob_le l) by (c04_unfold; interval with (i_prec 64))
            | idtac ]
  end;
  c04_solve.
