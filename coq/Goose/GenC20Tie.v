(* Support library for the C20 source tie (tools/py2gallina_c20.py).

   On every run of the C20 check the translator turns the Python source of Stopper.stop_early,
   Stopper.stop_now, Stopper.which_best_in_recent_history and _generate_batch_indices
   (liesel/goose/optim.py) into Gallina definitions (gen_...); the generated file lives in the work
   directory of the run, never in this directory.  It proves the generated definitions extensionally
   equal to the hand-written model (Goose/Stopper.v, Goose/StopperPos.v) and re-states the main C20
   theorems for them.  This file holds exactly what the generated file needs:
     - the result / exception type of translated code,
     - the targets of the translator's library-call table (every jax / jnp call of the translated
       subset is mapped to one of these; most are the model's own primitives),
     - the loop / optim_flat model with the stopping functions as arguments, and the transfer theorems,
     - the tactics of the generated equality proofs. *)
From Coq Require Import List ZArith QArith Qabs Bool Arith Lia Lqa Btauto.
Import ListNotations.
Close Scope Q_scope.
Open Scope nat_scope.
From LV Require Import Goose.Stopper Goose.StopperProofs Goose.StopperPos Goose.StopperPosProofs.

(* ---- results of translated code: a value or a raised exception class ---- *)
Inductive texn := E_SliceSize | E_ZeroDivision | E_SplitSections | E_Ragged.
Inductive tres (A : Type) : Type := TOk (a : A) | TRaise (e : texn).
Arguments TOk {A} a.
Arguments TRaise {A} e.
Definition tbind {A B} (m : tres A) (f : A -> tres B) : tres B :=
  match m with TOk a => f a | TRaise e => TRaise e end.
(* the model does not distinguish exception classes: an error is None *)
Definition topt {A} (m : tres A) : option A := match m with TOk a => Some a | TRaise _ => None end.

(* ---- float scalars: exact rationals plus the three non-finite values a division can produce.
   No rounding, no signed zero (the model's losses are exact rationals, see notes/C20.md). ---- *)
Inductive fl := Fin (q : Q) | PInf | NInf | NaN.

Definition fneg (a : fl) : fl :=
  match a with Fin x => Fin (- x)%Q | PInf => NInf | NInf => PInf | NaN => NaN end.
Definition fabs (a : fl) : fl :=                                  (* jnp.abs *)
  match a with Fin x => Fin (Qabs x) | PInf | NInf => PInf | NaN => NaN end.
Definition fadd (a b : fl) : fl :=
  match a, b with
  | NaN, _ | _, NaN => NaN
  | Fin x, Fin y => Fin (x + y)%Q
  | PInf, NInf | NInf, PInf => NaN
  | PInf, _ | _, PInf => PInf
  | NInf, _ | _, NInf => NInf
  end.
Definition fsub (a b : fl) : fl :=
  match a, b with
  | Fin x, Fin y => Fin (x - y)%Q
  | _, _ => fadd a (fneg b)
  end.
(* x / y : a zero divisor gives +inf, -inf or NaN by the sign of x (IEEE 754 with an unsigned zero) *)
Definition fdiv (a b : fl) : fl :=
  match a, b with
  | NaN, _ | _, NaN => NaN
  | Fin x, Fin y =>
      if Qeq_bool y 0 then (if Qeq_bool x 0 then NaN else if Qle_bool x 0 then NInf else PInf)
      else Fin (x / y)%Q
  | Fin _, _ => Fin 0
  | _, PInf | _, NInf => NaN
  | PInf, Fin y => if Qle_bool 0 y then PInf else NInf
  | NInf, Fin y => if Qle_bool 0 y then NInf else PInf
  end.
(* comparisons: anything with NaN is false, except != *)
Definition fle (a b : fl) : bool :=
  match a, b with
  | NaN, _ | _, NaN => false
  | Fin x, Fin y => Qle_bool x y
  | NInf, _ => true
  | _, PInf => true
  | _, _ => false
  end.
Definition feq (a b : fl) : bool :=
  match a, b with
  | Fin x, Fin y => Qeq_bool x y
  | PInf, PInf | NInf, NInf => true
  | _, _ => false
  end.
Definition flt (a b : fl) : bool := fle a b && negb (feq a b).
Definition fge (a b : fl) : bool := fle b a.
Definition fgt (a b : fl) : bool := flt b a.
Definition fne (a b : fl) : bool := negb (feq a b).

(* ---- integers: Python / jax ints as Z (unbounded; int32 overflow is outside the translation) ---- *)
Definition gdivz (a b : Z) : tres Z := if (b =? 0)%Z then TRaise E_ZeroDivision else TOk (a / b)%Z.
Definition gmodz (a b : Z) : tres Z := if (b =? 0)%Z then TRaise E_ZeroDivision else TOk (a mod b)%Z.

(* ---- arrays of losses: list Q.  Targets of the library-call table ---- *)
(* jax.lax.dynamic_slice(h, (start,), (size,)) = the model's clamped slice; a size that does not fit is an error *)
Definition gdyn_slice (h : list Q) (start size : Z) : tres (list Q) :=
  if (size <? 0)%Z then TRaise E_SliceSize
  else match dyn_slice h start (Z.to_nat size) with Some w => TOk w | None => TRaise E_SliceSize end.
Definition gmin (w : list Q) : fl := Fin (qmin_list w).            (* jnp.min(w)   *)
Definition gfirst (w : list Q) : fl := Fin (hd 0%Q w).             (* w[0]         *)
Definition gargmin (w : list Q) : Z := Z.of_nat (argmin w).        (* jnp.argmin(w) *)

(* ---- index arrays: list nat.  Targets of the library-call table for _generate_batch_indices ---- *)
(* x[0 : e] : a negative stop counts from the end *)
Definition gprefix {A} (l : list A) (e : Z) : list A :=
  if (e <? 0)%Z then firstn (Z.to_nat (Z.of_nat (length l) + e)) l else firstn (Z.to_nat e) l.
(* numpy / jnp.array_split(l, k): k sections, the first (len mod k) of them one longer; k <= 0 is an error *)
Fixpoint split_sizes {A} (sizes : list nat) (l : list A) : list (list A) :=
  match sizes with
  | [] => []
  | s :: r => firstn s l :: split_sizes r (skipn s l)
  end.
Definition garray_split {A} (l : list A) (k : Z) : tres (list (list A)) :=
  if (k <=? 0)%Z then TRaise E_SplitSections
  else let kn := Z.to_nat k in
       let q := (length l / kn)%nat in
       let r := (length l mod kn)%nat in
       TOk (split_sizes (repeat (S q) r ++ repeat q (kn - r)) l).
(* jnp.asarray(list of rows): rows of unequal length are an error *)
Definition gstack {A} (rows : list (list A)) : tres (list (list A)) :=
  match rows with
  | [] => TOk rows
  | r0 :: _ => if forallb (fun r => Nat.eqb (length r) (length r0)) rows then TOk rows else TRaise E_Ragged
  end.

(* ==== facts used by the generated equality proofs ==== *)
Lemma gdyn_slice_nat h start (p : nat) :
  gdyn_slice h start (Z.of_nat p) =
  match dyn_slice h start p with Some w => TOk w | None => TRaise E_SliceSize end.
Proof.
  unfold gdyn_slice. destruct (Z.ltb_spec (Z.of_nat p) 0); [lia|]. rewrite Nat2Z.id. reflexivity.
Qed.

(* a translated `w = dynamic_slice(h, (a,), (pz,)); rest(w)` against the model's match on dyn_slice *)
Lemma tie_slice_bind {B} (h : list Q) (a a' pz : Z) (p : nat) (k : list Q -> tres B) (f : list Q -> B) :
  a = a' -> pz = Z.of_nat p -> (forall w, k w = TOk (f w)) ->
  topt (tbind (gdyn_slice h a pz) k) = match dyn_slice h a' p with None => None | Some w => Some (f w) end.
Proof.
  intros -> -> Hk. rewrite gdyn_slice_nat. destruct (dyn_slice h a' p) as [w|]; cbn [tbind topt]; [|reflexivity].
  rewrite Hk. reflexivity.
Qed.

Lemma qmin_le_l a y : (qmin a y <= a)%Q.
Proof.
  unfold qmin. destruct (Qle_bool a y) eqn:E; [apply Qle_refl|].
  apply Qlt_le_weak, Qle_bool_false. exact E.
Qed.
Lemma fold_qmin_le r : forall a, (fold_left qmin r a <= a)%Q.
Proof.
  induction r as [|y r IH]; intros a; cbn [fold_left]; [apply Qle_refl|].
  eapply Qle_trans; [apply IH | apply qmin_le_l].
Qed.
(* the oldest loss of a window is never below the best one (also for the empty window: 0 <= 0) *)
Lemma hd_minus_min_nonneg w : (0 <= hd 0 w - qmin_list w)%Q.
Proof.
  destruct w as [|x r]; cbn [hd qmin_list]; [lra|].
  pose proof (fold_qmin_le r x). lra.
Qed.

Lemma Qeq_bool_Qabs0 y : Qeq_bool (Qabs y) 0 = Qeq_bool y 0.
Proof.
  destruct (Qeq_bool y 0) eqn:E.
  - apply Qeq_bool_iff in E. apply Qeq_bool_iff. rewrite E. reflexivity.
  - destruct (Qeq_bool (Qabs y) 0) eqn:E2; [|reflexivity].
    apply Qeq_bool_iff in E2. assert (H : (y == 0)%Q).
    { revert E2. apply Qabs_case; intros Hs H0; lra. }
    apply Qeq_bool_iff in H. congruence.
Qed.

(* diff / |best| <= rtol with diff >= 0: false on a zero divisor (+inf or NaN), the exact quotient otherwise:
   this is the model's rel_ok *)
Lemma fle_fdiv_abs x y r : (0 <= x)%Q ->
  fle (fdiv (Fin x) (Fin (Qabs y))) (Fin r) = if Qeq_bool y 0 then false else Qle_bool (x / Qabs y) r.
Proof.
  intros Hx. cbn [fdiv]. rewrite Qeq_bool_Qabs0. destruct (Qeq_bool y 0); [|reflexivity].
  destruct (Qeq_bool x 0) eqn:E0; [reflexivity|].
  destruct (Qle_bool x 0) eqn:E1; [|reflexivity].
  apply Qle_bool_iff in E1. assert (H : (x == 0)%Q) by lra.
  apply Qeq_bool_iff in H. congruence.
Qed.

Lemma split_sizes_repeat {A} bs : forall k (l : list A), split_sizes (repeat bs k) l = rows k bs l.
Proof. induction k as [|k IH]; intros l; cbn [repeat split_sizes rows]; [reflexivity|]. rewrite IH. reflexivity. Qed.

Lemma rows_lengths {A} bs : forall k (l : list A), (k * bs <= length l)%nat ->
  Forall (fun r => length r = bs) (rows k bs l).
Proof.
  induction k as [|k IH]; intros l Hl; cbn [rows]; constructor.
  - rewrite firstn_length. lia.
  - apply IH. rewrite skipn_length. lia.
Qed.

Lemma gstack_uniform {A} bs (rs : list (list A)) : Forall (fun r => length r = bs) rs -> gstack rs = TOk rs.
Proof.
  intros H. destruct rs as [|r0 rs']; [reflexivity|]. unfold gstack.
  assert (Hb : forallb (fun r => Nat.eqb (length r) (length r0)) (r0 :: rs') = true).
  { apply forallb_forall. intros r Hr. rewrite Forall_forall in H.
    rewrite (H r Hr), (H r0 (or_introl eq_refl)). apply Nat.eqb_refl. }
  rewrite Hb. reflexivity.
Qed.

(* array_split of a list of exactly k * bs entries into k sections = the model's k rows of bs *)
Lemma garray_split_even {A} (l : list A) (k bs : nat) : (1 <= k)%nat -> length l = (k * bs)%nat ->
  garray_split l (Z.of_nat k) = TOk (rows k bs l).
Proof.
  intros Hk Hl. unfold garray_split. destruct (Z.leb_spec (Z.of_nat k) 0); [lia|].
  rewrite Nat2Z.id, Hl. cbv zeta. replace (k * bs)%nat with (bs * k)%nat by lia.
  rewrite Nat.div_mul by lia. rewrite Nat.mod_mul by lia.
  cbn [repeat app]. rewrite Nat.sub_0_r, split_sizes_repeat. reflexivity.
Qed.

(* the whole of _generate_batch_indices once its integer prologue is normalised: with nfull = n / bs,
   the prefix of nfull * bs entries of a permutation of length n, split into nfull sections and stacked,
   is the model's batch_indices; an empty split (bs > n) or bs = 0 is an error on both sides *)
Lemma tie_batches (perm : list nat) (n bs : nat) : length perm = n -> (1 <= bs)%nat ->
  topt (tbind (garray_split (gprefix perm (Z.of_nat (n / bs) * Z.of_nat bs)) (Z.of_nat (n / bs))) gstack)
  = batch_indices perm bs.
Proof.
  intros Hn Hbs. unfold batch_indices. rewrite Hn.
  destruct (Nat.eqb_spec bs 0); [lia|]. cbn [orb].
  unfold gprefix. destruct (Z.ltb_spec (Z.of_nat (n / bs) * Z.of_nat bs) 0); [lia|].
  replace (Z.to_nat (Z.of_nat (n / bs) * Z.of_nat bs)) with (n / bs * bs)%nat by lia.
  destruct (Nat.ltb_spec n bs) as [Hlt|Hge].
  - rewrite Nat.div_small by lia. cbn. reflexivity.
  - assert (Hk : (1 <= n / bs)%nat) by (apply Nat.div_le_lower_bound; lia).
    assert (Hle : (n / bs * bs <= n)%nat) by (rewrite Nat.mul_comm; apply Nat.mul_div_le; lia).
    rewrite (garray_split_even _ (n / bs) bs Hk) by (rewrite firstn_length; lia).
    cbn [tbind]. rewrite (gstack_uniform bs); [reflexivity|].
    apply rows_lengths. rewrite firstn_length. lia.
Qed.

(* ==== the loop and optim_flat with the stopping functions as arguments ==== *)
Definition stop_fn := stopper -> nat -> list Q -> option bool.
Definition best_fn := stopper -> nat -> list Q -> option Z.

Fixpoint run_loop_with (sn : stop_fn) (fuel : nat) (s : stopper) (loss : nat -> Q) (i : nat) (h : list Q)
  : option (nat * list Q) :=
  match fuel with
  | O => None
  | S f =>
      match sn s i h with
      | None => None
      | Some true => Some (i, h)
      | Some false => run_loop_with sn f s loss (S i) (upd h (S i) (loss (S i)))
      end
  end.
Definition optim_loop_with (sn : stop_fn) (s : stopper) (loss : nat -> Q) : option (nat * list Q) :=
  run_loop_with sn (S (max_iter s)) s loss 0 (hist0 s loss).
Definition optim_flat_with (sn : stop_fn) (wb : best_fn) (s : stopper) (has_validation restore : bool)
    (loss : nat -> Q) : option optim_out :=
  match optim_loop_with sn (loop_stopper s has_validation) loss with
  | None => None
  | Some (j, h) =>
      match wb s j h with
      | None => None
      | Some b => Some (mkOut j b (if restore then b else Z.of_nat j) h)
      end
  end.

(* a translated method takes the fields of self and Python ints; the model takes the record and nats *)
Definition sn_of (g : Z -> Z -> Q -> Q -> Z -> list Q -> tres bool) : stop_fn :=
  fun s i h => topt (g (Z.of_nat (max_iter s)) (Z.of_nat (patience s)) (atol s) (rtol s) (Z.of_nat i) h).
Definition wb_of (g : Z -> Z -> Q -> Q -> Z -> list Q -> tres Z) : best_fn :=
  fun s i h => topt (g (Z.of_nat (max_iter s)) (Z.of_nat (patience s)) (atol s) (rtol s) (Z.of_nat i) h).

Lemma run_loop_with_model (sn : stop_fn) :
  (forall s i h, sn s i h = stop_now s i h) ->
  forall fuel s loss i h, run_loop_with sn fuel s loss i h = run_loop fuel s loss i h.
Proof.
  intros H fuel; induction fuel as [|f IH]; intros s loss i h; [reflexivity|].
  cbn [run_loop_with run_loop]. rewrite H. destruct (stop_now s i h) as [[|]|]; try reflexivity. apply IH.
Qed.

Lemma optim_flat_with_model (sn : stop_fn) (wb : best_fn) :
  (forall s i h, sn s i h = stop_now s i h) -> (forall s i h, wb s i h = which_best s i h) ->
  forall s hv restore loss, optim_flat_with sn wb s hv restore loss = optim_flat_model s hv restore loss.
Proof.
  intros H1 H2 s hv restore loss. unfold optim_flat_with, optim_flat_model, optim_loop_with, optim_loop.
  rewrite (run_loop_with_model sn H1).
  destruct (run_loop _ _ _ _ _) as [[j h]|]; [|reflexivity]. rewrite H2. reflexivity.
Qed.

(* ---- transfer of the C20 theorems to any functions extensionally equal to the model's ---- *)
Theorem tie_stop_rule (sn : stop_fn) :
  (forall s i h, sn s i h = stop_now s i h) ->
  forall s i h, (1 <= patience s)%nat -> (patience s <= length h)%nat -> (i < length h)%nat ->
  sn s i h = Some (rule s i h).
Proof. intros H s i h H1 H2 H3. rewrite H. apply stop_rule; assumption. Qed.

Theorem tie_best_is_argmin (wb : best_fn) :
  (forall s i h, wb s i h = which_best s i h) ->
  forall s i h, (1 <= patience s)%nat -> (patience s <= S i)%nat -> (i < length h)%nat ->
  exists b : nat, wb s i h = Some (Z.of_nat b)
    /\ (i + 1 - patience s <= b <= i)%nat
    /\ (forall k, (i + 1 - patience s <= k <= i)%nat -> (nth b h 0%Q <= nth k h 0%Q)%Q)
    /\ (forall k, (i + 1 - patience s <= k < b)%nat -> (nth b h 0%Q < nth k h 0%Q)%Q).
Proof. intros H s i h H1 H2 H3. rewrite H. apply best_is_argmin; assumption. Qed.

Theorem tie_loop_stops_at_first (sn : stop_fn) :
  (forall s i h, sn s i h = stop_now s i h) ->
  forall s loss, (1 <= patience s)%nat -> (patience s <= max_iter s)%nat ->
  exists j, optim_loop_with sn s loss = Some (j, hist_at s loss j)
    /\ (j < max_iter s)%nat
    /\ rule s j (hist_at s loss j) = true
    /\ forall k, (k < j)%nat -> rule s k (hist_at s loss k) = false.
Proof.
  intros H s loss H1 H2. unfold optim_loop_with. rewrite (run_loop_with_model sn H).
  exact (loop_stops_at_first s loss H1 H2).
Qed.

Theorem tie_optim_flat_spec (sn : stop_fn) (wb : best_fn) :
  (forall s i h, sn s i h = stop_now s i h) -> (forall s i h, wb s i h = which_best s i h) ->
  forall s hv restore loss,
  (1 <= patience s)%nat -> (patience s <= max_iter s)%nat ->
  exists (j b : nat),
    optim_flat_with sn wb s hv restore loss
      = Some (mkOut j (Z.of_nat b) (if restore then Z.of_nat b else Z.of_nat j) (hist_at s loss j))
    /\ (j < max_iter s)%nat
    /\ (hv = false -> j = (max_iter s - 1)%nat)
    /\ (hv = true -> rule s j (hist_at s loss j) = true
                     /\ forall k, (k < j)%nat -> rule s k (hist_at s loss k) = false)
    /\ (j + 1 - patience s <= b <= j)%nat
    /\ (forall k, (j + 1 - patience s <= k <= j)%nat ->
          (nth b (hist_at s loss j) 0%Q <= nth k (hist_at s loss j) 0%Q)%Q)
    /\ (forall k, (j + 1 - patience s <= k < b)%nat ->
          (nth b (hist_at s loss j) 0%Q < nth k (hist_at s loss j) 0%Q)%Q).
Proof.
  intros H1 H2 s hv restore loss Hp1 Hp2. rewrite (optim_flat_with_model sn wb H1 H2).
  exact (optim_flat_spec s hv restore loss Hp1 Hp2).
Qed.

(* batch generator: any result that is the model's batch_indices of the permutation drawn *)
Theorem tie_batches_partition (r : option (list (list nat))) (perm : list nat) (bs n : nat) :
  r = batch_indices perm bs ->
  Permutation.Permutation perm (seq 0 n) -> (1 <= bs <= n)%nat ->
  exists bt, r = Some bt
    /\ length bt = (n / bs)%nat
    /\ Forall (fun r => length r = bs) bt
    /\ concat bt = firstn ((n / bs) * bs) perm
    /\ NoDup (concat bt)
    /\ (forall i, In i (concat bt) -> (i < n)%nat)
    /\ length (concat bt) = (n - n mod bs)%nat.
Proof. intros -> Hp Hb. exact (batches_partition perm bs n Hp Hb). Qed.

Lemma perm_seq_length (perm : list nat) n : Permutation.Permutation perm (seq 0 n) -> length perm = n.
Proof. intros H. rewrite (Permutation.Permutation_length H). apply seq_length. Qed.

(* ==== tactics of the generated equality proofs ==== *)
(* float layer: unfold the comparison aliases, compute on finite values, recognise the relative test *)
Ltac tie20_floats :=
  unfold gmin, gfirst, gargmin, fge, fgt;
  cbn [fsub fadd fneg fabs];
  repeat match goal with
  | |- context [fle (fdiv (Fin ?x) (Fin (Qabs ?y))) (Fin ?r)] =>
      rewrite (fle_fdiv_abs x y r) by (apply hd_minus_min_nonneg)
  end;
  cbn [fle feq flt].
(* integer layer: split on every integer comparison (Z from the translation, nat from the model) *)
Ltac tie20_split :=
  match goal with
  | |- context [Z.gtb ?a ?b] => rewrite (Z.gtb_ltb a b)
  | |- context [Z.geb ?a ?b] => rewrite (Z.geb_leb a b)
  | |- context [Z.eqb ?a ?b] => destruct (Z.eqb_spec a b)
  | |- context [Z.ltb ?a ?b] => destruct (Z.ltb_spec a b)
  | |- context [Z.leb ?a ?b] => destruct (Z.leb_spec a b)
  | |- context [Nat.ltb ?a ?b] => destruct (Nat.ltb_spec a b)
  | |- context [Nat.leb ?a ?b] => destruct (Nat.leb_spec a b)
  | |- context [Nat.eqb ?a ?b] => destruct (Nat.eqb_spec a b)
  end.
(* a leaf: syntactically equal, contradictory integer facts, or equal as boolean formulas over the remaining atoms *)
Ltac tie20_leaf := first [ reflexivity | exfalso; lia | btauto ].
Ltac tie20_ints := repeat (first [ tie20_leaf | tie20_split ]).
