(* Proofs about stan_epochs (C16). *)
From Coq Require Import List ZArith Bool Lia.
Import ListNotations.
From LV Require Import Goose.Epoch Goose.EpochProofs Goose.Warmup.
Open Scope Z_scope.

(* doubling pattern: durations b, 2b, 4b, ... *)
Fixpoint doubling (this : Z) (l : list econf) : Prop :=
  match l with
  | [] => True
  | c :: r => ety_ c = Slow /\ dur c = this /\ doubling (2 * this) r
  end.

Lemma slow_loop_spec fuel : forall this left thw,
  1 <= this -> this <= left -> (Z.to_nat left < fuel)%nat ->
  exists l rest, slow_loop fuel this left thw = Some (l, rest)
    /\ sum_dur l + rest = left
    /\ this <= rest
    /\ Forall (fun c => ety_ c = Slow /\ thin c = thw /\ this <= dur c) l
    /\ doubling this l
    /\ rest < 3 * (this * 2 ^ Z.of_nat (length l)).
Proof.
  induction fuel as [|f IH]; intros this left thw H1 H2 Hf; [lia|].
  cbn [slow_loop]. destruct (3 * this <=? left) eqn:E.
  - apply Z.leb_le in E.
    destruct (IH (2 * this) (left - this) thw) as [l [rest [Hl [Hs [Hr [Hall [Hd Hlt]]]]]]]; try lia.
    rewrite Hl. exists (mkE Slow this thw :: l), rest. split; [reflexivity|].
    split; [unfold sum_dur in *; cbn [fold_right dur]; lia|]. split; [lia|]. split.
    + constructor; [cbn; repeat split; lia|].
      eapply Forall_impl; [|exact Hall]. cbv beta. intros c [? [? ?]]. repeat split; auto; lia.
    + split; [cbn; auto|].
      cbn [length]. rewrite Nat2Z.inj_succ, Z.pow_succ_r by lia.
      replace (this * (2 * 2 ^ Z.of_nat (length l))) with (2 * this * 2 ^ Z.of_nat (length l)) by ring.
      exact Hlt.
  - apply Z.leb_gt in E. exists [], left.
    split; [reflexivity|]. split; [unfold sum_dur; cbn [fold_right]; lia|].
    split; [lia|]. split; [constructor|]. split; [exact I|].
    cbn [length]. change (Z.of_nat 0) with 0. rewrite Z.pow_0_r. lia.
Qed.

Definition admissible (w p i t b thp thw : Z) : Prop :=
  20 <= w /\ i + t + b <= w /\ 1 <= i /\ 1 <= t /\ 1 <= b /\ 1 <= p
  /\ 1 <= thw /\ thw <= i /\ thw <= t /\ thw <= b
  /\ 1 <= thp /\ (thp | p).

Lemma forallb_app_true {A} (f : A -> bool) l1 l2 :
  forallb f (l1 ++ l2) = forallb f l1 && forallb f l2.
Proof. apply forallb_app. Qed.

Lemma nwap_no_post_prefix l r :
  forallb (fun c => negb (is_post (ety_ c))) l = true ->
  no_warmup_after_post (l ++ r) = no_warmup_after_post r.
Proof.
  induction l as [|c l IH]; intros H; [reflexivity|].
  cbn [forallb] in H. apply andb_true_iff in H. destruct H as [Hc Hl].
  cbn [app no_warmup_after_post]. rewrite (IH Hl).
  destruct (is_post (ety_ c)); [discriminate|reflexivity].
Qed.

Lemma sum_dur_app l1 l2 : sum_dur (l1 ++ l2) = sum_dur l1 + sum_dur l2.
Proof.
  induction l1 as [|x l1 IH]; [reflexivity|].
  change (sum_dur ((x :: l1) ++ l2)) with (dur x + sum_dur (l1 ++ l2)).
  change (sum_dur (x :: l1)) with (dur x + sum_dur l1). lia.
Qed.

Lemma valid_intro c0 r :
  is_init (ety_ c0) = true -> dur c0 = 1 ->
  (forall c, In c r -> is_init (ety_ c) = false) ->
  (forall c, In c (c0 :: r) -> cfg_ok c = true) ->
  no_warmup_after_post (c0 :: r) = true ->
  valid (c0 :: r) = true.
Proof.
  intros Hi Hd Hn Hc Hw. unfold valid. rewrite Hi, Hd, Hw. cbn [Z.eqb Pos.eqb andb].
  rewrite andb_true_r. apply andb_true_iff; split.
  - apply forallb_forall. intros c Hin. rewrite (Hn c Hin). reflexivity.
  - apply forallb_forall. exact Hc.
Qed.

Theorem stan_valid_and_sums w p i t b thp thw :
  admissible w p i t b thp thw ->
  exists slows rest,
    stan_epochs w p i t b thp thw =
      SOk ([mkE Init 1 1; mkE Fast i thw] ++ slows
           ++ [mkE Slow rest thw; mkE Fast t thw; mkE Post p thp])
    /\ doubling b slows
    /\ Forall (fun c => ety_ c = Slow /\ thin c = thw /\ b <= dur c) slows
    /\ b <= rest < 3 * (b * 2 ^ Z.of_nat (length slows))
    /\ i + sum_dur slows + rest + t = w
    /\ forall l, stan_epochs w p i t b thp thw = SOk l ->
         valid l = true /\ sum_dur (warmup_part l) = w.
Proof.
  intros [Hw [Hsum [Hi [Ht [Hb [Hp [Hthw [Hti [Htt [Htb [Hthp Hdiv]]]]]]]]]]].
  unfold stan_epochs.
  destruct (w <? 20) eqn:E1; [apply Z.ltb_lt in E1; lia|].
  destruct (w <? i + t + b) eqn:E2; [apply Z.ltb_lt in E2; lia|].
  destruct (slow_loop_spec (S (Z.to_nat w)) b (w - i - t) thw) as
    [slows [rest [Hl [Hs [Hr [Hall [Hd Hlt]]]]]]]; try lia.
  rewrite Hl. exists slows, rest.
  split; [reflexivity|]. split; [exact Hd|]. split; [exact Hall|].
  split; [lia|]. split; [lia|].
  intros l Heq. injection Heq as <-.
  change (mkE Init 1 1 :: mkE Fast i thw :: slows ++ [mkE Slow rest thw; mkE Fast t thw; mkE Post p thp])
    with ([mkE Init 1 1; mkE Fast i thw] ++ slows ++ [mkE Slow rest thw; mkE Fast t thw; mkE Post p thp]).
  assert (Hslow_warm : forall c, In c slows -> ety_ c = Slow /\ thin c = thw /\ b <= dur c).
  { apply Forall_forall. exact Hall. }
  split.
  - (* valid *)
    assert (Hok : forall ty d, ty <> Post -> thw <= d -> cfg_ok (mkE ty d thw) = true).
    { intros ty d Hty Hd'. unfold cfg_ok. cbn [dur thin ety_].
      destruct ty; try congruence; cbn [is_post];
        rewrite andb_true_r; repeat (apply andb_true_iff; split); apply Z.leb_le; lia. }
    apply valid_intro.
    + reflexivity.
    + reflexivity.
    + intros c Hc. cbn [app] in Hc. destruct Hc as [<-|Hc]; [reflexivity|].
      apply in_app_or in Hc. destruct Hc as [Hc|Hc].
      * destruct (Hslow_warm c Hc) as [-> _]. reflexivity.
      * cbn in Hc. destruct Hc as [<-|[<-|[<-|[]]]]; reflexivity.
    + intros c Hc. cbn [app] in Hc. destruct Hc as [<-|[<-|Hc]].
      * reflexivity.
      * apply Hok; [discriminate|lia].
      * apply in_app_or in Hc. destruct Hc as [Hc|Hc].
        -- destruct (Hslow_warm c Hc) as [Hty [Hth Hdu]].
           destruct c as [ty d th]. cbn [ety_ thin dur] in *. subst. apply Hok; [discriminate|lia].
        -- cbn [In] in Hc. destruct Hc as [<-|[<-|[<-|[]]]].
           ++ apply Hok; [discriminate|lia].
           ++ apply Hok; [discriminate|lia].
           ++ unfold cfg_ok. cbn [dur thin ety_ is_post].
              destruct Hdiv as [k Hk].
              assert (0 < k) by (destruct (Z_lt_le_dec 0 k); [assumption|exfalso; nia]).
              assert (thp <= p) by nia.
              repeat (apply andb_true_iff; split); try (apply Z.leb_le; lia).
              apply Z.eqb_eq. subst p. apply Z.mod_mul. lia.
    + (* no warmup after the (single, final) posterior epoch *)
      match goal with |- no_warmup_after_post ?L = true => replace L
        with (([mkE Init 1 1; mkE Fast i thw] ++ slows ++ [mkE Slow rest thw; mkE Fast t thw]) ++ [mkE Post p thp]) end.
      2:{ cbn [app]. rewrite <- ?app_assoc. reflexivity. }
      rewrite nwap_no_post_prefix; [reflexivity|].
      cbn [app forallb ety_ is_post negb andb]. rewrite forallb_app. apply andb_true_iff; split.
      * apply forallb_forall. intros c Hc. destruct (Hslow_warm c Hc) as [-> _]. reflexivity.
      * reflexivity.
  - (* warmup durations sum to w *)
    unfold warmup_part. cbn [app filter ety_ is_warmup]. rewrite filter_app.
    cbn [filter ety_ is_warmup].
    assert (Hf : filter (fun c => is_warmup (ety_ c)) slows = slows).
    { clear -Hslow_warm. induction slows as [|c l IH]; [reflexivity|]. cbn [filter].
      destruct (Hslow_warm c (or_introl eq_refl)) as [-> _]. cbn. f_equal. apply IH.
      intros c' Hc'. apply Hslow_warm. now right. }
    rewrite Hf.
    change (sum_dur (mkE Fast i thw :: slows ++ [mkE Slow rest thw; mkE Fast t thw])
            = w) with (i + sum_dur (slows ++ [mkE Slow rest thw; mkE Fast t thw]) = w).
    rewrite sum_dur_app. unfold sum_dur at 2. cbn [fold_right dur]. lia.
Qed.

Theorem stan_rejects w p i t b thp thw :
  w < 20 \/ w < i + t + b -> stan_epochs w p i t b thp thw = SValueError.
Proof.
  intros H. unfold stan_epochs.
  destruct (w <? 20) eqn:E1; [reflexivity|]. apply Z.ltb_ge in E1.
  destruct (w <? i + t + b) eqn:E2; [reflexivity|]. apply Z.ltb_ge in E2. lia.
Qed.

(* Non-termination of the real loop for base_duration = 0 shows up here as fuel exhaustion *)
Example base_zero_diverges : stan_epochs 100 10 5 5 0 1 1 = SOutOfFuel.
Proof. vm_compute. reflexivity. Qed.

Example stan_default_shape :
  stan_epochs 1000 1000 75 50 25 1 1 =
  SOk [mkE Init 1 1; mkE Fast 75 1; mkE Slow 25 1; mkE Slow 50 1; mkE Slow 100 1; mkE Slow 200 1;
       mkE Slow 500 1; mkE Fast 50 1; mkE Post 1000 1].
Proof. vm_compute. reflexivity. Qed.
Example admissible_example : admissible 1000 1000 75 50 25 1 1.
Proof. unfold admissible. repeat split; try lia. exists 1000. lia. Qed.
