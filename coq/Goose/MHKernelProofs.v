From Coq Require Import QArith Bool Lia.
From LV Require Import Base.Xnum Goose.MH Goose.MHProofs Goose.MHKernel.
Open Scope Q_scope.

(* NaN propagates through + and - *)
Lemma xadd_nan_l a b : xisnan a = true -> xisnan (xadd a b) = true.
Proof. destruct a; try discriminate. intros _. destruct b; reflexivity. Qed.
Lemma xadd_nan_r a b : xisnan b = true -> xisnan (xadd a b) = true.
Proof. destruct b; try discriminate. intros _. destruct a; reflexivity. Qed.
Lemma xneg_nan a : xisnan (xneg a) = xisnan a.
Proof. destruct a; reflexivity. Qed.
Lemma xsub_nan_l a b : xisnan a = true -> xisnan (xsub a b) = true.
Proof. unfold xsub. apply xadd_nan_l. Qed.
Lemma xsub_nan_r a b : xisnan b = true -> xisnan (xsub a b) = true.
Proof. unfold xsub. intros H. apply xadd_nan_r. rewrite xneg_nan. exact H. Qed.

(* a kernel that forwards its correction: NaN in any ingredient it uses makes the ratio NaN *)
Lemma ingr_nan_ratio_nan k g : ingr_nan k g = true -> xisnan (kernel_ratio k g) = true.
Proof.
  unfold ingr_nan, kernel_ratio. intros H.
  apply orb_true_iff in H. destruct H as [H|H].
  - apply orb_true_iff in H. apply xadd_nan_l. destruct H as [H|H].
    + apply xsub_nan_r; exact H.
    + apply xsub_nan_l; exact H.
  - apply xadd_nan_r. destruct k; cbn [kernel_corr] in *.
    + discriminate.
    + exact H.
    + apply orb_true_iff in H. destruct H as [H|H].
      * apply xsub_nan_r; exact H.
      * apply xsub_nan_l; exact H.
Qed.

(* the IWLS correction is also undefined when both proposal densities are infinite of the same sign *)
Lemma iwls_inf_minus_inf g :
  (g_fwd g = XPosInf /\ g_bwd g = XPosInf) \/ (g_fwd g = XNegInf /\ g_bwd g = XNegInf) ->
  xisnan (kernel_ratio KIWLS g) = true.
Proof.
  unfold kernel_ratio. cbn [kernel_corr]. intros [[-> ->]|[-> ->]]; apply xadd_nan_r; reflexivity.
Qed.

Section P.
Variable exp_o : xnum -> xnum.
Hypothesis Hexp : exp_ok exp_o.

(* model statement: the forwarding kernel IS the accept rule on prop - cur + corr *)
Theorem kernel_decide_is_mh_decide c k g :
  kernel_decide exp_o Forward c k g = mh_decide exp_o c (g_cur g) (g_prop g) (kernel_corr k g) (g_u g).
Proof. reflexivity. Qed.

Theorem kernel_error_code c k g :
  code (kernel_decide exp_o Forward c k g) = if xisnan (kernel_ratio k g) then 90%nat else 0%nat.
Proof. unfold kernel_decide, kernel_ratio. cbn [apply_san]. apply code_is_0_or_90. Qed.

(* undefined ratio at kernel level: code 90, probability 0, rejection, input state and kernel
   state returned *)
Theorem kernel_undefined_is_rejection {S K} k g (ks : K) (proposed input : S) :
  unit_interval (g_u g) ->
  xisnan (kernel_ratio k g) = true ->
  let r := kernel_transition exp_o Forward Lt k g ks proposed input in
  code (ko_info r) = 90%nat /\ prob (ko_info r) = XFin 0 /\ accept (ko_info r) = false
  /\ ko_mstate r = input /\ ko_kstate r = ks.
Proof.
  intros Hu Hn. cbv zeta. unfold kernel_transition. cbn [ko_info ko_mstate ko_kstate].
  unfold kernel_decide. cbn [apply_san].
  destruct (nan_is_rejection exp_o Hexp (g_cur g) (g_prop g) (kernel_corr k g) (g_u g) Hu Hn)
    as [H1 [H2 H3]].
  repeat split; try assumption.
  unfold mh_select. rewrite H3. reflexivity.
Qed.

Theorem kernel_nan_is_rejection {S K} k g (ks : K) (proposed input : S) :
  unit_interval (g_u g) ->
  ingr_nan k g = true ->
  let r := kernel_transition exp_o Forward Lt k g ks proposed input in
  code (ko_info r) = 90%nat /\ prob (ko_info r) = XFin 0 /\ accept (ko_info r) = false
  /\ ko_mstate r = input /\ ko_kstate r = ks.
Proof.
  intros Hu Hn. apply kernel_undefined_is_rejection; [exact Hu|].
  apply ingr_nan_ratio_nan; exact Hn.
Qed.

(* the IWLS case of the seeded change: backward proposal density undefined *)
Theorem iwls_bwd_nan_is_rejection {S K} g (ks : K) (proposed input : S) :
  unit_interval (g_u g) -> g_bwd g = XNaN ->
  let r := kernel_transition exp_o Forward Lt KIWLS g ks proposed input in
  code (ko_info r) = 90%nat /\ accept (ko_info r) = false /\ ko_mstate r = input.
Proof.
  intros Hu Hb.
  destruct (@kernel_nan_is_rejection S K KIWLS g ks proposed input Hu) as [H1 [_ [H3 [H4 _]]]].
  - unfold ingr_nan. rewrite Hb. cbn. rewrite !orb_true_r. reflexivity.
  - cbv zeta. auto.
Qed.

Theorem kernel_prob_range s c k g :
  exists q, prob (kernel_decide exp_o s c k g) = XFin q /\ 0 <= q /\ q <= 1.
Proof. unfold kernel_decide. apply prob_range; exact Hexp. Qed.

Theorem kernel_accept_iff s k g qu qp :
  g_u g = XFin qu -> prob (kernel_decide exp_o s Lt k g) = XFin qp ->
  (accept (kernel_decide exp_o s Lt k g) = true <-> qu < qp).
Proof. unfold kernel_decide. apply accept_iff_lt. Qed.

Theorem kernel_zero_never s k g :
  unit_interval (g_u g) -> prob (kernel_decide exp_o s Lt k g) = XFin 0 ->
  accept (kernel_decide exp_o s Lt k g) = false.
Proof. unfold kernel_decide. apply zero_never. Qed.

Theorem kernel_one_always s c k g :
  unit_interval (g_u g) -> prob (kernel_decide exp_o s c k g) = XFin 1 ->
  accept (kernel_decide exp_o s c k g) = true.
Proof. unfold kernel_decide. apply one_always. Qed.

(* returned states and moved flag *)
Theorem kernel_state_select {S K} s c k g (ks : K) (proposed input : S) :
  let r := kernel_transition exp_o s c k g ks proposed input in
  ko_kstate r = ks
  /\ (accept (ko_info r) = false -> ko_mstate r = input)
  /\ (accept (ko_info r) = true -> ko_mstate r = proposed).
Proof.
  cbv zeta. unfold kernel_transition. cbn [ko_info ko_mstate ko_kstate]. unfold mh_select.
  split; [reflexivity|]. split; intros ->; reflexivity.
Qed.
End P.

(* --- the sanitising variant (jnp.nan_to_num on the correction) is refuted: an IWLS transition
   whose backward density is NaN gets code 0 and is accepted on the bare density ratio --- *)
Definition g_witness : kingr := mkKI (XFin 0) (XFin 0) (XFin 0) (XFin 0) XNaN (XFin (1#4)).

Theorem sanitised_refuted :
  exists g, unit_interval (g_u g) /\ ingr_nan KIWLS g = true /\
    code (kernel_decide exp_stub Sanitise Lt KIWLS g) = 0%nat /\
    accept (kernel_decide exp_stub Sanitise Lt KIWLS g) = true.
Proof.
  exists g_witness. split.
  - exists (1#4). split; [reflexivity|]. split; [discriminate|reflexivity].
  - repeat split.
Qed.

(* same for a user MHProposal whose log_correction is NaN *)
Theorem sanitised_refuted_mh :
  exists g, unit_interval (g_u g) /\ ingr_nan KMH g = true /\
    code (kernel_decide exp_stub Sanitise Lt KMH g) = 0%nat /\
    accept (kernel_decide exp_stub Sanitise Lt KMH g) = true.
Proof.
  exists (mkKI (XFin 0) (XFin 0) XNaN (XFin 0) (XFin 0) (XFin (1#4))). split.
  - exists (1#4). split; [reflexivity|]. split; [discriminate|reflexivity].
  - repeat split.
Qed.

(* non-vacuity of kernel_nan_is_rejection: the same witness, forwarding kernel *)
Example kernel_nan_witness :
  unit_interval (g_u g_witness) /\ ingr_nan KIWLS g_witness = true /\
  kernel_transition exp_stub Forward Lt KIWLS g_witness tt 1%nat 0%nat
  = mkKO (mkMH 90 (XFin 0) false) tt 0%nat.
Proof.
  split; [|split; reflexivity].
  exists (1#4). split; [reflexivity|]. split; [discriminate|reflexivity].
Qed.

(* a finite IWLS case: correction bwd - fwd = -1/2 - 0 enters the ratio *)
Example kernel_finite_case :
  kernel_transition exp_stub Forward Lt KIWLS
    (mkKI (XFin 1) (XFin 1) (XFin 0) (XFin 0) (XFin (-1#2)) (XFin (1#4))) tt 1%nat 0%nat
  = mkKO (mkMH 0 (XFin (1#2)) true) tt 1%nat.
Proof. reflexivity. Qed.
