(* C10 - proofs about the builder model (Builder.v): hygiene of the key flow for an arbitrary engine key,
   set_engine_seed(int) = set_engine_seed(PRNGKey(int)), build() does not change the builder (building
   twice gives the same engine), set_initial_values overrides whatever was there, and the default builder
   followed by Engine(...) is the batched run of Keys.v. *)
From Coq Require Import List ZArith Bool Arith Lia Permutation.
Import ListNotations.
From LV Require Import Goose.Epoch Goose.Keys Goose.KeysProofs Goose.Builder.
Close Scope Z_scope.
Open Scope nat_scope.

(* ------------------------------------------------------------------------------------------ *)
(* key hygiene with an arbitrary engine key                                                     *)
(* ------------------------------------------------------------------------------------------ *)
Lemma jitter_good_g jk nch jit :
  good (jitter_events_g jk nch jit) /\ under jk (jitter_events_g jk nch jit).
Proof.
  destruct jit as [nfn|]; cbn [jitter_events_g]; [|split; [apply good_nil| intros ? []]].
  destruct (good_node jk nfn (fun f => f)
    (fun f => ESplit (split jk nfn f) nch ::
              map (fun c => EUse (mkL c MJitter f 0 0) (split (split jk nfn f) nch c)) (seq 0 nch)) (seq 0 nfn))
    as (G & U & _).
  - rewrite map_id. apply seq_NoDup.
  - intros f _. rewrite <- flat_map_single.
    destruct (good_node (split jk nfn f) nch (fun c => c)
      (fun c => [EUse (mkL c MJitter f 0 0) (split (split jk nfn f) nch c)]) (seq 0 nch)) as (G & U & _).
    + rewrite map_id. apply seq_NoDup.
    + intros a _. apply good_leaf.
    + split; assumption.
  - split; assumption.
Qed.

Theorem run_good_g ek jk nch jit p sched evs :
  ~ prefix ek jk -> ~ prefix jk ek ->
  run_events_g ek jk nch jit p sched = Some evs -> good evs.
Proof.
  intros H1 H2. unfold run_events_g. destruct (program p sched) as [prog|]; [|discriminate].
  intros H. injection H as <-.
  destruct (good_node ek nch (fun c => c)
              (fun c => chain_events p c prog (split ek nch c)) (seq 0 nch)) as (GE & UE & _).
  { rewrite map_id. apply seq_NoDup. }
  { intros c _. apply chain_good. }
  destruct (jitter_good_g jk nch jit) as [GJ UJ].
  rewrite app_comm_cons. apply good_app_apart; [exact GE| exact GJ|].
  intros a b Ha Hb. pose proof (UE a Ha) as Pa. pose proof (UJ b Hb) as Pb. split; intros Hp.
  - destruct (prefix_cmp ek jk (ekey b) (prefix_trans _ _ _ Pa Hp) Pb); contradiction.
  - destruct (prefix_cmp ek jk (ekey a) Pa (prefix_trans _ _ _ Pb Hp)); contradiction.
Qed.

(* every consumed key is consumed once and never split, whatever engine key set_engine_seed installed,
   as long as it is unrelated to the builder's jitter key *)
Theorem key_hygiene_g ek jk nch jit p sched evs :
  ~ prefix ek jk -> ~ prefix jk ek ->
  run_events_g ek jk nch jit p sched = Some evs ->
  NoDup (map snd (uses evs))
  /\ (forall l k n, In (EUse l k) evs -> ~ In (ESplit k n) evs)
  /\ (forall l k e, In (EUse l k) evs -> In e evs -> prefix k (ekey e) -> e = EUse l k).
Proof.
  intros H1 H2 H. destruct (run_good_g _ _ _ _ _ _ _ H1 H2 H) as [N L]. repeat split.
  - now apply uses_nodup.
  - intros l k n Hu Hs.
    assert (Heq : EUse l k = ESplit k n) by (apply (nodup_map_inj ekey evs); auto). discriminate.
  - intros l k e Hu He Hp. symmetry. apply (nodup_map_inj ekey evs); auto.
    cbn. symmetry. eapply L; eauto.
Qed.

(* the keys the constructor derives are unrelated: the default engine key qualifies *)
Lemma default_keys_apart root :
  ~ prefix (b_engine root) (b_jitter root) /\ ~ prefix (b_jitter root) (b_engine root).
Proof.
  apply (children_apart root 3 1 3 2); [apply prefix_refl| apply prefix_refl| intros H; discriminate].
Qed.

(* the same seed given again through set_engine_seed is NOT unrelated: the engine key becomes the root the
   jitter key was split from; with 3 chains, 2 jitter functions and 3 kernels a kernel's init_state call
   and a jitter function receive the same key *)
Example set_engine_seed_same_seed_collides :
  exists evs l1 l2 k,
    run_events_g [] (b_jitter []) 3 (Some 2) (mkP 3 0 1) [mkE Init 1 1; mkE Post 1 1]%Z = Some evs
    /\ In (EUse l1 k) evs /\ In (EUse l2 k) evs /\ l_meth l1 = MInit /\ l_meth l2 = MJitter.
Proof.
  eexists. exists (mkL 2 MInit 0 0 0), (mkL 0 MJitter 1 0 0), [(3, 2); (2, 1); (3, 0)].
  split; [vm_compute; reflexivity|]. split; [|split; [|split; reflexivity]].
  - vm_compute. intuition.
  - vm_compute. intuition.
Qed.

(* ------------------------------------------------------------------------------------------ *)
(* the builder                                                                                  *)
(* ------------------------------------------------------------------------------------------ *)
Lemma combine_index {S J X} (fs : nat -> S) (fj : nat * X -> J) : forall n a (states : list X),
  combine (combine (seq a n) (map fs (seq a n))) (map fj (combine (seq a n) states))
  = map (fun cs => ((fst cs, fs (fst cs)), fj cs)) (combine (seq a n) states).
Proof.
  induction n as [|n IH]; intros a states; cbn [seq map combine]; [reflexivity|].
  destruct states as [|s r]; cbn [map combine]; [reflexivity|]. cbn [fst]. f_equal. apply IH.
Qed.

Section BuilderProofs.
  Variable mstate : Type.
  Variable prngkey : Z -> key.
  Variable jdict : Type.
  Variable jn : jdict -> nat.
  Variable jitter_apply : jdict -> list key -> mstate -> mstate.
  Local Notation bld := (builder mstate jdict).
  Local Notation build := (b_build mstate jdict jn jitter_apply).
  Local Notation steps := (b_steps mstate prngkey jdict jn jitter_apply).
  Local Notation script := (b_script mstate prngkey jdict jn jitter_apply).

  (* build() as written only reads the builder *)
  Theorem build_pure_keeps_builder (b b' : bld) e :
    build BuildPure b = Some (e, b') -> b' = b.
  Proof.
    unfold b_build. destruct (bd_states _ _ b) as [st|]; [|discriminate].
    destruct (negb (length st =? bd_nch _ _ b)); [discriminate|].
    intros H. injection H as _ <-. reflexivity.
  Qed.

  (* ... so building twice gives the same engine inputs (seeds and jittered states) *)
  Theorem build_idempotent (b b' : bld) e :
    build BuildPure b = Some (e, b') -> build BuildPure b' = Some (e, b').
  Proof. intros H. pose proof (build_pure_keeps_builder _ _ _ H) as ->. exact H. Qed.

  Lemma steps_app sv bv ops1 : forall st ops2,
    steps sv bv st (ops1 ++ ops2)
    = match steps sv bv st ops1 with Some st' => steps sv bv st' ops2 | None => None end.
  Proof.
    induction ops1 as [|o r IH]; intros st ops2; cbn [app b_steps]; [reflexivity|].
    destruct (b_step _ _ _ _ _ sv bv st o) as [st'|]; [apply IH| reflexivity].
  Qed.

  Theorem script_build_twice sv s nch ops e :
    script sv BuildPure s nch (ops ++ [BBuild]) = Some e ->
    script sv BuildPure s nch (ops ++ [BBuild; BBuild]) = Some e.
  Proof.
    unfold b_script. rewrite !steps_app.
    destruct (steps sv BuildPure (b_new mstate prngkey jdict s nch, None) ops) as [[b last]|]; [|discriminate].
    cbn [b_steps b_step]. destruct (build BuildPure b) as [[ei b']|] eqn:E; [|discriminate].
    cbn [b_steps b_step]. rewrite (build_idempotent _ _ _ E). intros H. exact H.
  Qed.

  (* set_engine_seed: an integer is the corresponding PRNG key *)
  Theorem set_engine_seed_int_equiv z (b : bld) :
    b_set_engine_seed mstate prngkey jdict (IntSeed z) b = b_set_engine_seed mstate prngkey jdict (KeySeed (prngkey z)) b.
  Proof. reflexivity. Qed.

  Theorem script_engine_seed_int_equiv sv bv s nch pre post z :
    script sv bv s nch (pre ++ BSetEngineSeed (IntSeed z) :: post)
    = script sv bv s nch (pre ++ BSetEngineSeed (KeySeed (prngkey z)) :: post).
  Proof. unfold b_script. rewrite !steps_app. reflexivity. Qed.

  (* handing the constructor's own engine key back changes nothing *)
  Theorem set_engine_seed_default_noop s nch :
    b_set_engine_seed mstate prngkey jdict (KeySeed (b_engine (seed_root prngkey s))) (b_new mstate prngkey jdict s nch)
    = b_new mstate prngkey jdict s nch.
  Proof. reflexivity. Qed.

  (* the engine key is the given key itself (not a child of it), split once per chain *)
  Theorem set_engine_seed_seeds bv s (b b' : bld) e :
    build bv (b_set_engine_seed mstate prngkey jdict s b) = Some (e, b') ->
    ei_seeds e = map (fun c => split (seed_root prngkey s) (bd_nch _ _ b) c) (seq 0 (bd_nch _ _ b)).
  Proof.
    unfold b_build, b_set_engine_seed. cbn [bd_states bd_nch bd_engine bd_jitter bd_jit].
    destruct (bd_states _ _ b) as [st|]; [|discriminate].
    destruct (negb (length st =? bd_nch _ _ b)); [discriminate|].
    intros H. injection H as <- _. reflexivity.
  Qed.

  (* builder reuse: set_initial_values replaces whatever states the builder held (from an earlier call or,
     in the writing variant, from an earlier build), so the next build depends on the new argument only *)
  Theorem build_after_set_initial_values sv bv a (b1 b2 b1' b2' : bld) :
    bd_engine _ _ b1 = bd_engine _ _ b2 -> bd_jitter _ _ b1 = bd_jitter _ _ b2 ->
    bd_nch _ _ b1 = bd_nch _ _ b2 -> bd_jit _ _ b1 = bd_jit _ _ b2 ->
    b_set_initial_values mstate jdict sv a b1 = Some b1' -> b_set_initial_values mstate jdict sv a b2 = Some b2' ->
    option_map fst (build bv b1') = option_map fst (build bv b2').
  Proof.
    intros He Hj Hn Hf. unfold b_set_initial_values. rewrite Hn.
    destruct (set_initial_values mstate sv (bd_nch _ _ b2) a) as [st|]; [|discriminate].
    intros H1 H2. injection H1 as <-. injection H2 as <-.
    unfold b_build. cbn [bd_states bd_nch bd_engine bd_jitter bd_jit]. rewrite He, Hj, Hf.
    destruct (negb (length st =? bd_nch _ _ b2)); [reflexivity|].
    destruct bv, (bd_jit _ _ b2); reflexivity.
  Qed.

  Theorem first_state_after_build sv bv a (b b1 b2 : bld) e c i0 :
    b_set_initial_values mstate jdict sv a b = Some b1 -> build bv b1 = Some (e, b2) ->
    init_of mstate (bd_nch _ _ b) a c = Some i0 ->
    nth_error (ei_states e) c
    = Some (jitter_chain_g mstate jdict jn jitter_apply (bd_jitter _ _ b) (bd_nch _ _ b) (bd_jit _ _ b) c i0).
  Proof.
    unfold b_set_initial_values. destruct (set_initial_values mstate sv (bd_nch _ _ b) a) as [st|] eqn:ES; [|discriminate].
    intros H. injection H as <-. unfold b_build. cbn [bd_states bd_nch bd_engine bd_jitter bd_jit].
    destruct (length st =? bd_nch _ _ b) eqn:EL; cbn [negb]; [|discriminate]. apply Nat.eqb_eq in EL.
    intros H. injection H as <- _. cbn [ei_states]. intros Hi.
    assert (En : nth_error st c = Some i0).
    { destruct a as [s0|l]; cbn [set_initial_values init_of] in *.
      - injection ES as <-. destruct (c <? bd_nch _ _ b) eqn:Ec; [|discriminate]. injection Hi as <-.
        apply Nat.ltb_lt in Ec. clear EL. revert c Ec. induction (bd_nch _ _ b) as [|n IH]; intros c Ec; [lia|].
        destruct c; cbn; [reflexivity| apply IH; lia].
      - destruct sv; [discriminate|]. injection ES as <-. exact Hi. }
    assert (Hcomb : nth_error (combine (seq 0 (bd_nch _ _ b)) st) c = Some (c, i0)).
    { rewrite <- EL. apply (nth_error_combine_seq st 0 c i0 En). }
    rewrite (map_nth_error _ c _ Hcomb). reflexivity.
  Qed.
  (* set_jitter_fns: the last call wins; None clears the jitter functions set before *)
  Theorem set_jitter_fns_last_wins j1 j2 (b : bld) :
    b_set_jitter_fns mstate jdict j2 (b_set_jitter_fns mstate jdict j1 b) = b_set_jitter_fns mstate jdict j2 b.
  Proof. reflexivity. Qed.

  Theorem script_jitter_last_wins sv bv s nch pre post j1 j2 :
    script sv bv s nch (pre ++ BSetJitter j1 :: BSetJitter j2 :: post)
    = script sv bv s nch (pre ++ BSetJitter j2 :: post).
  Proof.
    unfold b_script. rewrite !steps_app.
    destruct (steps sv bv (b_new mstate prngkey jdict s nch, None) pre) as [[b last]|]; reflexivity.
  Qed.

  Lemma map_snd_combine_seq {X} : forall n a (l : list X), length l = n -> map snd (combine (seq a n) l) = l.
  Proof.
    induction n as [|n IH]; intros a l H; destruct l as [|x r]; cbn in *; try discriminate; [reflexivity|].
    f_equal. apply IH. lia.
  Qed.

  Theorem set_jitter_fns_none_clears bv (b b' : bld) st e :
    bd_states _ _ b = Some st ->
    build bv (b_set_jitter_fns mstate jdict None b) = Some (e, b') ->
    ei_states e = st /\ bd_jit _ _ b' = None.
  Proof.
    intros Hs. unfold b_build, b_set_jitter_fns. cbn [bd_states bd_nch bd_engine bd_jitter bd_jit]. rewrite Hs.
    destruct (length st =? bd_nch _ _ b) eqn:EL; cbn [negb]; [|discriminate]. apply Nat.eqb_eq in EL.
    intros H. destruct bv; injection H as <- <-; cbn [ei_states bd_jit jitter_chain_g]; split; try reflexivity.
    - rewrite <- (map_snd_combine_seq (bd_nch _ _ b) 0 st EL) at 2. apply map_ext. intros [c ms]. reflexivity.
    - rewrite <- (map_snd_combine_seq (bd_nch _ _ b) 0 st EL) at 2. apply map_ext. intros [c ms]. reflexivity.
  Qed.
End BuilderProofs.

(* the writing variant is not idempotent: the second engine starts from initial + 2 x jitter *)
Example build_writes_back_refuted :
  exists (b b1 b2 : builder Z nat) e1 e2,
    b_build Z nat (fun n => n) (fun _ ks ms => (ms + Z.of_nat (length ks) + 1)%Z) BuildWritesJitter b = Some (e1, b1)
    /\ b_build Z nat (fun n => n) (fun _ ks ms => (ms + Z.of_nat (length ks) + 1)%Z) BuildWritesJitter b1 = Some (e2, b2)
    /\ ei_seeds e1 = ei_seeds e2 /\ ei_states e1 = [12; 22]%Z /\ ei_states e2 = [14; 24]%Z.
Proof.
  exists (mkB Z nat [(3, 1)] [(3, 2)] 2 (Some [10; 20]%Z) (Some 1)).
  eexists. eexists. eexists. eexists.
  split; [vm_compute; reflexivity|]. split; [vm_compute; reflexivity|].
  split; [reflexivity|]. split; reflexivity.
Qed.

(* ------------------------------------------------------------------------------------------ *)
(* default builder + Engine(...) = the batched run of Keys.v (so all its theorems apply)         *)
(* ------------------------------------------------------------------------------------------ *)
Theorem W_built_default_is_batched : forall (w : world) (prngkey : Z -> key) v root nch jit a ei,
  b_script (w_mstate w) prngkey nat (fun n => n) (fun _ => w_jitter_apply w) v BuildPure (KeySeed root) nch
           [BSetInit a; BSetJitter jit; BBuild] = Some ei -> 
  W_run_built w ei = W_run_batched w v root nch jit a.
Proof.
  intros *.
  unfold b_script, b_new, seed_root. cbn [b_steps b_step].
  unfold b_set_initial_values. cbn [bd_nch bd_engine bd_jitter bd_jit bd_states]. unfold W_run_batched, run_batched.
  destruct (set_initial_values (w_mstate w) v nch a) as [states|]; [|cbn; discriminate].
  cbn [b_steps b_step]. unfold b_set_jitter_fns, b_build.
  cbn [bd_engine bd_jitter bd_nch bd_states bd_jit].
  destruct (length states =? nch) eqn:EL; cbn [negb]; [|cbn; discriminate]. apply Nat.eqb_eq in EL.
  cbn [b_steps]. intros H. injection H as <-. unfold W_run_built. cbn [ei_seeds ei_states].
  rewrite !map_length, combine_length, !seq_length, EL, Nat.min_id, Nat.eqb_refl. cbn [negb].
  destruct (program (w_p w) (w_sched w)) as [prog|]; [|reflexivity].
  f_equal. f_equal. rewrite combine_index, map_map. reflexivity.
Qed.

(* the combined statements used by Properties/C10.v *)
Theorem engine_seed_int_equiv_full : forall mstate (prngkey : Z -> key) jdict jn jitter_apply z (b : builder mstate jdict),
  b_set_engine_seed mstate prngkey jdict (IntSeed z) b = b_set_engine_seed mstate prngkey jdict (KeySeed (prngkey z)) b
  /\ forall sv bv s nch pre post,
       b_script mstate prngkey jdict jn jitter_apply sv bv s nch (pre ++ BSetEngineSeed (IntSeed z) :: post)
       = b_script mstate prngkey jdict jn jitter_apply sv bv s nch (pre ++ BSetEngineSeed (KeySeed (prngkey z)) :: post).
Proof.
  intros mstate prngkey jdict jn jitter_apply z b. split.
  - exact (set_engine_seed_int_equiv mstate prngkey jdict z b).
  - intros sv bv s nch pre post.
    exact (script_engine_seed_int_equiv mstate prngkey jdict jn jitter_apply sv bv s nch pre post z).
Qed.

Theorem build_idempotent_full : forall mstate jdict jn jitter_apply (b b' : builder mstate jdict) e,
  b_build mstate jdict jn jitter_apply BuildPure b = Some (e, b') ->
  b' = b /\ b_build mstate jdict jn jitter_apply BuildPure b' = Some (e, b').
Proof.
  intros mstate jdict jn jitter_apply b b' e H. split.
  - exact (build_pure_keeps_builder mstate jdict jn jitter_apply b b' e H).
  - exact (build_idempotent mstate jdict jn jitter_apply b b' e H).
Qed.

(* ------------------------------------------------------------------------------------------ *)
(* Engine.__init__: which model state init_state is handed                                      *)
(* ------------------------------------------------------------------------------------------ *)
Section InitState.
  Variable w : world.
  Local Notation machW := (mach (w_mstate w) (w_kstate w) (w_pos w) (w_info w) (w_tinfo w) (w_quant w)).
  Local Notation ause := (apply_use (w_mstate w) (w_kstate w) (w_pos w) (w_info w) (w_tinfo w) (w_quant w)
                            (w_k_init w) (w_k_start w) (w_k_trans w) (w_k_end w) (w_k_tune w) (w_k_endwarmup w)
                            (w_q_gen w) (w_sched w) (w_needs_hist w)).
  Local Notation aevs := (apply_events (w_mstate w) (w_kstate w) (w_pos w) (w_info w) (w_tinfo w) (w_quant w)
                            (w_k_init w) (w_k_start w) (w_k_trans w) (w_k_end w) (w_k_tune w) (w_k_endwarmup w)
                            (w_q_gen w) (w_sched w) (w_needs_hist w)).

  Lemma init_uses_fold c (f : nat -> key) : forall (l : list nat) (m : machW),
    let m' := aevs (map (fun i => EUse (mkL c MInit i 0 0) (f i)) l) m in
    m_ks _ _ _ _ _ _ m' = m_ks _ _ _ _ _ _ m ++ map (fun i => w_k_init w i (f i) (m_ms _ _ _ _ _ _ m)) l
    /\ m_ms _ _ _ _ _ _ m' = m_ms _ _ _ _ _ _ m.
  Proof.
    induction l as [|i r IH]; intros m; cbn zeta.
    - cbn. rewrite app_nil_r. split; reflexivity.
    - unfold apply_events. cbn [map fold_left]. fold (aevs (map (fun i => EUse (mkL c MInit i 0 0) (f i)) r)
        (ause (mkL c MInit i 0 0) (f i) m)).
      destruct (IH (ause (mkL c MInit i 0 0) (f i) m)) as [I1 I2]. cbn zeta in I1, I2.
      rewrite I1, I2. cbn [apply_use l_meth l_idx m_ks m_ms]. rewrite <- app_assoc. split; reflexivity.
  Qed.

  (* Engine.__init__: init_state of kernel i in chain c is handed chain c's own initial model state after the
     configured jitter (and the key split (split k_c 2 1) nker i of chain c's key k_c) *)
  Theorem W_init_state_sees_own_start root nch jit c ms :
    let s0 := init_chain (w_mstate w) (w_kstate w) (w_pos w) (w_info w) (w_tinfo w) (w_quant w)
                (w_jitter_apply w) root nch jit c ms in
    let s1 := exec_op _ _ _ _ _ _ (w_extract w) (w_k_init w) (w_k_start w) (w_k_trans w) (w_k_end w) (w_k_tune w)
                (w_k_endwarmup w) (w_q_gen w) (w_p w) (w_sched w) (w_needs_hist w) OInit s0 in
    m_ks _ _ _ _ _ _ (mach_ _ _ _ _ _ _ s1)
    = map (fun i => w_k_init w i (split (split (chain_key root nch c) 2 1) (nker (w_p w)) i)
                              (W_jittered w root nch jit c ms)) (seq 0 (nker (w_p w)))
    /\ m_ms _ _ _ _ _ _ (mach_ _ _ _ _ _ _ s1) = W_jittered w root nch jit c ms.
  Proof.
    cbn zeta. unfold exec_op, init_chain. cbn [cid carry mach_ op_events one_call fst snd kseq_events].
    unfold apply_events. cbn [fold_left].
    destruct (init_uses_fold c (fun i => split (split (chain_key root nch c) 2 1) (nker (w_p w)) i)
                (seq 0 (nker (w_p w)))
                (mkMach _ _ _ _ _ _ [] (jitter_chain (w_mstate w) (w_jitter_apply w) root nch jit c ms) [] [] [] []))
      as [I1 I2]. cbn zeta in I1, I2. unfold apply_events in I1, I2.
    unfold kseq_events. cbn [fold_left]. rewrite I1, I2. cbn [m_ks m_ms app]. split; reflexivity.
  Qed.
End InitState.
