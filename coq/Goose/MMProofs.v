(* Proofs about the mass-matrix model Goose/MM.v (property C12). *)
From Coq Require Import String List QArith Qabs Bool Arith Lia Permutation Sorted.
From Coq Require Import OrdersEx RelationClasses Morphisms Setoid.
Import ListNotations.
From LV Require Import Goose.MM.
Open Scope Q_scope.

(* ================================================================================================ *)
(* 1. the order on key names                                                                        *)
(* ================================================================================================ *)

Lemma str_compare_same : forall s t, String.compare s t = String_as_OT.compare s t.
Proof. intros s t. reflexivity. Qed.   (* the two fixpoints are convertible *)

Lemma str_leb_refl : forall s, String.leb s s = true.
Proof.
  intros s. destruct (String.leb_total s s) as [H|H]; exact H.
Qed.

Lemma str_leb_iff : forall a b,
  String.leb a b = true <-> (a = b \/ String_as_OT.lt a b).
Proof.
  intros a b. unfold String.leb. rewrite str_compare_same.
  destruct (String_as_OT.compare_spec a b) as [H|H|H]; unfold String_as_OT.eq in *.
  - split; [intros _; left; exact H|reflexivity].
  - split; [intros _; right; exact H|reflexivity].
  - split; [discriminate|]. intros [E|L]; exfalso.
    + subst b. exact (StrictOrder_Irreflexive _ H).
    + exact (StrictOrder_Irreflexive _ (StrictOrder_Transitive _ _ _ H L)).
Qed.

Lemma str_leb_trans : forall a b c,
  String.leb a b = true -> String.leb b c = true -> String.leb a c = true.
Proof.
  intros a b c Hab Hbc. rewrite str_leb_iff in *.
  destruct Hab as [->|Hab]; [exact Hbc|].
  destruct Hbc as [<-|Hbc]; [right; exact Hab|].
  right. exact (StrictOrder_Transitive _ _ _ Hab Hbc).
Qed.

Definition key_le (a b : pkey) : Prop := key_leb a b = true.

Lemma key_le_trans : forall a b c, key_le a b -> key_le b c -> key_le a c.
Proof. unfold key_le, key_leb. intros a b c. apply str_leb_trans. Qed.

Lemma key_le_total : forall a b, key_le a b \/ key_le b a.
Proof. unfold key_le, key_leb. intros a b. apply String.leb_total. Qed.

Lemma key_le_antisym : forall a b, key_le a b -> key_le b a -> fst a = fst b.
Proof. unfold key_le, key_leb. intros a b. apply String.leb_antisym. Qed.

(* ================================================================================================ *)
(* 2. flat_order is a sorted permutation, and the only one when the names are distinct              *)
(* ================================================================================================ *)

Lemma insert_key_perm : forall k l, Permutation (k :: l) (insert_key k l).
Proof.
  intros k l. induction l as [|y r IH]; cbn [insert_key].
  - apply Permutation_refl.
  - destruct (key_leb k y).
    + apply Permutation_refl.
    + eapply perm_trans; [apply perm_swap|]. apply perm_skip. exact IH.
Qed.

Lemma flat_order_perm : forall keys, Permutation keys (flat_order keys).
Proof.
  induction keys as [|k r IH]; cbn [flat_order fold_right].
  - apply perm_nil.
  - eapply perm_trans; [apply perm_skip; exact IH|]. apply insert_key_perm.
Qed.

Lemma insert_key_sorted : forall k l,
  StronglySorted key_le l -> StronglySorted key_le (insert_key k l).
Proof.
  intros k l Hs. induction Hs as [|y r Hr IH Hall]; cbn [insert_key].
  - constructor; constructor.
  - destruct (key_leb k y) eqn:E.
    + constructor.
      * constructor; assumption.
      * constructor; [exact E|].
        eapply Forall_impl; [|exact Hall]. intros z Hz. eapply key_le_trans; [exact E|exact Hz].
    + constructor; [exact IH|].
      assert (Hyk : key_le y k).
      { destruct (key_le_total k y) as [H|H]; [unfold key_le in H; congruence|exact H]. }
      eapply Permutation_Forall; [apply insert_key_perm|].
      constructor; assumption.
Qed.

Lemma flat_order_sorted : forall keys, StronglySorted key_le (flat_order keys).
Proof.
  induction keys as [|k r IH]; cbn [flat_order fold_right].
  - constructor.
  - apply insert_key_sorted. exact IH.
Qed.

Lemma same_name_same_key : forall (l : list pkey) a b,
  NoDup (map fst l) -> In a l -> In b l -> fst a = fst b -> a = b.
Proof.
  induction l as [|x l IH]; intros a b Hnd Ha Hb Hab; [destruct Ha|].
  cbn [map] in Hnd. inversion Hnd as [|? ? Hnotin Hnd']; subst.
  destruct Ha as [Ha|Ha], Hb as [Hb|Hb].
  - congruence.
  - subst x. exfalso. apply Hnotin. rewrite Hab. apply in_map. exact Hb.
  - subst x. exfalso. apply Hnotin. rewrite <- Hab. apply in_map. exact Ha.
  - eapply IH; eassumption.
Qed.

Lemma sorted_perm_unique : forall l1 l2 : list pkey,
  StronglySorted key_le l1 -> StronglySorted key_le l2 ->
  Permutation l1 l2 -> NoDup (map fst l1) -> l1 = l2.
Proof.
  induction l1 as [|x l1 IH]; intros l2 Hs1 Hs2 Hp Hnd.
  - apply Permutation_nil in Hp. now subst.
  - destruct l2 as [|y l2]; [apply Permutation_sym, Permutation_nil in Hp; discriminate|].
    assert (Hxy : x = y).
    { inversion Hs1 as [|? ? _ Hall1]; subst. inversion Hs2 as [|? ? _ Hall2]; subst.
      assert (Hx2 : In x (y :: l2)) by (eapply Permutation_in; [exact Hp|left; reflexivity]).
      assert (Hy1 : In y (x :: l1)) by
        (eapply Permutation_in; [apply Permutation_sym; exact Hp|left; reflexivity]).
      destruct Hx2 as [Hx2|Hx2]; [now symmetry|].
      destruct Hy1 as [Hy1|Hy1]; [exact Hy1|].
      rewrite Forall_forall in Hall1, Hall2.
      apply (same_name_same_key (x :: l1)); [exact Hnd|left; reflexivity|right; exact Hy1|].
      apply key_le_antisym; [apply Hall1; exact Hy1|apply Hall2; exact Hx2]. }
    subst y. f_equal.
    apply IH.
    + inversion Hs1; assumption.
    + inversion Hs2; assumption.
    + eapply Permutation_cons_inv; exact Hp.
    + cbn [map] in Hnd. inversion Hnd; assumption.
Qed.

Lemma perm_nodup_names : forall l l' : list pkey,
  Permutation l l' -> NoDup (map fst l) -> NoDup (map fst l').
Proof.
  intros l l' Hp Hnd. eapply Permutation_NoDup; [|exact Hnd]. apply Permutation_map. exact Hp.
Qed.

Theorem flat_order_invariant : forall keys keys' : list pkey,
  Permutation keys keys' -> NoDup (map fst keys) -> flat_order keys = flat_order keys'.
Proof.
  intros keys keys' Hp Hnd.
  apply sorted_perm_unique.
  - apply flat_order_sorted.
  - apply flat_order_sorted.
  - eapply perm_trans; [apply Permutation_sym, flat_order_perm|].
    eapply perm_trans; [exact Hp|apply flat_order_perm].
  - eapply perm_nodup_names; [apply flat_order_perm|exact Hnd].
Qed.

(* ================================================================================================ *)
(* 3. mapM, indexing                                                                                 *)
(* ================================================================================================ *)

Lemma mapM_length : forall {A B} (f : A -> option B) l r,
  mapM f l = Some r -> length r = length l.
Proof.
  intros A B f. induction l as [|x l IH]; intros r H; cbn [mapM] in H.
  - injection H as <-. reflexivity.
  - destruct (f x); [|discriminate]. destruct (mapM f l) eqn:E; [|discriminate].
    injection H as <-. cbn [length]. f_equal. apply IH. reflexivity.
Qed.

Lemma mapM_nth : forall {A B} (f : A -> option B) l r i x,
  mapM f l = Some r -> nth_error l i = Some x ->
  exists y, f x = Some y /\ nth_error r i = Some y.
Proof.
  intros A B f. induction l as [|a l IH]; intros r i x H Hn.
  - destruct i; discriminate.
  - cbn [mapM] in H. destruct (f a) eqn:Ea; [|discriminate].
    destruct (mapM f l) eqn:E; [|discriminate]. injection H as <-.
    destruct i as [|i]; cbn [nth_error] in *.
    + injection Hn as <-. eexists; split; [exact Ea|reflexivity].
    + eapply IH; [reflexivity|exact Hn].
Qed.

Lemma mapM_ext_in : forall {A B} (f g : A -> option B) l,
  (forall x, In x l -> f x = g x) -> mapM f l = mapM g l.
Proof.
  intros A B f g. induction l as [|a l IH]; intros H; cbn [mapM]; [reflexivity|].
  rewrite (H a (or_introl eq_refl)). rewrite IH; [reflexivity|].
  intros x Hx. apply H. right. exact Hx.
Qed.

Lemma nth_error_seq : forall n a i, (i < n)%nat -> nth_error (seq a n) i = Some (a + i)%nat.
Proof.
  induction n as [|n IH]; intros a i Hi; [lia|].
  destruct i as [|i]; cbn [seq nth_error].
  - f_equal. lia.
  - rewrite IH by lia. f_equal. lia.
Qed.

Lemma nth_error_indexed_from : forall {A} (l : list A) a i x,
  nth_error l i = Some x -> nth_error (combine (seq a (length l)) l) i = Some ((a + i)%nat, x).
Proof.
  intros A. induction l as [|y l IH]; intros a i x H.
  - destruct i; discriminate.
  - destruct i as [|i]; cbn [length seq combine nth_error] in *.
    + injection H as <-. now rewrite Nat.add_0_r.
    + rewrite (IH (S a) i x H). now replace (S a + i)%nat with (a + S i)%nat by lia.
Qed.

Lemma nth_error_indexed : forall {A} (l : list A) i x,
  nth_error l i = Some x -> nth_error (indexed l) i = Some (i, x).
Proof. intros A l i x H. unfold indexed. now rewrite (nth_error_indexed_from l 0 i x H). Qed.

(* ================================================================================================ *)
(* 4. alignment: column i of the stacked history is the series of coordinate i of the order used    *)
(* ================================================================================================ *)

Lemma key_columns_spec : forall h k cs,
  key_columns h k = Some cs ->
  length cs = snd k /\
  forall j, (j < snd k)%nat ->
    exists s, coord_series h (fst k) j = Some s /\ nth_error cs j = Some s.
Proof.
  intros h k cs H. unfold key_columns in H. unfold coord_series.
  destruct (lookup (fst k) h) as [rows|]; [|discriminate].
  destruct (block_ok (snd k) rows); [|discriminate].
  split.
  - rewrite (mapM_length _ _ _ H). apply seq_length.
  - intros j Hj.
    destruct (mapM_nth _ _ _ j j H) as [s [Hs Hn]].
    + rewrite nth_error_seq by exact Hj. reflexivity.
    + exists s. split; assumption.
Qed.

Lemma coords_of_cons : forall k order,
  coords_of (k :: order) = map (pair (fst k)) (seq 0 (snd k)) ++ coords_of order.
Proof. reflexivity. Qed.

Lemma columns_aligned : forall h order css,
  mapM (key_columns h) order = Some css ->
  length (concat css) = length (coords_of order) /\
  forall i name j, nth_error (coords_of order) i = Some (name, j) ->
    exists s, coord_series h name j = Some s /\ nth_error (concat css) i = Some s.
Proof.
  intros h. induction order as [|k order IH]; intros css H.
  - cbn [mapM] in H. injection H as <-. split; [reflexivity|].
    intros i name j Hn. destruct i; discriminate.
  - cbn [mapM] in H. destruct (key_columns h k) as [cs|] eqn:Ek; [|discriminate].
    destruct (mapM (key_columns h) order) as [css'|] eqn:Eo; [|discriminate].
    injection H as <-. destruct (IH css' eq_refl) as [IHlen IHnth].
    destruct (key_columns_spec h k cs Ek) as [Hlen Hcol].
    rewrite coords_of_cons. cbn [concat]. split.
    + rewrite !app_length, map_length, seq_length. lia.
    + intros i name j Hn.
      assert (Hl : length (map (pair (fst k)) (seq 0 (snd k))) = snd k)
        by now rewrite map_length, seq_length.
      destruct (Nat.lt_ge_cases i (snd k)) as [Hi|Hi].
      * rewrite nth_error_app1 in Hn by lia.
        rewrite nth_error_map, nth_error_seq in Hn by exact Hi. cbn in Hn.
        injection Hn as <- <-.
        destruct (Hcol i Hi) as [s [Hs Hc]]. exists s. split; [exact Hs|].
        rewrite nth_error_app1 by lia. exact Hc.
      * rewrite nth_error_app2 in Hn by lia. rewrite Hl in Hn.
        destruct (IHnth _ _ _ Hn) as [s [Hs Hc]]. exists s. split; [exact Hs|].
        rewrite nth_error_app2 by lia. rewrite Hlen. exact Hc.
Qed.

Lemma stack_id : forall cols0 cols, stack cols0 = Some cols -> cols = cols0 /\ cols <> [].
Proof.
  intros cols0 cols H. unfold stack in H. destruct cols0 as [|c r]; [discriminate|].
  destruct (forallb _ r); [|discriminate]. injection H as <-. split; [reflexivity|discriminate].
Qed.

Lemma tune_mm_cols : forall o diag keys h new,
  tune_mm o diag keys h = Some new ->
  exists cols, cols <> [] /\
    length cols = length (coords_of (order_keys o keys)) /\
    (forall i name j, nth_error (coords_of (order_keys o keys)) i = Some (name, j) ->
       exists s, coord_series h name j = Some s /\ nth_error cols i = Some s) /\
    (if diag then option_map Diag (tune_diag cols) else option_map Dense (tune_full cols)) = Some new.
Proof.
  intros o diag keys h new H. unfold tune_mm, hist_columns in H.
  destruct (mapM (key_columns h) (order_keys o keys)) as [css|] eqn:Ec; [|discriminate].
  cbn [option_map] in H.
  destruct (stack (concat css)) as [cols|] eqn:Es; [|discriminate].
  destruct (stack_id _ _ Es) as [-> Hne].
  destruct (columns_aligned h _ css Ec) as [Hlen Hnth].
  exists (concat css). repeat split; assumption.
Qed.

Theorem aligned_diag : forall o keys h v,
  tune_mm o true keys h = Some (Diag v) ->
  length v = length (coords_of (order_keys o keys)) /\
  forall i name j, nth_error (coords_of (order_keys o keys)) i = Some (name, j) ->
    exists s x, coord_series h name j = Some s /\ var_q s = Some x /\
                nth_error v i = Some (x + reg).
Proof.
  intros o keys h v H.
  destruct (tune_mm_cols _ _ _ _ _ H) as [cols [_ [Hlen [Hnth Ht]]]].
  destruct (tune_diag cols) as [v'|] eqn:Ed; [|discriminate]. injection Ht as <-.
  split.
  - unfold tune_diag in Ed. rewrite (mapM_length _ _ _ Ed). exact Hlen.
  - intros i name j Hn. destruct (Hnth _ _ _ Hn) as [s [Hs Hc]].
    destruct (mapM_nth _ _ _ _ _ Ed Hc) as [y [Hy Hv]].
    destruct (var_q s) as [x|] eqn:Ev; [|discriminate]. cbn [option_map] in Hy.
    injection Hy as <-. exists s, x. repeat split; assumption.
Qed.

Definition entry (m : list (list Q)) (i i' : nat) : option Q :=
  match nth_error m i with
  | None => None
  | Some row => nth_error row i'
  end.

Lemma tune_full_entry : forall cols m i i' s s',
  tune_full cols = Some m -> nth_error cols i = Some s -> nth_error cols i' = Some s' ->
  exists c, cov_q s s' = Some c /\
            entry m i i' = Some (if Nat.eqb i i' then c + reg else c).
Proof.
  intros cols m i i' s s' H Hi Hi'. unfold tune_full in H.
  destruct (mapM_nth _ _ _ _ _ H (nth_error_indexed _ _ _ Hi)) as [row [Hrow Hm]].
  destruct (mapM_nth _ _ _ _ _ Hrow (nth_error_indexed _ _ _ Hi')) as [y [Hy Hr]].
  unfold full_entry in Hy. cbn [fst snd] in Hy.
  destruct (cov_q s s') as [c|]; [|discriminate]. cbn [option_map] in Hy. injection Hy as <-.
  exists c. split; [reflexivity|]. unfold entry. rewrite Hm. exact Hr.
Qed.

Lemma tune_full_shape : forall cols m,
  tune_full cols = Some m ->
  length m = length cols /\ Forall (fun row => length row = length cols) m.
Proof.
  intros cols m H. unfold tune_full in H.
  assert (Hli : length (indexed cols) = length cols).
  { unfold indexed. rewrite combine_length, seq_length. lia. }
  split.
  - rewrite (mapM_length _ _ _ H). exact Hli.
  - rewrite Forall_forall. intros row Hin.
    destruct (In_nth_error _ _ Hin) as [i Hi].
    assert (Hlt : (i < length m)%nat) by (apply nth_error_Some; congruence).
    rewrite (mapM_length _ _ _ H) in Hlt.
    destruct (nth_error (indexed cols) i) as [ic|] eqn:E;
      [|apply nth_error_None in E; lia].
    destruct (mapM_nth _ _ _ _ _ H E) as [row' [Hrow' Hm']].
    rewrite Hi in Hm'. injection Hm' as <-.
    rewrite (mapM_length _ _ _ Hrow'). exact Hli.
Qed.

Theorem aligned_dense : forall o keys h m,
  tune_mm o false keys h = Some (Dense m) ->
  length m = length (coords_of (order_keys o keys)) /\
  Forall (fun row => length row = length (coords_of (order_keys o keys))) m /\
  forall i name j i' name' j',
    nth_error (coords_of (order_keys o keys)) i = Some (name, j) ->
    nth_error (coords_of (order_keys o keys)) i' = Some (name', j') ->
    exists s s' c, coord_series h name j = Some s /\ coord_series h name' j' = Some s' /\
                   cov_q s s' = Some c /\
                   entry m i i' = Some (if Nat.eqb i i' then c + reg else c).
Proof.
  intros o keys h m H.
  destruct (tune_mm_cols _ _ _ _ _ H) as [cols [_ [Hlen [Hnth Ht]]]].
  destruct (tune_full cols) as [m'|] eqn:Ed; [|discriminate]. injection Ht as <-.
  destruct (tune_full_shape _ _ Ed) as [Hl1 Hl2]. rewrite Hlen in Hl1, Hl2.
  split; [exact Hl1|]. split; [exact Hl2|].
  intros i name j i' name' j' Hn Hn'.
  destruct (Hnth _ _ _ Hn) as [s [Hs Hc]]. destruct (Hnth _ _ _ Hn') as [s' [Hs' Hc']].
  destruct (tune_full_entry _ _ _ _ _ _ Ed Hc Hc') as [c [Hcov He]].
  exists s, s', c. repeat split; assumption.
Qed.

(* ================================================================================================ *)
(* 5. order invariance and own keys only                                                            *)
(* ================================================================================================ *)

Theorem order_invariant : forall sqrt_o diag keys keys' slow st h,
  Permutation keys keys' -> NoDup (map fst keys) ->
  tune sqrt_o Sorted diag keys slow st h = tune sqrt_o Sorted diag keys' slow st h.
Proof.
  intros sqrt_o diag keys keys' slow st h Hp Hnd.
  unfold tune, tune_slow, tune_mm, order_keys.
  rewrite (flat_order_invariant keys keys' Hp Hnd). reflexivity.
Qed.

Theorem order_invariant_mm : forall diag keys keys' h,
  Permutation keys keys' -> NoDup (map fst keys) ->
  tune_mm Sorted diag keys h = tune_mm Sorted diag keys' h.
Proof.
  intros diag keys keys' h Hp Hnd. unfold tune_mm, order_keys.
  rewrite (flat_order_invariant keys keys' Hp Hnd). reflexivity.
Qed.

Definition agree_on (keys : list pkey) (h h' : history) : Prop :=
  forall k, In k keys -> lookup (fst k) h = lookup (fst k) h'.

Lemma order_keys_in : forall o keys k, In k (order_keys o keys) -> In k keys.
Proof.
  intros [|] keys k H; [exact H|].
  eapply Permutation_in; [apply Permutation_sym, flat_order_perm|exact H].
Qed.

Theorem own_keys_only_mm : forall o diag keys h h',
  agree_on keys h h' -> tune_mm o diag keys h = tune_mm o diag keys h'.
Proof.
  intros o diag keys h h' Ha. unfold tune_mm, hist_columns.
  rewrite (mapM_ext_in (key_columns h) (key_columns h') (order_keys o keys)); [reflexivity|].
  intros k Hk. unfold key_columns. rewrite (Ha k (order_keys_in _ _ _ Hk)). reflexivity.
Qed.

Theorem own_keys_only : forall sqrt_o o diag keys slow st h h',
  agree_on keys h h' ->
  tune sqrt_o o diag keys slow st (Some h) = tune sqrt_o o diag keys slow st (Some h').
Proof.
  intros sqrt_o o diag keys slow st h h' Ha. unfold tune, tune_slow.
  rewrite (own_keys_only_mm o diag keys h h' Ha). reflexivity.
Qed.

(* entries of other kernels: names that are not among the own keys *)
Lemma lookup_app_other : forall k (extra h : history),
  ~ In k (map fst extra) -> lookup k (extra ++ h) = lookup k h.
Proof.
  intros k extra h. induction extra as [|[k' r] extra IH]; intros Hn; cbn; [reflexivity|].
  destruct (String.eqb k k') eqn:E.
  - apply String.eqb_eq in E. exfalso. apply Hn. left. cbn. now symmetry.
  - apply IH. intros Hin. apply Hn. right. exact Hin.
Qed.

Lemma lookup_app_other_r : forall k (h extra : history),
  ~ In k (map fst extra) -> lookup k (h ++ extra) = lookup k h.
Proof.
  intros k h extra Hn. induction h as [|[k' r] h IH]; cbn.
  - induction extra as [|[k' r] extra IH]; cbn; [reflexivity|].
    destruct (String.eqb k k') eqn:E.
    + apply String.eqb_eq in E. exfalso. apply Hn. left. cbn. now symmetry.
    + apply IH. intros Hin. apply Hn. right. exact Hin.
  - destruct (String.eqb k k'); [reflexivity|exact IH].
Qed.

Theorem other_kernels_irrelevant : forall sqrt_o o diag keys slow st own others1 others2 others1' others2',
  (forall k, In k keys -> ~ In (fst k) (map fst (others1 ++ others2 ++ others1' ++ others2'))) ->
  tune sqrt_o o diag keys slow st (Some (others1 ++ own ++ others2)) =
  tune sqrt_o o diag keys slow st (Some (others1' ++ own ++ others2')).
Proof.
  intros sqrt_o o diag keys slow st own o1 o2 o1' o2' Hn.
  apply own_keys_only. intros k Hk. specialize (Hn k Hk).
  rewrite !map_app, !in_app_iff in Hn.
  rewrite (lookup_app_other (fst k) o1) by tauto. rewrite (lookup_app_other (fst k) o1') by tauto.
  rewrite (lookup_app_other_r (fst k) own o2) by tauto.
  rewrite (lookup_app_other_r (fst k) own o2') by tauto. reflexivity.
Qed.

(* ================================================================================================ *)
(* 6. the tuned matrix has a positive trace; the step size is rescaled so that                       *)
(*    step^2 * trace is preserved (stated on squares: jnp.sqrt is an oracle)                        *)
(* ================================================================================================ *)
From Coq Require Import Lqa.

Lemma qsum_cons : forall x l, qsum (x :: l) == x + qsum l.
Proof. intros x l. unfold qsum. cbn [fold_right]. apply Qred_correct. Qed.

Lemma qsum_nonneg : forall l, Forall (fun x => 0 <= x) l -> 0 <= qsum l.
Proof.
  induction l as [|x l IH]; intros H.
  - cbn. lra.
  - rewrite qsum_cons. inversion H as [|? ? Hx Hl]; subst. specialize (IH Hl). lra.
Qed.

Lemma qsum_pos : forall l, l <> [] -> Forall (fun x => reg <= x) l -> 0 < qsum l.
Proof.
  intros [|x l] Hne H; [congruence|].
  rewrite qsum_cons. inversion H as [|? ? Hx Hl]; subst.
  assert (0 <= qsum l).
  { apply qsum_nonneg. eapply Forall_impl; [|exact Hl]. intros a Ha. unfold reg in Ha. lra. }
  unfold reg in Hx. lra.
Qed.

Lemma qsquare_nonneg : forall y : Q, 0 <= y * y.
Proof.
  intros y. destruct (Qlt_le_dec y 0) as [H|H].
  - setoid_replace (y * y) with ((- y) * (- y)) by ring.
    apply Qmult_le_0_compat; lra.
  - apply Qmult_le_0_compat; exact H.
Qed.

Lemma dev_prod_self_nonneg : forall m c, Forall (fun x => 0 <= x) (dev_prod m m c c).
Proof.
  intros m. induction c as [|x c IH]; cbn [dev_prod]; constructor; [|exact IH].
  apply qsquare_nonneg.
Qed.

Lemma qlen_gt_1 : forall c : list Q, (2 <= length c)%nat -> 0 < qlen c - 1.
Proof.
  intros c H. unfold qlen.
  assert (H1 : inject_Z 1 < inject_Z (Z.of_nat (length c))) by (rewrite <- Zlt_Qlt; lia).
  change (inject_Z 1) with 1 in H1. lra.
Qed.

Lemma var_nonneg : forall s x, var_q s = Some x -> 0 <= x.
Proof.
  intros s x H. unfold var_q, cov_q in H.
  destruct (2 <=? length s)%nat eqn:E; cbn [andb] in H; [|discriminate].
  destruct (length s =? length s)%nat; [|discriminate].
  assert (Hx : x = Qred (qsum (dev_prod (mean s) (mean s) s s) / (qlen s - 1))) by congruence.
  rewrite Hx. clear H Hx.
  match goal with |- 0 <= Qred ?X => setoid_replace (Qred X) with X by apply Qred_correct end.
  apply Nat.leb_le in E.
  apply Qle_shift_div_l; [apply qlen_gt_1; exact E|].
  assert (0 <= qsum (dev_prod (mean s) (mean s) s s))
    by (apply qsum_nonneg, dev_prod_self_nonneg).
  lra.
Qed.

Lemma tune_diag_ge_reg : forall cols v, tune_diag cols = Some v -> Forall (fun x => reg <= x) v.
Proof.
  unfold tune_diag. induction cols as [|c cols IH]; intros v H; cbn [mapM] in H.
  - injection H as <-. constructor.
  - destruct (var_q c) as [x|] eqn:Ev; cbn [option_map] in H; [|discriminate].
    destruct (mapM _ cols) as [v'|] eqn:E; [|discriminate]. injection H as <-.
    constructor; [|apply IH; reflexivity].
    pose proof (var_nonneg _ _ Ev). lra.
Qed.

Lemma full_diag_gen : forall cols l pre a m',
  cols = pre ++ l -> a = length pre ->
  mapM (fun ic => mapM (full_entry ic) (indexed cols)) (combine (seq a (length l)) l) = Some m' ->
  tune_diag l = Some (diag_from a m').
Proof.
  intros cols. induction l as [|c l IH]; intros pre a m' Hc Ha H.
  - cbn in H. injection H as <-. reflexivity.
  - cbn [length seq combine mapM] in H.
    destruct (mapM (full_entry (a, c)) (indexed cols)) as [row|] eqn:Er; [|discriminate].
    destruct (mapM _ (combine (seq (S a) (length l)) l)) as [m''|] eqn:Em; [|discriminate].
    injection H as <-.
    assert (Hn : nth_error cols a = Some c).
    { subst cols a. rewrite nth_error_app2 by lia. now rewrite Nat.sub_diag. }
    destruct (mapM_nth _ _ _ _ _ Er (nth_error_indexed _ _ _ Hn)) as [y [Hy Hr]].
    unfold full_entry in Hy. cbn [fst snd] in Hy. rewrite Nat.eqb_refl in Hy.
    unfold tune_diag. cbn [mapM diag_from]. fold (var_q c) in Hy. rewrite Hy.
    assert (IH' : tune_diag l = Some (diag_from (S a) m'')).
    { apply (IH (pre ++ [c])).
      - subst cols. now rewrite <- app_assoc.
      - subst a. rewrite app_length. cbn. lia.
      - exact Em. }
    unfold tune_diag in IH'. rewrite IH'.
    now rewrite (nth_error_nth _ _ 0 Hr).
Qed.

(* the diagonal of the dense matrix is the diagonal-mode vector *)
Lemma full_diag : forall cols m, tune_full cols = Some m -> tune_diag cols = Some (diag_from 0 m).
Proof.
  intros cols m H. apply (full_diag_gen cols cols [] 0%nat m); [reflexivity|reflexivity|exact H].
Qed.

Theorem trace_pos : forall o diag keys h new, tune_mm o diag keys h = Some new -> 0 < trace new.
Proof.
  intros o diag keys h new H.
  destruct (tune_mm_cols _ _ _ _ _ H) as [cols [Hne [_ [_ Ht]]]].
  assert (Hv : exists v, tune_diag cols = Some v /\ trace new = qsum v).
  { destruct diag.
    - destruct (tune_diag cols) as [v|]; [|discriminate]. injection Ht as <-.
      exists v. split; reflexivity.
    - destruct (tune_full cols) as [m|] eqn:Ef; [|discriminate]. injection Ht as <-.
      exists (diag_from 0 m). split; [apply full_diag; exact Ef|reflexivity]. }
  destruct Hv as [v [Hd ->]]. apply qsum_pos.
  - intros ->. unfold tune_diag in Hd. apply mapM_length in Hd.
    destruct cols; [congruence|discriminate].
  - eapply tune_diag_ge_reg; exact Hd.
Qed.

Theorem step_rescale : forall sqrt_o o diag keys st h st',
  tune_slow sqrt_o o diag keys st (Some h) = Some st' ->
  sqrt_o (trace (imm st) / trace (imm st')) * sqrt_o (trace (imm st) / trace (imm st'))
    == trace (imm st) / trace (imm st') ->
  0 < trace (imm st') /\
  step st' * step st' * trace (imm st') == step st * step st * trace (imm st).
Proof.
  intros sqrt_o o diag keys st h st' H Hsq. unfold tune_slow in H.
  destruct (tune_mm o diag keys h) as [new|] eqn:Em; [|discriminate]. injection H as <-.
  cbn [imm step] in *. pose proof (trace_pos _ _ _ _ _ Em) as Hpos. split; [exact Hpos|].
  set (r := trace (imm st) / trace new) in *.
  setoid_replace (sqrt_o r * step st * (sqrt_o r * step st) * trace new)
    with ((sqrt_o r * sqrt_o r) * (step st * step st) * trace new) by ring.
  rewrite Hsq. unfold r. field. lra.
Qed.

(* ================================================================================================ *)
(* 7. every slow epoch re-tunes from that epoch's history alone                                      *)
(* ================================================================================================ *)

Theorem slow_epoch_fresh : forall sqrt_o o diag keys st h st',
  tune sqrt_o o diag keys true st (Some h) = Some st' -> tune_mm o diag keys h = Some (imm st').
Proof.
  intros sqrt_o o diag keys st h st' H. unfold tune, tune_slow in H.
  destruct (tune_mm o diag keys h) as [new|]; [|discriminate]. injection H as <-. reflexivity.
Qed.

Theorem not_slow_unchanged : forall sqrt_o o diag keys st h,
  tune sqrt_o o diag keys false st h = Some st /\ tune sqrt_o o diag keys true st None = Some st.
Proof. intros. split; reflexivity. Qed.

Lemma run_epochs_app : forall sqrt_o o diag keys a b st,
  run_epochs sqrt_o o diag keys st (a ++ b) =
  match run_epochs sqrt_o o diag keys st a with
  | Some s => run_epochs sqrt_o o diag keys s b
  | None => None
  end.
Proof.
  intros sqrt_o o diag keys. induction a as [|[slow h] a IH]; intros b st; cbn; [reflexivity|].
  destruct (tune sqrt_o o diag keys slow st h); [apply IH|reflexivity].
Qed.

Definition no_retune (e : bool * option history) : Prop := fst e = false \/ snd e = None.

Lemma run_epochs_no_retune : forall sqrt_o o diag keys post st,
  Forall no_retune post -> run_epochs sqrt_o o diag keys st post = Some st.
Proof.
  intros sqrt_o o diag keys. induction post as [|[slow h] post IH]; intros st H; [reflexivity|].
  inversion H as [|? ? He Hp]; subst. cbn [run_epochs].
  assert (Ht : tune sqrt_o o diag keys slow st h = Some st).
  { destruct He as [He|He]; cbn in He; subst; [reflexivity|]. destruct slow; reflexivity. }
  rewrite Ht. apply IH. exact Hp.
Qed.

Theorem last_slow_epoch : forall sqrt_o o diag keys st pre h post st',
  run_epochs sqrt_o o diag keys st (pre ++ (true, Some h) :: post) = Some st' ->
  Forall no_retune post ->
  tune_mm o diag keys h = Some (imm st').
Proof.
  intros sqrt_o o diag keys st pre h post st' H Hp.
  rewrite run_epochs_app in H.
  destruct (run_epochs sqrt_o o diag keys st pre) as [s|]; [|discriminate].
  cbn [run_epochs] in H.
  destruct (tune sqrt_o o diag keys true s (Some h)) as [s'|] eqn:Et; [|discriminate].
  rewrite (run_epochs_no_retune _ _ _ _ _ _ Hp) in H. injection H as <-.
  eapply slow_epoch_fresh. exact Et.
Qed.

Theorem tune_keeps_kind : forall sqrt_o o diag keys slow st h st',
  tune sqrt_o o diag keys slow st h = Some st' ->
  kind_ok diag (imm st) = true -> kind_ok diag (imm st') = true.
Proof.
  intros sqrt_o o diag keys slow st h st' H Hk. unfold tune in H.
  destruct slow; [|injection H as <-; exact Hk].
  unfold tune_slow in H. destruct h as [h|]; [|injection H as <-; exact Hk].
  destruct (tune_mm o diag keys h) as [new|] eqn:Em; [|discriminate]. injection H as <-.
  cbn [imm]. unfold tune_mm in Em.
  destruct (hist_columns _ h); [|discriminate]. destruct (stack _); [|discriminate].
  destruct diag.
  - destruct (tune_diag _); [|discriminate]. injection Em as <-. reflexivity.
  - destruct (tune_full _); [|discriminate]. injection Em as <-. reflexivity.
Qed.

(* ================================================================================================ *)
(* 8. the code as found (columns in the listed order): refuted, defect F4                            *)
(* ================================================================================================ *)
Local Open Scope string_scope.

Definition f4_keys : list pkey := [("zeta", 1%nat); ("alpha", 2%nat)].
Definition f4_hist : history :=
  [("zeta", [[0]; [100]; [200]]); ("alpha", [[1; 0]; [2; 0]; [3; 1]]); ("other", [[7]; [8]; [5]])].

Theorem as_listed_refuted :
  exists keys h v s x y,
    tune_mm AsListed true keys h = Some (Diag v) /\
    nth_error (flat_coords keys) 0 = Some ("alpha", 0%nat) /\
    coord_series h "alpha" 0 = Some s /\ var_q s = Some x /\
    nth_error v 0 = Some y /\ ~ (y == x + reg) /\
    (exists sz xz, coord_series h "zeta" 0 = Some sz /\ var_q sz = Some xz /\ y == xz + reg).
Proof.
  exists f4_keys, f4_hist.
  eexists. eexists. eexists. eexists.
  split; [vm_compute; reflexivity|].
  split; [vm_compute; reflexivity|].
  split; [vm_compute; reflexivity|].
  split; [vm_compute; reflexivity|].
  split; [vm_compute; reflexivity|].
  split; [vm_compute; discriminate|].
  eexists. eexists.
  split; [vm_compute; reflexivity|].
  split; [vm_compute; reflexivity|].
  vm_compute. reflexivity.
Qed.

(* ... and it depends on the order in which the keys were listed *)
Theorem as_listed_order_dependent :
  exists keys keys' h v v' y y',
    Permutation keys keys' /\ NoDup (map fst keys) /\
    tune_mm AsListed true keys h = Some (Diag v) /\
    tune_mm AsListed true keys' h = Some (Diag v') /\
    nth_error v 0 = Some y /\ nth_error v' 0 = Some y' /\ ~ (y == y').
Proof.
  exists f4_keys, [("alpha", 2%nat); ("zeta", 1%nat)], f4_hist.
  eexists. eexists. eexists. eexists.
  split; [apply perm_swap|].
  split; [repeat constructor; cbn; intuition discriminate|].
  split; [vm_compute; reflexivity|].
  split; [vm_compute; reflexivity|].
  split; [vm_compute; reflexivity|].
  split; [vm_compute; reflexivity|].
  vm_compute. discriminate.
Qed.

(* ================================================================================================ *)
(* 9. non-vacuity: the hypotheses of the theorems hold on concrete objects                           *)
(* ================================================================================================ *)

Definition ex_keys : list pkey := [("zeta", 1%nat); ("alpha", 2%nat); ("B", 4%nat)].
Definition ex_hist : history :=
  [("other", [[7]; [8]; [5]; [1]]);
   ("zeta", [[0]; [100]; [200]; [100]]);
   ("B", [[1; 2; 3; 4]; [2; 2; 5; 4]; [4; 1; 3; 0]; [1; 1; 1; 1]]);
   ("alpha", [[1; 0]; [2; 0]; [3; 1]; [0; 5]])].

Example ex_flat_coords :
  flat_coords ex_keys =
  [("B", 0); ("B", 1); ("B", 2); ("B", 3); ("alpha", 0); ("alpha", 1); ("zeta", 0)]%nat.
Proof. vm_compute. reflexivity. Qed.

Example ex_aligned_diag : exists v,
  tune_mm Sorted true ex_keys ex_hist = Some (Diag v) /\ length v = 7%nat /\
  exists y, nth_error v 6 = Some y /\ y == (20000 # 3) + reg.
Proof.
  eexists. split; [vm_compute; reflexivity|]. split; [reflexivity|].
  eexists. split; [vm_compute; reflexivity|]. vm_compute. reflexivity.
Qed.

Example ex_aligned_dense : exists m,
  tune_mm Sorted false ex_keys ex_hist = Some (Dense m) /\ length m = 7%nat /\
  exists y, entry m 4 6 = Some y /\ y == 200 # 3.
Proof.
  eexists. split; [vm_compute; reflexivity|]. split; [reflexivity|].
  eexists. split; [vm_compute; reflexivity|]. vm_compute. reflexivity.
Qed.

Example ex_order_invariant :
  Permutation ex_keys [("B", 4%nat); ("zeta", 1%nat); ("alpha", 2%nat)] /\
  NoDup (map fst ex_keys).
Proof.
  split.
  - apply Permutation_sym. eapply perm_trans; [apply perm_swap|]. apply perm_skip. apply perm_swap.
  - repeat constructor; cbn; intuition discriminate.
Qed.

Example ex_own_keys : agree_on ex_keys ex_hist (("other2", [[1]]) :: tl ex_hist).
Proof.
  intros k Hk. cbn in Hk.
  destruct Hk as [<-|[<-|[<-|[]]]]; vm_compute; reflexivity.
Qed.

(* a state whose trace is four times the new trace: the oracle hypothesis of step_rescale holds
   with sqrt 4 = 2, and the step size doubles *)
Definition ex_sqrt (x : Q) : Q := if Qeq_bool x 4 then 2 else 0.
Definition ex_h2 : history := [("a", [[0]; [2]])].     (* var = 2, new trace = 2 + 1/1000 *)
Definition ex_st : kstate := mkK (1 # 2) (Diag [4 * (2 + reg)]).

Example ex_step_rescale : exists st',
  tune_slow ex_sqrt Sorted true [("a", 1%nat)] ex_st (Some ex_h2) = Some st' /\
  ex_sqrt (trace (imm ex_st) / trace (imm st')) * ex_sqrt (trace (imm ex_st) / trace (imm st'))
    == trace (imm ex_st) / trace (imm st') /\
  step st' == 1.
Proof.
  eexists. split; [vm_compute; reflexivity|]. split; vm_compute; reflexivity.
Qed.

Example ex_last_slow_epoch : exists st',
  run_epochs ex_sqrt Sorted true [("a", 1%nat)] ex_st
    ([(false, Some ex_h2); (true, Some [("a", [[0]; [8]])])] ++ (true, Some ex_h2) :: [(false, None); (true, None)])
    = Some st' /\ Forall no_retune [(false, @None history); (true, None)].
Proof.
  eexists. split; [vm_compute; reflexivity|].
  constructor; [left; reflexivity|]. constructor; [right; reflexivity|]. constructor.
Qed.

(* ================================================================================================ *)
(* 10. the property at kernel level: after a slow epoch with a history, the kernel state holds the   *)
(*     aligned, regularised (co)variances of that epoch's history                                   *)
(* ================================================================================================ *)

Lemma tune_mm_kind : forall o diag keys h new,
  tune_mm o diag keys h = Some new -> kind_ok diag new = true.
Proof.
  intros o diag keys h new Em. unfold tune_mm in Em.
  destruct (hist_columns _ h); [|discriminate]. destruct (stack _); [|discriminate].
  destruct diag.
  - destruct (tune_diag _); [|discriminate]. injection Em as <-. reflexivity.
  - destruct (tune_full _); [|discriminate]. injection Em as <-. reflexivity.
Qed.

Theorem slow_epoch_aligned_diag : forall sqrt_o keys st h st',
  tune sqrt_o Sorted true keys true st (Some h) = Some st' ->
  exists v, imm st' = Diag v /\
    length v = length (flat_coords keys) /\
    forall i name j, nth_error (flat_coords keys) i = Some (name, j) ->
      exists s x, coord_series h name j = Some s /\ var_q s = Some x /\
                  nth_error v i = Some (x + reg).
Proof.
  intros sqrt_o keys st h st' H. apply slow_epoch_fresh in H.
  pose proof (tune_mm_kind _ _ _ _ _ H) as Hk.
  destruct (imm st') as [v|m] eqn:E; [|discriminate].
  exists v. split; [reflexivity|]. exact (aligned_diag Sorted keys h v H).
Qed.

Theorem slow_epoch_aligned_dense : forall sqrt_o keys st h st',
  tune sqrt_o Sorted false keys true st (Some h) = Some st' ->
  exists m, imm st' = Dense m /\
    length m = length (flat_coords keys) /\
    Forall (fun row => length row = length (flat_coords keys)) m /\
    forall i name j i' name' j',
      nth_error (flat_coords keys) i = Some (name, j) ->
      nth_error (flat_coords keys) i' = Some (name', j') ->
      exists s s' c, coord_series h name j = Some s /\ coord_series h name' j' = Some s' /\
                     cov_q s s' = Some c /\
                     entry m i i' = Some (if Nat.eqb i i' then c + reg else c).
Proof.
  intros sqrt_o keys st h st' H. apply slow_epoch_fresh in H.
  pose proof (tune_mm_kind _ _ _ _ _ H) as Hk.
  destruct (imm st') as [v|m] eqn:E; [discriminate|].
  exists m. split; [reflexivity|]. exact (aligned_dense Sorted keys h m H).
Qed.

(* the flat order is the sorted arrangement of the listed keys *)
Theorem flat_order_spec : forall keys,
  Permutation keys (flat_order keys) /\ StronglySorted key_le (flat_order keys).
Proof. intros keys. split; [apply flat_order_perm|apply flat_order_sorted]. Qed.

Example ex_slow_epoch_aligned : exists st',
  tune ex_sqrt Sorted true ex_keys true (mkK 1 (Diag [1;1;1;1;1;1;1])) (Some ex_hist) = Some st'.
Proof. eexists. vm_compute. reflexivity. Qed.

Example ex_slow_epoch_aligned_dense : exists st',
  tune ex_sqrt Sorted false ex_keys true (mkK 1 (Dense [[1]])) (Some ex_hist) = Some st'.
Proof. eexists. vm_compute. reflexivity. Qed.

(* ================================================================================================ *)
(* 11. kernel sequence and engine: the history that reaches kernel i in a slow epoch is that epoch's *)
(*     chain, whatever the other kernels are and whatever was recorded for earlier epochs           *)
(* ================================================================================================ *)
Local Close Scope string_scope.

Lemma last_opt_app : forall {A} (l : list A) x, last_opt (l ++ [x]) = Some x.
Proof.
  intros A. induction l as [|y l IH]; intros x; [reflexivity|].
  cbn [app]. specialize (IH x). destruct (l ++ [x]) eqn:E.
  - destruct l; discriminate.
  - cbn [last_opt]. exact IH.
Qed.

Lemma current_chain_app : forall store e h, current_chain (store ++ [(e, h)]) = Some h.
Proof. intros. unfold current_chain. rewrite last_opt_app. reflexivity. Qed.

Lemma lookup_restrict : forall keys k h,
  In k keys -> lookup (fst k) (restrict keys h) = lookup (fst k) h.
Proof.
  intros keys k h Hin. induction h as [|[k' r] h IH]; [reflexivity|].
  cbn [restrict filter fst]. fold (restrict keys h).
  match goal with |- context [if ?c then _ else _] => destruct c eqn:E end.
  - cbn [lookup]. destruct (String.eqb (fst k) k'); [reflexivity|exact IH].
  - cbn [lookup]. destruct (String.eqb (fst k) k') eqn:Ek; [|exact IH].
    apply String.eqb_eq in Ek. exfalso.
    rewrite <- not_true_iff_false in E. apply E.
    apply existsb_exists. exists k. split; [exact Hin|]. apply String.eqb_eq. now symmetry.
Qed.

Lemma agree_on_restrict : forall keys h, agree_on keys h (restrict keys h).
Proof. intros keys h k Hk. symmetry. apply lookup_restrict. exact Hk. Qed.

Theorem seq_tune_nth : forall sqrt_o o slow h ks ks' i p,
  seq_tune sqrt_o o slow h ks = Some ks' -> nth_error ks i = Some p ->
  exists p', kernel_tune sqrt_o o slow h p = Some p' /\ nth_error ks' i = Some p'.
Proof. intros sqrt_o o slow h ks ks' i p H Hn. exact (mapM_nth _ _ _ _ _ H Hn). Qed.

Lemma kernel_tune_mm : forall sqrt_o o slow h diag keys st p',
  kernel_tune sqrt_o o slow h (KMM diag keys, st) = Some p' ->
  exists st', p' = (KMM diag keys, st') /\ tune sqrt_o o diag keys slow st h = Some st'.
Proof.
  intros sqrt_o o slow h diag keys st p' H. unfold kernel_tune in H. cbn [fst snd] in H.
  destruct (tune sqrt_o o diag keys slow st h) as [st'|]; [|discriminate].
  injection H as <-. exists st'. split; reflexivity.
Qed.

Lemma has_mm_kernel : forall (ks : list (kern * kstate)) i diag keys st,
  nth_error ks i = Some (KMM diag keys, st) ->
  existsb (fun p => needs_history (fst p)) ks = true.
Proof.
  intros ks i diag keys st H. apply existsb_exists. exists (KMM diag keys, st).
  split; [eapply nth_error_In; exact H|reflexivity].
Qed.

(* one adaptation epoch, seen from kernel i: tune with the chain recorded for this very epoch *)
Theorem engine_epoch_kernel : forall sqrt_o o ks store e h ks' store' i diag keys st,
  engine_epoch sqrt_o o ks store e h = Some (ks', store') ->
  nth_error ks i = Some (KMM diag keys, st) ->
  store' = store ++ [(e, h)] /\
  exists st', nth_error ks' i = Some (KMM diag keys, st') /\
    (if is_adaptation (e_type e)
     then tune sqrt_o o diag keys (is_slow (e_type e)) st (Some h) = Some st'
     else st' = st).
Proof.
  intros sqrt_o o ks store e h ks' store' i diag keys st H Hn.
  unfold engine_epoch in H.
  destruct (tune_kernels sqrt_o o ks (store ++ [(e, h)]) e) as [ks1|] eqn:Et; [|discriminate].
  cbn [option_map] in H. injection H as <- <-. split; [reflexivity|].
  unfold tune_kernels in Et. destruct (is_adaptation (e_type e)).
  - rewrite (has_mm_kernel _ _ _ _ _ Hn), current_chain_app in Et.
    destruct (seq_tune_nth _ _ _ _ _ _ _ _ Et Hn) as [p' [Hp Hn']].
    destruct (kernel_tune_mm _ _ _ _ _ _ _ _ Hp) as [st' [-> Ht]].
    exists st'. split; assumption.
  - injection Et as <-. exists st. split; [exact Hn|reflexivity].
Qed.

(* a slow epoch: the kernel is tuned on this epoch's chain restricted to its own keys; nothing else
   of the run (other kernels, their needs_history, chains and configs of earlier epochs) matters *)
Theorem engine_slow_epoch_own_history : forall sqrt_o o ks store e h ks' store' i diag keys st,
  engine_epoch sqrt_o o ks store e h = Some (ks', store') ->
  e_type e = ESlow ->
  nth_error ks i = Some (KMM diag keys, st) ->
  exists st', nth_error ks' i = Some (KMM diag keys, st') /\
    tune sqrt_o o diag keys true st (Some (restrict keys h)) = Some st' /\
    tune_mm o diag keys (restrict keys h) = Some (imm st').
Proof.
  intros sqrt_o o ks store e h ks' store' i diag keys st H He Hn.
  destruct (engine_epoch_kernel _ _ _ _ _ _ _ _ _ _ _ _ H Hn) as [_ [st' [Hn' Ht]]].
  rewrite He in Ht. cbn [is_adaptation is_slow] in Ht.
  exists st'. split; [exact Hn'|].
  rewrite (own_keys_only sqrt_o o diag keys true st h (restrict keys h) (agree_on_restrict keys h)) in Ht.
  split; [exact Ht|]. eapply slow_epoch_fresh. exact Ht.
Qed.

Lemma adapt_view_cons : forall e h r,
  adapt_view ((e, h) :: r) =
  if is_adaptation (e_type e) then (is_slow (e_type e), Some h) :: adapt_view r else adapt_view r.
Proof. intros e h r. unfold adapt_view. cbn [filter fst]. destruct (is_adaptation (e_type e)); reflexivity. Qed.

(* a whole schedule, seen from kernel i, is [run_epochs] over the adaptation epochs with their own chains *)
Theorem engine_run_kernel : forall sqrt_o o eps ks store ks' store' i diag keys st,
  engine_run sqrt_o o ks store eps = Some (ks', store') ->
  nth_error ks i = Some (KMM diag keys, st) ->
  exists st', nth_error ks' i = Some (KMM diag keys, st') /\
    run_epochs sqrt_o o diag keys st (adapt_view eps) = Some st'.
Proof.
  intros sqrt_o o. induction eps as [|[e h] r IH]; intros ks store ks' store' i diag keys st H Hn.
  - cbn in H. injection H as <- <-. exists st. split; [exact Hn|reflexivity].
  - cbn [engine_run] in H.
    destruct (engine_epoch sqrt_o o ks store e h) as [[ks1 store1]|] eqn:Ee; [|discriminate].
    destruct (engine_epoch_kernel _ _ _ _ _ _ _ _ _ _ _ _ Ee Hn) as [_ [st1 [Hn1 Ht]]].
    destruct (IH _ _ _ _ _ _ _ _ H Hn1) as [st' [Hn' Hr]].
    exists st'. split; [exact Hn'|].
    rewrite adapt_view_cons. destruct (is_adaptation (e_type e)).
    + cbn [run_epochs]. rewrite Ht. exact Hr.
    + subst st1. exact Hr.
Qed.

Lemma adapt_view_app : forall a b, adapt_view (a ++ b) = adapt_view a ++ adapt_view b.
Proof. intros a b. unfold adapt_view. now rewrite filter_app, map_app. Qed.

Lemma adapt_view_no_slow : forall post,
  Forall (fun eh => e_type (fst eh) <> ESlow) post -> Forall no_retune (adapt_view post).
Proof.
  induction post as [|[e h] r IH]; intros H; [constructor|].
  inversion H as [|? ? He Hr]; subst. rewrite adapt_view_cons.
  destruct (is_adaptation (e_type e)); [|exact (IH Hr)].
  constructor; [|exact (IH Hr)]. left. cbn [fst]. cbn [fst] in He.
  destruct (e_type e); try reflexivity. congruence.
Qed.

(* after any schedule, the kernel's matrix is the one tuned from the chain of the last slow epoch -
   also when that epoch's config equals an earlier epoch's, and wherever the kernel sits in the sequence *)
Theorem engine_last_slow_epoch : forall sqrt_o o pre e h post ks store ks' store' i diag keys st,
  engine_run sqrt_o o ks store (pre ++ (e, h) :: post) = Some (ks', store') ->
  e_type e = ESlow ->
  Forall (fun eh => e_type (fst eh) <> ESlow) post ->
  nth_error ks i = Some (KMM diag keys, st) ->
  exists st', nth_error ks' i = Some (KMM diag keys, st') /\
    tune_mm o diag keys (restrict keys h) = Some (imm st').
Proof.
  intros sqrt_o o pre e h post ks store ks' store' i diag keys st H He Hp Hn.
  destruct (engine_run_kernel _ _ _ _ _ _ _ _ _ _ _ H Hn) as [st' [Hn' Hr]].
  exists st'. split; [exact Hn'|].
  rewrite adapt_view_app, adapt_view_cons, He in Hr. cbn [is_adaptation is_slow] in Hr.
  rewrite <- (own_keys_only_mm o diag keys h (restrict keys h) (agree_on_restrict keys h)).
  eapply last_slow_epoch; [exact Hr|]. apply adapt_view_no_slow. exact Hp.
Qed.

(* non-vacuity: a non-history kernel first and in the middle, two slow epochs with equal configs *)
Definition ex_kseq : list (kern * kstate) :=
  [(KOther, mkK 1 (Diag [])); (KMM true [("a"%string, 1%nat)], mkK 1 (Diag [1]));
   (KOther, mkK 1 (Diag [])); (KMM false [("z"%string, 1%nat)], mkK 1 (Dense [[1]]))].
Definition ex_h (x y : Q) : history := [("z"%string, [[0]; [x]]); ("a"%string, [[0]; [y]])].
Definition ex_sched : list (econf * history) :=
  [(mkE EFast 2 1, ex_h 1 1); (mkE ESlow 2 1, ex_h 2 4)] ++
  (mkE ESlow 2 1, ex_h 6 8) :: [(mkE EFast 2 1, ex_h 1 1); (mkE EPosterior 2 1, ex_h 1 1)].

Example ex_engine_last_slow_epoch : exists ks' store' st',
  engine_run (fun _ => 1) Sorted ex_kseq [] ex_sched = Some (ks', store') /\
  nth_error ks' 1 = Some (KMM true [("a"%string, 1%nat)], st') /\
  tune_mm Sorted true [("a"%string, 1%nat)] (restrict [("a"%string, 1%nat)] (ex_h 6 8)) = Some (imm st') /\
  imm st' = Diag [Qred (32 + reg)].
Proof.
  eexists. eexists. eexists.
  split; [vm_compute; reflexivity|]. split; [vm_compute; reflexivity|].
  split; vm_compute; reflexivity.
Qed.

(* ================================================================================================ *)
(* 12. the history is the recorded chain of the epoch - however the epoch entered the schedule       *)
(*     (given at construction or appended after sampling) and whatever its duration / thinning      *)
(* ================================================================================================ *)

(* driving the engine incrementally (append_epoch + sample_next_epoch after the constructed schedule
   has been sampled) is the same as having scheduled everything at once *)
Theorem engine_run_app : forall sqrt_o o eps1 eps2 ks store,
  engine_run sqrt_o o ks store (eps1 ++ eps2) =
  match engine_run sqrt_o o ks store eps1 with
  | Some (ks1, store1) => engine_run sqrt_o o ks1 store1 eps2
  | None => None
  end.
Proof.
  intros sqrt_o o. induction eps1 as [|[e h] r IH]; intros eps2 ks store; [reflexivity|].
  cbn [app engine_run]. destruct (engine_epoch sqrt_o o ks store e h) as [[ks' store']|]; [apply IH|reflexivity].
Qed.

(* a slow epoch appended after ANY already sampled schedule (e.g. one without a slow epoch) tunes
   kernel i on the chain recorded for the appended epoch *)
Theorem engine_appended_epoch : forall sqrt_o o eps1 e h ks store ks1 store1 ks' store' i diag keys st1,
  engine_run sqrt_o o ks store eps1 = Some (ks1, store1) ->
  engine_run sqrt_o o ks store (eps1 ++ [(e, h)]) = Some (ks', store') ->
  e_type e = ESlow ->
  nth_error ks1 i = Some (KMM diag keys, st1) ->
  exists st', nth_error ks' i = Some (KMM diag keys, st') /\
    tune sqrt_o o diag keys true st1 (Some (restrict keys h)) = Some st' /\
    tune_mm o diag keys (restrict keys h) = Some (imm st').
Proof.
  intros sqrt_o o eps1 e h ks store ks1 store1 ks' store' i diag keys st1 H1 H He Hn.
  rewrite engine_run_app, H1 in H. cbn [engine_run] in H.
  destruct (engine_epoch sqrt_o o ks1 store1 e h) as [[ks2 store2]|] eqn:Ee; [|discriminate].
  injection H as <- <-.
  eapply engine_slow_epoch_own_history; eassumption.
Qed.

(* duration and thinning of the epoch's config play no role: the history is the recorded chain [h]
   (for a thinned epoch: the thinned samples the engine stored) *)
Theorem engine_thinned_history : forall sqrt_o o ks store t d th d' th' h,
  option_map fst (engine_epoch sqrt_o o ks store (mkE t d th) h) =
  option_map fst (engine_epoch sqrt_o o ks store (mkE t d' th') h).
Proof.
  intros sqrt_o o ks store t d th d' th' h. unfold engine_epoch, tune_kernels. cbn [e_type].
  rewrite !current_chain_app.
  destruct (is_adaptation t); [|reflexivity].
  destruct (existsb _ ks);
    destruct (seq_tune sqrt_o o (is_slow t) _ ks); reflexivity.
Qed.

Example ex_engine_appended_thinned : exists ks1 store1 ks' store' st',
  engine_run (fun _ => 1) Sorted ex_kseq [] [(mkE EFast 2 1, ex_h 1 1)] = Some (ks1, store1) /\
  engine_run (fun _ => 1) Sorted ex_kseq [] ([(mkE EFast 2 1, ex_h 1 1)] ++ [(mkE ESlow 4 2, ex_h 6 8)]) = Some (ks', store') /\
  nth_error ks' 3 = Some (KMM false [("z"%string, 1%nat)], st') /\
  imm st' = Dense [[Qred (18 + reg)]].
Proof.
  eexists. eexists. eexists. eexists. eexists.
  split; [vm_compute; reflexivity|]. split; [vm_compute; reflexivity|].
  split; vm_compute; reflexivity.
Qed.
