(* C10 - model of the complete PRNG-key flow of liesel's EngineBuilder, Engine and KernelSequence,
   of EngineBuilder.set_initial_values (replicated / per-chain states) and of the jitter step.

   Written by hand from liesel/goose/builder.py, engine.py, kernel_sequence.py; tied to the code by
   the C10 correspondence check (harness/lv/c10.py).  No proofs here (KeysProofs.v).

   Keys are PATHS in a free splitting tree (DESIGN 4.3):
       jax.random.split(k, n)[i]   is   split k n i = k ++ [(n, i)].
   An [event] says what happens to a key: it is split ([ESplit k n] = jax.random.split(k, n)) or it is
   consumed ([EUse l k]: handed to the kernel method / quantity generator / jitter function named by
   the label l).  jit = identity, lax.scan = left fold, vmap = map over chains (DESIGN 4.4). *)
From Coq Require Import List ZArith Bool Arith Lia.
Import ListNotations.
From LV Require Import Goose.Epoch.
Close Scope Z_scope.
Open Scope nat_scope.

Definition key := list (nat * nat).
Definition split (k : key) (n i : nat) : key := k ++ [(n, i)].

(* who consumes a key *)
Inductive meth := MJitter | MInit | MStart | MTrans | MEnd | MTune | MEndWarmup | MQuant.
(* l_idx = index of the kernel / quantity generator / jitter function; l_epoch = nth_epoch;
   l_time = time_in_epoch the callee sees (0 where it sees no epoch) *)
Record label := mkL { l_chain : nat; l_meth : meth; l_idx : nat; l_epoch : nat; l_time : nat }.

Inductive event := ESplit (k : key) (n : nat) | EUse (l : label) (k : key).
Definition ekey (e : event) : key := match e with ESplit k _ => k | EUse _ k => k end.
Definition uses (evs : list event) : list (label * key) :=
  flat_map (fun e => match e with EUse l k => [(l, k)] | ESplit _ _ => [] end) evs.
Definition splits (evs : list event) : list (key * nat) :=
  flat_map (fun e => match e with ESplit k n => [(k, n)] | EUse _ _ => [] end) evs.

(* ------------------------------------------------------------------------------------------ *)
(* EngineBuilder.__init__ : the seed                                                           *)
(* ------------------------------------------------------------------------------------------ *)
Inductive seed := IntSeed (z : Z) | KeySeed (k : key).

Section Seed.
  (* jax.random.PRNGKey, an oracle (no hypothesis is needed about it) *)
  Variable prngkey : Z -> key.
  (* if isinstance(seed, int): split(PRNGKey(seed), 3)  elif isinstance(seed, jax.Array): split(seed, 3) *)
  Definition seed_root (s : seed) : key :=
    match s with IntSeed z => prngkey z | KeySeed k => k end.
End Seed.

(* keys = jax.random.split(root, 3); _prng_key, _engine_key, _jitter_key = keys[0], keys[1], keys[2] *)
Definition b_prng (root : key) : key := split root 3 0.      (* never used afterwards *)
Definition b_engine (root : key) : key := split root 3 1.
Definition b_jitter (root : key) : key := split root 3 2.

(* build(): seeds = jax.random.split(self._engine_key, self._num_chains)  (engine key of shape (2,)) *)
Definition chain_key (root : key) (nch c : nat) : key := split (b_engine root) nch c.
(* build(): jitter_keys = split(self._jitter_key, len(jitter_fns));
            vmap(jitter_fns[pos_key])(split(jitter_keys[i], num_chains), current_position[pos_key]) *)
Definition jitter_fn_key (root : key) (nfn f : nat) : key := split (b_jitter root) nfn f.
Definition jitter_key (root : key) (nfn nch f c : nat) : key := split (jitter_fn_key root nfn f) nch c.

(* jit = None: set_jitter_fns was not called (no split of the jitter key at all);
   jit = Some nfn: a dict with nfn jitter functions, in dict order *)
Definition jitter_events (root : key) (nch : nat) (jit : option nat) : list event :=
  match jit with
  | None => []
  | Some nfn =>
      ESplit (b_jitter root) nfn ::
      flat_map (fun f => ESplit (jitter_fn_key root nfn f) nch ::
                         map (fun c => EUse (mkL c MJitter f 0 0) (jitter_key root nfn nch f c)) (seq 0 nch))
               (seq 0 nfn)
  end.
Definition builder_events (root : key) (nch : nat) (jit : option nat) : list event :=
  ESplit root 3 :: ESplit (b_engine root) nch :: jitter_events root nch jit.

(* ------------------------------------------------------------------------------------------ *)
(* Engine: one chain (everything below runs under vmap over axis 0 = map over chains)           *)
(* ------------------------------------------------------------------------------------------ *)
Record params := mkP { nker : nat;      (* number of kernels in the KernelSequence *)
                       nqg : nat;       (* number of quantity generators *)
                       chunk : nat }.   (* jitted_sample_duration *)

(* KernelSequence.<method>(prng_key, ...): keys = split(prng_key, len(kernels)); kernel i gets keys[i] *)
Definition kseq_events (c : nat) (m : meth) (e t nk : nat) (k : key) : list event :=
  ESplit k nk :: map (fun i => EUse (mkL c m i e t) (split k nk i)) (seq 0 nk).

(* Engine._split_prng_key(n): keys = split(self._prng_key, n + 1); self._prng_key = keys[0];
   return keys[1:]          (first component: the keys handed out, second: the new carry) *)
Definition take (k : key) (n : nat) : list key * key :=
  (map (fun i => split k (S n) i) (seq 1 n), split k (S n) 0).

(* keys = self._split_prng_key_one(); vmap(self._kernel_sequence.<method>)(keys, ...) *)
Definition one_call (p : params) (c : nat) (m : meth) (e t : nat) (k : key) : list event * key :=
  (ESplit k 2 :: kseq_events c m e t (nker p) (split k 2 1), split k 2 0).

(* scan_f(carry, key):  key_trans, key_quants = jax.random.split(key);
   kernel_sequence.transition(key_trans, ...) with epoch.time_in_epoch = t;  epoch.advance_time(1);
   if quantity generators: keys = split(key_quants, len(qgs)); qg_i.generate(keys[i], ..., epoch) *)
Definition iter_trans_events (p : params) (c e t : nat) (k : key) : list event :=
  kseq_events c MTrans e t (nker p) (split k 2 0).
Definition iter_quant_events (p : params) (c e t : nat) (k : key) : list event :=
  if nqg p =? 0 then []
  else ESplit (split k 2 1) (nqg p)
       :: map (fun g => EUse (mkL c MQuant g e (S t)) (split (split k 2 1) (nqg p) g)) (seq 0 (nqg p)).
Definition iter_events (p : params) (c e t : nat) (k : key) : list event :=
  ESplit k 2 :: iter_trans_events p c e t k ++ iter_quant_events p c e t k.

(* one pass of the loop in _sample_for_duration: keys = self._split_prng_key(chunk);
   _sample_many: lax.scan(scan_f, carry, keys);  chunk number j of the epoch starts at
   time_in_epoch = j * chunk *)
Definition chunk_events (p : params) (c e j : nat) (k : key) : list event * key :=
  (ESplit k (S (chunk p))
   :: flat_map (fun it => iter_events p c e (j * chunk p + it) (split k (S (chunk p)) (S it)))
               (seq 0 (chunk p)),
   split k (S (chunk p)) 0).

(* _generate_quantity() in the initial epoch: for qg in generators: key = self._split_prng_key_one();
   vmap(qg.generate)(key, ...)   -- the epoch's time_in_epoch has been advanced to 1 *)
Fixpoint init_quant_events (c e : nat) (gs : list nat) (k : key) : list event * key :=
  match gs with
  | [] => ([], k)
  | g :: r => let (ev, k') := init_quant_events c e r (split k 2 0) in
              (ESplit k 2 :: EUse (mkL c MQuant g e 1) (split k 2 1) :: ev, k')
  end.

(* the operations of the engine that touch keys (Python-level control flow; identical for all chains) *)
Inductive op :=
  | OInit                      (* Engine.__init__: kernel_sequence.init_states *)
  | OInitialEpoch (e : nat)    (* _handle_inital_values_epoch *)
  | OEndWarmup (e : nat)       (* _end_warmup, called from _start_epoch of epoch e *)
  | OStart (e : nat)           (* _kernel_start_epoch *)
  | OChunk (e j : nat)         (* j-th pass of the loop in _sample_for_duration *)
  | OEnd (e d : nat)           (* _end_epoch (time_in_epoch = duration d) *)
  | OTune (e d : nat).         (* _tune_kernels *)

Definition op_events (p : params) (c : nat) (o : op) (k : key) : list event * key :=
  match o with
  | OInit => one_call p c MInit 0 0 k
  | OInitialEpoch e => init_quant_events c e (seq 0 (nqg p)) k
  | OEndWarmup e => one_call p c MEndWarmup e 0 k
  | OStart e => one_call p c MStart e 0 k
  | OChunk e j => chunk_events p c e j k
  | OEnd e d => one_call p c MEnd e d k
  | OTune e d => one_call p c MTune e d k
  end.

(* sample_next_epoch for epoch number e with config ec; warm = self._warmup_has_ended.
   None = RuntimeError of _sample_for_duration (duration not a multiple of the jitted duration) or the
   ZeroDivisionError of `duration % 0` *)
Definition epoch_ops (p : params) (e : nat) (warm : bool) (ec : econf) : option (list op * bool) :=
  if is_init (ety_ ec) then Some ([OInitialEpoch e], warm)
  else
    let d := Z.to_nat (dur ec) in
    let ew := negb warm && is_post (ety_ ec) in
    if (chunk p =? 0) || negb (d mod chunk p =? 0) then None
    else Some ((if ew then [OEndWarmup e] else [])
               ++ OStart e :: map (OChunk e) (seq 0 (d / chunk p))
               ++ OEnd e d :: (if is_adapt (ety_ ec) then [OTune e d] else []),
               warm || ew).

(* sample_all_epochs *)
Fixpoint program_from (p : params) (e : nat) (warm : bool) (l : list econf) : option (list op) :=
  match l with
  | [] => Some []
  | ec :: r =>
      match epoch_ops p e warm ec with
      | None => None
      | Some (ops, warm') =>
          match program_from p (S e) warm' r with
          | None => None
          | Some rest => Some (ops ++ rest)
          end
      end
  end.
(* Engine(...) followed by sample_all_epochs() *)
Definition program (p : params) (sched : list econf) : option (list op) :=
  match program_from p 0 false sched with Some l => Some (OInit :: l) | None => None end.

(* the carry key self._prng_key[c] threaded through the operations *)
Fixpoint ops_events (p : params) (c : nat) (ops : list op) (k : key) : list event * key :=
  match ops with
  | [] => ([], k)
  | o :: r => let (e1, k1) := op_events p c o k in
              let (e2, k2) := ops_events p c r k1 in (e1 ++ e2, k2)
  end.
Definition chain_events (p : params) (c : nat) (prog : list op) (k0 : key) : list event :=
  fst (ops_events p c prog k0).

(* every key event of a complete run: builder, then the engine in every chain *)
Definition run_events (root : key) (nch : nat) (jit : option nat) (p : params) (sched : list econf)
  : option (list event) :=
  match program p sched with
  | None => None
  | Some prog =>
      Some (builder_events root nch jit
            ++ flat_map (fun c => chain_events p c prog (chain_key root nch c)) (seq 0 nch))
  end.
Definition run_calls root nch jit p sched : option (list (label * key)) :=
  match run_events root nch jit p sched with Some evs => Some (uses evs) | None => None end.

(* ------------------------------------------------------------------------------------------ *)
(* The engine with states: kernels, quantity generators, model interface and jitter functions   *)
(* are arbitrary functions (Section variables without hypotheses)                               *)
(* ------------------------------------------------------------------------------------------ *)
Fixpoint map_at {A} (i : nat) (f : A -> A) (l : list A) : list A :=
  match l, i with
  | [], _ => []
  | x :: r, O => f x :: r
  | x :: r, S i' => x :: map_at i' f r
  end.

Inductive init_arg (mstate : Type) := Replicate (s : mstate) | PerChain (l : list mstate).
Arguments Replicate {mstate}. Arguments PerChain {mstate}.
(* the code as found (defect F2) and the repaired set_initial_values *)
Inductive siv_variant := SivAsFound | SivRepaired.

Section Machine.
  Variables mstate kstate pos info tinfo quant : Type.
  Variable extract : mstate -> pos.                       (* model.extract_position(position_keys, .) *)
  (* model.update_state({pos_key_f: jitter_fns[f](key_f, current_position[pos_key_f])}, state) *)
  Variable jitter_apply : list key -> mstate -> mstate.
  Variable k_init : nat -> key -> mstate -> kstate.
  Variable k_start : nat -> key -> kstate -> mstate -> nat -> nat -> kstate.
  Variable k_trans : nat -> key -> kstate -> mstate -> nat -> nat -> kstate * mstate * info.
  Variable k_end : nat -> key -> kstate -> mstate -> nat -> nat -> kstate.
  Variable k_tune : nat -> key -> kstate -> mstate -> nat -> nat -> option (list pos) -> kstate * tinfo.
  Variable k_endwarmup : nat -> key -> kstate -> mstate -> list (nat * tinfo) -> kstate.
  Variable q_gen : nat -> key -> mstate -> nat -> nat -> quant.
  Variable p : params.
  Variable sched : list econf.
  Variable needs_hist : bool.            (* any(ker.needs_history) *)

  Record mach := mkMach {
    m_ks : list kstate;                          (* self._kernel_states[c] *)
    m_ms : mstate;                               (* self._model_states[c] *)
    m_traj : list (nat * nat * pos);             (* (epoch, time_in_epoch after the step, position) *)
    m_infos : list (nat * nat * nat * info);     (* (kernel, epoch, time_in_epoch, transition info) *)
    m_tinfos : list (nat * tinfo);               (* tuning infos (kernel, info) *)
    m_quants : list (nat * nat * nat * quant) }. (* (generator, epoch, time_in_epoch, quantity) *)

  Definition thin_of (e : nat) : nat :=
    match nth_error sched e with Some ec => Z.to_nat (thin ec) | None => 1 end.
  (* ListEpochChain.append keeps the t-th state of the epoch (1-based) iff t mod thinning = 0 *)
  Definition kept (x : nat * nat * pos) : bool :=
    let '(e, t, _) := x in t mod thin_of e =? 0.
  Definition stored_traj (m : mach) : list (nat * nat * pos) := filter kept (m_traj m).
  Definition history (e : nat) (m : mach) : list pos :=
    map snd (filter (fun x => fst (fst x) =? e) (stored_traj m)).

  Definition record (e t : nat) (m : mach) : mach :=
    mkMach (m_ks m) (m_ms m) (m_traj m ++ [(e, t, extract (m_ms m))]) (m_infos m) (m_tinfos m) (m_quants m).

  Definition apply_use (l : label) (k : key) (m : mach) : mach :=
    let i := l_idx l in let e := l_epoch l in let t := l_time l in
    match l_meth l with
    | MJitter => m
    | MInit => mkMach (m_ks m ++ [k_init i k (m_ms m)]) (m_ms m) (m_traj m) (m_infos m) (m_tinfos m) (m_quants m)
    | MStart => mkMach (map_at i (fun s => k_start i k s (m_ms m) e t) (m_ks m))
                       (m_ms m) (m_traj m) (m_infos m) (m_tinfos m) (m_quants m)
    | MEnd => mkMach (map_at i (fun s => k_end i k s (m_ms m) e t) (m_ks m))
                     (m_ms m) (m_traj m) (m_infos m) (m_tinfos m) (m_quants m)
    | MEndWarmup => mkMach (map_at i (fun s => k_endwarmup i k s (m_ms m) (m_tinfos m)) (m_ks m))
                           (m_ms m) (m_traj m) (m_infos m) (m_tinfos m) (m_quants m)
    | MTrans =>
        match nth_error (m_ks m) i with
        | None => m
        | Some s => let '(s', ms', inf) := k_trans i k s (m_ms m) e t in
                    mkMach (map_at i (fun _ => s') (m_ks m)) ms' (m_traj m)
                           (m_infos m ++ [(i, e, t, inf)]) (m_tinfos m) (m_quants m)
        end
    | MTune =>
        match nth_error (m_ks m) i with
        | None => m
        | Some s => let '(s', ti) := k_tune i k s (m_ms m) e t
                                        (if needs_hist then Some (history e m) else None) in
                    mkMach (map_at i (fun _ => s') (m_ks m)) (m_ms m) (m_traj m)
                           (m_infos m) (m_tinfos m ++ [(i, ti)]) (m_quants m)
        end
    | MQuant => mkMach (m_ks m) (m_ms m) (m_traj m) (m_infos m) (m_tinfos m)
                       (m_quants m ++ [(i, e, t, q_gen i k (m_ms m) e t)])
    end.

  Definition apply_events (evs : list event) (m : mach) : mach :=
    fold_left (fun m e => match e with EUse l k => apply_use l k m | ESplit _ _ => m end) evs m.

  (* scan_f: all kernels, then the position is extracted, then the quantities *)
  Definition exec_iter (c e t : nat) (k : key) (m : mach) : mach :=
    apply_events (iter_quant_events p c e t k)
                 (record e (S t) (apply_events (iter_trans_events p c e t k) m)).

  Record chain_st := mkC { cid : nat; carry : key; mach_ : mach; trace : list event }.

  Definition exec_op (o : op) (s : chain_st) : chain_st :=
    let c := cid s in
    let evs := fst (op_events p c o (carry s)) in
    let m' :=
      match o with
      | OInitialEpoch e => apply_events evs (record e 1 (mach_ s))
      | OChunk e j =>
          fold_left (fun m it => exec_iter c e (j * chunk p + it) (split (carry s) (S (chunk p)) (S it)) m)
                    (seq 0 (chunk p)) (mach_ s)
      | _ => apply_events evs (mach_ s)
      end in
    mkC c (snd (op_events p c o (carry s))) m' (trace s ++ evs).

  (* EngineBuilder.set_initial_values(model_state, multiple_chains) *)
  Definition set_initial_values (v : siv_variant) (nch : nat) (a : init_arg mstate) : option (list mstate) :=
    match a with
    | Replicate s => Some (repeat s nch)        (* stack_leaves(model_state for _ in range(num_chains)) *)
    | PerChain l => match v with
                    | SivRepaired => Some l     (* model_states = model_state *)
                    | SivAsFound => None        (* UnboundLocalError: model_states *)
                    end
    end.
  Definition init_of (nch : nat) (a : init_arg mstate) (c : nat) : option mstate :=
    match a with
    | Replicate s => if c <? nch then Some s else None
    | PerChain l => nth_error l c
    end.

  (* build(): the jitter step for chain c *)
  Definition jitter_chain (root : key) (nch : nat) (jit : option nat) (c : nat) (ms : mstate) : mstate :=
    match jit with
    | None => ms
    | Some nfn => jitter_apply (map (fun f => jitter_key root nfn nch f c) (seq 0 nfn)) ms
    end.
  Definition init_chain (root : key) (nch : nat) (jit : option nat) (c : nat) (ms : mstate) : chain_st :=
    mkC c (chain_key root nch c) (mkMach [] (jitter_chain root nch jit c ms) [] [] [] []) [].

  (* the engine as written: one batched state, every operation vmapped over the chains.
     None = an exception (set_initial_values raising, axis sizes that do not match, _sample_for_duration) *)
  Definition run_batched (v : siv_variant) (root : key) (nch : nat) (jit : option nat) (a : init_arg mstate)
    : option (list chain_st) :=
    match set_initial_values v nch a with
    | None => None
    | Some states =>
        if negb (length states =? nch) then None
        else match program p sched with
             | None => None
             | Some prog =>
                 Some (fold_left (fun b o => map (exec_op o) b) prog
                         (map (fun cs => init_chain root nch jit (fst cs) (snd cs)) (combine (seq 0 nch) states)))
             end
    end.

  (* one chain on its own: a function of (root, nch, jit, c, initial state of chain c) *)
  Definition run_single (root : key) (nch : nat) (jit : option nat) (c : nat) (ms : mstate) : option chain_st :=
    match program p sched with
    | None => None
    | Some prog => Some (fold_left (fun s o => exec_op o s) prog (init_chain root nch jit c ms))
    end.

  Definition stored (s : chain_st) : list (nat * nat * pos) := stored_traj (mach_ s).
End Machine.

(* ------------------------------------------------------------------------------------------ *)
(* codes used by the correspondence shards: a path as one number (two base-256 digits per edge) *)
(* ------------------------------------------------------------------------------------------ *)
Definition encode (k : key) : N :=
  fold_left (fun acc ni => (acc * 65536 + N.of_nat (fst ni) * 256 + N.of_nat (snd ni))%N) k 1%N.
Definition bounded (k : key) : bool := forallb (fun ni => (fst ni <? 256) && (snd ni <? 256)) k.

(* ------------------------------------------------------------------------------------------ *)
(* one record for model interface + kernels + quantity generators + jitter functions + engine    *)
(* configuration, so that   the property theorems can quantify over all of them at once          *)
(* ------------------------------------------------------------------------------------------ *)
Record world := mkW {
  w_mstate : Type; w_kstate : Type; w_pos : Type; w_info : Type; w_tinfo : Type; w_quant : Type;
  w_extract : w_mstate -> w_pos;
  w_jitter_apply : list key -> w_mstate -> w_mstate;
  w_k_init : nat -> key -> w_mstate -> w_kstate;
  w_k_start : nat -> key -> w_kstate -> w_mstate -> nat -> nat -> w_kstate;
  w_k_trans : nat -> key -> w_kstate -> w_mstate -> nat -> nat -> w_kstate * w_mstate * w_info;
  w_k_end : nat -> key -> w_kstate -> w_mstate -> nat -> nat -> w_kstate;
  w_k_tune : nat -> key -> w_kstate -> w_mstate -> nat -> nat -> option (list w_pos) -> w_kstate * w_tinfo;
  w_k_endwarmup : nat -> key -> w_kstate -> w_mstate -> list (nat * w_tinfo) -> w_kstate;
  w_q_gen : nat -> key -> w_mstate -> nat -> nat -> w_quant;
  w_p : params;
  w_sched : list econf;
  w_needs_hist : bool }.

Definition W_chain (w : world) : Type :=
  chain_st (w_mstate w) (w_kstate w) (w_pos w) (w_info w) (w_tinfo w) (w_quant w).
Definition W_run_batched (w : world) (v : siv_variant) (root : key) (nch : nat) (jit : option nat)
  (a : init_arg (w_mstate w)) : option (list (W_chain w)) :=
  run_batched _ _ _ _ _ _ (w_extract w) (w_jitter_apply w) (w_k_init w) (w_k_start w) (w_k_trans w)
    (w_k_end w) (w_k_tune w) (w_k_endwarmup w) (w_q_gen w) (w_p w) (w_sched w) (w_needs_hist w) v root nch jit a.
Definition W_run_single (w : world) (root : key) (nch : nat) (jit : option nat) (c : nat) (ms : w_mstate w)
  : option (W_chain w) :=
  run_single _ _ _ _ _ _ (w_extract w) (w_jitter_apply w) (w_k_init w) (w_k_start w) (w_k_trans w)
    (w_k_end w) (w_k_tune w) (w_k_endwarmup w) (w_q_gen w) (w_p w) (w_sched w) (w_needs_hist w) root nch jit c ms.
(* what the engine stored for the chain: (epoch, time_in_epoch, position), thinned *)
Definition W_stored (w : world) (s : W_chain w) : list (nat * nat * w_pos w) :=
  stored _ _ _ _ _ _ (w_sched w) s.
(* the keys the chain's calls received, in order *)
Definition W_trace (w : world) (s : W_chain w) : list event := trace _ _ _ _ _ _ s.
Definition W_init_of (w : world) (nch : nat) (a : init_arg (w_mstate w)) (c : nat) : option (w_mstate w) :=
  init_of _ nch a c.
(* jitter_c (init_c): the initial state of chain c after the configured jitter *)
Definition W_jittered (w : world) (root : key) (nch : nat) (jit : option nat) (c : nat) (ms : w_mstate w)
  : w_mstate w := jitter_chain _ (w_jitter_apply w) root nch jit c ms.
