(* Proofs about Goose/StopperPos.v: the position returned by optim_flat, parameter NAME by name. *)
From Coq Require Import List ZArith QArith Bool Arith Lia String Permutation.
Import ListNotations.
Close Scope Q_scope.
Close Scope string_scope.
Open Scope nat_scope.
From LV Require Import Goose.Stopper Goose.StopperProofs Goose.StopperPos.

(* ---- dicts ---- *)
Lemma keys_insert {A} (kv : name * A) d k :
  In k (map fst (insert_key kv d)) <-> k = fst kv \/ In k (map fst d).
Proof.
  induction d as [|kv' d IH]; cbn [insert_key map In].
  - intuition.
  - destruct (String.leb (fst kv) (fst kv')); cbn [map In]; [intuition|].
    rewrite IH. intuition.
Qed.

Lemma lookup_insert {A} (kv : name * A) d n :
  ~ In (fst kv) (map fst d) ->
  lookup n (insert_key kv d) = if String.eqb n (fst kv) then Some (snd kv) else lookup n d.
Proof.
  induction d as [|kv' d IH]; intros Hnin; cbn [insert_key lookup].
  - reflexivity.
  - destruct (String.leb (fst kv) (fst kv')); cbn [lookup]; [reflexivity|].
    cbn [map In] in Hnin. rewrite IH by tauto.
    destruct (String.eqb_spec n (fst kv')) as [E1|N1]; [|reflexivity].
    destruct (String.eqb_spec n (fst kv)) as [E2|N2]; [|reflexivity].
    exfalso. apply Hnin. left. congruence.
Qed.

Lemma keys_pytree_map {A} (f : name -> A) params k :
  In k (map fst (pytree (map (fun n => (n, f n)) params))) <-> In k params.
Proof.
  induction params as [|x l IH]; cbn [map pytree fold_right In]; [tauto|].
  fold (pytree (map (fun n => (n, f n)) l)). rewrite keys_insert. cbn [fst]. rewrite IH.
  intuition.
Qed.

Lemma lookup_pytree_in {A} (f : name -> A) params n :
  NoDup params -> In n params -> lookup n (pytree (map (fun m => (m, f m)) params)) = Some (f n).
Proof.
  induction params as [|x l IH]; intros Hnd Hin; [contradiction|].
  inversion Hnd as [|? ? Hx Hl]; subst.
  cbn [map pytree fold_right]. fold (pytree (map (fun m => (m, f m)) l)).
  rewrite lookup_insert by (cbn [fst]; rewrite keys_pytree_map; exact Hx).
  cbn [fst snd]. destruct (String.eqb_spec n x) as [->|Hne]; [reflexivity|].
  apply IH; [exact Hl|]. destruct Hin; [congruence|assumption].
Qed.

Lemma lookup_pytree_notin {A} (f : name -> A) params n :
  NoDup params -> ~ In n params -> lookup n (pytree (map (fun m => (m, f m)) params)) = None.
Proof.
  induction params as [|x l IH]; intros Hnd Hin; [reflexivity|].
  inversion Hnd as [|? ? Hx Hl]; subst.
  cbn [map pytree fold_right]. fold (pytree (map (fun m => (m, f m)) l)).
  rewrite lookup_insert by (cbn [fst]; rewrite keys_pytree_map; exact Hx).
  cbn [fst snd]. destruct (String.eqb_spec n x) as [->|Hne].
  - exfalso. apply Hin. left. reflexivity.
  - apply IH; [exact Hl|]. intros H. apply Hin. right. exact H.
Qed.

Lemma lookup_map_values {A B} (g : A -> B) (d : dict A) n :
  lookup n (map (fun kv => (fst kv, g (snd kv))) d) = option_map g (lookup n d).
Proof.
  induction d as [|kv d IH]; cbn [map lookup fst snd]; [reflexivity|].
  destruct (String.eqb n (fst kv)); [reflexivity|exact IH].
Qed.

(* the pytree round trip keeps the entries (it only reorders them) *)
Lemma insert_key_perm {A} (kv : name * A) d : Permutation (insert_key kv d) (kv :: d).
Proof.
  induction d as [|kv' d IH]; cbn [insert_key]; [apply Permutation_refl|].
  destruct (String.leb (fst kv) (fst kv')); [apply Permutation_refl|].
  eapply Permutation_trans; [apply perm_skip; exact IH|apply perm_swap].
Qed.
Lemma pytree_perm {A} (d : dict A) : Permutation (pytree d) d.
Proof.
  induction d as [|kv d IH]; cbn [pytree fold_right]; [apply Permutation_refl|].
  fold (pytree d). eapply Permutation_trans; [apply insert_key_perm|apply perm_skip; exact IH].
Qed.

Lemma nodupb_NoDup l : NoDup l -> nodupb l = true.
Proof.
  induction 1 as [|x l Hx Hl IH]; cbn [nodupb]; [reflexivity|].
  rewrite IH, andb_true_r. apply negb_true_iff. apply not_true_iff_false. intros H.
  apply existsb_exists in H. destruct H as [y [Hy E]].
  apply String.eqb_eq in E. subst. contradiction.
Qed.

(* ---- position history column ---- *)
Lemma nth_upd_same {A} (l : list A) k a d : (k < List.length l)%nat -> nth k (upd l k a) d = a.
Proof.
  revert k; induction l as [|x l IH]; intros [|k] H; cbn in *; try lia; [reflexivity|].
  apply IH. lia.
Qed.
Lemma nth_upd_other {A} (l : list A) k k' a d : k <> k' -> nth k' (upd l k a) d = nth k' l d.
Proof.
  revert k k'; induction l as [|x l IH]; intros [|k] [|k'] H; cbn; try reflexivity; try lia.
  apply IH. lia.
Qed.

Lemma col_at_length mi r k : List.length (col_at mi r k) = mi.
Proof.
  induction k as [|k IH]; cbn [col_at]; rewrite upd_length; [apply repeat_length|exact IH].
Qed.

Lemma col_at_nth mi r j : forall k d, (k <= j)%nat -> (j < mi)%nat -> nth k (col_at mi r j) d = r k.
Proof.
  induction j as [|j IH]; intros k d Hk Hj; cbn [col_at].
  - assert (k = 0) by lia. subst. apply nth_upd_same. rewrite repeat_length. lia.
  - destruct (Nat.eq_dec k (S j)) as [->|Hne].
    + apply nth_upd_same. rewrite col_at_length. lia.
    + rewrite nth_upd_other by lia. apply IH; lia.
Qed.

Lemma index_z_nat {A} (l : list A) b d : (b < List.length l)%nat -> index_z l (Z.of_nat b) d = nth b l d.
Proof.
  intros H. unfold index_z.
  destruct (Z.of_nat b <? 0)%Z eqn:E; [apply Z.ltb_lt in E; lia|].
  f_equal. lia.
Qed.

Theorem history_shape_g {A} prune (h : list A) i d : (i < List.length h)%nat ->
  let r := post_history_g prune h i in
  (List.length r = if prune then S i else List.length h)
  /\ (forall k, (k <= i)%nat -> nth k r None = Some (nth k h d))
  /\ (forall k, (i < k < List.length r)%nat -> nth k r None = None).
Proof.
  intros Hi. cbv zeta. unfold post_history_g, nan_pad_g.
  assert (Hl : List.length (map Some (firstn (S i) h)) = S i).
  { rewrite map_length, firstn_length. lia. }
  assert (Hn : forall k, (k <= i)%nat ->
            nth k (map Some (firstn (S i) h) ++ repeat None (List.length h - S i)) None = Some (nth k h d)).
  { intros k Hk. rewrite app_nth1 by lia.
    rewrite (nth_indep _ None (Some d)) by lia. rewrite map_nth. f_equal.
    apply nth_firstn_lt. lia. }
  destruct prune.
  - rewrite firstn_app, Hl, Nat.sub_diag. rewrite firstn_O, app_nil_r.
    rewrite firstn_all2 by (rewrite Hl; lia). split; [exact Hl|]. split.
    + intros k Hk. specialize (Hn k Hk). rewrite app_nth1 in Hn by lia. exact Hn.
    + intros k Hk. lia.
  - split; [rewrite app_length, Hl, repeat_length; lia|]. split; [exact Hn|].
    intros k Hk. rewrite app_length, Hl, repeat_length in Hk.
    rewrite app_nth2 by lia. apply nth_repeat.
Qed.

(* ---- the returned position, name by name ---- *)
Theorem position_by_name s hv restore save prune params loss rec :
  (1 <= patience s)%nat -> (patience s <= max_iter s)%nat ->
  NoDup params -> (restore = true -> save = true) ->
  exists (j b : nat) (o : full_out),
    optim_flat_model s hv restore loss
      = Some (mkOut j (Z.of_nat b) (if restore then Z.of_nat b else Z.of_nat j) (hist_at s loss j))
    /\ optim_flat_full s hv restore save prune params loss rec = Ok o
    /\ f_iter o = j /\ f_best o = Z.of_nat b
    /\ (j < max_iter s)%nat /\ (j + 1 - patience s <= b <= j)%nat
    /\ (forall n, In n params ->
          lookup n (f_position o) = Some (rec (if restore then b else j) n))
    /\ (forall n, ~ In n params -> lookup n (f_position o) = None)
    /\ (save = false -> f_poshist o = None)
    /\ (save = true -> exists ph, f_poshist o = Some ph
          /\ (forall n, ~ In n params -> lookup n ph = None)
          /\ forall n, In n params -> exists col, lookup n ph = Some col
               /\ List.length col = (if prune then S j else max_iter s)
               /\ (forall k, (k <= j)%nat -> nth k col None = Some (rec k n))
               /\ (forall k, (j < k < List.length col)%nat -> nth k col None = None))
    /\ f_losshist o = post_history prune (hist_at s loss j) j.
Proof.
  intros Hp1 Hp2 Hnd Hrs.
  destruct (optim_flat_spec s hv restore loss Hp1 Hp2) as [j [b [Hm [Hj [_ [_ [Hb _]]]]]]].
  exists j, b. unfold optim_flat_full.
  assert (E1 : restore && negb save = false).
  { destruct restore; [rewrite Hrs by reflexivity|]; reflexivity. }
  rewrite E1, (nodupb_NoDup params Hnd). cbn [negb]. rewrite Hm. cbn [out_iter out_best out_hist].
  eexists. split; [reflexivity|]. split; [reflexivity|]. cbn [f_iter f_best f_position f_poshist f_losshist].
  split; [reflexivity|]. split; [reflexivity|]. split; [exact Hj|]. split; [exact Hb|].
  split; [|split; [|split; [|split; [|reflexivity]]]].
  - intros n Hin. destruct restore.
    + unfold restore_by_items.
      rewrite (@lookup_map_values (list value) value (fun c => index_z c (Z.of_nat b) [])).
      rewrite (lookup_pytree_in (fun n => col_at (max_iter s) (fun k => rec k n) j)) by assumption.
      cbn [option_map]. f_equal. rewrite index_z_nat by (rewrite col_at_length; lia).
      apply col_at_nth; lia.
    + apply (lookup_pytree_in (fun n => rec j n)); assumption.
  - intros n Hin. destruct restore.
    + unfold restore_by_items.
      rewrite (@lookup_map_values (list value) value (fun c => index_z c (Z.of_nat b) [])).
      rewrite (lookup_pytree_notin (fun n => col_at (max_iter s) (fun k => rec k n) j)) by assumption.
      reflexivity.
    + apply (lookup_pytree_notin (fun n => rec j n)); assumption.
  - intros ->. reflexivity.
  - intros ->. eexists. split; [reflexivity|]. split.
    + intros n Hin. rewrite (lookup_map_values (fun c => post_history_g prune c j)).
      rewrite (lookup_pytree_notin (fun n => col_at (max_iter s) (fun k => rec k n) j)) by assumption.
      reflexivity.
    + intros n Hin. rewrite (lookup_map_values (fun c => post_history_g prune c j)).
      rewrite (lookup_pytree_in (fun n => col_at (max_iter s) (fun k => rec k n) j)) by assumption.
      cbn [option_map]. eexists. split; [reflexivity|].
      pose proof (history_shape_g prune (col_at (max_iter s) (fun k => rec k n) j) j []) as H.
      rewrite col_at_length in H. specialize (H Hj). cbv zeta in H.
      destruct H as [H1 [H2 H3]]. split; [exact H1|]. split; [|exact H3].
      intros k Hk. rewrite (H2 k Hk). f_equal. apply col_at_nth; lia.
Qed.

Theorem restore_needs_history s hv prune params loss rec :
  optim_flat_full s hv true false prune params loss rec = Err AssertRestoreNeedsHistory.
Proof. reflexivity. Qed.

(* ---- pairing the caller's order of names with the sorted history columns is wrong ---- *)
Open Scope string_scope.
Definition ex_params : list name := ["slope"; "intercept"].
Definition ex_rec (k : nat) (n : name) : value :=
  if String.eqb n "slope" then [inject_Z (Z.of_nat k) + 10]%Q else [inject_Z (Z.of_nat k) + 20]%Q.
Definition ex_hist := pytree (map (fun n => (n, col_at 4 (fun k => ex_rec k n) 3)) ex_params).

Theorem restore_by_zip_refuted :
  NoDup ex_params
  /\ map fst ex_hist = ["intercept"; "slope"]
  /\ lookup "slope" (restore_by_zip ex_params ex_hist 2) = Some (ex_rec 2 "intercept")
  /\ lookup "slope" (restore_by_items ex_hist 2) = Some (ex_rec 2 "slope")
  /\ ex_rec 2 "intercept" <> ex_rec 2 "slope".
Proof.
  split.
  { repeat constructor; cbn; intuition discriminate. }
  split; [vm_compute; reflexivity|]. split; [vm_compute; reflexivity|].
  split; [vm_compute; reflexivity|]. vm_compute. discriminate.
Qed.

(* non-vacuity of position_by_name: three names in non-alphabetical order, different shapes, early stop *)
Definition ex3_params : list name := ["w"; "b"; "m"].
Definition ex3_rec (k : nat) (n : name) : value :=
  if String.eqb n "w" then [inject_Z (Z.of_nat k); 7]%Q
  else if String.eqb n "b" then [inject_Z (Z.of_nat k) + 100]%Q else [].
Definition ex3_loss (k : nat) : Q := nth k [9; 5; 3; 4; 6; 7; 8; 8]%Q 0%Q.
Example position_by_name_example :
  exists o, optim_flat_full (mkStopper 8 2 0 0) true true true true ex3_params ex3_loss ex3_rec = Ok o
    /\ f_iter o = 3 /\ f_best o = 2%Z
    /\ lookup "w" (f_position o) = Some [2; 7]%Q
    /\ lookup "b" (f_position o) = Some [2 + 100]%Q
    /\ map fst (f_position o) = ["b"; "m"; "w"].
Proof. eexists. split; [vm_compute; reflexivity|]. repeat split; vm_compute; reflexivity. Qed.
Close Scope string_scope.

(* ---- batch indices: the rows of one iteration partition a prefix of the permutation ---- *)
Lemma rows_concat {A} k bs : forall (l : list A), (k * bs <= List.length l)%nat ->
  List.concat (rows k bs l) = firstn (k * bs) l
  /\ List.length (rows k bs l) = k
  /\ Forall (fun r => List.length r = bs) (rows k bs l).
Proof.
  induction k as [|k IH]; intros l Hl; cbn [rows List.concat].
  - cbn. auto.
  - cbn [Nat.mul] in *. assert (Hs : (k * bs <= List.length (skipn bs l))%nat) by (rewrite skipn_length; lia).
    destruct (IH (skipn bs l) Hs) as [H1 [H2 H3]]. rewrite H1. split; [|split].
    + rewrite <- (firstn_skipn bs l) at 3. rewrite firstn_app.
      rewrite firstn_firstn, Nat.min_r by lia.
      rewrite firstn_length, Nat.min_l by lia.
      replace (bs + k * bs - bs) with (k * bs) by lia. reflexivity.
    + cbn. rewrite H2. reflexivity.
    + constructor; [rewrite firstn_length; lia|exact H3].
Qed.

Lemma NoDup_app_l {A} (a b : list A) : NoDup (a ++ b) -> NoDup a.
Proof.
  induction a as [|x a IH]; intros H; [constructor|].
  cbn in H. inversion H as [|? ? Hx Hr]; subst. constructor; [|apply IH; exact Hr].
  intros Hin. apply Hx. apply in_or_app. left. exact Hin.
Qed.

Theorem batches_partition perm bs n :
  Permutation perm (seq 0 n) -> (1 <= bs <= n)%nat ->
  exists bt, batch_indices perm bs = Some bt
    /\ List.length bt = (n / bs)%nat
    /\ Forall (fun r => List.length r = bs) bt
    /\ List.concat bt = firstn ((n / bs) * bs) perm
    /\ NoDup (List.concat bt)
    /\ (forall i, In i (List.concat bt) -> (i < n)%nat)
    /\ List.length (List.concat bt) = (n - n mod bs)%nat.
Proof.
  intros Hperm Hbs. assert (Hlen : List.length perm = n).
  { rewrite (Permutation_length Hperm). apply seq_length. }
  unfold batch_indices. rewrite Hlen.
  destruct (bs =? 0) eqn:E0; [apply Nat.eqb_eq in E0; lia|].
  destruct (n <? bs) eqn:E1; [apply Nat.ltb_lt in E1; lia|]. cbn [orb].
  assert (Hdm : (n / bs * bs <= n)%nat) by (rewrite Nat.mul_comm; apply Nat.mul_div_le; lia).
  eexists. split; [reflexivity|].
  assert (Hl2 : (n / bs * bs <= List.length (firstn (n / bs * bs) perm))%nat)
    by (rewrite firstn_length; lia).
  destruct (rows_concat (n / bs) bs (firstn (n / bs * bs) perm) Hl2) as [H1 [H2 H3]].
  rewrite firstn_firstn, Nat.min_id in H1.
  split; [exact H2|]. split; [exact H3|]. split; [exact H1|].
  assert (Hnd : NoDup perm).
  { apply (Permutation_NoDup (Permutation_sym Hperm)). apply seq_NoDup. }
  rewrite H1. split; [|split].
  - rewrite <- (firstn_skipn (n / bs * bs) perm) in Hnd. apply NoDup_app_l in Hnd. exact Hnd.
  - intros i Hi. assert (Hin : In i perm).
    { rewrite <- (firstn_skipn (n / bs * bs) perm). apply in_or_app. left. exact Hi. }
    apply (Permutation_in _ Hperm) in Hin. apply in_seq in Hin. lia.
  - rewrite firstn_length, Hlen, Nat.min_l by lia.
    pose proof (Nat.div_mod n bs ltac:(lia)) as Hd. lia.
Qed.

Example batches_partition_example :
  batch_indices [1; 4; 3; 0; 2; 6; 5] 3 = Some [[1; 4; 3]; [0; 2; 6]]
  /\ Permutation [1; 4; 3; 0; 2; 6; 5] (seq 0 7).
Proof.
  split; [reflexivity|]. cbn [seq].
  apply NoDup_Permutation; [repeat constructor; cbn; intuition lia|apply seq_NoDup with (start:=0) (len:=7)|].
  intros x. cbn. intuition lia.
Qed.

(* ---- attributes assigned on an existing Stopper: the last assignment of each attribute is what counts,
   whatever the instance was constructed with ---- *)
Fixpoint last_set {A} (f : sop -> option A) (ops : list sop) (d : A) : A :=
  match ops with
  | [] => d
  | o :: r => last_set f r (match f o with Some a => a | None => d end)
  end.
Definition get_mi (o : sop) := match o with SetMaxIter n => Some n | _ => None end.
Definition get_p (o : sop) := match o with SetPatience n => Some n | _ => None end.
Definition get_at (o : sop) := match o with SetAtol q => Some q | _ => None end.
Definition get_rt (o : sop) := match o with SetRtol q => Some q | _ => None end.

Theorem apply_ops_fields ops : forall s,
  apply_ops s ops = mkStopper (last_set get_mi ops (max_iter s)) (last_set get_p ops (patience s))
                              (last_set get_at ops (atol s)) (last_set get_rt ops (rtol s)).
Proof.
  induction ops as [|o r IH]; intros s; cbn [apply_ops fold_left last_set].
  - destruct s; reflexivity.
  - fold (apply_ops (apply_op s o) r). rewrite IH. destruct o; reflexivity.
Qed.

(* the stop rule after any history of assignments is the documented rule of the CURRENT attribute values;
   in particular a Stopper constructed with rtol = 0 and then given rtol = q uses q *)
Theorem stop_rule_current s ops i h :
  let s' := apply_ops s ops in
  (1 <= patience s')%nat -> (patience s' <= List.length h)%nat -> (i < List.length h)%nat ->
  stop_now s' i h = Some (rule s' i h)
  /\ forall q, rtol (apply_ops s (ops ++ [SetRtol q])) = q.
Proof.
  cbv zeta. intros H1 H2 H3. split; [apply stop_rule; assumption|].
  intros q. unfold apply_ops. rewrite fold_left_app. reflexivity.
Qed.

Example stop_rule_current_example :
  let s := apply_ops (mkStopper 30 5 (1 # 1000) 0) [SetRtol (1 # 2); SetAtol 0; SetPatience 2; SetMaxIter 8] in
  s = mkStopper 8 2 0 (1 # 2)
  /\ stop_now s 3 [8; 6; 4; 3; 0; 0; 0; 0]%Q = Some true
  /\ stop_now (mkStopper 8 2 0 0) 3 [8; 6; 4; 3; 0; 0; 0; 0]%Q = Some false.
Proof. cbv zeta. split; [reflexivity|]. split; vm_compute; reflexivity. Qed.
