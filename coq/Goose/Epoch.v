(* Model of liesel/goose/epoch.py (EpochManager) and of the builder's JIT chunk length.
   Hand-written; tied to the code by the C16 correspondence check (harness/lv/c16.py). *)
From Coq Require Import List ZArith Bool Lia.
Import ListNotations.
Open Scope Z_scope.

Inductive ety := Init | Fast | Slow | Burnin | Post.

Definition ety_code (t : ety) : Z :=
  match t with Init => 0 | Fast => 1 | Slow => 2 | Burnin => 3 | Post => 4 end.
Definition ety_of_code (z : Z) : ety :=
  match z with 0 => Init | 1 => Fast | 2 => Slow | 3 => Burnin | _ => Post end.

Record econf := mkE { ety_ : ety; dur : Z; thin : Z }.

Definition is_init (t : ety) := match t with Init => true | _ => false end.
Definition is_post (t : ety) := match t with Post => true | _ => false end.
(* EpochType.is_warmup: INITIAL_VALUES < t < POSTERIOR *)
Definition is_warmup (t : ety) := match t with Fast | Slow | Burnin => true | _ => false end.
(* EpochType.is_adaptation: INITIAL_VALUES < t < BURNIN *)
Definition is_adapt (t : ety) := match t with Fast | Slow => true | _ => false end.

(* EpochManager.append: the checks of the code, [prev] = self._configs[-1] if any.
   true = the config is appended, false = RuntimeError. *)
Definition append_ok (prev : option econf) (c : econf) : bool :=
  (match prev with None => is_init (ety_ c) | Some _ => true end)
  && (if is_init (ety_ c)
      then (match prev with None => true | Some _ => false end) && (dur c =? 1)
      else true)
  && negb (is_warmup (ety_ c)
           && match prev with Some p => is_post (ety_ p) | None => false end)
  && (1 <=? dur c)
  && (1 <=? thin c)
  && (if thin c =? 1 then true
      else (thin c <=? dur c)
           && (if is_post (ety_ c) then dur c mod thin c =? 0 else true)).

(* for config in configs: self.append(config) -- stops at the first rejected one *)
Fixpoint accepts_from (prev : option econf) (l : list econf) : bool :=
  match l with
  | [] => true
  | c :: r => append_ok prev c && accepts_from (Some c) r
  end.
Definition accepts (l : list econf) : bool := accepts_from None l.

(* ---- the manager as a state machine (append / next interleavings) ---- *)
Record mgr := mkM { cfgs : list econf; ptr : nat; start : Z }.
Definition mgr0 : mgr := mkM [] 0 0.
Definition lastc (l : list econf) : option econf :=
  match rev l with [] => None | c :: _ => Some c end.
Definition mgr_append (m : mgr) (c : econf) : option mgr :=
  if append_ok (lastc (cfgs m)) c then Some (mkM (cfgs m ++ [c]) (ptr m) (start m)) else None.
(* EpochState as handed out: (config, nth_epoch, time_before_epoch) *)
Record estate := mkS { cfg : econf; nth_ep : nat; t0 : Z }.
Definition mgr_next (m : mgr) : option (estate * mgr) :=
  match nth_error (cfgs m) (ptr m) with
  | Some c => Some (mkS c (ptr m) (start m), mkM (cfgs m) (S (ptr m)) (start m + dur c))
  | None => None
  end.
Definition has_more (m : mgr) : bool := Nat.ltb (ptr m) (length (cfgs m)).

(* ---- validity, written from the property text ---- *)
Definition cfg_ok (c : econf) : bool :=
  (1 <=? dur c) && (1 <=? thin c) && (thin c <=? dur c)
  && (if is_post (ety_ c) then dur c mod thin c =? 0 else true).
Fixpoint no_warmup_after_post (l : list econf) : bool :=
  match l with
  | [] => true
  | c :: r => (if is_post (ety_ c) then forallb (fun d => negb (is_warmup (ety_ d))) r else true)
              && no_warmup_after_post r
  end.
Definition valid (l : list econf) : bool :=
  match l with
  | [] => true        (* the empty schedule: nothing was appended, nothing to reject *)
  | c0 :: r =>
      is_init (ety_ c0) && (dur c0 =? 1)
      && forallb (fun c => negb (is_init (ety_ c))) r
      && forallb cfg_ok l
      && no_warmup_after_post l
  end.

(* ---- builder: jit_duration = math.gcd( *durations of epochs[1:]) ---- *)
Definition chunk_len (l : list econf) : Z :=
  fold_left Z.gcd (map dur (tl l)) 0.

(* time before epoch n: sum of earlier durations *)
Definition time_before (l : list econf) (n : nat) : Z :=
  fold_left Z.add (map dur (firstn n l)) 0.
