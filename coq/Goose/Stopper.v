(* Model of liesel/goose/optim.py : Stopper, the while loop of optim_flat, history post-processing
   and the mini-batch key discipline.  Losses are exact rationals. *)
From Coq Require Import List ZArith QArith Qabs Bool Arith Lia.
Import ListNotations.
Close Scope Q_scope.
Open Scope nat_scope.

Record stopper := mkStopper { max_iter : nat; patience : nat; atol : Q; rtol : Q }.

Definition window (h : list Q) (start len : nat) : list Q := firstn len (skipn start h).

(* jax.lax.dynamic_slice: a negative start index is first shifted by the dimension size (numpy-style
   wrap-around), then the start is clamped into [0, |h| - len]; len > |h| is an error *)
Definition dyn_start (n : nat) (start : Z) (len : nat) : nat :=
  let st := if (start <? 0)%Z then (start + Z.of_nat n)%Z else start in
  Z.to_nat (Z.min (Z.max st 0) (Z.of_nat n - Z.of_nat len)).
Definition dyn_slice (h : list Q) (start : Z) (len : nat) : option (list Q) :=
  if (length h <? len)%nat then None else Some (window h (dyn_start (length h) start len) len).

Definition qmin (a b : Q) : Q := if Qle_bool a b then a else b.
Definition qmin_list (l : list Q) : Q :=
  match l with [] => 0%Q | x :: r => fold_left qmin r x end.

(* jnp.argmin: first index of the minimum *)
Fixpoint argmin_from (best : Q) (bi i : nat) (l : list Q) : nat :=
  match l with
  | [] => bi
  | x :: r => if negb (Qle_bool best x) then argmin_from x i (S i) r else argmin_from best bi (S i) r
  end.
Definition argmin (l : list Q) : nat :=
  match l with [] => 0 | x :: r => argmin_from x 0 1 r end.

Definition stop_on_window (s : stopper) (win : list Q) : bool :=
  let best := qmin_list win in
  let oldest := hd 0%Q win in
  let diff := (oldest - best)%Q in
  let abs_ok := Qle_bool diff (atol s) in
  (* diff / |best| <= rtol in IEEE arithmetic: x/0 is +inf or NaN, never <= a finite rtol *)
  let rel_ok := if Qeq_bool best 0 then false else Qle_bool (diff / Qabs best) (rtol s) in
  abs_ok || rel_ok.

Definition stop_early (s : stopper) (i : nat) (h : list Q) : option bool :=
  let p := patience s in
  let lower := Z.max (Z.of_nat i - Z.of_nat p + 1) 0 in
  match dyn_slice h lower p with
  | None => None
  | Some win => Some (stop_on_window s win && (p <? i)%nat)
  end.

Definition stop_now (s : stopper) (i : nat) (h : list Q) : option bool :=
  match stop_early s i h with
  | None => None
  | Some e => Some (e || (Z.of_nat (max_iter s) - 1 <=? Z.of_nat i)%Z)
  end.

Definition which_best (s : stopper) (i : nat) (h : list Q) : option Z :=
  let p := patience s in
  match dyn_slice h (Z.of_nat i - Z.of_nat p + 1) p with
  | None => None
  | Some win => Some (Z.of_nat i - Z.of_nat p + Z.of_nat (argmin win) + 1)%Z
  end.

Fixpoint upd {A} (l : list A) (k : nat) (a : A) : list A :=
  match l, k with
  | [], _ => []
  | _ :: t, O => a :: t
  | x :: t, S k' => x :: upd t k' a
  end.

(* the while loop: val["while_i"] += 1; history[while_i] := loss *)
Fixpoint run_loop (fuel : nat) (s : stopper) (loss : nat -> Q) (i : nat) (h : list Q)
  : option (nat * list Q) :=
  match fuel with
  | O => None
  | S f =>
      match stop_now s i h with
      | None => None
      | Some true => Some (i, h)
      | Some false => run_loop f s loss (S i) (upd h (S i) (loss (S i)))
      end
  end.

Definition hist0 (s : stopper) (loss : nat -> Q) : list Q :=
  upd (repeat 0%Q (max_iter s)) 0 (loss 0).

Definition optim_loop (s : stopper) (loss : nat -> Q) : option (nat * list Q) :=
  run_loop (S (max_iter s)) s loss 0 (hist0 s loss).

(* history post-processing: entries after the last iteration become NaN (None); pruning drops them *)
Definition nan_pad (h : list Q) (i : nat) : list (option Q) :=
  map Some (firstn (S i) h) ++ repeat None (length h - S i).
Definition post_history (prune : bool) (h : list Q) (i : nat) : list (option Q) :=
  if prune then firstn (S i) (nan_pad h i) else nan_pad h i.

(* ---- mini-batch keys: paths in the splitting tree (split k = (k ++ [0], k ++ [1])) ---- *)
Definition key := list nat.
Inductive carry := Advance | Stale.
(* key used to draw the batches of iteration j (0-based) *)
Fixpoint batch_key (c : carry) (k : key) (j : nat) : key :=
  match j with
  | O => k ++ [1]
  | S j' => match c with
            | Advance => batch_key c (k ++ [0]) j'
            | Stale => batch_key c k j'
            end
  end.

(* ---- optim_flat around the loop (optim.py, "Pre-process inputs" and "Set final position and
   model state"): without a validation model the loop runs with patience := max_iter (so the early
   stopping rule can never fire), the user's patience is restored before the best iteration is looked
   up; the returned position is the recorded position at the best iteration if
   restore_best_position, otherwise the position of the last iteration. ---- *)
Record optim_out := mkOut { out_iter : nat; out_best : Z; out_pos_index : Z; out_hist : list Q }.

Definition loop_stopper (s : stopper) (has_validation : bool) : stopper :=
  if has_validation then s else mkStopper (max_iter s) (max_iter s) (atol s) (rtol s).

Definition optim_flat_model (s : stopper) (has_validation restore : bool) (loss : nat -> Q)
  : option optim_out :=
  match optim_loop (loop_stopper s has_validation) loss with
  | None => None
  | Some (j, h) =>
      match which_best s j h with
      | None => None
      | Some b => Some (mkOut j b (if restore then b else Z.of_nat j) h)
      end
  end.
