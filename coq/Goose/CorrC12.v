(* Executable glue for the C12 correspondence shards. *)
From Coq Require Import String List QArith Qabs Bool Arith.
Import ListNotations.
From LV Require Import Base.ListAux Goose.MM.
(* the C12 source tie library (tools/py2gallina_c12.py, harness/lv/c12_tie.py): required, not imported, so that the
   targeted build of this file compiles it *)
From LV Require Goose.GenC12Tie.
Open Scope Q_scope.

Record mcase := mkCase {
  c_keys : list pkey;        (* position keys in the order in which they were listed, flat sizes *)
  c_diag : bool;             (* mm_diag *)
  c_kernel : bool;           (* true: NUTSKernel/HMCKernel.tune; false: tune_inv_mm_{diag,full} *)
  c_slow : bool;             (* epoch type is SLOW_ADAPTATION *)
  c_hashist : bool;          (* history is not None *)
  c_hist : history;          (* the history handed to the code (all keys, C-order ravelled rows) *)
  c_old : kstate;            (* kernel state before tuning *)
  c_sqrt : Q;                (* jnp.sqrt of the model's own trace ratio, supplied by the harness *)
  (* observed on the implementation *)
  i_coords : list (string * nat);   (* coordinate labels in the order of the real ravel_pytree *)
  i_valid : bool;                   (* returned a finite matrix of the expected shape *)
  i_new : mm;                       (* the tuned inverse mass matrix *)
  i_step : Q                        (* the step size after tuning *)
}.

(* |a - b| <= 1e-6 |a| + 1e-9  (a: model, b: observed float64) *)
Definition qclose (a b : Q) : bool :=
  Qle_bool (Qabs (a - b)) ((1 # 1000000) * Qabs a + (1 # 1000000000)).

Fixpoint forall2b {A B} (f : A -> B -> bool) (l : list A) (r : list B) : bool :=
  match l, r with
  | [], [] => true
  | x :: l', y :: r' => f x y && forall2b f l' r'
  | _, _ => false
  end.

Definition mm_close (a b : mm) : bool :=
  match a, b with
  | Diag v, Diag w => forall2b qclose v w
  | Dense m, Dense n => forall2b (forall2b qclose) m n
  | _, _ => false
  end.

(* float32 runs: relative tolerance t; an off-diagonal entry of a dense matrix is compared at the scale
   of the two variances it belongs to ((a_ii + a_jj) / 2 >= |a_ij| for a covariance matrix), because a
   covariance near zero carries the rounding error of the variances *)
Definition qclose_s (t s a b : Q) : bool := Qle_bool (Qabs (a - b)) (t * (Qabs a + s)).

Definition dense_close (t : Q) (m n : list (list Q)) : bool :=
  let d := diag_from 0 m in
  forall2b (fun (ir : nat * list Q) r' =>
              forall2b (fun (jx : nat * Q) y =>
                          qclose_s t ((Qabs (nth (fst ir) d 0) + Qabs (nth (fst jx) d 0)) / 2) (snd jx) y)
                       (indexed (snd ir)) r')
           (indexed m) n.

Definition mm_close_t (t : Q) (a b : mm) : bool :=
  match a, b with
  | Diag v, Diag w => forall2b (qclose_s t 0) v w
  | Dense m, Dense n => dense_close t m n
  | _, _ => false
  end.

Definition coord_eqb (a b : string * nat) : bool := String.eqb (fst a) (fst b) && Nat.eqb (snd a) (snd b).

(* the property read directly on the observed coordinate labels, without the stacking model *)
Definition spec_entry (h : history) (a b : string * nat) (same : bool) : option Q :=
  match coord_series h (fst a) (snd a), coord_series h (fst b) (snd b) with
  | Some s, Some s' => option_map (fun c => if same then c + reg else c) (cov_q s s')
  | _, _ => None
  end.

Definition spec_mm (diag : bool) (h : history) (coords : list (string * nat)) : option mm :=
  if diag then option_map Diag (mapM (fun a => spec_entry h a a true) coords)
  else option_map Dense
         (mapM (fun ia => mapM (fun jb => spec_entry h (snd ia) (snd jb) (Nat.eqb (fst ia) (fst jb)))
                               (indexed coords)) (indexed coords)).

Definition retunes (k : mcase) : bool := c_slow k && c_hashist k.

Section Closeness.
Variable mmc : mm -> mm -> bool.       (* closeness of matrices: model (left) vs observed (right) *)
Variable qc : Q -> Q -> bool.          (* closeness of step sizes *)
Variable tq : Q.                       (* relative tolerance of step^2 * trace *)

Definition model_out (o : KeyOrder) (k : mcase) : option kstate :=
  if c_kernel k
  then tune (fun _ => c_sqrt k) o (c_diag k) (c_keys k) (c_slow k) (c_old k)
            (if c_hashist k then Some (c_hist k) else None)
  else option_map (mkK 1) (tune_mm o (c_diag k) (c_keys k) (c_hist k)).

(* the supplied square root is the square root of the model's trace ratio (relative 1e-9) *)
Definition sqrt_ok (k : mcase) (st' : kstate) : bool :=
  let r := trace (imm (c_old k)) / trace (imm st') in
  Qle_bool (Qabs (c_sqrt k * c_sqrt k - r)) ((1 # 1000000000) * Qabs r).

(* step_new^2 * trace_new = step_old^2 * trace_old on the observed step size (relative 1e-6) *)
Definition step_sq_ok_g (k : mcase) (st' : kstate) : bool :=
  let lhs := i_step k * i_step k * trace (imm st') in
  let rhs := step (c_old k) * step (c_old k) * trace (imm (c_old k)) in
  Qle_bool (Qabs (lhs - rhs)) (tq * Qabs rhs).

(* the model (variant o) against the observations *)
Definition agrees_model_g (o : KeyOrder) (k : mcase) : bool :=
  (* blackjax's coordinate order is the model's flat order *)
  list_eqb coord_eqb (flat_coords (c_keys k)) (i_coords k)
  && match model_out o k with
     | None => negb (i_valid k)
     | Some st' =>
         i_valid k
         && mmc (imm st') (i_new k)
         && (if c_kernel k
             then qc (step st') (i_step k)
                  && (if retunes k then sqrt_ok k st' && step_sq_ok_g k st' else true)
             else true)
     end.

(* the property read on the observed coordinate labels *)
Definition agrees_spec_g (k : mcase) : bool :=
  if i_valid k && (retunes k || negb (c_kernel k))
  then match spec_mm (c_diag k) (c_hist k) (i_coords k) with
       | Some s => mmc s (i_new k)
       | None => false
       end
  else true.

Definition agrees_g (o : KeyOrder) (k : mcase) : bool := agrees_model_g o k && agrees_spec_g k.

(* ---------- end-to-end runs through the engine --------------------------------------------------
   One kernel of one chain: the engine calls tune once after every adaptation epoch; the harness
   supplies, per adaptation epoch, whether it was a slow one and (for slow epochs) the position
   chain the engine recorded for that epoch (all kernels' keys), and the inverse mass matrix found
   in the kernel state stored for the first iteration of the following epoch.  The step size is not
   compared here (dual averaging overwrites it before tune; property C11). *)
Record rcase := mkRun {
  r_keys : list pkey;
  r_diag : bool;
  r_init : mm;                                   (* inverse mass matrix before the first epoch *)
  r_epochs : list (bool * option history);
  r_coords : list (string * nat);                (* coordinate labels, order of the real position *)
  r_obs : list mm                                (* observed after each adaptation epoch *)
}.

Definition run_imm (o : KeyOrder) (r : rcase) (n : nat) : option mm :=
  option_map imm (run_epochs (fun _ => 1) o (r_diag r) (r_keys r) (mkK 1 (r_init r))
                             (firstn n (r_epochs r))).

Definition agrees_run_model_g (o : KeyOrder) (r : rcase) : bool :=
  list_eqb coord_eqb (flat_coords (r_keys r)) (r_coords r)
  && Nat.eqb (length (r_obs r)) (length (r_epochs r))
  && forallb (fun nob => match run_imm o r (S (fst nob)) with
                         | Some m => mmc m (snd nob)
                         | None => false
                         end) (indexed (r_obs r)).

(* the property read directly: after every slow epoch the observed matrix is the regularised
   (co)variance of that epoch's chain, coordinate by coordinate as labelled by the real position;
   after any other epoch it is the matrix observed before *)
Fixpoint run_spec_g (diag : bool) (coords : list (string * nat)) (prev : mm)
         (eps : list (bool * option history)) (obs : list mm) : bool :=
  match eps, obs with
  | [], [] => true
  | (true, Some h) :: eps', m :: obs' =>
      match spec_mm diag h coords with
      | Some s => mmc s m && run_spec_g diag coords m eps' obs'
      | None => false
      end
  | _ :: eps', m :: obs' => mmc prev m && run_spec_g diag coords m eps' obs'
  | _, _ => false
  end.

Definition agrees_run_g (o : KeyOrder) (r : rcase) : bool :=
  agrees_run_model_g o r && run_spec_g (r_diag r) (r_coords r) (r_init r) (r_epochs r) (r_obs r).

(* ---------- whole engine runs: kernel sequence + epoch schedule --------------------------------
   One chain of one engine run.  [g_kerns]: the kernel sequence in the order in which the kernels were
   added (KOther for RW / Gibbs kernels) with the inverse mass matrix before the first epoch;
   [g_epochs]: every epoch after INITIAL_VALUES but the last one, with its config and the chain the
   engine recorded for it (emitted only for slow epochs, [] otherwise: the model does not read it);
   [g_obs]: per epoch, per kernel, the matrix stored at the first iteration of the following epoch. *)
Record ecase := mkEng {
  g_kerns : list (kern * mm);
  g_epochs : list (econf * history);
  g_obs : list (list mm)
}.

Definition eng_state (o : KeyOrder) (g : ecase) (n : nat) : option (list (kern * kstate)) :=
  option_map fst
    (engine_run (fun _ => 1) o (map (fun km => (fst km, mkK 1 (snd km))) (g_kerns g)) []
                (firstn n (g_epochs g))).

Definition kern_close_g (p : kern * kstate) (m : mm) : bool :=
  match fst p with
  | KMM _ _ => mmc (imm (snd p)) m
  | KOther => true
  end.

Definition agrees_engine_g (o : KeyOrder) (g : ecase) : bool :=
  Nat.eqb (length (g_obs g)) (length (g_epochs g))
  && forallb (fun nob => match eng_state o g (S (fst nob)) with
                         | Some ks => forall2b kern_close_g ks (snd nob)
                         | None => false
                         end) (indexed (g_obs g)).
End Closeness.

(* float64 runs (jax_enable_x64): 1e-6 relative + 1e-9 absolute *)
Definition agrees := agrees_g mm_close qclose (1 # 1000000).
Definition agrees_run := agrees_run_g mm_close.
Definition agrees_engine := agrees_engine_g mm_close.

(* float32 runs (liesel's default dtype): 1e-3 relative, off-diagonal entries at the scale of their variances *)
Definition t32 : Q := 1 # 1000.
Definition agrees32 := agrees_g (mm_close_t t32) (qclose_s t32 0) (4 # 1000).
Definition agrees_run32 := agrees_run_g (mm_close_t t32).
Definition agrees_engine32 := agrees_engine_g (mm_close_t t32).
