(* C04 - proofs about the finite-state Markov kernels of Goose/Markov.v *)
From Coq Require Import Reals List Bool Lra FinFun.
From LV Require Import Goose.Markov.
Import ListNotations.
Open Scope R_scope.

(* ------------------------------------------------------------------------------------ *)
(* finite sums                                                                          *)
(* ------------------------------------------------------------------------------------ *)
Section Rsum.
Context {A : Type}.

Lemma rsum_cons (a : A) l f : rsum (a :: l) f = f a + rsum l f.
Proof. reflexivity. Qed.

Lemma rsum_ext_in (l : list A) f g :
  (forall x, In x l -> f x = g x) -> rsum l f = rsum l g.
Proof.
  induction l as [|a l IH]; intros H; [reflexivity|].
  rewrite !rsum_cons, (H a (or_introl eq_refl)), IH; [reflexivity|].
  intros x Hx. apply H. right. exact Hx.
Qed.

Lemma rsum_plus (l : list A) f g :
  rsum l (fun x => f x + g x) = rsum l f + rsum l g.
Proof. induction l as [|a l IH]; [cbn; lra|]. rewrite !rsum_cons, IH. lra. Qed.

Lemma rsum_scal_l (l : list A) c f : rsum l (fun x => c * f x) = c * rsum l f.
Proof. induction l as [|a l IH]; [cbn; lra|]. rewrite !rsum_cons, IH. lra. Qed.

Lemma rsum_scal_r (l : list A) c f : rsum l (fun x => f x * c) = rsum l f * c.
Proof. induction l as [|a l IH]; [cbn; lra|]. rewrite !rsum_cons, IH. lra. Qed.

Lemma rsum_zero (l : list A) f : (forall x, In x l -> f x = 0) -> rsum l f = 0.
Proof.
  induction l as [|a l IH]; intros H; [reflexivity|].
  rewrite rsum_cons, (H a (or_introl eq_refl)), IH; [lra|].
  intros x Hx. apply H. right. exact Hx.
Qed.

Lemma rsum_nonneg (l : list A) f : (forall x, In x l -> 0 <= f x) -> 0 <= rsum l f.
Proof.
  induction l as [|a l IH]; intros H; [cbn; lra|].
  rewrite rsum_cons.
  assert (0 <= f a) by (apply H; left; reflexivity).
  assert (0 <= rsum l f) by (apply IH; intros x Hx; apply H; right; exact Hx).
  lra.
Qed.

Lemma rsum_le (l : list A) f g :
  (forall x, In x l -> f x <= g x) -> rsum l f <= rsum l g.
Proof.
  induction l as [|a l IH]; intros H; [cbn; lra|].
  rewrite !rsum_cons.
  assert (f a <= g a) by (apply H; left; reflexivity).
  assert (rsum l f <= rsum l g) by (apply IH; intros x Hx; apply H; right; exact Hx).
  lra.
Qed.

Lemma rsum_pos_in (l : list A) f y :
  (forall x, In x l -> 0 <= f x) -> In y l -> 0 < f y -> 0 < rsum l f.
Proof.
  induction l as [|a l IH]; intros Hnn Hin Hy; [destruct Hin|].
  rewrite rsum_cons.
  assert (0 <= f a) by (apply Hnn; left; reflexivity).
  assert (0 <= rsum l f) by (apply rsum_nonneg; intros x Hx; apply Hnn; right; exact Hx).
  destruct Hin as [->|Hin]; [lra|].
  assert (0 < rsum l f) by (apply IH; [intros x Hx; apply Hnn; right; exact Hx|exact Hin|exact Hy]).
  lra.
Qed.

Lemma rsum_app (l1 l2 : list A) f : rsum (l1 ++ l2) f = rsum l1 f + rsum l2 f.
Proof.
  induction l1 as [|a l IH]; [change (rsum l2 f = 0 + rsum l2 f); lra|].
  cbn [app]. rewrite !rsum_cons, IH. lra.
Qed.

Lemma rsum_map {C : Type} (g : C -> A) (l : list C) f :
  rsum (map g l) f = rsum l (fun x => f (g x)).
Proof. induction l as [|a l IH]; [reflexivity|]. cbn [map]. rewrite !rsum_cons, IH. reflexivity. Qed.

End Rsum.

Lemma rsum_swap {A C : Type} (l1 : list A) (l2 : list C) (f : A -> C -> R) :
  rsum l1 (fun x => rsum l2 (fun y => f x y)) = rsum l2 (fun y => rsum l1 (fun x => f x y)).
Proof.
  induction l1 as [|a l IH].
  - cbn [rsum fold_right]. symmetry. apply rsum_zero. reflexivity.
  - rewrite rsum_cons, IH, <- rsum_plus. apply rsum_ext_in. intros y _. reflexivity.
Qed.

(* ------------------------------------------------------------------------------------ *)
(* decidable equality, indicator sums                                                   *)
(* ------------------------------------------------------------------------------------ *)
Definition eqb_ok {X : Type} (eqb : X -> X -> bool) : Prop :=
  forall x y, eqb x y = true <-> x = y.

Section Delta.
Context {X : Type}.
Variable eqb : X -> X -> bool.
Hypothesis eqb_spec : eqb_ok eqb.

Lemma eqb_refl x : eqb x x = true.
Proof. apply eqb_spec. reflexivity. Qed.

Lemma eqb_neq x y : x <> y -> eqb x y = false.
Proof.
  intros H. destruct (eqb x y) eqn:E; [|reflexivity].
  apply eqb_spec in E. contradiction.
Qed.

Lemma eqb_false x y : eqb x y = false -> x <> y.
Proof. intros E ->. rewrite eqb_refl in E. discriminate. Qed.

Lemma eqb_sym x y : eqb x y = eqb y x.
Proof.
  destruct (eqb x y) eqn:E.
  - apply eqb_spec in E. subst. symmetry. apply eqb_refl.
  - symmetry. apply eqb_neq. intros ->. rewrite eqb_refl in E. discriminate.
Qed.

Lemma rsum_delta_notin (l : list X) y f :
  ~ In y l -> rsum l (fun x => if eqb y x then f x else 0) = 0.
Proof.
  intros H. apply rsum_zero. intros x Hx.
  rewrite eqb_neq; [reflexivity|]. intros ->. contradiction.
Qed.

Lemma rsum_delta (l : list X) y f :
  NoDup l -> In y l -> rsum l (fun x => if eqb y x then f x else 0) = f y.
Proof.
  induction l as [|a l IH]; intros Hnd Hin; [destruct Hin|].
  inversion Hnd as [|a' l' Hna Hnd']; subst.
  rewrite rsum_cons. destruct Hin as [->|Hin].
  - rewrite eqb_refl, rsum_delta_notin by exact Hna. lra.
  - rewrite eqb_neq, IH by (try assumption; intros ->; contradiction). lra.
Qed.

Lemma rsum_split_diag (l : list X) x f :
  NoDup l -> In x l ->
  rsum l f = f x + rsum l (fun z => if eqb x z then 0 else f z).
Proof.
  intros Hnd Hin.
  rewrite <- (rsum_delta l x f Hnd Hin), <- rsum_plus.
  apply rsum_ext_in. intros z _. destruct (eqb x z); lra.
Qed.
End Delta.

(* ------------------------------------------------------------------------------------ *)
(* generic facts: detailed balance, diagonal completion, composition                    *)
(* ------------------------------------------------------------------------------------ *)
Section Generic.
Context {X : Type}.
Variable eqb : X -> X -> bool.
Hypothesis eqb_spec : eqb_ok eqb.
Variable xs : list X.
Hypothesis xs_nodup : NoDup xs.

Lemma db_invariant w P :
  detailed_balance xs w P -> (forall x, In x xs -> rsum xs (P x) = 1) -> invariant xs w P.
Proof.
  intros Hdb Hrow y Hy. unfold invariant.
  rewrite (rsum_ext_in xs _ (fun x => w y * P y x)).
  - rewrite rsum_scal_l, (Hrow y Hy). lra.
  - intros x Hx. apply Hdb; assumption.
Qed.

Lemma with_diag_rowsum off x : In x xs -> rsum xs (with_diag eqb xs off x) = 1.
Proof.
  intros Hx. rewrite (rsum_split_diag eqb eqb_spec xs x _ xs_nodup Hx).
  unfold with_diag at 1. rewrite (eqb_refl eqb eqb_spec).
  rewrite (rsum_ext_in xs (fun z => if eqb x z then 0 else with_diag eqb xs off x z)
                          (fun z => if eqb x z then 0 else off x z)).
  - lra.
  - intros z _. unfold with_diag. destruct (eqb x z); reflexivity.
Qed.

Lemma with_diag_nonneg off :
  (forall x y, In x xs -> In y xs -> 0 <= off x y) ->
  (forall x, In x xs -> rsum xs (fun z => if eqb x z then 0 else off x z) <= 1) ->
  forall x y, In x xs -> In y xs -> 0 <= with_diag eqb xs off x y.
Proof.
  intros Hnn Hle x y Hx Hy. unfold with_diag. destruct (eqb x y).
  - specialize (Hle x Hx). lra.
  - apply Hnn; assumption.
Qed.

Lemma with_diag_db w off :
  (forall x y, In x xs -> In y xs -> x <> y -> w x * off x y = w y * off y x) ->
  detailed_balance xs w (with_diag eqb xs off).
Proof.
  intros H x y Hx Hy. unfold with_diag.
  destruct (eqb x y) eqn:E.
  - apply eqb_spec in E. subst y. rewrite (eqb_refl eqb eqb_spec). reflexivity.
  - rewrite (eqb_sym eqb eqb_spec y x), E. apply H; try assumption.
    apply (eqb_false eqb eqb_spec). exact E.
Qed.

Lemma with_diag_stochastic off :
  (forall x y, In x xs -> In y xs -> 0 <= off x y) ->
  (forall x, In x xs -> rsum xs (fun z => if eqb x z then 0 else off x z) <= 1) ->
  stochastic xs (with_diag eqb xs off).
Proof.
  intros Hnn Hle. split.
  - apply with_diag_nonneg; assumption.
  - intros x Hx. apply with_diag_rowsum. exact Hx.
Qed.

(* identity kernel *)
Lemma id_invariant w : invariant xs w (id_kernel eqb).
Proof.
  intros y Hy. unfold id_kernel.
  rewrite (rsum_ext_in xs _ (fun x => if eqb y x then w x else 0)).
  - apply (rsum_delta eqb eqb_spec); assumption.
  - intros x _. rewrite (eqb_sym eqb eqb_spec x y). destruct (eqb y x); lra.
Qed.

Lemma id_stochastic : stochastic xs (id_kernel eqb).
Proof.
  split.
  - intros x y _ _. unfold id_kernel. destruct (eqb x y); lra.
  - intros x Hx. unfold id_kernel.
    rewrite (rsum_delta eqb eqb_spec xs x (fun _ => 1)); [reflexivity| |]; assumption.
Qed.

(* composition *)
Lemma seq_invariant w P1 P2 :
  invariant xs w P1 -> invariant xs w P2 -> invariant xs w (seq_kernel xs P1 P2).
Proof.
  intros H1 H2 y Hy. unfold seq_kernel.
  rewrite (rsum_ext_in xs _ (fun x => rsum xs (fun z => w x * P1 x z * P2 z y))).
  2:{ intros x _. rewrite <- rsum_scal_l. apply rsum_ext_in. intros z _. lra. }
  rewrite rsum_swap.
  rewrite (rsum_ext_in xs _ (fun z => w z * P2 z y)).
  - apply H2. exact Hy.
  - intros z Hz. rewrite rsum_scal_r. rewrite (H1 z Hz). reflexivity.
Qed.

Lemma seq_stochastic P1 P2 :
  stochastic xs P1 -> stochastic xs P2 -> stochastic xs (seq_kernel xs P1 P2).
Proof.
  intros [N1 R1] [N2 R2]. split.
  - intros x y Hx Hy. unfold seq_kernel. apply rsum_nonneg. intros z Hz.
    apply Rmult_le_pos; [apply N1|apply N2]; assumption.
  - intros x Hx. unfold seq_kernel. rewrite rsum_swap.
    rewrite (rsum_ext_in xs _ (fun z => P1 x z)).
    + apply R1. exact Hx.
    + intros z Hz. rewrite rsum_scal_l, (R2 z Hz). lra.
Qed.

Lemma seq_kernels_invariant w Ps :
  Forall (invariant xs w) Ps -> invariant xs w (seq_kernels eqb xs Ps).
Proof.
  induction 1 as [|P Ps HP _ IH]; cbn [seq_kernels].
  - apply id_invariant.
  - apply seq_invariant; assumption.
Qed.

Lemma seq_kernels_stochastic Ps :
  Forall (stochastic xs) Ps -> stochastic xs (seq_kernels eqb xs Ps).
Proof.
  induction 1 as [|P Ps HP _ IH]; cbn [seq_kernels].
  - apply id_stochastic.
  - apply seq_stochastic; assumption.
Qed.

Lemma iter_invariant w P n : invariant xs w P -> invariant xs w (iter_kernel eqb xs n P).
Proof.
  intros H. induction n as [|n IH]; cbn [iter_kernel].
  - apply id_invariant.
  - apply seq_invariant; assumption.
Qed.

Lemma iter_stochastic P n : stochastic xs P -> stochastic xs (iter_kernel eqb xs n P).
Proof.
  intros H. induction n as [|n IH]; cbn [iter_kernel].
  - apply id_stochastic.
  - apply seq_stochastic; assumption.
Qed.

(* chains started from the (normalised) target stay there *)
Lemma push_ext_in mu nu P :
  (forall x, In x xs -> mu x = nu x) -> forall y, push xs mu P y = push xs nu P y.
Proof. intros H y. unfold push. apply rsum_ext_in. intros x Hx. rewrite (H x Hx). reflexivity. Qed.

Lemma push_n_ext_in n : forall mu nu P,
  (forall x, In x xs -> mu x = nu x) -> forall y, In y xs -> push_n xs n mu P y = push_n xs n nu P y.
Proof.
  induction n as [|n IH]; intros mu nu P H y Hy; cbn [push_n].
  - apply H. exact Hy.
  - apply IH; [|exact Hy]. intros x _. apply push_ext_in. exact H.
Qed.

Lemma invariant_scale w P c : invariant xs w P -> invariant xs (fun x => w x * c) P.
Proof.
  intros H y Hy. unfold invariant in *.
  rewrite (rsum_ext_in xs _ (fun x => (w x * P x y) * c)) by (intros; lra).
  rewrite rsum_scal_r, (H y Hy). reflexivity.
Qed.

Lemma push_n_fixed w P :
  invariant xs w P -> forall n y, In y xs -> push_n xs n w P y = w y.
Proof.
  intros H n. induction n as [|n IH]; intros y Hy; cbn [push_n]; [reflexivity|].
  rewrite (push_n_ext_in n (push xs w P) w P); [apply IH; exact Hy| |exact Hy].
  intros x Hx. apply H. exact Hx.
Qed.

Lemma chain_stays w P :
  invariant xs w P ->
  forall n y, In y xs -> push_n xs n (normalised xs w) P y = normalised xs w y.
Proof.
  intros H n y Hy. unfold normalised, Rdiv.
  apply (push_n_fixed (fun x => w x * / rsum xs w) P); [|exact Hy].
  apply invariant_scale. exact H.
Qed.

Lemma normalised_sums_to_one w :
  positive xs w -> xs <> [] -> rsum xs (normalised xs w) = 1.
Proof.
  intros Hpos Hne. unfold normalised, Rdiv. rewrite rsum_scal_r.
  assert (0 < rsum xs w).
  { destruct xs as [|a l]; [contradiction|].
    apply (rsum_pos_in (a :: l) w a).
    - intros x Hx. apply Rlt_le, Hpos, Hx.
    - left; reflexivity.
    - apply Hpos. left; reflexivity. }
  field. lra.
Qed.

(* -------------------------------------------------------------------------------- *)
(* Metropolis-Hastings                                                              *)
(* -------------------------------------------------------------------------------- *)
Lemma min_swap s t : 0 < s -> 0 < t -> s * Rmin 1 (t / s) = Rmin s t.
Proof.
  intros Hs Ht.
  assert (E : t / s * s = t) by (field; lra).
  unfold Rmin. destruct (Rle_dec 1 (t / s)) as [H1|H1], (Rle_dec s t) as [H2|H2].
  - lra.
  - exfalso. assert (s <= t / s * s) by nra. lra.
  - exfalso. assert (t / s * s < s) by nra. lra.
  - lra.
Qed.

Lemma exp_ratio a b c d :
  0 < a -> 0 < b -> 0 < c -> 0 < d ->
  exp (ln b - ln a + (ln d - ln c)) = (b * d) / (a * c).
Proof.
  intros Ha Hb Hc Hd. unfold Rminus.
  rewrite !exp_plus, !exp_Ropp, !exp_ln by assumption. field. lra.
Qed.

Lemma accept_prob_range l : 0 <= accept_prob l <= 1.
Proof.
  unfold accept_prob. split.
  - apply Rmin_glb; [lra|]. left. apply exp_pos.
  - apply Rmin_l.
Qed.

Section MH.
Variable w : X -> R.
Variables q corr : X -> X -> R.
Hypothesis w_pos : positive xs w.
Hypothesis q_nonneg : forall x y, In x xs -> In y xs -> 0 <= q x y.
(* symmetric support: a move that can be proposed can be proposed back *)
Hypothesis q_supp : forall x y, In x xs -> In y xs -> q x y = 0 -> q y x = 0.
(* the log-correction is log q(x|x') - log q(x'|x) wherever the proposal can go *)
Hypothesis corr_ok : forall x y, In x xs -> In y xs -> 0 < q x y -> corr x y = hastings_corr q x y.

Lemma mh_off_db x y : In x xs -> In y xs -> w x * mh_off w q corr x y = w y * mh_off w q corr y x.
Proof.
  intros Hx Hy. unfold mh_off.
  destruct (Req_dec (q x y) 0) as [Z|NZ].
  - rewrite Z, (q_supp x y Hx Hy Z). lra.
  - assert (Hxy : 0 < q x y) by (specialize (q_nonneg x y Hx Hy); lra).
    assert (Hyx : 0 < q y x).
    { destruct (Req_dec (q y x) 0) as [Z'|NZ'].
      - exfalso. apply NZ. apply q_supp; assumption.
      - specialize (q_nonneg y x Hy Hx). lra. }
    rewrite (corr_ok x y Hx Hy Hxy), (corr_ok y x Hy Hx Hyx). unfold hastings_corr, accept_prob.
    pose proof (w_pos x Hx) as Wx. pose proof (w_pos y Hy) as Wy.
    rewrite (exp_ratio (w x) (w y) (q x y) (q y x)) by assumption.
    rewrite (exp_ratio (w y) (w x) (q y x) (q x y)) by assumption.
    assert (S : 0 < w x * q x y) by (apply Rmult_lt_0_compat; assumption).
    assert (T : 0 < w y * q y x) by (apply Rmult_lt_0_compat; assumption).
    rewrite <- !Rmult_assoc.
    rewrite (min_swap (w x * q x y) (w y * q y x) S T).
    rewrite (min_swap (w y * q y x) (w x * q x y) T S).
    apply Rmin_comm.
Qed.

Lemma mh_detailed_balance : detailed_balance xs w (mh_kernel eqb xs w q corr).
Proof.
  apply with_diag_db. intros x y Hx Hy _. apply mh_off_db; assumption.
Qed.

Lemma mh_invariant : invariant xs w (mh_kernel eqb xs w q corr).
Proof.
  apply db_invariant; [apply mh_detailed_balance|].
  intros x Hx. apply with_diag_rowsum. exact Hx.
Qed.

Lemma mh_stochastic :
  (forall x, In x xs -> rsum xs (q x) <= 1) -> stochastic xs (mh_kernel eqb xs w q corr).
Proof.
  intros Hrow. apply with_diag_stochastic.
  - intros x y Hx Hy. unfold mh_off. apply Rmult_le_pos; [apply q_nonneg; assumption|].
    apply accept_prob_range.
  - intros x Hx. apply Rle_trans with (rsum xs (q x)); [|apply Hrow; exact Hx].
    apply rsum_le. intros z Hz. destruct (eqb x z).
    + apply q_nonneg; assumption.
    + unfold mh_off. pose proof (accept_prob_range (ln (w z) - ln (w x) + corr x z)).
      pose proof (q_nonneg x z Hx Hz). nra.
Qed.
End MH.

(* -------------------------------------------------------------------------------- *)
(* deterministic involutions (HMC skeleton)                                         *)
(* -------------------------------------------------------------------------------- *)
Section Involution.
Variable w : X -> R.
Variable T : X -> X.
Hypothesis w_pos : positive xs w.
Hypothesis T_closed : forall x, In x xs -> In (T x) xs.
Hypothesis T_invol : forall x, In x xs -> T (T x) = x.

Lemma inv_off_db x y : In x xs -> In y xs -> w x * inv_off eqb w T x y = w y * inv_off eqb w T y x.
Proof.
  intros Hx Hy. unfold inv_off.
  pose proof (w_pos x Hx) as Wx. pose proof (w_pos y Hy) as Wy.
  destruct (eqb y (T x)) eqn:E.
  - apply eqb_spec in E. subst y. rewrite (T_invol x Hx), (eqb_refl eqb eqb_spec).
    rewrite (min_swap (w x) (w (T x)) Wx Wy), (min_swap (w (T x)) (w x) Wy Wx).
    apply Rmin_comm.
  - rewrite (eqb_neq eqb eqb_spec x (T y)); [lra|].
    intros H. apply (eqb_false eqb eqb_spec) in E. apply E.
    rewrite H. symmetry. apply T_invol. exact Hy.
Qed.

Lemma inv_off_nonneg x y : In x xs -> 0 <= inv_off eqb w T x y.
Proof.
  intros Hx. unfold inv_off. destruct (eqb y (T x)); [|lra].
  apply Rmin_glb; [lra|]. apply Rlt_le, Rdiv_lt_0_compat; [apply w_pos, T_closed, Hx|apply w_pos, Hx].
Qed.

Lemma involutive_detailed_balance : detailed_balance xs w (involutive_kernel eqb xs w T).
Proof. apply with_diag_db. intros x y Hx Hy _. apply inv_off_db; assumption. Qed.

Lemma involutive_invariant : invariant xs w (involutive_kernel eqb xs w T).
Proof.
  apply db_invariant; [apply involutive_detailed_balance|].
  intros x Hx. apply with_diag_rowsum. exact Hx.
Qed.

Lemma involutive_stochastic : stochastic xs (involutive_kernel eqb xs w T).
Proof.
  apply with_diag_stochastic.
  - intros x y Hx _. apply inv_off_nonneg. exact Hx.
  - intros x Hx.
    apply Rle_trans with (rsum xs (fun z => if eqb (T x) z then 1 else 0)).
    + apply rsum_le. intros z _. unfold inv_off. rewrite (eqb_sym eqb eqb_spec z (T x)).
      destruct (eqb x z), (eqb (T x) z); try lra. apply Rmin_l.
    + rewrite (rsum_delta eqb eqb_spec xs (T x) (fun _ => 1) xs_nodup (T_closed x Hx)). lra.
Qed.

(* the same kernel seen as Metropolis-Hastings with the point-mass proposal at T x and no
   correction *)
Lemma involutive_is_mh x y : In x xs -> In y xs ->
  involutive_kernel eqb xs w T x y =
  mh_kernel eqb xs w (fun a b => if eqb b (T a) then 1 else 0) (fun _ _ => 0) x y.
Proof.
  intros Hx Hy.
  assert (Off : forall z, In z xs ->
             inv_off eqb w T x z = mh_off w (fun a b => if eqb b (T a) then 1 else 0) (fun _ _ => 0) x z).
  { intros z Hz. unfold inv_off, mh_off, accept_prob. destruct (eqb z (T x)) eqn:E; [|lra].
    apply eqb_spec in E. subst z.
    replace (ln (w (T x)) - ln (w x) + 0) with (ln (w (T x)) - ln (w x) + (ln 1 - ln 1)) by lra.
    rewrite (exp_ratio (w x) (w (T x)) 1 1); try lra; [|apply w_pos, Hx|apply w_pos, Hz].
    replace (w (T x) * 1 / (w x * 1)) with (w (T x) / w x); [lra|].
    field. pose proof (w_pos x Hx). lra. }
  unfold involutive_kernel, mh_kernel, with_diag. destruct (eqb x y).
  - f_equal. apply rsum_ext_in. intros z Hz. destruct (eqb x z); [reflexivity|]. apply Off, Hz.
  - apply Off, Hy.
Qed.
End Involution.

(* -------------------------------------------------------------------------------- *)
(* Gibbs: redraw the state from the target conditioned on the untouched part r(x)    *)
(* -------------------------------------------------------------------------------- *)
Section Gibbs.
Context {B : Type}.
Variable beqb : B -> B -> bool.
Hypothesis beqb_spec : eqb_ok beqb.
Variable r : X -> B.
Variable w : X -> R.
Hypothesis w_pos : positive xs w.

Lemma cond_norm_pos y : In y xs -> 0 < cond_norm xs beqb r w (r y).
Proof.
  intros Hy. unfold cond_norm.
  apply (rsum_pos_in xs _ y).
  - intros z Hz. destruct (beqb (r y) (r z)); [apply Rlt_le, w_pos, Hz|lra].
  - exact Hy.
  - rewrite (eqb_refl beqb beqb_spec). apply w_pos, Hy.
Qed.

Lemma gibbs_invariant : invariant xs w (gibbs_kernel xs beqb r w).
Proof.
  intros y Hy. unfold gibbs_kernel.
  pose proof (cond_norm_pos y Hy) as Zp.
  rewrite (rsum_ext_in xs _
     (fun x => (if beqb (r y) (r x) then w x else 0) * (w y / cond_norm xs beqb r w (r y)))).
  - rewrite rsum_scal_r. fold (cond_norm xs beqb r w (r y)). field. lra.
  - intros x _. rewrite (eqb_sym beqb beqb_spec (r y) (r x)).
    destruct (beqb (r x) (r y)) eqn:E; [|lra].
    apply beqb_spec in E. rewrite E. lra.
Qed.

Lemma gibbs_stochastic : stochastic xs (gibbs_kernel xs beqb r w).
Proof.
  split.
  - intros x y Hx Hy. unfold gibbs_kernel. destruct (beqb (r x) (r y)); [|lra].
    apply Rlt_le, Rdiv_lt_0_compat; [apply w_pos, Hy|apply cond_norm_pos, Hx].
  - intros x Hx. unfold gibbs_kernel.
    pose proof (cond_norm_pos x Hx) as Zp.
    rewrite (rsum_ext_in xs _
       (fun y => (if beqb (r x) (r y) then w y else 0) * / cond_norm xs beqb r w (r x))).
    + rewrite rsum_scal_r. fold (cond_norm xs beqb r w (r x)). field. lra.
    + intros y _. destruct (beqb (r x) (r y)); unfold Rdiv; lra.
Qed.

(* the kernel never changes the part it conditions on *)
Lemma gibbs_keeps_rest x y : r x <> r y -> gibbs_kernel xs beqb r w x y = 0.
Proof. intros H. unfold gibbs_kernel. rewrite (eqb_neq beqb beqb_spec _ _ H). reflexivity. Qed.

(* and inside a fibre it is the normalised target: the exact full conditional *)
Lemma gibbs_is_conditional x y : r x = r y ->
  gibbs_kernel xs beqb r w x y = w y / cond_norm xs beqb r w (r y).
Proof. intros H. unfold gibbs_kernel. rewrite H, (eqb_refl beqb beqb_spec). reflexivity. Qed.
End Gibbs.
End Generic.

(* ------------------------------------------------------------------------------------ *)
(* product spaces: kernels acting on one block of (block, rest)                          *)
(* ------------------------------------------------------------------------------------ *)
Lemma NoDup_app_disjoint {A} (l1 l2 : list A) :
  NoDup l1 -> NoDup l2 -> (forall x, In x l1 -> ~ In x l2) -> NoDup (l1 ++ l2).
Proof.
  induction l1 as [|a l IH]; intros H1 H2 Hd; [exact H2|].
  inversion H1 as [|a' l' Hna Hnd]; subst. cbn [app]. constructor.
  - rewrite in_app_iff. intros [H|H]; [contradiction|].
    apply (Hd a); [left; reflexivity|exact H].
  - apply IH; try assumption. intros x Hx. apply Hd. right. exact Hx.
Qed.

Lemma NoDup_list_prod' {A B} (la : list A) (lb : list B) :
  NoDup la -> NoDup lb -> NoDup (list_prod la lb).
Proof.
  induction la as [|a la IH]; intros Ha Hb; [constructor|].
  inversion Ha as [|a' l' Hna Hnd]; subst. cbn [list_prod].
  apply NoDup_app_disjoint.
  - apply Injective_map_NoDup; [|exact Hb]. intros b1 b2 E. congruence.
  - apply IH; assumption.
  - intros [a1 b1] H1 H2. apply in_map_iff in H1. destruct H1 as [b [E _]].
    apply in_prod_iff in H2. destruct H2 as [H2 _]. congruence.
Qed.

Lemma rsum_list_prod {A B} (la : list A) (lb : list B) (f : A * B -> R) :
  rsum (list_prod la lb) f = rsum la (fun a => rsum lb (fun b => f (a, b))).
Proof.
  induction la as [|a la IH]; [reflexivity|].
  cbn [list_prod]. rewrite rsum_app, rsum_map, IH, rsum_cons. reflexivity.
Qed.

Section Product.
Context {A B : Type}.
Variable aeqb : A -> A -> bool.
Variable beqb : B -> B -> bool.
Hypothesis aeqb_spec : eqb_ok aeqb.
Hypothesis beqb_spec : eqb_ok beqb.
Variable la : list A.
Variable lb : list B.
Hypothesis la_nodup : NoDup la.
Hypothesis lb_nodup : NoDup lb.

Lemma pair_eqb_ok : eqb_ok (pair_eqb aeqb beqb).
Proof.
  intros [a b] [a' b']. unfold pair_eqb. cbn [fst snd]. rewrite andb_true_iff.
  rewrite (aeqb_spec a a'), (beqb_spec b b'). split; [intros [-> ->]; reflexivity|].
  intros E. inversion E. split; reflexivity.
Qed.

Let xs := list_prod la lb.
Let peqb := pair_eqb aeqb beqb.

Lemma prod_nodup : NoDup xs.
Proof. apply NoDup_list_prod'; assumption. Qed.

Variable w : A * B -> R.
Hypothesis w_pos : positive xs w.

(* --- MH on the block, joint weight as target --- *)
Variable qb corrb : B -> A -> A -> R.
Hypothesis qb_nonneg : forall b a a', In b lb -> In a la -> In a' la -> 0 <= qb b a a'.
Hypothesis qb_supp : forall b a a', In b lb -> In a la -> In a' la -> qb b a a' = 0 -> qb b a' a = 0.
Hypothesis corrb_ok : forall b a a', In b lb -> In a la -> In a' la -> 0 < qb b a a' ->
  corrb b a a' = hastings_corr (qb b) a a'.

Let qL := lift_block beqb qb.
Let corrL := lift_block beqb corrb.

Lemma lift_nonneg x y : In x xs -> In y xs -> 0 <= qL x y.
Proof.
  destruct x as [a b], y as [a' b']. intros Hx Hy.
  apply in_prod_iff in Hx. apply in_prod_iff in Hy.
  unfold qL, lift_block. cbn [fst snd]. destruct (beqb b b'); [|lra].
  apply qb_nonneg; tauto.
Qed.

Lemma lift_supp x y : In x xs -> In y xs -> qL x y = 0 -> qL y x = 0.
Proof.
  destruct x as [a b], y as [a' b']. intros Hx Hy.
  apply in_prod_iff in Hx. apply in_prod_iff in Hy.
  unfold qL, lift_block. cbn [fst snd]. rewrite (eqb_sym beqb beqb_spec b' b).
  destruct (beqb b b') eqn:E; [|reflexivity].
  apply beqb_spec in E. subst b'. apply qb_supp; tauto.
Qed.

Lemma lift_corr x y : In x xs -> In y xs -> 0 < qL x y -> corrL x y = hastings_corr qL x y.
Proof.
  destruct x as [a b], y as [a' b']. intros Hx Hy.
  apply in_prod_iff in Hx. apply in_prod_iff in Hy.
  unfold corrL, qL, hastings_corr, lift_block. cbn [fst snd]. rewrite (eqb_sym beqb beqb_spec b' b).
  destruct (beqb b b') eqn:E; [|lra].
  apply beqb_spec in E. subst b'. intros Hq.
  rewrite (corrb_ok b a a') by tauto. reflexivity.
Qed.

Lemma block_mh_invariant : invariant xs w (mh_kernel peqb xs w qL corrL).
Proof.
  apply (mh_invariant peqb pair_eqb_ok xs prod_nodup w qL corrL w_pos).
  - exact lift_nonneg.
  - exact lift_supp.
  - exact lift_corr.
Qed.

Lemma block_mh_detailed_balance : detailed_balance xs w (mh_kernel peqb xs w qL corrL).
Proof.
  apply (mh_detailed_balance peqb pair_eqb_ok xs w qL corrL w_pos).
  - exact lift_nonneg.
  - exact lift_supp.
  - exact lift_corr.
Qed.

Lemma lift_rowsum x : In x xs -> rsum xs (qL x) = rsum la (qb (snd x) (fst x)).
Proof.
  destruct x as [a b]. intros Hx. apply in_prod_iff in Hx. destruct Hx as [Ha Hb].
  unfold xs. rewrite rsum_list_prod. apply rsum_ext_in. intros a' _.
  unfold qL, lift_block. cbn [fst snd].
  apply (rsum_delta beqb beqb_spec lb b (fun _ => qb b a a') lb_nodup Hb).
Qed.

Lemma block_mh_stochastic :
  (forall b a, In b lb -> In a la -> rsum la (qb b a) <= 1) ->
  stochastic xs (mh_kernel peqb xs w qL corrL).
Proof.
  intros Hrow.
  apply (mh_stochastic peqb pair_eqb_ok xs prod_nodup w qL corrL lift_nonneg).
  intros x Hx. rewrite (lift_rowsum x Hx). destruct x as [a b].
  apply in_prod_iff in Hx. apply Hrow; tauto.
Qed.

(* the block kernel never changes the rest of the state *)
Lemma block_mh_keeps_rest a b a' b' : b <> b' -> mh_kernel peqb xs w qL corrL (a, b) (a', b') = 0.
Proof.
  intros H. unfold mh_kernel, with_diag, peqb, pair_eqb. cbn [fst snd].
  rewrite (eqb_neq beqb beqb_spec b b' H), andb_false_r.
  unfold mh_off, qL, lift_block. cbn [fst snd]. rewrite (eqb_neq beqb beqb_spec b b' H). lra.
Qed.

(* inside the fibre of b it is the MH kernel on the block alone whose target is the joint
   weight with the rest held fixed (an unnormalised version of the full conditional) *)
Lemma block_mh_is_conditional a b a' : In a la -> In b lb ->
  mh_kernel peqb xs w qL corrL (a, b) (a', b)
  = mh_kernel aeqb la (fun c => w (c, b)) (qb b) (corrb b) a a'.
Proof.
  intros Ha Hb.
  assert (Off : forall c, mh_off w qL corrL (a, b) (c, b)
                          = mh_off (fun c => w (c, b)) (qb b) (corrb b) a c).
  { intros c. unfold mh_off, qL, corrL, lift_block. cbn [fst snd].
    rewrite (eqb_refl beqb beqb_spec). reflexivity. }
  unfold mh_kernel, with_diag, peqb, pair_eqb. cbn [fst snd].
  rewrite (eqb_refl beqb beqb_spec), andb_true_r.
  destruct (aeqb a a'); [|apply Off].
  f_equal. unfold xs. rewrite rsum_list_prod. apply rsum_ext_in. intros c _.
  cbn [fst snd].
  rewrite (rsum_ext_in lb _
     (fun b' => if beqb b b' then (if aeqb a c then 0 else mh_off w qL corrL (a, b) (c, b)) else 0)).
  - rewrite (rsum_delta beqb beqb_spec lb b
             (fun _ => if aeqb a c then 0 else mh_off w qL corrL (a, b) (c, b)) lb_nodup Hb).
    rewrite Off. reflexivity.
  - intros b' _. destruct (beqb b b') eqn:E.
    + apply beqb_spec in E. subst b'. rewrite andb_true_r. reflexivity.
    + rewrite andb_false_r. unfold mh_off, qL, lift_block. cbn [fst snd]. rewrite E. lra.
Qed.

(* --- Gibbs on the block: r = snd --- *)
Lemma block_gibbs_invariant : invariant xs w (gibbs_kernel xs beqb snd w).
Proof. apply (gibbs_invariant xs beqb beqb_spec snd w w_pos). Qed.

Lemma block_gibbs_stochastic : stochastic xs (gibbs_kernel xs beqb snd w).
Proof. apply (gibbs_stochastic xs beqb beqb_spec snd w w_pos). Qed.

Lemma block_cond_norm b : In b lb ->
  cond_norm xs beqb snd w b = rsum la (fun a => w (a, b)).
Proof.
  intros Hb. unfold cond_norm, xs. rewrite rsum_list_prod.
  apply rsum_ext_in. intros a _. cbn [snd].
  apply (rsum_delta beqb beqb_spec lb b (fun b' => w (a, b')) lb_nodup Hb).
Qed.

Lemma block_gibbs_entries a b a' b' : In b lb ->
  gibbs_kernel xs beqb snd w (a, b) (a', b')
  = if beqb b b' then w (a', b) / rsum la (fun c => w (c, b)) else 0.
Proof.
  intros Hb. unfold gibbs_kernel. cbn [snd]. destruct (beqb b b') eqn:E; [|reflexivity].
  apply beqb_spec in E. subst b'. rewrite (block_cond_norm b Hb). reflexivity.
Qed.
End Product.

(* ------------------------------------------------------------------------------------ *)
(* HMC skeleton: momentum refresh (Gibbs on the momentum) followed by an accepted/rejected *)
(* deterministic involution (integrator followed by momentum flip) on position x momentum *)
(* ------------------------------------------------------------------------------------ *)
Section HMCSkeleton.
Context {Q M : Type}.
Variable qeqb : Q -> Q -> bool.
Variable meqb : M -> M -> bool.
Hypothesis qeqb_spec : eqb_ok qeqb.
Hypothesis meqb_spec : eqb_ok meqb.
Variable lq : list Q.
Variable lm : list M.
Hypothesis lq_nodup : NoDup lq.
Hypothesis lm_nodup : NoDup lm.
Let zs := list_prod lq lm.
Variable w : Q * M -> R.
Variable T : Q * M -> Q * M.
Hypothesis w_pos : positive zs w.
Hypothesis T_closed : forall z, In z zs -> In (T z) zs.
Hypothesis T_invol : forall z, In z zs -> T (T z) = z.

Lemma hmc_skeleton_invariant :
  invariant zs w (seq_kernel zs (gibbs_kernel zs qeqb fst w)
                               (involutive_kernel (pair_eqb qeqb meqb) zs w T)).
Proof.
  apply seq_invariant.
  - apply (gibbs_invariant zs qeqb qeqb_spec fst w w_pos).
  - apply (involutive_invariant (pair_eqb qeqb meqb) (pair_eqb_ok qeqb meqb qeqb_spec meqb_spec)
             zs (prod_nodup lq lm lq_nodup lm_nodup) w T w_pos T_invol).
Qed.

Lemma hmc_skeleton_stochastic :
  stochastic zs (seq_kernel zs (gibbs_kernel zs qeqb fst w)
                               (involutive_kernel (pair_eqb qeqb meqb) zs w T)).
Proof.
  apply seq_stochastic.
  - apply (gibbs_stochastic zs qeqb qeqb_spec fst w w_pos).
  - apply (involutive_stochastic (pair_eqb qeqb meqb) (pair_eqb_ok qeqb meqb qeqb_spec meqb_spec)
             zs (prod_nodup lq lm lq_nodup lm_nodup) w T w_pos T_closed).
Qed.
End HMCSkeleton.

(* ------------------------------------------------------------------------------------ *)
(* the property theorems in closed form (restated in Properties/C04.v)                   *)
(* ------------------------------------------------------------------------------------ *)
Definition mh_hyps {X} (xs : list X) (q corr : X -> X -> R) : Prop :=
  (forall x y, In x xs -> In y xs -> 0 <= q x y) /\
  (forall x y, In x xs -> In y xs -> q x y = 0 -> q y x = 0) /\
  (forall x y, In x xs -> In y xs -> 0 < q x y -> corr x y = ln (q y x) - ln (q x y)).

Theorem thm_mh_invariant :
  forall (X : Type) (eqb : X -> X -> bool), eqb_ok eqb ->
  forall xs : list X, NoDup xs ->
  forall (w : X -> R) (q corr : X -> X -> R),
  positive xs w -> mh_hyps xs q corr ->
  detailed_balance xs w (mh_kernel eqb xs w q corr) /\ invariant xs w (mh_kernel eqb xs w q corr).
Proof.
  intros X eqb He xs Hnd w q corr Hw (H1 & H2 & H3). split.
  - apply mh_detailed_balance; assumption.
  - apply mh_invariant; assumption.
Qed.

Theorem thm_rw_invariant :
  forall (X : Type) (eqb : X -> X -> bool), eqb_ok eqb ->
  forall xs : list X, NoDup xs ->
  forall (w : X -> R) (q : X -> X -> R),
  positive xs w ->
  (forall x y, In x xs -> In y xs -> 0 <= q x y) ->
  (forall x y, In x xs -> In y xs -> q x y = q y x) ->
  invariant xs w (mh_kernel eqb xs w q (fun _ _ => 0)).
Proof.
  intros X eqb He xs Hnd w q Hw Hnn Hsym.
  apply mh_invariant; try assumption.
  - intros x y Hx Hy Z. rewrite <- (Hsym x y Hx Hy). exact Z.
  - intros x y Hx Hy _. unfold hastings_corr. rewrite (Hsym x y Hx Hy). lra.
Qed.

Theorem thm_mh_stochastic :
  forall (X : Type) (eqb : X -> X -> bool), eqb_ok eqb ->
  forall xs : list X, NoDup xs ->
  forall (w : X -> R) (q corr : X -> X -> R),
  proposal xs q -> stochastic xs (mh_kernel eqb xs w q corr).
Proof.
  intros X eqb He xs Hnd w q corr [Hnn Hrow].
  apply mh_stochastic; try assumption.
  intros x Hx. rewrite (Hrow x Hx). lra.
Qed.

Theorem thm_gibbs_invariant :
  forall (X B : Type) (beqb : B -> B -> bool), eqb_ok beqb ->
  forall (xs : list X) (r : X -> B) (w : X -> R), positive xs w ->
  invariant xs w (gibbs_kernel xs beqb r w) /\ stochastic xs (gibbs_kernel xs beqb r w)
  /\ (forall x y, r x <> r y -> gibbs_kernel xs beqb r w x y = 0)
  /\ (forall x y, r x = r y -> gibbs_kernel xs beqb r w x y = w y / cond_norm xs beqb r w (r y)).
Proof.
  intros X B beqb Hb xs r w Hw. repeat split.
  - apply gibbs_invariant; assumption.
  - apply (gibbs_stochastic xs beqb Hb r w Hw).
  - apply (gibbs_stochastic xs beqb Hb r w Hw).
  - apply gibbs_keeps_rest; assumption.
  - apply gibbs_is_conditional; assumption.
Qed.

Theorem thm_involutive_invariant :
  forall (X : Type) (eqb : X -> X -> bool), eqb_ok eqb ->
  forall xs : list X, NoDup xs ->
  forall (w : X -> R) (T : X -> X), positive xs w ->
  (forall x, In x xs -> In (T x) xs) -> (forall x, In x xs -> T (T x) = x) ->
  detailed_balance xs w (involutive_kernel eqb xs w T)
  /\ invariant xs w (involutive_kernel eqb xs w T)
  /\ stochastic xs (involutive_kernel eqb xs w T).
Proof.
  intros X eqb He xs Hnd w T Hw Hc Hi. repeat split.
  - apply involutive_detailed_balance; assumption.
  - apply involutive_invariant; assumption.
  - apply (involutive_stochastic eqb He xs Hnd w T Hw Hc).
  - apply (involutive_stochastic eqb He xs Hnd w T Hw Hc).
Qed.

Theorem thm_blockwise_mh :
  forall (A B : Type) (aeqb : A -> A -> bool) (beqb : B -> B -> bool),
  eqb_ok aeqb -> eqb_ok beqb ->
  forall (la : list A) (lb : list B), NoDup la -> NoDup lb ->
  forall (w : A * B -> R), positive (list_prod la lb) w ->
  forall qb corrb : B -> A -> A -> R,
  (forall b, In b lb -> mh_hyps la (qb b) (corrb b)) ->
  let P := mh_kernel (pair_eqb aeqb beqb) (list_prod la lb) w (lift_block beqb qb) (lift_block beqb corrb) in
  invariant (list_prod la lb) w P
  /\ (forall a b a' b', b <> b' -> P (a, b) (a', b') = 0)
  /\ (forall a b a', In a la -> In b lb ->
        P (a, b) (a', b) = mh_kernel aeqb la (fun c => w (c, b)) (qb b) (corrb b) a a').
Proof.
  intros A B aeqb beqb Ha Hb la lb Hna Hnb w Hw qb corrb H P.
  assert (H1 : forall b a a', In b lb -> In a la -> In a' la -> 0 <= qb b a a').
  { intros b a a' Hb' Ha1 Ha2. destruct (H b Hb') as (h & _ & _). apply h; assumption. }
  assert (H2 : forall b a a', In b lb -> In a la -> In a' la -> qb b a a' = 0 -> qb b a' a = 0).
  { intros b a a' Hb' Ha1 Ha2. destruct (H b Hb') as (_ & h & _). apply h; assumption. }
  assert (H3 : forall b a a', In b lb -> In a la -> In a' la -> 0 < qb b a a' ->
                 corrb b a a' = hastings_corr (qb b) a a').
  { intros b a a' Hb' Ha1 Ha2. destruct (H b Hb') as (_ & _ & h). apply h; assumption. }
  repeat split.
  - apply block_mh_invariant; assumption.
  - intros a b a' b' Hne. apply block_mh_keeps_rest; assumption.
  - intros a b a' Hia Hib. apply block_mh_is_conditional; assumption.
Qed.

Theorem thm_blockwise_gibbs :
  forall (A B : Type) (beqb : B -> B -> bool), eqb_ok beqb ->
  forall (la : list A) (lb : list B), NoDup lb ->
  forall (w : A * B -> R), positive (list_prod la lb) w ->
  let P := gibbs_kernel (list_prod la lb) beqb snd w in
  invariant (list_prod la lb) w P
  /\ stochastic (list_prod la lb) P
  /\ (forall a b a' b', In b lb ->
        P (a, b) (a', b') = if beqb b b' then w (a', b) / rsum la (fun c => w (c, b)) else 0).
Proof.
  intros A B beqb Hb la lb Hnb w Hw P. repeat split.
  - apply block_gibbs_invariant; assumption.
  - apply (block_gibbs_stochastic beqb Hb la lb w Hw).
  - apply (block_gibbs_stochastic beqb Hb la lb w Hw).
  - intros a b a' b' Hib. apply block_gibbs_entries; assumption.
Qed.

Theorem thm_sequence_invariant :
  forall (X : Type) (eqb : X -> X -> bool), eqb_ok eqb ->
  forall xs : list X, NoDup xs ->
  forall (w : X -> R) (Ps : list (X -> X -> R)),
  Forall (invariant xs w) Ps -> invariant xs w (seq_kernels eqb xs Ps).
Proof. intros. apply seq_kernels_invariant; assumption. Qed.

Theorem thm_sequence_stochastic :
  forall (X : Type) (eqb : X -> X -> bool), eqb_ok eqb ->
  forall xs : list X, NoDup xs ->
  forall (Ps : list (X -> X -> R)),
  Forall (stochastic xs) Ps -> stochastic xs (seq_kernels eqb xs Ps).
Proof. intros. apply seq_kernels_stochastic; assumption. Qed.

Theorem thm_n_steps :
  forall (X : Type) (eqb : X -> X -> bool), eqb_ok eqb ->
  forall xs : list X, NoDup xs ->
  forall (w : X -> R) (P : X -> X -> R), invariant xs w P ->
  forall n, invariant xs w (iter_kernel eqb xs n P).
Proof. intros. apply iter_invariant; assumption. Qed.

Theorem thm_chain_stays_posterior :
  forall (X : Type) (xs : list X) (w : X -> R) (P : X -> X -> R), invariant xs w P ->
  forall n y, In y xs -> push_n xs n (normalised xs w) P y = normalised xs w y.
Proof. intros. apply chain_stays; assumption. Qed.

(* ------------------------------------------------------------------------------------ *)
(* concrete objects: the hypotheses are satisfiable, and they are needed                 *)
(* ------------------------------------------------------------------------------------ *)
Definition xs3 : list nat := [0; 1; 2]%nat.
Definition w3 (x : nat) : R := match x with 0%nat => 4 | 1%nat => 1 | _ => 2 end.
(* an asymmetric proposal *)
Definition q3 (x y : nat) : R :=
  match x, y with
  | 0%nat, 0%nat => 1/2 | 0%nat, 1%nat => 1/4 | 0%nat, _ => 1/4
  | 1%nat, 0%nat => 1/8 | 1%nat, 1%nat => 1/2 | 1%nat, _ => 3/8
  | _, 0%nat => 1/2 | _, 1%nat => 1/4 | _, _ => 1/4
  end.
(* a symmetric proposal with zero entries (nearest neighbour walk on 0 - 1 - 2) *)
Definition q3s (x y : nat) : R :=
  match x, y with
  | 0%nat, 0%nat => 1/2 | 0%nat, 1%nat => 1/2 | 0%nat, _ => 0
  | 1%nat, 0%nat => 1/2 | 1%nat, 1%nat => 0 | 1%nat, _ => 1/2
  | _, 0%nat => 0 | _, 1%nat => 1/2 | _, _ => 1/2
  end.
(* an involution: swap 0 and 1, fix 2 *)
Definition T3 (x : nat) : nat := match x with 0%nat => 1%nat | 1%nat => 0%nat | _ => x end.

Ltac in_cases :=
  repeat match goal with
         | H : In _ _ |- _ => cbn [In xs3] in H
         | H : _ \/ _ |- _ => destruct H
         | H : False |- _ => destruct H
         end; subst.

Lemma xs3_nodup : NoDup xs3.
Proof. unfold xs3. repeat constructor; cbn; intuition discriminate. Qed.

Lemma w3_pos : positive xs3 w3.
Proof. intros x Hx. unfold xs3 in Hx. in_cases; cbn; lra. Qed.

Lemma q3_hyps : mh_hyps xs3 q3 (hastings_corr q3).
Proof.
  repeat split.
  - intros x y Hx Hy. unfold xs3 in *. in_cases; cbn; lra.
  - intros x y Hx Hy. unfold xs3 in *. in_cases; cbn; lra.
Qed.

Lemma q3_proposal : proposal xs3 q3.
Proof.
  split.
  - intros x y Hx Hy. unfold xs3 in *. in_cases; cbn; lra.
  - intros x Hx. unfold xs3 in *. in_cases; cbn; lra.
Qed.

Lemma ex3_mh :
  invariant xs3 w3 (mh_kernel Nat.eqb xs3 w3 q3 (hastings_corr q3))
  /\ stochastic xs3 (mh_kernel Nat.eqb xs3 w3 q3 (hastings_corr q3)).
Proof.
  split.
  - apply (thm_mh_invariant nat Nat.eqb Nat.eqb_eq xs3 xs3_nodup w3 q3 _ w3_pos q3_hyps).
  - apply (thm_mh_stochastic nat Nat.eqb Nat.eqb_eq xs3 xs3_nodup w3 q3 _ q3_proposal).
Qed.

Lemma ex3_rw : invariant xs3 w3 (mh_kernel Nat.eqb xs3 w3 q3s (fun _ _ => 0)).
Proof.
  apply (thm_rw_invariant nat Nat.eqb Nat.eqb_eq xs3 xs3_nodup w3 q3s w3_pos).
  - intros x y Hx Hy. unfold xs3 in *. in_cases; cbn; lra.
  - intros x y Hx Hy. unfold xs3 in *. in_cases; cbn; lra.
Qed.

Lemma ex3_involutive :
  invariant xs3 w3 (involutive_kernel Nat.eqb xs3 w3 T3)
  /\ involutive_kernel Nat.eqb xs3 w3 T3 0%nat 1%nat = 1/4
  /\ involutive_kernel Nat.eqb xs3 w3 T3 1%nat 0%nat = 1.
Proof.
  split; [|split].
  - apply (thm_involutive_invariant nat Nat.eqb Nat.eqb_eq xs3 xs3_nodup w3 T3 w3_pos).
    + intros x Hx. unfold xs3 in *. in_cases; cbn; tauto.
    + intros x Hx. unfold xs3 in *. in_cases; reflexivity.
  - cbv [involutive_kernel with_diag inv_off Nat.eqb T3 w3]. unfold Rmin.
    destruct (Rle_dec 1 (1 / 4)); lra.
  - cbv [involutive_kernel with_diag inv_off Nat.eqb T3 w3]. unfold Rmin.
    destruct (Rle_dec 1 (4 / 1)); lra.
Qed.

(* a 2 x 3 product space: block a in {0,1}, rest b in {0,1,2} *)
Definition la2 : list nat := [0; 1]%nat.
Definition w23 (z : nat * nat) : R :=
  match z with
  | (0%nat, 0%nat) => 1 | (0%nat, 1%nat) => 2 | (0%nat, _) => 4
  | (_, 0%nat) => 3 | (_, 1%nat) => 1/2 | (_, _) => 1
  end.

Lemma la2_nodup : NoDup la2.
Proof. unfold la2. repeat constructor; cbn; intuition discriminate. Qed.

Lemma w23_pos : positive (list_prod la2 xs3) w23.
Proof.
  intros [a b] H. apply in_prod_iff in H. destruct H as [Ha Hb].
  unfold la2, xs3 in *. in_cases; cbn; lra.
Qed.

Lemma ex23_gibbs :
  invariant (list_prod la2 xs3) w23 (gibbs_kernel (list_prod la2 xs3) Nat.eqb snd w23)
  /\ gibbs_kernel (list_prod la2 xs3) Nat.eqb snd w23 (0, 2)%nat (1, 2)%nat = 1/5.
Proof.
  split.
  - apply (thm_blockwise_gibbs nat nat Nat.eqb Nat.eqb_eq la2 xs3 xs3_nodup w23 w23_pos).
  - cbv [gibbs_kernel cond_norm rsum fold_right list_prod la2 xs3 map app snd Nat.eqb w23]. lra.
Qed.

(* a block proposal that looks at the rest: flip a with probability 1/2 when b = 0, else 1 *)
Definition qb23 (b a a' : nat) : R :=
  match b with
  | 0%nat => 1/2
  | _ => if Nat.eqb a a' then 0 else 1
  end.

Lemma qb23_hyps : forall b, In b xs3 -> mh_hyps la2 (qb23 b) (fun _ _ => 0).
Proof.
  intros b Hb. repeat split.
  - intros x y Hx Hy. unfold xs3, la2 in *. in_cases; cbn; lra.
  - intros x y Hx Hy. unfold xs3, la2 in *. in_cases; cbn; lra.
  - intros x y Hx Hy. unfold xs3, la2 in *. in_cases; cbn; try lra;
      intros _; rewrite ?ln_1; lra.
Qed.

Lemma ex23_block_mh :
  invariant (list_prod la2 xs3) w23
    (mh_kernel (pair_eqb Nat.eqb Nat.eqb) (list_prod la2 xs3) w23
       (lift_block Nat.eqb qb23) (lift_block Nat.eqb (fun _ _ _ => 0))).
Proof.
  apply (thm_blockwise_mh nat nat Nat.eqb Nat.eqb Nat.eqb_eq Nat.eqb_eq la2 xs3 la2_nodup xs3_nodup
           w23 w23_pos qb23 (fun _ _ _ => 0) qb23_hyps).
Qed.

Lemma ex23_sequence_and_steps :
  let zs := list_prod la2 xs3 in
  let G := gibbs_kernel zs Nat.eqb snd w23 in
  let K := mh_kernel (pair_eqb Nat.eqb Nat.eqb) zs w23 (lift_block Nat.eqb qb23)
             (lift_block Nat.eqb (fun _ _ _ => 0)) in
  forall n, invariant zs w23 (iter_kernel (pair_eqb Nat.eqb Nat.eqb) zs n
                                (seq_kernels (pair_eqb Nat.eqb Nat.eqb) zs [G; K; G])).
Proof.
  intros zs G K n.
  assert (Hnd : NoDup zs) by (apply NoDup_list_prod'; [apply la2_nodup|apply xs3_nodup]).
  assert (He : eqb_ok (pair_eqb Nat.eqb Nat.eqb)) by (apply pair_eqb_ok; exact Nat.eqb_eq).
  apply thm_n_steps; try assumption.
  apply thm_sequence_invariant; try assumption.
  assert (HG : invariant zs w23 G) by apply ex23_gibbs.
  repeat constructor; try assumption. apply ex23_block_mh.
Qed.

(* the hypothesis on the correction is needed: with the sign of the correction flipped
   (log q(x'|x) - log q(x|x'), the convention written in the docstring of MHProposal), or
   with the correction dropped, an asymmetric proposal does not leave the target invariant *)
Definition xs2 : list nat := [0; 1]%nat.
Definition w2 (x : nat) : R := 1.
Definition q2 (x y : nat) : R :=
  match x, y with
  | 0%nat, 0%nat => 1/2 | 0%nat, _ => 1/2
  | _, 0%nat => 1 | _, _ => 0
  end.

Lemma q2_proposal : proposal xs2 q2 /\ (forall x y, In x xs2 -> In y xs2 -> q2 x y = 0 -> q2 y x = 0).
Proof.
  repeat split.
  - intros x y Hx Hy. unfold xs2 in *. cbn [In] in *. in_cases; cbn; lra.
  - intros x Hx. unfold xs2 in *. cbn [In] in *. in_cases; cbn; lra.
  - intros x y Hx Hy. unfold xs2 in *. cbn [In] in *. in_cases; cbn; lra.
Qed.

Lemma Rmin_1_half : Rmin 1 (1 / 2) = 1 / 2.
Proof. unfold Rmin. destruct (Rle_dec 1 (1 / 2)); lra. Qed.

Lemma Rmin_1_2 : Rmin 1 2 = 1.
Proof. unfold Rmin. destruct (Rle_dec 1 2); lra. Qed.

Lemma Rmin_1_1 : Rmin 1 1 = 1.
Proof. unfold Rmin. destruct (Rle_dec 1 1); lra. Qed.

Lemma wrong_sign_not_invariant :
  ~ invariant xs2 w2 (mh_kernel Nat.eqb xs2 w2 q2 (fun x y => ln (q2 x y) - ln (q2 y x))).
Proof.
  intros H. pose proof (H 1%nat (or_intror (or_introl eq_refl))) as E.
  cbv [rsum fold_right xs2 mh_kernel with_diag mh_off accept_prob Nat.eqb w2 q2] in E.
  rewrite (exp_ratio 1 1 1 (1 / 2)) in E by lra.
  rewrite (exp_ratio 1 1 (1 / 2) 1) in E by lra.
  replace (1 * (1 / 2) / (1 * 1)) with (1 / 2) in E by lra.
  replace (1 * 1 / (1 * (1 / 2))) with 2 in E by lra.
  rewrite Rmin_1_half, Rmin_1_2 in E. lra.
Qed.

Lemma no_correction_not_invariant :
  ~ invariant xs2 w2 (mh_kernel Nat.eqb xs2 w2 q2 (fun _ _ => 0)).
Proof.
  intros H. pose proof (H 1%nat (or_intror (or_introl eq_refl))) as E.
  cbv [rsum fold_right xs2 mh_kernel with_diag mh_off accept_prob Nat.eqb w2 q2] in E.
  replace (ln 1 - ln 1 + 0) with 0 in E by lra.
  rewrite exp_0, Rmin_1_1 in E. lra.
Qed.

Lemma right_sign_invariant :
  invariant xs2 w2 (mh_kernel Nat.eqb xs2 w2 q2 (hastings_corr q2)).
Proof.
  apply thm_mh_invariant.
  - exact Nat.eqb_eq.
  - unfold xs2. repeat constructor; cbn; intuition discriminate.
  - intros x _. unfold w2. lra.
  - repeat split.
    + apply q2_proposal.
    + apply q2_proposal.
Qed.

Theorem thm_correction_needed :
  exists (xs : list nat) (w : nat -> R) (q : nat -> nat -> R),
    NoDup xs /\ positive xs w /\ proposal xs q /\
    (forall x y, In x xs -> In y xs -> q x y = 0 -> q y x = 0) /\
    invariant xs w (mh_kernel Nat.eqb xs w q (fun x y => ln (q y x) - ln (q x y))) /\
    ~ invariant xs w (mh_kernel Nat.eqb xs w q (fun x y => ln (q x y) - ln (q y x))) /\
    ~ invariant xs w (mh_kernel Nat.eqb xs w q (fun _ _ => 0)).
Proof.
  exists xs2, w2, q2. repeat split.
  - unfold xs2. repeat constructor; cbn; intuition discriminate.
  - intros x _. unfold w2. lra.
  - apply q2_proposal.
  - apply q2_proposal.
  - apply q2_proposal.
  - exact right_sign_invariant.
  - exact wrong_sign_not_invariant.
  - exact no_correction_not_invariant.
Qed.
