(* C04 - kernels driven by EXPLICIT randomness, and the PRNG keys of one KernelSequence transition.

   A liesel kernel is a deterministic function of (PRNG key, state).  Abstractly: the randomness omega is
   drawn from a finite list Om with probability pr omega and the transition is K omega : X -> X; its
   matrix is [mat_of].  KernelSequence.transition hands kernel i the key keys[i] of
   jax.random.split(prng_key, n):
     - [compose_indep]  : the kernels draw from INDEPENDENT randomness (pairwise distinct keys): the
                          matrix of the sequence is the matrix product (MarkovRandProofs), which is what
                          Markov.seq_kernel / C04_sequence_invariant talk about;
     - [compose_shared] : every kernel receives the SAME randomness (the same key): the matrix is in
                          general NOT the product and invariance is lost (refuted by a witness).
   Keys are paths in the splitting tree of Goose/Keys.v (DESIGN 4.3).  No proofs in this file. *)
From Coq Require Import Reals List Bool Arith.
Import ListNotations.
From LV Require Import Goose.Markov Goose.Keys.
Open Scope R_scope.

Section Rand.
Context {X : Type}.
Variable eqb : X -> X -> bool.

Definition ind (a b : X) : R := if eqb a b then 1 else 0.

Definition mat_of {W : Type} (Om : list W) (pr : W -> R) (K : W -> X -> X) (x y : X) : R :=
  rsum Om (fun om => pr om * ind (K om x) y).

Definition compose_indep {W1 W2 : Type} (K1 : W1 -> X -> X) (K2 : W2 -> X -> X) (p : W1 * W2) (x : X) : X :=
  K2 (snd p) (K1 (fst p) x).

Definition pr_indep {W1 W2 : Type} (pr1 : W1 -> R) (pr2 : W2 -> R) (p : W1 * W2) : R :=
  pr1 (fst p) * pr2 (snd p).

Definition compose_shared {W : Type} (K1 K2 : W -> X -> X) (om : W) (x : X) : X := K2 om (K1 om x).
End Rand.

(* kernel_sequence.py: keys = jax.random.split(prng_key, len(kernels)); kernel i gets keys[i] *)
Definition seq_keys (k : key) (m : nat) : list key := map (split k m) (seq 0 m).
(* the variant  `_, subkey = jax.random.split(prng_key)`  inside the loop, prng_key never advanced *)
Definition stale_keys (k : key) (m : nat) : list key := map (fun _ => split k 2 1) (seq 0 m).

(* what the theorems need of the keys of one transition: pairwise distinct, none is the carry *)
Definition keys_independent {K : Type} (carry : K) (ks : list K) : Prop := NoDup ks /\ ~ In carry ks.

(* witness objects for the refutation: states 0..3 encode (a, b) as 2a + b, omega in {0, 1} *)
Definition xs4 : list nat := [0; 1; 2; 3]%nat.
Definition om2 : list nat := [0; 1]%nat.
Definition pr2 (_ : nat) : R := 1 / 2.
Definition w4 (_ : nat) : R := 1.
(* block a := omega (b kept) / block b := omega (a kept): exact Gibbs draws for the uniform target *)
Definition Ka (om x : nat) : nat :=
  match x with
  | 0%nat | 2%nat => if Nat.eqb om 0 then 0%nat else 2%nat
  | _ => if Nat.eqb om 0 then 1%nat else 3%nat
  end.
Definition Kb (om x : nat) : nat :=
  match x with
  | 0%nat | 1%nat => if Nat.eqb om 0 then 0%nat else 1%nat
  | _ => if Nat.eqb om 0 then 2%nat else 3%nat
  end.
