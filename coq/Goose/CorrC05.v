(* Executable glue for the C05 correspondence shards. *)
From Coq Require Import List QArith Qabs Bool Arith.
Import ListNotations.
From LV Require Import Base.Xnum Base.ListAux Goose.MH.
Open Scope Q_scope.

Record mhcase := mkCase {
  c_cur : xnum; c_prop : xnum; c_corr : xnum; c_u : xnum;
  c_e : xnum;             (* jnp.exp of the model's own log ratio, supplied by the harness (oracle) *)
  i_code : nat; i_p : xnum; i_moved : bool; i_x : nat; i_aux : bool   (* observed on the implementation *)
}.

(* |a - b| <= 2^-18 * max(|b|, 2^-100) on finite values, equality on the others *)
Definition xclose (a b : xnum) : bool :=
  match a, b with
  | XFin p, XFin q => Qle_bool (Qabs (p - q)) ((1 # 262144) * (Qabs q + (1 # 1267650600228229401496703205376)))
  | _, _ => xeqb a b
  end.

Definition agrees (c : cmp) (k : mhcase) : bool :=
  let o1 := mh_decide (fun _ => c_e k) c (c_cur k) (c_prop k) (c_corr k) (c_u k) in
  (* the decision is taken on the implementation's own (reported) probability *)
  let o2 := mh_decide (fun _ => i_p k) c (c_cur k) (c_prop k) (c_corr k) (c_u k) in
  Nat.eqb (code o1) (i_code k)
  && xclose (prob o1) (i_p k)
  && xeqb (prob o2) (i_p k)
  && Bool.eqb (accept o2) (i_moved k)
  && Nat.eqb (mh_select o2 1%nat 0%nat) (i_x k)
  && i_aux k.
