(* Executable glue for the C05 correspondence shards. *)
From Coq Require Import List QArith Qabs Bool Arith.
Import ListNotations.
From LV Require Import Base.Xnum Base.ListAux Goose.MH.
Open Scope Q_scope.

Record mhcase := mkCase {
  c_cur : xnum; c_prop : xnum; c_corr : xnum; c_u : xnum;
  c_e : xnum;             (* jnp.exp of the model's own log ratio, supplied by the harness (oracle) *)
  i_code : nat; i_p : xnum; i_moved : bool; i_x : nat; i_aux : bool   (* observed on the implementation *)
}.

(* |a - b| <= 2^-18 * max(|b|, 2^-100) on finite values, equality on the others *)
Definition xclose (a b : xnum) : bool :=
  match a, b with
  | XFin p, XFin q => Qle_bool (Qabs (p - q)) ((1 # 262144) * (Qabs q + (1 # 1267650600228229401496703205376)))
  | _, _ => xeqb a b
  end.

Definition agrees (c : cmp) (k : mhcase) : bool :=
  let o1 := mh_decide (fun _ => c_e k) c (c_cur k) (c_prop k) (c_corr k) (c_u k) in
  (* the decision is taken on the implementation's own (reported) probability *)
  let o2 := mh_decide (fun _ => i_p k) c (c_cur k) (c_prop k) (c_corr k) (c_u k) in
  Nat.eqb (code o1) (i_code k)
  && xclose (prob o1) (i_p k)
  && xeqb (prob o2) (i_p k)
  && Bool.eqb (accept o2) (i_moved k)
  && Nat.eqb (mh_select o2 1%nat 0%nat) (i_x k)
  && i_aux k.

(* ---- kernel level (RWKernel / MHKernel / IWLSKernel transitions), model Goose/MHKernel.v ---- *)
From LV Require Import Goose.MHKernel.

Record kcase := mkKCase {
  kc_kind : kernel_kind;
  kc_g : kingr;           (* ingredients computed by the harness independently of the kernel *)
  kc_e : xnum;            (* jnp.exp of the float32 log ratio (oracle) *)
  ki_code : nat; ki_p : xnum; ki_moved : bool;   (* the kernel's transition info *)
  ki_sel : nat;           (* returned model state: 0 = input (bit-equal), 1 = proposed, 2 = neither *)
  ki_ks : bool            (* returned kernel state equals the one passed in *)
}.

(* the kernel's ingredients go through separately compiled XLA programs: |a - b| <= 2^-12 * max(|b|, 2^-100) *)
Definition xclose_k (a b : xnum) : bool :=
  match a, b with
  | XFin p, XFin q => Qle_bool (Qabs (p - q)) ((1 # 4096) * (Qabs q + (1 # 1267650600228229401496703205376)))
  | _, _ => xeqb a b
  end.

Definition kagrees (c : cmp) (k : kcase) : bool :=
  let r1 := kernel_transition (fun _ => kc_e k) Forward c (kc_kind k) (kc_g k) true 1%nat 0%nat in
  let r2 := kernel_transition (fun _ => ki_p k) Forward c (kc_kind k) (kc_g k) true 1%nat 0%nat in
  Nat.eqb (code (ko_info r1)) (ki_code k)
  && xclose_k (prob (ko_info r1)) (ki_p k)
  && xeqb (prob (ko_info r2)) (ki_p k)
  && Bool.eqb (accept (ko_info r2)) (ki_moved k)
  && Nat.eqb (ko_mstate r2) (ki_sel k)
  && ko_kstate r2 && ki_ks k.

(* the support library of the source tie (tools/py2gallina_c05.py, harness/lv/c05_tie.py) is required here only so
   that the targeted build of the check compiles it; nothing above uses it *)
From LV Require Goose.GenC05Tie.

(* ---- whole state tree: input / proposed (update_state through the interface) / returned state of mh_step,
   leaf by leaf over xnum (int and bool leaves as integers); NaN equals NaN, +inf equals +inf, ... ---- *)
Fixpoint xlist_eqb (a b : list xnum) : bool :=
  match a, b with
  | [], [] => true
  | x :: r, y :: s => xeqb x y && xlist_eqb r s
  | _, _ => false
  end.

Record mhcase_st := mkCaseSt { st_case : mhcase; st_in : list xnum; st_prop : list xnum; st_out : list xnum }.

Definition agrees_st (c : cmp) (k : mhcase_st) : bool :=
  let b := st_case k in
  let o2 := mh_decide (fun _ => i_p b) c (c_cur b) (c_prop b) (c_corr b) (c_u b) in
  agrees c b && xlist_eqb (mh_select o2 (st_prop k) (st_in k)) (st_out k).
