(* Executable glue for the C20 correspondence shards. *)
From Coq Require Import List ZArith NArith QArith Bool Arith.
Import ListNotations.
Close Scope Q_scope.
Open Scope nat_scope.
From LV Require Import Base.ListAux Goose.Stopper.

Definition alphabet : list Q := [0%Q; 1%Q; 2%Q; 3%Q].
Fixpoint hists (n : nat) : list (list Q) :=
  match n with
  | O => [[]]
  | S n' => flat_map (fun a => map (cons a) (hists n')) alphabet
  end.

Definition enum {A} (f : nat -> list Q -> A) (L : nat) : list A :=
  flat_map (fun h => map (fun i => f i h) (seq 0 L)) (hists L).

Definition enum_stop_early (s : stopper) (L : nat) := enum (stop_early s) L.
Definition enum_stop_now (s : stopper) (L : nat) := enum (stop_now s) L.
Definition enum_which_best (s : stopper) (L : nat) := enum (which_best s) L.

(* words of 2048 bits / 512 nibbles, each with a leading 1; an undefined entry (model error)
   poisons its word *)
Fixpoint chunks {A} (fuel : nat) (n : nat) (l : list A) : list (list A) :=
  match fuel with
  | O => []
  | S f => match l with [] => [] | _ => firstn n l :: chunks f n (skipn n l) end
  end.

Fixpoint pack_bits_from (l : list (option bool)) (acc : N) : N :=
  match l with
  | [] => acc
  | Some true :: r => pack_bits_from r (N.succ_double acc)
  | Some false :: r => pack_bits_from r (N.double acc)
  | None :: _ => 0%N
  end.
Definition pack_bits (l : list (option bool)) : list N :=
  map (fun w => pack_bits_from w 1%N) (chunks (S (length l)) 2048 l).

Fixpoint pack_nibbles_from (l : list (option Z)) (acc : N) : N :=
  match l with
  | [] => acc
  | Some z :: r => if ((-8 <=? z) && (z <=? 7))%Z
                   then pack_nibbles_from r (16 * acc + Z.to_N (z + 8))%N else 0%N
  | None :: _ => 0%N
  end.
Definition pack_nibbles (l : list (option Z)) : list N :=
  map (fun w => pack_nibbles_from w 1%N) (chunks (S (length l)) 512 l).

Definition nlist_eqb (a b : list N) : bool := list_eqb N.eqb a b.

Record ocase := mkOC {
  o_st : stopper; o_hv : bool; o_restore : bool; o_prune : bool; o_losses : list Q;
  o_it : nat; o_ib : Z; o_hlen : nat; o_nnan : nat;
  o_poshist : list Q;     (* recorded position history (exact dyadics, entries up to the last iteration) *)
  o_pos : Q }.            (* returned position *)

Definition is_none {A} (o : option A) : bool := match o with None => true | _ => false end.

Definition agrees_o (c : ocase) : bool :=
  let loss := fun k => nth k (o_losses c) 0%Q in
  match optim_flat_model (o_st c) (o_hv c) (o_restore c) loss with
  | Some o =>
      let j := out_iter o in
      let h := out_hist o in
      Nat.eqb j (o_it c)
      && (out_best o =? o_ib c)%Z
      && Nat.eqb (length (post_history (o_prune c) h j)) (o_hlen c)
      && Nat.eqb (length (filter is_none (post_history (o_prune c) h j))) (o_nnan c)
      && (0 <=? out_pos_index o)%Z
      && (Z.to_nat (out_pos_index o) <? length (o_poshist c))%nat
      && Qeq_bool (nth (Z.to_nat (out_pos_index o)) (o_poshist c) 0%Q) (o_pos c)
  | None => false
  end.

(* observed key of iteration j is the model's Advance key of iteration j *)
Definition agrees_keys (l : list nat) : bool := list_eqb Nat.eqb l (seq 0 (length l)).

(* the stale-carry variant (code as found, known finding F7): every iteration uses the key of iteration 0 *)
Definition agrees_keys_stale (l : list nat) : bool := forallb (Nat.eqb 0) l.
