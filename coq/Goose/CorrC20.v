(* Executable glue for the C20 correspondence shards. *)
From Coq Require Import List ZArith NArith QArith Bool Arith.
From Coq Require String.
Import ListNotations.
Close Scope Q_scope.
Open Scope nat_scope.
From LV Require Import Base.ListAux Goose.Stopper Goose.StopperPos.
(* support library of the source tie (tools/py2gallina_c20.py, harness/lv/c20_tie.py): required (not imported) here so
   that the targeted build of the C20 check compiles it *)
From LV Require Goose.GenC20Tie.

Definition alphabet : list Q := [0%Q; 1%Q; 2%Q; 3%Q].
Fixpoint hists (n : nat) : list (list Q) :=
  match n with
  | O => [[]]
  | S n' => flat_map (fun a => map (cons a) (hists n')) alphabet
  end.

Definition enum {A} (f : nat -> list Q -> A) (L : nat) : list A :=
  flat_map (fun h => map (fun i => f i h) (seq 0 L)) (hists L).

Definition enum_stop_early (s : stopper) (L : nat) := enum (stop_early s) L.
Definition enum_stop_now (s : stopper) (L : nat) := enum (stop_now s) L.
Definition enum_which_best (s : stopper) (L : nat) := enum (which_best s) L.

(* words of 2048 bits / 512 nibbles, each with a leading 1; an undefined entry (model error)
   poisons its word *)
Fixpoint chunks {A} (fuel : nat) (n : nat) (l : list A) : list (list A) :=
  match fuel with
  | O => []
  | S f => match l with [] => [] | _ => firstn n l :: chunks f n (skipn n l) end
  end.

Fixpoint pack_bits_from (l : list (option bool)) (acc : N) : N :=
  match l with
  | [] => acc
  | Some true :: r => pack_bits_from r (N.succ_double acc)
  | Some false :: r => pack_bits_from r (N.double acc)
  | None :: _ => 0%N
  end.
Definition pack_bits (l : list (option bool)) : list N :=
  map (fun w => pack_bits_from w 1%N) (chunks (S (length l)) 2048 l).

Fixpoint pack_nibbles_from (l : list (option Z)) (acc : N) : N :=
  match l with
  | [] => acc
  | Some z :: r => if ((-8 <=? z) && (z <=? 7))%Z
                   then pack_nibbles_from r (16 * acc + Z.to_N (z + 8))%N else 0%N
  | None :: _ => 0%N
  end.
Definition pack_nibbles (l : list (option Z)) : list N :=
  map (fun w => pack_nibbles_from w 1%N) (chunks (S (length l)) 512 l).

Definition nlist_eqb (a b : list N) : bool := list_eqb N.eqb a b.

Record ocase := mkOC {
  o_st : stopper; o_hv : bool; o_restore : bool; o_prune : bool; o_losses : list Q;
  o_it : nat; o_ib : Z; o_hlen : nat; o_nnan : nat;
  o_poshist : list Q;     (* recorded position history (exact dyadics, entries up to the last iteration) *)
  o_pos : Q }.            (* returned position *)

Definition is_none {A} (o : option A) : bool := match o with None => true | _ => false end.

Definition agrees_o (c : ocase) : bool :=
  let loss := fun k => nth k (o_losses c) 0%Q in
  match optim_flat_model (o_st c) (o_hv c) (o_restore c) loss with
  | Some o =>
      let j := out_iter o in
      let h := out_hist o in
      Nat.eqb j (o_it c)
      && (out_best o =? o_ib c)%Z
      && Nat.eqb (length (post_history (o_prune c) h j)) (o_hlen c)
      && Nat.eqb (length (filter is_none (post_history (o_prune c) h j))) (o_nnan c)
      && (0 <=? out_pos_index o)%Z
      && (Z.to_nat (out_pos_index o) <? length (o_poshist c))%nat
      && Qeq_bool (nth (Z.to_nat (out_pos_index o)) (o_poshist c) 0%Q) (o_pos c)
  | None => false
  end.

(* observed key of iteration j is the model's Advance key of iteration j *)
Definition agrees_keys (l : list nat) : bool := list_eqb Nat.eqb l (seq 0 (length l)).

(* the stale-carry variant (code as found, known finding F7): every iteration uses the key of iteration 0 *)
Definition agrees_keys_stale (l : list nat) : bool := forallb (Nat.eqb 0) l.

(* ---- part D: optim_flat with several named parameters (StopperPos.optim_flat_full) ---- *)
Record pcase := mkPC {
  p_st : stopper; p_hv : bool; p_restore : bool; p_save : bool; p_prune : bool;
  p_params : list name;                       (* as passed by the caller (order matters) *)
  p_losses : list Q;                          (* observed validation losses up to the last iteration *)
  p_script : dict (list value);               (* per name: the position after k iterations, k = 0, 1, ... *)
  p_err : nat;                                (* observed: 0 = returned, 1 = AssertionError (restore needs history) *)
  p_it : nat; p_ib : Z;
  p_position : dict value;                    (* observed OptimResult.position *)
  p_poshist : option (dict (list (option value)));   (* observed history["position"], NaN rows = None *)
  p_lossobs : list (option Q) }.              (* observed history["loss_validation"], NaN = None *)

Definition value_eqb (a b : value) : bool := list_eqb Qeq_bool a b.
Definition ovalue_eqb (a b : option value) : bool :=
  match a, b with Some x, Some y => value_eqb x y | None, None => true | _, _ => false end.
Definition oq_eqb (a b : option Q) : bool :=
  match a, b with Some x, Some y => Qeq_bool x y | None, None => true | _, _ => false end.
Definition opt_eqb {A} (eqb : A -> A -> bool) (a b : option A) : bool :=
  match a, b with Some x, Some y => eqb x y | None, None => true | _, _ => false end.

(* two dicts agree name by name on the caller's names and have no other keys (order is not compared) *)
Definition dict_agree {A} (eqb : A -> A -> bool) (names : list name) (model obs : dict A) : bool :=
  forallb (fun n => opt_eqb eqb (lookup n model) (lookup n obs)) names
  && forallb (fun n => negb (is_none (lookup n obs))) names
  && forallb (fun kv => existsb (String.eqb (fst kv)) names) obs
  && Nat.eqb (List.length obs) (List.length names).

Definition agrees_p (c : pcase) : bool :=
  let loss := fun k => nth k (p_losses c) 0%Q in
  let rec := fun k n => match lookup n (p_script c) with Some col => nth k col [] | None => [] end in
  match optim_flat_full (p_st c) (p_hv c) (p_restore c) (p_save c) (p_prune c) (p_params c) loss rec with
  | Err AssertRestoreNeedsHistory => Nat.eqb (p_err c) 1
  | Err _ => false
  | Ok o =>
      Nat.eqb (p_err c) 0
      && Nat.eqb (f_iter o) (p_it c)
      && (f_best o =? p_ib c)%Z
      && dict_agree value_eqb (p_params c) (f_position o) (p_position c)
      && match f_poshist o, p_poshist c with
         | None, None => true
         | Some m, Some ob => dict_agree (list_eqb ovalue_eqb) (p_params c) m ob
         | _, _ => false
         end
      && list_eqb oq_eqb (f_losshist o) (p_lossobs c)
  end.

(* diagnostic: which clause disagrees (1 error kind, 2 iteration, 3 best, 4 position, 5 position history,
   6 loss history; 0 = agrees) *)
Definition diag_p (c : pcase) : nat :=
  let loss := fun k => nth k (p_losses c) 0%Q in
  let rec := fun k n => match lookup n (p_script c) with Some col => nth k col [] | None => [] end in
  match optim_flat_full (p_st c) (p_hv c) (p_restore c) (p_save c) (p_prune c) (p_params c) loss rec with
  | Err AssertRestoreNeedsHistory => if Nat.eqb (p_err c) 1 then 0 else 1
  | Err _ => 1
  | Ok o =>
      if negb (Nat.eqb (p_err c) 0) then 1
      else if negb (Nat.eqb (f_iter o) (p_it c)) then 2
      else if negb (f_best o =? p_ib c)%Z then 3
      else if negb (dict_agree value_eqb (p_params c) (f_position o) (p_position c)) then 4
      else if negb match f_poshist o, p_poshist c with
                   | None, None => true
                   | Some m, Some ob => dict_agree (list_eqb ovalue_eqb) (p_params c) m ob
                   | _, _ => false
                   end then 5
      else if negb (list_eqb oq_eqb (f_losshist o) (p_lossobs c)) then 6 else 0
  end.

(* batch index generator: the observed rows are the model's rows for SOME permutation of 0..n-1; the witness
   (the observed indices followed by the unused ones) is supplied by the harness and checked here *)
Definition is_perm_of_range (perm : list nat) (n : nat) : bool :=
  Nat.eqb (List.length perm) n && forallb (fun i => existsb (Nat.eqb i) perm) (seq 0 n).
Definition agrees_batches (c : list nat * nat * list (list nat)) : bool :=
  let '(perm, bs, obs) := c in
  is_perm_of_range perm (List.length perm)
  && match batch_indices perm bs with
     | Some bt => list_eqb (list_eqb Nat.eqb) bt obs
     | None => false
     end.
