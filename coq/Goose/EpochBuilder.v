(* Model of the EngineBuilder glue around epochs (liesel/goose/builder.py: set_epochs, set_duration,
   the chunk computation in build()) and of EpochState (liesel/goose/epoch.py: to_state, time_left,
   advance_time) together with the engine's per-epoch chunk loop (engine.py: _sample_for_duration).
   Hand-written from the code; tied to it by the C16 correspondence check (harness/lv/c16.py).
   No proofs here (EpochBuilderProofs.v). *)
From Coq Require Import List ZArith Bool.
Import ListNotations.
From LV Require Import Goose.Epoch Goose.Warmup.
Open Scope Z_scope.

(* ---- EngineBuilder ----
   set_epochs(epochs): self._epochs = EpochManager(epochs)  -> RuntimeError at the first rejected config
   build(): epochs = manager's configs; durations = [e.duration for e in epochs[1:]];
            jit_duration = math.gcd( *durations)  (0 for an empty argument list);
            Engine(epoch_configs=epochs, jitted_sample_duration=jit_duration, ...)
   The result is what the Engine constructor receives. *)
Inductive bres := BOk (l : list econf) (chunk : Z) | BValueError | BRuntimeError | BOutOfFuel.

Definition builder_set_epochs (l : list econf) : bres :=
  if accepts l then BOk l (chunk_len l) else BRuntimeError.

(* set_duration(warmup, posterior, term_duration=50, thinning_posterior=1, thinning_warmup=1):
   epochs = stan_epochs(warmup, posterior, term_duration=.., thinning_posterior=.., thinning_warmup=..)
   i.e. init_duration and base_duration keep the defaults of stan_epochs, 75 and 25;
   then self._epochs = EpochManager(epochs). *)
Definition default_init : Z := 75.
Definition default_term : Z := 50.
Definition default_base : Z := 25.
Definition builder_set_duration (w p t thp thw : Z) : bres :=
  match stan_epochs w p default_init t default_base thp thw with
  | SOk l => builder_set_epochs l
  | SValueError => BValueError
  | SOutOfFuel => BOutOfFuel
  end.

(* ---- EpochState: config, nth_epoch, time, time_before_epoch, time_in_epoch ---- *)
Record efull := mkF { f_cfg : econf; f_nth : nat; f_time : Z; f_before : Z; f_in : Z }.

(* EpochConfig.to_state(nth_epoch, time_before_epoch) *)
Definition to_state (c : econf) (n : nat) (tb : Z) : efull := mkF c n tb tb 0.
(* the state EpochManager.next() hands out, all five fields *)
Definition full_of (s : estate) : efull := to_state (cfg s) (nth_ep s) (t0 s).
Definition time_left (s : efull) : Z := dur (f_cfg s) - f_in s.
Definition advance_time (s : efull) (by_ : Z) : efull :=
  mkF (f_cfg s) (f_nth s) (f_time s + by_) (f_before s) (f_in s + by_).

Fixpoint advance_n (n : nat) (s : efull) (by_ : Z) : efull :=
  match n with
  | O => s
  | S n' => advance_n n' (advance_time s by_) by_
  end.

(* Engine._sample_for_duration(duration = config.duration) with jitted chunk length [chunk]:
   RuntimeError when time_left < duration or duration % chunk != 0 (ZeroDivisionError for chunk = 0;
   all reported as None), otherwise range(duration // chunk) jitted calls each of which advances the
   epoch state by [chunk] (scan of [chunk] transitions with advance_time(1) each).  Python's % and //
   on ints are floor operations like Z.modulo / Z.div; range(n) is empty for n < 0 like Z.to_nat. *)
Definition run_epoch (s : efull) (chunk : Z) : option efull :=
  let d := dur (f_cfg s) in
  if time_left s <? d then None
  else if chunk =? 0 then None
  else if d mod chunk =? 0 then Some (advance_n (Z.to_nat (d / chunk)) s chunk)
  else None.

(* number of transitions the chunk loop performs for one epoch *)
Definition transitions (d chunk : Z) : Z := (d / chunk) * chunk.

(* ---- one EngineBuilder used for a whole script of calls ----
   The only epoch-related state of the builder is self._epochs, the manager built by the last setter
   that did not raise (`self._epochs = EpochManager(epochs)`: when stan_epochs or the manager raises,
   the assignment does not happen and the previous schedule stays).  A fresh builder has no schedule
   (build() raises).  build() recomputes the chunk length from the schedule held at that moment:
   it is a function of the current schedule only, not of earlier builds or schedules. *)
Inductive bop :=
  | BSetEpochs (l : list econf)
  | BSetDuration (w p t thp thw : Z)
  | BBuild.
Inductive bevent :=
  | ESet (accepted : bool)
  | EBuilt (l : list econf) (chunk : Z)     (* what the Engine constructor receives *)
  | EBuildError.
Definition bstate := option (list econf).

Definition set_result (st : bstate) (r : bres) : bstate * bevent :=
  match r with
  | BOk l _ => (Some l, ESet true)
  | _ => (st, ESet false)
  end.
Definition bstep (st : bstate) (o : bop) : bstate * bevent :=
  match o with
  | BSetEpochs l => set_result st (builder_set_epochs l)
  | BSetDuration w p t thp thw => set_result st (builder_set_duration w p t thp thw)
  | BBuild => match st with
              | Some l => (st, EBuilt l (chunk_len l))
              | None => (st, EBuildError)
              end
  end.
Fixpoint brun (st : bstate) (ops : list bop) : list bevent :=
  match ops with
  | [] => []
  | o :: r => let '(st', e) := bstep st o in e :: brun st' r
  end.
