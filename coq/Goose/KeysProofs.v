(* C10 - proofs about the key-flow model of Keys.v.
   Part 1: key hygiene = a theorem about paths in a free splitting tree (prefix-freeness).
   Part 2: the engine with states: batched run = independent per-chain runs, first stored sample. *)
From Coq Require Import List ZArith Bool Arith Lia Permutation.
Import ListNotations.
From LV Require Import Goose.Epoch Goose.EpochProofs Goose.Keys.
Close Scope Z_scope.
Open Scope nat_scope.

(* ------------------------------------------------------------------------------------------ *)
(* prefixes                                                                                     *)
(* ------------------------------------------------------------------------------------------ *)
Definition prefix (a k : key) : Prop := exists s, k = a ++ s.

Lemma prefix_refl k : prefix k k.
Proof. exists []. now rewrite app_nil_r. Qed.
Lemma prefix_trans a b c : prefix a b -> prefix b c -> prefix a c.
Proof. intros [s ->] [s' ->]. exists (s ++ s'). now rewrite app_assoc. Qed.
Lemma prefix_split k n i : prefix k (split k n i).
Proof. exists [(n, i)]. reflexivity. Qed.
Lemma prefix_length a b : prefix a b -> length a <= length b.
Proof. intros [s ->]. rewrite app_length. lia. Qed.
Lemma prefix_nil k : prefix [] k.
Proof. exists k. reflexivity. Qed.

Lemma prefix_cmp a : forall b x, prefix a x -> prefix b x -> prefix a b \/ prefix b a.
Proof.
  induction a as [|u a IH]; intros b x Ha Hb.
  - left. apply prefix_nil.
  - destruct b as [|w b]; [right; apply prefix_nil|].
    destruct Ha as [s Hs], Hb as [s' Hs']. subst x. cbn in Hs'. injection Hs' as Huw Hrest.
    subst w. destruct (IH b (a ++ s)) as [[r Hr]|[r Hr]].
    + exists s. reflexivity.
    + exists s'. exact Hrest.
    + left. exists r. cbn. now rewrite Hr.
    + right. exists r. cbn. now rewrite Hr.
Qed.

Lemma split_not_prefix_self k n i : ~ prefix (split k n i) k.
Proof.
  intros H. apply prefix_length in H. unfold split in H. rewrite app_length in H. cbn in H. lia.
Qed.

(* two keys below different children of the same split are incomparable *)
Lemma children_agree k n i m j x :
  prefix (split k n i) x -> prefix (split k m j) x -> (n, i) = (m, j).
Proof.
  intros [s Hs] [s' Hs']. subst x. unfold split in Hs'. rewrite <- !app_assoc in Hs'.
  apply app_inv_head in Hs'. cbn in Hs'. now injection Hs' as -> ->.
Qed.
Lemma children_apart k n i m j x y :
  prefix (split k n i) x -> prefix (split k m j) y -> (n, i) <> (m, j) ->
  ~ prefix x y /\ ~ prefix y x.
Proof.
  intros Hx Hy Hne. split; intros Hp; apply Hne.
  - apply (children_agree k n i m j y); [eapply prefix_trans; eauto | exact Hy].
  - apply (children_agree k n i m j x); [exact Hx | eapply prefix_trans; eauto].
Qed.

(* ------------------------------------------------------------------------------------------ *)
(* the invariant                                                                                *)
(* ------------------------------------------------------------------------------------------ *)
Definition keys (evs : list event) : list key := map ekey evs.
Definition under (k : key) (evs : list event) : Prop := forall e, In e evs -> prefix k (ekey e).
(* a consumed key is a leaf: any event whose key extends it is an event on that very key *)
Definition leafy (evs : list event) : Prop :=
  forall l ku e, In (EUse l ku) evs -> In e evs -> prefix ku (ekey e) -> ekey e = ku.
(* every key occurs in at most one event (so: consumed at most once, split at most once, never both) *)
Definition good (evs : list event) : Prop := NoDup (keys evs) /\ leafy evs.

Lemma nodup_app {A} (l1 l2 : list A) :
  NoDup l1 -> NoDup l2 -> (forall x, In x l1 -> In x l2 -> False) -> NoDup (l1 ++ l2).
Proof.
  induction l1 as [|a l1 IH]; cbn; intros H1 H2 Hd; [exact H2|].
  inversion H1 as [|? ? Hna Hnd]; subst. constructor.
  - rewrite in_app_iff. intros [H|H]; [exact (Hna H)| exact (Hd a (or_introl eq_refl) H)].
  - apply IH; auto. intros x Hx. apply Hd. now right.
Qed.

Lemma in_keys e evs : In e evs -> In (ekey e) (keys evs).
Proof. apply in_map. Qed.
Lemma keys_in k evs : In k (keys evs) -> exists e, In e evs /\ ekey e = k.
Proof. intros H. apply in_map_iff in H. destruct H as (e & He & Hi). eauto. Qed.

Lemma good_nil : good [].
Proof. split; [constructor| intros ? ? ? []]. Qed.

Lemma good_app e1 e2 :
  good e1 -> good e2 ->
  (forall a b, In a e1 -> In b e2 -> ekey a <> ekey b) ->
  (forall l ku b, In (EUse l ku) e1 -> In b e2 -> ~ prefix ku (ekey b)) ->
  (forall l ku a, In (EUse l ku) e2 -> In a e1 -> ~ prefix ku (ekey a)) ->
  good (e1 ++ e2).
Proof.
  intros [N1 L1] [N2 L2] D L12 L21. split.
  - unfold keys. rewrite map_app. apply nodup_app; auto.
    intros x Hx1 Hx2. apply keys_in in Hx1. apply keys_in in Hx2.
    destruct Hx1 as (a & Ha & Hka), Hx2 as (b & Hb & Hkb). apply (D a b Ha Hb). congruence.
  - intros l ku e Hu He Hp. apply in_app_or in Hu. apply in_app_or in He.
    destruct Hu as [Hu|Hu], He as [He|He].
    + eapply L1; eauto.
    + exfalso. eapply L12; eauto.
    + exfalso. eapply L21; eauto.
    + eapply L2; eauto.
Qed.

Lemma good_app_apart e1 e2 :
  good e1 -> good e2 ->
  (forall a b, In a e1 -> In b e2 -> ~ prefix (ekey a) (ekey b) /\ ~ prefix (ekey b) (ekey a)) ->
  good (e1 ++ e2).
Proof.
  intros G1 G2 H. apply good_app; auto.
  - intros a b Ha Hb Heq. destruct (H a b Ha Hb) as [H1 _]. apply H1. rewrite Heq. apply prefix_refl.
  - intros l ku b Hu Hb. exact (proj1 (H _ _ Hu Hb)).
  - intros l ku a Hu Ha. exact (proj2 (H _ _ Ha Hu)).
Qed.

Lemma good_leaf l k : good [EUse l k] /\ under k [EUse l k].
Proof.
  split; [split|].
  - cbn. constructor; [intros []| constructor].
  - intros l' ku e [Hu|[]] [He|[]]. subst e. injection Hu as _ ->. reflexivity.
  - intros e [<-|[]]. apply prefix_refl.
Qed.

Lemma good_perm e1 e2 : Permutation e1 e2 -> good e1 -> good e2.
Proof.
  intros HP [N L]. split.
  - unfold keys. eapply Permutation_NoDup; [apply Permutation_map; exact HP| exact N].
  - intros l ku e Hu He Hp. apply (L l ku e); auto; eapply Permutation_in; try eassumption; now apply Permutation_sym.
Qed.
Lemma under_perm k e1 e2 : Permutation e1 e2 -> under k e1 -> under k e2.
Proof. intros HP U e He. apply U. eapply Permutation_in; [apply Permutation_sym; exact HP| exact He]. Qed.

(* events below pairwise different children of one split *)
Lemma good_children {A} k n (ch : A -> nat) (g : A -> list event) (l : list A) :
  NoDup (map ch l) ->
  (forall a, In a l -> good (g a) /\ under (split k n (ch a)) (g a)) ->
  good (flat_map g l)
  /\ (forall e, In e (flat_map g l) -> exists a, In a l /\ prefix (split k n (ch a)) (ekey e)).
Proof.
  induction l as [|a l IH]; cbn; intros Hnd H.
  - split; [apply good_nil| intros ? []].
  - inversion Hnd as [|? ? Hna Hnd']; subst.
    destruct IH as [IHg IHu]; [exact Hnd'| intros; apply H; now right|].
    destruct (H a (or_introl eq_refl)) as [Ga Ua]. split.
    + apply good_app_apart; auto. intros x y Hx Hy.
      destruct (IHu y Hy) as (a' & Ha' & Hp).
      apply (children_apart k n (ch a) n (ch a')); auto.
      intros Heq. injection Heq as Heq. apply Hna. rewrite Heq. now apply in_map.
    + intros e He. apply in_app_or in He. destruct He as [He|He].
      * exists a. split; [now left| now apply Ua].
      * destruct (IHu e He) as (a' & Ha' & Hp). exists a'. split; [now right| exact Hp].
Qed.

Lemma good_cons_split k n rest :
  good rest -> (forall e, In e rest -> ~ prefix (ekey e) k) -> good (ESplit k n :: rest).
Proof.
  intros [N L] H. split.
  - cbn. constructor; [|exact N]. intros Hin. apply keys_in in Hin. destruct Hin as (e & He & Hk).
    apply (H e He). rewrite Hk. apply prefix_refl.
  - intros l ku e Hu He Hp. destruct Hu as [Hu|Hu]; [discriminate|].
    destruct He as [<-|He].
    + exfalso. exact (H _ Hu Hp).
    + eapply L; eauto.
Qed.

(* a split node with the events of (some of) its children *)
Lemma good_node {A} k n (ch : A -> nat) (g : A -> list event) (l : list A) :
  NoDup (map ch l) ->
  (forall a, In a l -> good (g a) /\ under (split k n (ch a)) (g a)) ->
  let evs := ESplit k n :: flat_map g l in
  good evs /\ under k evs
  /\ (forall j, ~ In j (map ch l) -> forall e, In e evs -> ~ prefix (split k n j) (ekey e))
  /\ (forall j, ~ In j (map ch l) -> forall l' ku, In (EUse l' ku) evs -> ~ prefix ku (split k n j)).
Proof.
  intros Hnd H evs. destruct (good_children k n ch g l Hnd H) as [G U]. subst evs.
  assert (Hstrict : forall e, In e (flat_map g l) -> ~ prefix (ekey e) k).
  { intros e He Hp. destruct (U e He) as (a & _ & Hpa).
    apply (split_not_prefix_self k n (ch a)). eapply prefix_trans; eauto. }
  repeat split.
  - apply good_cons_split; auto.
  - apply (proj2 (good_cons_split k n _ G Hstrict)).
  - intros e [<-|He]; [apply prefix_refl|].
    destruct (U e He) as (a & _ & Hpa). eapply prefix_trans; [apply prefix_split| exact Hpa].
  - intros j Hj e [<-|He]; [apply split_not_prefix_self|].
    destruct (U e He) as (a & Ha & Hpa). intros Hp.
    assert (Heq : (n, ch a) = (n, j)) by (apply (children_agree k n (ch a) n j (ekey e)); auto).
    injection Heq as Heq. apply Hj. rewrite <- Heq. now apply in_map.
  - intros j Hj l' ku [Hu|Hu]; [discriminate|].
    destruct (U _ Hu) as (a & Ha & Hpa). cbn in Hpa. intros Hp.
    assert (Heq : (n, ch a) = (n, j)).
    { apply (children_agree k n (ch a) n j (split k n j)); [eapply prefix_trans; eauto| apply prefix_refl]. }
    injection Heq as Heq. apply Hj. rewrite <- Heq. now apply in_map.
Qed.

Lemma flat_map_single {A B} (f : A -> B) l : flat_map (fun a => [f a]) l = map f l.
Proof. induction l; cbn; congruence. Qed.

(* KernelSequence.<method> *)
Lemma kseq_good c m e t nk k : good (kseq_events c m e t nk k) /\ under k (kseq_events c m e t nk k).
Proof.
  unfold kseq_events. rewrite <- flat_map_single.
  destruct (good_node k nk (fun i => i) (fun i => [EUse (mkL c m i e t) (split k nk i)]) (seq 0 nk))
    as (G & U & _).
  - rewrite map_id. apply seq_NoDup.
  - intros a _. apply good_leaf.
  - split; assumption.
Qed.

(* ------------------------------------------------------------------------------------------ *)
(* state-passing steps on the carry key                                                         *)
(* ------------------------------------------------------------------------------------------ *)
Definition step := key -> list event * key.
Definition step_ok (f : step) : Prop :=
  forall k, good (fst (f k)) /\ under k (fst (f k)) /\ prefix k (snd (f k))
            /\ (forall e, In e (fst (f k)) -> ~ prefix (snd (f k)) (ekey e))
            /\ (forall l ku, In (EUse l ku) (fst (f k)) -> ~ prefix ku (snd (f k))).
Definition seq_step (f g : step) : step :=
  fun k => let (e1, k1) := f k in let (e2, k2) := g k1 in (e1 ++ e2, k2).

Lemma step_ok_id : step_ok (fun k => ([], k)).
Proof.
  intros k. cbn. split; [apply good_nil|]. split; [intros ? []|]. split; [apply prefix_refl|].
  split; [intros ? []| intros ? ? []].
Qed.

Lemma step_ok_seq f g : step_ok f -> step_ok g -> step_ok (seq_step f g).
Proof.
  intros Hf Hg k. unfold seq_step. specialize (Hf k). destruct (f k) as [e1 k1].
  specialize (Hg k1). destruct (g k1) as [e2 k2]. cbn in *.
  destruct Hf as (G1 & U1 & P1 & A1 & B1). destruct Hg as (G2 & U2 & P2 & A2 & B2).
  assert (Cmp : forall l ku x, In (EUse l ku) e1 -> prefix ku x -> prefix k1 x -> False).
  { intros l ku x Hu Hkx H1x. destruct (prefix_cmp ku k1 x Hkx H1x) as [H|H].
    - exact (B1 l ku Hu H).
    - exact (A1 _ Hu H). }
  repeat split.
  - apply good_app; auto.
    + intros a b Ha Hb Heq. apply (A1 a Ha). rewrite Heq. now apply U2.
    + intros l ku b Hu Hb Hp. exact (Cmp l ku (ekey b) Hu Hp (U2 b Hb)).
    + intros l ku a Hu Ha Hp. apply (A1 a Ha). eapply prefix_trans; [exact (U2 _ Hu)| exact Hp].
  - apply (proj2 (good_app e1 e2 G1 G2
      (fun a b Ha Hb Heq => A1 a Ha (eq_ind_r (fun z => prefix k1 z) (U2 b Hb) Heq))
      (fun l ku b Hu Hb Hp => Cmp l ku (ekey b) Hu Hp (U2 b Hb))
      (fun l ku a Hu Ha Hp => A1 a Ha (prefix_trans _ _ _ (U2 _ Hu) Hp)))).
  - intros e He. apply in_app_or in He. destruct He as [He|He]; [now apply U1|].
    eapply prefix_trans; [exact P1| now apply U2].
  - eapply prefix_trans; eauto.
  - intros e He Hp. apply in_app_or in He. destruct He as [He|He].
    + apply (A1 e He). eapply prefix_trans; eauto.
    + exact (A2 e He Hp).
  - intros l ku Hu Hp. apply in_app_or in Hu. destruct Hu as [Hu|Hu].
    + exact (Cmp l ku k2 Hu Hp P2).
    + exact (B2 l ku Hu Hp).
Qed.

(* self._split_prng_key(n) with the keys handed to [g]: child 0 is the new carry *)
Lemma step_ok_node {A} n (ch : A -> nat) (g : key -> A -> list event) (l : list A) :
  NoDup (map ch l) -> ~ In 0 (map ch l) ->
  (forall k a, In a l -> good (g k a) /\ under (split k n (ch a)) (g k a)) ->
  step_ok (fun k => (ESplit k n :: flat_map (g k) l, split k n 0)).
Proof.
  intros Hnd H0 H k. cbn.
  destruct (good_node k n ch (g k) l Hnd (H k)) as (G & U & A1 & B1).
  split; [exact G|]. split; [exact U|]. split; [apply prefix_split|].
  split; [exact (A1 0 H0)| exact (B1 0 H0)].
Qed.

Lemma one_call_ok p c m e t : step_ok (one_call p c m e t).
Proof.
  pose proof (step_ok_node 2 (fun _ : unit => 1)
                (fun k _ => kseq_events c m e t (nker p) (split k 2 1)) [tt]) as H.
  intros k. specialize (H ltac:(cbn; constructor; [intros []|constructor]) ltac:(cbn; lia)
                          ltac:(intros; apply kseq_good) k).
  cbn in H. rewrite app_nil_r in H. exact H.
Qed.

Lemma iter_quant_good p c e t k :
  good (iter_quant_events p c e t k) /\ under (split k 2 1) (iter_quant_events p c e t k).
Proof.
  unfold iter_quant_events. destruct (nqg p =? 0).
  - split; [apply good_nil| intros ? []].
  - rewrite <- flat_map_single.
    destruct (good_node (split k 2 1) (nqg p) (fun g => g)
                (fun g => [EUse (mkL c MQuant g e (S t)) (split (split k 2 1) (nqg p) g)]) (seq 0 (nqg p)))
      as (G & U & _).
    + rewrite map_id. apply seq_NoDup.
    + intros a _. apply good_leaf.
    + split; assumption.
Qed.

Lemma iter_good p c e t k : good (iter_events p c e t k) /\ under k (iter_events p c e t k).
Proof.
  unfold iter_events.
  destruct (good_node k 2 (fun x : nat * list event => fst x) (fun x => snd x)
              [(0, iter_trans_events p c e t k); (1, iter_quant_events p c e t k)]) as (G & U & _).
  - cbn. constructor; [intros [H|[]]; discriminate| constructor; [intros []| constructor]].
  - intros a [<-|[<-|[]]]; cbn.
    + apply kseq_good.
    + apply iter_quant_good.
  - cbn in G, U. rewrite app_nil_r in G, U. split; assumption.
Qed.

Lemma chunk_ok p c e j : step_ok (chunk_events p c e j).
Proof.
  unfold chunk_events.
  apply (step_ok_node (S (chunk p)) S
           (fun k it => iter_events p c e (j * chunk p + it) (split k (S (chunk p)) (S it)))).
  - rewrite seq_shift. apply seq_NoDup.
  - intros H. apply in_map_iff in H. destruct H as (x & Hx & _). discriminate.
  - intros k a _. apply iter_good.
Qed.

Lemma take_use_ok l : step_ok (fun k => ([ESplit k 2; EUse l (split k 2 1)], split k 2 0)).
Proof.
  pose proof (step_ok_node 2 (fun _ : unit => 1) (fun k _ => [EUse l (split k 2 1)]) [tt]) as H.
  intros k. specialize (H ltac:(cbn; constructor; [intros []|constructor]) ltac:(cbn; lia)
                          ltac:(intros; apply good_leaf) k).
  exact H.
Qed.

Lemma init_quant_ok c e gs : step_ok (init_quant_events c e gs).
Proof.
  induction gs as [|g r IH].
  - apply step_ok_id.
  - pose proof (step_ok_seq _ _ (take_use_ok (mkL c MQuant g e 1)) IH) as H.
    intros k. specialize (H k). unfold seq_step in H. cbn in *.
    destruct (init_quant_events c e r (split k 2 0)) as [ev k']. exact H.
Qed.

Lemma op_ok p c o : step_ok (op_events p c o).
Proof.
  destruct o; cbn [op_events]; try apply one_call_ok.
  - apply init_quant_ok.
  - apply chunk_ok.
Qed.

Lemma ops_ok p c ops : step_ok (ops_events p c ops).
Proof.
  induction ops as [|o r IH].
  - apply step_ok_id.
  - pose proof (step_ok_seq _ _ (op_ok p c o) IH) as H.
    intros k. specialize (H k). unfold seq_step in H. cbn [ops_events].
    destruct (op_events p c o k) as [e1 k1]. destruct (ops_events p c r k1) as [e2 k2]. exact H.
Qed.

Lemma chain_good p c prog k0 : good (chain_events p c prog k0) /\ under k0 (chain_events p c prog k0).
Proof. destruct (ops_ok p c prog k0) as (G & U & _). split; assumption. Qed.

(* ------------------------------------------------------------------------------------------ *)
(* the whole run                                                                                *)
(* ------------------------------------------------------------------------------------------ *)
Lemma jitter_good root nch jit :
  good (jitter_events root nch jit) /\ under (b_jitter root) (jitter_events root nch jit).
Proof.
  destruct jit as [nfn|]; cbn [jitter_events]; [|split; [apply good_nil| intros ? []]].
  destruct (good_node (b_jitter root) nfn (fun f => f)
    (fun f => ESplit (jitter_fn_key root nfn f) nch ::
              map (fun c => EUse (mkL c MJitter f 0 0) (jitter_key root nfn nch f c)) (seq 0 nch)) (seq 0 nfn))
    as (G & U & _).
  - rewrite map_id. apply seq_NoDup.
  - intros f _. rewrite <- flat_map_single.
    destruct (good_node (jitter_fn_key root nfn f) nch (fun c => c)
      (fun c => [EUse (mkL c MJitter f 0 0) (jitter_key root nfn nch f c)]) (seq 0 nch)) as (G & U & _).
    + rewrite map_id. apply seq_NoDup.
    + intros a _. apply good_leaf.
    + split; assumption.
  - split; assumption.
Qed.

Theorem run_good root nch jit p sched evs :
  run_events root nch jit p sched = Some evs -> good evs /\ under root evs.
Proof.
  unfold run_events. destruct (program p sched) as [prog|]; [|discriminate]. intros H. injection H as <-.
  set (C := flat_map (fun c => chain_events p c prog (chain_key root nch c)) (seq 0 nch)).
  set (J := jitter_events root nch jit).
  destruct (good_node (b_engine root) nch (fun c => c)
              (fun c => chain_events p c prog (chain_key root nch c)) (seq 0 nch)) as (GE & UE & _).
  { rewrite map_id. apply seq_NoDup. }
  { intros c _. apply chain_good. }
  fold C in GE, UE.
  destruct (good_node root 3 (fun x : nat * list event => fst x) (fun x => snd x)
              [(1, ESplit (b_engine root) nch :: C); (2, J)]) as (G & U & _).
  { cbn. constructor; [intros [H|[]]; discriminate| constructor; [intros []| constructor]]. }
  { intros a [<-|[<-|[]]]; cbn; [split; assumption| apply jitter_good]. }
  cbn in G, U. rewrite app_nil_r in G, U.
  assert (HP : Permutation (ESplit root 3 :: ESplit (b_engine root) nch :: C ++ J)
                           (builder_events root nch jit ++ C)).
  { unfold builder_events. fold J. cbn. do 2 apply perm_skip. apply Permutation_app_comm. }
  split; [eapply good_perm| eapply under_perm]; eauto.
Qed.

Lemma nodup_map_inj {A B} (f : A -> B) (l : list A) a b :
  NoDup (map f l) -> In a l -> In b l -> f a = f b -> a = b.
Proof.
  induction l as [|x l IH]; cbn; intros Hn Ha Hb Hf; [contradiction|].
  inversion Hn as [|? ? Hx Hn']; subst.
  destruct Ha as [<-|Ha], Hb as [<-|Hb]; auto.
  - exfalso. apply Hx. rewrite Hf. now apply in_map.
  - exfalso. apply Hx. rewrite <- Hf. now apply in_map.
Qed.

Lemma uses_in l k evs : In (l, k) (uses evs) <-> In (EUse l k) evs.
Proof.
  unfold uses. rewrite in_flat_map. split.
  - intros (e & He & Hin). destruct e; cbn in Hin; [contradiction|].
    destruct Hin as [Heq|[]]. injection Heq as -> ->. exact He.
  - intros H. exists (EUse l k). split; [exact H| now left].
Qed.

Lemma uses_nodup evs : NoDup (keys evs) -> NoDup (map snd (uses evs)).
Proof.
  induction evs as [|e r IH]; cbn; intros H; [constructor|].
  inversion H as [|? ? Hx Hn]; subst. destruct e as [k n|l k]; cbn; [now apply IH|].
  constructor; [|now apply IH].
  intros Hin. apply Hx. apply in_map_iff in Hin. destruct Hin as ([l' k'] & Hk & Hin). cbn in Hk. subst k'.
  apply uses_in in Hin. exact (in_keys _ _ Hin).
Qed.

(* C10_key_hygiene *)
Theorem key_hygiene root nch jit p sched evs :
  run_events root nch jit p sched = Some evs ->
  (* the keys consumed by kernel calls, quantity generators and jitter functions are pairwise distinct *)
  NoDup (map snd (uses evs))
  (* no consumed key is also split *)
  /\ (forall l k n, In (EUse l k) evs -> ~ In (ESplit k n) evs)
  (* no key is split twice *)
  /\ NoDup (map fst (splits evs))
  (* prefix-freeness: a consumed key has no descendant anywhere in the run *)
  /\ (forall l k e, In (EUse l k) evs -> In e evs -> prefix k (ekey e) -> e = EUse l k)
  (* every key descends from the root seed key *)
  /\ (forall e, In e evs -> prefix root (ekey e)).
Proof.
  intros H. destruct (run_good _ _ _ _ _ _ H) as [[N L] U]. repeat split.
  - now apply uses_nodup.
  - intros l k n Hu Hs.
    assert (Heq : EUse l k = ESplit k n) by (apply (nodup_map_inj ekey evs); auto).
    discriminate.
  - clear -N. induction evs as [|e r IH]; cbn; [constructor|].
    inversion N as [|? ? Hx Hn]; subst. destruct e as [k n|l k]; cbn; [|now apply IH].
    constructor; [|now apply IH]. intros Hin. apply Hx.
    apply in_map_iff in Hin. destruct Hin as ([k' n'] & Hk & Hin). cbn in Hk. subst k'.
    unfold splits in Hin. rewrite in_flat_map in Hin. destruct Hin as (e & He & Hi).
    destruct e; cbn in Hi; [|contradiction]. destruct Hi as [Heq|[]]. injection Heq as -> ->.
    exact (in_keys _ _ He).
  - intros l k e Hu He Hp. symmetry. apply (nodup_map_inj ekey evs); auto.
    cbn. symmetry. eapply L; eauto.
  - exact U.
Qed.

(* every kernel call in every chain and iteration receives a distinct key *)
Corollary calls_distinct_keys root nch jit p sched calls l1 k1 l2 k2 :
  run_calls root nch jit p sched = Some calls ->
  In (l1, k1) calls -> In (l2, k2) calls -> l1 <> l2 -> k1 <> k2.
Proof.
  unfold run_calls. destruct (run_events root nch jit p sched) as [evs|] eqn:E; [|discriminate].
  intros H. injection H as <-. intros H1 H2 Hne Heq. apply Hne.
  destruct (key_hygiene _ _ _ _ _ _ E) as (N & _).
  assert (Hp : (l1, k1) = (l2, k2)) by (apply (nodup_map_inj snd (uses evs)); auto).
  now injection Hp.
Qed.

(* ------------------------------------------------------------------------------------------ *)
(* the builder's chunk never makes _sample_for_duration raise on an accepted schedule           *)
(* ------------------------------------------------------------------------------------------ *)
Lemma program_from_defined p l : forall e warm,
  (forall ec, In ec l -> is_init (ety_ ec) = true
                         \/ (chunk p <> 0 /\ Z.to_nat (dur ec) mod chunk p = 0)) ->
  program_from p e warm l <> None.
Proof.
  induction l as [|ec r IH]; intros e warm H; cbn; [discriminate|].
  unfold epoch_ops. destruct (H ec (or_introl eq_refl)) as [Hi|[Hc Hm]].
  - rewrite Hi. specialize (IH (S e) warm (fun x Hx => H x (or_intror Hx))).
    destruct (program_from p (S e) warm r); [discriminate| contradiction].
  - destruct (is_init (ety_ ec)).
    + specialize (IH (S e) warm (fun x Hx => H x (or_intror Hx))).
      destruct (program_from p (S e) warm r); [discriminate| contradiction].
    + apply Nat.eqb_neq in Hc. rewrite Hc. apply Nat.eqb_eq in Hm. rewrite Hm. cbn [orb negb].
      match goal with |- context [program_from p (S e) ?w r] =>
        specialize (IH (S e) w (fun x Hx => H x (or_intror Hx)));
        destruct (program_from p (S e) w r); [discriminate| contradiction] end.
Qed.

Lemma fold_gcd_nonneg l : forall a, (0 <= a)%Z -> (0 <= fold_left Z.gcd l a)%Z.
Proof. induction l as [|x l IH]; intros a Ha; cbn; [exact Ha|]. apply IH. apply Z.gcd_nonneg. Qed.

Theorem program_defined p sched :
  valid sched = true -> chunk p = Z.to_nat (chunk_len sched) -> program p sched <> None.
Proof.
  intros Hv Hc. unfold program.
  assert (H : program_from p 0 false sched <> None); [|destruct (program_from p 0 false sched); [discriminate| contradiction]].
  apply program_from_defined. intros ec Hin.
  destruct sched as [|c0 r]; [contradiction|]. cbn [valid] in Hv.
  apply andb_true_iff in Hv. destruct Hv as [Hv _].
  apply andb_true_iff in Hv. destruct Hv as [Hv Hok].
  apply andb_true_iff in Hv. destruct Hv as [Hv _].
  apply andb_true_iff in Hv. destruct Hv as [Hi _].
  destruct Hin as [<-|Hin]; [left; exact Hi| right].
  rewrite forallb_forall in Hok. pose proof (Hok ec (or_intror Hin)) as Hec. unfold cfg_ok in Hec.
  apply andb_true_iff in Hec. destruct Hec as [Hec _].
  apply andb_true_iff in Hec. destruct Hec as [Hec _].
  apply andb_true_iff in Hec. destruct Hec as [Hd _]. apply Z.leb_le in Hd.
  pose proof (chunk_divides (c0 :: r) ec Hin) as [q Hq].
  pose proof (fold_gcd_nonneg (map dur (tl (c0 :: r))) 0%Z (Z.le_refl 0)) as Hg. fold (chunk_len (c0 :: r)) in Hg.
  set (g := chunk_len (c0 :: r)) in *.
  assert (Hgpos : (0 < g)%Z).
  { destruct (Z.eq_dec g 0) as [E|E]; [rewrite E, Z.mul_0_r in Hq; lia| lia]. }
  assert (Hqpos : (0 < q)%Z).
  { destruct (Z_lt_le_dec 0 q) as [Hlt|Hle]; [exact Hlt|]. assert (q * g <= 0)%Z by nia. lia. }
  rewrite Hc. split.
  - intros H0. assert (g = 0%Z) by lia. lia.
  - rewrite Hq. rewrite Z2Nat.inj_mul by lia. apply Nat.mod_mul. intros H0. assert (g = 0%Z) by lia. lia.
Qed.

(* ------------------------------------------------------------------------------------------ *)
(* Part 2: the engine with states                                                               *)
(* ------------------------------------------------------------------------------------------ *)
Lemma fold_map_commute {A O} (f : O -> A -> A) (ops : list O) : forall b : list A,
  fold_left (fun b o => map (f o) b) ops b = map (fun s => fold_left (fun s o => f o s) ops s) b.
Proof.
  induction ops as [|o r IH]; intros b; cbn; [now rewrite map_id|].
  rewrite IH, map_map. reflexivity.
Qed.

Lemma nth_error_combine_seq {A} (l : list A) : forall a c x,
  nth_error l c = Some x -> nth_error (combine (seq a (length l)) l) c = Some (a + c, x).
Proof.
  induction l as [|y l IH]; intros a c x H; destruct c; cbn in *; try discriminate.
  - injection H as ->. now rewrite Nat.add_0_r.
  - rewrite (IH (S a) c x H). f_equal. f_equal. lia.
Qed.

Lemma nth_error_repeat_some {A} (x y : A) n c : nth_error (repeat x n) c = Some y -> y = x /\ c < n.
Proof.
  revert c; induction n as [|n IH]; intros c H; destruct c; cbn in H; try discriminate.
  - injection H as <-. split; [reflexivity| lia].
  - destruct (IH c H). split; [assumption| lia].
Qed.

Section MachineProofs.
  Variables mstate kstate pos info tinfo quant : Type.
  Variable extract : mstate -> pos.
  Variable jitter_apply : list key -> mstate -> mstate.
  Variable k_init : nat -> key -> mstate -> kstate.
  Variable k_start : nat -> key -> kstate -> mstate -> nat -> nat -> kstate.
  Variable k_trans : nat -> key -> kstate -> mstate -> nat -> nat -> kstate * mstate * info.
  Variable k_end : nat -> key -> kstate -> mstate -> nat -> nat -> kstate.
  Variable k_tune : nat -> key -> kstate -> mstate -> nat -> nat -> option (list pos) -> kstate * tinfo.
  Variable k_endwarmup : nat -> key -> kstate -> mstate -> list (nat * tinfo) -> kstate.
  Variable q_gen : nat -> key -> mstate -> nat -> nat -> quant.
  Variable p : params.
  Variable sched : list econf.
  Variable needs_hist : bool.

  Local Notation cst := (chain_st mstate kstate pos info tinfo quant).
  Local Notation machT := (mach mstate kstate pos info tinfo quant).
  Local Notation xop := (exec_op mstate kstate pos info tinfo quant extract k_init k_start k_trans k_end
                           k_tune k_endwarmup q_gen p sched needs_hist).
  Local Notation ause := (apply_use mstate kstate pos info tinfo quant k_init k_start k_trans k_end
                            k_tune k_endwarmup q_gen sched needs_hist).
  Local Notation aevs := (apply_events mstate kstate pos info tinfo quant k_init k_start k_trans k_end
                            k_tune k_endwarmup q_gen sched needs_hist).
  Local Notation xiter := (exec_iter mstate kstate pos info tinfo quant extract k_init k_start k_trans k_end
                            k_tune k_endwarmup q_gen p sched needs_hist).
  Local Notation recd := (record mstate kstate pos info tinfo quant extract).
  Local Notation runb := (run_batched mstate kstate pos info tinfo quant extract jitter_apply k_init k_start
                            k_trans k_end k_tune k_endwarmup q_gen p sched needs_hist).
  Local Notation run1 := (run_single mstate kstate pos info tinfo quant extract jitter_apply k_init k_start
                            k_trans k_end k_tune k_endwarmup q_gen p sched needs_hist).
  Local Notation ichain := (init_chain mstate kstate pos info tinfo quant jitter_apply).
  Local Notation jchain := (jitter_chain mstate jitter_apply).
  Local Notation storedT := (stored mstate kstate pos info tinfo quant sched).

  (* the batched engine is the family of its chains run on their own *)
  Theorem batched_chain v root nch jit a r :
    runb v root nch jit a = Some r ->
    length r = nch
    /\ forall c, c < nch ->
         exists i0 s, init_of mstate nch a c = Some i0 /\ nth_error r c = Some s
                      /\ run1 root nch jit c i0 = Some s.
  Proof.
    unfold run_batched. destruct (set_initial_values mstate v nch a) as [states|] eqn:ES; [|discriminate].
    destruct (length states =? nch) eqn:EL; cbn [negb]; [|discriminate]. apply Nat.eqb_eq in EL.
    destruct (program p sched) as [prog|] eqn:EP; [|discriminate].
    intros H. injection H as <-. rewrite fold_map_commute. split.
    - rewrite !map_length, combine_length, seq_length. lia.
    - intros c Hc. destruct (nth_error states c) as [i0|] eqn:En.
      2:{ apply nth_error_None in En. lia. }
      exists i0, (fold_left (fun s o => xop o s) prog (ichain root nch jit c i0)). split; [|split].
      + destruct a as [s0|l]; cbn [set_initial_values init_of] in *.
        * injection ES as <-. apply nth_error_repeat_some in En. destruct En as [-> Hlt].
          apply Nat.ltb_lt in Hc. rewrite Hc. reflexivity.
        * destruct v; [discriminate|]. injection ES as <-. exact En.
      + assert (Hcomb : nth_error (combine (seq 0 nch) states) c = Some (c, i0)).
        { rewrite <- EL. apply (nth_error_combine_seq states 0 c i0 En). }
        rewrite (map_nth_error _ c _ (map_nth_error _ c _ Hcomb)). reflexivity.
      + unfold run_single. rewrite EP. reflexivity.
  Qed.

  (* C10_chain_independent *)
  Theorem chain_independent v root nch jit a a' r r' c :
    runb v root nch jit a = Some r -> runb v root nch jit a' = Some r' ->
    init_of mstate nch a c = init_of mstate nch a' c ->
    nth_error r c = nth_error r' c.
  Proof.
    intros H H' Hi. destruct (batched_chain _ _ _ _ _ _ H) as [L B].
    destruct (batched_chain _ _ _ _ _ _ H') as [L' B'].
    destruct (Nat.lt_ge_cases c nch) as [Hc|Hc].
    - destruct (B c Hc) as (i0 & s & E1 & E2 & E3). destruct (B' c Hc) as (i0' & s' & E1' & E2' & E3').
      rewrite E2, E2'. rewrite Hi, E1' in E1. injection E1 as ->. congruence.
    - assert (N1 : nth_error r c = None) by (apply nth_error_None; lia).
      assert (N2 : nth_error r' c = None) by (apply nth_error_None; lia). congruence.
  Qed.

  (* the keys a chain's calls receive do not depend on states, kernels or initial values *)
  Lemma fold_trace ops : forall s : cst,
    let s' := fold_left (fun s o => xop o s) ops s in
    cid _ _ _ _ _ _ s' = cid _ _ _ _ _ _ s
    /\ carry _ _ _ _ _ _ s' = snd (ops_events p (cid _ _ _ _ _ _ s) ops (carry _ _ _ _ _ _ s))
    /\ trace _ _ _ _ _ _ s' = trace _ _ _ _ _ _ s
                              ++ fst (ops_events p (cid _ _ _ _ _ _ s) ops (carry _ _ _ _ _ _ s)).
  Proof.
    induction ops as [|o r IH]; intros s; cbn [fold_left ops_events].
    - cbn. now rewrite app_nil_r.
    - destruct (IH (xop o s)) as (I1 & I2 & I3). cbn zeta in *.
      rewrite I1, I2, I3. cbn [exec_op cid carry trace].
      destruct (op_events p (cid _ _ _ _ _ _ s) o (carry _ _ _ _ _ _ s)) as [e1 k1]. cbn [fst snd].
      destruct (ops_events p (cid _ _ _ _ _ _ s) r k1) as [e2 k2]. cbn [fst snd].
      now rewrite app_assoc.
  Qed.

  Theorem trace_is_key_flow root nch jit c i0 s :
    run1 root nch jit c i0 = Some s ->
    exists prog, program p sched = Some prog
                 /\ trace _ _ _ _ _ _ s = chain_events p c prog (chain_key root nch c).
  Proof.
    unfold run_single. destruct (program p sched) as [prog|]; [|discriminate].
    intros H. injection H as <-. exists prog. split; [reflexivity|].
    destruct (fold_trace prog (ichain root nch jit c i0)) as (_ & _ & T). cbn zeta in T.
    rewrite T. reflexivity.
  Qed.

  (* --- first stored sample --- *)
  Lemma ause_traj l k (m : machT) : m_traj _ _ _ _ _ _ (ause l k m) = m_traj _ _ _ _ _ _ m.
  Proof.
    unfold apply_use. destruct (l_meth l); try reflexivity.
    - destruct (nth_error (m_ks _ _ _ _ _ _ m) (l_idx l)); [|reflexivity].
      destruct (k_trans _ _ _ _ _ _) as [[? ?] ?]. reflexivity.
    - destruct (nth_error (m_ks _ _ _ _ _ _ m) (l_idx l)); [|reflexivity].
      destruct (k_tune _ _ _ _ _ _ _) as [? ?]. reflexivity.
  Qed.
  Lemma aevs_traj evs : forall m : machT, m_traj _ _ _ _ _ _ (aevs evs m) = m_traj _ _ _ _ _ _ m.
  Proof.
    induction evs as [|e r IH]; intros m; cbn; [reflexivity|].
    unfold apply_events in IH. rewrite IH. destruct e; [reflexivity| apply ause_traj].
  Qed.
  Lemma aevs_ms_init evs : forall m : machT,
    (forall l k, In (EUse l k) evs -> l_meth l = MInit) ->
    m_ms _ _ _ _ _ _ (aevs evs m) = m_ms _ _ _ _ _ _ m.
  Proof.
    induction evs as [|e r IH]; intros m H; cbn; [reflexivity|].
    unfold apply_events in IH. rewrite IH by (intros; eapply H; right; eauto).
    destruct e as [|l k]; [reflexivity|]. unfold apply_use. rewrite (H l k (or_introl eq_refl)). reflexivity.
  Qed.

  Definition traj_ext (m m' : machT) : Prop :=
    exists x, m_traj _ _ _ _ _ _ m' = m_traj _ _ _ _ _ _ m ++ x.
  Lemma traj_ext_refl m : traj_ext m m.
  Proof. exists []. now rewrite app_nil_r. Qed.
  Lemma traj_ext_trans a b c : traj_ext a b -> traj_ext b c -> traj_ext a c.
  Proof. intros [x Hx] [y Hy]. exists (x ++ y). now rewrite Hy, Hx, app_assoc. Qed.
  Lemma traj_ext_aevs evs m : traj_ext m (aevs evs m).
  Proof. exists []. now rewrite aevs_traj, app_nil_r. Qed.
  Lemma traj_ext_rec e t m : traj_ext m (recd e t m).
  Proof. eexists. reflexivity. Qed.
  Lemma traj_ext_iter c e t k m : traj_ext m (xiter c e t k m).
  Proof.
    unfold exec_iter. eapply traj_ext_trans; [apply traj_ext_aevs|].
    eapply traj_ext_trans; [apply traj_ext_rec| apply traj_ext_aevs].
  Qed.
  Lemma traj_ext_fold {X} (f : machT -> X -> machT) (l : list X) :
    (forall m x, traj_ext m (f m x)) -> forall m, traj_ext m (fold_left f l m).
  Proof.
    intros H. induction l as [|x l IH]; intros m; cbn; [apply traj_ext_refl|].
    eapply traj_ext_trans; [apply H| apply IH].
  Qed.
  Lemma traj_ext_op o (s : cst) : traj_ext (mach_ _ _ _ _ _ _ s) (mach_ _ _ _ _ _ _ (xop o s)).
  Proof.
    destruct o; cbn [exec_op mach_]; try apply traj_ext_aevs.
    - eapply traj_ext_trans; [apply traj_ext_rec| apply traj_ext_aevs].
    - apply traj_ext_fold. intros m x. apply traj_ext_iter.
  Qed.
  Lemma traj_ext_ops ops : forall s : cst,
    traj_ext (mach_ _ _ _ _ _ _ s) (mach_ _ _ _ _ _ _ (fold_left (fun s o => xop o s) ops s)).
  Proof.
    induction ops as [|o r IH]; intros s; cbn; [apply traj_ext_refl|].
    eapply traj_ext_trans; [apply traj_ext_op| apply IH].
  Qed.

  Lemma valid_head :
    valid sched = true -> sched <> [] ->
    exists ec0 rest, sched = ec0 :: rest /\ is_init (ety_ ec0) = true /\ Z.to_nat (thin ec0) = 1.
  Proof.
    intros Hv Hne. destruct sched as [|c0 r]; [contradiction|]. exists c0, r. split; [reflexivity|].
    cbn [valid] in Hv.
    apply andb_true_iff in Hv. destruct Hv as [Hv _].
    apply andb_true_iff in Hv. destruct Hv as [Hv Hok].
    apply andb_true_iff in Hv. destruct Hv as [Hv _].
    apply andb_true_iff in Hv. destruct Hv as [Hi Hd]. split; [exact Hi|].
    cbn [forallb] in Hok. apply andb_true_iff in Hok. destruct Hok as [Hc _]. unfold cfg_ok in Hc.
    apply andb_true_iff in Hc. destruct Hc as [Hc _].
    apply andb_true_iff in Hc. destruct Hc as [Hc Hle].
    apply andb_true_iff in Hc. destruct Hc as [_ H1].
    apply Z.eqb_eq in Hd. apply Z.leb_le in Hle. apply Z.leb_le in H1.
    assert (thin c0 = 1%Z) by lia. now rewrite H.
  Qed.

  (* C10_first_sample *)
  Theorem first_sample v root nch jit a r c s i0 :
    valid sched = true -> sched <> [] ->
    runb v root nch jit a = Some r -> nth_error r c = Some s -> init_of mstate nch a c = Some i0 ->
    nth_error (storedT s) 0 = Some (0, 1, extract (jchain root nch jit c i0)).
  Proof.
    intros Hv Hne H Hn Hi. destruct (batched_chain _ _ _ _ _ _ H) as [L B].
    assert (Hc : c < nch). { rewrite <- L. apply nth_error_Some. congruence. }
    destruct (B c Hc) as (i0' & s' & E1 & E2 & E3).
    rewrite Hi in E1. injection E1 as <-. rewrite Hn in E2. injection E2 as <-.
    destruct (valid_head Hv Hne) as (ec0 & rest & Hs & Hinit & Hthin).
    assert (EP : program p sched = match program_from p 1 false rest with
                                   | Some ops => Some (OInit :: OInitialEpoch 0 :: ops) | None => None end).
    { unfold program. rewrite Hs. cbn [program_from]. unfold epoch_ops. rewrite Hinit.
      destruct (program_from p 1 false rest); reflexivity. }
    unfold run_single in E3. rewrite EP in E3.
    destruct (program_from p 1 false rest) as [ops|]; [|discriminate].
    injection E3 as <-. cbn [fold_left].
    set (s0 := ichain root nch jit c i0).
    set (s2 := xop (OInitialEpoch 0) (xop OInit s0)).
    assert (T2 : m_traj _ _ _ _ _ _ (mach_ _ _ _ _ _ _ s2) = [(0, 1, extract (jchain root nch jit c i0))]).
    { subst s2. cbn [exec_op mach_]. rewrite aevs_traj. cbn [record m_traj m_ms].
      rewrite aevs_traj. rewrite aevs_ms_init.
      - reflexivity.
      - cbn [op_events one_call fst]. intros l k [Hin|[Hin|Hin]]; try discriminate.
        apply in_map_iff in Hin. destruct Hin as (i & Heq & _). injection Heq as <- _. reflexivity. }
    destruct (traj_ext_ops ops s2) as [x Hx]. unfold stored, stored_traj.
    rewrite Hx, T2. cbn [app filter kept]. unfold thin_of. rewrite Hs. cbn [nth_error]. rewrite Hthin.
    reflexivity.
  Qed.

  (* set_initial_values: the per-chain branch as found raises; repaired, it is defined *)
  Theorem per_chain_as_found_raises root nch jit l : runb SivAsFound root nch jit (PerChain l) = None.
  Proof. reflexivity. Qed.
  Theorem repaired_defined root nch jit a :
    (match a with Replicate _ => True | PerChain l => length l = nch end) ->
    program p sched <> None -> runb SivRepaired root nch jit a <> None.
  Proof.
    intros Ha Hp. unfold run_batched. destruct a as [s0|l]; cbn [set_initial_values].
    - rewrite repeat_length, Nat.eqb_refl. cbn [negb]. destruct (program p sched); [discriminate| contradiction].
    - rewrite Ha, Nat.eqb_refl. cbn [negb]. destruct (program p sched); [discriminate| contradiction].
  Qed.
End MachineProofs.

(* C10_int_seed_equiv: an integer seed is the corresponding PRNG key *)
Theorem int_seed_equiv (prngkey : Z -> key) z :
  seed_root prngkey (IntSeed z) = seed_root prngkey (KeySeed (prngkey z)).
Proof. reflexivity. Qed.

(* the code: injective on the keys it is used on *)
Lemma encode_ge1 k : forall acc, (1 <= acc)%N ->
  (1 <= fold_left (fun acc ni => (acc * 65536 + N.of_nat (fst ni) * 256 + N.of_nat (snd ni))%N) k acc)%N.
Proof. induction k as [|x k IH]; intros acc H; cbn; [exact H|]. apply IH. lia. Qed.

Lemma encode_snoc k n i : encode (k ++ [(n, i)]) = (encode k * 65536 + N.of_nat n * 256 + N.of_nat i)%N.
Proof. unfold encode. rewrite fold_left_app. reflexivity. Qed.

Theorem encode_inj k1 : forall k2, bounded k1 = true -> bounded k2 = true -> encode k1 = encode k2 -> k1 = k2.
Proof.
  induction k1 as [|[n i] k1 IH] using rev_ind; intros k2 B1 B2 H.
  - destruct k2 as [|[m j] k2 _] using rev_ind; [reflexivity|].
    rewrite encode_snoc in H. cbn in H. pose proof (encode_ge1 k2 1%N (N.le_refl 1)) as G. fold (encode k2) in G. lia.
  - destruct k2 as [|[m j] k2 _] using rev_ind.
    + rewrite encode_snoc in H. cbn in H. pose proof (encode_ge1 k1 1%N (N.le_refl 1)) as G. fold (encode k1) in G. lia.
    + rewrite !encode_snoc in H. unfold bounded in B1, B2. rewrite forallb_app in B1, B2.
      apply andb_true_iff in B1. destruct B1 as [B1 b1]. apply andb_true_iff in B2. destruct B2 as [B2 b2].
      cbn in b1, b2. rewrite andb_true_r in b1, b2.
      apply andb_true_iff in b1. destruct b1 as [bn bi]. apply andb_true_iff in b2. destruct b2 as [bm bj].
      apply Nat.leb_le in bn, bi, bm, bj.
      assert (E : encode k1 = encode k2 /\ n = m /\ i = j) by lia.
      destruct E as (E & -> & ->). f_equal. apply IH; auto.
Qed.

(* ------------------------------------------------------------------------------------------ *)
(* the same statements for an arbitrary [world]                                                 *)
(* ------------------------------------------------------------------------------------------ *)
Theorem W_batched_chain (w : world) v root nch jit a r :
  W_run_batched w v root nch jit a = Some r ->
  length r = nch
  /\ forall c, c < nch ->
       exists i0 s, W_init_of w nch a c = Some i0 /\ nth_error r c = Some s
                    /\ W_run_single w root nch jit c i0 = Some s.
Proof. apply batched_chain. Qed.

Theorem W_chain_independent (w : world) v root nch jit a a' r r' c :
  W_run_batched w v root nch jit a = Some r -> W_run_batched w v root nch jit a' = Some r' ->
  W_init_of w nch a c = W_init_of w nch a' c ->
  nth_error r c = nth_error r' c.
Proof. apply chain_independent. Qed.

Theorem W_trace_is_key_flow (w : world) root nch jit c i0 s :
  W_run_single w root nch jit c i0 = Some s ->
  exists prog, program (w_p w) (w_sched w) = Some prog
               /\ W_trace w s = chain_events (w_p w) c prog (chain_key root nch c).
Proof. apply trace_is_key_flow. Qed.

(* C10_deterministic: a run is a function of its arguments (no state survives outside them), and the
   keys it hands out do not even depend on the model, the kernels or the initial values *)
Theorem W_deterministic (w : world) v root nch jit a r1 r2 :
  W_run_batched w v root nch jit a = Some r1 -> W_run_batched w v root nch jit a = Some r2 -> r1 = r2.
Proof. intros H1 H2. rewrite H1 in H2. now injection H2. Qed.

Theorem W_keys_state_independent (w w' : world) root nch jit c i0 i0' s s' :
  w_p w = w_p w' -> w_sched w = w_sched w' ->
  W_run_single w root nch jit c i0 = Some s -> W_run_single w' root nch jit c i0' = Some s' ->
  W_trace w s = W_trace w' s'.
Proof.
  intros Hp Hs H H'. destruct (W_trace_is_key_flow _ _ _ _ _ _ _ H) as (prog & P & T).
  destruct (W_trace_is_key_flow _ _ _ _ _ _ _ H') as (prog' & P' & T').
  rewrite <- Hp, <- Hs, P in P'. injection P' as <-. rewrite T, T', Hp. reflexivity.
Qed.

Theorem W_first_sample (w : world) v root nch jit a r c s i0 :
  valid (w_sched w) = true -> w_sched w <> [] ->
  W_run_batched w v root nch jit a = Some r -> nth_error r c = Some s -> W_init_of w nch a c = Some i0 ->
  nth_error (W_stored w s) 0 = Some (0, 1, w_extract w (W_jittered w root nch jit c i0)).
Proof. apply first_sample. Qed.

Theorem W_per_chain_as_found_raises (w : world) root nch jit l :
  W_run_batched w SivAsFound root nch jit (PerChain l) = None.
Proof. reflexivity. Qed.

Theorem W_repaired_defined (w : world) root nch jit a :
  valid (w_sched w) = true -> chunk (w_p w) = Z.to_nat (chunk_len (w_sched w)) ->
  (match a with Replicate _ => True | PerChain l => length l = nch end) ->
  W_run_batched w SivRepaired root nch jit a <> None.
Proof.
  intros Hv Hc Ha. apply repaired_defined; [exact Ha|]. now apply program_defined.
Qed.

(* ------------------------------------------------------------------------------------------ *)
(* the machine's complete run and the key-flow events of the hygiene theorem                     *)
(* ------------------------------------------------------------------------------------------ *)
Lemma flat_map_by_index {A B} (f : A -> list B) (g : nat -> list B) (r : list A) : forall a,
  (forall c, c < length r -> exists s, nth_error r c = Some s /\ f s = g (a + c)) ->
  flat_map f r = flat_map g (seq a (length r)).
Proof.
  induction r as [|x r IH]; intros a H; cbn [flat_map length seq]; [reflexivity|].
  destruct (H 0 (Nat.lt_0_succ _)) as (s & Hs & Hf). cbn in Hs. injection Hs as <-.
  rewrite Nat.add_0_r in Hf. rewrite Hf. f_equal. apply IH. intros c Hc.
  destruct (H (S c)) as (s & Hs & Hf'); [cbn; lia|]. cbn in Hs. exists s. split; [exact Hs|].
  rewrite Hf'. f_equal. lia.
Qed.

Lemma W_batched_program (w : world) v root nch jit a r :
  W_run_batched w v root nch jit a = Some r -> exists prog, program (w_p w) (w_sched w) = Some prog.
Proof.
  unfold W_run_batched, run_batched.
  destruct (set_initial_values _ v nch a) as [states|]; [|discriminate].
  destruct (negb (length states =? nch)); [discriminate|].
  destruct (program (w_p w) (w_sched w)) as [prog|]; [|discriminate]. intros _. now exists prog.
Qed.

Theorem W_run_hygiene (w : world) v root nch jit a r :
  W_run_batched w v root nch jit a = Some r ->
  exists evs, run_events root nch jit (w_p w) (w_sched w) = Some evs
              /\ evs = builder_events root nch jit ++ flat_map (W_trace w) r
              /\ NoDup (map snd (uses evs))
              /\ (forall l k n, In (EUse l k) evs -> ~ In (ESplit k n) evs).
Proof.
  intros H. destruct (W_batched_program _ _ _ _ _ _ _ H) as [prog EP].
  destruct (W_batched_chain _ _ _ _ _ _ _ H) as [L B].
  assert (ET : flat_map (W_trace w) r
               = flat_map (fun c => chain_events (w_p w) c prog (chain_key root nch c)) (seq 0 nch)).
  { rewrite <- L. apply flat_map_by_index. intros c Hc. rewrite L in Hc.
    destruct (B c Hc) as (i0 & s & _ & En & E1). exists s. split; [exact En|].
    destruct (W_trace_is_key_flow _ _ _ _ _ _ _ E1) as (prog' & EP' & T).
    rewrite EP in EP'. injection EP' as <-. rewrite L. exact T. }
  assert (ER : run_events root nch jit (w_p w) (w_sched w)
               = Some (builder_events root nch jit ++ flat_map (W_trace w) r)).
  { unfold run_events. rewrite EP, ET. reflexivity. }
  eexists. split; [exact ER|]. split; [reflexivity|].
  destruct (key_hygiene _ _ _ _ _ _ ER) as (N & S & _). split; assumption.
Qed.

Theorem int_seed_equiv_full (prngkey : Z -> key) z :
  seed_root prngkey (IntSeed z) = seed_root prngkey (KeySeed (prngkey z))
  /\ (forall nch jit p sched,
        run_events (seed_root prngkey (IntSeed z)) nch jit p sched
        = run_events (seed_root prngkey (KeySeed (prngkey z))) nch jit p sched)
  /\ (forall (w : world) v nch jit a,
        W_run_batched w v (seed_root prngkey (IntSeed z)) nch jit a
        = W_run_batched w v (seed_root prngkey (KeySeed (prngkey z))) nch jit a).
Proof. repeat split. Qed.

(* ------------------------------------------------------------------------------------------ *)
(* a concrete non-trivial world (for the Examples: the hypotheses of the theorems are satisfiable) *)
(* ------------------------------------------------------------------------------------------ *)
Definition khash (k : key) : Z := Z.of_N (encode k) mod 1009.
Definition toy_sched : list econf :=
  [mkE Init 1 1; mkE Fast 4 2; mkE Slow 2 1; mkE Post 4 2; mkE Post 2 1]%Z.
Definition toy : world :=
  mkW Z Z Z Z Z Z
      (fun ms => ms)
      (fun ks ms => fold_left (fun a k => a + khash k) ks ms)%Z
      (fun i k ms => khash k)
      (fun i k s ms e t => s + 1)%Z
      (fun i k s ms e t => (s + 1, 2 * ms + khash k + Z.of_nat i, khash k))%Z
      (fun i k s ms e t => s + 1000)%Z
      (fun i k s ms e t h => (s + Z.of_nat (match h with Some l => length l | None => 0 end), khash k))%Z
      (fun i k s ms ti => s + Z.of_nat (length ti))%Z
      (fun g k ms e t => ms + khash k)%Z
      (mkP 2 1 2) toy_sched true.

Example toy_runs :
  valid (w_sched toy) = true /\ w_sched toy <> []
  /\ chunk (w_p toy) = Z.to_nat (chunk_len (w_sched toy))
  /\ exists r s0 s1,
       W_run_batched toy SivRepaired [] 2 (Some 2) (PerChain [5; 7]%Z) = Some r
       /\ nth_error r 0 = Some s0 /\ nth_error r 1 = Some s1
       /\ length (W_stored toy s0) = 9 /\ length (W_trace toy s0) = 128
       /\ W_stored toy s0 <> W_stored toy s1.
Proof.
  split; [reflexivity|]. split; [discriminate|]. split; [reflexivity|].
  eexists. eexists. eexists. split; [vm_compute; reflexivity|].
  split; [reflexivity|]. split; [reflexivity|].
  split; [vm_compute; reflexivity|]. split; [vm_compute; reflexivity|].
  vm_compute. discriminate.
Qed.

Example toy_events :
  exists evs, run_events [] 3 (Some 2) (mkP 2 1 2) toy_sched = Some evs /\ length (uses evs) = 189.
Proof. eexists. split; [vm_compute; reflexivity| vm_compute; reflexivity]. Qed.

(* a replicated single state: every chain's first stored sample is that state (no jitter configured) *)
Example toy_replicated :
  exists r, W_run_batched toy SivRepaired [(5, 2)] 3 None (Replicate 4%Z) = Some r
            /\ map (fun s => nth_error (W_stored toy s) 0) r = repeat (Some (0, 1, 4%Z)) 3
            /\ W_init_of toy 3 (Replicate 4%Z) 2 = Some 4%Z.
Proof. eexists. split; [vm_compute; reflexivity|]. split; vm_compute; reflexivity. Qed.
