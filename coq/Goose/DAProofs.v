(* Proofs about the dual-averaging model (Goose/DA.v): the closed form of the recurrence
   (Hoffman & Gelman 2014, Stan), independence of the initial average, restart per epoch,
   finalisation, monotonicity in the acceptance probability, frozen outside adaptation. *)
From Coq Require Import Reals List Bool Arith Lia Lra.
Import ListNotations.
From LV Require Import Goose.DA.
Open Scope R_scope.

(* ======================================================================================== *)
(* 1. The recurrence written independently, in closed form                                   *)
(* ======================================================================================== *)

(* eta_m = m^(-kappa) *)
Definition eta_n (c : daconst) (m : nat) : R := Rpower (INR m) (- c_kappa c).

(* sum_i (delta - a_i) *)
Definition sum_err (c : daconst) (l : list R) : R :=
  fold_right (fun a s => (c_delta c - a) + s) 0 l.

(* x_n = m - sqrt n / (gamma (n + t0)) * sum_{i<=n} (delta - a_i),  n = |l| *)
Definition lstep_spec (c : daconst) (m : R) (l : list R) : R :=
  let n := INR (length l) in
  m - sqrt n / (c_gamma c * (n + c_t0 c)) * sum_err c l.

Definition Rprod (l : list R) : R := fold_right Rmult 1 l.
Definition Rsum (l : list R) : R := fold_right Rplus 0 l.

(* prod_{j = i+1 .. n} (1 - eta_j) *)
Definition prod_keep (c : daconst) (i n : nat) : R :=
  Rprod (map (fun j => 1 - eta_n c j) (seq (S i) (n - i))).

(* the weight of x_i in xbar_n:  w_{i,n} = eta_i * prod_{j=i+1..n} (1 - eta_j) *)
Definition weight (c : daconst) (i n : nat) : R := eta_n c i * prod_keep c i n.

(* xbar_n = sum_{i=1..n} w_{i,n} x_i *)
Definition wavg (c : daconst) (x : nat -> R) (n : nat) : R :=
  Rsum (map (fun i => weight c i n * x i) (seq 1 n)).

Definition lavg_spec (c : daconst) (m : R) (l : list R) : R :=
  wavg c (fun i => lstep_spec c m (firstn i l)) (length l).

(* ---------------------------------------------------------------------------------------- *)
(* small list / sum facts                                                                    *)
(* ---------------------------------------------------------------------------------------- *)
Lemma Rprod_app l1 l2 : Rprod (l1 ++ l2) = Rprod l1 * Rprod l2.
Proof. unfold Rprod. induction l1 as [|a l1 IH]; cbn [app fold_right]; [ring|]. rewrite IH. ring. Qed.

Lemma Rsum_app l1 l2 : Rsum (l1 ++ l2) = Rsum l1 + Rsum l2.
Proof. unfold Rsum. induction l1 as [|a l1 IH]; cbn [app fold_right]; [ring|]. rewrite IH. ring. Qed.

Lemma Rsum_map_scal {A} (k : R) (f : A -> R) l :
  Rsum (map (fun i => k * f i) l) = k * Rsum (map f l).
Proof. unfold Rsum. induction l as [|a l IH]; cbn [map fold_right]; [ring|]. rewrite IH. ring. Qed.

Lemma Rsum_map_ext_in {A} (f g : A -> R) l :
  (forall i, In i l -> f i = g i) -> Rsum (map f l) = Rsum (map g l).
Proof. intros H. f_equal. apply map_ext_in. exact H. Qed.

Lemma Rsum_map_le {A} (f g : A -> R) l :
  (forall i, In i l -> f i <= g i) -> Rsum (map f l) <= Rsum (map g l).
Proof.
  unfold Rsum. induction l as [|a l IH]; intros H; cbn [map fold_right]; [lra|].
  assert (f a <= g a) by (apply H; left; reflexivity).
  assert (fold_right Rplus 0 (map f l) <= fold_right Rplus 0 (map g l))
    by (apply IH; intros i Hi; apply H; right; exact Hi).
  lra.
Qed.

Lemma sum_err_app c l a : sum_err c (l ++ [a]) = sum_err c l + (c_delta c - a).
Proof. unfold sum_err. induction l as [|b l IH]; cbn [app fold_right]; [ring|]. rewrite IH. ring. Qed.

(* ---------------------------------------------------------------------------------------- *)
(* eta, weights                                                                              *)
(* ---------------------------------------------------------------------------------------- *)
Lemma eta_n_1 c : eta_n c 1 = 1.
Proof. unfold eta_n, Rpower. cbn [INR]. rewrite ln_1, Rmult_0_r. apply exp_0. Qed.

Lemma eta_n_pos c m : 0 < eta_n c m.
Proof. unfold eta_n, Rpower. apply exp_pos. Qed.

(* for kappa >= 0 the averaging weights are in (0,1] *)
Lemma eta_n_le_1 c m : 0 <= c_kappa c -> (1 <= m)%nat -> eta_n c m <= 1.
Proof.
  intros Hk Hm. unfold eta_n, Rpower. rewrite <- exp_0.
  assert (Hl : 0 <= ln (INR m)).
  { rewrite <- ln_1. destruct (Req_dec (INR m) 1) as [->|Hne]; [lra|].
    left. apply ln_increasing; [lra|].
    assert (1 <= INR m) by (change 1 with (INR 1); apply le_INR; exact Hm). lra. }
  destruct (Rle_lt_or_eq_dec _ _ Hl) as [Hlt|Heq].
  - destruct (Rle_lt_or_eq_dec _ _ Hk) as [Hklt|Hkeq].
    + left. apply exp_increasing. nra.
    + rewrite <- Hkeq. right. f_equal. ring.
  - rewrite <- Heq. right. f_equal. ring.
Qed.

Lemma da_eta_eta_n c (tie : nat) : da_eta c (INR (tie + 1)) = eta_n c (S tie).
Proof. unfold da_eta, eta_n. replace (tie + 1)%nat with (S tie) by lia. reflexivity. Qed.

Lemma prod_keep_nn c n : prod_keep c n n = 1.
Proof. unfold prod_keep. rewrite Nat.sub_diag. reflexivity. Qed.

Lemma prod_keep_S c i n : (i <= n)%nat ->
  prod_keep c i (S n) = prod_keep c i n * (1 - eta_n c (S n)).
Proof.
  intros Hi. unfold prod_keep.
  replace (S n - i)%nat with (S (n - i)) by lia.
  rewrite seq_S, map_app, Rprod_app. cbn [map].
  replace (S i + (n - i))%nat with (S n) by lia.
  unfold Rprod at 2. cbn [fold_right]. ring.
Qed.

(* eta_1 = 1 kills whatever was in the average before the first step *)
Lemma prod_keep_0 c n : (1 <= n)%nat -> prod_keep c 0 n = 0.
Proof.
  intros Hn. unfold prod_keep. rewrite Nat.sub_0_r.
  destruct n as [|n]; [lia|]. cbn [seq map]. unfold Rprod. cbn [fold_right].
  rewrite eta_n_1. ring.
Qed.

Lemma prod_keep_nonneg c i n : 0 <= c_kappa c -> 0 <= prod_keep c i n.
Proof.
  intros Hk. unfold prod_keep.
  assert (G : forall len s, (1 <= s)%nat -> 0 <= Rprod (map (fun j => 1 - eta_n c j) (seq s len))).
  { induction len as [|len IH]; intros s Hs; cbn [seq map]; unfold Rprod in *; cbn [fold_right]; [lra|].
    apply Rmult_le_pos; [|apply IH; lia].
    assert (eta_n c s <= 1) by (apply eta_n_le_1; [exact Hk|exact Hs]). lra. }
  apply G. lia.
Qed.

Lemma weight_nonneg c i n : 0 <= c_kappa c -> 0 <= weight c i n.
Proof.
  intros Hk. unfold weight. apply Rmult_le_pos; [left; apply eta_n_pos|apply prod_keep_nonneg; exact Hk].
Qed.

Lemma wavg_S c x n :
  wavg c x (S n) = (1 - eta_n c (S n)) * wavg c x n + eta_n c (S n) * x (S n).
Proof.
  unfold wavg. rewrite seq_S, map_app, Rsum_app. cbn [map].
  replace (1 + n)%nat with (S n) by lia.
  unfold Rsum at 2. cbn [fold_right]. unfold weight at 2. rewrite prod_keep_nn.
  rewrite (Rsum_map_ext_in _ (fun i => (1 - eta_n c (S n)) * (weight c i n * x i))).
  - rewrite Rsum_map_scal. ring.
  - intros i Hi. apply in_seq in Hi. unfold weight. rewrite prod_keep_S by lia. ring.
Qed.

Lemma wavg_ext c x y n :
  (forall i, (1 <= i <= n)%nat -> x i = y i) -> wavg c x n = wavg c y n.
Proof.
  intros H. unfold wavg. apply Rsum_map_ext_in. intros i Hi. apply in_seq in Hi.
  rewrite H by lia. reflexivity.
Qed.

Lemma wavg_le c x y n : 0 <= c_kappa c ->
  (forall i, (1 <= i <= n)%nat -> x i <= y i) -> wavg c x n <= wavg c y n.
Proof.
  intros Hk H. unfold wavg. apply Rsum_map_le. intros i Hi. apply in_seq in Hi.
  apply Rmult_le_compat_l; [apply weight_nonneg; exact Hk|apply H; lia].
Qed.

(* the weights of xbar_n sum to one: xbar_n is an average *)
Lemma weights_sum_to_one c n : (1 <= n)%nat -> wavg c (fun _ => 1) n = 1.
Proof.
  induction n as [|n IH]; intros Hn; [lia|].
  rewrite wavg_S. destruct n as [|n].
  - rewrite eta_n_1. unfold wavg. cbn. ring.
  - rewrite IH by lia. ring.
Qed.

(* ---------------------------------------------------------------------------------------- *)
(* da_steps                                                                                  *)
(* ---------------------------------------------------------------------------------------- *)
Lemma da_steps_app c ks tie l a :
  da_steps c ks tie (l ++ [a]) = da_step c (da_steps c ks tie l) a (tie + length l).
Proof.
  revert ks tie. induction l as [|b l IH]; intros ks tie; cbn [app da_steps length].
  - rewrite Nat.add_0_r. reflexivity.
  - rewrite IH. f_equal. lia.
Qed.

Lemma firstn_app_le {A} i (l : list A) a : (i <= length l)%nat -> firstn i (l ++ [a]) = firstn i l.
Proof.
  intros H. rewrite firstn_app. replace (i - length l)%nat with 0%nat by lia.
  cbn [firstn]. apply app_nil_r.
Qed.

Lemma lavg_spec_snoc c m l a :
  lavg_spec c m (l ++ [a])
  = (1 - eta_n c (S (length l))) * lavg_spec c m l + eta_n c (S (length l)) * lstep_spec c m (l ++ [a]).
Proof.
  unfold lavg_spec. rewrite app_length. cbn [length]. replace (length l + 1)%nat with (S (length l)) by lia.
  rewrite wavg_S. f_equal.
  - f_equal. apply wavg_ext. intros i Hi. rewrite firstn_app_le by lia. reflexivity.
  - f_equal. rewrite <- (firstn_all (l ++ [a])) at 2. rewrite app_length. cbn [length].
    replace (length l + 1)%nat with (S (length l)) by lia. reflexivity.
Qed.

(* The state after the steps [l], started from error sum 0, bias m and an ARBITRARY initial average x0 *)
Lemma steps_closed c s x0 m l :
  let ks := da_steps c (mkDA s 0 x0 m) 0 l in
  esum ks = sum_err c l
  /\ mu ks = m
  /\ (l <> [] -> step ks = exp (lstep_spec c m l))
  /\ lavg ks = prod_keep c 0 (length l) * x0 + lavg_spec c m l.
Proof.
  induction l as [|a l IH] using rev_ind; cbv zeta.
  - cbn [da_steps esum mu lavg length]. rewrite prod_keep_nn.
    unfold lavg_spec, wavg, sum_err. cbn. repeat split; try ring. intros H; congruence.
  - cbv zeta in IH. destruct IH as (He & Hm & _ & Hl).
    rewrite da_steps_app. cbn [Nat.add].
    set (prev := da_steps c (mkDA s 0 x0 m) 0 l) in *.
    assert (Hls : mu prev - (esum prev + (c_delta c - a)) * sqrt (INR (length l + 1))
                    / (c_gamma c * (c_t0 c + INR (length l + 1)))
                  = lstep_spec c m (l ++ [a])).
    { unfold lstep_spec. rewrite app_length. cbn [length]. rewrite sum_err_app, He, Hm.
      rewrite (Rplus_comm (c_t0 c)). unfold Rdiv. ring. }
    unfold da_step. cbn [esum mu lavg step]. repeat split.
    + rewrite sum_err_app, He. reflexivity.
    + exact Hm.
    + intros _. rewrite Hls. reflexivity.
    + rewrite Hls, Hl, da_eta_eta_n, lavg_spec_snoc.
      rewrite app_length. cbn [length]. replace (length l + 1)%nat with (S (length l)) by lia.
      rewrite prod_keep_S by lia. ring.
Qed.

(* ======================================================================================== *)
(* 2. Theorems                                                                               *)
(* ======================================================================================== *)

(* C11_matches_nesterov *)
Theorem matches_nesterov c ks0 l : l <> [] ->
  let ks := da_steps c (da_init ks0) 0 l in
  let m := ln (10 * step ks0) in
  esum ks = sum_err c l
  /\ step ks = exp (lstep_spec c m l)
  /\ ln (step ks) = lstep_spec c m l
  /\ lavg ks = lavg_spec c m l
  /\ mu ks = m.
Proof.
  intros Hne. cbv zeta. unfold da_init.
  destruct (steps_closed c (step ks0) (ln (step ks0)) (ln (10 * step ks0)) l) as (He & Hm & Hs & Hl).
  specialize (Hs Hne).
  repeat split; try assumption.
  - rewrite Hs. apply ln_exp.
  - rewrite Hl. rewrite prod_keep_0; [ring|]. destruct l; [congruence|cbn; lia].
Qed.

(* every intermediate state too: the state after the first i steps is the closed form of the prefix *)
Theorem matches_nesterov_prefix c ks0 l i : (1 <= i <= length l)%nat ->
  let ks := da_steps c (da_init ks0) 0 (firstn i l) in
  let m := ln (10 * step ks0) in
  esum ks = sum_err c (firstn i l)
  /\ step ks = exp (lstep_spec c m (firstn i l))
  /\ lavg ks = lavg_spec c m (firstn i l)
  /\ mu ks = m.
Proof.
  intros Hi. assert (Hne : firstn i l <> []).
  { intros H. apply (f_equal (@length R)) in H. rewrite firstn_length in H. cbn in H. lia. }
  destruct (matches_nesterov c ks0 (firstn i l) Hne) as (A & B & _ & C & D). cbv zeta. auto.
Qed.

(* the empty epoch: nothing but da_init *)
Lemma steps_nil c ks0 : da_steps c (da_init ks0) 0 [] = da_init ks0.
Proof. reflexivity. Qed.

(* C11_first_avg_independent : whatever da_init stores in the average (liesel: ln step, Stan: 0),
   after at least one step the state is the same *)
Theorem first_avg_independent c s m x0 x0' l : l <> [] ->
  da_steps c (mkDA s 0 x0 m) 0 l = da_steps c (mkDA s 0 x0' m) 0 l.
Proof.
  intros Hne.
  destruct (steps_closed c s x0 m l) as (He & Hm & Hs & Hl).
  destruct (steps_closed c s x0' m l) as (He' & Hm' & Hs' & Hl').
  cbv zeta in *. specialize (Hs Hne). specialize (Hs' Hne).
  assert (Hp : prod_keep c 0 (length l) = 0).
  { apply prod_keep_0. destruct l; [congruence|cbn; lia]. }
  rewrite Hp in Hl, Hl'.
  destruct (da_steps c (mkDA s 0 x0 m) 0 l) as [s1 e1 l1 m1].
  destruct (da_steps c (mkDA s 0 x0' m) 0 l) as [s2 e2 l2 m2].
  cbn [step esum lavg mu] in *. f_equal; lra.
Qed.

Corollary stan_init_same_result c ks0 l : l <> [] ->
  da_steps c (da_init ks0) 0 l = da_steps c (mkDA (step ks0) 0 0 (ln (10 * step ks0))) 0 l.
Proof. intros Hne. unfold da_init. apply first_avg_independent. exact Hne. Qed.

(* Stan's recurrence for the average, xbar_0 = 0, xbar_n = (1 - eta_n) xbar_(n-1) + eta_n x_n,
   is the weighted sum *)
Fixpoint stan_xbar (c : daconst) (x : nat -> R) (n : nat) : R :=
  match n with
  | O => 0
  | S n' => (1 - eta_n c n) * stan_xbar c x n' + eta_n c n * x n
  end.

Lemma stan_xbar_wavg c x n : stan_xbar c x n = wavg c x n.
Proof.
  induction n as [|n IH]; [reflexivity|].
  cbn [stan_xbar]. rewrite IH, wavg_S. reflexivity.
Qed.

Theorem stan_average c x n :
  stan_xbar c x n = wavg c x n /\ ((1 <= n)%nat -> wavg c (fun _ => 1) n = 1).
Proof. split; [apply stan_xbar_wavg|apply weights_sum_to_one]. Qed.

(* C11_finalize *)
Theorem finalize_step ks : step (da_finalize ks) = exp (lavg ks).
Proof. reflexivity. Qed.

Theorem finalize_epoch c ks0 l : l <> [] ->
  step (da_epoch c ks0 l) = exp (lavg_spec c (ln (10 * step ks0)) l)
  /\ lavg (da_epoch c ks0 l) = lavg (da_steps c (da_init ks0) 0 l)
  /\ esum (da_epoch c ks0 l) = esum (da_steps c (da_init ks0) 0 l)
  /\ mu (da_epoch c ks0 l) = mu (da_steps c (da_init ks0) 0 l).
Proof.
  intros Hne. unfold da_epoch, da_finalize. cbn [step lavg esum mu].
  destruct (matches_nesterov c ks0 l Hne) as (_ & _ & _ & Hl & _). cbv zeta in Hl.
  rewrite Hl. auto.
Qed.

(* an epoch without any adaptive step leaves a positive step size where it was (over R) *)
Theorem finalize_init_id ks : 0 < step ks -> step (da_finalize (da_init ks)) = step ks.
Proof. intros H. unfold da_finalize, da_init. cbn [step lavg]. apply exp_ln. exact H. Qed.

(* C11_monotone *)
Theorem monotone c ks a a' tie :
  0 < c_gamma c -> 0 < c_t0 c + INR (tie + 1) -> a <= a' ->
  step (da_step c ks a tie) <= step (da_step c ks a' tie)
  /\ lavg (da_step c ks a tie) <= lavg (da_step c ks a' tie).
Proof.
  intros Hg Ht Ha. unfold da_step. cbn [step lavg].
  set (t := INR (tie + 1)) in *.
  assert (Hq : 0 <= sqrt t / (c_gamma c * (c_t0 c + t))).
  { unfold Rdiv. apply Rmult_le_pos; [apply sqrt_pos|]. left. apply Rinv_0_lt_compat. nra. }
  assert (Hls : mu ks - (esum ks + (c_delta c - a)) * sqrt t / (c_gamma c * (c_t0 c + t))
             <= mu ks - (esum ks + (c_delta c - a')) * sqrt t / (c_gamma c * (c_t0 c + t))).
  { replace ((esum ks + (c_delta c - a)) * sqrt t / (c_gamma c * (c_t0 c + t)))
      with ((esum ks + (c_delta c - a)) * (sqrt t / (c_gamma c * (c_t0 c + t)))) by (unfold Rdiv; ring).
    replace ((esum ks + (c_delta c - a')) * sqrt t / (c_gamma c * (c_t0 c + t)))
      with ((esum ks + (c_delta c - a')) * (sqrt t / (c_gamma c * (c_t0 c + t)))) by (unfold Rdiv; ring).
    nra. }
  split.
  - destruct Hls as [Hlt|Heq]; [left; apply exp_increasing; exact Hlt|rewrite Heq; lra].
  - assert (0 < da_eta c t) by (unfold da_eta, Rpower; apply exp_pos). nra.
Qed.

(* strict version *)
Theorem monotone_strict c ks a a' tie :
  0 < c_gamma c -> 0 < c_t0 c + INR (tie + 1) -> a < a' ->
  step (da_step c ks a tie) < step (da_step c ks a' tie).
Proof.
  intros Hg Ht Ha. unfold da_step. cbn [step].
  set (t := INR (tie + 1)) in *.
  assert (Ht1 : 0 < sqrt t).
  { apply sqrt_lt_R0. unfold t. apply lt_0_INR. lia. }
  assert (Hq : 0 < sqrt t / (c_gamma c * (c_t0 c + t))).
  { unfold Rdiv. apply Rmult_lt_0_compat; [exact Ht1|]. apply Rinv_0_lt_compat. nra. }
  apply exp_increasing.
  replace ((esum ks + (c_delta c - a)) * sqrt t / (c_gamma c * (c_t0 c + t)))
    with ((esum ks + (c_delta c - a)) * (sqrt t / (c_gamma c * (c_t0 c + t)))) by (unfold Rdiv; ring).
  replace ((esum ks + (c_delta c - a')) * sqrt t / (c_gamma c * (c_t0 c + t)))
    with ((esum ks + (c_delta c - a')) * (sqrt t / (c_gamma c * (c_t0 c + t)))) by (unfold Rdiv; ring).
  nra.
Qed.

(* with a negative regularisation scale the statement is false: the hypothesis gamma > 0 is needed *)
Theorem monotone_needs_gamma_pos :
  exists c ks a a' tie, c_gamma c < 0 /\ 0 < c_t0 c + INR (tie + 1) /\ a < a'
    /\ step (da_step c ks a' tie) < step (da_step c ks a tie).
Proof.
  exists (mkDC (1/2) (-1) 1 1), (mkDA 1 0 0 0), 0, 1, 0%nat.
  cbn [c_gamma c_t0 Nat.add INR]. repeat split; try lra.
  unfold da_step. cbn [step esum mu c_delta c_gamma c_t0 Nat.add INR].
  apply exp_increasing. rewrite sqrt_1. lra.
Qed.

(* ... and so is t0 + t > 0 (a negative offset below -t flips the sign of the update) *)
Theorem monotone_needs_offset_pos :
  exists c ks a a' tie, 0 < c_gamma c /\ c_t0 c + INR (tie + 1) < 0 /\ a < a'
    /\ step (da_step c ks a' tie) < step (da_step c ks a tie).
Proof.
  exists (mkDC (1/2) 1 1 (-3)), (mkDA 1 0 0 0), 0, 1, 0%nat.
  cbn [c_gamma c_t0 Nat.add INR]. repeat split; try lra.
  unfold da_step. cbn [step esum mu c_delta c_gamma c_t0 Nat.add INR].
  apply exp_increasing. rewrite sqrt_1. lra.
Qed.

Theorem monotone_hyps_needed :
  (exists c ks a a' tie, c_gamma c < 0 /\ 0 < c_t0 c + INR (tie + 1) /\ a < a'
    /\ step (da_step c ks a' tie) < step (da_step c ks a tie))
  /\ (exists c ks a a' tie, 0 < c_gamma c /\ c_t0 c + INR (tie + 1) < 0 /\ a < a'
    /\ step (da_step c ks a' tie) < step (da_step c ks a tie)).
Proof. split; [exact monotone_needs_gamma_pos|exact monotone_needs_offset_pos]. Qed.

(* ---------------------------------------------------------------------------------------- *)
(* whole-epoch monotonicity (kappa >= 0): pointwise higher acceptance -> final step not smaller *)
(* ---------------------------------------------------------------------------------------- *)
Inductive pointwise_le : list R -> list R -> Prop :=
| pw_nil : pointwise_le [] []
| pw_cons a b l l' : a <= b -> pointwise_le l l' -> pointwise_le (a :: l) (b :: l').

Lemma pointwise_le_length l l' : pointwise_le l l' -> length l = length l'.
Proof. induction 1; cbn; congruence. Qed.

Lemma pointwise_le_firstn i l l' : pointwise_le l l' -> pointwise_le (firstn i l) (firstn i l').
Proof.
  intros H. revert i. induction H; intros [|i]; cbn [firstn]; try constructor; auto.
Qed.

Lemma sum_err_antitone c l l' : pointwise_le l l' -> sum_err c l' <= sum_err c l.
Proof. unfold sum_err. induction 1; cbn [fold_right]; lra. Qed.

Lemma lstep_spec_monotone c m l l' :
  0 < c_gamma c -> 0 <= c_t0 c -> pointwise_le l l' -> lstep_spec c m l <= lstep_spec c m l'.
Proof.
  intros Hg Ht H. unfold lstep_spec. rewrite <- (pointwise_le_length _ _ H).
  pose proof (sum_err_antitone c _ _ H) as Hs.
  set (n := INR (length l)).
  assert (Hn : 0 <= n) by (apply pos_INR).
  assert (Hq : 0 <= sqrt n / (c_gamma c * (n + c_t0 c))).
  { destruct (Req_dec n 0) as [E|NE].
    - rewrite E, sqrt_0. unfold Rdiv. lra.
    - unfold Rdiv. apply Rmult_le_pos; [apply sqrt_pos|]. left. apply Rinv_0_lt_compat. nra. }
  nra.
Qed.

Theorem monotone_epoch c ks0 l l' :
  0 < c_gamma c -> 0 <= c_t0 c -> 0 <= c_kappa c -> l <> [] -> pointwise_le l l' ->
  step (da_epoch c ks0 l) <= step (da_epoch c ks0 l').
Proof.
  intros Hg Ht Hk Hne H.
  assert (Hne' : l' <> []).
  { intros E. apply pointwise_le_length in H. rewrite E in H. destruct l; [congruence|discriminate]. }
  destruct (finalize_epoch c ks0 l Hne) as (-> & _).
  destruct (finalize_epoch c ks0 l' Hne') as (-> & _).
  assert (Hl : lavg_spec c (ln (10 * step ks0)) l <= lavg_spec c (ln (10 * step ks0)) l').
  { unfold lavg_spec. rewrite <- (pointwise_le_length _ _ H).
    apply wavg_le; [exact Hk|]. intros i _. apply lstep_spec_monotone; auto.
    apply pointwise_le_firstn. exact H. }
  destruct Hl as [Hlt|Heq]; [left; apply exp_increasing; exact Hlt|rewrite Heq; lra].
Qed.

(* ---------------------------------------------------------------------------------------- *)
(* the recurrence exactly as published (Hoffman & Gelman 2014, Alg. 5/6; Stan's
   stepsize_adaptation::learn_stepsize): running average Hbar of (delta - alpha) with weights
   1/(m + t0), x = mu - sqrt m / gamma * Hbar, xbar = (1 - m^-kappa) xbar + m^-kappa x.       *)
(* ---------------------------------------------------------------------------------------- *)
Record hgstate := mkHG { hbar : R; xbar : R; logeps : R }.

Definition hg_step (c : daconst) (m0 : R) (st : hgstate) (a : R) (m : nat) : hgstate :=
  let w := 1 / (INR m + c_t0 c) in
  let h := (1 - w) * hbar st + w * (c_delta c - a) in
  let x := m0 - sqrt (INR m) / c_gamma c * h in
  let eta := eta_n c m in
  mkHG h ((1 - eta) * xbar st + eta * x) x.

Fixpoint hg_steps (c : daconst) (m0 : R) (st : hgstate) (m : nat) (accs : list R) : hgstate :=
  match accs with
  | [] => st
  | a :: r => hg_steps c m0 (hg_step c m0 st a m) (S m) r
  end.

Lemma hg_steps_app c m0 st m l a :
  hg_steps c m0 st m (l ++ [a]) = hg_step c m0 (hg_steps c m0 st m l) a (m + length l).
Proof.
  revert st m. induction l as [|b l IH]; intros st m; cbn [app hg_steps length].
  - rewrite Nat.add_0_r. reflexivity.
  - rewrite IH. f_equal. lia.
Qed.

Theorem matches_hoffman_gelman c ks0 l :
  0 <= c_t0 c -> c_gamma c <> 0 -> l <> [] ->
  let ks := da_steps c (da_init ks0) 0 l in
  let hg := hg_steps c (ln (10 * step ks0)) (mkHG 0 0 0) 1 l in
  step ks = exp (logeps hg)
  /\ lavg ks = xbar hg
  /\ esum ks = (INR (length l) + c_t0 c) * hbar hg.
Proof.
  intros Ht Hg Hne. cbv zeta.
  rewrite (stan_init_same_result c ks0 l Hne).
  set (m0 := ln (10 * step ks0)).
  (* invariant over all prefixes, including the empty one (where step is not yet exp logeps) *)
  assert (Inv : forall l,
    let ks := da_steps c (mkDA (step ks0) 0 0 m0) 0 l in
    let hg := hg_steps c m0 (mkHG 0 0 0) 1 l in
    mu ks = m0 /\ lavg ks = xbar hg /\ esum ks = (INR (length l) + c_t0 c) * hbar hg
    /\ (l <> [] -> step ks = exp (logeps hg))).
  { clear l Hne. intros l. induction l as [|a l IH] using rev_ind; cbv zeta.
    - cbn. repeat split; try ring. intros H; congruence.
    - cbv zeta in IH. destruct IH as (Hm & Hl & He & _).
      rewrite da_steps_app, hg_steps_app. cbn [Nat.add].
      set (prev := da_steps c (mkDA (step ks0) 0 0 m0) 0 l) in *.
      set (hp := hg_steps c m0 (mkHG 0 0 0) 1 l) in *.
      rewrite app_length. cbn [length].
      replace (length l + 1)%nat with (S (length l)) by lia.
      assert (Hpos : INR (S (length l)) + c_t0 c <> 0).
      { assert (0 < INR (S (length l))) by (apply lt_0_INR; lia). lra. }
      assert (Hh : esum prev + (c_delta c - a)
                   = (INR (S (length l)) + c_t0 c) * hbar (hg_step c m0 hp a (S (length l)))).
      { unfold hg_step. cbn [hbar]. rewrite He. rewrite S_INR. rewrite S_INR in Hpos. field. exact Hpos. }
      assert (Hx : mu prev - (esum prev + (c_delta c - a)) * sqrt (INR (S (length l)))
                     / (c_gamma c * (c_t0 c + INR (S (length l))))
                   = logeps (hg_step c m0 hp a (S (length l)))).
      { rewrite Hh. unfold hg_step. cbn [hbar logeps]. rewrite Hm. field.
        repeat split; try exact Hg; try exact Hpos; rewrite Rplus_comm; exact Hpos. }
      unfold da_step. cbn [mu lavg esum step].
      replace (length l + 1)%nat with (S (length l)) by lia.
      repeat split.
      + exact Hm.
      + rewrite Hx, Hl. replace (S (length l)) with (length l + 1)%nat at 1 2 by lia.
        rewrite da_eta_eta_n. unfold hg_step. cbn [xbar logeps]. reflexivity.
      + exact Hh.
      + intros _. rewrite Hx. reflexivity. }
  destruct (Inv l) as (_ & Hl & He & Hs). cbv zeta in *. auto.
Qed.

(* ======================================================================================== *)
(* 3. Kernels: dispatch, frozen outside adaptation, restart per epoch                        *)
(* ======================================================================================== *)
Section KernelProofs.
Variable X : Type.
Notation kstate := (kstate X).

Lemma is_adaptation_spec e : is_adaptation e = match e with Fast | Slow => true | _ => false end.
Proof. destruct e; reflexivity. Qed.

(* C11_frozen *)
Theorem frozen_transition k c ety (ks : kstate) a tie :
  ety = Burnin \/ ety = Post \/ ety = Initial ->
  transition k c ety ks a tie = ks.
Proof. intros [ -> | [ -> | -> ] ]; reflexivity. Qed.

Theorem frozen_transitions k c ety (ks : kstate) tie accs :
  ety = Burnin \/ ety = Post \/ ety = Initial ->
  transitions k c ety ks tie accs = ks.
Proof.
  intros H. revert ks tie. induction accs as [|a r IH]; intros ks tie; cbn [transitions]; [reflexivity|].
  rewrite frozen_transition by exact H. apply IH.
Qed.

(* MHKernel with da_tune_step_size = False never changes its state in a transition, in any epoch *)
Theorem frozen_mh_untuned c ety (ks : kstate) a tie : transition (MH false) c ety ks a tie = ks.
Proof. unfold transition, adaptive_transition, standard_transition. destruct (is_adaptation ety); reflexivity. Qed.

Theorem frozen_mh_untuned_transitions c ety (ks : kstate) tie accs :
  transitions (MH false) c ety ks tie accs = ks.
Proof.
  revert ks tie. induction accs as [|a r IH]; intros ks tie; cbn [transitions]; [reflexivity|].
  rewrite frozen_mh_untuned. apply IH.
Qed.

(* in adaptation epochs the tuning kernels do exactly one da_step per transition *)
Theorem adaptive_transition_is_da_step k c ety (ks : kstate) a tie :
  is_adaptation ety = true -> tunes k = true ->
  transition k c ety ks a tie = mkKS (da_step c (da ks) a tie) (rest ks).
Proof. intros He Hk. unfold transition, adaptive_transition, standard_transition. rewrite He, Hk. reflexivity. Qed.

Lemma adaptive_transitions k c ety (ks : kstate) tie accs :
  is_adaptation ety = true -> tunes k = true ->
  transitions k c ety ks tie accs = mkKS (da_steps c (da ks) tie accs) (rest ks).
Proof.
  intros He Hk. revert ks tie. induction accs as [|a r IH]; intros ks tie; cbn [transitions da_steps].
  - destruct ks; reflexivity.
  - rewrite adaptive_transition_is_da_step by assumption. rewrite IH. reflexivity.
Qed.

(* the whole epoch of a tuning kernel = the dual-averaging epoch started from the current step size *)
Theorem epoch_core_adaptive k c ety (ks : kstate) accs :
  is_adaptation ety = true -> tunes k = true ->
  epoch_core k c ety ks accs = mkKS (da_epoch c (da ks) accs) (rest ks).
Proof.
  intros He Hk. unfold epoch_core, end_epoch, start_epoch.
  rewrite adaptive_transitions by assumption. reflexivity.
Qed.

(* ... and an epoch without adaptation is da_init followed by da_finalize: over R the (positive)
   step size is unchanged, and the transitions inside see one constant state *)
Theorem epoch_core_frozen k c ety (ks : kstate) accs :
  is_adaptation ety = false \/ tunes k = false ->
  epoch_core k c ety ks accs = mkKS (da_finalize (da_init (da ks))) (rest ks)
  /\ forall i, transitions k c ety (start_epoch k ks) 0 (firstn i accs) = start_epoch k ks.
Proof.
  intros H.
  assert (T : forall (s : kstate) tie l, transitions k c ety s tie l = s).
  { intros s tie l. revert s tie. induction l as [|a r IH]; intros s tie; cbn [transitions]; [reflexivity|].
    replace (transition k c ety s a tie) with s; [apply IH|].
    unfold transition, adaptive_transition, standard_transition.
    destruct H as [ -> | -> ]; [reflexivity|]. destruct (is_adaptation ety); reflexivity. }
  split; [|intros i; apply T].
  unfold epoch_core. rewrite T. reflexivity.
Qed.

Theorem frozen_epoch_step k c ety (ks : kstate) accs :
  is_adaptation ety = false \/ tunes k = false -> 0 < step (da ks) ->
  step (da (epoch_core k c ety ks accs)) = step (da ks).
Proof.
  intros H Hs. destruct (epoch_core_frozen k c ety ks accs H) as [-> _]. cbn [da].
  apply finalize_init_id. exact Hs.
Qed.

(* C11_restart_per_epoch: whatever the schedule before, an adaptation epoch is the dual-averaging
   epoch started by da_init from the CURRENT step size; nothing else of the earlier tuning state
   (error sum, average, bias) enters *)
Lemma run_schedule_app k c (ks : kstate) pre e :
  run_schedule k c ks (pre ++ [e])
  = let '(ety, accs, hist) := e in run_epoch k c ety hist (run_schedule k c ks pre) accs.
Proof. unfold run_schedule. rewrite fold_left_app. destruct e as [[ety accs] hist]. reflexivity. Qed.

Theorem da_epoch_only_step c ks ks' accs : step ks = step ks' -> da_epoch c ks accs = da_epoch c ks' accs.
Proof. intros H. unfold da_epoch, da_init. rewrite H. reflexivity. Qed.

Theorem restart_per_epoch k c (ks : kstate) pre ety accs hist e0 l0 m0 :
  is_adaptation ety = true -> tunes k = true ->
  let cur := run_schedule k c ks pre in
  run_schedule k c ks (pre ++ [(ety, accs, hist)])
  = tune k ety hist (mkKS (da_epoch c (mkDA (step (da cur)) e0 l0 m0) accs) (rest cur)).
Proof.
  intros He Hk. cbv zeta. rewrite run_schedule_app. unfold run_epoch.
  rewrite epoch_core_adaptive by assumption. rewrite He.
  rewrite (da_epoch_only_step c (da (run_schedule k c ks pre)) (mkDA (step (da (run_schedule k c ks pre))) e0 l0 m0))
    by reflexivity.
  destruct ety; try reflexivity; discriminate.
Qed.

(* the step size a tuning kernel has after an adaptation epoch with at least one transition *)
Theorem run_epoch_step k c ety (ks : kstate) accs :
  is_adaptation ety = true -> tunes k = true -> accs <> [] ->
  step (da (run_epoch k c ety None ks accs)) = exp (lavg_spec c (ln (10 * step (da ks))) accs).
Proof.
  intros He Hk Hne. unfold run_epoch.
  assert (Ht : tune k ety None (epoch_core k c ety ks accs) = epoch_core k c ety ks accs).
  { unfold tune. destruct (has_mm k && is_slow ety); reflexivity. }
  rewrite He, Ht, epoch_core_adaptive by assumption.
  destruct (finalize_epoch c (da ks) accs Hne) as (Hf & _).
  destruct ety; try discriminate; cbn [da]; exact Hf.
Qed.

(* outside adaptation (or without tuning) the state seen after ANY number of transitions of the epoch
   is the state the epoch was entered with: it never changes between transitions *)
Theorem frozen_between_transitions k c ety (ks : kstate) accs i j :
  is_adaptation ety = false \/ tunes k = false ->
  transitions k c ety (start_epoch k ks) 0 (firstn i accs)
  = transitions k c ety (start_epoch k ks) 0 (firstn j accs).
Proof.
  intros H. destruct (epoch_core_frozen k c ety ks accs H) as [_ T]. rewrite (T i), (T j). reflexivity.
Qed.

(* a whole burn-in / posterior epoch, as the engine runs it (no tune call): over R the step size is
   the one the epoch was entered with, and the rest of the kernel state is untouched *)
Theorem frozen_run_epoch k c ety hist (ks : kstate) accs :
  ety = Burnin \/ ety = Post -> 0 < step (da ks) ->
  step (da (run_epoch k c ety hist ks accs)) = step (da ks)
  /\ rest (run_epoch k c ety hist ks accs) = rest ks.
Proof.
  intros He Hs.
  assert (Ha : is_adaptation ety = false) by (destruct He as [-> | ->]; reflexivity).
  assert (Hr : run_epoch k c ety hist ks accs = epoch_core k c ety ks accs).
  { unfold run_epoch. rewrite Ha. destruct He as [-> | ->]; reflexivity. }
  rewrite Hr. split.
  - apply frozen_epoch_step; [left; exact Ha|exact Hs].
  - destruct (epoch_core_frozen k c ety ks accs (or_introl Ha)) as [-> _]. reflexivity.
Qed.

(* RW / MH / IWLS have no tune step: after an adaptation epoch with at least one transition the
   kernel's step size IS exp of the averaged log step size, whatever history the engine passes *)
Theorem run_epoch_step_no_mm k c ety hist (ks : kstate) accs :
  is_adaptation ety = true -> tunes k = true -> has_mm k = false -> accs <> [] ->
  step (da (run_epoch k c ety hist ks accs)) = exp (lavg_spec c (ln (10 * step (da ks))) accs).
Proof.
  intros He Hk Hm Hne. rewrite <- (run_epoch_step k c ety ks accs He Hk Hne).
  unfold run_epoch, tune. rewrite Hm. cbn [andb]. reflexivity.
Qed.

(* HMC / NUTS after a slow epoch with a history: the averaged step size times the adjustment *)
Theorem run_epoch_step_mm k c adj newx (ks : kstate) accs :
  tunes k = true -> has_mm k = true -> accs <> [] ->
  step (da (run_epoch k c Slow (Some (adj, newx)) ks accs))
  = adj * exp (lavg_spec c (ln (10 * step (da ks))) accs)
  /\ rest (run_epoch k c Slow (Some (adj, newx)) ks accs) = newx.
Proof.
  intros Hk Hm Hne. unfold run_epoch. cbn [is_adaptation etype_num Nat.ltb Nat.leb andb].
  rewrite epoch_core_adaptive by (try reflexivity; exact Hk).
  unfold tune. rewrite Hm. cbn [is_slow etype_num Nat.eqb andb da rest step].
  destruct (finalize_epoch c (da ks) accs Hne) as (Hf & _). rewrite Hf. split; reflexivity.
Qed.

Theorem run_epoch_step_all k c ety hist adj newx (ks : kstate) accs :
  tunes k = true -> accs <> [] ->
  (is_adaptation ety = true -> has_mm k = false ->
     step (da (run_epoch k c ety hist ks accs)) = exp (lavg_spec c (ln (10 * step (da ks))) accs))
  /\ (has_mm k = true ->
     step (da (run_epoch k c Slow (Some (adj, newx)) ks accs))
     = adj * exp (lavg_spec c (ln (10 * step (da ks))) accs)
     /\ rest (run_epoch k c Slow (Some (adj, newx)) ks accs) = newx).
Proof.
  intros Hk Hne. split.
  - intros He Hm. apply run_epoch_step_no_mm; assumption.
  - intros Hm. apply run_epoch_step_mm; assumption.
Qed.

End KernelProofs.

(* ======================================================================================== *)
(* 4. Non-vacuity                                                                            *)
(* ======================================================================================== *)
Definition c_default : daconst := mkDC (4/5) (1/20) (3/4) 10.

Example monotone_hyp_sat :
  0 < c_gamma c_default /\ 0 < c_t0 c_default + INR (0 + 1) /\ (1/4 : R) <= 3/4
  /\ step (da_step c_default (da_init (mkDA 1 0 0 0)) (1/4) 0)
     < step (da_step c_default (da_init (mkDA 1 0 0 0)) (3/4) 0).
Proof.
  cbn [c_gamma c_t0 c_default Nat.add INR]. repeat split; try lra.
  apply monotone_strict; cbn [c_gamma c_t0 c_default Nat.add INR]; lra.
Qed.

Example nesterov_two_steps :
  let ks := da_steps c_default (da_init (mkDA 1 0 0 0)) 0 [1/2; 1] in
  esum ks = 4/5 - 1/2 + (4/5 - 1)
  /\ lavg ks = (1 - eta_n c_default 2) * lstep_spec c_default (ln 10) [1/2]
               + eta_n c_default 2 * lstep_spec c_default (ln 10) [1/2; 1].
Proof.
  assert (Hne : [1/2; 1] <> ([] : list R)) by discriminate.
  destruct (matches_nesterov c_default (mkDA 1 0 0 0) [1/2; 1] Hne) as (He & _ & _ & Hl & _).
  cbv zeta in *. cbn [step] in *. rewrite Rmult_1_r in Hl. split.
  - rewrite He. unfold sum_err. cbn [fold_right c_delta c_default]. lra.
  - rewrite Hl. unfold lavg_spec, wavg, weight, prod_keep. cbn [length seq map firstn Nat.sub].
    unfold Rsum, Rprod. cbn [fold_right map]. rewrite eta_n_1. ring.
Qed.

Example frozen_hyp_sat :
  transition (X:=unit) RW c_default Post (mkKS (mkDA 2 3 4 5) tt) (1/2) 7 = mkKS (mkDA 2 3 4 5) tt
  /\ transition (X:=unit) RW c_default Fast (mkKS (mkDA 2 3 4 5) tt) (1/2) 7 <> mkKS (mkDA 2 3 4 5) tt.
Proof.
  split; [reflexivity|].
  unfold transition, adaptive_transition, standard_transition. cbn [is_adaptation etype_num Nat.ltb Nat.leb andb tunes da rest].
  intros H. apply (f_equal (fun s => esum (da s))) in H. unfold da_step in H. cbn [da esum c_delta c_default] in H. lra.
Qed.

Example restart_hyp_sat :
  let ks : kstate unit := mkKS (mkDA (1/2) 3 4 5) tt in
  run_schedule NUTS c_default ks [(Post, [1/2], None); (Fast, [1/4; 3/4], None)]
  = mkKS (da_epoch c_default (mkDA (step (da (run_schedule NUTS c_default ks [(Post, [1/2], None)]))) 0 0 0) [1/4; 3/4]) tt.
Proof.
  cbv zeta.
  exact (restart_per_epoch unit NUTS c_default (mkKS (mkDA (1/2) 3 4 5) tt) [(Post, [1/2], None)] Fast [1/4; 3/4] None 0 0 0
           eq_refl eq_refl).
Qed.

Example first_avg_hyp_sat :
  da_steps c_default (mkDA 2 0 (ln 2) (ln 20)) 0 [1/2] = da_steps c_default (mkDA 2 0 0 (ln 20)) 0 [1/2]
  /\ da_steps c_default (mkDA 2 0 (ln 2) (ln 20)) 0 [] <> da_steps c_default (mkDA 2 0 0 (ln 20)) 0 [].
Proof.
  split.
  - apply first_avg_independent. discriminate.
  - cbn [da_steps]. intros H. apply (f_equal lavg) in H. cbn [lavg] in H.
    assert (0 < ln 2) by (rewrite <- ln_1; apply ln_increasing; lra). lra.
Qed.

Example finalize_hyp_sat :
  step (da_epoch c_default (mkDA 1 0 0 0) [1/2]) = exp (lstep_spec c_default (ln 10) [1/2]).
Proof.
  assert (Hne : [1/2] <> ([] : list R)) by discriminate.
  destruct (finalize_epoch c_default (mkDA 1 0 0 0) [1/2] Hne) as (Hf & _).
  rewrite Hf. cbn [step]. rewrite Rmult_1_r. f_equal.
  unfold lavg_spec, wavg, weight, prod_keep. cbn [length seq map firstn Nat.sub].
  unfold Rsum, Rprod. cbn [fold_right map]. rewrite eta_n_1. ring.
Qed.
