(* Model of liesel/goose/optim.py : optim_flat, the part that deals with the POSITION (a dict
   name -> array): extract_position, the position history carried through the while loop, the
   restore-best step, NaN padding / pruning of the position history, and the batch index generator.
   Builds on Goose/Stopper.v (stopping rule, loop, best index).

   A python dict is an association list in iteration order.  Every dict that goes through a jax pytree
   operation (jax.tree.map, the carry of jax.lax.while_loop) is rebuilt with its keys SORTED; a dict
   built by a comprehension over `params` is in the caller's order.  Values are flattened arrays
   (list Q); the length stands for the shape. *)
From Coq Require Import List ZArith QArith Bool Arith String.
Import ListNotations.
Close Scope Q_scope.
Close Scope string_scope.
Open Scope nat_scope.
From LV Require Import Goose.Stopper.

Definition name := string.
Definition value := list Q.
Definition dict (A : Type) := list (name * A).

Fixpoint lookup {A} (n : name) (d : dict A) : option A :=
  match d with
  | [] => None
  | kv :: r => if String.eqb n (fst kv) then Some (snd kv) else lookup n r
  end.

(* pytree flatten / unflatten of a dict: keys in sorted order (insertion sort, String.leb = python's
   order on ASCII names) *)
Fixpoint insert_key {A} (kv : name * A) (d : dict A) : dict A :=
  match d with
  | [] => [kv]
  | kv' :: r => if String.leb (fst kv) (fst kv') then kv :: d else kv' :: insert_key kv r
  end.
Definition pytree {A} (d : dict A) : dict A := fold_right insert_key [] d.

Fixpoint nodupb (l : list name) : bool :=
  match l with
  | [] => true
  | x :: r => negb (existsb (String.eqb x) r) && nodupb r
  end.

(* jnp.zeros((max_iter,) + shape) *)
Definition zeros_like (v : value) : value := repeat 0%Q (List.length v).

(* history["position"][name] after k executions of body_fun: slot 0 is set before the loop, slot
   while_i (already incremented) in every iteration; r k = value of this parameter after k iterations *)
Fixpoint col_at (mi : nat) (r : nat -> value) (k : nat) : list value :=
  match k with
  | O => upd (repeat (zeros_like (r 0)) mi) 0 (r 0)
  | S k' => upd (col_at mi r k') (S k') (r (S k'))
  end.

(* value.at[(i+1):].set(nan) and value[:(i+1)], for any entry type *)
Definition nan_pad_g {A} (h : list A) (i : nat) : list (option A) :=
  map Some (firstn (S i) h) ++ repeat None (List.length h - S i).
Definition post_history_g {A} (prune : bool) (h : list A) (i : nat) : list (option A) :=
  if prune then firstn (S i) (nan_pad_g h i) else nan_pad_g h i.

(* pos[ibest] with a jax integer: negative indices wrap once, out-of-range indices are clamped *)
Definition index_z {A} (l : list A) (z : Z) (d : A) : A :=
  let n := Z.of_nat (List.length l) in
  let z1 := if (z <? 0)%Z then (z + n)%Z else z in
  nth (Z.to_nat (Z.min (Z.max z1 0) (n - 1))) l d.

Inductive err :=
  | AssertRestoreNeedsHistory      (* "Cannot restore best position if history is not saved." *)
  | NotModelledDuplicateParams     (* a name listed twice in params: outside the model *)
  | LoopError.                     (* dynamic_slice error inside the stopper (patience > max_iter) *)
Inductive res (A : Type) := Ok (a : A) | Err (e : err).
Arguments Ok {A} a.
Arguments Err {A} e.

Record full_out := mkFull {
  f_iter : nat;                                         (* OptimResult.iteration *)
  f_best : Z;                                           (* OptimResult.iteration_best *)
  f_position : dict value;                              (* OptimResult.position *)
  f_poshist : option (dict (list (option value)));      (* OptimResult.history["position"] *)
  f_losshist : list (option Q) }.                       (* OptimResult.history["loss_validation"] *)

(* the restore-best comprehension:  {name: pos[ibest] for name, pos in history["position"].items()} *)
Definition restore_by_items (hist : dict (list value)) (b : Z) : dict value :=
  map (fun kv => (fst kv, index_z (snd kv) b [])) hist.

(* the variant  zip(params, history["position"].values())  pairs the caller's order of names with the
   sorted order of the history columns (not the code; kept for the refutation) *)
Definition restore_by_zip (params : list name) (hist : dict (list value)) (b : Z) : dict value :=
  combine params (map (fun kv => index_z (snd kv) b []) hist).

Definition optim_flat_full (s : stopper) (hv restore save prune : bool) (params : list name)
    (loss : nat -> Q) (rec : nat -> name -> value) : res full_out :=
  if restore && negb save then Err AssertRestoreNeedsHistory
  else if negb (nodupb params) then Err NotModelledDuplicateParams
  else
    match optim_flat_model s hv restore loss with
    | None => Err LoopError
    | Some o =>
        let j := out_iter o in
        (* position = extract_position(params, state): caller's order; history["position"] is built
           from it by a comprehension and then goes through jax.tree.map and the while loop *)
        let hist := pytree (map (fun n => (n, col_at (max_iter s) (fun k => rec k n) j)) params) in
        let final := if restore then restore_by_items hist (out_best o)
                     else pytree (map (fun n => (n, rec j n)) params) in
        Ok (mkFull j (out_best o) final
              (if save then Some (map (fun kv => (fst kv, post_history_g prune (snd kv) j)) hist)
               else None)
              (post_history prune (out_hist o) j))
    end.

(* ---- _generate_batch_indices(key, n, batch_size): permutation(key, n)[0 : (n // bs) * bs] split
   into n // bs consecutive rows of bs entries.  perm is the permutation drawn by jax (an oracle
   argument).  batch_size = 0 and batch_size > n (array_split into 0 sections) are errors. ---- *)
Fixpoint rows {A} (k bs : nat) (l : list A) : list (list A) :=
  match k with
  | O => []
  | S k' => firstn bs l :: rows k' bs (skipn bs l)
  end.
Definition batch_indices (perm : list nat) (bs : nat) : option (list (list nat)) :=
  let n := List.length perm in
  if (bs =? 0) || (n <? bs) then None
  else Some (rows (n / bs) bs (firstn ((n / bs) * bs) perm)).

(* ---- Stopper is a plain mutable dataclass: an attribute assigned on an existing instance (optim_flat itself
   re-assigns stopper.patience) replaces the field; every method reads the CURRENT fields (the code keeps no
   derived state).  A history of assignments after construction: ---- *)
Inductive sop := SetMaxIter (n : nat) | SetPatience (n : nat) | SetAtol (q : Q) | SetRtol (q : Q).
Definition apply_op (s : stopper) (o : sop) : stopper :=
  match o with
  | SetMaxIter n => mkStopper n (patience s) (atol s) (rtol s)
  | SetPatience n => mkStopper (max_iter s) n (atol s) (rtol s)
  | SetAtol q => mkStopper (max_iter s) (patience s) q (rtol s)
  | SetRtol q => mkStopper (max_iter s) (patience s) (atol s) q
  end.
Definition apply_ops (s : stopper) (ops : list sop) : stopper := fold_left apply_op ops s.
