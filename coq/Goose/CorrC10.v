(* Executable glue for the C10 correspondence shards (harness/lv/c10.py).
   A case = one engine configuration the real liesel was run on, with, for every call whose key the
   run exposes, the label of the call and the code of the path the harness decoded the concrete key to
   (decoding is justified on the Python side by exact uint32 equality with jax.random.split along the
   path).  [agrees] says: the model's key flow for the same configuration hands exactly these paths to
   exactly these calls, and every call of the model is either observed or declared unobservable. *)
From Coq Require Import List ZArith NArith Bool Arith.
Import ListNotations.
From LV Require Import Base.ListAux Goose.Epoch Goose.Keys.
Close Scope Z_scope.
Open Scope nat_scope.

Definition meth_code (m : meth) : nat :=
  match m with
  | MJitter => 0 | MInit => 1 | MStart => 2 | MTrans => 3 | MEnd => 4 | MTune => 5 | MEndWarmup => 6 | MQuant => 7
  end.

Record obs := mkO { o_chain : nat; o_meth : nat; o_idx : nat; o_epoch : nat; o_time : nat; o_code : N }.

Record ccase := mkCC {
  cc_nch : nat; cc_jit : option nat; cc_nker : nat; cc_nqg : nat; cc_chunk : nat;
  cc_sched : list (Z * Z * Z);       (* (type code, duration, thinning) *)
  cc_raised : bool;                  (* the real run raised in _sample_for_duration *)
  cc_obs : list obs;                 (* observed calls *)
  cc_unobs : list obs }.             (* calls the run does not expose (code ignored) *)

Definition label_is (l : label) (o : obs) : bool :=
  (l_chain l =? o_chain o) && (meth_code (l_meth l) =? o_meth o) && (l_idx l =? o_idx o)
  && (l_epoch l =? o_epoch o) && (l_time l =? o_time o).

Definition sched_of (l : list (Z * Z * Z)) : list econf :=
  map (fun x => mkE (ety_of_code (fst (fst x))) (snd (fst x)) (snd x)) l.

Definition model_calls (c : ccase) : option (list (label * key)) :=
  run_calls [] (cc_nch c) (cc_jit c) (mkP (cc_nker c) (cc_nqg c) (cc_chunk c)) (sched_of (cc_sched c)).

Definition obs_ok (calls : list (label * key)) (o : obs) : bool :=
  match find (fun lk => label_is (fst lk) o) calls with
  | Some (_, k) => bounded k && N.eqb (encode k) (o_code o)
  | None => false
  end.

Definition agrees (c : ccase) : bool :=
  match model_calls c with
  | None => cc_raised c
  | Some calls =>
      negb (cc_raised c)
      && forallb (obs_ok calls) (cc_obs c)
      && forallb (fun lk => existsb (label_is (fst lk)) (cc_obs c) || existsb (label_is (fst lk)) (cc_unobs c)) calls
      && (length (cc_obs c) + length (cc_unobs c) =? length calls)
  end.

(* diagnostics: observed calls that disagree, with the model's code (0 = the model has no such call) *)
Definition mismatches (c : ccase) : list (nat * nat * nat * nat * nat * N * N) :=
  match model_calls c with
  | None => []
  | Some calls =>
      flat_map (fun o => if obs_ok calls o then []
                         else [(o_chain o, o_meth o, o_idx o, o_epoch o, o_time o, o_code o,
                                match find (fun lk => label_is (fst lk) o) calls with
                                | Some (_, k) => encode k | None => 0%N end)]) (cc_obs c)
  end.
(* model calls that are neither observed nor declared unobservable *)
Definition missing (c : ccase) : list (nat * nat * nat * nat * nat) :=
  match model_calls c with
  | None => []
  | Some calls =>
      flat_map (fun lk => if existsb (label_is (fst lk)) (cc_obs c) || existsb (label_is (fst lk)) (cc_unobs c)
                          then [] else [(l_chain (fst lk), meth_code (l_meth (fst lk)), l_idx (fst lk),
                                         l_epoch (fst lk), l_time (fst lk))]) calls
  end.
