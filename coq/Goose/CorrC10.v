(* Executable glue for the C10 correspondence shards (harness/lv/c10.py).
   A case = one engine configuration the real liesel was run on, with, for every call whose key the
   run exposes, the label of the call and the code of the path the harness decoded the concrete key to
   (decoding is justified on the Python side by exact uint32 equality with jax.random.split along the
   path).  [agrees] says: the model's key flow for the same configuration hands exactly these paths to
   exactly these calls, and every call of the model is either observed or declared unobservable. *)
From Coq Require Import List ZArith NArith Bool Arith.
Import ListNotations.
From LV Require Import Base.ListAux Goose.Epoch Goose.Keys Goose.Builder.
Close Scope Z_scope.
Open Scope nat_scope.

Definition meth_code (m : meth) : nat :=
  match m with
  | MJitter => 0 | MInit => 1 | MStart => 2 | MTrans => 3 | MEnd => 4 | MTune => 5 | MEndWarmup => 6 | MQuant => 7
  end.

Record obs := mkO { o_chain : nat; o_meth : nat; o_idx : nat; o_epoch : nat; o_time : nat; o_code : N }.

Record ccase := mkCC {
  cc_nch : nat; cc_jit : option nat; cc_nker : nat; cc_nqg : nat; cc_chunk : nat;
  cc_eseed : bool;                   (* set_engine_seed installed another engine key (path [(200, 1)]) *)
  cc_sched : list (Z * Z * Z);       (* (type code, duration, thinning) *)
  cc_raised : bool;                  (* the real run raised in _sample_for_duration *)
  cc_obs : list obs;                 (* observed calls *)
  cc_unobs : list obs }.             (* calls the run does not expose (code ignored) *)

Definition label_is (l : label) (o : obs) : bool :=
  (l_chain l =? o_chain o) && (meth_code (l_meth l) =? o_meth o) && (l_idx l =? o_idx o)
  && (l_epoch l =? o_epoch o) && (l_time l =? o_time o).

Definition sched_of (l : list (Z * Z * Z)) : list econf :=
  map (fun x => mkE (ety_of_code (fst (fst x))) (snd (fst x)) (snd x)) l.

(* jax.random.PRNGKey as a path: distinct integers give unrelated roots; the constructor's seed is the root [] *)
Definition tagkey (z : Z) : key := [(200, Z.to_nat z)].
Definition model_calls (c : ccase) : option (list (label * key)) :=
  if cc_eseed c
  then run_calls_g (tagkey 1) (b_jitter []) (cc_nch c) (cc_jit c) (mkP (cc_nker c) (cc_nqg c) (cc_chunk c))
                   (sched_of (cc_sched c))
  else run_calls [] (cc_nch c) (cc_jit c) (mkP (cc_nker c) (cc_nqg c) (cc_chunk c)) (sched_of (cc_sched c)).

Definition obs_ok (calls : list (label * key)) (o : obs) : bool :=
  match find (fun lk => label_is (fst lk) o) calls with
  | Some (_, k) => bounded k && N.eqb (encode k) (o_code o)
  | None => false
  end.

Definition agrees (c : ccase) : bool :=
  match model_calls c with
  | None => cc_raised c
  | Some calls =>
      negb (cc_raised c)
      && forallb (obs_ok calls) (cc_obs c)
      && forallb (fun lk => existsb (label_is (fst lk)) (cc_obs c) || existsb (label_is (fst lk)) (cc_unobs c)) calls
      && (length (cc_obs c) + length (cc_unobs c) =? length calls)
  end.

(* diagnostics: observed calls that disagree, with the model's code (0 = the model has no such call) *)
Definition mismatches (c : ccase) : list (nat * nat * nat * nat * nat * N * N) :=
  match model_calls c with
  | None => []
  | Some calls =>
      flat_map (fun o => if obs_ok calls o then []
                         else [(o_chain o, o_meth o, o_idx o, o_epoch o, o_time o, o_code o,
                                match find (fun lk => label_is (fst lk) o) calls with
                                | Some (_, k) => encode k | None => 0%N end)]) (cc_obs c)
  end.
(* model calls that are neither observed nor declared unobservable *)
Definition missing (c : ccase) : list (nat * nat * nat * nat * nat) :=
  match model_calls c with
  | None => []
  | Some calls =>
      flat_map (fun lk => if existsb (label_is (fst lk)) (cc_obs c) || existsb (label_is (fst lk)) (cc_unobs c)
                          then [] else [(l_chain (fst lk), meth_code (l_meth (fst lk)), l_idx (fst lk),
                                         l_epoch (fst lk), l_time (fst lk))]) calls
  end.

(* ------------------------------------------------------------------------------------------ *)
(* State part: the harness's key-driven integer random walk (harness/lv/c10_kit.py) as a [world] *)
(* ------------------------------------------------------------------------------------------ *)
(* threefry is an oracle: the harness derives the concrete key along a path with jax.random.split and
   supplies, per case, the small number the harness kernel / jitter function computes from that key,
   indexed by the path code.  A path the table does not know gives a value no run can produce. *)
Definition kv (tbl : list (N * Z)) (k : key) : Z :=
  match find (fun x => N.eqb (fst x) (encode k)) tbl with
  | Some x => snd x
  | None => (-1000000)%Z
  end.
Definition zget (l : list Z) (i : nat) : Z := nth i l (-2000000)%Z.
Fixpoint zset (l : list Z) (i : nat) (v : Z) : list Z :=
  match l, i with
  | [], _ => []
  | _ :: r, O => v :: r
  | x :: r, S j => x :: zset r j v
  end.

(* model state = slot 0 of the positions [p0; ...; p(nk-1); x];  kernel state = (g, h): g_i = p_i of the model
   state init_state was handed (the chain's jittered initial value), h = 0 until end_warmup;
   kernel i:  p_i := (3 p_i + p_((i+1) mod nk) + d(key) + h_i + g_i) mod 9973   (reads the state as left by kernel i-1);
   tune of kernel i: tuning info = the current p_i;
   end_warmup of kernel i: h_i := (sum of the tuning infos of kernel i in THIS chain's tuning history) mod 9973;
   jitter dictionary = the list of target positions (dict order); function f:  value + d'(key) *)
Definition rw_jitter (tbl : list (N * Z)) (tgt : list nat) (ks : list key) (ms : list Z) : list Z :=
  fold_left (fun m kt => zset m (snd kt) (zget m (snd kt) + kv tbl (fst kt))%Z) (combine ks tgt) ms.
Definition rw_world (nk : nat) (tgt : list nat) (tbl : list (N * Z)) (p : params) (sched : list econf) : world :=
  mkW (list Z) (Z * Z) (list Z) Z Z Z
      (fun ms => ms)
      (rw_jitter tbl tgt)
      (* init_state of kernel i: g_i = p_i in the model state it is handed, h_i = 0 *)
      (fun i _ ms => (zget ms i, 0%Z))
      (fun _ _ s _ _ _ => s)
      (fun i k s ms _ _ =>
         (s, zset ms i ((3 * zget ms i + zget ms (S i mod nk) + kv tbl k + snd s + fst s) mod 9973)%Z, 0%Z))
      (fun _ _ s _ _ _ => s)
      (fun i _ s ms _ _ _ => (s, zget ms i))
      (fun i _ s _ ti =>
         (fst s, (fold_left Z.add (map snd (filter (fun x => Nat.eqb (fst x) i) ti)) 0 mod 9973)%Z))
      (fun _ _ _ _ _ => 0%Z)
      p sched false.

Record scase := mkSC {
  sc_nch : nat; sc_tgt : list nat; sc_nker : nat; sc_nqg : nat; sc_chunk : nat;
  sc_sched : list (Z * Z * Z);
  sc_tbl : list (N * Z);
  sc_ops : list (bop (list Z) (list nat));        (* the builder calls of the run, in order *)
  sc_raised : bool;                               (* the real run raised *)
  sc_stored : list (list (nat * nat * list Z)) }. (* per chain: (epoch, time_in_epoch, position) *)

Definition sc_world (c : scase) : world :=
  rw_world (sc_nker c) (sc_tgt c) (sc_tbl c) (mkP (sc_nker c) (sc_nqg c) (sc_chunk c)) (sched_of (sc_sched c)).

Definition entry_eqb (x y : nat * nat * list Z) : bool :=
  (fst (fst x) =? fst (fst y)) && (snd (fst x) =? snd (fst y)) && list_eqb Z.eqb (snd x) (snd y).

(* EngineBuilder(seed, nch); the recorded calls; the engine of the last build(); sample_all_epochs() *)
Definition s_model (v : siv_variant) (bv : build_variant) (c : scase)
  : option (list (list (nat * nat * list Z))) :=
  match b_script (list Z) tagkey (list nat) (@length nat) (rw_jitter (sc_tbl c)) v bv (KeySeed []) (sc_nch c) (sc_ops c) with
  | None => None
  | Some ei =>
      match W_run_built (sc_world c) ei with
      | None => None
      | Some r => Some (map (W_stored (sc_world c)) r)
      end
  end.

Definition s_agrees (v : siv_variant) (bv : build_variant) (c : scase) : bool :=
  match s_model v bv c with
  | None => sc_raised c
  | Some st => negb (sc_raised c) && list_eqb (list_eqb entry_eqb) st (sc_stored c)
  end.
