(* Kernel level of C05: how RWKernel / MHKernel / IWLSKernel (_standard_transition in
   liesel/goose/rw.py, mh_kernel.py, iwls.py) hand their ingredients to mh_step.

     RW   : mh_step(subkey, model, proposal, model_state)                      correction 0.0
     MH   : mh_step(subkey, model, proposal.position, model_state, proposal.log_correction)
     IWLS : correction = bwd_log_prob - fwd_log_prob; mh_step(subkey, ..., correction)

   and all three return TransitionOutcome(info, kernel_state, model_state) with the info and the
   model state of mh_step and the kernel state they were given.

   [san] is what is done to the correction before it reaches the accept rule.  The code as written
   forwards it unchanged ([Forward]); [Sanitise] (jnp.nan_to_num on the correction) is the variant
   that hides an undefined ratio, stated here so that the file says what is true of each. *)
From Coq Require Import QArith Bool.
From LV Require Import Base.Xnum Goose.MH.
Open Scope Q_scope.

Inductive kernel_kind := KRW | KMH | KIWLS.
Inductive san := Forward | Sanitise.

(* the ingredients of one transition; which of them a kernel uses depends on its kind *)
Record kingr := mkKI {
  g_cur : xnum;        (* model.log_prob(model_state) *)
  g_prop : xnum;       (* model.log_prob(update_state(proposal, model_state)) *)
  g_user : xnum;       (* MHProposal.log_correction (MH kernel only) *)
  g_fwd : xnum;        (* IWLS forward proposal log-density  q(x' | x) *)
  g_bwd : xnum;        (* IWLS backward proposal log-density q(x | x') *)
  g_u : xnum           (* jax.random.uniform(subkey) *)
}.

(* float32 largest finite value, what jnp.nan_to_num maps +-inf to *)
Definition f32max : Q := 340282346638528859811704183484516925440 # 1.
Definition xnan_to_num (a : xnum) : xnum :=
  match a with XNaN => XFin 0 | XPosInf => XFin f32max | XNegInf => XFin (- f32max) | XFin q => XFin q end.

Definition apply_san (s : san) (a : xnum) : xnum :=
  match s with Forward => a | Sanitise => xnan_to_num a end.

(* the kernel's own correction *)
Definition kernel_corr (k : kernel_kind) (g : kingr) : xnum :=
  match k with
  | KRW => XFin 0
  | KMH => g_user g
  | KIWLS => xsub (g_bwd g) (g_fwd g)
  end.

(* the log ratio the accept rule must see *)
Definition kernel_ratio (k : kernel_kind) (g : kingr) : xnum :=
  xadd (xsub (g_prop g) (g_cur g)) (kernel_corr k g).

(* is one of the ingredients the kernel uses NaN? *)
Definition ingr_nan (k : kernel_kind) (g : kingr) : bool :=
  xisnan (g_cur g) || xisnan (g_prop g) ||
  match k with
  | KRW => false
  | KMH => xisnan (g_user g)
  | KIWLS => xisnan (g_fwd g) || xisnan (g_bwd g)
  end.

Record kernel_out (S K : Type) := mkKO { ko_info : mh_out; ko_kstate : K; ko_mstate : S }.
Arguments mkKO {S K}.
Arguments ko_info {S K}.
Arguments ko_kstate {S K}.
Arguments ko_mstate {S K}.

Section K.
Variable exp_o : xnum -> xnum.

Definition kernel_decide (s : san) (c : cmp) (k : kernel_kind) (g : kingr) : mh_out :=
  mh_decide exp_o c (g_cur g) (g_prop g) (apply_san s (kernel_corr k g)) (g_u g).

Definition kernel_transition {S K} (s : san) (c : cmp) (k : kernel_kind) (g : kingr)
    (kstate : K) (proposed input : S) : kernel_out S K :=
  let o := kernel_decide s c k g in
  mkKO o kstate (mh_select o proposed input).
End K.
