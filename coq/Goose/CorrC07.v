(* Executable glue for the C07 correspondence shards: the engine model's trace, rendered in the
   row format of the harness logging kernel (harness/lv/enginekit.py), compared with the decoded
   log of every kernel of every chain.

   How a run is observed (harness/lv/c07.py): the operation sequence of a case ENDS with
   [AppendEpoch sentinel; SampleNext], the sentinel being a short burn-in / posterior epoch, and the
   kernel states stored (store_kernel_states) for the last iteration of that sentinel hold the
   complete log of the run up to and including every kernel's last transition.  The only calls of
   the model that this does not expose are those after the last transition (the sentinel's
   end_epoch): [cut_tail] removes exactly the trailing non-transition rows of the model's log.
   Everything else - every row of every kernel of every chain - is compared. *)
From Coq Require Import List ZArith Bool Arith.
Import ListNotations.
From LV Require Import Base.ListAux Goose.Epoch Goose.Engine Goose.EngineSpec.
Open Scope Z_scope.

(* ---- keys.  Every key the engine hands out is  (a prefix of the engine's final carry key) ++ (a short
   suffix): _split_prng_key keeps child 0 as the new carry.  A path is therefore written relative to
   the final carry key [fin] of the run as  m :: flattened suffix,  m = length of the common prefix.
   The map is injective for a fixed [fin] (the path is  firstn m fin ++ suffix).  The harness decodes
   it, walks jax.random.split along the path from the chain's root key and supplies the concrete
   2 x uint32 key in a table keyed by the code. ---- *)
Fixpoint flat_path (k : key) : list Z :=
  match k with [] => [] | (n, i) :: r => Z.of_nat n :: Z.of_nat i :: flat_path r end.
Fixpoint common_prefix (a b : key) : nat :=
  match a, b with
  | (n, i) :: a', (n', i') :: b' =>
      if Nat.eqb n n' && Nat.eqb i i' then S (common_prefix a' b') else 0%nat
  | _, _ => 0%nat
  end.
Definition compress (fin p : key) : list Z :=
  let m := common_prefix fin p in Z.of_nat m :: flat_path (skipn m p).
Definition keytab := list (list Z * (Z * Z)).
Fixpoint lookup (t : keytab) (p : list Z) : option (Z * Z) :=
  match t with
  | [] => None
  | (q, v) :: r => if list_eqb Z.eqb p q then Some v else lookup r p
  end.

(* ---- rows ---- *)
Definition erow (e : eview) : list Z :=
  [Z.of_nat (v_nth e); ety_code (ety_ (v_cfg e)); dur (v_cfg e); thin (v_cfg e);
   v_t0 e; v_time e; v_tin e].
Definition norow : list Z := [-1; -1; -1; -1; -1; -1; -1].
Definition hrow (h : option (list Z)) : list Z :=
  match h with
  | None => [0; -1; -1; -1]
  | Some l => [1; Z.of_nat (length l); hd (-1) l; last l (-1)]
  end.
(* meth; epoch (7); history (4); ntune; clock *)
Definition call_row (c : call) (clock : Z) : list Z :=
  match c with
  | CInit _ => [0] ++ norow ++ hrow None ++ [-1; clock]
  | CStart _ e => [1] ++ erow e ++ hrow None ++ [-1; clock]
  | CTrans _ ad e => [if ad then 3 else 2] ++ erow e ++ hrow None ++ [-1; clock]
  | CEnd _ e => [4] ++ erow e ++ hrow None ++ [-1; clock]
  | CTune _ sl e h => [if sl then 6 else 5] ++ erow e ++ hrow h ++ [-1; clock]
  | CEndWarmup _ nt => [7] ++ norow ++ hrow None ++ [Z.of_nat nt; clock]
  end.
Definition is_trans (c : call) : bool := match c with CTrans _ _ _ => true | _ => false end.

(* rows of kernel k with the key each call received; the clock is the number of transitions (of any
   kernel) that precede the call: every transition of the harness kernel increments it in the
   model state, so the order of the kernels inside one iteration is part of what is compared *)
Fixpoint abs_rows (k : nat) (clock : Z) (tr : list kcall) : list (list Z * key) :=
  match tr with
  | [] => []
  | (c, key) :: r =>
      let rest := abs_rows k (if is_trans c then clock + 1 else clock) r in
      if Nat.eqb (call_ker c) k then (call_row c clock, key) :: rest else rest
  end.

(* drop the trailing rows that are not transitions (meth 2 / 3) *)
Definition row_is_trans (r : list Z) : bool :=
  match r with m :: _ => (m =? 2) || (m =? 3) | [] => false end.
Fixpoint drop_nontrans {A} (l : list (list Z * A)) : list (list Z * A) :=
  match l with
  | [] => []
  | x :: r => if row_is_trans (fst x) then l else drop_nontrans r
  end.
Definition cut_tail {A} (l : list (list Z * A)) : list (list Z * A) := rev (drop_nontrans (rev l)).

Fixpoint concretize (fin : key) (t : keytab) (l : list (list Z * key)) : option (list (list Z)) :=
  match l with
  | [] => Some []
  | (row, p) :: r =>
      match lookup t (compress fin p), concretize fin t r with
      | Some (a, b), Some rows => Some ((row ++ [a; b]) :: rows)
      | _, _ => None
      end
  end.

Definition rows_eqb (a b : list (list Z)) : bool := list_eqb (list_eqb Z.eqb) a b.

(* ---- cases ---- *)
(* logs per kernel; each observed row = the 14 columns of [call_row] followed by the two key words *)
Record chain_obs := mkCh { ch_tab : keytab; ch_logs : list (list (list Z)) }.
Record ccase := mkCase {
  cs_chunk : Z; cs_needs : list bool; cs_init : list econf; cs_ops : list op;
  cs_chains : list chain_obs }.

(* -> (final carry key, rows per kernel) *)
Definition model_rows (fl : warmflag) (c : ccase) : option (key * list (list (list Z * key))) :=
  match run (mkP (cs_chunk c) (cs_needs c) fl) (cs_init c) (cs_ops c) with
  | Ok g => Some (c_key (g_core g),
                  map (fun k => cut_tail (abs_rows k 0 (trace g))) (seq 0 (length (cs_needs c))))
  | Err _ => None
  end.

(* (a) the calls: everything but the keys *)
Definition strip_key (r : list Z) : list Z := firstn 14 r.
Definition chain_agrees_calls (m : list (list (list Z * key))) (ch : chain_obs) : bool :=
  Nat.eqb (length m) (length (ch_logs ch))
  && forallb (fun p => rows_eqb (map fst (fst p)) (map strip_key (snd p))
                       && forallb (fun r => Nat.eqb (length r) 16) (snd p))
             (combine m (ch_logs ch)).
(* (b) calls and keys *)
Definition chain_agrees (fin : key) (m : list (list (list Z * key))) (ch : chain_obs) : bool :=
  Nat.eqb (length m) (length (ch_logs ch))
  && forallb (fun p => match concretize fin (ch_tab ch) (fst p) with
                       | Some rows => rows_eqb rows (snd p)
                       | None => false
                       end)
             (combine m (ch_logs ch)).

Definition agrees_calls_fl (fl : warmflag) (c : ccase) : bool :=
  match model_rows fl c with
  | Some (_, m) => negb (Nat.eqb (length (cs_chains c)) 0) && forallb (chain_agrees_calls m) (cs_chains c)
  | None => false
  end.
Definition agrees_fl (fl : warmflag) (c : ccase) : bool :=
  match model_rows fl c with
  | Some (fin, m) => negb (Nat.eqb (length (cs_chains c)) 0) && forallb (chain_agrees fin m) (cs_chains c)
  | None => false
  end.
(* the tree under test implements the repaired variant *)
Definition agrees_calls (c : ccase) : bool := agrees_calls_fl SetsFlag c.
Definition agrees (c : ccase) : bool := agrees_fl SetsFlag c.

(* the sampled case lies in the domain of the C07 theorems *)
(* guarded appends resolved (rejected ones dropped): the schedule is made of the accepted configs *)
Definition norm_ops (c : ccase) : list op := normalize (lastc (cs_init c)) (cs_ops c).
Definition hyp_ok (c : ccase) : bool :=
  let sched := cs_init c ++ appended (norm_ops c) in
  valid sched && ops_ok (length (cs_init c)) (norm_ops c)
  && (0 <? cs_chunk c) && forallb (fun e => dur e mod cs_chunk c =? 0) (tl sched).

(* and there the keyless trace is the documented lifecycle (an instance of
   C07_trace_is_lifecycle_guarded, re-evaluated on the sampled case) *)
Definition spec_agrees (c : ccase) : bool :=
  match run (mkP (cs_chunk c) (cs_needs c) SetsFlag) (cs_init c) (cs_ops c) with
  | Ok g =>
      let sched := cs_init c ++ appended (norm_ops c) in
      Nat.eqb (length (calls g))
              (length (spec_calls (length (cs_needs c)) (existsb (fun b => b) (cs_needs c)) sched))
      && rows_eqb (map (fun c => call_row c 0) (calls g))
                  (map (fun c => call_row c 0)
                       (spec_calls (length (cs_needs c)) (existsb (fun b => b) (cs_needs c)) sched))
      && list_eqb Nat.eqb (map call_ker (calls g))
                  (map call_ker (spec_calls (length (cs_needs c)) (existsb (fun b => b) (cs_needs c)) sched))
  | Err _ => false
  end.

(* for the harness to derive the concrete keys: the flattened final carry key, followed by the code of
   every key the model hands out (repaired variant) *)
Definition model_paths (c : ccase) : list (list Z) :=
  match run (mkP (cs_chunk c) (cs_needs c) SetsFlag) (cs_init c) (cs_ops c) with
  | Ok g => flat_path (c_key (g_core g)) :: map (fun kc => compress (c_key (g_core g)) (snd kc)) (trace g)
  | Err _ => []
  end.

(* the guarded appends of the case that the model rejects *)
Definition rejected_of (c : ccase) : list econf := rejected (lastc (cs_init c)) (cs_ops c).

(* diagnostics: which variant / which part agrees:
   [calls SetsFlag; keys SetsFlag; calls NeverSets; keys NeverSets; hyp_ok; spec_agrees] *)
Definition verdicts (c : ccase) : list bool :=
  [agrees_calls_fl SetsFlag c; agrees_fl SetsFlag c; agrees_calls_fl NeverSets c; agrees_fl NeverSets c;
   hyp_ok c; spec_agrees c].
(* per chain and kernel, index of the first keyless row that differs (999 = none, 777 = the model errs) *)
Fixpoint first_mismatch (i : nat) (a b : list (list Z)) : nat :=
  match a, b with
  | [], [] => 999%nat
  | x :: a', y :: b' => if list_eqb Z.eqb x y then first_mismatch (S i) a' b' else i
  | _, _ => i
  end.
Definition first_diff (fl : warmflag) (c : ccase) : list nat :=
  match model_rows fl c with
  | Some (_, m) =>
      flat_map (fun ch => map (fun p => first_mismatch 0 (map fst (fst p)) (map strip_key (snd p)))
                              (combine m (ch_logs ch))) (cs_chains c)
  | None => [777%nat]
  end.
(* the model's keyless rows of kernel k (to print what the model expects at a mismatch) *)
Definition model_row_at (fl : warmflag) (c : ccase) (k i : nat) : list Z :=
  match model_rows fl c with
  | Some (_, m) => nth i (map fst (nth k m [])) []
  | None => []
  end.
