(* Executable glue for the C07 correspondence shards: the engine model's trace, rendered in the
   row format of the harness logging kernel (harness/lv/enginekit.py), compared with the decoded
   log of every kernel of every chain. *)
From Coq Require Import List ZArith Bool Arith.
Import ListNotations.
From LV Require Import Base.ListAux Goose.Epoch Goose.Engine Goose.EngineSpec.
Open Scope Z_scope.

(* ---- keys: the harness supplies, per chain, the concrete 2 x uint32 key of every path the
   model uses (computed with jax.random.split along the path) ---- *)
Definition keytab := list (list Z * (Z * Z)).
Fixpoint flat_path (k : key) : list Z :=
  match k with [] => [] | (n, i) :: r => Z.of_nat n :: Z.of_nat i :: flat_path r end.
Fixpoint lookup (t : keytab) (p : list Z) : option (Z * Z) :=
  match t with
  | [] => None
  | (q, v) :: r => if list_eqb Z.eqb p q then Some v else lookup r p
  end.

(* ---- rows ---- *)
Definition erow (e : eview) : list Z :=
  [Z.of_nat (v_nth e); ety_code (ety_ (v_cfg e)); dur (v_cfg e); thin (v_cfg e);
   v_t0 e; v_time e; v_tin e].
Definition norow : list Z := [-1; -1; -1; -1; -1; -1; -1].
Definition hrow (h : option (list Z)) : list Z :=
  match h with
  | None => [0; -1; -1; -1]
  | Some l => [1; Z.of_nat (length l); hd (-1) l; last l (-1)]
  end.
(* meth; epoch (7); history (4); ntune; clock *)
Definition call_row (c : call) (clock : Z) : list Z :=
  match c with
  | CInit _ => [0] ++ norow ++ hrow None ++ [-1; clock]
  | CStart _ e => [1] ++ erow e ++ hrow None ++ [-1; clock]
  | CTrans _ ad e => [if ad then 3 else 2] ++ erow e ++ hrow None ++ [-1; clock]
  | CEnd _ e => [4] ++ erow e ++ hrow None ++ [-1; clock]
  | CTune _ sl e h => [if sl then 6 else 5] ++ erow e ++ hrow h ++ [-1; clock]
  | CEndWarmup _ nt => [7] ++ norow ++ hrow None ++ [Z.of_nat nt; clock]
  end.
Definition is_trans (c : call) : bool := match c with CTrans _ _ _ => true | _ => false end.

(* rows of kernel k, without keys; the clock is the number of transitions (of any kernel) that
   precede the call: every transition of the harness kernel increments it in the model state *)
Fixpoint abs_rows (k : nat) (clock : Z) (tr : list kcall) : list (list Z * list Z) :=
  match tr with
  | [] => []
  | (c, key) :: r =>
      let rest := abs_rows k (if is_trans c then clock + 1 else clock) r in
      if Nat.eqb (call_ker c) k then (call_row c clock, flat_path key) :: rest else rest
  end.

Fixpoint concretize (t : keytab) (l : list (list Z * list Z)) : option (list (list Z)) :=
  match l with
  | [] => Some []
  | (row, p) :: r =>
      match lookup t p, concretize t r with
      | Some (a, b), Some rows => Some ((row ++ [a; b]) :: rows)
      | _, _ => None
      end
  end.

Definition rows_eqb (a b : list (list Z)) : bool := list_eqb (list_eqb Z.eqb) a b.

(* ---- cases ---- *)
Record chain_obs := mkCh { ch_tab : keytab; ch_logs : list (list (list Z)) }.   (* logs per kernel *)
Record ccase := mkCase {
  cs_chunk : Z; cs_needs : list bool; cs_init : list econf; cs_ops : list op;
  cs_chains : list chain_obs }.

Definition model_rows (fl : warmflag) (c : ccase) : option (list (list (list Z * list Z))) :=
  match run (mkP (cs_chunk c) (cs_needs c) fl) (cs_init c) (cs_ops c) with
  | Ok g => Some (map (fun k => abs_rows k 0 (trace g)) (seq 0 (length (cs_needs c))))
  | Err _ => None
  end.

Definition chain_agrees (m : list (list (list Z * list Z))) (ch : chain_obs) : bool :=
  Nat.eqb (length m) (length (ch_logs ch))
  && forallb (fun p => match concretize (ch_tab ch) (fst p) with
                       | Some rows => rows_eqb rows (snd p)
                       | None => false
                       end)
             (combine m (ch_logs ch)).

Definition agrees_fl (fl : warmflag) (c : ccase) : bool :=
  match model_rows fl c with
  | Some m => negb (Nat.eqb (length (cs_chains c)) 0) && forallb (chain_agrees m) (cs_chains c)
  | None => false
  end.
(* the tree under test implements the repaired variant *)
Definition agrees (c : ccase) : bool := agrees_fl SetsFlag c.

(* the sampled case lies in the domain of the C07 theorems *)
Definition hyp_ok (c : ccase) : bool :=
  let sched := cs_init c ++ appended (cs_ops c) in
  valid sched && ops_ok (length (cs_init c)) (cs_ops c)
  && (0 <? cs_chunk c) && forallb (fun e => dur e mod cs_chunk c =? 0) (tl sched).

(* and there the keyless trace is the documented lifecycle (an instance of C07_trace_is_lifecycle,
   re-evaluated on the sampled case) *)
Definition spec_agrees (c : ccase) : bool :=
  match run (mkP (cs_chunk c) (cs_needs c) SetsFlag) (cs_init c) (cs_ops c) with
  | Ok g =>
      let sched := cs_init c ++ appended (cs_ops c) in
      Nat.eqb (length (calls g))
              (length (spec_calls (length (cs_needs c)) (existsb (fun b => b) (cs_needs c)) sched))
      && rows_eqb (map (fun c => call_row c 0) (calls g))
                  (map (fun c => call_row c 0)
                       (spec_calls (length (cs_needs c)) (existsb (fun b => b) (cs_needs c)) sched))
      && list_eqb Nat.eqb (map call_ker (calls g))
                  (map call_ker (spec_calls (length (cs_needs c)) (existsb (fun b => b) (cs_needs c)) sched))
  | Err _ => false
  end.

(* paths of all keys the model hands out (for the harness to derive the concrete keys) *)
Definition model_paths_fl (fl : warmflag) (c : ccase) : list (list Z) :=
  match run (mkP (cs_chunk c) (cs_needs c) fl) (cs_init c) (cs_ops c) with
  | Ok g => map (fun kc => flat_path (snd kc)) (trace g)
  | Err _ => []
  end.
(* both variants, so that a failing case can be classified against the unrepaired one too *)
Definition model_paths (c : ccase) : list (list Z) :=
  model_paths_fl SetsFlag c ++ model_paths_fl NeverSets c.
(* diagnostics: per chain and kernel, index of the first row that differs (99999 = none) *)
Fixpoint first_mismatch (i : nat) (a b : list (list Z)) : nat :=
  match a, b with
  | [], [] => 999%nat
  | x :: a', y :: b' => if list_eqb Z.eqb x y then first_mismatch (S i) a' b' else i
  | _, _ => i
  end.
Definition first_diff (fl : warmflag) (c : ccase) : list nat :=
  match model_rows fl c with
  | Some m =>
      flat_map (fun ch => map (fun p => match concretize (ch_tab ch) (fst p) with
                                        | Some rows => first_mismatch 0 rows (snd p)
                                        | None => 888%nat
                                        end) (combine m (ch_logs ch))) (cs_chains c)
  | None => [777%nat]
  end.
