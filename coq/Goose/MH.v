(* Model of liesel/goose/mh.py : mh_step, over the IEEE special-value layer.
   [cmp] is the comparison used for the accept decision: the repaired code uses Lt
   (uniform < acceptance_prob); the code as found used Le. *)
From Coq Require Import QArith Bool.
From LV Require Import Base.Xnum.
Open Scope Q_scope.

Inductive cmp := Le | Lt.

Record mh_out := mkMH { code : nat; prob : xnum; accept : bool }.

Section MH.
Variable exp_o : xnum -> xnum.       (* jnp.exp, an oracle (DESIGN 4.2) *)

Definition mh_decide (c : cmp) (cur prop corr u : xnum) : mh_out :=
  let l0 := xadd (xsub prop cur) corr in
  let '(l, ec) := if xisnan l0 then (XNegInf, 90%nat) else (l0, 0%nat) in
  let p := xclip_max1 (exp_o l) in
  let a := match c with Le => xle u p | Lt => xlt u p end in
  mkMH ec p a.

(* the returned model state: jax.lax.cond(do_accept, proposed, input) *)
Definition mh_select {S} (o : mh_out) (proposed input : S) : S :=
  if accept o then proposed else input.
End MH.
