(* Model of liesel/goose/chain.py (ListChain, ListEpochChain, EpochChainManager) and of the storage
   behaviour of liesel/goose/engine.py (Engine._start_epoch, _handle_inital_values_epoch,
   _sample_for_duration, _sample_many / scan_f, get_results + SamplingResults accessors) and of the
   position-key selection of liesel/goose/builder.py (EngineBuilder.build).
   Hand-written from the code; tied to it by the C08 correspondence check (harness/lv/c08.py).
   No proofs in this file (see ThinProofs.v). *)
From Coq Require Import String List ZArith Bool Arith Lia.
Import ListNotations.
From LV Require Import Goose.Epoch.
Open Scope Z_scope.

(* ------------------------------------------------------------------------------------------- *)
(*  chain.py                                                                                    *)
(* ------------------------------------------------------------------------------------------- *)
Section Chain.
Context {A : Type}.

(* ListEpochChain.append, thinning branch:
     idx = arange(size)[(self._states_counter + arange(size)) % th == 0]
   element i of the chunk survives iff (counter + i) mod th = 0. *)
Fixpoint keep_from (th c : Z) (chunk : list A) : list A :=
  match chunk with
  | [] => []
  | x :: t => if (c mod th =? 0) then x :: keep_from th (c + 1) t else keep_from th (c + 1) t
  end.

(* a ListEpochChain: epoch config, apply_thinning, _states_counter, _chunks_list *)
Record echain := mkEC { ec_cfg : econf; ec_thin : bool; ec_counter : Z; ec_chunks : list (list A) }.

(* __init__: counter starts at 1 *)
Definition ec_new (cfg : econf) (apply_thinning : bool) : echain := mkEC cfg apply_thinning 1 [].

(* ListEpochChain.append *)
Definition ec_append (ch : echain) (chunk : list A) : echain :=
  if ec_thin ch && (1 <? thin (ec_cfg ch)) then
    let kept := keep_from (thin (ec_cfg ch)) (ec_counter ch) chunk in
    mkEC (ec_cfg ch) (ec_thin ch) (ec_counter ch + Z.of_nat (length chunk))
         (match kept with
          | [] => ec_chunks ch                      (* len(idx) == 0: nothing is appended *)
          | _ => ec_chunks ch ++ [kept]
          end)
  else mkEC (ec_cfg ch) (ec_thin ch) (ec_counter ch) (ec_chunks ch ++ [chunk]).

(* ListChain.get: Option(None) iff no chunk was ever stored, else the concatenation *)
Definition ec_get (ch : echain) : option (list A) :=
  match ec_chunks ch with [] => None | l => Some (concat l) end.

(* the stored elements, in order *)
Definition chain_list (ch : echain) : list A := concat (ec_chunks ch).

(* EpochChainManager: apply_thinning flag, chains (most recent first) *)
Record cmgr := mkCM { cm_thin : bool; cm_rchains : list echain }.
Definition cm_new (apply_thinning : bool) : cmgr := mkCM apply_thinning [].
Definition cm_chains (m : cmgr) : list echain := rev (cm_rchains m).

(* advance_epoch *)
Definition cm_advance (m : cmgr) (cfg : econf) : cmgr :=
  mkCM (cm_thin m) (ec_new cfg (cm_thin m) :: cm_rchains m).

(* append: self._chains[-1].append(chunk); None = IndexError (no epoch yet) *)
Definition cm_append (m : cmgr) (chunk : list A) : option cmgr :=
  match cm_rchains m with
  | [] => None
  | c :: r => Some (mkCM (cm_thin m) (ec_append c chunk :: r))
  end.

(* the body shared by combine / combine_all / combine_filtered: a fresh ListChain receives the
   get() of every selected epoch chain that is_some(); result = its get() *)
Definition opt_list {B} (o : option B) : list B := match o with Some x => [x] | None => [] end.
Definition combine_chunks (l : list echain) : option (list A) :=
  match flat_map (fun c => opt_list (ec_get c)) l with
  | [] => None
  | cs => Some (concat cs)
  end.

Definition cm_combine_all (m : cmgr) : option (list A) := combine_chunks (cm_chains m).
Definition cm_combine_filtered (p : econf -> bool) (m : cmgr) : option (list A) :=
  combine_chunks (filter (fun c => p (ec_cfg c)) (cm_chains m)).
(* combine(epoch_numbers), non-negative indices; outer None = IndexError *)
Fixpoint nths {B} (l : list B) (nums : list nat) : option (list B) :=
  match nums with
  | [] => Some []
  | n :: r => match nth_error l n, nths l r with
              | Some x, Some xs => Some (x :: xs)
              | _, _ => None
              end
  end.
Definition cm_combine (m : cmgr) (nums : list nat) : option (option (list A)) :=
  match nths (cm_chains m) nums with
  | Some cs => Some (combine_chunks cs)
  | None => None
  end.
Definition cm_get_epochs (m : cmgr) : list econf := map ec_cfg (cm_chains m).
End Chain.
Arguments echain : clear implicits.
Arguments cmgr : clear implicits.

(* ------------------------------------------------------------------------------------------- *)
(*  the specification side: which elements of an epoch's sequence are to be stored              *)
(* ------------------------------------------------------------------------------------------- *)
Fixpoint zseq (c : Z) (n : nat) : list Z :=
  match n with O => [] | S n' => c :: zseq (c + 1) n' end.

(* [x_j | 1 <= j <= length l, j mod th = 0]   (x_j = j-th element, 1-based) *)
Definition thin_spec {A} (th : Z) (l : list A) : list A :=
  map snd (filter (fun p => fst p mod th =? 0) (combine (zseq 1 (length l)) l)).

(* what get() of an epoch chain must return after a whole epoch whose per-iteration values are l
   (at least one chunk was appended) *)
Definition get_spec {A} (thin_on : bool) (th : Z) (l : list A) : option (list A) :=
  if thin_on && (1 <? th)
  then match thin_spec th l with [] => None | x => Some x end
  else Some l.

(* ------------------------------------------------------------------------------------------- *)
(*  PRNG keys as paths in the splitting tree (DESIGN 4.3)                                       *)
(* ------------------------------------------------------------------------------------------- *)
Definition key := list (nat * nat).
(* jax.random.split(k, n)[i] *)
Definition ksplit (k : key) (n i : nat) : key := k ++ [(n, i)].

(* EpochState as handed to kernels / generators *)
Record einfo := mkEI { ei_idx : nat; ei_cfg : econf; ei_t0 : Z; ei_tin : Z }.
(* EpochState.advance_time(1) *)
Definition advance (e : einfo) : einfo := mkEI (ei_idx e) (ei_cfg e) (ei_t0 e) (ei_tin e + 1).

(* builder.build: pos_keys = kernels' keys; extend(positions_included);
   [key for key in pos_keys if key not in positions_excluded] *)
Definition mem_str (k : string) (l : list string) : bool := existsb (String.eqb k) l.
Definition builder_keys (kernel_keys incl excl : list string) : list string :=
  filter (fun k => negb (mem_str k excl)) (kernel_keys ++ incl).
(* Engine.__init__: if not position_keys: position_keys = [kernels' keys] *)
Definition engine_keys (kernel_keys given : list string) : list string :=
  match given with [] => kernel_keys | _ => given end.
Definition tracked_keys (kernel_keys incl excl : list string) : list string :=
  engine_keys kernel_keys (builder_keys kernel_keys incl excl).

(* ------------------------------------------------------------------------------------------- *)
(*  engine.py, storage behaviour                                                                *)
(* ------------------------------------------------------------------------------------------- *)
Section Engine.
(* St model state, P position (extract_position's result), I one kernel's transition info,
   KS the kernel states (the list the KernelSequence threads), Q one generated quantity *)
Context {St P I KS Q : Type}.

(* a kernel: its position keys and its transition; the transition receives the whole kernel-state
   list and returns it with (at most) its own slot replaced *)
Record kernel := mkKer {
  k_keys : list string;
  k_trans : key -> einfo -> KS -> St -> I * KS * St }.

Variable kernels : list kernel.
Variable extract : list string -> St -> P.               (* ModelInterface.extract_position *)
Variable gens : list (key -> einfo -> St -> Q).          (* QuantityGenerator.generate *)
(* everything the engine does with the kernels between the sampling loops; these calls return
   kernel states only (never a model state) and do not touch the chains:
     pre_hook  = _end_warmup (first posterior epoch) ; _kernel_start_epoch
     post_hook = _end_epoch -> end_epoch ; _tune_kernels (gets the current epoch's stored positions) *)
Variable pre_hook : key -> nat -> econf -> KS -> St -> key * KS.
Variable post_hook : key -> nat -> econf -> option (list P) -> KS -> St -> key * KS.
Variable init_ks : key -> St -> KS.                      (* KernelSequence.init_states *)
Variable store_ks : bool.
Variable tk : list string.                              (* Engine._position_keys *)

Definition kernel_keys : list string := flat_map k_keys kernels.
Definition has_gens : bool := match gens with [] => false | _ => true end.

(* KernelSequence.transition: keys = split(prng_key, len(kernels)); kernel i gets keys[i]; the
   model state is threaded through the kernels in order *)
Fixpoint seq_trans (ktr : key) (n i : nat) (kers : list kernel) (ei : einfo) (ks : KS) (ms : St)
  : list I * KS * St :=
  match kers with
  | [] => ([], ks, ms)
  | ker :: r =>
      let '(inf, ks1, ms1) := k_trans ker (ksplit ktr n i) ei ks ms in
      let '(infs, ks2, ms2) := seq_trans ktr n (S i) r ei ks1 ms1 in
      (inf :: infs, ks2, ms2)
  end.

(* quants: keys = split(key_quants, len(generators)); generator i gets keys[i] *)
Fixpoint gen_all (kq : key) (n i : nat) (gs : list (key -> einfo -> St -> Q)) (ei : einfo) (ms : St)
  : list Q :=
  match gs with
  | [] => []
  | g :: r => g (ksplit kq n i) ei ms :: gen_all kq n (S i) r ei ms
  end.

(* what scan_f emits for one iteration, plus the carry *)
Record outcome := mkOut { o_ks : KS; o_ms : St; o_pos : P; o_infos : list I; o_quants : list Q }.

(* scan_f: key_trans, key_quants = split(key); transition with the epoch state BEFORE
   advance_time(1); position / quantities from out.model_state, generators see the advanced epoch *)
Definition iter_step (k : key) (ei : einfo) (ks : KS) (ms : St) : outcome :=
  let '(infs, ks', ms') := seq_trans (ksplit k 2 0) (length kernels) 0 kernels ei ks ms in
  mkOut ks' ms' (extract tk ms') infs
        (gen_all (ksplit k 2 1) (length gens) 0 gens (advance ei) ms').

(* lax.scan(scan_f, carry, keys) *)
Fixpoint scan (keys : list key) (ei : einfo) (ks : KS) (ms : St) : einfo * KS * St * list outcome :=
  match keys with
  | [] => (ei, ks, ms, [])
  | k :: r =>
      let o := iter_step k ei ks ms in
      let '(ei', ks', ms', outs) := scan r (advance ei) (o_ks o) (o_ms o) in
      (ei', ks', ms', o :: outs)
  end.

Record eng := mkEng {
  g_key : key; g_ks : KS; g_ms : St;
  g_pos : cmgr P;            (* _position_chain          apply_thinning=True  *)
  g_info : cmgr (list I);    (* _transition_info_chain   no thinning          *)
  g_kst : cmgr KS;           (* _kernel_state_chain      no thinning          *)
  g_q : cmgr (list Q) }.     (* _quantities_chain        apply_thinning=True  *)

(* Engine.__init__: self._prng_key = seeds; keys = self._split_prng_key_one();
   kernel states = init_states(keys, model_states) *)
Definition eng0 (seed : key) (ms : St) : eng :=
  mkEng (ksplit seed 2 0) (init_ks (ksplit seed 2 1) ms) ms
        (cm_new true) (cm_new false) (cm_new false) (cm_new true).

(* one pass of the loop body of _sample_for_duration:
   keys = _split_prng_key(chunk)  [split(prng, chunk+1): prng := keys[0], iteration keys keys[1:]] *)
Definition chunk_keys (c : nat) (k : key) : list key :=
  map (fun j => ksplit k (S c) (S j)) (seq 0 c).

Definition opt_append {B} (on : bool) (m : cmgr B) (chunk : list B) : option (cmgr B) :=
  if on then cm_append m chunk else Some m.

Definition sample_chunk (c : nat) (ei : einfo) (g : eng) : option (einfo * eng) :=
  let '(ei', ks', ms', outs) := scan (chunk_keys c (g_key g)) ei (g_ks g) (g_ms g) in
  match cm_append (g_pos g) (map o_pos outs),
        cm_append (g_info g) (map o_infos outs),
        opt_append store_ks (g_kst g) (map o_ks outs),
        opt_append has_gens (g_q g) (map o_quants outs) with
  | Some p, Some i, Some k, Some q =>
      Some (ei', mkEng (ksplit (g_key g) (S c) 0) ks' ms' p i k q)
  | _, _, _, _ => None
  end.

Fixpoint sample_loop (n c : nat) (ei : einfo) (g : eng) : option (einfo * eng) :=
  match n with
  | O => Some (ei, g)
  | S n' =>
      match sample_chunk c ei g with
      | Some (ei', g') => sample_loop n' c ei' g'
      | None => None
      end
  end.

(* _sample_for_duration(duration = config.duration); None = RuntimeError "not a multiple of the
   jitted sampling duration" (a chunk <= 0 is outside the builder's range and modelled as an error) *)
Definition sample_for_duration (c : nat) (ei : einfo) (g : eng) : option (einfo * eng) :=
  let d := dur (ei_cfg ei) in
  if (c =? 0)%nat then None
  else if d mod Z.of_nat c =? 0
       then sample_loop (Z.to_nat (d / Z.of_nat c)) c ei g
       else None.

(* _start_epoch: advance all four chain managers to the new epoch *)
Definition advance_all (cfg : econf) (g : eng) : eng :=
  mkEng (g_key g) (g_ks g) (g_ms g)
        (cm_advance (g_pos g) cfg) (cm_advance (g_info g) cfg)
        (cm_advance (g_kst g) cfg) (cm_advance (g_q g) cfg).

(* _generate_quantity (initial epoch): one _split_prng_key_one per generator *)
Fixpoint gen_init (gs : list (key -> einfo -> St -> Q)) (k : key) (ei : einfo) (ms : St) : key * list Q :=
  match gs with
  | [] => (k, [])
  | g :: r =>
      let q := g (ksplit k 2 1) ei ms in
      let '(k', qs) := gen_init r (ksplit k 2 0) ei ms in
      (k', q :: qs)
  end.

(* _handle_inital_values_epoch (after advance_time(1)) *)
Definition init_epoch (es : estate) (g : eng) : option eng :=
  let ei := mkEI (nth_ep es) (cfg es) (t0 es) 1 in
  match cm_append (g_pos g) [extract tk (g_ms g)],
        opt_append store_ks (g_kst g) [g_ks g] with
  | Some p, Some k =>
      if has_gens then
        let '(key', qs) := gen_init gens (g_key g) ei (g_ms g) in
        match cm_append (g_q g) [qs] with
        | Some q => Some (mkEng key' (g_ks g) (g_ms g) p (g_info g) k q)
        | None => None
        end
      else Some (mkEng (g_key g) (g_ks g) (g_ms g) p (g_info g) k (g_q g))
  | _, _ => None
  end.

Definition cur_get {B} (m : cmgr B) : option (list B) :=
  match cm_rchains m with [] => None | c :: _ => ec_get c end.

(* sample_next_epoch *)
Definition run_epoch (c : nat) (g : eng) (es : estate) : option eng :=
  let g1 := advance_all (cfg es) g in
  if is_init (ety_ (cfg es)) then init_epoch es g1
  else
    let '(k1, ks1) := pre_hook (g_key g1) (nth_ep es) (cfg es) (g_ks g1) (g_ms g1) in
    let g2 := mkEng k1 ks1 (g_ms g1) (g_pos g1) (g_info g1) (g_kst g1) (g_q g1) in
    match sample_for_duration c (mkEI (nth_ep es) (cfg es) (t0 es) 0) g2 with
    | Some (_, g3) =>
        let '(k4, ks4) := post_hook (g_key g3) (nth_ep es) (cfg es) (cur_get (g_pos g3)) (g_ks g3) (g_ms g3) in
        Some (mkEng k4 ks4 (g_ms g3) (g_pos g3) (g_info g3) (g_kst g3) (g_q g3))
    | None => None
    end.

(* sample_all_epochs: the epoch manager hands out (config, nth_epoch, time_before_epoch) *)
Fixpoint run_epochs (c : nat) (idx : nat) (t : Z) (l : list econf) (g : eng) : option eng :=
  match l with
  | [] => Some g
  | e :: r =>
      match run_epoch c g (mkS e idx t) with
      | Some g' => run_epochs c (S idx) (t + dur e) r g'
      | None => None
      end
  end.

(* Engine(epoch_configs=...) [EpochManager raises on an invalid schedule] ; sample_all_epochs() *)
Definition run_engine (c : nat) (sched : list econf) (seed : key) (ms : St) : option eng :=
  if accepts sched then run_epochs c 0 0 sched (eng0 seed ms) else None.

(* SamplingResults accessors *)
Definition post_cfg (c : econf) : bool := is_post (ety_ c).
Definition get_samples (g : eng) := cm_combine_all (g_pos g).
Definition get_posterior_samples (g : eng) := cm_combine_filtered post_cfg (g_pos g).
Definition get_infos (g : eng) := cm_combine_all (g_info g).
Definition get_posterior_infos (g : eng) := cm_combine_filtered post_cfg (g_info g).
(* results.kernel_states / generated_quantities: Option(None) unless requested *)
Definition get_kstates (g : eng) : option (option (list KS)) :=
  if store_ks then Some (cm_combine_all (g_kst g)) else None.
Definition get_quants (g : eng) : option (option (list (list Q))) :=
  if has_gens then Some (cm_combine_all (g_q g)) else None.
Definition get_posterior_quants (g : eng) : option (option (list (list Q))) :=
  if has_gens then Some (cm_combine_filtered post_cfg (g_q g)) else None.

(* ---------------- the chunk-free description of a run (specification) ---------------- *)
(* engine key before the q-th chunk of an epoch whose sampling starts with key k0 *)
Definition chunk_key (c : nat) (k0 : key) (q : nat) : key := k0 ++ repeat (S c, 0%nat) q.
(* key of the t-th iteration (0-based) of that epoch *)
Definition it_key (c : nat) (k0 : key) (t : nat) : key :=
  ksplit (chunk_key c k0 (t / c)) (S c) (S (t mod c)).

Record erec := mkER { er_cfg : econf; er_idx : nat; er_outs : list outcome }.

(* one non-initial epoch as ONE scan over all its iterations; nothing is chunked or stored; the
   only use of the thinning is the history handed to the tuning hook *)
Definition spec_epoch (c : nat) (st : key * KS * St) (es : estate) : (key * KS * St) * erec :=
  let '(k, ks, ms) := st in
  let '(k1, ks1) := pre_hook k (nth_ep es) (cfg es) ks ms in
  let n := Z.to_nat (dur (cfg es)) in
  let '(_, ksF, msF, outs) :=
    scan (map (it_key c k1) (seq 0 n)) (mkEI (nth_ep es) (cfg es) (t0 es) 0) ks1 ms in
  let hist := get_spec true (thin (cfg es)) (map o_pos outs) in
  let '(k2, ks2) := post_hook (chunk_key c k1 (n / c)) (nth_ep es) (cfg es) hist ksF msF in
  ((k2, ks2, msF), mkER (cfg es) (nth_ep es) outs).

Fixpoint spec_epochs (c : nat) (idx : nat) (t : Z) (l : list econf) (st : key * KS * St) : list erec :=
  match l with
  | [] => []
  | e :: r =>
      let '(st', rec) := spec_epoch c st (mkS e idx t) in
      rec :: spec_epochs c (S idx) (t + dur e) r st'
  end.

(* state of the engine after the initial-values epoch *)
Definition spec_init (c0 : econf) (seed : key) (ms : St) : key * KS * St :=
  let k0 := ksplit seed 2 0 in
  (if has_gens then fst (gen_init gens k0 (mkEI 0 c0 0 1) ms) else k0,
   init_ks (ksplit seed 2 1) ms, ms).

(* the per-kernel reading of one iteration: the carry after kernels 0..j-1 *)
Definition apply_kernel (ktr : key) (n : nat) (ei : einfo) (st : KS * St) (ik : nat * kernel) : KS * St :=
  let '(_, ks', ms') := k_trans (snd ik) (ksplit ktr n (fst ik)) ei (fst st) (snd st) in (ks', ms').
Definition after_kernels (ktr : key) (ei : einfo) (ks : KS) (ms : St) : KS * St :=
  fold_left (apply_kernel ktr (length kernels) ei) (combine (seq 0 (length kernels)) kernels) (ks, ms).

End Engine.
