(* Model of liesel/goose/da.py (da_init, da_step, da_finalize) over R, and of the places where the
   step-size-adapting kernels (rw.py, mh_kernel.py, iwls.py, hmc.py, nuts.py) call them:
   start_epoch -> da_init, _adaptive_transition -> da_step, end_epoch -> da_finalize,
   TransitionMixin.transition (kernel.py) -> dispatch on the epoch type.
   Written from the code, line by line; no proofs in this file. *)
From Coq Require Import Reals List Bool Arith.
Import ListNotations.
Open Scope R_scope.

(* ---------------------------------------------------------------------------------------- *)
(* da.py                                                                                     *)
(* ---------------------------------------------------------------------------------------- *)

(* DAKernelState: step_size, error_sum, log_avg_step_size, mu *)
Record dastate := mkDA { step : R; esum : R; lavg : R; mu : R }.

(* the constants a kernel hands to da_step: target_accept, gamma, kappa, t0 *)
Record daconst := mkDC { c_delta : R; c_gamma : R; c_kappa : R; c_t0 : R }.

(* da_init:   error_sum = 0.0 ; log_avg_step_size = log(step_size) ; mu = log(10.0 * step_size) *)
Definition da_init (ks : dastate) : dastate :=
  mkDA (step ks) 0 (ln (step ks)) (ln (10 * step ks)).

(* eta = t ** (-kappa)   (t >= 1, so the power is exp (-kappa * ln t)) *)
Definition da_eta (c : daconst) (t : R) : R := Rpower t (- c_kappa c).

(* da_step:
     t = time_in_epoch + 1
     eta = t ** (-kappa)
     ks.error_sum += target_accept - acceptance_prob
     log_step_size = ks.mu - (ks.error_sum * sqrt(t)) / (gamma * (t0 + t))
     ks.step_size = exp(log_step_size)
     ks.log_avg_step_size = (1 - eta) * ks.log_avg_step_size + eta * log_step_size          *)
Definition da_step (c : daconst) (ks : dastate) (a : R) (tie : nat) : dastate :=
  let t := INR (tie + 1) in
  let eta := da_eta c t in
  let es := esum ks + (c_delta c - a) in
  let ls := mu ks - (es * sqrt t) / (c_gamma c * (c_t0 c + t)) in
  mkDA (exp ls) es ((1 - eta) * lavg ks + eta * ls) (mu ks).

(* da_finalize:   step_size = exp(log_avg_step_size) *)
Definition da_finalize (ks : dastate) : dastate :=
  mkDA (exp (lavg ks)) (esum ks) (lavg ks) (mu ks).

(* consecutive da_step calls with time_in_epoch = tie, tie+1, ... (the engine advances
   epoch.time_in_epoch by one after every transition) *)
Fixpoint da_steps (c : daconst) (ks : dastate) (tie : nat) (accs : list R) : dastate :=
  match accs with
  | [] => ks
  | a :: r => da_steps c (da_step c ks a tie) (S tie) r
  end.

(* one adaptation epoch of a kernel as far as the dual-averaging state is concerned *)
Definition da_epoch (c : daconst) (ks : dastate) (accs : list R) : dastate :=
  da_finalize (da_steps c (da_init ks) 0 accs).

(* ---------------------------------------------------------------------------------------- *)
(* epoch.py : EpochType, EpochType.is_adaptation                                             *)
(* ---------------------------------------------------------------------------------------- *)
Inductive etype := Initial | Fast | Slow | Burnin | Post.

Definition etype_num (e : etype) : nat :=
  match e with Initial => 0 | Fast => 1 | Slow => 2 | Burnin => 3 | Post => 4 end%nat.

(* lhs = INITIAL_VALUES < epoch_type ; rhs = epoch_type < BURNIN ; return lhs * rhs *)
Definition is_adaptation (e : etype) : bool :=
  (etype_num Initial <? etype_num e)%nat && (etype_num e <? etype_num Burnin)%nat.

Definition is_slow (e : etype) : bool := Nat.eqb (etype_num e) (etype_num Slow).

(* ---------------------------------------------------------------------------------------- *)
(* the five kernels                                                                          *)
(* ---------------------------------------------------------------------------------------- *)
Inductive kernel := RW | MH (da_tune_step_size : bool) | IWLS | HMC | NUTS.

(* _adaptive_transition calls da_step unconditionally, except MHKernel: `if self.da_tune_step_size` *)
Definition tunes (k : kernel) : bool :=
  match k with MH b => b | _ => true end.

(* HMC / NUTS carry an inverse mass matrix and rescale the step size in _tune_slow *)
Definition has_mm (k : kernel) : bool :=
  match k with HMC | NUTS => true | _ => false end.

Section Kernels.
(* everything in the kernel state besides the four dual-averaging fields (HMC/NUTS: the inverse
   mass matrix; RW/MH/IWLS: nothing) *)
Variable X : Type.

Record kstate := mkKS { da : dastate; rest : X }.

(* every _standard_transition returns TransitionOutcome(info, kernel_state, model_state) with the
   kernel_state object it was given, never assigning to it; the acceptance probability in [info]
   is an input of this model (it is produced by mh_step / blackjax) *)
Definition standard_transition (k : kernel) (ks : kstate) : kstate := ks.

(* outcome = self._standard_transition(...); da_step(outcome.kernel_state, outcome.info.acceptance_prob,
   epoch.time_in_epoch, self.da_target_accept, self.da_gamma, self.da_kappa, self.da_t0) *)
Definition adaptive_transition (k : kernel) (c : daconst) (ks : kstate) (a : R) (tie : nat) : kstate :=
  let out := standard_transition k ks in
  if tunes k then mkKS (da_step c (da out) a tie) (rest out) else out.

(* TransitionMixin.transition: lax.cond(is_adaptation(epoch.config.type), adaptive, standard, ...) *)
Definition transition (k : kernel) (c : daconst) (ety : etype) (ks : kstate) (a : R) (tie : nat) : kstate :=
  if is_adaptation ety then adaptive_transition k c ks a tie else standard_transition k ks.

(* start_epoch: da_init(kernel_state) ; end_epoch: da_finalize(kernel_state) - all five kernels,
   every epoch type, MHKernel also when da_tune_step_size is off *)
Definition start_epoch (k : kernel) (ks : kstate) : kstate := mkKS (da_init (da ks)) (rest ks).
Definition end_epoch (k : kernel) (ks : kstate) : kstate := mkKS (da_finalize (da ks)) (rest ks).

(* tune: RW/MH/IWLS do nothing.  HMC/NUTS (TuningMixin): slow epoch and a history is given ->
   step_size = adjustment * step_size, inverse_mass_matrix = new; [hist] = the adjustment factor
   and the new matrix, both computed by mm.py from the epoch's samples (inputs of this model). *)
Definition tune (k : kernel) (ety : etype) (hist : option (R * X)) (ks : kstate) : kstate :=
  if has_mm k && is_slow ety then
    match hist with
    | Some (adj, newx) =>
        mkKS (mkDA (adj * step (da ks)) (esum (da ks)) (lavg (da ks)) (mu (da ks))) newx
    | None => ks
    end
  else ks.

(* the scan over the transitions of one epoch; time_in_epoch starts at 0 *)
Fixpoint transitions (k : kernel) (c : daconst) (ety : etype) (ks : kstate) (tie : nat) (accs : list R) : kstate :=
  match accs with
  | [] => ks
  | a :: r => transitions k c ety (transition k c ety ks a tie) (S tie) r
  end.

(* Engine.sample_next_epoch up to and including end_epoch *)
Definition epoch_core (k : kernel) (c : daconst) (ety : etype) (ks : kstate) (accs : list R) : kstate :=
  end_epoch k (transitions k c ety (start_epoch k ks) 0 accs).

(* Engine.sample_next_epoch: the initial-values epoch touches no kernel; otherwise
   _kernel_start_epoch, the transitions, _end_epoch = end_epoch then (adaptation epochs only) tune *)
Definition run_epoch (k : kernel) (c : daconst) (ety : etype) (hist : option (R * X)) (ks : kstate) (accs : list R) : kstate :=
  match ety with
  | Initial => ks
  | _ => let ks' := epoch_core k c ety ks accs in
         if is_adaptation ety then tune k ety hist ks' else ks'
  end.

Definition epoch_spec : Type := (etype * list R * option (R * X))%type.

Definition run_schedule (k : kernel) (c : daconst) (ks : kstate) (sched : list epoch_spec) : kstate :=
  fold_left (fun s (e : epoch_spec) => let '(ety, accs, hist) := e in run_epoch k c ety hist s accs) sched ks.

End Kernels.

Arguments mkKS {X}.
Arguments da {X}.
Arguments rest {X}.
Arguments standard_transition {X}.
Arguments adaptive_transition {X}.
Arguments transition {X}.
Arguments start_epoch {X}.
Arguments end_epoch {X}.
Arguments tune {X}.
Arguments transitions {X}.
Arguments epoch_core {X}.
Arguments run_epoch {X}.
Arguments run_schedule {X}.
