(* Executable glue for the C08 correspondence shards: the concrete instance of the engine model of
   Thin.v for the harness stamp kernels (harness/lv/c08_kit.py) and the agreement predicates. *)
From Coq Require Import String List ZArith Bool Arith.
Import ListNotations.
From LV Require Import Base.ListAux Goose.Epoch Goose.Thin.
(* the hand-written part of the source tie (tools/py2gallina_c08.py, harness/lv/c08_tie.py); required here only so that
   the targeted build of the C08 check compiles it; nothing below uses it *)
From LV Require Goose.GenC08Tie.
Open Scope Z_scope.

Definition zlist_eqb := list_eqb Z.eqb.
Definition opt_eqb {A} (e : A -> A -> bool) (a b : option A) : bool :=
  match a, b with Some x, Some y => e x y | None, None => true | _, _ => false end.

(* ---------------------------------------------------------------------------------------- *)
(*  part 1: ListEpochChain / EpochChainManager alone                                         *)
(* ---------------------------------------------------------------------------------------- *)
(* one epoch of a chain-manager script: its config and the sizes of the chunks appended to it;
   the elements are the running numbers 0,1,2,... over the whole script *)
Fixpoint feed (m : cmgr Z) (next : Z) (sizes : list nat) : option (cmgr Z * Z) :=
  match sizes with
  | [] => Some (m, next)
  | n :: r => match cm_append m (zseq next n) with
              | Some m' => feed m' (next + Z.of_nat n) r
              | None => None
              end
  end.
Fixpoint script (m : cmgr Z) (next : Z) (eps : list (econf * list nat)) : option (cmgr Z) :=
  match eps with
  | [] => Some m
  | (c, sizes) :: r => match feed (cm_advance m c) next sizes with
                       | Some (m', next') => script m' next' r
                       | None => None
                       end
  end.

Record chcase := mkCC {
  cc_thin_on : bool;
  cc_eps : list (econf * list nat);
  cc_all : option (list Z);             (* combine_all *)
  cc_post : option (list Z);            (* combine_filtered(type == POSTERIOR) *)
  cc_warm : option (list Z);            (* combine_filtered(is_warmup) *)
  cc_gets : list (option (list Z));     (* get_specific_chain(i).get() *)
  cc_sel : list nat;
  cc_comb : option (list Z);            (* combine(cc_sel) *)
  cc_epochs_ok : bool }.                (* get_epochs() returned the configs in order *)

Definition ozl_eqb := opt_eqb zlist_eqb.

Definition agrees_chain (c : chcase) : bool :=
  match script (cm_new (cc_thin_on c)) 0 (cc_eps c) with
  | Some m =>
      ozl_eqb (cm_combine_all m) (cc_all c)
      && ozl_eqb (cm_combine_filtered post_cfg m) (cc_post c)
      && ozl_eqb (cm_combine_filtered (fun e => is_warmup (ety_ e)) m) (cc_warm c)
      && list_eqb ozl_eqb (map ec_get (cm_chains m)) (cc_gets c)
      && opt_eqb ozl_eqb (cm_combine m (cc_sel c)) (Some (cc_comb c))
      && cc_epochs_ok c
      && Nat.eqb (List.length (cm_get_epochs m)) (List.length (cc_eps c))
  | None => false
  end.

(* the literal specification of one script, independent of the chain code: per epoch, the
   elements whose 1-based index within the epoch is a multiple of the thinning *)
Fixpoint script_spec (thin_on : bool) (next : Z) (eps : list (econf * list nat)) : list (econf * list Z) :=
  match eps with
  | [] => []
  | (c, sizes) :: r =>
      let n := fold_left Nat.add sizes 0%nat in
      let all := zseq next n in
      (c, if thin_on && (1 <? thin c) then thin_spec (thin c) all else all)
        :: script_spec thin_on (next + Z.of_nat n) r
  end.
Definition agrees_chain_spec (c : chcase) : bool :=
  let sp := script_spec (cc_thin_on c) 0 (cc_eps c) in
  zlist_eqb (concat (map snd sp)) (match cc_all c with Some l => l | None => [] end)
  && zlist_eqb (concat (map snd (filter (fun p => post_cfg (fst p)) sp)))
               (match cc_post c with Some l => l | None => [] end).

(* ---------------------------------------------------------------------------------------- *)
(*  part 2: the engine with the harness stamp kernels                                        *)
(* ---------------------------------------------------------------------------------------- *)
Definition cstate := list (string * list Z).
Fixpoint sget (s : cstate) (k : string) : option (list Z) :=
  match s with
  | [] => None
  | (k', v) :: r => if String.eqb k k' then Some v else sget r k
  end.
Fixpoint sset (s : cstate) (k : string) (v : list Z) : cstate :=
  match s with
  | [] => [(k, v)]
  | (k', v') :: r => if String.eqb k k' then (k, v) :: r else (k', v') :: sset r k v
  end.
Definition scalar (s : cstate) (k : string) : Z :=
  match sget s k with Some (x :: _) => x | _ => 0 end.

Definition cpos := list (string * option (list Z)).
(* the harness DerivedInterface (c08_kit.py): tracked quantities that are COMPUTED from one chain's state
     "cs_<k>" cumulative sum over the flattened entries of state[k]
     "ct_<k>" state[k] * size - sum(state[k])
   every other key is looked up *)
Fixpoint cumsum (acc : Z) (l : list Z) : list Z :=
  match l with [] => [] | x :: r => (acc + x) :: cumsum (acc + x) r end.
Definition centre (l : list Z) : list Z :=
  let n := Z.of_nat (List.length l) in
  let sm := fold_left Z.add l 0 in
  map (fun x => x * n - sm) l.
Definition xget (s : cstate) (k : string) : option (list Z) :=
  let base := substring 3 (String.length k - 3) k in
  if prefix "cs_" k then option_map (cumsum 0) (sget s base)
  else if prefix "ct_" k then option_map centre (sget s base)
  else sget s k.
(* DictInterface.extract_position: {key: model_state[key] for key in position_keys}
   (DerivedInterface: the same with the computed keys above) *)
Definition c_extract (tk : list string) (s : cstate) : cpos :=
  map (fun k => (k, xget s k)) (nodup string_dec tk).

Definition kstate := (Z * Z * Z)%type.        (* last, ntrans, nstart *)
Fixpoint upd_slot (l : list kstate) (i : nat) (f : kstate -> kstate) : list kstate :=
  match l, i with
  | [], _ => []
  | x :: r, O => f x :: r
  | x :: r, S i' => x :: upd_slot r i' f
  end.

Definition stamp_sv (cid : Z) (ei : einfo) : Z :=
  cid * 100000 + Z.of_nat (ei_idx ei) * 1000 + ei_tin ei + 1.

(* StampKernel.transition (ignores its key) *)
Definition stamp_kernel (kid : nat) (keys : list (string * nat)) : @kernel cstate Z (list kstate) :=
  mkKer (map fst keys)
    (fun _ ei ks ms =>
       let sv := stamp_sv (scalar ms "cid") ei in
       let mark := scalar ms "c" mod 4 in
       let ms1 := fold_left (fun s kn => sset s (fst kn)
                               (map (fun j => (sv * 4 + mark) * 8 + j) (zseq 0 (snd kn)))) keys ms in
       let ms2 := sset ms1 "c" [sv * 4 + Z.of_nat kid] in
       let ms3 := sset ms2 "acc" [scalar ms "acc" + 1] in
       (sv * 4 + Z.of_nat kid,
        upd_slot ks (kid - 1) (fun '(_, n, s) => (sv * 4 + Z.of_nat kid, n + 1, s)),
        ms3)).

Fixpoint mk_kernels (i : nat) (l : list (list (string * nat))) : list (@kernel cstate Z (list kstate)) :=
  match l with
  | [] => []
  | keys :: r => stamp_kernel i keys :: mk_kernels (S i) r
  end.

(* StampGen.generate (ignores its key) *)
Definition stamp_gen (gid : nat) : key -> einfo -> cstate -> Z * Z :=
  fun _ ei ms => (scalar ms "c" * 2 + Z.of_nat gid, Z.of_nat (ei_idx ei) * 1000 + ei_tin ei).

(* StampKernel.start_epoch: nstart += 1 ; end_epoch / tune / end_warmup: identity *)
Definition c_pre : key -> nat -> econf -> list kstate -> cstate -> key * list kstate :=
  fun k _ _ ks _ => (k, map (fun '(l, n, s) => (l, n, s + 1)) ks).
Definition c_post : key -> nat -> econf -> option (list cpos) -> list kstate -> cstate -> key * list kstate :=
  fun k _ _ _ ks _ => (k, ks).

Definition init_vals (cid : Z) (kn : string * nat) : string * list Z :=
  (fst kn, map (fun j => - (cid * 8 + 8) - j) (zseq 0 (snd kn))).
Definition c_init_state (cid : Z) (kernels : list (list (string * nat))) (extra : list (string * nat)) : cstate :=
  [("c"%string, [0]); ("cid"%string, [cid]); ("junk"%string, [77]); ("acc"%string, [0])]
  ++ map (init_vals cid) (concat kernels) ++ map (init_vals cid) extra.

Record cobs := mkCO {
  ob_samples : list (string * list (list Z));
  ob_post : option (list (string * list (list Z)));
  ob_infos : option (list (list Z));                 (* time-major: per transition, per kernel *)
  ob_post_infos : option (list (list Z));
  ob_kst : option (option (list (list kstate)));     (* outer None: not requested *)
  ob_quants : option (option (list (list (Z * Z))));
  ob_post_quants : option (option (list (list (Z * Z)))) }.

Record e2e := mkX {
  x_sched : list econf;
  x_chunk : option nat;                  (* None: the builder's gcd *)
  x_kernels : list (list (string * nat)); (* per kernel: (position key, payload size) *)
  x_extra : list (string * nat);
  x_incl : list string;
  x_excl : list string;
  x_ngens : nat;
  x_store : bool;
  x_error : bool;                        (* the run raised RuntimeError *)
  x_chains : list cobs }.

Definition x_tk (x : e2e) : list string :=
  tracked_keys (map fst (concat (x_kernels x))) (x_incl x) (x_excl x).
Definition x_c (x : e2e) : nat :=
  match x_chunk x with Some c => c | None => Z.to_nat (chunk_len (x_sched x)) end.

Definition x_run (x : e2e) (cid : Z) :=
  run_engine (mk_kernels 1 (x_kernels x)) c_extract (map stamp_gen (seq 1 (x_ngens x)))
             c_pre c_post (fun _ _ => repeat (-1, 0, 0) (List.length (x_kernels x)))
             (x_store x) (x_tk x) (x_c x) (x_sched x) [] (c_init_state cid (x_kernels x) (x_extra x)).

Definition kstate_eqb (a b : kstate) : bool :=
  let '(a1, a2, a3) := a in let '(b1, b2, b3) := b in (a1 =? b1) && (a2 =? b2) && (a3 =? b3).
Definition zz_eqb (a b : Z * Z) : bool := (fst a =? fst b) && (snd a =? snd b).

Fixpoint nodupb (l : list string) : bool :=
  match l with [] => true | x :: r => negb (mem_str x r) && nodupb r end.

(* observed dict {key: chain} against the model's list (over time) of positions *)
Definition pos_agree (tk : list string) (model : list cpos) (obs : list (string * list (list Z))) : bool :=
  Nat.eqb (List.length obs) (List.length (nodup string_dec tk))
  && nodupb (map fst obs)
  && forallb (fun kc =>
       mem_str (fst kc) tk
       && list_eqb (opt_eqb zlist_eqb)
            (map (fun p => match find (fun q => String.eqb (fst kc) (fst q)) p with
                           | Some q => snd q | None => None end) model)
            (map Some (snd kc))) obs.

Definition opos_agree tk (model : option (list cpos)) (obs : option (list (string * list (list Z)))) : bool :=
  match model, obs with
  | Some m, Some o => pos_agree tk m o
  | None, None => true
  | _, _ => false
  end.

Definition chain_agrees (x : e2e) (cid : Z) (ob : cobs) : bool :=
  match x_run x cid with
  | None => false
  | Some g =>
      let tk := x_tk x in
      opos_agree tk (get_samples g) (Some (ob_samples ob))
      && opos_agree tk (get_posterior_samples g) (ob_post ob)
      && opt_eqb (list_eqb zlist_eqb) (get_infos g) (ob_infos ob)
      && opt_eqb (list_eqb zlist_eqb) (get_posterior_infos g) (ob_post_infos ob)
      && opt_eqb (opt_eqb (list_eqb (list_eqb kstate_eqb))) (get_kstates (x_store x) g) (ob_kst ob)
      && opt_eqb (opt_eqb (list_eqb (list_eqb zz_eqb)))
           (get_quants (map stamp_gen (seq 1 (x_ngens x))) g) (ob_quants ob)
      && opt_eqb (opt_eqb (list_eqb (list_eqb zz_eqb)))
           (get_posterior_quants (map stamp_gen (seq 1 (x_ngens x))) g) (ob_post_quants ob)
  end.

Definition agrees_e2e (x : e2e) : bool :=
  if x_error x then match x_run x 0 with None => true | Some _ => false end
  else negb (Nat.eqb (List.length (x_chains x)) 0)
       && forallb (fun co => chain_agrees x (fst co) (snd co))
                  (combine (zseq 0 (List.length (x_chains x))) (x_chains x)).

(* chunk independence on the model side, evaluated: the run with the case's chunk and the run with
   chunk 1 store the same things *)
Definition x_run_c (x : e2e) (c : nat) (cid : Z) :=
  run_engine (mk_kernels 1 (x_kernels x)) c_extract (map stamp_gen (seq 1 (x_ngens x)))
             c_pre c_post (fun _ _ => repeat (-1, 0, 0) (List.length (x_kernels x)))
             (x_store x) (x_tk x) c (x_sched x) [] (c_init_state cid (x_kernels x) (x_extra x)).
