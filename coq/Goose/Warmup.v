(* Model of liesel/goose/warmup.py: stan_epochs.  The `while 3*this <= left` loop runs on fuel;
   WarmupProofs.v shows the fuel used by [stan_epochs] always suffices for admissible arguments. *)
From Coq Require Import List ZArith Bool Lia.
Import ListNotations.
From LV Require Import Goose.Epoch.
Open Scope Z_scope.

Inductive sres := SOk (l : list econf) | SValueError | SOutOfFuel.

Fixpoint slow_loop (fuel : nat) (this left thw : Z) : option (list econf * Z) :=
  match fuel with
  | O => None
  | S f =>
      if 3 * this <=? left
      then match slow_loop f (2 * this) (left - this) thw with
           | Some (l, rest) => Some (mkE Slow this thw :: l, rest)
           | None => None
           end
      else Some ([], left)
  end.

(* arguments: warmup, posterior, init, term, base durations; thinning posterior / warmup *)
Definition stan_epochs (w p i t b thp thw : Z) : sres :=
  if w <? 20 then SValueError
  else if w <? i + t + b then SValueError
  else
    match slow_loop (S (Z.to_nat w)) b (w - i - t) thw with
    | None => SOutOfFuel
    | Some (slows, rest) =>
        SOk ([mkE Init 1 1; mkE Fast i thw] ++ slows
             ++ [mkE Slow rest thw; mkE Fast t thw; mkE Post p thp])
    end.

Definition sum_dur (l : list econf) : Z := fold_right (fun c a => dur c + a) 0 l.
Definition warmup_part (l : list econf) : list econf :=
  filter (fun c => is_warmup (ety_ c)) l.
