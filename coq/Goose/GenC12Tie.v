(* Support library for the C12 source tie (tools/py2gallina_c12.py).

   On every run of the C12 check the translator turns the Python source of  _vravel,
   _history_to_matrix, tune_inv_mm_diag, tune_inv_mm_full (liesel/goose/mm.py) and of
   NUTSKernel / HMCKernel ._tune_fast / ._tune_slow (nuts.py, hmc.py) into Gallina definitions
   (gen_...); the generated file lives in the work directory of the run, never in this directory.
   It proves the generated definitions extensionally equal to the hand-written model (Goose/MM.v)
   and re-states the main C12 theorems for them.  This file holds exactly what the generated file
   needs:
     - the result / exception type of translated code,
     - the value domain of translated code and the targets of the translator's library-call table
       (most are the model's own primitives: series, block_ok, stack, mean, dev_prod, qsum, indexed,
       diag_from),
     - the shapes the translated functions are expected to have (the ..._with definitions), the theorems that such a shape
       is the model, and the transfer of the C12 theorems. *)
From Coq Require Import String List ZArith QArith Bool Arith Lia Permutation.
Import ListNotations.
From LV Require Import Goose.MM Goose.MMProofs.
Open Scope Q_scope.

(* ---- results of translated code: a value or a raised exception class ---- *)
Inductive texn := E_Key | E_Shape | E_Stack | E_Dof | E_Rank.
Inductive tres (A : Type) : Type := TOk (a : A) | TRaise (e : texn).
Arguments TOk {A} a.
Arguments TRaise {A} e.
Definition tbind {A B} (m : tres A) (f : A -> tres B) : tres B :=
  match m with TOk a => f a | TRaise e => TRaise e end.
(* the model does not distinguish exception classes: an error is None *)
Definition topt {A} (m : tres A) : option A := match m with TOk a => Some a | TRaise _ => None end.
Definition tof {A} (e : texn) (o : option A) : tres A :=
  match o with Some a => TOk a | None => TRaise e end.
(* a list / dict comprehension: left to right, the first exception wins *)
Fixpoint tmapM {A B} (f : A -> tres B) (l : list A) : tres (list B) :=
  match l with
  | [] => TOk []
  | x :: r => tbind (f x) (fun y => tbind (tmapM f r) (fun ys => TOk (y :: ys)))
  end.

(* ---- value domain ----
   garr : an array of shape (T, *shape) = (flat item size n = prod shape, its T items each as the
          C-order ravel of the item) - the representation the model uses for a recorded history;
   gdict: a Python dict str -> array in insertion order (keys assumed distinct);
   gmat : a 2-d matrix as the list of its COLUMNS (axis 0 runs along each inner list). *)
Notation garr := (nat * hrows)%type (only parsing).
Notation gdict := (list (string * (nat * hrows))) (only parsing).
Notation gmat := (list (list Q)) (only parsing).

Fixpoint glookup (k : string) (d : gdict) : option garr :=
  match d with
  | [] => None
  | (k', a) :: d' => if String.eqb k k' then Some a else glookup k d'
  end.

(* ---- targets of the library-call table ---- *)
Definition gget (d : gdict) (k : string) : tres garr := tof E_Key (glookup k d).      (* d[k] *)
Fixpoint ginsert (e : string * garr) (l : gdict) : gdict :=
  match l with
  | [] => [e]
  | y :: r => if String.leb (fst e) (fst y) then e :: l else y :: ginsert e r
  end.
(* jax.tree_util.tree_leaves(d): the values in sorted key order (code points) *)
Definition gtree_leaves (d : gdict) : list garr := map snd (fold_right ginsert [] d).
(* d.values(): the values in insertion order *)
Definition gvalues (d : gdict) : list garr := map snd d.
(* jax.vmap(jnp.ravel, in_axes=0, out_axes=0)(x): the (T, n) matrix whose column j is the series of
   flat index j (C order); an item of another size than n is a shape error *)
Definition gvravel (x : garr) : tres gmat :=
  if block_ok (fst x) (snd x) then tof E_Shape (mapM (series (snd x)) (seq 0 (fst x)))
  else TRaise E_Shape.
(* jnp.column_stack(list of 2-d arrays): at least one array, equal numbers of rows *)
Definition gcolumn_stack (ms : list gmat) : tres gmat := tof E_Stack (stack (concat ms)).
(* sample covariance with `ddof` delta degrees of freedom; NaN / inf results (length <= ddof) are errors *)
Definition gcov_dd (ddof : Z) (c d : list Q) : option Q :=
  if ((ddof <? Z.of_nat (length c))%Z && (0 <=? ddof)%Z)%bool && (length c =? length d)%nat
  then Some (Qred (qsum (dev_prod (mean c) (mean d) c d) / (qlen c - inject_Z ddof)))
  else None.
(* jnp.var(m, axis=0, ddof=k) *)
Definition gvar_axis0 (ddof : Z) (m : gmat) : tres (list Q) :=
  tof E_Dof (mapM (fun c => gcov_dd ddof c c) m).
(* jnp.cov(m, rowvar=False [, bias / ddof]) *)
Definition gcov_cols (ddof : Z) (m : gmat) : tres (list (list Q)) :=
  tof E_Dof (mapM (fun c => mapM (gcov_dd ddof c) m) m).
Definition gatleast_1d (v : list Q) : list Q := v.
Definition gatleast_2d (m : list (list Q)) : list (list Q) := m.
(* vector + scalar *)
Definition gvadd (v : list Q) (r : Q) : list Q := map (fun x => x + r) v.
(* m.at[jnp.diag_indices_from(m)].add(r) *)
Definition gdiag_add (m : list (list Q)) (r : Q) : list (list Q) :=
  map (fun ir => map (fun jv => if Nat.eqb (fst ir) (fst jv) then snd jv + r else snd jv)
                     (indexed (snd ir))) (indexed m).
(* jnp.sum(x) of a vector or matrix; jnp.trace(x) (a vector has no trace) *)
Definition gsum (x : mm) : Q := match x with Diag v => qsum v | Dense m => qsum (concat m) end.
Definition gtrace (x : mm) : tres Q :=
  match x with Dense m => TOk (qsum (diag_from 0 m)) | Diag _ => TRaise E_Rank end.

(* {k: d[k] for k in names} *)
Definition gselect (d : gdict) (names : list string) : tres gdict :=
  tmapM (fun k => tbind (gget d k) (fun v => TOk (k, v))) names.

(* ---- a gen-world dict in the model's terms ---- *)
Definition hist_of (d : gdict) : history := map (fun e => (fst e, snd (snd e))) d.
Definition size_in (d : gdict) (name : string) : nat :=
  match glookup name d with Some a => fst a | None => 0%nat end.
Definition key_in (d : gdict) (name : string) : pkey := (name, size_in d name).
Definition keys_of (d : gdict) (names : list string) : list pkey := map (key_in d) names.

(* the stacked matrix / tuned values of the model for the keys [names] of the dict d *)
Definition sel_matrix (d : gdict) (names : list string) : option gmat :=
  match hist_columns (flat_order (keys_of d names)) (hist_of d) with
  | Some c => stack c
  | None => None
  end.
Definition sel_diag (d : gdict) (names : list string) : option (list Q) :=
  match sel_matrix d names with Some cols => tune_diag cols | None => None end.
Definition sel_full (d : gdict) (names : list string) : option (list (list Q)) :=
  match sel_matrix d names with Some cols => tune_full cols | None => None end.

Lemma tune_mm_sel : forall diag d names,
  tune_mm Sorted diag (keys_of d names) (hist_of d) =
  if diag then option_map Diag (sel_diag d names) else option_map Dense (sel_full d names).
Proof.
  intros diag d names. unfold tune_mm, sel_diag, sel_full, sel_matrix. cbn [order_keys].
  destruct (hist_columns _ _) as [c|]; [|destruct diag; reflexivity].
  destruct (stack c) as [cols|]; destruct diag; reflexivity.
Qed.

(* ==== generic facts ==== *)
Lemma topt_tmapM {A B} (f : A -> tres B) : forall l, topt (tmapM f l) = mapM (fun x => topt (f x)) l.
Proof.
  induction l as [|x l IH]; [reflexivity|]. cbn [tmapM mapM].
  destruct (f x) as [y|e]; cbn [tbind topt]; [|reflexivity].
  rewrite <- IH. destruct (tmapM f l); reflexivity.
Qed.

Lemma mapM_map {A B C} (g : A -> B) (f : B -> option C) : forall l, mapM f (map g l) = mapM (fun x => f (g x)) l.
Proof. induction l as [|x l IH]; [reflexivity|]. cbn [map mapM]. rewrite IH. reflexivity. Qed.

Lemma mapM_post {A B C} (f : A -> option B) (h : B -> C) : forall l,
  mapM (fun x => option_map h (f x)) l = option_map (map h) (mapM f l).
Proof.
  induction l as [|x l IH]; [reflexivity|]. cbn [mapM]. rewrite IH.
  destruct (f x); [|reflexivity]. destruct (mapM f l); reflexivity.
Qed.

Lemma mapM_none_in {A B} (f : A -> option B) x : forall l, In x l -> f x = None -> mapM f l = None.
Proof.
  induction l as [|a l IH]; intros Hin Hx; [destruct Hin|]. cbn [mapM]. destruct Hin as [->|Hin].
  - rewrite Hx. reflexivity.
  - rewrite (IH Hin Hx). destruct (f a); reflexivity.
Qed.

Lemma mapM_none_ex {A B} (f : A -> option B) : forall l, mapM f l = None -> exists x, In x l /\ f x = None.
Proof.
  induction l as [|a l IH]; intros H; [discriminate|]. cbn [mapM] in H.
  destruct (f a) eqn:Ea.
  - destruct (mapM f l) eqn:El; [discriminate|]. destruct (IH eq_refl) as [x [Hi Hx]].
    exists x. split; [right; exact Hi|exact Hx].
  - exists a. split; [left; reflexivity|exact Ea].
Qed.

(* ==== sorting names / keys / entries commute ==== *)
Fixpoint sinsert (n : string) (l : list string) : list string :=
  match l with
  | [] => [n]
  | y :: r => if String.leb n y then n :: l else y :: sinsert n r
  end.
Definition ssort (l : list string) : list string := fold_right sinsert [] l.

Lemma insert_key_map (g : string -> pkey) : (forall n, fst (g n) = n) ->
  forall n l, insert_key (g n) (map g l) = map g (sinsert n l).
Proof.
  intros Hg n. induction l as [|y l IH]; [reflexivity|]. cbn [map insert_key sinsert].
  unfold key_leb. rewrite !Hg. destruct (String.leb n y); [reflexivity|]. cbn [map]. rewrite IH. reflexivity.
Qed.

Lemma flat_order_map (g : string -> pkey) : (forall n, fst (g n) = n) ->
  forall l, flat_order (map g l) = map g (ssort l).
Proof.
  intros Hg. induction l as [|n l IH]; [reflexivity|]. unfold flat_order in *. cbn [map fold_right].
  rewrite IH. unfold ssort. cbn [fold_right]. apply insert_key_map. exact Hg.
Qed.

Lemma sinsert_in n x : forall l, In x (n :: l) -> In x (sinsert n l).
Proof.
  induction l as [|y l IH]; intros H; [exact H|]. cbn [sinsert]. destruct (String.leb n y); [exact H|].
  destruct H as [->|[->|H]].
  - right. apply IH. left. reflexivity.
  - left. reflexivity.
  - right. apply IH. right. exact H.
Qed.

Lemma ssort_in x : forall l, In x l -> In x (ssort l).
Proof.
  induction l as [|n l IH]; intros H; [destruct H|]. unfold ssort. cbn [fold_right]. apply sinsert_in.
  destruct H as [->|H]; [left; reflexivity|right; apply IH; exact H].
Qed.

(* an entry function that keeps the name *)
Definition keeps_name (phi : string -> option (string * garr)) : Prop :=
  forall n e, phi n = Some e -> fst e = n.

Lemma mapM_sinsert phi : keeps_name phi -> forall n e l l',
  phi n = Some e -> mapM phi l = Some l' -> mapM phi (sinsert n l) = Some (ginsert e l').
Proof.
  intros Hk n e. induction l as [|y l IH]; intros l' He Hl.
  - cbn in Hl. injection Hl as <-. cbn [sinsert mapM ginsert]. rewrite He. reflexivity.
  - cbn [mapM] in Hl. destruct (phi y) as [ey|] eqn:Ey; [|discriminate].
    destruct (mapM phi l) as [lr|] eqn:El; [|discriminate]. injection Hl as <-.
    cbn [sinsert ginsert]. rewrite (Hk _ _ He), (Hk _ _ Ey).
    destruct (String.leb n y).
    + cbn [mapM]. rewrite He, Ey, El. reflexivity.
    + cbn [mapM]. rewrite Ey, (IH lr He eq_refl). reflexivity.
Qed.

Lemma mapM_ssort phi : keeps_name phi -> forall l l',
  mapM phi l = Some l' -> mapM phi (ssort l) = Some (fold_right ginsert [] l').
Proof.
  intros Hk. induction l as [|n l IH]; intros l' H.
  - cbn in H. injection H as <-. reflexivity.
  - cbn [mapM] in H. destruct (phi n) as [e|] eqn:En; [|discriminate].
    destruct (mapM phi l) as [lr|] eqn:El; [|discriminate]. injection H as <-.
    unfold ssort. cbn [fold_right]. apply mapM_sinsert; [exact Hk|exact En|]. apply IH. reflexivity.
Qed.

(* ==== the selected, sorted, ravelled, stacked matrix is the model's ==== *)
Lemma lookup_hist_of k : forall d, lookup k (hist_of d) = option_map snd (glookup k d).
Proof.
  induction d as [|[k' a] d IH]; [reflexivity|]. cbn [hist_of map lookup glookup fst snd].
  destruct (String.eqb k k'); [reflexivity|exact IH].
Qed.

(* the columns the model reads for the key  name  of the dict *)
Definition entry_of (d : gdict) (n : string) : option (string * garr) := option_map (pair n) (glookup n d).
Definition cols_of (e : string * garr) : option gmat := topt (gvravel (snd e)).

Lemma key_columns_in d n :
  key_columns (hist_of d) (key_in d n) = match entry_of d n with Some e => cols_of e | None => None end.
Proof.
  unfold key_columns, key_in, size_in, entry_of, cols_of, gvravel. cbn [fst snd].
  rewrite lookup_hist_of. destruct (glookup n d) as [[sz rows]|]; cbn [option_map fst snd]; [|reflexivity].
  destruct (block_ok sz rows); [|reflexivity]. destruct (mapM _ _); reflexivity.
Qed.

Lemma entry_keeps d : keeps_name (entry_of d).
Proof. intros n e H. unfold entry_of in H. destruct (glookup n d); [|discriminate]. injection H as <-. reflexivity. Qed.

Lemma topt_gselect d names : topt (gselect d names) = mapM (entry_of d) names.
Proof.
  unfold gselect. rewrite topt_tmapM. apply mapM_ext_in. intros k _. unfold gget, entry_of.
  destruct (glookup k d); reflexivity.
Qed.

Theorem tie_matrix : forall d names,
  topt (tbind (gselect d names) (fun sel => tbind (tmapM gvravel (gtree_leaves sel)) gcolumn_stack))
  = sel_matrix d names.
Proof.
  intros d names. unfold sel_matrix, hist_columns, keys_of.
  rewrite (flat_order_map (key_in d)) by reflexivity. rewrite mapM_map.
  rewrite (mapM_ext_in _ _ _ (fun n _ => key_columns_in d n)).
  pose proof (topt_gselect d names) as Hs.
  destruct (gselect d names) as [sel|e]; cbn [tbind topt] in *.
  - symmetry in Hs. pose proof (mapM_ssort _ (entry_keeps d) _ _ Hs) as Hsort.
    assert (Hm : mapM (fun n => match entry_of d n with Some e => cols_of e | None => None end) (ssort names)
                 = mapM cols_of (fold_right ginsert [] sel)).
    { revert Hsort. generalize (fold_right ginsert [] sel). generalize (ssort names).
      induction l as [|n l IH]; intros l' H.
      - cbn in H. injection H as <-. reflexivity.
      - cbn [mapM] in H. destruct (entry_of d n) as [en|] eqn:En; [|discriminate].
        destruct (mapM (entry_of d) l) as [lr|] eqn:El; [|discriminate]. injection H as <-.
        cbn [mapM]. rewrite En, (IH lr eq_refl). reflexivity. }
    rewrite Hm. unfold gtree_leaves.
    assert (Hg : topt (tmapM gvravel (map snd (fold_right ginsert [] sel))) = mapM cols_of (fold_right ginsert [] sel)).
    { rewrite topt_tmapM, mapM_map. reflexivity. }
    destruct (tmapM gvravel (map snd (fold_right ginsert [] sel))) as [ms|e]; cbn [topt tbind] in *; rewrite <- Hg;
      cbn [option_map]; [|reflexivity].
    unfold gcolumn_stack. destruct (stack (concat ms)); reflexivity.
  - symmetry in Hs. destruct (mapM_none_ex _ _ Hs) as [x [Hin Hx]].
    rewrite (mapM_none_in _ x); [reflexivity|apply ssort_in; exact Hin|]. rewrite Hx. reflexivity.
Qed.

(* ==== variance / covariance ==== *)
Lemma gcov_dd_1 c d : gcov_dd 1 c d = cov_q c d.
Proof.
  unfold gcov_dd, cov_q. cbn [Z.leb Z.compare andb].
  destruct (Nat.leb_spec 2 (length c)); destruct (Z.ltb_spec 1 (Z.of_nat (length c))); try lia; reflexivity.
Qed.

Lemma gvar_axis0_1 m : topt (gvar_axis0 1 m) = mapM var_q m.
Proof.
  unfold gvar_axis0. rewrite (mapM_ext_in _ var_q) by (intros c _; apply gcov_dd_1).
  destruct (mapM var_q m); reflexivity.
Qed.

Lemma tune_diag_post cols : tune_diag cols = option_map (fun v => gvadd v reg) (mapM var_q cols).
Proof. unfold tune_diag, gvadd. apply mapM_post. Qed.

Lemma mapM_indexed_post {A B C} (f : A -> option B) (h : nat -> B -> C) : forall l s,
  mapM (fun ia => option_map (h (fst ia)) (f (snd ia))) (combine (seq s (length l)) l)
  = option_map (fun ys => map (fun iy => h (fst iy) (snd iy)) (combine (seq s (length ys)) ys)) (mapM f l).
Proof.
  induction l as [|a l IH]; intros s; [reflexivity|]. cbn [length seq combine mapM fst snd].
  rewrite IH. destruct (f a) as [b|]; [|reflexivity]. cbn [option_map].
  destruct (mapM f l) as [ys|]; reflexivity.
Qed.

Lemma tune_full_post cols :
  tune_full cols = option_map (fun m => gdiag_add m reg) (mapM (fun c => mapM (cov_q c) cols) cols).
Proof.
  unfold tune_full, gdiag_add, indexed.
  rewrite <- (mapM_indexed_post (fun c => mapM (cov_q c) cols)
               (fun i ys => map (fun jv => if Nat.eqb i (fst jv) then snd jv + reg else snd jv)
                                (combine (seq 0 (length ys)) ys)) cols 0).
  apply mapM_ext_in. intros [i c] _. cbn [fst snd]. unfold full_entry. cbn [fst snd].
  apply (mapM_indexed_post (cov_q c) (fun j v => if Nat.eqb i j then v + reg else v) cols 0).
Qed.

Lemma gcov_cols_1 m : topt (gcov_cols 1 m) = mapM (fun c => mapM (cov_q c) m) m.
Proof.
  unfold gcov_cols.
  rewrite (mapM_ext_in _ (fun c => mapM (cov_q c) m))
    by (intros c _; apply mapM_ext_in; intros d _; apply gcov_dd_1).
  destruct (mapM _ m); reflexivity.
Qed.

(* ==== the shapes the translated functions are expected to have, and why they are the model ==== *)
Definition h2m_with (vr : garr -> tres gmat) (d : gdict) : tres gmat :=
  tbind (tmapM (fun x => vr x) (gtree_leaves d)) (fun ms => gcolumn_stack ms).

Definition diag_with (h2m : gdict -> tres gmat) (d : gdict) : tres (list Q) :=
  tbind (h2m d) (fun m => tbind (gvar_axis0 1 m) (fun v => TOk (gvadd (gatleast_1d v) (1 # 1000)))).

Definition full_with (h2m : gdict -> tres gmat) (d : gdict) : tres (list (list Q)) :=
  tbind (h2m d) (fun m => tbind (gcov_cols 1 m) (fun c => TOk (gdiag_add (gatleast_2d c) (1 # 1000)))).

Definition is_matrix_fn (h2m : gdict -> tres gmat) : Prop :=
  forall d names, topt (tbind (gselect d names) h2m) = sel_matrix d names.
Definition is_diag_fn (fd : gdict -> tres (list Q)) : Prop :=
  forall d names, topt (tbind (gselect d names) fd) = sel_diag d names.
Definition is_full_fn (ff : gdict -> tres (list (list Q))) : Prop :=
  forall d names, topt (tbind (gselect d names) ff) = sel_full d names.

Theorem tie_h2m vr : (forall x, vr x = gvravel x) -> is_matrix_fn (h2m_with vr).
Proof.
  intros Hv d names. rewrite <- tie_matrix. unfold h2m_with.
  destruct (gselect d names) as [sel|e]; cbn [tbind]; [|reflexivity].
  replace (tmapM (fun x => vr x) (gtree_leaves sel)) with (tmapM gvravel (gtree_leaves sel)); [reflexivity|].
  induction (gtree_leaves sel) as [|a l IH]; [reflexivity|]. cbn [tmapM]. rewrite Hv, IH. reflexivity.
Qed.

Lemma bind_matrix {B} (h2m : gdict -> tres gmat) (k : gmat -> tres B) (g : gmat -> option B) :
  is_matrix_fn h2m -> (forall m, topt (k m) = g m) ->
  forall d names, topt (tbind (gselect d names) (fun sel => tbind (h2m sel) k))
                  = match sel_matrix d names with Some m => g m | None => None end.
Proof.
  intros Hm Hk d names. rewrite <- (Hm d names).
  destruct (gselect d names) as [sel|e]; cbn [tbind topt]; [|reflexivity].
  destruct (h2m sel) as [m|e]; cbn [tbind topt]; [apply Hk|reflexivity].
Qed.

Theorem tie_diag h2m : is_matrix_fn h2m -> is_diag_fn (diag_with h2m).
Proof.
  intros Hm d names. unfold sel_diag, diag_with.
  apply (bind_matrix h2m _ tune_diag Hm). intros m. rewrite tune_diag_post, <- gvar_axis0_1.
  destruct (gvar_axis0 1 m); reflexivity.
Qed.

Theorem tie_full h2m : is_matrix_fn h2m -> is_full_fn (full_with h2m).
Proof.
  intros Hm d names. unfold sel_full, full_with.
  apply (bind_matrix h2m _ tune_full Hm). intros m. rewrite tune_full_post, <- gcov_cols_1.
  destruct (gcov_cols 1 m); reflexivity.
Qed.

(* _tune_fast: the kernel state is returned as it is (the info object is not modelled) *)
Definition is_fast_fn (ffast : kstate -> option gdict -> tres kstate) : Prop :=
  forall st h, ffast st h = TOk st.

(* _tune_slow *)
Definition slow_with (fd : gdict -> tres (list Q)) (ff : gdict -> tres (list (list Q)))
    (ffast : kstate -> option gdict -> tres kstate)
    (sqrt_o : Q -> Q) (names : list string) (diag : bool) (st : kstate) (h : option gdict) : tres kstate :=
  match h with
  | Some d =>
      tbind (gselect d names) (fun sel =>
        if diag then
          tbind (fd sel) (fun new =>
            ffast (mkK (sqrt_o (gsum (imm st) / gsum (Diag new)) * step st) (Diag new)) (Some sel))
        else
          tbind (ff sel) (fun new =>
            tbind (gtrace (imm st)) (fun t_old =>
              tbind (gtrace (Dense new)) (fun t_new =>
                ffast (mkK (sqrt_o (t_old / t_new) * step st) (Dense new)) (Some sel)))))
  | None => ffast st None
  end.

(* the model's view of a call: keys with the sizes the arrays of the history have *)
Definition model_slow (sqrt_o : Q -> Q) (names : list string) (diag : bool) (st : kstate) (h : option gdict)
  : option kstate :=
  match h with
  | Some d => tune_slow sqrt_o Sorted diag (keys_of d names) st (Some (hist_of d))
  | None => tune_slow sqrt_o Sorted diag [] st None
  end.

Definition is_slow_fn (fs : (Q -> Q) -> list string -> bool -> kstate -> option gdict -> tres kstate) : Prop :=
  forall sqrt_o names diag st h, kind_ok diag (imm st) = true ->
    topt (fs sqrt_o names diag st h) = model_slow sqrt_o names diag st h.

Theorem tie_slow fd ff ffast : is_diag_fn fd -> is_full_fn ff -> is_fast_fn ffast ->
  is_slow_fn (slow_with fd ff ffast).
Proof.
  intros Hd Hf Hfast sqrt_o names diag st h Hk. unfold slow_with, model_slow, tune_slow.
  destruct h as [d|]; [|rewrite Hfast; reflexivity].
  rewrite tune_mm_sel. destruct diag.
  - rewrite <- (Hd d names). destruct (gselect d names) as [sel|e]; cbn [tbind topt option_map]; [|reflexivity].
    destruct (fd sel) as [new|e]; cbn [tbind topt option_map]; [|reflexivity]. rewrite Hfast. cbn [topt].
    destruct (imm st) as [v|m]; [reflexivity|discriminate].
  - rewrite <- (Hf d names). destruct (gselect d names) as [sel|e]; cbn [tbind topt option_map]; [|reflexivity].
    destruct (ff sel) as [new|e]; cbn [tbind topt option_map]; [|reflexivity].
    destruct (imm st) as [v|m]; [discriminate|]. cbn [gtrace tbind]. rewrite Hfast. reflexivity.
Qed.

(* TuningMixin.tune around the two translated methods (lax.cond is if) *)
Definition tune_with (fs : (Q -> Q) -> list string -> bool -> kstate -> option gdict -> tres kstate)
    (ffast : kstate -> option gdict -> tres kstate)
    (sqrt_o : Q -> Q) (names : list string) (diag slow : bool) (st : kstate) (h : option gdict) : option kstate :=
  if slow then topt (fs sqrt_o names diag st h) else topt (ffast st h).

Theorem tie_tune fs ffast : is_slow_fn fs -> is_fast_fn ffast ->
  forall sqrt_o names diag slow st d, kind_ok diag (imm st) = true ->
  tune_with fs ffast sqrt_o names diag slow st (Some d)
  = tune sqrt_o Sorted diag (keys_of d names) slow st (Some (hist_of d)).
Proof.
  intros Hs Hfast sqrt_o names diag slow st d Hk. unfold tune_with, tune. destruct slow.
  - rewrite (Hs sqrt_o names diag st (Some d) Hk). reflexivity.
  - rewrite Hfast. reflexivity.
Qed.

(* ==== transfer of the C12 theorems ==== *)
Theorem tie_aligned_diag fd : is_diag_fn fd -> forall d names v,
  topt (tbind (gselect d names) fd) = Some v ->
  length v = length (flat_coords (keys_of d names)) /\
  forall i name j, nth_error (flat_coords (keys_of d names)) i = Some (name, j) ->
    exists s x, coord_series (hist_of d) name j = Some s /\ var_q s = Some x /\
                nth_error v i = Some (x + reg).
Proof.
  intros Hd d names v H. apply (aligned_diag Sorted). rewrite tune_mm_sel, <- (Hd d names), H. reflexivity.
Qed.

Theorem tie_aligned_dense ff : is_full_fn ff -> forall d names m,
  topt (tbind (gselect d names) ff) = Some m ->
  length m = length (flat_coords (keys_of d names)) /\
  Forall (fun row => length row = length (flat_coords (keys_of d names))) m /\
  forall i name j i' name' j',
    nth_error (flat_coords (keys_of d names)) i = Some (name, j) ->
    nth_error (flat_coords (keys_of d names)) i' = Some (name', j') ->
    exists s s' c, coord_series (hist_of d) name j = Some s /\ coord_series (hist_of d) name' j' = Some s' /\
                   cov_q s s' = Some c /\
                   entry m i i' = Some (if Nat.eqb i i' then c + reg else c).
Proof.
  intros Hf d names m H. apply (aligned_dense Sorted). rewrite tune_mm_sel, <- (Hf d names), H. reflexivity.
Qed.

Theorem tie_slow_epoch_aligned_diag fs : is_slow_fn fs -> forall sqrt_o names st d st',
  kind_ok true (imm st) = true ->
  topt (fs sqrt_o names true st (Some d)) = Some st' ->
  exists v, imm st' = Diag v /\
    length v = length (flat_coords (keys_of d names)) /\
    forall i name j, nth_error (flat_coords (keys_of d names)) i = Some (name, j) ->
      exists s x, coord_series (hist_of d) name j = Some s /\ var_q s = Some x /\
                  nth_error v i = Some (x + reg).
Proof.
  intros Hs sqrt_o names st d st' Hk H. rewrite (Hs _ _ _ _ _ Hk) in H.
  exact (slow_epoch_aligned_diag sqrt_o _ st _ st' H).
Qed.

Theorem tie_slow_epoch_aligned_dense fs : is_slow_fn fs -> forall sqrt_o names st d st',
  kind_ok false (imm st) = true ->
  topt (fs sqrt_o names false st (Some d)) = Some st' ->
  exists m, imm st' = Dense m /\
    length m = length (flat_coords (keys_of d names)) /\
    Forall (fun row => length row = length (flat_coords (keys_of d names))) m /\
    forall i name j i' name' j',
      nth_error (flat_coords (keys_of d names)) i = Some (name, j) ->
      nth_error (flat_coords (keys_of d names)) i' = Some (name', j') ->
      exists s s' c, coord_series (hist_of d) name j = Some s /\ coord_series (hist_of d) name' j' = Some s' /\
                     cov_q s s' = Some c /\
                     entry m i i' = Some (if Nat.eqb i i' then c + reg else c).
Proof.
  intros Hs sqrt_o names st d st' Hk H. rewrite (Hs _ _ _ _ _ Hk) in H.
  exact (slow_epoch_aligned_dense sqrt_o _ st _ st' H).
Qed.

Lemma keys_of_names d names : map fst (keys_of d names) = names.
Proof. unfold keys_of. rewrite map_map. cbn [key_in fst]. apply map_id. Qed.

(* the tuned state does not depend on the order in which position_keys lists the names *)
Theorem tie_order_invariant fs : is_slow_fn fs -> forall sqrt_o names names' diag st d,
  kind_ok diag (imm st) = true -> Permutation names names' -> NoDup names ->
  topt (fs sqrt_o names diag st (Some d)) = topt (fs sqrt_o names' diag st (Some d)).
Proof.
  intros Hs sqrt_o names names' diag st d Hk Hp Hn. rewrite !(Hs _ _ _ _ _ Hk). unfold model_slow.
  apply (order_invariant sqrt_o diag (keys_of d names) (keys_of d names') true st (Some (hist_of d))).
  - apply Permutation_map. exact Hp.
  - rewrite keys_of_names. exact Hn.
Qed.

(* step'^2 * trace' == step^2 * trace, the new trace is positive *)
Theorem tie_step_rescale fs : is_slow_fn fs -> forall sqrt_o names diag st d st',
  kind_ok diag (imm st) = true ->
  topt (fs sqrt_o names diag st (Some d)) = Some st' ->
  sqrt_o (trace (imm st) / trace (imm st')) * sqrt_o (trace (imm st) / trace (imm st'))
    == trace (imm st) / trace (imm st') ->
  0 < trace (imm st') /\
  step st' * step st' * trace (imm st') == step st * step st * trace (imm st).
Proof.
  intros Hs sqrt_o names diag st d st' Hk H Hsq. rewrite (Hs _ _ _ _ _ Hk) in H.
  exact (step_rescale sqrt_o Sorted diag _ st _ st' H Hsq).
Qed.

(* a slow epoch re-tunes from its own history alone; without a history nothing changes *)
Theorem tie_slow_epoch_fresh fs : is_slow_fn fs -> forall sqrt_o names diag st d st',
  kind_ok diag (imm st) = true ->
  topt (fs sqrt_o names diag st (Some d)) = Some st' ->
  tune_mm Sorted diag (keys_of d names) (hist_of d) = Some (imm st').
Proof.
  intros Hs sqrt_o names diag st d st' Hk H. rewrite (Hs _ _ _ _ _ Hk) in H.
  exact (slow_epoch_fresh sqrt_o Sorted diag _ st _ st' H).
Qed.

Theorem tie_no_history_unchanged fs : is_slow_fn fs -> forall sqrt_o names diag st,
  kind_ok diag (imm st) = true -> topt (fs sqrt_o names diag st None) = Some st.
Proof. intros Hs sqrt_o names diag st Hk. rewrite (Hs _ _ _ _ _ Hk). reflexivity. Qed.
