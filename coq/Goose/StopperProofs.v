From Coq Require Import List ZArith QArith Qabs Bool Arith Lia.
Import ListNotations.
Close Scope Q_scope.
Open Scope nat_scope.
From LV Require Import Goose.Stopper.

(* --- no clamping under the documented guard --- *)
Lemma dyn_start_exact n (start : Z) len :
  (0 <= start)%Z -> (start + Z.of_nat len <= Z.of_nat n)%Z -> dyn_start n start len = Z.to_nat start.
Proof.
  intros H0 H1. unfold dyn_start.
  destruct (start <? 0)%Z eqn:E; [apply Z.ltb_lt in E; lia|]. f_equal. lia.
Qed.

Definition rule (s : stopper) (i : nat) (h : list Q) : bool :=
  let p := patience s in
  let win := window h (i - p + 1) p in
  let best := qmin_list win in
  let oldest := nth (i - p + 1) h 0%Q in
  ((Z.of_nat (max_iter s) - 1 <=? Z.of_nat i)%Z)
  || ((p <? i)%nat
      && (Qle_bool (oldest - best) (atol s)
          || (negb (Qeq_bool best 0) && Qle_bool ((oldest - best) / Qabs best) (rtol s)))).

Lemma window_length h start len : (start + len <= length h)%nat -> length (window h start len) = len.
Proof. intros H. unfold window. rewrite firstn_length, skipn_length. lia. Qed.

Lemma window_nth h start len k d : (k < len)%nat -> nth k (window h start len) d = nth (start + k) h d.
Proof.
  intros Hk. unfold window. revert h k len Hk. induction start as [|st IH]; intros h k len Hk.
  - cbn [skipn Nat.add]. revert k len Hk. induction h as [|x h IHh]; intros k len Hk.
    + rewrite firstn_nil. destruct k; reflexivity.
    + destruct len as [|len]; [lia|]. destruct k as [|k]; cbn; [reflexivity|]. apply IHh. lia.
  - destruct h as [|x h]; cbn [skipn Nat.add nth].
    + rewrite firstn_nil. destruct k; reflexivity.
    + apply IH. exact Hk.
Qed.

Lemma hd_window h start len d : (0 < len)%nat -> hd d (window h start len) = nth start h d.
Proof.
  intros Hl. rewrite <- (Nat.add_0_r start) at 2. rewrite <- (window_nth h start len 0 d Hl).
  destruct (window h start len); reflexivity.
Qed.

Theorem stop_rule s i h :
  (1 <= patience s)%nat -> (patience s <= length h)%nat -> (i < length h)%nat ->
  stop_now s i h = Some (rule s i h).
Proof.
  intros Hp1 Hpl Hi. unfold stop_now, stop_early, dyn_slice, rule.
  destruct (length h <? patience s)%nat eqn:E; [apply Nat.ltb_lt in E; lia|].
  destruct (patience s <? i)%nat eqn:Epi.
  - apply Nat.ltb_lt in Epi.
    rewrite dyn_start_exact by lia.
    replace (Z.to_nat (Z.max (Z.of_nat i - Z.of_nat (patience s) + 1) 0)) with (i - patience s + 1)%nat by lia.
    unfold stop_on_window. rewrite hd_window by lia.
    rewrite andb_true_r, andb_true_l.
    set (best := qmin_list _). set (oldest := nth _ h 0%Q).
    rewrite orb_comm. f_equal. f_equal.
    destruct (Qeq_bool best 0); reflexivity.
  - rewrite andb_false_r. cbn [orb andb]. rewrite orb_false_r. reflexivity.
Qed.

(* --- the loop stops at the first index at which the rule fires --- *)
Lemma upd_length {A} (l : list A) k a : length (upd l k a) = length l.
Proof. revert k; induction l as [|x l IH]; intros [|k]; cbn; auto. Qed.

Definition never_before (s : stopper) (st : nat -> list Q) (i j : nat) : Prop :=
  forall k, (i <= k < j)%nat -> stop_now s k (st k) = Some false.

(* history after k iterations *)
Fixpoint hist_at (s : stopper) (loss : nat -> Q) (k : nat) : list Q :=
  match k with
  | O => hist0 s loss
  | S k' => upd (hist_at s loss k') (S k') (loss (S k'))
  end.

Lemma hist_at_length s loss k : length (hist_at s loss k) = max_iter s.
Proof.
  induction k as [|k IH]; cbn [hist_at].
  - unfold hist0. rewrite upd_length, repeat_length. reflexivity.
  - rewrite upd_length. exact IH.
Qed.

Lemma run_loop_first fuel s loss : forall i,
  (1 <= patience s)%nat -> (patience s <= max_iter s)%nat ->
  (i < max_iter s)%nat -> (max_iter s - i <= fuel)%nat ->
  exists j, run_loop fuel s loss i (hist_at s loss i) = Some (j, hist_at s loss j)
    /\ (i <= j < max_iter s)%nat
    /\ stop_now s j (hist_at s loss j) = Some true
    /\ never_before s (hist_at s loss) i j.
Proof.
  induction fuel as [|f IH]; intros i Hp1 Hp2 Hi Hf; [lia|].
  cbn [run_loop].
  pose proof (stop_rule s i (hist_at s loss i) Hp1) as Hr.
  rewrite hist_at_length in Hr. specialize (Hr Hp2 Hi).
  rewrite Hr. destruct (rule s i (hist_at s loss i)) eqn:Er.
  - exists i. split; [reflexivity|]. split; [lia|]. split; [first [exact Hr | rewrite Hr; reflexivity | rewrite Hr, Er; reflexivity]|].
    intros k Hk; lia.
  - assert (Hlt : (S i < max_iter s)%nat).
    { unfold rule in Er. apply orb_false_iff in Er. destruct Er as [E1 _].
      apply Z.leb_gt in E1. lia. }
    destruct (IH (S i) Hp1 Hp2 Hlt ltac:(lia)) as [j [Hrun [Hj [Hstop Hnb]]]].
    exists j. split; [exact Hrun|]. split; [lia|]. split; [exact Hstop|].
    intros k Hk. destruct (Nat.eq_dec k i) as [->|Hne].
    + first [exact Hr | rewrite Hr; reflexivity | rewrite Hr, Er; reflexivity].
    + apply Hnb. lia.
Qed.

Theorem loop_stops_at_first s loss :
  (1 <= patience s)%nat -> (patience s <= max_iter s)%nat ->
  exists j, optim_loop s loss = Some (j, hist_at s loss j)
    /\ (j < max_iter s)%nat
    /\ rule s j (hist_at s loss j) = true
    /\ forall k, (k < j)%nat -> rule s k (hist_at s loss k) = false.
Proof.
  intros Hp1 Hp2. unfold optim_loop.
  destruct (run_loop_first (S (max_iter s)) s loss 0 Hp1 Hp2 ltac:(lia) ltac:(lia))
    as [j [Hrun [Hj [Hstop Hnb]]]].
  exists j. split; [exact Hrun|]. split; [lia|].
  pose proof (stop_rule s j (hist_at s loss j) Hp1) as Hr. rewrite hist_at_length in Hr.
  specialize (Hr Hp2 ltac:(lia)). rewrite Hr in Hstop. split; [congruence|].
  intros k Hk. pose proof (Hnb k ltac:(lia)) as Hk'.
  pose proof (stop_rule s k (hist_at s loss k) Hp1) as Hrk. rewrite hist_at_length in Hrk.
  specialize (Hrk Hp2 ltac:(lia)). rewrite Hrk in Hk'. congruence.
Qed.

(* --- argmin: position, minimality, first --- *)
Lemma Qle_bool_false a b : Qle_bool a b = false -> (b < a)%Q.
Proof.
  intros H. apply Qnot_le_lt. intros Hle. apply Qle_bool_iff in Hle. congruence.
Qed.

Lemma argmin_from_spec l : forall best bi i,
  (bi < i)%nat ->
  let r := argmin_from best bi i l in
  (r = bi \/ (i <= r < i + length l)%nat)
  /\ (forall x, In x l -> (r = bi /\ (best <= x)%Q) \/ ((i <= r)%nat /\ (nth (r - i) l 0%Q <= x)%Q))
  /\ (r = bi -> forall x, In x l -> (best <= x)%Q)
  /\ ((i <= r)%nat -> (nth (r - i) l 0%Q < best)%Q
        /\ forall k, (k < r - i)%nat -> (nth (r - i) l 0%Q < nth k l 0%Q)%Q).
Proof.
  induction l as [|y l IH]; intros best bi i Hbi; cbn [argmin_from length].
  - cbv zeta. split; [left; reflexivity|]. split; [intros x []|]. split; [intros _ x []|]. intros H; lia.
  - cbv zeta. destruct (Qle_bool best y) eqn:E; cbn [negb].
    + (* keep best *)
      apply Qle_bool_iff in E.
      destruct (IH best bi (S i) ltac:(lia)) as [H1 [H2 [H3 H4]]].
      set (r := argmin_from best bi (S i) l) in *.
      split; [destruct H1 as [->|H1]; [left; reflexivity|right; lia]|].
      split.
      { intros x [<-|Hx].
        - destruct H1 as [Hr|Hr]; [left; split; [exact Hr|exact E]|].
          right. split; [lia|]. destruct (H4 ltac:(lia)) as [Hlt _].
          replace (r - i)%nat with (S (r - S i)) by lia. cbn [nth].
          apply Qlt_le_weak. eapply Qlt_le_trans; eauto.
        - destruct (H2 x Hx) as [[Hr Hb]|[Hr Hb]]; [left; auto|right].
          split; [lia|]. replace (r - i)%nat with (S (r - S i)) by lia. exact Hb. }
      split.
      { intros Hr x [<-|Hx]; [exact E|]. apply H3; auto. }
      intros Hr. assert (Hr' : (S i <= r)%nat).
      { destruct H1 as [H1|H1]; lia. }
      destruct (H4 Hr') as [Hlt Hfirst].
      replace (r - i)%nat with (S (r - S i)) by lia. cbn [nth]. split; [exact Hlt|].
      intros k Hk. destruct k as [|k]; cbn [nth].
      * eapply Qlt_le_trans; eauto.
      * apply Hfirst. lia.
    + (* new best y at index i *)
      apply Qle_bool_false in E.
      destruct (IH y i (S i) ltac:(lia)) as [H1 [H2 [H3 H4]]].
      set (r := argmin_from y i (S i) l) in *.
      split; [right; destruct H1 as [->|H1]; lia|].
      split.
      { intros x [<-|Hx].
        - right. split; [destruct H1; lia|].
          destruct H1 as [Hr|Hr].
          + rewrite Hr, Nat.sub_diag. cbn. apply Qle_refl.
          + destruct (H4 ltac:(lia)) as [Hlt _].
            replace (r - i)%nat with (S (r - S i)) by lia. cbn [nth]. apply Qlt_le_weak. exact Hlt.
        - destruct (H2 x Hx) as [[Hr Hb]|[Hr Hb]]; right.
          + split; [lia|]. rewrite Hr, Nat.sub_diag. cbn. exact Hb.
          + split; [lia|]. replace (r - i)%nat with (S (r - S i)) by lia. exact Hb. }
      split.
      { intros Hr. destruct H1 as [H1|H1]; lia. }
      intros _. destruct H1 as [Hr|Hr].
      * rewrite Hr, Nat.sub_diag. cbn [nth]. split; [exact E|]. intros k Hk; lia.
      * destruct (H4 ltac:(lia)) as [Hlt Hfirst].
        replace (r - i)%nat with (S (r - S i)) by lia. cbn [nth]. split.
        -- eapply Qlt_trans; eauto.
        -- intros k Hk. destruct k as [|k]; cbn [nth]; [exact Hlt|]. apply Hfirst. lia.
Qed.

Theorem argmin_spec l : l <> [] ->
  (argmin l < length l)%nat
  /\ (forall x, In x l -> (nth (argmin l) l 0%Q <= x)%Q)
  /\ (forall k, (k < argmin l)%nat -> (nth (argmin l) l 0%Q < nth k l 0%Q)%Q).
Proof.
  destruct l as [|x l]; [congruence|]. intros _. unfold argmin.
  destruct (argmin_from_spec l x 0%nat 1%nat ltac:(lia)) as [H1 [H2 [H3 H4]]].
  set (r := argmin_from x 0 1 l) in *. cbn [length].
  split; [destruct H1 as [->|H1]; lia|].
  split.
  - intros y [<-|Hy].
    + destruct H1 as [Hr|Hr]; [rewrite Hr; cbn; apply Qle_refl|].
      destruct (H4 ltac:(lia)) as [Hlt _].
      replace r with (S (r - 1)) by lia. cbn [nth]. apply Qlt_le_weak. exact Hlt.
    + destruct (H2 y Hy) as [[Hr Hb]|[Hr Hb]].
      * rewrite Hr. cbn. exact Hb.
      * replace r with (S (r - 1)) by lia. cbn [nth]. exact Hb.
  - intros k Hk. destruct H1 as [Hr|Hr]; [lia|].
    destruct (H4 ltac:(lia)) as [Hlt Hfirst].
    replace r with (S (r - 1)) by lia. cbn [nth]. destruct k as [|k]; cbn [nth]; [exact Hlt|].
    apply Hfirst. lia.
Qed.

(* iteration_best lies in the final patience window, minimises the loss there and is the first such *)
Theorem best_is_argmin s i h :
  (1 <= patience s)%nat -> (patience s <= S i)%nat -> (i < length h)%nat ->
  exists b : nat, which_best s i h = Some (Z.of_nat b)
    /\ (i + 1 - patience s <= b <= i)%nat
    /\ (forall k, (i + 1 - patience s <= k <= i)%nat -> (nth b h 0%Q <= nth k h 0%Q)%Q)
    /\ (forall k, (i + 1 - patience s <= k < b)%nat -> (nth b h 0%Q < nth k h 0%Q)%Q).
Proof.
  intros Hp1 Hp2 Hi. unfold which_best, dyn_slice.
  destruct (length h <? patience s)%nat eqn:E; [apply Nat.ltb_lt in E; lia|].
  rewrite dyn_start_exact by lia.
  set (st := Z.to_nat (Z.of_nat i - Z.of_nat (patience s) + 1)).
  assert (Hst : st = (i + 1 - patience s)%nat) by (unfold st; lia).
  set (win := window h st (patience s)).
  assert (Hlen : length win = patience s) by (apply window_length; lia).
  assert (Hne : win <> []) by (intros H0; rewrite H0 in Hlen; cbn in Hlen; lia).
  destruct (argmin_spec win Hne) as [Ha [Hmin Hfirst]]. rewrite Hlen in Ha.
  exists (st + argmin win)%nat. split; [f_equal; lia|]. split; [lia|].
  split.
  - intros k Hk. rewrite <- (window_nth h st (patience s) (argmin win) 0%Q Ha). fold win.
    replace k with (st + (k - st))%nat by lia.
    rewrite <- (window_nth h st (patience s) (k - st) 0%Q ltac:(lia)). fold win.
    apply Hmin. apply nth_In. lia.
  - intros k Hk. rewrite <- (window_nth h st (patience s) (argmin win) 0%Q Ha). fold win.
    replace k with (st + (k - st))%nat by lia.
    rewrite <- (window_nth h st (patience s) (k - st) 0%Q ltac:(lia)). fold win.
    apply Hfirst. lia.
Qed.

(* --- history shape --- *)
Lemma nth_firstn_lt {A} (l : list A) d : forall n k, (k < n)%nat -> nth k (firstn n l) d = nth k l d.
Proof.
  induction l as [|x l IH]; intros n k Hk.
  - rewrite firstn_nil. reflexivity.
  - destruct n as [|n]; [lia|]. destruct k as [|k]; cbn; [reflexivity|]. apply IH. lia.
Qed.

Theorem history_shape prune h i : (i < length h)%nat ->
  let r := post_history prune h i in
  (length r = if prune then S i else length h)
  /\ (forall k, (k <= i)%nat -> nth k r None = Some (nth k h 0%Q))
  /\ (forall k, (i < k < length r)%nat -> nth k r None = None).
Proof.
  intros Hi. cbv zeta. unfold post_history, nan_pad.
  assert (Hl : length (map Some (firstn (S i) h)) = S i).
  { rewrite map_length, firstn_length. lia. }
  assert (Hn : forall k, (k <= i)%nat ->
            nth k (map Some (firstn (S i) h) ++ repeat None (length h - S i)) None = Some (nth k h 0%Q)).
  { intros k Hk. rewrite app_nth1 by lia.
    rewrite (nth_indep _ None (Some 0%Q)) by lia. rewrite map_nth. f_equal.
    apply nth_firstn_lt. lia. }
  destruct prune.
  - rewrite firstn_app, Hl, Nat.sub_diag. rewrite firstn_O, app_nil_r.
    rewrite firstn_all2 by (rewrite Hl; lia). split; [exact Hl|]. split.
    + intros k Hk. specialize (Hn k Hk). rewrite app_nth1 in Hn by lia. exact Hn.
    + intros k Hk. lia.
  - split; [rewrite app_length, Hl, repeat_length; lia|]. split; [exact Hn|].
    intros k Hk. rewrite app_length, Hl, repeat_length in Hk.
    rewrite app_nth2 by lia. apply nth_repeat.
Qed.

(* --- mini-batch keys --- *)
Lemma batch_key_advance k j : batch_key Advance k j = k ++ repeat 0%nat j ++ [1%nat].
Proof.
  revert k; induction j as [|j IH]; intros k; cbn [batch_key repeat app]; [reflexivity|].
  rewrite IH, <- app_assoc. reflexivity.
Qed.

Theorem batches_fresh k i j : i <> j -> batch_key Advance k i <> batch_key Advance k j.
Proof.
  intros Hne H. rewrite !batch_key_advance in H. apply app_inv_head in H.
  assert (Hl : length (repeat 0%nat i ++ [1%nat]) = length (repeat 0%nat j ++ [1%nat])) by (rewrite H; reflexivity).
  rewrite !app_length, !repeat_length in Hl. cbn in Hl. lia.
Qed.

(* the code as found: the carried key is never advanced, every iteration draws the same batches *)
Theorem stale_key_refuted k j : batch_key Stale k j = batch_key Stale k 0.
Proof. induction j as [|j IH]; [reflexivity|]. cbn [batch_key]. exact IH. Qed.

(* non-vacuity *)
Example rule_example :
  stop_now (mkStopper 8 2 0 0) 4 [5; 4; 3; 3; 3; 0; 0; 0]%Q = Some true
  /\ stop_now (mkStopper 8 2 0 0) 3 [5; 4; 3; 2; 0; 0; 0; 0]%Q = Some false.
Proof. split; vm_compute; reflexivity. Qed.

(* --- optim_flat around the loop: validation model present or not, restore or not --- *)
Lemma hist_at_max_iter_only s1 s2 loss k :
  max_iter s1 = max_iter s2 -> hist_at s1 loss k = hist_at s2 loss k.
Proof.
  intros E. induction k as [|k IH]; cbn [hist_at].
  - unfold hist0. rewrite E. reflexivity.
  - rewrite IH. reflexivity.
Qed.

Theorem optim_flat_spec s hv restore loss :
  (1 <= patience s)%nat -> (patience s <= max_iter s)%nat ->
  exists (j b : nat),
    optim_flat_model s hv restore loss
      = Some (mkOut j (Z.of_nat b) (if restore then Z.of_nat b else Z.of_nat j) (hist_at s loss j))
    /\ (j < max_iter s)%nat
    /\ (hv = false -> j = (max_iter s - 1)%nat)
    /\ (hv = true -> rule s j (hist_at s loss j) = true
                     /\ forall k, (k < j)%nat -> rule s k (hist_at s loss k) = false)
    /\ (j + 1 - patience s <= b <= j)%nat
    /\ (forall k, (j + 1 - patience s <= k <= j)%nat ->
          (nth b (hist_at s loss j) 0%Q <= nth k (hist_at s loss j) 0%Q)%Q)
    /\ (forall k, (j + 1 - patience s <= k < b)%nat ->
          (nth b (hist_at s loss j) 0%Q < nth k (hist_at s loss j) 0%Q)%Q).
Proof.
  intros Hp1 Hp2. unfold optim_flat_model.
  assert (Hmi : max_iter (loop_stopper s hv) = max_iter s) by (destruct hv; reflexivity).
  assert (Hq1 : (1 <= patience (loop_stopper s hv))%nat) by (destruct hv; cbn; lia).
  assert (Hq2 : (patience (loop_stopper s hv) <= max_iter (loop_stopper s hv))%nat)
    by (destruct hv; cbn; lia).
  destruct (loop_stops_at_first (loop_stopper s hv) loss Hq1 Hq2) as [j [Hrun [Hj [Hrule Hnb]]]].
  rewrite Hrun. rewrite Hmi in Hj.
  rewrite (hist_at_max_iter_only (loop_stopper s hv) s loss j Hmi) in *.
  (* the user's patience fits into the history up to j *)
  assert (Hpj : (patience s <= S j)%nat).
  { destruct hv; cbn [loop_stopper] in Hrule.
    - unfold rule in Hrule. apply orb_true_iff in Hrule. destruct Hrule as [H|H].
      + apply Z.leb_le in H. lia.
      + apply andb_true_iff in H. destruct H as [H _]. apply Nat.ltb_lt in H. lia.
    - unfold rule in Hrule. cbn [patience max_iter] in Hrule.
      apply orb_true_iff in Hrule. destruct Hrule as [H|H].
      + apply Z.leb_le in H. lia.
      + apply andb_true_iff in H. destruct H as [H _]. apply Nat.ltb_lt in H. lia. }
  destruct (best_is_argmin s j (hist_at s loss j) Hp1 Hpj) as [b [Hwb [Hb [Hmin Hfirst]]]].
  { rewrite hist_at_length. exact Hj. }
  rewrite Hwb. exists j, b. split; [reflexivity|]. split; [exact Hj|].
  split.
  - intros ->. cbn [loop_stopper] in Hrule. unfold rule in Hrule. cbn [patience max_iter] in Hrule.
    apply orb_true_iff in Hrule. destruct Hrule as [H|H].
    + apply Z.leb_le in H. lia.
    + apply andb_true_iff in H. destruct H as [H _]. apply Nat.ltb_lt in H. lia.
  - split.
    + intros ->. cbn [loop_stopper] in Hrule, Hnb. split; [exact Hrule|].
      intros k Hk. exact (Hnb k Hk).
    + split; [exact Hb|]. split; [exact Hmin|exact Hfirst].
Qed.
