(* C10 - EngineBuilder as a state machine: what __init__, set_engine_seed, set_initial_values,
   set_jitter_fns and build() read and write of the fields the key / initial-value logic depends on.
   Written by hand from liesel/goose/builder.py; tied to the code by harness/lv/c10.py (the state shard
   replays the builder calls of every run through this model).  No proofs here (BuilderProofs.v). *)
From Coq Require Import List ZArith Bool Arith.
Import ListNotations.
From LV Require Import Goose.Epoch Goose.Keys.
Close Scope Z_scope.
Open Scope nat_scope.

(* ---- key flow with an arbitrary engine key ek (set_engine_seed) and jitter key jk ---- *)
Definition jitter_events_g (jk : key) (nch : nat) (jit : option nat) : list event :=
  match jit with
  | None => []
  | Some nfn =>
      ESplit jk nfn ::
      flat_map (fun f => ESplit (split jk nfn f) nch ::
                         map (fun c => EUse (mkL c MJitter f 0 0) (split (split jk nfn f) nch c)) (seq 0 nch))
               (seq 0 nfn)
  end.
(* build(): seeds = split(self._engine_key, num_chains); jitter; Engine(...); sample_all_epochs() *)
Definition run_events_g (ek jk : key) (nch : nat) (jit : option nat) (p : params) (sched : list econf)
  : option (list event) :=
  match program p sched with
  | None => None
  | Some prog =>
      Some ((ESplit ek nch :: flat_map (fun c => chain_events p c prog (split ek nch c)) (seq 0 nch))
            ++ jitter_events_g jk nch jit)
  end.
Definition run_calls_g ek jk nch jit p sched : option (list (label * key)) :=
  match run_events_g ek jk nch jit p sched with Some evs => Some (uses evs) | None => None end.

(* the code as it is (build() only reads the builder) and a variant that stores the jittered states
   back into the builder (the shape of seeded change C10-4; kept for the refutation witness) *)
Inductive build_variant := BuildPure | BuildWritesJitter.

Section Builder.
  Variable mstate : Type.
  Variable prngkey : Z -> key.                               (* jax.random.PRNGKey, an oracle *)
  (* a jitter dictionary (which position keys, which functions, in which order): [jn d] = len(d),
     [jitter_apply d keys state] = update_state({pos_key_f: d[pos_key_f](keys_f, position_f)}, state) *)
  Variable jdict : Type.
  Variable jn : jdict -> nat.
  Variable jitter_apply : jdict -> list key -> mstate -> mstate.

  Record builder := mkB {
    bd_engine : key;                       (* self._engine_key *)
    bd_jitter : key;                       (* self._jitter_key *)
    bd_nch : nat;                          (* self._num_chains *)
    bd_states : option (list mstate);      (* self._model_state (stacked: one entry per chain) *)
    bd_jit : option jdict }.               (* self._jitter_fns = Option(the dictionary last given) *)

  (* EngineBuilder(seed, num_chains) *)
  Definition b_new (s : seed) (nch : nat) : builder :=
    let r := seed_root prngkey s in mkB (b_engine r) (b_jitter r) nch None None.
  (* set_engine_seed(seed): if jnp.isscalar(seed): self._engine_key = PRNGKey(seed) else: = seed *)
  Definition b_set_engine_seed (s : seed) (b : builder) : builder :=
    mkB (seed_root prngkey s) (bd_jitter b) (bd_nch b) (bd_states b) (bd_jit b).
  (* set_initial_values(model_state, multiple_chains); None = the call raises, the builder is unchanged *)
  Definition b_set_initial_values (v : siv_variant) (a : init_arg mstate) (b : builder) : option builder :=
    match set_initial_values mstate v (bd_nch b) a with
    | None => None
    | Some st => Some (mkB (bd_engine b) (bd_jitter b) (bd_nch b) (Some st) (bd_jit b))
    end.
  (* set_jitter_fns(jitter_fns): self._jitter_fns = Option(jitter_fns) - None clears, the last call wins *)
  Definition b_set_jitter_fns (j : option jdict) (b : builder) : builder :=
    mkB (bd_engine b) (bd_jitter b) (bd_nch b) (bd_states b) j.

  Definition jitter_chain_g (jk : key) (nch : nat) (jit : option jdict) (c : nat) (ms : mstate) : mstate :=
    match jit with
    | None => ms
    | Some d => jitter_apply d (map (fun f => split (split jk (jn d) f) nch c) (seq 0 (jn d))) ms
    end.
  (* what the key flow sees of the jitter configuration *)
  Definition jit_count (b : builder) : option nat := option_map jn (bd_jit b).

  (* what build() hands to Engine(seeds=..., model_states=...) *)
  Record engine_in := mkEI { ei_seeds : list key; ei_states : list mstate }.

  (* build(): None = it raises ("Model state must be set"; chain axes that do not match) *)
  Definition b_build (bv : build_variant) (b : builder) : option (engine_in * builder) :=
    match bd_states b with
    | None => None
    | Some states =>
        if negb (length states =? bd_nch b) then None
        else
          let js := map (fun cs => jitter_chain_g (bd_jitter b) (bd_nch b) (bd_jit b) (fst cs) (snd cs))
                        (combine (seq 0 (bd_nch b)) states) in
          Some (mkEI (map (fun c => split (bd_engine b) (bd_nch b) c) (seq 0 (bd_nch b))) js,
                match bv, bd_jit b with
                | BuildWritesJitter, Some _ =>
                    mkB (bd_engine b) (bd_jitter b) (bd_nch b) (Some js) (bd_jit b)
                | _, _ => b
                end)
    end.

  (* a sequence of calls on one builder; the engine under test is the one returned by the last build() *)
  Inductive bop :=
    | BSetEngineSeed (s : seed)
    | BSetInit (a : init_arg mstate)
    | BSetJitter (j : option jdict)
    | BBuild.
  (* state: (builder, result of the last build) ; None = some call raised *)
  Definition b_step (sv : siv_variant) (bv : build_variant) (st : builder * option engine_in) (o : bop)
    : option (builder * option engine_in) :=
    let (b, last) := st in
    match o with
    | BSetEngineSeed s => Some (b_set_engine_seed s b, last)
    | BSetInit a => match b_set_initial_values sv a b with Some b' => Some (b', last) | None => None end
    | BSetJitter j => Some (b_set_jitter_fns j b, last)
    | BBuild => match b_build bv b with Some (ei, b') => Some (b', Some ei) | None => None end
    end.
  Fixpoint b_steps sv bv (st : builder * option engine_in) (ops : list bop) : option (builder * option engine_in) :=
    match ops with
    | [] => Some st
    | o :: r => match b_step sv bv st o with Some st' => b_steps sv bv st' r | None => None end
    end.
  Definition b_script sv bv (s : seed) (nch : nat) (ops : list bop) : option engine_in :=
    match b_steps sv bv (b_new s nch, None) ops with
    | Some (_, last) => last
    | None => None
    end.
End Builder.

Arguments mkEI {mstate}. Arguments ei_seeds {mstate}. Arguments ei_states {mstate}.
Arguments BSetEngineSeed {mstate jdict}. Arguments BSetInit {mstate jdict}. Arguments BSetJitter {mstate jdict}.
Arguments BBuild {mstate jdict}.

(* Engine(seeds, model_states, ...) followed by sample_all_epochs(): the vmapped engine of Keys.v started
   from what build() handed over *)
Definition W_run_built (w : world) (ei : engine_in (w_mstate w)) : option (list (W_chain w)) :=
  if negb (length (ei_seeds ei) =? length (ei_states ei)) then None
  else match program (w_p w) (w_sched w) with
       | None => None
       | Some prog =>
           Some (fold_left
                   (fun b o => map (exec_op _ _ _ _ _ _ (w_extract w) (w_k_init w) (w_k_start w) (w_k_trans w)
                                            (w_k_end w) (w_k_tune w) (w_k_endwarmup w) (w_q_gen w) (w_p w)
                                            (w_sched w) (w_needs_hist w) o) b)
                   prog
                   (map (fun x => mkC _ _ _ _ _ _ (fst (fst x)) (snd (fst x))
                                      (mkMach _ _ _ _ _ _ [] (snd x) [] [] [] []) [])
                        (combine (combine (seq 0 (length (ei_seeds ei))) (ei_seeds ei)) (ei_states ei))))
       end.
