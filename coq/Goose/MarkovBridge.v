(* C04 - bridge between the kernel matrices of Goose/Markov.v (over R) and the C05 model of
   mh_step, Goose/MH.v (over the IEEE special-value layer xnum with exp as an oracle):

     - [accept_rule_is_C05] : on finite log-densities, when the exp oracle is eps-accurate at the
       log-ratio, the probability reported by [mh_decide] is within eps of Markov.accept_prob
       (the factor of the off-diagonal entries of [mh_kernel]) and no error code is raised;
     - [accept_fraction_bounds] : when u ranges over the grid {0, 1/N, ..., (N-1)/N} (what a
       float uniform sampler produces), the fraction of the grid on which [mh_decide] with the
       comparison `<` accepts is p up to the grid resolution: p <= fraction < p + 1/N.  So "accept
       with probability accept_prob" - what the matrix entry q x y * accept_prob says - is what
       the accept decision of mh_step does, up to 1/N.  With `<=` the fraction exceeds p by up to
       1/N also at p = 0 ([le_accepts_at_zero]), the defect F3 repaired in mh.py.
     - [thm_hmc_skeleton_invariant] : closed form of MarkovProofs.hmc_skeleton_invariant. *)
From Coq Require Import Reals List Bool QArith Qreals Lra Lia Arith ZArith.
Import ListNotations.
From LV Require Import Base.Xnum Goose.MH Goose.Markov Goose.MarkovProofs.
Close Scope Q_scope.
Open Scope R_scope.

Lemma Rmin1_lipschitz a b : Rabs (Rmin 1 a - Rmin 1 b) <= Rabs (a - b).
Proof.
  unfold Rmin. destruct (Rle_dec 1 a), (Rle_dec 1 b); unfold Rabs;
    repeat match goal with |- context [Rcase_abs ?t] => destruct (Rcase_abs t) end; lra.
Qed.

Lemma Q2R_one : Q2R 1 = 1.
Proof. unfold Q2R. simpl. lra. Qed.

Theorem accept_rule_is_C05 :
  forall (exp_o : xnum -> xnum) (c : cmp) (cur prop corr : Q) (u : xnum) (e : Q) (eps : R),
  exp_o (XFin (prop - cur + corr)%Q) = XFin e ->
  Rabs (Q2R e - exp (Q2R prop - Q2R cur + Q2R corr)) <= eps ->
  exists p : Q,
    prob (mh_decide exp_o c (XFin cur) (XFin prop) (XFin corr) u) = XFin p
    /\ Rabs (Q2R p - accept_prob (Q2R prop - Q2R cur + Q2R corr)) <= eps
    /\ code (mh_decide exp_o c (XFin cur) (XFin prop) (XFin corr) u) = 0%nat.
Proof.
  intros exp_o c cur prop corr u e eps He Hclose.
  unfold mh_decide. cbn [xsub xneg xadd xisnan].
  change (prop + - cur + corr)%Q with (prop - cur + corr)%Q.
  rewrite He. cbn [xclip_max1 prob code].
  set (l := Q2R prop - Q2R cur + Q2R corr) in *.
  destruct (Qleb e 1) eqn:E.
  - exists e. cbn [prob code]. repeat split.
    apply Qle_bool_iff in E. apply Qle_Rle in E. rewrite Q2R_one in E.
    unfold accept_prob.
    replace (Q2R e) with (Rmin 1 (Q2R e)) at 1 by (apply Rmin_right; exact E).
    eapply Rle_trans; [apply Rmin1_lipschitz|exact Hclose].
  - exists 1%Q. cbn [prob code]. repeat split.
    assert (L : 1 < Q2R e).
    { rewrite <- Q2R_one. apply Qlt_Rlt. apply Qnot_le_lt. intros H.
      apply Qle_bool_iff in H. unfold Qleb in E. congruence. }
    unfold accept_prob. rewrite Q2R_one.
    replace 1 with (Rmin 1 (Q2R e)) at 1 by (apply Rmin_left; lra).
    eapply Rle_trans; [apply Rmin1_lipschitz|exact Hclose].
Qed.

(* ---- the accept decision over a uniform grid ---- *)
Close Scope R_scope.
Open Scope nat_scope.

Lemma prefix_count (f : nat -> bool) :
  (forall j k, j <= k -> f k = true -> f j = true) ->
  forall N, let m := length (filter f (seq 0 N)) in
    m <= N /\ (forall k, k < m -> f k = true) /\ (m < N -> f m = false).
Proof.
  intros Hdown N. induction N as [|N IH].
  - cbn. repeat split; intros; lia.
  - cbn zeta in *. rewrite seq_S, filter_app, app_length. cbn [plus filter].
    set (m := length (filter f (seq 0 N))) in *.
    destruct IH as (Hle & Htrue & Hfalse).
    destruct (f N) eqn:FN; cbn [length].
    + assert (m = N).
      { destruct (Nat.eq_dec m N) as [|Hne]; [assumption|].
        assert (Hlt : m < N) by lia. specialize (Hfalse Hlt).
        rewrite (Hdown m N) in Hfalse by (try lia; assumption). discriminate. }
      subst m. repeat split.
      * lia.
      * intros k Hk. apply (Hdown k N); [lia|assumption].
      * lia.
    + rewrite Nat.add_0_r. repeat split.
      * lia.
      * assumption.
      * intros Hlt. destruct (Nat.eq_dec m N) as [->|Hne]; [assumption|]. apply Hfalse. lia.
Qed.

Open Scope Q_scope.

Definition grid_point (N k : nat) : Q := Z.of_nat k # Pos.of_nat N.

(* does mh_step (comparison c) accept when the uniform draw is the k-th grid point and the
   reported acceptance probability is p?  -- literally the last field of MH.mh_decide *)
Definition grid_accepts (c : cmp) (N : nat) (p : Q) (k : nat) : bool :=
  match c with Lt => xlt (XFin (grid_point N k)) (XFin p) | Le => xle (XFin (grid_point N k)) (XFin p) end.

Definition accept_count (N : nat) (p : Q) : nat := length (filter (grid_accepts Lt N p) (seq 0 N)).
Definition accept_fraction (N : nat) (p : Q) : Q := Z.of_nat (accept_count N p) # Pos.of_nat N.

Lemma grid_accepts_is_mh_decide exp_o c N p k cur prop corr :
  prob (mh_decide exp_o c cur prop corr (XFin (grid_point N k))) = XFin p ->
  accept (mh_decide exp_o c cur prop corr (XFin (grid_point N k))) = grid_accepts c N p k.
Proof.
  unfold mh_decide, grid_accepts.
  destruct (xisnan (xadd (xsub prop cur) corr)); cbn [prob accept]; intros ->; destruct c; reflexivity.
Qed.

Lemma pos_of_nat_Z N : (0 < N)%nat -> Z.pos (Pos.of_nat N) = Z.of_nat N.
Proof.
  intros H. destruct N as [|n]; [lia|].
  rewrite <- (Nat2Pos.id (S n)) at 2 by lia. rewrite positive_nat_Z. reflexivity.
Qed.

Lemma grid_lt_iff N p k : (0 < N)%nat ->
  grid_accepts Lt N p k = true <-> grid_point N k < p.
Proof.
  intros HN. unfold grid_accepts, xlt, Qltb. rewrite negb_true_iff.
  split.
  - intros H. apply Qnot_le_lt. intros L. apply Qle_bool_iff in L. congruence.
  - intros H. destruct (Qle_bool p (grid_point N k)) eqn:E; [|reflexivity].
    apply Qle_bool_iff in E. exfalso. apply (Qlt_not_le _ _ H E).
Qed.

Theorem accept_fraction_bounds :
  forall (N : nat) (p : Q), (0 < N)%nat -> 0 <= p -> p <= 1 ->
  p <= accept_fraction N p /\ accept_fraction N p < p + (1 # Pos.of_nat N).
Proof.
  intros N p HN Hp0 Hp1.
  assert (Hdown : forall j k, (j <= k)%nat -> grid_accepts Lt N p k = true -> grid_accepts Lt N p j = true).
  { intros j k Hjk Hk. apply grid_lt_iff in Hk; [|assumption]. apply grid_lt_iff; [assumption|].
    eapply Qle_lt_trans; [|exact Hk]. unfold grid_point, Qle. cbn [Qnum Qden].
    apply Z.mul_le_mono_nonneg_r; lia. }
  destruct (prefix_count (grid_accepts Lt N p) Hdown N) as (Hle & Htrue & Hfalse).
  fold (accept_count N p) in Hle, Htrue, Hfalse.
  unfold accept_fraction. set (m := accept_count N p) in *.
  pose proof (pos_of_nat_Z N HN) as HZ.
  split.
  - destruct (Nat.eq_dec m N) as [E|NE].
    + rewrite E. eapply Qle_trans; [exact Hp1|].
      unfold Qle. cbn [Qnum Qden]. rewrite HZ. lia.
    + assert (Hlt : (m < N)%nat) by lia. specialize (Hfalse Hlt).
      destruct (Qlt_le_dec (grid_point N m) p) as [L|G]; [|exact G].
      apply grid_lt_iff in L; [|assumption]. congruence.
  - destruct m as [|m'].
    + apply Qle_lt_trans with p.
      * eapply Qle_trans; [|exact Hp0]. unfold Qle. cbn [Qnum Qden Z.of_nat]. lia.
      * rewrite <- (Qplus_0_r p) at 1. apply Qplus_lt_r. reflexivity.
    + assert (L : grid_point N m' < p).
      { apply grid_lt_iff; [assumption|]. apply Htrue. lia. }
      apply Qle_lt_trans with (grid_point N m' + (1 # Pos.of_nat N)).
      * unfold grid_point, Qle, Qplus. cbn [Qnum Qden]. rewrite Pos2Z.inj_mul, HZ. nia.
      * apply Qplus_lt_l. exact L.
Qed.

(* non-vacuity and exactness on the grid: p = 3/8 on a grid of 8 points accepts exactly 3 of 8 *)
Example accept_fraction_example : accept_fraction 8 (3 # 8) == 3 # 8.
Proof. vm_compute. reflexivity. Qed.

(* with the comparison as found (<=) the grid point u = 0 is accepted at p = 0 (C05_le_refuted) *)
Lemma le_accepts_at_zero N : (0 < N)%nat -> grid_accepts Le N 0 0 = true /\ grid_accepts Lt N 0 0 = false.
Proof. intros _. split; reflexivity. Qed.

Close Scope Q_scope.
Open Scope R_scope.

Theorem thm_hmc_skeleton_invariant :
  forall (Q M : Type) (qeqb : Q -> Q -> bool) (meqb : M -> M -> bool),
  eqb_ok qeqb -> eqb_ok meqb ->
  forall (lq : list Q) (lm : list M), NoDup lq -> NoDup lm ->
  forall (w : Q * M -> R) (T : Q * M -> Q * M),
  positive (list_prod lq lm) w ->
  (forall z, In z (list_prod lq lm) -> T (T z) = z) ->
  invariant (list_prod lq lm) w
    (seq_kernel (list_prod lq lm) (gibbs_kernel (list_prod lq lm) qeqb fst w)
                (involutive_kernel (pair_eqb qeqb meqb) (list_prod lq lm) w T)).
Proof.
  intros Q M qeqb meqb Hq Hm lq lm Hnq Hnm w T Hw Hinv.
  apply (hmc_skeleton_invariant qeqb meqb Hq Hm lq lm Hnq Hnm w T Hw Hinv).
Qed.

(* ---- the glue hypothesis of the gradient-based kernels: kernel target = exp(block log-density), ZERO
   where the log-density is undefined (NaN) or -inf.  A state of zero weight is never entered from the
   support by the accepted/rejected involution; if the undefined log-density is replaced by a finite
   number (jnp.nan_to_num: 0.0, i.e. weight exp 0 = 1) the kernel does enter it and the true target is no
   longer invariant. ---- *)
Theorem thm_zero_weight_never_entered :
  forall (X : Type) (eqb : X -> X -> bool), eqb_ok eqb ->
  forall (xs : list X) (w : X -> R) (T : X -> X) (x y : X),
  0 < w x -> w y = 0 -> x <> y -> involutive_kernel eqb xs w T x y = 0.
Proof.
  intros X eqb He xs w T x y Hx Hy Hne.
  unfold involutive_kernel, with_diag. rewrite (eqb_neq eqb He x y Hne).
  unfold inv_off. destruct (eqb y (T x)) eqn:E; [|reflexivity].
  apply He in E. rewrite <- E, Hy. unfold Rdiv. rewrite Rmult_0_l.
  unfold Rmin. destruct (Rle_dec 1 0); lra.
Qed.

Definition xs01 : list nat := [0; 1]%nat.
Definition swap01 (x : nat) : nat := match x with 0%nat => 1%nat | _ => 0%nat end.
Definition w_true (x : nat) : R := match x with 0%nat => 1 | _ => 0 end.          (* 1 is outside the support *)
Definition w_num (x : nat) : R := match x with 0%nat => 1 | _ => exp 0 end.       (* nan_to_num: log-density 0.0 *)

Theorem thm_nan_to_num_target_refuted :
  (forall x, In x xs01 -> swap01 (swap01 x) = x) /\
  involutive_kernel Nat.eqb xs01 w_true swap01 0%nat 1%nat = 0 /\
  involutive_kernel Nat.eqb xs01 w_num swap01 0%nat 1%nat = 1 /\
  ~ invariant xs01 w_true (involutive_kernel Nat.eqb xs01 w_num swap01).
Proof.
  assert (M : Rmin 1 (1 / 1) = 1) by (unfold Rmin; destruct (Rle_dec 1 (1 / 1)); lra).
  assert (Z : Rmin 1 (0 / 1) = 0) by (unfold Rmin; destruct (Rle_dec 1 (0 / 1)); lra).
  repeat split.
  - intros x Hx. unfold xs01 in Hx. cbn [In] in Hx. destruct Hx as [<-|[<-|[]]]; reflexivity.
  - cbv [involutive_kernel with_diag inv_off Nat.eqb swap01 w_true]. exact Z.
  - cbv [involutive_kernel with_diag inv_off Nat.eqb swap01 w_num]. rewrite exp_0. exact M.
  - intros H. pose proof (H 1%nat (or_intror (or_introl eq_refl))) as E.
    cbv [rsum fold_right xs01 involutive_kernel with_diag inv_off Nat.eqb swap01 w_num w_true] in E.
    rewrite exp_0 in E. rewrite M in E. lra.
Qed.
