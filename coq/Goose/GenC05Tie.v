(* Support library for the C05 source tie (tools/py2gallina_c05.py).

   On every run of the check the translator turns the Python source of liesel/goose/mh.py : mh_step (and
   of the _standard_transition bodies of RWKernel / MHKernel / IWLSKernel) into Gallina definitions
   (gen_...); the generated file (work directory, never this directory) proves them extensionally equal
   to the hand-written model (Goose/MH.v mh_decide / mh_select, Goose/MHKernel.v kernel_transition) and
   re-states the main C05 theorems for them.  This file holds exactly what that generated file needs:
   the library primitives of the translated subset that Base/Xnum.v does not have, the model viewed as a
   function of the arguments of the Python function, the transfer theorems, and the tactics of the
   generated equality proofs. *)
From Coq Require Import QArith Bool.
From LV Require Import Base.Xnum Goose.MH Goose.MHProofs Goose.MHKernel Goose.MHKernelProofs.
Open Scope Q_scope.

(* ---- library primitives of the translated subset (the table is in tools/py2gallina_c05.py) ---- *)
Definition xgt (a b : xnum) : bool := xlt b a.                       (* a > b  *)
Definition xge (a b : xnum) : bool := xle b a.                       (* a >= b *)
(* jnp.minimum / jnp.clip(x, max=c): NaN propagates *)
Definition xmin (a b : xnum) : xnum :=
  match a, b with
  | XNaN, _ | _, XNaN => XNaN
  | _, _ => if xle a b then a else b
  end.
(* jnp.fmin: a NaN operand is ignored *)
Definition xfmin (a b : xnum) : xnum :=
  match a, b with
  | XNaN, _ => b
  | _, XNaN => a
  | _, _ => if xle a b then a else b
  end.
Definition xmax (a b : xnum) : xnum :=
  match a, b with
  | XNaN, _ | _, XNaN => XNaN
  | _, _ => if xle a b then b else a
  end.
Definition xisinf (a : xnum) : bool := match a with XNegInf | XPosInf => true | _ => false end.
Definition xisfinite (a : xnum) : bool := match a with XFin _ => true | _ => false end.

Lemma xmin_one a : xmin a (XFin 1) = xclip_max1 a.
Proof. destruct a; reflexivity. Qed.

(* ---- the model interface: what mh_step uses of `model` ---- *)
Record gmodel (S P : Type) := mkGModel {
  m_log_prob : S -> xnum;                (* model.log_prob(model_state) *)
  m_update_state : P -> S -> S           (* model.update_state(position, model_state) *)
}.
Arguments mkGModel {S P}.
Arguments m_log_prob {S P}.
Arguments m_update_state {S P}.

(* ---- the hand-written model of mh_step as a function of the arguments of the Python function ---- *)
Definition mh_step_model {K S P : Type} (exp_o : xnum -> xnum) (uniform_o : K -> xnum)
    (key : K) (m : gmodel S P) (proposal : P) (st : S) (corr : xnum) : mh_out * S :=
  let o := mh_decide exp_o Lt (m_log_prob m st) (m_log_prob m (m_update_state m proposal st)) corr
             (uniform_o key) in
  (o, mh_select o (m_update_state m proposal st) st).

(* ---- transfer of the C05 theorems to any function extensionally equal to the model ---- *)
Section Transfer.
Context {K S P : Type}.
Variable exp_o : xnum -> xnum.
Variable uniform_o : K -> xnum.
Variable g : K -> gmodel S P -> P -> S -> xnum -> mh_out * S.
Hypothesis Hg : forall k m p s c, g k m p s c = mh_step_model exp_o uniform_o k m p s c.

Theorem tie_accept_iff k m p s c qu qp :
  uniform_o k = XFin qu -> prob (fst (g k m p s c)) = XFin qp ->
  (accept (fst (g k m p s c)) = true <-> qu < qp).
Proof. rewrite Hg. cbn [fst mh_step_model]. apply accept_iff_lt. Qed.

Theorem tie_prob_range k m p s c : exp_ok exp_o ->
  exists q, prob (fst (g k m p s c)) = XFin q /\ 0 <= q /\ q <= 1.
Proof. intros He. rewrite Hg. cbn [fst mh_step_model]. apply prob_range; exact He. Qed.

Theorem tie_state_select k m p s c :
  (accept (fst (g k m p s c)) = false -> snd (g k m p s c) = s)
  /\ (accept (fst (g k m p s c)) = true -> snd (g k m p s c) = m_update_state m p s).
Proof. rewrite Hg. cbn [fst snd mh_step_model]. apply state_select. Qed.

Theorem tie_zero_never k m p s c :
  unit_interval (uniform_o k) -> prob (fst (g k m p s c)) = XFin 0 ->
  accept (fst (g k m p s c)) = false /\ snd (g k m p s c) = s.
Proof.
  intros Hu Hp.
  assert (Ha : accept (fst (g k m p s c)) = false).
  { revert Hp. rewrite Hg. cbn [fst mh_step_model]. apply zero_never; exact Hu. }
  split; [exact Ha | exact (proj1 (tie_state_select k m p s c) Ha)].
Qed.

Theorem tie_one_always k m p s c :
  unit_interval (uniform_o k) -> prob (fst (g k m p s c)) = XFin 1 ->
  accept (fst (g k m p s c)) = true /\ snd (g k m p s c) = m_update_state m p s.
Proof.
  intros Hu Hp.
  assert (Ha : accept (fst (g k m p s c)) = true).
  { revert Hp. rewrite Hg. cbn [fst mh_step_model]. apply one_always; exact Hu. }
  split; [exact Ha | exact (proj2 (tie_state_select k m p s c) Ha)].
Qed.

Theorem tie_error_code k m p s c :
  code (fst (g k m p s c)) =
  if xisnan (xadd (xsub (m_log_prob m (m_update_state m p s)) (m_log_prob m s)) c) then 90%nat else 0%nat.
Proof. rewrite Hg. cbn [fst mh_step_model]. apply code_is_0_or_90. Qed.

Theorem tie_nan_is_rejection k m p s c : exp_ok exp_o ->
  unit_interval (uniform_o k) ->
  xisnan (xadd (xsub (m_log_prob m (m_update_state m p s)) (m_log_prob m s)) c) = true ->
  code (fst (g k m p s c)) = 90%nat /\ prob (fst (g k m p s c)) = XFin 0
  /\ accept (fst (g k m p s c)) = false /\ snd (g k m p s c) = s.
Proof.
  intros He Hu Hn.
  destruct (nan_is_rejection exp_o He (m_log_prob m s) (m_log_prob m (m_update_state m p s)) c
              (uniform_o k) Hu Hn) as (H1 & H2 & H3).
  pose proof (tie_state_select k m p s c) as [Hs _].
  revert Hs. rewrite Hg. cbn [fst snd mh_step_model]. intros Hs.
  repeat split; try assumption. exact (Hs H3).
Qed.

Theorem tie_zero_density_never k m p s c qc qk : exp_ok exp_o ->
  unit_interval (uniform_o k) ->
  m_log_prob m s = XFin qc -> c = XFin qk -> m_log_prob m (m_update_state m p s) = XNegInf ->
  accept (fst (g k m p s c)) = false /\ snd (g k m p s c) = s.
Proof.
  intros He Hu Hc Hk Hp.
  assert (Ha : accept (fst (g k m p s c)) = false).
  { rewrite Hg. cbn [fst mh_step_model]. rewrite Hp.
    exact (zero_density_never exp_o He _ _ _ qc qk Hu Hc Hk). }
  split; [exact Ha | exact (proj1 (tie_state_select k m p s c) Ha)].
Qed.
End Transfer.

(* ---- tactics of the generated equality proofs ---- *)
Ltac tie_c05_unfold :=
  unfold mh_step_model, mh_decide, mh_select, xgt, xge; cbv zeta; rewrite ?xmin_one.
(* both sides are the same straight-line computation over the oracles; the only case analysis of the
   model is the NaN guard, so: split on every isnan test, then compare by conversion *)
Ltac tie_c05_cases :=
  repeat match goal with
         | |- context [xisnan ?a] =>
             let E := fresh "E" in destruct (xisnan a) eqn:E; rewrite ?E; cbn [fst snd code prob accept]
         end.
Ltac tie_c05_crush := tie_c05_unfold; first [ reflexivity | tie_c05_cases; reflexivity ].

(* ================= kernel level ================= *)
(* everything a _standard_transition body calls besides mh_step: uninterpreted oracles (pure functions
   of their arguments; their meaning is not the subject of C05).  U = array / function values the model
   does not look into, MHP = MHProposal. *)
Record koracles (K S P U KS MHP : Type) := mkKOracles {
  o_split : K -> K * K;                       (* jax.random.split *)
  o_step_size : KS -> U;                      (* kernel_state.step_size *)
  o_position : S -> P;                        (* self.position(model_state) *)
  o_ravel : P -> U * (U -> P);                (* ravel_pytree *)
  o_shape : U -> U;
  o_normal : K -> U -> U;                     (* jax.random.normal *)
  o_lit : Z -> U;
  o_add : U -> U -> U; o_sub : U -> U -> U; o_mul : U -> U -> U; o_div : U -> U -> U; o_pow : U -> U -> U;
  o_proposal_fn : K -> S -> U -> MHP;         (* MHKernel._proposal_fn *)
  o_mhp_position : MHP -> P;
  o_mhp_log_correction : MHP -> xnum;
  o_flat_log_prob_fn : S -> (U -> P) -> U;
  o_grad : U -> U; o_jacfwd : U -> U;
  o_score : S -> U -> U; o_chol_info : S -> U -> U;
  o_solve : U -> U -> U;
  o_mvn_sample : K -> U -> U -> U;
  o_mvn_log_prob : U -> U -> U -> xnum        (* iwls_utils.mvn_log_prob *)
}.
Arguments o_split {K S P U KS MHP}.
Arguments o_step_size {K S P U KS MHP}.
Arguments o_position {K S P U KS MHP}.
Arguments o_ravel {K S P U KS MHP}.
Arguments o_shape {K S P U KS MHP}.
Arguments o_normal {K S P U KS MHP}.
Arguments o_lit {K S P U KS MHP}.
Arguments o_add {K S P U KS MHP}.
Arguments o_sub {K S P U KS MHP}.
Arguments o_mul {K S P U KS MHP}.
Arguments o_div {K S P U KS MHP}.
Arguments o_pow {K S P U KS MHP}.
Arguments o_proposal_fn {K S P U KS MHP}.
Arguments o_mhp_position {K S P U KS MHP}.
Arguments o_mhp_log_correction {K S P U KS MHP}.
Arguments o_flat_log_prob_fn {K S P U KS MHP}.
Arguments o_grad {K S P U KS MHP}.
Arguments o_jacfwd {K S P U KS MHP}.
Arguments o_score {K S P U KS MHP}.
Arguments o_chol_info {K S P U KS MHP}.
Arguments o_solve {K S P U KS MHP}.
Arguments o_mvn_sample {K S P U KS MHP}.
Arguments o_mvn_log_prob {K S P U KS MHP}.

(* the ingredients of a transition of kind k on model m: current state st, proposal p, the kernel's own
   correction ingredients, accept key *)
Definition kingr_of {K S P : Type} (uniform_o : K -> xnum) (m : gmodel S P) (st : S) (p : P)
    (user fwd bwd : xnum) (subkey : K) : kingr :=
  mkKI (m_log_prob m st) (m_log_prob m (m_update_state m p st)) user fwd bwd (uniform_o subkey).

(* the kernel-level C05 theorems, as one statement about an outcome r of a transition of kind k on the
   ingredients g, started with kernel state ks, proposed model state `proposed`, input model state st *)
Definition kernel_facts {S KS : Type} (exp_o : xnum -> xnum) (r : kernel_out S KS) (k : kernel_kind)
    (g : kingr) (ks : KS) (proposed st : S) : Prop :=
  (* C05_kernel_decide_is_mh_decide, C05_kernel_error_code *)
  ko_info r = mh_decide exp_o Lt (g_cur g) (g_prop g) (kernel_corr k g) (g_u g)
  /\ code (ko_info r) = (if xisnan (kernel_ratio k g) then 90%nat else 0%nat)
  (* C05_kernel_nan_is_rejection, C05_kernel_undefined_is_rejection *)
  /\ (ingr_nan k g = true \/ xisnan (kernel_ratio k g) = true ->
      code (ko_info r) = 90%nat /\ prob (ko_info r) = XFin 0 /\ accept (ko_info r) = false
      /\ ko_mstate r = st /\ ko_kstate r = ks)
  (* C05_kernel_prob_range, C05_kernel_accept_iff *)
  /\ (exists q, prob (ko_info r) = XFin q /\ 0 <= q /\ q <= 1)
  /\ (forall qu qp, g_u g = XFin qu -> prob (ko_info r) = XFin qp ->
      (accept (ko_info r) = true <-> qu < qp))
  (* C05_kernel_state_select *)
  /\ ko_kstate r = ks
  /\ (accept (ko_info r) = false -> ko_mstate r = st)
  /\ (accept (ko_info r) = true -> ko_mstate r = proposed).

(* transfer: they hold of any outcome equal to the model's transition *)
Theorem tie_kernel_facts {S KS : Type} (exp_o : xnum -> xnum) (r : kernel_out S KS) k g ks proposed st :
  r = kernel_transition exp_o Forward Lt k g ks proposed st ->
  exp_ok exp_o -> unit_interval (g_u g) ->
  kernel_facts exp_o r k g ks proposed st.
Proof.
  intros -> He Hu. unfold kernel_facts.
  split; [reflexivity|].
  split; [apply kernel_error_code|].
  split.
  { intros [Hn|Hn].
    - exact (kernel_nan_is_rejection exp_o He k g ks proposed st Hu Hn).
    - exact (kernel_undefined_is_rejection exp_o He k g ks proposed st Hu Hn). }
  split; [apply kernel_prob_range; exact He|].
  split; [intros qu qp; apply kernel_accept_iff|].
  exact (kernel_state_select exp_o Forward Lt k g ks proposed st).
Qed.

(* non-vacuity: the IWLS witness of MHKernelProofs.v (backward density NaN) satisfies the hypotheses, and
   the facts give code 90 and the input state *)
Example kernel_facts_witness :
  kernel_facts exp_stub (kernel_transition exp_stub Forward Lt KIWLS g_witness tt 1%nat 0%nat)
    KIWLS g_witness tt 1%nat 0%nat
  /\ ingr_nan KIWLS g_witness = true.
Proof.
  split; [|reflexivity].
  apply tie_kernel_facts; [reflexivity | exact exp_stub_ok |].
  exists (1#4). split; [reflexivity|]. split; [discriminate|reflexivity].
Qed.

Ltac tie_c05_kernel mh_is_model :=
  cbv zeta; rewrite mh_is_model; unfold kingr_of, mh_step_model, kernel_transition, kernel_decide;
  cbn [fst snd g_cur g_prop g_user g_fwd g_bwd g_u kernel_corr apply_san]; reflexivity.
