(* C04 - independent randomness makes the sequence matrix the matrix product; shared randomness does not. *)
From Coq Require Import Reals List Bool Arith Lra Lia.
Import ListNotations.
From LV Require Import Goose.Markov Goose.MarkovProofs Goose.Keys Goose.MarkovRand.
Open Scope R_scope.

Section Indep.
Context {X W1 W2 : Type}.
Variable eqb : X -> X -> bool.
Hypothesis eqb_spec : eqb_ok eqb.
Variable xs : list X.
Hypothesis xs_nodup : NoDup xs.
Variable Om1 : list W1.
Variable Om2 : list W2.
Variable pr1 : W1 -> R.
Variable pr2 : W2 -> R.
Variable K1 : W1 -> X -> X.
Variable K2 : W2 -> X -> X.
Hypothesis K1_closed : forall om x, In om Om1 -> In x xs -> In (K1 om x) xs.

Lemma indep_is_product x y : In x xs ->
  mat_of eqb (list_prod Om1 Om2) (pr_indep pr1 pr2) (compose_indep K1 K2) x y
  = seq_kernel xs (mat_of eqb Om1 pr1 K1) (mat_of eqb Om2 pr2 K2) x y.
Proof.
  intros Hx. unfold mat_of at 1. rewrite rsum_list_prod.
  unfold seq_kernel. unfold mat_of at 1.
  transitivity (rsum Om1 (fun om1 => rsum xs (fun z => pr1 om1 * ind eqb (K1 om1 x) z * mat_of eqb Om2 pr2 K2 z y))).
  - apply rsum_ext_in. intros om1 H1.
    transitivity (pr1 om1 * rsum xs (fun z => if eqb (K1 om1 x) z then mat_of eqb Om2 pr2 K2 z y else 0)).
    + rewrite (rsum_delta eqb eqb_spec xs (K1 om1 x)) by (try assumption; apply K1_closed; assumption).
      unfold mat_of. rewrite <- rsum_scal_l. apply rsum_ext_in. intros om2 _.
      unfold pr_indep, compose_indep. cbn [fst snd]. ring.
    + rewrite <- rsum_scal_l. apply rsum_ext_in. intros z _. unfold ind.
      destruct (eqb (K1 om1 x) z); ring.
  - rewrite rsum_swap. apply rsum_ext_in. intros z _.
    rewrite <- rsum_scal_r. apply rsum_ext_in. intros om1 _. reflexivity.
Qed.

Lemma indep_sequence_invariant w :
  invariant xs w (mat_of eqb Om1 pr1 K1) -> invariant xs w (mat_of eqb Om2 pr2 K2) ->
  invariant xs w (mat_of eqb (list_prod Om1 Om2) (pr_indep pr1 pr2) (compose_indep K1 K2)).
Proof.
  intros H1 H2 y Hy.
  rewrite <- (seq_invariant xs w _ _ H1 H2 y Hy).
  apply rsum_ext_in. intros x Hx. rewrite indep_is_product by exact Hx. reflexivity.
Qed.
End Indep.

(* ---- the keys of one KernelSequence transition ---- *)
Lemma split_inj k m i j : split k m i = split k m j -> i = j.
Proof. unfold split. intros H. apply app_inv_head in H. congruence. Qed.

Lemma seq_keys_independent k m : keys_independent k (seq_keys k m).
Proof.
  split.
  - unfold seq_keys. apply FinFun.Injective_map_NoDup; [|apply seq_NoDup].
    intros i j. apply split_inj.
  - unfold seq_keys. rewrite in_map_iff. intros (i & H & _).
    apply (f_equal (@length _)) in H. unfold split in H. rewrite app_length in H. cbn in H. lia.
Qed.

Lemma stale_keys_refuted k m : (2 <= m)%nat -> ~ keys_independent k (stale_keys k m).
Proof.
  intros Hm [H _]. destruct m as [|[|m]]; try lia.
  unfold stale_keys in H. cbn [seq map] in H. inversion H as [|a l Hn _]; subst.
  apply Hn. left. reflexivity.
Qed.

(* ---- shared randomness: refuted ---- *)
Ltac in4 :=
  repeat match goal with
         | H : In _ _ |- _ => cbn [In xs4 om2] in H
         | H : _ \/ _ |- _ => destruct H
         | H : False |- _ => destruct H
         end; subst.

Lemma Ka_invariant : invariant xs4 w4 (mat_of Nat.eqb om2 pr2 Ka).
Proof. intros y Hy. unfold xs4 in Hy. in4; cbv [rsum fold_right xs4 om2 mat_of ind Ka Nat.eqb w4 pr2]; lra. Qed.

Lemma Kb_invariant : invariant xs4 w4 (mat_of Nat.eqb om2 pr2 Kb).
Proof. intros y Hy. unfold xs4 in Hy. in4; cbv [rsum fold_right xs4 om2 mat_of ind Kb Nat.eqb w4 pr2]; lra. Qed.

Lemma xs4_nodup : NoDup xs4.
Proof. unfold xs4. repeat constructor; cbn; intuition discriminate. Qed.

Lemma Ka_closed om x : In om om2 -> In x xs4 -> In (Ka om x) xs4.
Proof. intros Ho Hx. unfold om2, xs4 in *. in4; cbn; tauto. Qed.

Lemma indep_example :
  invariant xs4 w4 (mat_of Nat.eqb (list_prod om2 om2) (pr_indep pr2 pr2) (compose_indep Ka Kb)).
Proof.
  apply (indep_sequence_invariant Nat.eqb Nat.eqb_eq xs4 xs4_nodup om2 om2 pr2 pr2 Ka Kb Ka_closed w4).
  - exact Ka_invariant.
  - exact Kb_invariant.
Qed.

Lemma shared_not_invariant : ~ invariant xs4 w4 (mat_of Nat.eqb om2 pr2 (compose_shared Ka Kb)).
Proof.
  intros H. pose proof (H 1%nat (or_intror (or_introl eq_refl))) as E.
  cbv [rsum fold_right xs4 om2 mat_of ind compose_shared Ka Kb Nat.eqb w4 pr2] in E. lra.
Qed.

Theorem thm_shared_randomness_refuted :
  exists (xs : list nat) (w : nat -> R) (Om : list nat) (pr : nat -> R) (K1 K2 : nat -> nat -> nat),
    NoDup xs /\ positive xs w /\ rsum Om pr = 1 /\
    invariant xs w (mat_of Nat.eqb Om pr K1) /\ invariant xs w (mat_of Nat.eqb Om pr K2) /\
    invariant xs w (mat_of Nat.eqb (list_prod Om Om) (pr_indep pr pr) (compose_indep K1 K2)) /\
    ~ invariant xs w (mat_of Nat.eqb Om pr (compose_shared K1 K2)).
Proof.
  exists xs4, w4, om2, pr2, Ka, Kb. repeat split.
  - exact xs4_nodup.
  - intros x _. unfold w4. lra.
  - cbv [rsum fold_right om2 pr2]. lra.
  - exact Ka_invariant.
  - exact Kb_invariant.
  - exact indep_example.
  - exact shared_not_invariant.
Qed.

Theorem thm_indep_is_product :
  forall (X W1 W2 : Type) (eqb : X -> X -> bool), eqb_ok eqb ->
  forall xs : list X, NoDup xs ->
  forall (Om1 : list W1) (Om2 : list W2) (pr1 : W1 -> R) (pr2 : W2 -> R)
         (K1 : W1 -> X -> X) (K2 : W2 -> X -> X),
  (forall om x, In om Om1 -> In x xs -> In (K1 om x) xs) ->
  (forall x y, In x xs ->
     mat_of eqb (list_prod Om1 Om2) (pr_indep pr1 pr2) (compose_indep K1 K2) x y
     = seq_kernel xs (mat_of eqb Om1 pr1 K1) (mat_of eqb Om2 pr2 K2) x y)
  /\ (forall w, invariant xs w (mat_of eqb Om1 pr1 K1) -> invariant xs w (mat_of eqb Om2 pr2 K2) ->
        invariant xs w (mat_of eqb (list_prod Om1 Om2) (pr_indep pr1 pr2) (compose_indep K1 K2))).
Proof.
  intros X W1 W2 eqb He xs Hnd Om1 Om2 pr1 pr2 K1 K2 Hc. split.
  - intros x y Hx. apply indep_is_product; assumption.
  - intros w H1 H2. apply indep_sequence_invariant; assumption.
Qed.
