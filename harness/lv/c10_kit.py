"""Harness kit for C10 (reproducible sampling, independent chains, initial values honoured).

Nothing here touches /repo.  On top of the shared engine kit (enginekit.LoggingKernel logs every call
the engine makes to a kernel together with the PRNG key it was handed) this file defines

* ``WalkKernel`` - a LoggingKernel whose transition is a key-driven integer random walk.  Every
  position is an int32 vector of 5 slots  [value, key word 0, key word 1, nth_epoch, time_in_epoch+1]:
      value_i := (3*value_i + value_((i+1) mod nk) + d_trans(key) + h_i + g_i) mod 9973,   d_trans(key) = key[0] mod 5,
  where g_i = the kernel's own position value in the model state init_state() was handed (this chain's jittered
  initial value), h_i = 0 until end_warmup and then (sum of the tuning infos handed to end_warmup) mod 9973; tune() returns
  the kernel's current value as tuning info (so a chain that is handed other chains' tuning history moves differently)
  so the stored trajectory depends on the initial value, on every key and on the order of the kernels,
  and the stored sample itself tells which key / epoch / iteration produced it;
* ``KeyGen`` - a quantity generator that returns the key and the epoch state it was handed;
* ``jitter_fn`` - a jitter function  value := value + d_jit(key), d_jit(key) = key[1] mod 11 + 1 (never 0),
  that also writes the two key words into slots 1, 2 (so the first stored sample exposes the jitter key);
* ``run_config`` - drives the real EngineBuilder / Engine on one configuration and returns plain data;
* ``py_events`` - the key flow of a configuration as paths of the splitting tree (the harness's own
  reading of the code; every run certifies inside Coq that it equals the Gallina model's paths).
"""
from __future__ import annotations

import math
from dataclasses import dataclass

from . import enginekit as ek

MOD = 9973
SLOTS = 5
# method codes of the Coq model (CorrC10.meth_code)
MJ, MI, MS, MT, ME, MU, MW, MQ = range(8)
ROW2METH = {ek.M_INIT: MI, ek.M_START: MS, ek.M_TRANS_STD: MT, ek.M_TRANS_ADAPT: MT, ek.M_END: ME,
            ek.M_TUNE_FAST: MU, ek.M_TUNE_SLOW: MU, ek.M_ENDWARMUP: MW}
METH_NAME = {MJ: "jitter function", MI: "init_state", MS: "start_epoch", MT: "transition", ME: "end_epoch",
             MU: "tune", MW: "end_warmup", MQ: "quantity generator"}

_c: dict = {}


def lib():
    if _c:
        return _c
    L = ek._lib()
    jax, jnp = L["jax"], L["jnp"]
    from liesel.goose.kernel import DefaultTransitionInfo, TransitionOutcome
    from liesel.goose.pytree import register_dataclass_as_pytree

    def words(key):
        if hasattr(key, "dtype") and jnp.issubdtype(key.dtype, jax.dtypes.prng_key):
            key = jax.random.key_data(key)
        return jnp.asarray(key, dtype=jnp.uint32)

    def as_i32(u):
        return jax.lax.bitcast_convert_type(u, jnp.int32)

    def i32(x):
        return jnp.asarray(x, dtype=jnp.int32)

    from liesel.goose.kernel import TuningOutcome, WarmupOutcome

    @register_dataclass_as_pytree
    @dataclass
    class WalkState:
        n: object      # as enginekit.LogState
        buf: object
        h: object      # what end_warmup folded out of the tuning history (0 before)
        g: object      # what init_state read from the model state: the kernel's own (jittered) initial value

    @register_dataclass_as_pytree
    @dataclass
    class WalkTuneInfo:
        error_code: object
        time: object
        val: object    # state-dependent: the kernel's current position value

    class WalkKernel(L["LoggingKernel"]):
        def __init__(self, idx, nk):
            super().__init__(idx, False)
            self.nk = nk

        def _log(self, ks, row):
            base = super()._log(ks, row)
            return WalkState(n=base.n, buf=base.buf, h=ks.h, g=ks.g)

        def init_state(self, prng_key, model_state):
            # the kernel state depends on the VALUES of this chain's (jittered) initial model state
            ks = WalkState(n=i32(0), buf=jnp.full((ek.CAP, ek.W), -7, dtype=jnp.int32), h=i32(0),
                           g=i32(model_state[f"p{self.idx}"][0]))
            return self._log(ks, self._row(ek.M_INIT, prng_key, model_state))

        def _tune(self, meth, prng_key, kernel_state, model_state, epoch, history):
            ks = self._log(kernel_state, self._row(meth, prng_key, model_state, epoch, history, True))
            info = WalkTuneInfo(error_code=i32(0), time=i32(epoch.time), val=i32(model_state[f"p{self.idx}"][0]))
            return TuningOutcome(info, ks)

        def end_warmup(self, prng_key, kernel_state, model_state, tuning_history):
            # documented protocol: tuning_history = this kernel's tuning infos of THIS chain, stacked over time
            if tuning_history is None:
                nt, h = 0, i32(0)
            else:
                nt = int(jnp.shape(tuning_history.time)[0])
                h = i32(jnp.sum(tuning_history.val) % MOD)
            ks = self._log(kernel_state, self._row(ek.M_ENDWARMUP, prng_key, model_state, ntune=nt))
            return WarmupOutcome(error_code=i32(0), kernel_state=WalkState(n=ks.n, buf=ks.buf, h=h, g=ks.g))

        def _trans(self, meth, prng_key, kernel_state, model_state, epoch):
            ks = self._log(kernel_state, self._row(meth, prng_key, model_state, epoch))
            w = words(prng_key)
            d = (w[0] % jnp.uint32(5)).astype(jnp.int32)
            me = model_state[f"p{self.idx}"]
            nb = model_state[f"p{(self.idx + 1) % self.nk}"]
            val = (3 * me[0] + nb[0] + d + ks.h + ks.g) % MOD
            new = jnp.stack([i32(val), as_i32(w[0]), as_i32(w[1]), i32(epoch.nth_epoch),
                             i32(epoch.time_in_epoch) + 1])
            pos = {f"p{self.idx}": new, "clock": i32(model_state["clock"]) + 1}
            new_state = self.model.update_state(pos, model_state)
            info = DefaultTransitionInfo(error_code=i32(0), acceptance_prob=jnp.float32(1.0),
                                         position_moved=i32(1))
            return TransitionOutcome(info, ks, new_state)

    @register_dataclass_as_pytree
    @dataclass
    class KeyQuant:
        error_code: object
        kw0: object
        kw1: object
        nth: object
        tin: object

    class KeyGen:
        error_book = {0: "no errors"}

        def __init__(self, g):
            self.g = g
            self.identifier = f"gen{g}"

        def set_model(self, model):
            pass

        def has_model(self):
            return True

        def generate(self, prng_key, model_state, epoch):
            w = words(prng_key)
            return KeyQuant(i32(0), as_i32(w[0]), as_i32(w[1]), i32(epoch.nth_epoch), i32(epoch.time_in_epoch))

    def jitter_fn(key, value):
        w = words(key)
        d = (w[1] % jnp.uint32(11)).astype(jnp.int32) + 1
        return jnp.stack([value[0] + d, as_i32(w[0]), as_i32(w[1]), value[3], value[4]])

    _c.update(L)
    _c.update(WalkKernel=WalkKernel, KeyGen=KeyGen, KeyQuant=KeyQuant, jitter_fn=jitter_fn)
    return _c


def d_trans(kw):
    return int(kw[0]) % 5


def d_jit(kw):
    return int(kw[1]) % 11 + 1


def root_key(cfg):
    """the concrete root key the configuration's seed stands for (PRNGKey is the oracle `prngkey`)"""
    L = lib()
    np, jax = L["np"], L["jax"]
    s = cfg["seed"]
    if cfg["seed_kind"] == "int":
        k = np.asarray(jax.random.PRNGKey(int(s))).astype(np.uint32)
        return [int(k[0]), int(k[1])]
    return [int(s[0]), int(s[1])]


ETAG = (200, 1)         # path standing for the key installed by set_engine_seed (CorrC10.tagkey 1)


def engine_root_key(cfg):
    """the concrete key set_engine_seed installs (int: PRNGKey(int); key: the key itself)"""
    L = lib()
    np, jax = L["np"], L["jax"]
    es = cfg["eseed"]
    if es[0] == "int":
        k = np.asarray(jax.random.PRNGKey(int(es[1]))).astype(np.uint32)
        return [int(k[0]), int(k[1])]
    return [int(es[1][0]), int(es[1][1])]


def overridden(cfg):
    es = cfg.get("eseed")
    return es is not None and es[0] in ("int", "key")


def concrete_key(cfg, path):
    """the concrete key of a path of the configuration's key flow"""
    if path and tuple(path[0]) == ETAG:
        return ek.derive_key(engine_root_key(cfg), path[1:])
    return ek.derive_key(root_key(cfg), path)


def pos_names(cfg):
    return [f"p{k}" for k in range(cfg["nker"])] + ["x"]


def builder_chunk(cfg):
    durs = [int(e[1]) for e in cfg["sched"][1:]]
    return math.gcd(*durs) if durs else 0


# ------------------------------------------------------------------------------------------------
def run_config(cfg):
    """cfg = {seed_kind: 'int'|'key', seed: int | [w0, w1], nch, nker, nqg, sched: [[ty, dur, thin], ...],
              via: 'builder'|'engine', chunk: int (only read for via='engine'),
              jit: None | [position names in dict order],
              init_mode: 'replicate'|'per_chain', init: [[slot-0 values of p0..p(nk-1), x], ...]
                         (one row for 'replicate', one row per supplied chain for 'per_chain'),
              optional: eseed: ['int', s] | ['key', [w0, w1]] | ['ctor']   (EngineBuilder.set_engine_seed),
                        builds: how often build() is called (the last engine is run),
                        pre_init: {mode, init} set and built (engine dropped) before the real initial values,
                        jit_pre: [None | [names], ...] earlier set_jitter_fns calls (then jit, None = set_jitter_fns(None))}
    Returns a dict of plain Python data (error = None or the exception class name)."""
    L = lib()
    jax, jnp, np, gs = L["jax"], L["jnp"], L["np"], L["gs"]
    nch, nk, nq = cfg["nch"], cfg["nker"], cfg["nqg"]
    names = pos_names(cfg)
    out = {"error": None}

    def vec(v):
        return [int(v), -1, -1, -1, -1]

    def make_state(mode, rows):
        if mode == "replicate":
            st = {"clock": jnp.int32(0), "cid": jnp.int32(0)}
            for j, nm in enumerate(names):
                st[nm] = jnp.asarray(vec(rows[0][j]), dtype=jnp.int32)
        else:
            m = len(rows)
            st = {"clock": jnp.zeros((m,), dtype=jnp.int32), "cid": jnp.zeros((m,), dtype=jnp.int32)}
            for j, nm in enumerate(names):
                st[nm] = jnp.asarray([vec(r[j]) for r in rows], dtype=jnp.int32)
        return st

    state = make_state(cfg["init_mode"], cfg["init"])

    kernels = [L["WalkKernel"](k, nk) for k in range(nk)]
    gens = [L["KeyGen"](g) for g in range(nq)]
    model = gs.DictInterface(lambda st: jnp.float32(0.0))
    epochs = [ek.epoch_config(c) for c in cfg["sched"]]
    if cfg["seed_kind"] == "int":
        seed = int(cfg["seed"])
    else:
        seed = jnp.asarray(cfg["seed"], dtype=jnp.uint32)
    try:
        builder = gs.EngineBuilder(seed=seed, num_chains=nch)
        builder.show_progress = False
        builder.store_kernel_states = True
        builder.set_model(model)
        for k in kernels:
            builder.add_kernel(k)
        for g in gens:
            builder.add_quantity_generator(g)
        builder.positions_included = ["x"]
        builder.set_epochs(epochs)
        es = cfg.get("eseed")
        if es is not None:
            if es[0] == "int":
                builder.set_engine_seed(int(es[1]))
            elif es[0] == "key":
                builder.set_engine_seed(jnp.asarray(es[1], dtype=jnp.uint32))
            else:                                   # "ctor": hand the constructor's own engine key back
                builder.set_engine_seed(builder.engine_seed)
        # earlier set_jitter_fns calls (the last call must win; None clears)
        for jp in cfg.get("jit_pre") or []:
            builder.set_jitter_fns(None if jp is None else {nm: L["jitter_fn"] for nm in jp})
        if cfg["jit"] is not None:
            builder.set_jitter_fns({nm: L["jitter_fn"] for nm in cfg["jit"]})
        elif cfg.get("jit_pre"):
            builder.set_jitter_fns(None)
        pre = cfg.get("pre_init")
        if pre is not None and cfg["via"] == "builder":
            # builder reuse: other initial values are set and an engine is built (and dropped) first
            builder.set_initial_values(make_state(pre["mode"], pre["init"]),
                                       multiple_chains=(pre["mode"] == "per_chain"))
            builder.build()
        builder.set_initial_values(state, multiple_chains=(cfg["init_mode"] == "per_chain"))
        if cfg["via"] == "builder":
            for _ in range(int(cfg.get("builds", 1))):
                engine = builder.build()            # the engine under test is the last one built
            chunk = builder_chunk(cfg)
        else:
            # the public Engine constructor with the ingredients the builder would pass, except for the
            # jitted duration (no jitter, per-chain states only)
            for idx, k in enumerate(kernels):
                k.set_model(model)
                k.identifier = f"kernel_{idx:02d}"
            chunk = int(cfg["chunk"])
            engine = L["Engine"](seeds=jax.random.split(builder.engine_seed, nch), model_states=state,
                                 kernel_sequence=L["KernelSequence"](kernels), epoch_configs=epochs,
                                 jitted_sample_duration=chunk, model=model, position_keys=names,
                                 store_kernel_states=True, quantity_generators=gens, show_progress=False)
        engine.sample_all_epochs()
        res = engine.get_results()
        pos = res.positions.combine_all().unwrap()
        stored = {nm: np.asarray(pos[nm]).astype(np.int64) for nm in names}      # (chain, T, 5)
        quants = None
        if nq:
            gq = res.generated_quantities.unwrap().combine_all().unwrap()
            quants = {g: {f: np.asarray(getattr(v, f)).astype(np.int64) for f in ("kw0", "kw1", "nth", "tin")}
                      for g, v in gq.items()}
        if len(cfg["sched"]) > 1:
            logs = ek.read_logs(engine, cfg["sched"], chunk)
        else:
            logs = None      # initial-values epoch only: nothing was sampled, the kernel logs are not exposed
    except Exception as ex:  # mapped to a small enum: the class name
        out["error"] = type(ex).__name__
        out["message"] = str(ex)[:300]
        return out

    T = stored[names[0]].shape[1]
    out["n_stored"] = int(T)
    out["chains"] = int(stored[names[0]].shape[0])
    # per chain, per stored sample: all slots of all tracked positions
    out["stored"] = [[[[int(v) for v in stored[nm][c, t]] for nm in names] for t in range(T)]
                     for c in range(out["chains"])]
    if quants is not None:
        out["quants"] = [[[(int(q["kw0"][c, t]) & 0xFFFFFFFF, int(q["kw1"][c, t]) & 0xFFFFFFFF,
                            int(q["nth"][c, t]), int(q["tin"][c, t])) for t in range(q["kw0"].shape[1])]
                          for c in range(q["kw0"].shape[0])]
                         for q in (quants[f"gen{g}"] for g in range(nq))]           # [gen][chain][t]
    else:
        out["quants"] = []
    out["logs"] = logs
    return out


# ------------------------------------------------------------------------------------------------
# the key flow as paths (read from builder.py / engine.py / kernel_sequence.py)
# ------------------------------------------------------------------------------------------------
def py_events(cfg, chunk):
    """-> (uses, splits) or None when _sample_for_duration raises.
    uses = [((chain, meth, idx, epoch, time), path)], splits = [(path, n)], path = tuple of (n, i)."""
    nch, nk, nq = cfg["nch"], cfg["nker"], cfg["nqg"]
    uses, splits = [], []

    def sp(k, n, i):
        return k + ((n, i),)

    root = ()
    splits.append((root, 3))
    eng, jit = sp(root, 3, 1), sp(root, 3, 2)
    if overridden(cfg):
        eng = (ETAG,)
    splits.append((eng, nch))
    if cfg["jit"] is not None:
        nfn = len(cfg["jit"])
        splits.append((jit, nfn))
        for f in range(nfn):
            jk = sp(jit, nfn, f)
            splits.append((jk, nch))
            for c in range(nch):
                uses.append(((c, MJ, f, 0, 0), sp(jk, nch, c)))
    # program
    prog = [("init",)]
    warm = False
    for e, (ty, dur, _th) in enumerate(cfg["sched"]):
        if ty == 0:
            prog.append(("initial", e))
            continue
        if chunk == 0 or dur % chunk:
            return None
        if not warm and ty == 4:
            prog.append(("endwarmup", e))
            warm = True
        prog.append(("start", e))
        for j in range(dur // chunk):
            prog.append(("chunk", e, j))
        prog.append(("end", e, dur))
        if ty in (1, 2):
            prog.append(("tune", e, dur))
    for c in range(nch):
        carry = sp(eng, nch, c)

        def kseq(m, e, t, k):
            splits.append((k, nk))
            for i in range(nk):
                uses.append(((c, m, i, e, t), sp(k, nk, i)))

        def one(m, e, t):
            nonlocal carry
            splits.append((carry, 2))
            kseq(m, e, t, sp(carry, 2, 1))
            carry = sp(carry, 2, 0)

        for op in prog:
            if op[0] == "init":
                one(MI, 0, 0)
            elif op[0] == "initial":
                for g in range(nq):
                    splits.append((carry, 2))
                    uses.append(((c, MQ, g, op[1], 1), sp(carry, 2, 1)))
                    carry = sp(carry, 2, 0)
            elif op[0] == "endwarmup":
                one(MW, op[1], 0)
            elif op[0] == "start":
                one(MS, op[1], 0)
            elif op[0] == "end":
                one(ME, op[1], op[2])
            elif op[0] == "tune":
                one(MU, op[1], op[2])
            else:
                _, e, j = op
                splits.append((carry, chunk + 1))
                for it in range(chunk):
                    k = sp(carry, chunk + 1, it + 1)
                    t = j * chunk + it
                    splits.append((k, 2))
                    kseq(MT, e, t, sp(k, 2, 0))
                    if nq:
                        kq = sp(k, 2, 1)
                        splits.append((kq, nq))
                        for g in range(nq):
                            uses.append(((c, MQ, g, e, t + 1), sp(kq, nq, g)))
                carry = sp(carry, chunk + 1, 0)
    return uses, splits


def encode(path):
    acc = 1
    for (n, i) in path:
        assert 0 <= n < 256 and 0 <= i < 256
        acc = acc * 65536 + n * 256 + i
    return acc


def observed_calls(cfg, obs):
    """every call of the run that exposes its key -> [((chain, meth, idx, epoch, time), (kw0, kw1), where)]"""
    calls = []
    nk, nq = cfg["nker"], cfg["nqg"]
    logs = obs["logs"] or []
    for c, per_k in enumerate(logs):
        for kidx, rows in enumerate(per_k):
            for j, r in enumerate(rows):
                m = ROW2METH[r[ek.C_METH]]
                if m == MI:
                    e, t = 0, 0
                elif m == MW:
                    # end_warmup sees no epoch: it belongs to the epoch whose start_epoch follows it
                    nxt = rows[j + 1] if j + 1 < len(rows) else None
                    e, t = (nxt[ek.C_NTH] if nxt is not None else len(cfg["sched"])), 0
                else:
                    e, t = r[ek.C_NTH], r[ek.C_TIN]
                calls.append(((c, m, r[ek.C_KIDX], e, t), (r[ek.C_KEY0], r[ek.C_KEY1]), "kernel log"))
    for g in range(nq):
        for c, seq in enumerate(obs["quants"][g]):
            for (k0, k1, nth, tin) in seq:
                calls.append(((c, MQ, g, nth, tin), (k0, k1), "stored quantity"))
    if cfg["jit"] is not None:
        names = pos_names(cfg)
        for f, nm in enumerate(cfg["jit"]):
            j = names.index(nm)
            for c in range(obs["chains"]):
                first = obs["stored"][c][0][j]
                calls.append(((c, MJ, f, 0, 0), (first[1] & 0xFFFFFFFF, first[2] & 0xFFFFFFFF), "first stored sample"))
    return calls


def stored_values(cfg, obs):
    """per chain: [(epoch, time_in_epoch, [slot-0 values])]; (epoch, time) as the engine handed them to
    kernel 0 (slots 3, 4 of p0); the first stored sample belongs to the initial-values epoch"""
    out = []
    for c in range(obs["chains"]):
        seq = []
        for t, samp in enumerate(obs["stored"][c]):
            vals = [s[0] for s in samp]
            if t == 0 and samp[0][3] == -1:
                seq.append((0, 1, vals))
            else:
                seq.append((samp[0][3], samp[0][4], vals))
        out.append(seq)
    return out


def split_children(cfg, chunk, keys):
    """for every observed key k and every fan-out n the code uses: the keys jax.random.split(k, n) ->
    {child key: (parent key, n, i)}  (to detect a consumed key that was also split)"""
    L = lib()
    jax, jnp, np = L["jax"], L["jnp"], L["np"]
    if not keys:
        return {}
    arr = jnp.asarray(np.asarray(keys, dtype=np.uint32))
    fan = {2, 3, cfg["nch"], cfg["nker"], cfg["nqg"], chunk + 1, len(cfg["jit"] or [])} - {0}
    out = {}
    for n in sorted(fan):
        ch = np.asarray(jax.vmap(lambda k: jax.random.split(k, n))(arr)).astype(np.uint32)     # (m, n, 2)
        for a in range(ch.shape[0]):
            for i in range(n):
                out[(int(ch[a, i, 0]), int(ch[a, i, 1]))] = (tuple(keys[a]), n, i)
    return out


# ------------------------------------------------------------------------------------------------
# the same configuration in a fresh interpreter process (other string-hash seed)
# ------------------------------------------------------------------------------------------------
def spawn_run(cfg, hashseed):
    """start `python -m lv.c10_kit` on cfg in a new process with PYTHONHASHSEED=hashseed"""
    import json
    import os
    import subprocess
    import sys
    env = dict(os.environ)
    env["PYTHONHASHSEED"] = str(hashseed)
    p = subprocess.Popen([sys.executable, "-m", "lv.c10_kit"], stdin=subprocess.PIPE, stdout=subprocess.PIPE,
                         stderr=subprocess.DEVNULL, env=env, text=True)
    p.stdin.write(json.dumps(cfg))
    p.stdin.close()
    return p


def collect_run(p, timeout=600):
    import json
    try:
        out = p.stdout.read()
        p.wait(timeout=timeout)
    except Exception as ex:
        p.kill()
        return {"error": "SubprocessFailed", "message": repr(ex)}
    for line in reversed(out.splitlines()):
        if line.startswith("C10OBS "):
            return json.loads(line[7:])
    return {"error": "SubprocessFailed", "message": out[-300:]}


if __name__ == "__main__":
    import json
    import sys
    _cfg = json.loads(sys.stdin.read())
    print("C10OBS " + json.dumps(run_config(_cfg)))
